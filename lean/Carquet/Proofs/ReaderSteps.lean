import Carquet.Proofs.ReaderBounds
/-
Progress of page iteration (helper lemmas for C04_steps_linear): a page header that parses
occupies at least one byte, so every successful page load moves the page offset forward, and a
load succeeds only at an offset with at least 8 bytes of file behind it.
-/
namespace Carquet.Proofs.ReaderSteps
open Carquet.Impl Carquet.Impl.Reader Carquet.Impl.Thrift Carquet.Impl.ThriftParquet
open Carquet.Proofs.ReaderBounds

theorem setError_status_ne (d : Dec) (e : Thrift.Err) : (d.setError e).status ≠ none := by
  unfold Dec.setError
  split
  · simp
  · rename_i x hx; simp [hx]

theorem fieldLoop_succ_false {σ : Type} (stop : σ → Bool) (body : Nat → Int → Dec → σ → σ × Dec) (f : Nat) (d : Dec) (s : σ)
    (h : (readFieldBegin d).more = false) : fieldLoop stop body (f + 1) d s = (s, (readFieldBegin d).dec) := by
  rw [fieldLoop]; simp only [h]

theorem fieldLoop_succ_stop {σ : Type} (stop : σ → Bool) (body : Nat → Int → Dec → σ → σ × Dec) (f : Nat) (d : Dec) (s : σ)
    (h : (readFieldBegin d).more = true)
    (hs : stop (body (readFieldBegin d).ty (readFieldBegin d).fid (readFieldBegin d).dec s).1 = true) :
    fieldLoop stop body (f + 1) d s = body (readFieldBegin d).ty (readFieldBegin d).fid (readFieldBegin d).dec s := by
  rw [fieldLoop]; simp only [h, hs, if_true]

theorem fieldLoop_succ_go {σ : Type} (stop : σ → Bool) (body : Nat → Int → Dec → σ → σ × Dec) (f : Nat) (d : Dec) (s : σ)
    (h : (readFieldBegin d).more = true)
    (hs : stop (body (readFieldBegin d).ty (readFieldBegin d).fid (readFieldBegin d).dec s).1 = false) :
    fieldLoop stop body (f + 1) d s =
      fieldLoop stop body f (body (readFieldBegin d).ty (readFieldBegin d).fid (readFieldBegin d).dec s).2
        (body (readFieldBegin d).ty (readFieldBegin d).fid (readFieldBegin d).dec s).1 := by
  rw [fieldLoop]; simp only [h, hs]; simp

/-- `read_field_begin` says "no more fields" without an error only after consuming a stop byte -/
theorem readFieldBeginK_more (h0 : UInt8) (d : Dec) : (readFieldBeginK h0 d).more = true := by
  unfold readFieldBeginK; split <;> rfl

theorem readFieldBegin_stop (d : Dec) (h : (readFieldBegin d).more = false) (hs : (readFieldBegin d).dec.status = none) :
    1 ≤ (readFieldBegin d).dec.pos := by
  cases hst : d.status with
  | some e =>
    have : (readFieldBegin d).dec = d := by simp [readFieldBegin, hst]
    rw [this, hst] at hs; cases hs
  | none =>
    cases hr : d.rest with
    | nil =>
      have : (readFieldBegin d).dec = d.setError .truncated := by simp [readFieldBegin, hst, hr]
      rw [this] at hs
      exact absurd hs (setError_status_ne d .truncated)
    | cons h0 r =>
      by_cases hz : h0 = 0
      · have : (readFieldBegin d).dec = { d with rest := r, pos := d.pos + 1 } := by simp [readFieldBegin, hst, hr, hz]
        rw [this]; simp
      · have : (readFieldBegin d).more = (readFieldBeginK h0 { d with rest := r, pos := d.pos + 1 }).more := by
          simp [readFieldBegin, hst, hr, hz]
        rw [this, readFieldBeginK_more] at h; cases h

/-- When a top-level parse loop ends without an early return and without a decoder error, its last
step consumed the struct's stop byte: the position is at least 1. -/
theorem fieldLoop_pos {σ : Type} (body : Nat → Int → Dec → Top σ → Top σ × Dec) :
    ∀ (f : Nat) (d : Dec) (s : Top σ),
      (fieldLoop (fun s => s.abort.isSome) body f d s).1.abort = none →
      (fieldLoop (fun s => s.abort.isSome) body f d s).2.status = none →
      1 ≤ (fieldLoop (fun s => s.abort.isSome) body f d s).2.pos := by
  intro f
  induction f with
  | zero =>
    intro d s _ h2
    exact absurd h2 (setError_status_ne d .fuel)
  | succ f ih =>
    intro d s h1 h2
    cases hm : (readFieldBegin d).more
    · rw [fieldLoop_succ_false _ _ _ _ _ hm] at h2 ⊢
      exact readFieldBegin_stop d hm h2
    · cases hs : (body (readFieldBegin d).ty (readFieldBegin d).fid (readFieldBegin d).dec s).1.abort.isSome
      · rw [fieldLoop_succ_go _ _ _ _ _ hm hs] at h1 h2 ⊢
        exact ih _ _ h1 h2
      · rw [fieldLoop_succ_stop _ _ _ _ _ hm hs] at h1
        rw [h1] at hs; simp at hs

theorem topParse_consumed_pos {α : Type} (body : Nat → Int → Dec → Top α → Top α × Dec) (init : α) (data : List UInt8)
    (h : (topParse body init data).status = none) : 1 ≤ (topParse body init data).consumed := by
  unfold topParse topFinish at h ⊢
  split at h
  · cases h
  · rename_i hab
    simp only [hab]
    apply fieldLoop_pos body _ _ _ hab
    simpa [structEnd] using h

/-- a page header that parses has a positive size -/
theorem parsePageHeaderC_size (w : List UInt8) (r : ThriftParquetReq.PageHdr × Nat)
    (h : ThriftParquetReq.parsePageHeaderC w = .ok r) : 1 ≤ r.2 := by
  unfold ThriftParquetReq.parsePageHeaderC at h
  split at h
  · cases h
  · rename_i hst
    simp only [Except.ok.injEq] at h
    rw [← h]
    exact topParse_consumed_pos _ _ _ hst

/-! ### dictionaries are loaded at most once -/

/-- nothing left to do about dictionaries: the explicit dictionary step is done (no
`dictionary_page_offset`, or the dictionary is loaded) and the inline one (F52s) cannot trigger any
more (a dictionary is loaded, or a page has been stepped over) -/
def Settled (c : Col) (st : PState) : Prop :=
  (c.cm.dictionaryPageOffset = none ∨ st.dict.isSome = true) ∧ (st.dict.isSome = true ∨ 0 < st.currentPage)

theorem dictStep_settled (fx : Fixes) (L : Libs) (verify : Bool) (mode : Mode) (b : Reader.Bytes) (c : Col) (st : PState)
    (h : c.cm.dictionaryPageOffset = none ∨ st.dict.isSome = true) : dictStep fx L verify mode b c st = Load.pure (.ok st) := by
  unfold dictStep
  rcases h with h | h
  · rw [h]
  · split
    · rfl
    · rw [if_pos h]

theorem inlineDictDue_settled (st : PState) (hd : ThriftParquetReq.PageHdr) (h : st.dict.isSome = true ∨ 0 < st.currentPage) :
    inlineDictDue st hd = false := by
  unfold inlineDictDue
  rcases h with h | h
  · cases hdict : st.dict with
    | none => rw [hdict] at h; cases h
    | some d => simp
  · have : ¬ st.currentPage = 0 := by omega
    simp [this]

theorem andThen_result {α β : Type} (l : Load α) (k : α → Load β) :
    (l.andThen k).result = match l.result with | .error e => .error e | .ok a => (k a).result := by
  unfold Load.andThen; split <;> simp_all

/-- a successful dictionary step leaves the explicit dictionary settled, with the same `current_page` -/
theorem dictStep_ok (fx : Fixes) (L : Libs) (verify : Bool) (mode : Mode) (b : Reader.Bytes) (c : Col) (st st' : PState)
    (h : (dictStep fx L verify mode b c st).result = .ok st') :
    (c.cm.dictionaryPageOffset = none ∨ st'.dict.isSome = true) ∧ st'.currentPage = st.currentPage ∧
    st'.valuesRemaining = st.valuesRemaining := by
  unfold dictStep at h
  split at h
  · rename_i hnone
    simp only [Load.pure, Except.ok.injEq] at h
    subst h; exact ⟨Or.inl hnone, rfl, rfl⟩
  · split at h
    · rename_i hsome
      simp only [Load.pure, Except.ok.injEq] at h
      subst h; exact ⟨Or.inr hsome, rfl, rfl⟩
    · obtain ⟨dl, _, hk⟩ := andThen_ok _ _ _ h
      simp only [Load.pure, Except.ok.injEq] at hk
      subst hk
      exact ⟨Or.inr rfl, rfl, rfl⟩

/-- a successful `prepStage`: the state it hands on is the one `stateAfterPrep` computes, it differs
from the input state at most in the dictionary and `data_start_offset`, and the header it hands on
was read at that state's page offset -/
theorem prepStage_ok (fx : Fixes) (L : Libs) (verify : Bool) (mode : Mode) (b : Reader.Bytes) (c : Col) (st : PState)
    (sh : PState × (ThriftParquetReq.PageHdr × Nat)) (h : (prepStage fx L verify mode b c st).result = .ok sh) :
    stateAfterPrep fx L verify mode b c st = sh.1 ∧ sh.1.currentPage = st.currentPage ∧
    sh.1.valuesRemaining = st.valuesRemaining ∧
    (st.dict.isSome = true → sh.1.dict.isSome = true) ∧
    (loadHeader mode b (sh.1.dataStart + sh.1.currentPage)).result = .ok sh.2 := by
  unfold prepStage at h
  rw [andThen_result] at h
  unfold stateAfterPrep
  cases hh : (loadHeader mode b (st.dataStart + st.currentPage)).result with
  | error e => rw [hh] at h; cases h
  | ok hr =>
    rw [hh] at h
    simp only at h ⊢
    by_cases hdue : inlineDictDue st hr.1 = true
    · rw [if_pos hdue] at h ⊢
      rw [andThen_result] at h
      cases hd : (loadDictionary fx L verify mode b c (st.dataStart + st.currentPage)).result with
      | error e => rw [hd] at h; cases h
      | ok dl =>
        rw [hd] at h
        simp only at h ⊢
        rw [andThen_result] at h
        cases hh2 : (loadHeader mode b dl.dataStart).result with
        | error e => rw [hh2] at h; cases h
        | ok hr2 =>
          rw [hh2] at h
          simp only [Load.pure, Except.ok.injEq] at h
          subst h
          have hcp : st.currentPage = 0 := by
            simp only [inlineDictDue, Bool.and_eq_true, decide_eq_true_eq] at hdue
            exact hdue.2
          refine ⟨rfl, rfl, rfl, fun _ => rfl, ?_⟩
          simp only [hcp, Int.add_zero]
          exact hh2
    · rw [if_neg hdue] at h ⊢
      simp only [Load.pure, Except.ok.injEq] at h
      subst h
      exact ⟨rfl, rfl, rfl, id, hh⟩

/-- the data page's header size and body size are what the page records -/
theorem finishDataPage_ok (fx : Fixes) (L : Libs) (verify : Bool) (mode : Mode) (b : Reader.Bytes) (c : Col) (st : PState)
    (hr : ThriftParquetReq.PageHdr × Nat) (p : PageLoaded) (h : (finishDataPage fx L verify mode b c st hr).result = .ok p) :
    p.headerSize = hr.2 := by
  unfold finishDataPage at h
  split at h
  · cases h
  · split at h
    · cases h
    · split at h
      · cases h
      · obtain ⟨body, _, hk2⟩ := andThen_ok _ _ _ h
        split at hk2
        · cases hk2
        · split at hk2
          · simp only [Load.pure, Except.ok.injEq] at hk2
            rw [← hk2]
          · split at hk2
            · obtain ⟨d, _, hk3⟩ := andThen_ok _ _ _ hk2
              simp only [Load.pure, Except.ok.injEq] at hk3
              rw [← hk3]
            · split at hk2
              · cases hk2
              · split at hk2
                · cases hk2
                · simp only [Load.pure, Except.ok.injEq] at hk2
                  rw [← hk2]

/-- a successful `load_next_page`: in the state it leaves behind (`stateAfterLoad`) the explicit
dictionary is settled, `current_page` is unchanged, the data page was found at that state's page
offset — inside the file with 8 bytes behind it — and its header occupies at least one byte -/
theorem loadPage_ok (fx : Fixes) (L : Libs) (verify : Bool) (mode : Mode) (b : Reader.Bytes) (c : Col) (st : PState) (p : PageLoaded)
    (h : (loadPage fx L verify mode b c st).result = .ok p) :
    (c.cm.dictionaryPageOffset = none ∨ (stateAfterLoad fx L verify mode b c st).dict.isSome = true) ∧
    (stateAfterLoad fx L verify mode b c st).currentPage = st.currentPage ∧
    (st.dict.isSome = true → (stateAfterLoad fx L verify mode b c st).dict.isSome = true) ∧
    0 ≤ (stateAfterLoad fx L verify mode b c st).dataStart + st.currentPage ∧
    ((stateAfterLoad fx L verify mode b c st).dataStart + st.currentPage).toNat + 8 ≤ b.length ∧
    1 ≤ p.headerSize := by
  unfold loadPage at h
  obtain ⟨st1, hst1, hk⟩ := andThen_ok _ _ _ h
  have hs := dictStep_ok fx L verify mode b c st st1 hst1
  unfold loadDataPage at hk
  obtain ⟨sh, hsh, hfin⟩ := andThen_ok _ _ _ hk
  have hp := prepStage_ok fx L verify mode b c st1 sh hsh
  have hstate : stateAfterLoad fx L verify mode b c st = sh.1 := by
    unfold stateAfterLoad; rw [hst1]; exact hp.1
  have hhdr := loadHeader_ok mode b _ sh.2 hp.2.2.2.2
  obtain ⟨W, hW⟩ := hhdr.2.2
  have hsz := parsePageHeaderC_size _ sh.2 hW
  have hfo := finishDataPage_ok fx L verify mode b c sh.1 sh.2 p hfin
  rw [hstate]
  have hcp : sh.1.currentPage = st.currentPage := by rw [hp.2.1, hs.2.1]
  refine ⟨?_, hcp, ?_, ?_, ?_, by omega⟩
  · rcases hs.1 with h1 | h1
    · exact Or.inl h1
    · exact Or.inr (hp.2.2.2.1 h1)
  · intro hsome
    apply hp.2.2.2.1
    -- the explicit step keeps a loaded dictionary
    unfold dictStep at hst1
    split at hst1
    · simp only [Load.pure, Except.ok.injEq] at hst1; rw [← hst1]; exact hsome
    · split at hst1
      · simp only [Load.pure, Except.ok.injEq] at hst1; rw [← hst1]; exact hsome
      · rename_i hnone; exact absurd hsome hnone
  · rw [← hcp]; exact hhdr.1
  · rw [← hcp]; exact hhdr.2.1

/-- once settled, a load attempt changes nothing about the state -/
theorem stateAfterLoad_settled (fx : Fixes) (L : Libs) (verify : Bool) (mode : Mode) (b : Reader.Bytes) (c : Col) (st : PState)
    (h : Settled c st) : stateAfterLoad fx L verify mode b c st = st := by
  unfold stateAfterLoad
  rw [dictStep_settled fx L verify mode b c st h.1]
  simp only [Load.pure]
  unfold stateAfterPrep
  split
  · rfl
  · rw [inlineDictDue_settled st _ h.2]; rfl

/-! ### offsets of successful loads increase -/

def nextOff (k : Cursor) : Int := k.pre.dataStart + k.pre.currentPage

theorem pre_nextCursor_ok (fx : Fixes) (L : Libs) (verify : Bool) (mode : Mode) (b : Reader.Bytes) (c : Col) (k : Cursor) (p : PageLoaded)
    (h : (loadPage fx L verify mode b c k.pre).result = .ok p) :
    (nextCursor fx L verify mode b c k).pre = stepOver (stateAfterLoad fx L verify mode b c k.pre) p := by
  show Cursor.pre ⟨_, okPage (loadPage fx L verify mode b c k.pre).result⟩ = _
  rw [h]; rfl

theorem pre_nextCursor_err (fx : Fixes) (L : Libs) (verify : Bool) (mode : Mode) (b : Reader.Bytes) (c : Col) (k : Cursor) (e : Reader.Err)
    (h : (loadPage fx L verify mode b c k.pre).result = .error e) :
    (nextCursor fx L verify mode b c k).pre = stateAfterLoad fx L verify mode b c k.pre := by
  show Cursor.pre ⟨_, okPage (loadPage fx L verify mode b c k.pre).result⟩ = _
  rw [h]; rfl

/-- from a settled cursor on, every successful load is at or after `nextOff`, and the offsets
increase strictly -/
theorem okOffsets_settled (fx : Fixes) (L : Libs) (verify : Bool) (mode : Mode) (b : Reader.Bytes) (c : Col) :
    ∀ (n : Nat) (k : Cursor), Settled c k.pre →
      (∀ o ∈ okOffsets fx L verify mode b c n k, nextOff k ≤ o ∧ 0 ≤ o ∧ o.toNat + 8 ≤ b.length) ∧
      (okOffsets fx L verify mode b c n k).Pairwise (· < ·) := by
  intro n
  induction n with
  | zero => intro k _; exact ⟨(fun o h => by cases h), List.Pairwise.nil⟩
  | succ n ih =>
    intro k hs
    have hsd := stateAfterLoad_settled fx L verify mode b c k.pre hs
    unfold okOffsets
    cases hl : (loadPage fx L verify mode b c k.pre).result with
    | error e =>
      simp only
      have hpre := pre_nextCursor_err fx L verify mode b c k e hl
      rw [hsd] at hpre
      have := ih (nextCursor fx L verify mode b c k) (by rw [hpre]; exact hs)
      refine ⟨?_, this.2⟩
      intro o ho
      have h1 := this.1 o ho
      refine ⟨?_, h1.2⟩
      have : nextOff (nextCursor fx L verify mode b c k) = nextOff k := by unfold nextOff; rw [hpre]
      omega
    | ok p =>
      simp only
      have hok := loadPage_ok fx L verify mode b c k.pre p hl
      rw [hsd] at hok
      have hpre := pre_nextCursor_ok fx L verify mode b c k p hl
      rw [hsd] at hpre
      have hoff : pageOffset fx L verify mode b c k = nextOff k := by unfold pageOffset nextOff; rw [hsd]
      have hs' : Settled c (nextCursor fx L verify mode b c k).pre := by
        rw [hpre]
        refine ⟨hs.1, ?_⟩
        rcases hs.2 with h1 | h1
        · exact Or.inl h1
        · right; unfold stepOver; simp only; omega
      have ih' := ih (nextCursor fx L verify mode b c k) hs'
      have hnext : nextOff (nextCursor fx L verify mode b c k) = nextOff k + p.headerSize + p.compressedSize := by
        unfold nextOff; rw [hpre]; unfold stepOver; simp only; omega
      refine ⟨?_, ?_⟩
      · intro o ho
        rcases List.mem_cons.mp ho with h | h
        · rw [h, hoff]; unfold nextOff; exact ⟨Int.le_refl _, hok.2.2.2.1, hok.2.2.2.2.1⟩
        · have h1 := ih'.1 o h
          refine ⟨?_, h1.2⟩
          have := hok.2.2.2.2.2
          omega
      · apply List.Pairwise.cons
        · intro o ho
          have h1 := ih'.1 o ho
          have := hok.2.2.2.2.2
          rw [hoff]; omega
        · exact ih'.2

/-- for any cursor whose `current_page` is not negative: the offsets of the successful loads lie
inside the file with 8 bytes behind them, and increase strictly -/
theorem okOffsets_increasing (fx : Fixes) (L : Libs) (verify : Bool) (mode : Mode) (b : Reader.Bytes) (c : Col) :
    ∀ (n : Nat) (k : Cursor), 0 ≤ k.pre.currentPage →
      (∀ o ∈ okOffsets fx L verify mode b c n k, 0 ≤ o ∧ o.toNat + 8 ≤ b.length) ∧
      (okOffsets fx L verify mode b c n k).Pairwise (· < ·) := by
  intro n
  induction n with
  | zero => intro k _; exact ⟨(fun o h => by cases h), List.Pairwise.nil⟩
  | succ n ih =>
    intro k hcp
    unfold okOffsets
    cases hl : (loadPage fx L verify mode b c k.pre).result with
    | error e =>
      simp only
      apply ih
      rw [pre_nextCursor_err fx L verify mode b c k e hl]
      -- a failed load never changes `current_page`
      unfold stateAfterLoad
      cases hd : (dictStep fx L verify mode b c k.pre).result with
      | error e' => exact hcp
      | ok st1 =>
        simp only
        have h1 := (dictStep_ok fx L verify mode b c k.pre st1 hd).2.1
        unfold stateAfterPrep
        split
        · rw [h1]; exact hcp
        · split
          · split
            · rw [h1]; exact hcp
            · simp only; rw [h1]; exact hcp
          · rw [h1]; exact hcp
    | ok p =>
      simp only
      have hok := loadPage_ok fx L verify mode b c k.pre p hl
      have hpre := pre_nextCursor_ok fx L verify mode b c k p hl
      have hs' : Settled c (nextCursor fx L verify mode b c k).pre := by
        rw [hpre]
        refine ⟨hok.1, ?_⟩
        right; unfold stepOver; simp only
        have := hok.2.2.2.2.2
        rw [hok.2.1]; omega
      have tail := okOffsets_settled fx L verify mode b c n _ hs'
      have hnext : nextOff (nextCursor fx L verify mode b c k) =
          pageOffset fx L verify mode b c k + p.headerSize + p.compressedSize := by
        unfold nextOff pageOffset; rw [hpre]; unfold stepOver; simp only; rw [hok.2.1]; omega
      refine ⟨?_, ?_⟩
      · intro o ho
        rcases List.mem_cons.mp ho with h | h
        · rw [h]; unfold pageOffset; exact ⟨hok.2.2.2.1, hok.2.2.2.2.1⟩
        · exact (tail.1 o h).2
      · apply List.Pairwise.cons
        · intro o ho
          have h1 := (tail.1 o ho).1
          have := hok.2.2.2.2.2
          omega
        · exact tail.2

/-- a strictly increasing list of integers in `[lo, hi)` has at most `hi - lo` elements -/
theorem increasing_length : ∀ (l : List Int) (lo hi : Int), l.Pairwise (· < ·) → (∀ o ∈ l, lo ≤ o ∧ o < hi) →
    (l.length : Int) ≤ max (hi - lo) 0 := by
  intro l
  induction l with
  | nil => intro lo hi _ _; simp; omega
  | cons a t ih =>
    intro lo hi hp hb
    have ha := hb a (List.mem_cons_self)
    have hp' := List.pairwise_cons.mp hp
    have := ih (a + 1) hi hp'.2 (by
      intro o ho
      have h1 := hp'.1 o ho
      have h2 := hb o (List.mem_cons_of_mem _ ho)
      omega)
    simp only [List.length_cons]
    omega

end Carquet.Proofs.ReaderSteps
