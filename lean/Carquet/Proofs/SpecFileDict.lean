import Carquet.Proofs.SpecFileAdm
import Carquet.Proofs.SpecFileStats
/-
Value section of a data page in both claimed encodings: PLAIN, and dictionary indices
(PLAIN_DICTIONARY / RLE_DICTIONARY: one width byte ≤ 32, then an RLE-hybrid stream in any run
plan; the dictionary may hold duplicates and unused entries — the writer takes the first
occurrence, the reader looks every id up).  Hence the general v1 data page body.
-/
namespace Carquet.Proofs.SpecFile
open Carquet.Spec Carquet.Spec.File

theorem getElem?_indexIn {α : Type} [DecidableEq α] (v : α) : ∀ d : List α, v ∈ d →
    d[Dictionary.indexIn v d]? = some v
  | [], h => by cases h
  | x :: xs, h => by
    unfold Dictionary.indexIn
    by_cases hx : x = v
    · simp [hx]
    · have hm : v ∈ xs := by
        rcases List.mem_cons.mp h with h' | h'
        · exact absurd h'.symm hx
        · exact h'
      simp only [hx, if_false, List.getElem?_cons_succ]
      exact getElem?_indexIn v xs hm

/-- looking the first-occurrence ids up gives the values back (duplicates and unused entries in
the dictionary do no harm) -/
theorem dict_decode_indexIn (d : List Bytes) : ∀ vals : List Bytes, (∀ v ∈ vals, v ∈ d) →
    Dictionary.decode d (vals.map (fun v => Dictionary.indexIn v d)) = some vals
  | [], _ => rfl
  | v :: r, h => by
    have ih := dict_decode_indexIn d r (fun x hx => h x (by simp [hx]))
    simp only [List.map_cons, Dictionary.decode, getElem?_indexIn v d (h v (by simp)), ih]

theorem uint8_ofNat_toNat_le32 (w : Nat) (h : w ≤ 32) : (UInt8.ofNat w).toNat = w := by
  rw [UInt8.toNat_ofNat']; omega

/-- **value section**: what `valueBytes` lays out, `readValues` reads back -/
theorem readValues_written (leaf : LeafInfo) (dict : Option (List Bytes)) (enc : ValueEnc) (vals : List Bytes)
    (valB : Bytes) (hv : valueBytes leaf dict enc vals = some valB) (hok : valuesOk enc = true)
    (hvalid : ∀ v ∈ vals, validValue leaf v = true) :
    readValues leaf dict (valueEncTag enc) vals.length valB = .ok vals := by
  cases enc with
  | plain =>
    simp only [valueBytes, Option.some.injEq] at hv
    subst hv
    have h3 := plainValues_written leaf vals hvalid [] (fun _ => rfl)
    simp only [List.append_nil] at h3
    simp [readValues, valueEncTag, h3]
  | other tag payload => cases hok
  | dict tag w runs =>
    simp only [valuesOk, Bool.or_eq_true, beq_iff_eq] at hok
    cases dict with
    | none => simp [valueBytes] at hv
    | some d =>
      simp only [valueBytes] at hv
      split at hv
      · cases hv
      · rename_i hcond
        have hw : w ≤ 32 := by omega
        have hall : ∀ v ∈ vals, v ∈ d := by
          intro v hm
          have : vals.all (fun v => d.contains v) = true := by
            apply Classical.byContradiction; intro hn; exact hcond (Or.inr hn)
          rw [List.all_eq_true] at this
          simpa using this v hm
        cases he : RleHybrid.encodeWith w runs (vals.map (fun v => Dictionary.indexIn v d)) with
        | none => simp [he] at hv
        | some bs =>
          simp only [he, Option.some.injEq] at hv
          subst hv
          obtain ⟨pad, hruns⟩ := Carquet.Proofs.RleSpecEncoder.encodeWith_sound _ _ _ _ he
          have hdec := Carquet.Proofs.RleSpecDecoder.decode_complete hruns vals.length (by simp)
          have hlen : (vals.map (fun v => Dictionary.indexIn v d)).length = vals.length := by simp
          rw [← hlen, List.take_left] at hdec
          rw [hlen] at hdec
          have hne0 : ¬ ((tag : Int) = 0) := by rcases hok with rfl | rfl <;> decide
          have h28 : (tag : Int) = 2 ∨ (tag : Int) = 8 := by rcases hok with rfl | rfl <;> simp
          have hwn : ¬ (w > 32) := by omega
          unfold readValues
          simp only [valueEncTag, hne0, if_false, h28, if_true, uint8_ofNat_toNat_le32 w hw, hwn, hdec,
            dict_decode_indexIn d vals hall]

/-- **a v1 data page body in either value encoding, with the writer's statistics in its header,
is decoded to the entries it was written from** -/
theorem decodeDataPage_written_gen (leaf : LeafInfo) (dict : Option (List Bytes)) (es : List Entry)
    (repRuns defRuns : List RleHybrid.Choice) (repB defB : Bytes) (sel : StatsSel) (enc : ValueEnc) (valB : Bytes)
    (hr : levelBytes leaf.maxRep repRuns (es.map (·.rep)) = some repB)
    (hd : levelBytes leaf.maxDef defRuns (es.map (·.dl)) = some defB)
    (hwf : ∀ e ∈ es, wellFormedEntry leaf e = true)
    (hlr : repB.length < 2 ^ 32) (hld : defB.length < 2 ^ 32)
    (hv : valueBytes leaf dict enc (es.filterMap (·.val)) = some valB) (hok : valuesOk enc = true) :
    decodeDataPage leaf dict ⟨es.length, valueEncTag enc, 3, 3, statsFor leaf sel (es.map (·.dl)) (es.filterMap (·.val))⟩
      (v1Body leaf .v1 es repB defB valB) = .ok es := by
  have hrep : ∀ l ∈ es.map (·.rep), l ≤ leaf.maxRep := by
    intro l hl
    obtain ⟨e, he, rfl⟩ := List.mem_map.mp hl
    have := hwf e he
    unfold wellFormedEntry at this
    simp only [Bool.and_eq_true, decide_eq_true_eq] at this
    exact this.1.1
  have hdef : ∀ l ∈ es.map (·.dl), l ≤ leaf.maxDef := by
    intro l hl
    obtain ⟨e, he, rfl⟩ := List.mem_map.mp hl
    have := hwf e he
    unfold wellFormedEntry at this
    simp only [Bool.and_eq_true, decide_eq_true_eq] at this
    exact this.1.2
  have hvals : ∀ v ∈ es.filterMap (·.val), validValue leaf v = true := by
    intro v hv
    obtain ⟨e, he, hev⟩ := List.mem_filterMap.mp hv
    have := hwf e he
    unfold wellFormedEntry at this
    rw [hev] at this
    simp only [Bool.and_eq_true] at this
    exact this.2.2
  have h1 := readLevels_written leaf.maxRep repRuns (es.map (·.rep))
    repB ((if leaf.maxDef = 0 then [] else prefixed defB) ++ valB) hr hrep hlr
  have h2 := readLevels_written leaf.maxDef defRuns (es.map (·.dl)) defB valB hd hdef hld
  have h3 := readValues_written leaf dict enc (es.filterMap (·.val)) valB hv hok hvals
  simp only [List.length_map] at h1 h2
  have hbody : v1Body leaf .v1 es repB defB valB =
      (if leaf.maxRep = 0 then [] else prefixed repB) ++ ((if leaf.maxDef = 0 then [] else prefixed defB) ++ valB) := by
    simp [v1Body, List.append_assoc]
  have hnn := nonNullCount_written leaf es hwf
  have hasm := assemble_written leaf es hwf
  have hst := checkStats_statsFor leaf sel (es.map (·.dl)) (es.filterMap (·.val)) hvals
  unfold decodeDataPage
  simp only [hbody, legalEncoding, bind, Except.bind, pure, Except.pure, h1, h2, hnn, h3]
  simp
  rw [hst]
  simp only [hasm]

end Carquet.Proofs.SpecFile
