import Carquet.Spec.Snappy
/-
Lemmas about the Snappy Spec alone: the executable decoder accepts every stream of the grammar
(`decode_of_stream`), array/list forms of the overlapping copy agree, varint grammar vs reader,
the steerable reference encoder only produces streams of the grammar (`encode_stream`).
-/
namespace Carquet.Proofs.Snappy
open Carquet.Spec.Snappy


theorem copyLoop_toList (off : Nat) : ∀ (n : Nat) (o : Array UInt8),
    (copyLoop off n o).map Array.toList = copyOverlap off n o.toList := by
  intro n
  induction n with
  | zero => intro o; simp [copyLoop, copyOverlap]
  | succ n ih =>
    intro o
    simp only [copyLoop, copyOverlap]
    rw [← Array.getElem?_toList, Array.length_toList]
    cases h : o.toList[o.size - off]? with
    | none => simp
    | some b =>
      simp only
      split
      · rw [ih]; simp
      · simp

theorem copyLoop_of_copyOverlap {off n : Nat} {o o' : List UInt8}
    (h : copyOverlap off n o = some o') : copyLoop off n o.toArray = some o'.toArray := by
  have := copyLoop_toList off n o.toArray
  simp only [h] at this
  cases hc : copyLoop off n o.toArray with
  | none => simp [hc] at this
  | some a =>
    simp [hc] at this
    rw [← this]

theorem takeLiteral_append (data rest : List UInt8) (len : Nat) (h : data.length = len) :
    takeLiteral len (data ++ rest) = .ok (.literal data, rest) := by
  subst h
  simp [takeLiteral]

theorem parse_apply_of_element {e o o' : List UInt8} (h : Element e o o') (rest : List UInt8) :
    ∃ tag body el, e = tag :: body ∧ parseElem tag (body ++ rest) = .ok (el, rest) ∧
      applyElem o.toArray el = .ok o'.toArray := by
  cases h with
  | litShort tag data o h0 h1 h2 =>
    refine ⟨tag, data, .literal data, rfl, ?_, ?_⟩
    · simp only [parseElem, h0, h1, if_true]
      exact takeLiteral_append data rest _ h2
    · simp [applyElem]
  | litLong tag ext data o h0 h1 h2 h3 =>
    refine ⟨tag, ext ++ data, .literal data, rfl, ?_, ?_⟩
    · have h1' : ¬ (tag.toNat / 4 < 60) := by omega
      simp only [parseElem, h0, h1', if_true, if_false]
      have hlen : ¬ ((ext ++ data ++ rest).length < tag.toNat / 4 - 59) := by
        simp only [List.length_append]; omega
      simp only [hlen, if_false]
      have ht : (ext ++ data ++ rest).take (tag.toNat / 4 - 59) = ext := by
        rw [List.append_assoc, ← h2]; simp
      have hd : (ext ++ data ++ rest).drop (tag.toNat / 4 - 59) = data ++ rest := by
        rw [List.append_assoc, ← h2]; simp
      rw [ht, hd]
      exact takeLiteral_append data rest _ h3
    · simp [applyElem]
  | copy1 tag b o o' h0 h1 h2 h3 =>
    refine ⟨tag, [b], .copy (tag.toNat / 32 * 256 + b.toNat) (tag.toNat / 4 % 8 + 4), rfl, ?_, ?_⟩
    · simp [parseElem, h0]
    · have hne : ¬ (tag.toNat / 32 * 256 + b.toNat = 0 ∨ o.length < tag.toNat / 32 * 256 + b.toNat) := by omega
      simp only [applyElem, List.size_toArray, hne, if_false, copyLoop_of_copyOverlap h3]
  | copy2 tag b0 b1 o o' h0 h1 h2 h3 =>
    refine ⟨tag, [b0, b1], .copy (leVal [b0, b1]) (tag.toNat / 4 + 1), rfl, ?_, ?_⟩
    · have : ¬ (tag.toNat % 4 = 0) := by omega
      have : ¬ (tag.toNat % 4 = 1) := by omega
      simp [parseElem, *]
    · have hne : ¬ (leVal [b0, b1] = 0 ∨ o.length < leVal [b0, b1]) := by omega
      simp only [applyElem, List.size_toArray, hne, if_false, copyLoop_of_copyOverlap h3]
  | copy4 tag b0 b1 b2 b3 o o' h0 h1 h2 h3 =>
    refine ⟨tag, [b0, b1, b2, b3], .copy (leVal [b0, b1, b2, b3]) (tag.toNat / 4 + 1), rfl, ?_, ?_⟩
    · have : ¬ (tag.toNat % 4 = 0) := by omega
      have : ¬ (tag.toNat % 4 = 1) := by omega
      have : ¬ (tag.toNat % 4 = 2) := by omega
      simp [parseElem, *]
    · have hne : ¬ (leVal [b0, b1, b2, b3] = 0 ∨ o.length < leVal [b0, b1, b2, b3]) := by omega
      simp only [applyElem, List.size_toArray, hne, if_false, copyLoop_of_copyOverlap h3]

theorem decodeElems_of_elems {bs o o' : List UInt8} (h : Elems bs o o') :
    ∀ f, bs.length ≤ f → decodeElems f bs o.toArray = .ok o'.toArray := by
  induction h with
  | nil o => intro f _; cases f <;> simp [decodeElems]
  | @cons e rest o o1 o2 he _ ih =>
    intro f hf
    obtain ⟨tag, body, el, rfl, hp, ha⟩ := parse_apply_of_element he rest
    cases f with
    | zero => simp at hf
    | succ f =>
      simp only [List.cons_append, decodeElems, hp, ha]
      apply ih
      simp only [List.cons_append, List.length_cons, List.length_append] at hf
      omega

theorem readVarint_of_varint {pre : List UInt8} {n : Nat} (h : Varint pre n) :
    ∀ k rest, pre.length ≤ k → readVarint k (pre ++ rest) = some (n, rest) := by
  induction h with
  | last b hb =>
    intro k rest hk
    cases k with
    | zero => simp at hk
    | succ k => simp [readVarint, hb]
  | more b r m hb _ ih =>
    intro k rest hk
    cases k with
    | zero => simp at hk
    | succ k =>
      have : ¬ (b.toNat < 128) := by omega
      simp only [List.cons_append, readVarint, this, if_false]
      rw [ih k rest (by simpa using hk)]

theorem decode_of_stream {bs out : List UInt8} (h : Stream bs out) : decode bs = .ok out := by
  cases h with
  | @mk pre body out n hv hl hn he hlen =>
    simp only [decode, readPreamble, readVarint_of_varint hv 5 body hl, hn, if_true]
    rw [show (#[] : Array UInt8) = ([] : List UInt8).toArray from rfl,
        decodeElems_of_elems he _ (Nat.le_refl _)]
    simp [hlen]

theorem copyOverlap_length {off : Nat} : ∀ {n : Nat} {o o' : List UInt8},
    copyOverlap off n o = some o' → o'.length = o.length + n := by
  intro n
  induction n with
  | zero => intro o o' h; simp [copyOverlap] at h; simp [h]
  | succ n ih =>
    intro o o' h
    simp only [copyOverlap] at h
    split at h
    · split at h
      · have := ih h; simp at this; omega
      · cases h
    · cases h


theorem varint_of_readVarint : ∀ (k : Nat) (bs : List UInt8) (n : Nat) (r : List UInt8),
    readVarint k bs = some (n, r) →
    ∃ pre, bs = pre ++ r ∧ Varint pre n ∧ pre.length ≤ k := by
  intro k
  induction k with
  | zero => intro bs n r h; simp [readVarint] at h
  | succ k ih =>
    intro bs n r h
    cases bs with
    | nil => simp [readVarint] at h
    | cons b rest =>
      simp only [readVarint] at h
      split at h
      · rename_i hb
        simp only [Option.some.injEq, Prod.mk.injEq] at h
        obtain ⟨rfl, rfl⟩ := h
        exact ⟨[b], rfl, Varint.last b hb, by simp⟩
      · rename_i hb
        split at h
        · rename_i m r' hr
          simp only [Option.some.injEq, Prod.mk.injEq] at h
          obtain ⟨rfl, rfl⟩ := h
          obtain ⟨pre, rfl, hv, hl⟩ := ih rest m r' hr
          exact ⟨b :: pre, rfl, Varint.more b pre m (by omega) hv, by simp; omega⟩
        · cases h


/-! ### The reference encoder produces valid streams -/

theorem ofNat_toNat (n : Nat) (h : n < 256) : (UInt8.ofNat n).toNat = n := by
  rw [UInt8.toNat_ofNat']; omega

theorem leBytes_length : ∀ (k v : Nat), (leBytes k v).length = k := by
  intro k; induction k with
  | zero => intro v; rfl
  | succ k ih => intro v; simp [leBytes, ih]

theorem leVal_leBytes : ∀ (k v : Nat), v < 256 ^ k → leVal (leBytes k v) = v := by
  intro k; induction k with
  | zero => intro v h; simp at h; simp [leBytes, leVal, h]
  | succ k ih =>
    intro v h
    have hd : v / 256 < 256 ^ k := by
      apply Nat.div_lt_of_lt_mul; rw [Nat.pow_succ, Nat.mul_comm] at h; exact h
    simp only [leBytes, leVal, ih _ hd, ofNat_toNat (v % 256) (by omega)]
    omega

theorem spec_writeVarint_varint : ∀ (f v : Nat), v < 128 ^ f → 0 < f →
    Varint (writeVarint f v) v ∧ (writeVarint f v).length ≤ f := by
  intro f
  induction f with
  | zero => intro v _ h; omega
  | succ f ih =>
    intro v hv _
    simp only [writeVarint]
    split
    · rename_i hlt
      have := Varint.last (UInt8.ofNat v) (by rw [ofNat_toNat v (by omega)]; exact hlt)
      rw [ofNat_toNat v (by omega)] at this
      exact ⟨this, by simp⟩
    · rename_i hge
      have hf : 0 < f := by
        cases f with
        | zero => simp at hv; omega
        | succ f => omega
      have hd : v / 128 < 128 ^ f := by
        apply Nat.div_lt_of_lt_mul; rw [Nat.pow_succ, Nat.mul_comm] at hv; exact hv
      obtain ⟨i1, i2⟩ := ih (v / 128) hd hf
      have ht := ofNat_toNat (v % 128 + 128) (by omega)
      have := Varint.more (UInt8.ofNat (v % 128 + 128)) _ _ (by omega) i1
      rw [show (UInt8.ofNat (v % 128 + 128)).toNat - 128 + 128 * (v / 128) = v by omega] at this
      exact ⟨this, by simp; omega⟩

theorem elems_append {a b o o1 o2 : List UInt8} (h1 : Elems a o o1) (h2 : Elems b o1 o2) :
    Elems (a ++ b) o o2 := by
  induction h1 with
  | nil o => simpa using h2
  | cons he _ ih => rw [List.append_assoc]; exact Elems.cons he (ih h2)

/-- one op of the reference encoder, in the requested form, is a grammar element -/
theorem encodeOp_element {op : Op} {e o o1 : List UInt8} (he : encodeOp op = some e)
    (hr : runOps [op] o = some o1) : Element e o o1 := by
  cases op with
  | literal data form =>
    simp only [runOps, Option.some.injEq] at hr
    subst hr
    cases form with
    | inTag =>
      simp only [encodeOp] at he
      split at he
      · rename_i h
        simp only [Option.some.injEq] at he; subst he
        have ht := ofNat_toNat ((data.length - 1) * 4) (by omega)
        exact Element.litShort _ data o (by omega) (by omega) (by omega)
      · cases he
    | ext k =>
      simp only [encodeOp] at he
      split at he
      · rename_i h
        obtain ⟨k1, k4, d1, dk⟩ := h
        simp only [Option.some.injEq] at he; subst he
        have ht := ofNat_toNat ((59 + k) * 4) (by omega)
        exact Element.litLong _ (leBytes k (data.length - 1)) data o (by omega) (by omega)
          (by rw [leBytes_length]; omega) (by rw [leVal_leBytes _ _ dk]; omega)
      · cases he
  | copy off len form =>
    simp only [runOps] at hr
    split at hr
    · cases hr
    · rename_i hoff
      cases hc : copyOverlap off len o with
      | none => simp [hc] at hr
      | some o' =>
        simp only [hc, Option.some.injEq] at hr
        subst hr
        cases form with
        | c1 =>
          simp only [encodeOp] at he
          split at he
          · rename_i h
            simp only [Option.some.injEq] at he; subst he
            have ht := ofNat_toNat (off / 256 * 32 + (len - 4) * 4 + 1) (by omega)
            have e0 := ofNat_toNat (off % 256) (by omega)
            have hoff' : (UInt8.ofNat (off / 256 * 32 + (len - 4) * 4 + 1)).toNat / 32 * 256 +
                (UInt8.ofNat (off % 256)).toNat = off := by omega
            refine Element.copy1 _ _ _ _ (by omega) (by rw [hoff']; omega) (by rw [hoff']; omega) ?_
            rw [hoff', show (UInt8.ofNat (off / 256 * 32 + (len - 4) * 4 + 1)).toNat / 4 % 8 + 4 = len by omega]
            exact hc
          · cases he
        | c2 =>
          simp only [encodeOp] at he
          split at he
          · rename_i h
            simp only [Option.some.injEq] at he; subst he
            have ht := ofNat_toNat ((len - 1) * 4 + 2) (by omega)
            have hv : leVal (leBytes 2 off) = off := leVal_leBytes 2 off (by omega)
            simp only [leBytes] at hv ⊢
            refine Element.copy2 _ _ _ _ _ (by omega) (by rw [hv]; omega) (by rw [hv]; omega) ?_
            rw [hv, show (UInt8.ofNat ((len - 1) * 4 + 2)).toNat / 4 + 1 = len by omega]
            exact hc
          · cases he
        | c4 =>
          simp only [encodeOp] at he
          split at he
          · rename_i h
            simp only [Option.some.injEq] at he; subst he
            have ht := ofNat_toNat ((len - 1) * 4 + 3) (by omega)
            have hv : leVal (leBytes 4 off) = off := leVal_leBytes 4 off (by omega)
            simp only [leBytes] at hv ⊢
            refine Element.copy4 _ _ _ _ _ _ _ (by omega) (by rw [hv]; omega) (by rw [hv]; omega) ?_
            rw [hv, show (UInt8.ofNat ((len - 1) * 4 + 3)).toNat / 4 + 1 = len by omega]
            exact hc
          · cases he

theorem runOps_cons (op : Op) (r : List Op) (o out : List UInt8) (h : runOps (op :: r) o = some out) :
    ∃ o1, runOps [op] o = some o1 ∧ runOps r o1 = some out := by
  cases op with
  | literal data form => exact ⟨o ++ data, by simp [runOps], by simpa [runOps] using h⟩
  | copy off len form =>
    simp only [runOps] at h ⊢
    split at h
    · cases h
    · rename_i hoff
      cases hc : copyOverlap off len o with
      | none => simp [hc] at h
      | some o' => simp only [hc] at h; exact ⟨o', by simp [hoff], h⟩

theorem encodeOps_elems : ∀ (ops : List Op) (body o out : List UInt8),
    encodeOps ops = some body → runOps ops o = some out → Elems body o out := by
  intro ops
  induction ops with
  | nil =>
    intro body o out h1 h2
    simp only [encodeOps, Option.some.injEq] at h1
    simp only [runOps, Option.some.injEq] at h2
    subst h1; subst h2; exact Elems.nil _
  | cons op r ih =>
    intro body o out h1 h2
    simp only [encodeOps] at h1
    cases he : encodeOp op with
    | none => simp [he] at h1
    | some e =>
      cases hb : encodeOps r with
      | none => simp [he, hb] at h1
      | some b =>
        simp only [he, hb, Option.some.injEq] at h1
        subst h1
        obtain ⟨o1, r1, r2⟩ := runOps_cons op r o out h2
        exact Elems.cons (encodeOp_element he r1) (ih b o1 out hb r2)

/-- The reference encoder only produces valid streams, for exactly the bytes its ops describe. -/
theorem encode_stream {ops : List Op} {bs : List UInt8} (h : encode ops = some bs) :
    ∃ out, runOps ops [] = some out ∧ Stream bs out := by
  simp only [encode] at h
  cases hr : runOps ops [] with
  | none => simp [hr] at h
  | some out =>
    cases hb : encodeOps ops with
    | none => simp [hr, hb] at h
    | some body =>
      simp only [hr, hb] at h
      split at h
      · rename_i hlt
        simp only [Option.some.injEq] at h
        subst h
        obtain ⟨v1, v2⟩ := spec_writeVarint_varint 5 out.length (by omega) (by omega)
        exact ⟨out, rfl, Stream.mk v1 v2 hlt (encodeOps_elems ops body [] out hb hr) rfl⟩
      · cases h

end Carquet.Proofs.Snappy
