import Carquet.Spec.File.Write
import Carquet.Proofs.ThriftSpec
/-
The reference writer's form-steered Thrift encoder (`encodeValF`: short or long field headers,
short or long list headers, either spelling of bool elements) always produces an encoding the
compact-protocol relation `Enc` admits; hence the Spec's generic decoder reads it back
(`Proofs.Thrift.decode_of_encodes`).
-/
namespace Carquet.Proofs.SpecFile
open Carquet.Spec.Thrift Carquet.Spec.File Carquet.Proofs.Thrift

theorem fieldHdrF_ok (F : ThriftForm) (last id : Int) (code : Nat) : FieldHdr last id code (fieldHdrF F last id code) := by
  unfold fieldHdrF
  split
  · exact Or.inr rfl
  · exact fieldHdr_ok last id code

theorem elemCodeF_ok (F : ThriftForm) (et : TType) : ElemCode et (elemCodeF F et) := by
  unfold elemCodeF ElemCode
  split
  · rename_i h; exact Or.inr ⟨h.1, rfl⟩
  · exact Or.inl rfl

theorem listHdrF_ok (F : ThriftForm) (et : TType) (n : Nat) : ListHdr et n (listHdrF F et n) := by
  unfold listHdrF ListHdr
  refine ⟨elemCodeF F et, elemCodeF_ok F et, ?_⟩
  split
  · exact Or.inr rfl
  · split
    · rename_i h; exact Or.inl ⟨h, rfl⟩
    · exact Or.inr rfl

mutual
theorem enc_encodeValF (F : ThriftForm) : ∀ v : TVal, v.wf = true → Enc (.val v) (encodeValF F v)
  | .bool true, _ => by simp only [encodeValF]; exact Enc.boolT
  | .bool false, _ => by
    simp only [encodeValF]
    by_cases hb : F.boolAlt = true
    · simp [hb]; exact Enc.boolF0
    · simp [hb]; exact Enc.boolF
  | .i8 v, h => by simp only [TVal.wf, decide_eq_true_eq] at h; simp only [encodeValF]; exact Enc.i8 h
  | .i16 v, h => by simp only [TVal.wf, decide_eq_true_eq] at h; simp only [encodeValF]; exact Enc.i16 h
  | .i32 v, h => by simp only [TVal.wf, decide_eq_true_eq] at h; simp only [encodeValF]; exact Enc.i32 h
  | .i64 v, h => by simp only [TVal.wf, decide_eq_true_eq] at h; simp only [encodeValF]; exact Enc.i64 h
  | .double b, h => by simp only [TVal.wf, decide_eq_true_eq] at h; simp only [encodeValF]; exact Enc.double h
  | .binary b, h => by simp only [TVal.wf, decide_eq_true_eq] at h; simp only [encodeValF]; exact Enc.binary h
  | .uuid b, h => by simp only [TVal.wf, decide_eq_true_eq] at h; simp only [encodeValF]; exact Enc.uuid h
  | .list et xs, h => by
    simp only [TVal.wf, Bool.and_eq_true, decide_eq_true_eq] at h
    simp only [encodeValF]
    exact Enc.list h.1 (wfElems_ty h.2) (listHdrF_ok F et xs.length) (enc_encodeElemsF F et xs h.2)
  | .set et xs, h => by
    simp only [TVal.wf, Bool.and_eq_true, decide_eq_true_eq] at h
    simp only [encodeValF]
    exact Enc.set h.1 (wfElems_ty h.2) (listHdrF_ok F et xs.length) (enc_encodeElemsF F et xs h.2)
  | .map [], _ => by simp only [encodeValF]; exact Enc.mapNil
  | .map ((k, v) :: r), h => by
    simp only [TVal.wf, Bool.and_eq_true, decide_eq_true_eq] at h
    simp only [encodeValF]
    exact Enc.mapCons h.1 (wfKVs_ty h.2) (enc_encodeKVsF F k.ty v.ty ((k, v) :: r) h.2)
  | .struct fs, h => by
    simp only [TVal.wf] at h
    simp only [encodeValF]
    exact Enc.struct (enc_encodeFieldsF F fs h 0)
theorem enc_encodeElemsF (F : ThriftForm) : ∀ (et : TType) (xs : List TVal), wfElems et xs = true → Enc (.elems xs) (encodeElemsF F xs)
  | _, [], _ => by simp only [encodeElemsF]; exact Enc.elemsNil
  | et, x :: r, h => by
    simp only [wfElems, Bool.and_eq_true, decide_eq_true_eq] at h
    simp only [encodeElemsF]
    exact Enc.elemsCons (enc_encodeValF F x h.1.2) (enc_encodeElemsF F et r h.2)
theorem enc_encodeKVsF (F : ThriftForm) : ∀ (kt vt : TType) (kvs : List (TVal × TVal)), wfKVs kt vt kvs = true →
    Enc (.kvs kvs) (encodeKVsF F kvs)
  | _, _, [], _ => by simp only [encodeKVsF]; exact Enc.kvsNil
  | kt, vt, (k, v) :: r, h => by
    simp only [wfKVs, Bool.and_eq_true, decide_eq_true_eq] at h
    simp only [encodeKVsF]
    exact Enc.kvsCons (enc_encodeValF F k h.1.1.2) (enc_encodeValF F v h.1.2) (enc_encodeKVsF F kt vt r h.2)
theorem enc_encodeFieldsF (F : ThriftForm) : ∀ (fs : List (Int × TVal)), wfFields fs = true →
    ∀ last, Enc (.fields last fs) (encodeFieldsF F last fs)
  | [], _, last => by simp only [encodeFieldsF]; exact Enc.fieldsNil
  | (id, .bool b) :: r, h, last => by
    simp only [wfFields, Bool.and_eq_true, decide_eq_true_eq] at h
    simp only [encodeFieldsF]
    exact Enc.fieldsBool h.1.1 (fieldHdrF_ok _ _ _ _) (enc_encodeFieldsF F r h.2 id)
  | (id, .i8 v) :: r, h, last => by
    simp only [wfFields, Bool.and_eq_true, decide_eq_true_eq] at h
    simp only [encodeFieldsF]
    exact Enc.fieldsCons h.1.1 (by simp [TVal.ty]) (fieldHdrF_ok _ _ _ _) (enc_encodeValF F _ h.1.2) (enc_encodeFieldsF F r h.2 id)
  | (id, .i16 v) :: r, h, last => by
    simp only [wfFields, Bool.and_eq_true, decide_eq_true_eq] at h
    simp only [encodeFieldsF]
    exact Enc.fieldsCons h.1.1 (by simp [TVal.ty]) (fieldHdrF_ok _ _ _ _) (enc_encodeValF F _ h.1.2) (enc_encodeFieldsF F r h.2 id)
  | (id, .i32 v) :: r, h, last => by
    simp only [wfFields, Bool.and_eq_true, decide_eq_true_eq] at h
    simp only [encodeFieldsF]
    exact Enc.fieldsCons h.1.1 (by simp [TVal.ty]) (fieldHdrF_ok _ _ _ _) (enc_encodeValF F _ h.1.2) (enc_encodeFieldsF F r h.2 id)
  | (id, .i64 v) :: r, h, last => by
    simp only [wfFields, Bool.and_eq_true, decide_eq_true_eq] at h
    simp only [encodeFieldsF]
    exact Enc.fieldsCons h.1.1 (by simp [TVal.ty]) (fieldHdrF_ok _ _ _ _) (enc_encodeValF F _ h.1.2) (enc_encodeFieldsF F r h.2 id)
  | (id, .double v) :: r, h, last => by
    simp only [wfFields, Bool.and_eq_true, decide_eq_true_eq] at h
    simp only [encodeFieldsF]
    exact Enc.fieldsCons h.1.1 (by simp [TVal.ty]) (fieldHdrF_ok _ _ _ _) (enc_encodeValF F _ h.1.2) (enc_encodeFieldsF F r h.2 id)
  | (id, .binary v) :: r, h, last => by
    simp only [wfFields, Bool.and_eq_true, decide_eq_true_eq] at h
    simp only [encodeFieldsF]
    exact Enc.fieldsCons h.1.1 (by simp [TVal.ty]) (fieldHdrF_ok _ _ _ _) (enc_encodeValF F _ h.1.2) (enc_encodeFieldsF F r h.2 id)
  | (id, .uuid v) :: r, h, last => by
    simp only [wfFields, Bool.and_eq_true, decide_eq_true_eq] at h
    simp only [encodeFieldsF]
    exact Enc.fieldsCons h.1.1 (by simp [TVal.ty]) (fieldHdrF_ok _ _ _ _) (enc_encodeValF F _ h.1.2) (enc_encodeFieldsF F r h.2 id)
  | (id, .list et xs) :: r, h, last => by
    simp only [wfFields, Bool.and_eq_true, decide_eq_true_eq] at h
    simp only [encodeFieldsF]
    exact Enc.fieldsCons h.1.1 (by simp [TVal.ty]) (fieldHdrF_ok _ _ _ _) (enc_encodeValF F _ h.1.2) (enc_encodeFieldsF F r h.2 id)
  | (id, .set et xs) :: r, h, last => by
    simp only [wfFields, Bool.and_eq_true, decide_eq_true_eq] at h
    simp only [encodeFieldsF]
    exact Enc.fieldsCons h.1.1 (by simp [TVal.ty]) (fieldHdrF_ok _ _ _ _) (enc_encodeValF F _ h.1.2) (enc_encodeFieldsF F r h.2 id)
  | (id, .map kvs) :: r, h, last => by
    simp only [wfFields, Bool.and_eq_true, decide_eq_true_eq] at h
    simp only [encodeFieldsF]
    exact Enc.fieldsCons h.1.1 (by simp [TVal.ty]) (fieldHdrF_ok _ _ _ _) (enc_encodeValF F _ h.1.2) (enc_encodeFieldsF F r h.2 id)
  | (id, .struct fs) :: r, h, last => by
    simp only [wfFields, Bool.and_eq_true, decide_eq_true_eq] at h
    simp only [encodeFieldsF]
    exact Enc.fieldsCons h.1.1 (by simp [TVal.ty]) (fieldHdrF_ok _ _ _ _) (enc_encodeValF F _ h.1.2) (enc_encodeFieldsF F r h.2 id)
end

/-- every form of the reference writer's Thrift encoder is read back by the Spec decoder -/
theorem decode_encodeValF (F : ThriftForm) (v : TVal) (h : v.wf = true) (r : List UInt8) :
    decode v.ty (encodeValF F v ++ r) = some (v, r) :=
  decode_of_encodes v _ r (enc_encodeValF F v h)

theorem decodeStruct_encodeValF (F : ThriftForm) (fs : List (Int × TVal)) (h : (TVal.struct fs).wf = true) :
    decodeStruct (encodeValF F (.struct fs)) = some (.struct fs) := by
  have := decode_encodeValF F (.struct fs) h []
  simp only [List.append_nil, TVal.ty] at this
  simp [decodeStruct, this]

end Carquet.Proofs.SpecFile
