import Carquet.Proofs.CursorRun
import Carquet.Proofs.CursorBitmap
/-
C02 / C03, batch reader, one column of one batch: whichever branch is taken (zero-copy view of a
whole page, or copy through `carquet_column_read_batch`), the column delivers the next
`rows_to_read` pending rows, in the same observable form.
-/
namespace Carquet.Proofs.Cursor
open Carquet.Spec.Cursor (Row)
open Carquet.Impl.ColumnReader
open Carquet.Impl.BatchReader (IOMode Column ColData zeroBitmap buildBitmap)

/-- What a batch column looks like when it delivers `rows` into `rtr` slots. -/
def specCol (maxDef rtr : Nat) (rows : List (Row α)) (view : Bool) : ColData α :=
  { numValues := rows.length,
    bitmap := buildBitmap maxDef (rows.map (fun row => some row.defLevel)) rows.length rtr,
    vals := fill (rows.filterMap (·.val)) rtr, view := view,
    defs := rows.map (fun row => some row.defLevel) }

/-- The column can be allocated for `rtr` rows: known value size, within the 1 GiB cap. -/
def ColFits (col : Column) (rtr : Nat) : Prop := 0 < col.valueSize ∧ col.valueSize * rtr ≤ Gen.Cursor.maxBatchAlloc

theorem prefetch_ok (r : Reader α) (h : Inv r) :
    Inv (Impl.BatchReader.prefetch Fixes.all r) ∧ (Impl.BatchReader.prefetch Fixes.all r).chunk = r.chunk ∧
      pending (Impl.BatchReader.prefetch Fixes.all r) = pending r := by
  unfold Impl.BatchReader.prefetch
  split
  · obtain ⟨r', heq, hinv', hchunk', hpend'⟩ := readBatch_zero r h false false
    rw [heq]; exact ⟨hinv', hchunk', hpend'⟩
  · exact ⟨h, rfl, rfl⟩

theorem tryZeroCopy_ok (mode : IOMode) (col : Column) (r : Reader α) (h : Inv r) :
    Inv (Impl.BatchReader.tryZeroCopy Fixes.all mode col r) ∧
      (Impl.BatchReader.tryZeroCopy Fixes.all mode col r).chunk = r.chunk ∧
      pending (Impl.BatchReader.tryZeroCopy Fixes.all mode col r) = pending r := by
  unfold Impl.BatchReader.tryZeroCopy
  split
  · obtain ⟨r', heq, hinv', hchunk', hpend'⟩ := readBatch_zero r h false false
    rw [heq]; exact ⟨hinv', hchunk', hpend'⟩
  · exact ⟨h, rfl, rfl⟩

theorem buildBitmap_zero (defs : List (Option Nat)) (vr rtr : Nat) :
    buildBitmap 0 defs vr rtr = zeroBitmap rtr := by
  simp [buildBitmap]

theorem fill_full (xs : List β) : fill xs xs.length = xs.map some := by simp [fill]

/-- The standard branch (copy through `carquet_column_read_batch`). -/
theorem standardCol_ok (col : Column) (r : Reader α) (h : Inv r) (hmd : r.chunk.maxDef = col.maxDef)
    (rtr : Nat) (h0 : 0 < rtr) (hle : rtr ≤ (pending r).length) (h31 : rtr < 2147483648) (hfit : ColFits col rtr) :
    ∃ r', Impl.BatchReader.standardCol Fixes.all col r (rtr : Int) =
        (r', some (specCol col.maxDef rtr ((pending r).take rtr) false)) ∧
      Inv r' ∧ r'.chunk = r.chunk ∧ pending r' = (pending r).drop rtr := by
  unfold Impl.BatchReader.standardCol
  have h1 : ¬ (col.valueSize = 0 ∨ (rtr : Int) ≤ 0) := by have := hfit.1; omega
  have h2 : ¬ ((col.valueSize : Int) > (Gen.Cursor.maxBatchAlloc : Int) / (rtr : Int)) := by
    have h3 : (col.valueSize : Int) ≤ (Gen.Cursor.maxBatchAlloc : Int) / (rtr : Int) := by
      rw [Int.le_ediv_iff_mul_le (by omega)]
      have := hfit.2
      exact_mod_cast this
    omega
  simp only [h1, h2, if_false]
  obtain ⟨r', res, heq, hinv', hchunk', hpend', hres⟩ :=
    readBatch_ok r h rtr h0 h31 (decide (col.maxDef > 0)) false
  rw [heq]
  have hlen : ((pending r).take rtr).length = rtr := by rw [List.length_take]; omega
  have hc : ¬ (res.count < 0) := by rw [hres.count]; omega
  simp only [hc, if_false]
  refine ⟨r', ?_, hinv', hchunk', hpend'⟩
  congr 2
  unfold specCol
  rw [hres.count, hres.vals, hres.rowDefs, hres.defs]
  simp only [Int.toNat_natCast, hlen]
  congr 1
  by_cases hm : col.maxDef > 0
  · simp only [hm, decide_true, if_true]
    have : fill (((pending r).take rtr).map (·.defLevel)) rtr = ((pending r).take rtr).map (fun row => some row.defLevel) := by
      have := fill_full (((pending r).take rtr).map (·.defLevel))
      rw [List.length_map, hlen] at this
      rw [this, List.map_map]; rfl
    rw [this]
  · have : col.maxDef = 0 := by omega
    simp only [this, buildBitmap_zero]

theorem nn_zero_all (ds : List Nat) (h : ∀ d ∈ ds, d ≤ 0) : nn 0 ds = ds.length := nn_zero_of_le ds h

/-- The zero-copy branch hands out exactly what the standard branch would copy. -/
theorem zeroCopyCol_ok (col : Column) (r : Reader α) (h : Inv r) (hmd : r.chunk.maxDef = col.maxDef)
    (rtr : Nat) (huse : Impl.BatchReader.useZeroCopy Fixes.all col r (rtr : Int) = true) :
    (Impl.BatchReader.zeroCopyCol r).2 = specCol col.maxDef rtr ((pending r).take rtr) true ∧
      Inv (Impl.BatchReader.zeroCopyCol r).1 ∧ (Impl.BatchReader.zeroCopyCol r).1.chunk = r.chunk ∧
      pending (Impl.BatchReader.zeroCopyCol r).1 = (pending r).drop rtr := by
  simp only [Impl.BatchReader.useZeroCopy, Fixes.all, if_true, Bool.and_eq_true, decide_eq_true_eq] at huse
  obtain ⟨⟨⟨⟨hl, _hview⟩, hv0⟩, hN⟩, hmd0⟩ := huse
  have hN' : r.pageNumValues = rtr := by exact_mod_cast hN
  have hmd0' : r.chunk.maxDef = 0 := by rw [hmd, hmd0]
  have hD := h.numVals hl
  have hR := h.repsLen hl
  have hnn0 : r.pageNonNullRead = 0 := by
    have := h.nnEq hl; rw [hv0] at this; simpa [nn] using this
  have hdle : ∀ d ∈ r.decodedDefs, d ≤ 0 := by
    intro d hd; have := h.defsLe hl d hd; omega
  have hnnD : nn 0 r.decodedDefs = r.decodedDefs.length := nn_zero_all _ hdle
  have hV : r.decodedVals.length = r.decodedDefs.length := by
    have := h.valsLen hl
    rw [hv0, hnn0, hmd0'] at this
    simpa [hnnD] using this
  have hcur : curRows r = pageRows 0 r.decodedDefs r.decodedReps r.decodedVals := by
    simp [curRows, hv0, hnn0, hmd0']
  have hcurlen : (curRows r).length = rtr := by
    rw [hcur, length_pageRows _ _ _ _ (by omega)]; omega
  have hpend : pending r = curRows r ++ rowsOfPages r.chunk.maxDef (r.chunk.pages.drop (r.currentPage + 1)) := by
    simp [pending, hl]
  have htake : (pending r).take rtr = curRows r := by
    rw [hpend, List.take_append_of_le_length (by omega), List.take_of_length_le (by omega)]
  have hdrop : (pending r).drop rtr = rowsOfPages r.chunk.maxDef (r.chunk.pages.drop (r.currentPage + 1)) := by
    rw [hpend, List.drop_append_of_le_length (by omega), List.drop_of_length_le (by omega)]; rfl
  have hvals : (curRows r).filterMap (·.val) = r.decodedVals := by
    rw [hcur, filterMap_val_pageRows _ _ _ _ (by omega) (by omega), hnnD, ← hV, List.take_length]
  have hdefs : (curRows r).map (·.defLevel) = r.decodedDefs := by
    rw [hcur, map_def_pageRows _ _ _ _ (by omega)]
  have hpl : rtr ≤ (pending r).length := by rw [hpend, List.length_append]; omega
  have hpend' : pending (Impl.BatchReader.zeroCopyCol r).1 =
      rowsOfPages r.chunk.maxDef (r.chunk.pages.drop (r.currentPage + 1)) := by
    simp only [Impl.BatchReader.zeroCopyCol, pending, hl, if_true, curRows]
    rw [hD, List.drop_length, pageRows_nil_defs]; rfl
  refine ⟨?_, ?_, rfl, ?_⟩
  · unfold Impl.BatchReader.zeroCopyCol specCol
    simp only
    rw [htake, hcurlen, hmd0, buildBitmap_zero, hvals, hN', map_some_def, hdefs,
      srcSlice_eq _ _ _ (by omega), srcSlice_eq _ _ _ (by omega)]
    simp only [List.drop_zero]
    rw [List.take_of_length_le (by omega), List.take_of_length_le (by omega)]
    have : fill r.decodedVals rtr = r.decodedVals.map some := by
      have := fill_full r.decodedVals; rw [hV, hD.symm, hN'] at this; exact this
    rw [this]
  · -- invariant: the page is fully consumed
    refine ⟨h.pagesOk, ?_, ?_, ?_, ?_, ?_, ?_, ?_, ?_⟩
    · rw [hpend', ← hdrop, List.length_drop]
      simp only [Impl.BatchReader.zeroCopyCol]
      rw [h.rem, hN']; omega
    · intro _; exact hD
    · intro _; exact Nat.le_refl _
    · intro _; exact hR
    · intro _; simp only [Impl.BatchReader.zeroCopyCol]; omega
    · intro _
      simp only [Impl.BatchReader.zeroCopyCol]
      rw [hD, List.drop_length]; simp [nn]; omega
    · intro _; exact h.defsLe hl
    · intro _
      simp only [Impl.BatchReader.zeroCopyCol]
      rw [hD, List.take_length, hmd0', hnnD]
  · rw [hpend', hdrop]

/-- **One column of one batch**: it delivers the next `rtr` pending rows. -/
theorem readColumn_ok (mode : IOMode) (col : Column) (r : Reader α) (h : Inv r) (hmd : r.chunk.maxDef = col.maxDef)
    (rtr : Nat) (h0 : 0 < rtr) (hle : rtr ≤ (pending r).length) (h31 : rtr < 2147483648) (hfit : ColFits col rtr) :
    ∃ r' view, Impl.BatchReader.readColumn Fixes.all mode col r (rtr : Int) =
        (r', some (specCol col.maxDef rtr ((pending r).take rtr) view)) ∧
      Inv r' ∧ r'.chunk = r.chunk ∧ pending r' = (pending r).drop rtr := by
  obtain ⟨hinv1, hchunk1, hpend1⟩ := tryZeroCopy_ok mode col r h
  unfold Impl.BatchReader.readColumn
  by_cases huse : Impl.BatchReader.useZeroCopy Fixes.all col
      (Impl.BatchReader.tryZeroCopy Fixes.all mode col r) (rtr : Int) = true
  · simp only [huse, if_true]
    obtain ⟨hcd, hinv', hchunk', hpend'⟩ := zeroCopyCol_ok col _ hinv1 (by rw [hchunk1]; exact hmd) rtr huse
    exact ⟨_, true, by rw [hcd, hpend1], hinv', by rw [hchunk', hchunk1], by rw [hpend', hpend1]⟩
  · simp only [huse, Bool.false_eq_true, if_false]
    obtain ⟨r', heq, hinv', hchunk', hpend'⟩ := standardCol_ok col _ hinv1 (by rw [hchunk1]; exact hmd) rtr h0
      (by rw [hpend1]; exact hle) h31 hfit
    exact ⟨r', false, by rw [heq, hpend1], hinv', by rw [hchunk', hchunk1], by rw [hpend', hpend1]⟩

end Carquet.Proofs.Cursor
