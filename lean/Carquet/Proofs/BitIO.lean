import Carquet.Impl.BitIO
import Carquet.Proofs.NatBits
/-
The bit reader and writer of Impl/BitIO.lean against an abstract bit string.

Reader: a state denotes the integer `stream r` (the bits not yet delivered, least significant first) and
their number `avail r`; every read returns the low bits of the stream and shifts it; every index of `data`
read lies below `size`.
Writer: a state denotes, together with the bytes already stored, the integer written so far; bytes beyond
the capacity are dropped, the first `cap` bytes are always right.
-/
namespace Carquet.Proofs.BitIO
open Carquet.Impl.BitIO Carquet.Impl.Bitpack Carquet.Proofs.NatBits

/-! ## Reader -/

/-- number of bits not yet delivered -/
def avail (r : Reader) : Nat := r.bufferBits + 8 * (r.data.length - r.bytePos)

/-- the bits not yet delivered, as an integer (first bit = least significant) -/
def stream (r : Reader) : Nat := r.buffer + 2 ^ r.bufferBits * leNat (r.data.drop r.bytePos)

structure RInv (r : Reader) : Prop where
  pos : r.bytePos ≤ r.data.length
  bits : r.bufferBits ≤ 64
  buf : r.buffer < 2 ^ r.bufferBits

theorem RInv_init (data : List UInt8) : RInv (Reader.init data) :=
  ⟨Nat.zero_le _, by simp [Reader.init], by simp [Reader.init]⟩

theorem stream_init (data : List UInt8) : stream (Reader.init data) = leNat data := by
  simp [stream, Reader.init]

theorem avail_init (data : List UInt8) : avail (Reader.init data) = 8 * data.length := by
  simp [avail, Reader.init]

theorem or_shl_eq_add (a b s : Nat) (h : a < 2 ^ s) : a ||| (b <<< s) = a + b * 2 ^ s := by
  rw [shl_eq, Nat.or_comm, Nat.mul_comm b, or_eq_add _ _ _ h, Nat.add_comm]

theorem stream_lt (r : Reader) (h : RInv r) : stream r < 2 ^ avail r := by
  unfold stream avail
  have hl := leNat_lt (r.data.drop r.bytePos)
  rw [List.length_drop] at hl
  rw [Nat.pow_add]
  have h1 : 2 ^ r.bufferBits * (leNat (r.data.drop r.bytePos) + 1) ≤ 2 ^ r.bufferBits * 2 ^ (8 * (r.data.length - r.bytePos)) :=
    Nat.mul_le_mul_left _ hl
  rw [Nat.mul_add, Nat.mul_one] at h1
  have := h.buf
  omega

/-- one iteration of `refill_buffer` -/
theorem refillStep_spec (r : Reader) (h : RInv r) (h1 : r.bufferBits ≤ 56) (h2 : r.bytePos < r.data.length) :
    RInv (refillStep r) ∧ stream (refillStep r) = stream r ∧ avail (refillStep r) = avail r ∧
    (refillStep r).data = r.data ∧ (refillStep r).bytePos = r.bytePos + 1 ∧
    (refillStep r).bufferBits = r.bufferBits + 8 := by
  have hget : r.data.getD r.bytePos 0 = r.data[r.bytePos] := by
    simp [List.getD, List.getElem?_eq_getElem h2]
  have hb : (r.data[r.bytePos]).toNat < 256 := (r.data[r.bytePos]).toNat_lt
  have hor : r.buffer ||| ((r.data[r.bytePos]).toNat <<< r.bufferBits) = r.buffer + (r.data[r.bytePos]).toNat * 2 ^ r.bufferBits :=
    or_shl_eq_add _ _ _ h.buf
  have hp8 : 2 ^ (r.bufferBits + 8) = 2 ^ r.bufferBits * 256 := by rw [Nat.pow_add]
  have hlt : r.buffer + (r.data[r.bytePos]).toNat * 2 ^ r.bufferBits < 2 ^ (r.bufferBits + 8) := by
    rw [hp8]
    have := h.buf
    have h3 : (r.data[r.bytePos]).toNat * 2 ^ r.bufferBits ≤ 255 * 2 ^ r.bufferBits := Nat.mul_le_mul_right _ (by omega)
    have h4 : 2 ^ r.bufferBits * 256 = 2 ^ r.bufferBits + 255 * 2 ^ r.bufferBits := by
      rw [Nat.mul_comm]; omega
    omega
  have hle64 : 2 ^ (r.bufferBits + 8) ≤ 2 ^ 64 := Nat.pow_le_pow_right (by decide) (by omega)
  have hmod : (r.buffer + (r.data[r.bytePos]).toNat * 2 ^ r.bufferBits) % 2 ^ 64 =
      r.buffer + (r.data[r.bytePos]).toNat * 2 ^ r.bufferBits := Nat.mod_eq_of_lt (by omega)
  have hdrop : r.data.drop r.bytePos = r.data[r.bytePos] :: r.data.drop (r.bytePos + 1) :=
    (List.drop_eq_getElem_cons h2)
  refine ⟨⟨?_, ?_, ?_⟩, ?_, ?_, rfl, rfl, rfl⟩
  · simp only [refillStep]; omega
  · simp only [refillStep]; omega
  · simp only [refillStep, hget, hor, hmod]; exact hlt
  · simp only [stream, refillStep, hget, hor, hmod]
    rw [hdrop, leNat, hp8, Nat.mul_add, Nat.mul_assoc]
    rw [Nat.mul_comm (r.data[r.bytePos]).toNat]
    omega
  · simp only [avail, refillStep]; omega

/-- `refill_buffer`: invariant, stream and count unchanged; the indices read are `byte_pos ..` and all
below `size`; with enough fuel it stops only when more than 56 bits are buffered or the data is exhausted -/
theorem refillLoop_spec : ∀ (f : Nat) (r : Reader), RInv r →
    RInv (refillLoop f r).1 ∧ stream (refillLoop f r).1 = stream r ∧ avail (refillLoop f r).1 = avail r ∧
    (refillLoop f r).1.data = r.data ∧ r.bytePos ≤ (refillLoop f r).1.bytePos ∧
    r.bufferBits ≤ (refillLoop f r).1.bufferBits ∧
    (∀ i ∈ (refillLoop f r).2, r.bytePos ≤ i ∧ i < (refillLoop f r).1.bytePos) ∧
    (56 < r.bufferBits + 8 * f → 56 < (refillLoop f r).1.bufferBits ∨ (refillLoop f r).1.bytePos = r.data.length) := by
  intro f
  induction f with
  | zero =>
    intro r h
    exact ⟨h, rfl, rfl, rfl, Nat.le_refl _, Nat.le_refl _, fun i hi => by simp [refillLoop] at hi, fun hf => Or.inl (by simpa [refillLoop] using hf)⟩
  | succ f ih =>
    intro r h
    simp only [refillLoop]
    split
    · rename_i hc
      dsimp only
      obtain ⟨s1, s2, s3, s4, s5, s6⟩ := refillStep_spec r h hc.1 hc.2
      obtain ⟨i1, i2, i3, i4, i5, i6, i7, i8⟩ := ih (refillStep r) s1
      refine ⟨i1, by rw [i2, s2], by rw [i3, s3], by rw [i4, s4], by omega, by omega, ?_, ?_⟩
      · intro i hi
        rcases List.mem_cons.mp hi with rfl | hi
        · omega
        · have := i7 i hi; omega
      · intro hf
        rw [s4] at i8
        exact i8 (by omega)
    · rename_i hc
      refine ⟨h, rfl, rfl, rfl, Nat.le_refl _, Nat.le_refl _, fun i hi => by simp at hi, fun _ => ?_⟩
      have := h.pos
      by_cases h56 : 56 < r.bufferBits
      · exact Or.inl h56
      · exact Or.inr (by simp only; omega)

/-- what the caller of `refill_buffer` knows afterwards -/
structure Refilled (r r1 : Reader) (idx : List Nat) : Prop where
  inv : RInv r1
  str : stream r1 = stream r
  av : avail r1 = avail r
  data : r1.data = r.data
  posle : r.bytePos ≤ r1.bytePos
  idxs : ∀ i ∈ idx, r.bytePos ≤ i ∧ i < r1.bytePos

theorem Refilled.refl (r : Reader) (h : RInv r) : Refilled r r [] :=
  ⟨h, rfl, rfl, rfl, Nat.le_refl _, fun i hi => by cases hi⟩

theorem refill_spec (r : Reader) (h : RInv r) :
    Refilled r (refill r).1 (refill r).2 ∧
    (56 < (refill r).1.bufferBits ∨ (refill r).1.bytePos = r.data.length) := by
  obtain ⟨i1, i2, i3, i4, i5, _, i7, i8⟩ := refillLoop_spec 8 r h
  exact ⟨⟨i1, i2, i3, i4, i5, i7⟩, i8 (by omega)⟩

/-- bits available in the accumulator after the conditional refill: all that were asked for, or all there are -/
theorem refillIfShort_spec (r : Reader) (h : RInv r) (n : Nat) (hn : n ≤ 56) :
    Refilled r (refillIfShort r n).1 (refillIfShort r n).2 ∧
    min n (refillIfShort r n).1.bufferBits = min n (avail r) := by
  unfold refillIfShort
  split
  · obtain ⟨hr, hpost⟩ := refill_spec r h
    refine ⟨hr, ?_⟩
    have hav := hr.av
    have hpos := hr.inv.pos
    rw [hr.data] at hpos
    unfold avail at hav ⊢
    rw [hr.data] at hav
    rcases hpost with h56 | hend
    · omega
    · rw [hend] at hav; omega
  · refine ⟨Refilled.refl r h, ?_⟩
    dsimp only
    unfold avail; omega

theorem mod_two_pow_of_lt {x a b : Nat} (hx : x < 2 ^ a) (hab : a ≤ b) : x % 2 ^ b = x :=
  Nat.mod_eq_of_lt (Nat.lt_of_lt_of_le hx (Nat.pow_le_pow_right (by decide) hab))

theorem shr_of_lt {x a b : Nat} (hx : x < 2 ^ a) (hab : a ≤ b) : x >>> b = 0 := by
  rw [shr_eq]
  exact Nat.div_eq_of_lt (Nat.lt_of_lt_of_le hx (Nat.pow_le_pow_right (by decide) hab))

/-- taking `m ≤ buffer_bits` bits out of the accumulator -/
theorem take_bits (r1 : Reader) (h : RInv r1) (m : Nat) (hm : m ≤ r1.bufferBits) :
    r1.buffer % 2 ^ m = stream r1 % 2 ^ m ∧
    RInv { r1 with buffer := r1.buffer >>> m, bufferBits := r1.bufferBits - m } ∧
    stream { r1 with buffer := r1.buffer >>> m, bufferBits := r1.bufferBits - m } = stream r1 >>> m ∧
    avail { r1 with buffer := r1.buffer >>> m, bufferBits := r1.bufferBits - m } = avail r1 - m := by
  have hsplit : 2 ^ r1.bufferBits = 2 ^ m * 2 ^ (r1.bufferBits - m) := by
    rw [← Nat.pow_add]; congr 1; omega
  refine ⟨?_, ⟨h.pos, by simp only; have := h.bits; omega, ?_⟩, ?_, ?_⟩
  · unfold stream
    rw [hsplit, Nat.mul_assoc, Nat.add_mul_mod_self_left]
  · simp only
    rw [shr_eq, Nat.div_lt_iff_lt_mul (Nat.two_pow_pos m), Nat.mul_comm, ← hsplit]
    exact h.buf
  · simp only [stream]
    rw [shr_eq, shr_eq, hsplit, Nat.mul_assoc, Nat.add_mul_div_left _ _ (Nat.two_pow_pos m)]
  · simp only [avail]; omega

/-- **`read_bits` (after the clamps): the low `n` bits of the stream, zero-extended at the end of the data** -/
theorem readBitsCore_spec (r : Reader) (h : RInv r) (n : Nat) (hn : n ≤ 32) :
    (readBitsCore r n).1 = stream r % 2 ^ n ∧
    RInv (readBitsCore r n).2.1 ∧
    stream (readBitsCore r n).2.1 = stream r >>> n ∧
    avail (readBitsCore r n).2.1 = avail r - n ∧
    (readBitsCore r n).2.1.data = r.data ∧
    r.bytePos ≤ (readBitsCore r n).2.1.bytePos ∧
    (∀ i ∈ (readBitsCore r n).2.2, r.bytePos ≤ i ∧ i < (readBitsCore r n).2.1.bytePos) := by
  obtain ⟨hr, hmin⟩ := refillIfShort_spec r h n (by omega)
  have hm : min n (refillIfShort r n).1.bufferBits ≤ (refillIfShort r n).1.bufferBits := Nat.min_le_right _ _
  obtain ⟨t1, t2, t3, t4⟩ := take_bits (refillIfShort r n).1 hr.inv _ hm
  have hlt := stream_lt r h
  simp only [readBitsCore]
  refine ⟨?_, t2, ?_, ?_, hr.data, hr.posle, hr.idxs⟩
  · rw [one_shl, and_mask, t1, hr.str, hmin]
    have h32 : stream r % 2 ^ min n (avail r) < 2 ^ 32 :=
      Nat.lt_of_lt_of_le (Nat.mod_lt _ (Nat.two_pow_pos _)) (Nat.pow_le_pow_right (by decide) (by omega))
    rw [Nat.mod_eq_of_lt h32]
    by_cases hc : n ≤ avail r
    · rw [Nat.min_eq_left hc]
    · rw [Nat.min_eq_right (by omega), Nat.mod_eq_of_lt hlt, mod_two_pow_of_lt hlt (by omega)]
  · rw [t3, hr.str, hmin]
    by_cases hc : n ≤ avail r
    · rw [Nat.min_eq_left hc]
    · rw [Nat.min_eq_right (by omega), shr_of_lt hlt (Nat.le_refl _), shr_of_lt hlt (by omega)]
  · rw [t4, hr.av, hmin]; omega

/-- what a read does to the abstract state `(stream, avail)`; `w` = number of bits taken -/
structure ReadOK (r : Reader) (w : Nat) (v : Nat) (r' : Reader) (idx : List Nat) : Prop where
  val : v = stream r % 2 ^ w
  inv : RInv r'
  str : stream r' = stream r >>> w
  av : avail r' = avail r - w
  data : r'.data = r.data
  posle : r.bytePos ≤ r'.bytePos
  idxs : ∀ i ∈ idx, r.bytePos ≤ i ∧ i < r'.bytePos

theorem readBits_spec (r : Reader) (h : RInv r) (n : Nat) :
    ReadOK r (min n 32) (readBits r n).1 (readBits r n).2.1 (readBits r n).2.2 := by
  unfold readBits
  split
  · rename_i h0
    subst h0
    exact ⟨by simp [Nat.mod_one], h, by simp, by simp, rfl, Nat.le_refl _, fun i hi => by cases hi⟩
  · obtain ⟨a, b, c, d, e, f, g⟩ := readBitsCore_spec r h (min n 32) (Nat.min_le_right _ _)
    exact ⟨a, b, c, d, e, f, g⟩

theorem readBits64_spec (r : Reader) (h : RInv r) (n : Nat) :
    ReadOK r (min n 64) (readBits64 r n).1 (readBits64 r n).2.1 (readBits64 r n).2.2 := by
  unfold readBits64
  split
  · rename_i h0
    subst h0
    exact ⟨by simp [Nat.mod_one], h, by simp, by simp, rfl, Nat.le_refl _, fun i hi => by cases hi⟩
  · split
    · rename_i hle
      have := readBits_spec r h (min n 64)
      rw [Nat.min_eq_left hle] at this
      exact this
    · rename_i hgt
      have h1 := readBits_spec r h 32
      have h2 := readBits_spec (readBits r 32).2.1 h1.inv (min n 64 - 32)
      have e32 : min 32 32 = 32 := rfl
      rw [e32] at h1
      have ek : min (min n 64 - 32) 32 = min n 64 - 32 := by omega
      rw [ek] at h2
      have hw : 32 + (min n 64 - 32) = min n 64 := by omega
      dsimp only
      refine ⟨?_, h2.inv, ?_, ?_, by rw [h2.data, h1.data], Nat.le_trans h1.posle h2.posle, ?_⟩
      · rw [h1.val, h2.val, h1.str, or_low_high, hw]
        exact Nat.mod_eq_of_lt (Nat.lt_of_lt_of_le (Nat.mod_lt _ (Nat.two_pow_pos _))
          (Nat.pow_le_pow_right (by decide) (by omega)))
      · rw [h2.str, h1.str, shr_shr, hw]
      · rw [h2.av, h1.av]; omega
      · intro i hi
        rcases List.mem_append.mp hi with hi | hi
        · have := h1.idxs i hi; have := h2.posle; omega
        · have := h2.idxs i hi; have := h1.posle; omega

/-- `read_bit`: −1 exactly when no bit is left, otherwise the lowest bit of the stream -/
theorem readBit_spec (r : Reader) (h : RInv r) :
    (avail r = 0 → (readBit r).1 = -1 ∧ RInv (readBit r).2.1 ∧ stream (readBit r).2.1 = stream r ∧
        avail (readBit r).2.1 = 0 ∧ (readBit r).2.1.data = r.data ∧ r.bytePos ≤ (readBit r).2.1.bytePos ∧
        (∀ i ∈ (readBit r).2.2, r.bytePos ≤ i ∧ i < (readBit r).2.1.bytePos)) ∧
    (0 < avail r → ReadOK r 1 ((readBit r).1).toNat (readBit r).2.1 (readBit r).2.2 ∧ 0 ≤ (readBit r).1) := by
  have hre : Refilled r (refillIfEmpty r).1 (refillIfEmpty r).2 ∧
      ((refillIfEmpty r).1.bufferBits = 0 ↔ avail r = 0) := by
    unfold refillIfEmpty
    split
    · rename_i hb0
      obtain ⟨hr, hpost⟩ := refill_spec r h
      refine ⟨hr, ?_⟩
      have hav := hr.av
      have hpos := hr.inv.pos
      rw [hr.data] at hpos
      unfold avail at hav ⊢
      rw [hr.data] at hav
      rcases hpost with h56 | hend
      · omega
      · rw [hend] at hav; omega
    · rename_i hb0
      refine ⟨Refilled.refl r h, ?_⟩
      dsimp only
      unfold avail; omega
  obtain ⟨hr, hiff⟩ := hre
  constructor
  · intro h0
    have hb := hiff.mpr h0
    simp only [readBit, hb, if_true]
    exact ⟨trivial, hr.inv, hr.str, by rw [hr.av, h0], hr.data, hr.posle, hr.idxs⟩
  · intro hpos
    have hb : (refillIfEmpty r).1.bufferBits ≠ 0 := fun e => by have := hiff.mp e; omega
    obtain ⟨t1, t2, t3, t4⟩ := take_bits (refillIfEmpty r).1 hr.inv 1 (by omega)
    simp only [readBit, hb, if_false]
    refine ⟨⟨?_, t2, by rw [t3, hr.str], by rw [t4, hr.av], hr.data, hr.posle, hr.idxs⟩, Int.natCast_nonneg _⟩
    rw [Int.toNat_natCast, Nat.and_one_is_mod, ← hr.str]
    exact t1

/-! ### the reader as an abstract machine on `(stream, avail)` -/

/-- one call on the abstract state: `S` the undelivered bits as an integer, `A` their number -/
def astep : Nat × Nat → ROp → RObs × (Nat × Nat)
  | (S, A), .bit => if A = 0 then (.bit (-1), (S, A)) else (.bit ((S % 2 : Nat) : Int), (S >>> 1, A - 1))
  | (S, A), .bits n => (.val (S % 2 ^ min n 32), (S >>> min n 32, A - min n 32))
  | (S, A), .bits64 n => (.val (S % 2 ^ min n 64), (S >>> min n 64, A - min n 64))
  | (S, A), .hasMore => (.more (decide (0 < A)), (S, A))
  | (S, A), .remaining => (.rem (A % 2 ^ 64), (S, A))

def arun : Nat × Nat → List ROp → List RObs
  | _, [] => []
  | st, op :: ops => (astep st op).1 :: arun (astep st op).2 ops

theorem rstep_spec (r : Reader) (h : RInv r) (op : ROp) :
    (rstep r op).1 = (astep (stream r, avail r) op).1 ∧
    RInv (rstep r op).2.1 ∧
    (stream (rstep r op).2.1, avail (rstep r op).2.1) = (astep (stream r, avail r) op).2 ∧
    (rstep r op).2.1.data = r.data ∧ r.bytePos ≤ (rstep r op).2.1.bytePos ∧
    (∀ i ∈ (rstep r op).2.2, r.bytePos ≤ i ∧ i < (rstep r op).2.1.bytePos) := by
  cases op with
  | bit =>
    obtain ⟨hz, hp⟩ := readBit_spec r h
    by_cases h0 : avail r = 0
    · obtain ⟨a, b, c, d, e, f, g⟩ := hz h0
      simp only [rstep, astep, h0, if_true, a]
      exact ⟨trivial, b, by rw [c, d], e, f, g⟩
    · obtain ⟨ok, nn⟩ := hp (by omega)
      simp only [rstep, astep, h0, if_false]
      refine ⟨?_, ok.inv, by rw [ok.str, ok.av], ok.data, ok.posle, ok.idxs⟩
      have := ok.val
      rw [Nat.pow_one] at this
      rw [← this, Int.toNat_of_nonneg nn]
  | bits n =>
    have ok := readBits_spec r h n
    simp only [rstep, astep]
    exact ⟨by rw [ok.val], ok.inv, by rw [ok.str, ok.av], ok.data, ok.posle, ok.idxs⟩
  | bits64 n =>
    have ok := readBits64_spec r h n
    simp only [rstep, astep]
    exact ⟨by rw [ok.val], ok.inv, by rw [ok.str, ok.av], ok.data, ok.posle, ok.idxs⟩
  | hasMore =>
    refine ⟨?_, h, rfl, rfl, Nat.le_refl _, fun i hi => by cases hi⟩
    show RObs.more (hasMore r) = RObs.more (decide (0 < avail r))
    congr 1
    have := h.pos
    rw [Bool.eq_iff_iff, decide_eq_true_iff]
    simp only [hasMore, Bool.or_eq_true, decide_eq_true_eq]
    unfold avail
    omega
  | remaining =>
    refine ⟨?_, h, rfl, rfl, Nat.le_refl _, fun i hi => by cases hi⟩
    show RObs.rem (remainingBits r) = RObs.rem (avail r % 2 ^ 64)
    congr 1
    simp only [remainingBits, avail]
    congr 1
    omega

/-- **every history of reads**: the observations are those of the abstract machine started on the whole input,
every index of `data` read is below `size`, and `byte_pos ≤ size` at the end -/
theorem rrun_spec : ∀ (ops : List ROp) (r : Reader), RInv r →
    (rrun r ops).1 = arun (stream r, avail r) ops ∧
    RInv (rrun r ops).2.2 ∧ (rrun r ops).2.2.data = r.data ∧
    (∀ i ∈ (rrun r ops).2.1, r.bytePos ≤ i ∧ i < r.data.length) := by
  intro ops
  induction ops with
  | nil => intro r h; exact ⟨rfl, h, rfl, fun i hi => by cases hi⟩
  | cons op ops ih =>
    intro r h
    obtain ⟨s1, s2, s3, s4, s5, s6⟩ := rstep_spec r h op
    obtain ⟨i1, i2, i3, i4⟩ := ih (rstep r op).2.1 s2
    simp only [rrun, arun]
    refine ⟨by rw [s1, i1, s3], i2, by rw [i3, s4], ?_⟩
    intro i hi
    rcases List.mem_append.mp hi with hi | hi
    · have := s6 i hi
      have := s2.pos
      rw [s4] at this
      omega
    · have := i4 i hi
      rw [s4] at this
      omega

end Carquet.Proofs.BitIO
