import Carquet.Spec.RleHybrid
import Carquet.Proofs.RleDecoder
import Carquet.Proofs.BitPackSpec
/-
The Spec grammar (`Spec.RleHybrid.Runs`) against the decoder's denotation (`allValues`):
every legal stream denotes, for carquet's decoder, exactly the values the grammar gives it.
-/
namespace Carquet.Proofs.RleGrammar
open Carquet.Impl Carquet.Impl.Rle Carquet.Spec Carquet.Spec.RleHybrid
open Carquet.Proofs.NatBits Carquet.Proofs.BitpackImpl Carquet.Proofs.RleDecoder Carquet.Proofs.BitPackSpec

theorem spec_leBytes_eq (n v : Nat) : RleHybrid.leBytes n v = Bitpack.leBytes n v := by
  induction n generalizing v with
  | zero => rfl
  | succ n ih => simp [RleHybrid.leBytes, Bitpack.leBytes, ih]

theorem spec_leValue_eq (bs : List UInt8) : RleHybrid.leValue bs = Bitpack.leNat bs := by
  induction bs with
  | nil => rfl
  | cons b bs ih => simp [RleHybrid.leValue, Bitpack.leNat, ih]

theorem valueBytes_eq (w : Nat) : RleHybrid.valueBytes w = Rle.valueBytes w := rfl

theorem valueMask_eq {w : Nat} (hw : w ≤ 32) : valueMask w = 2 ^ w - 1 := by
  unfold valueMask
  by_cases h : w ≥ 32
  · have : w = 32 := by omega
    subst this; rfl
  · simp only [h, if_false, one_shl]

theorem pow_le_valueBytes (w : Nat) : 2 ^ w ≤ 2 ^ (8 * Rle.valueBytes w) :=
  Nat.pow_le_pow_right (by decide) (by unfold Rle.valueBytes; omega)

/-- the value bytes of an RLE run read back -/
theorem rle_value_read {w v : Nat} (hw : w ≤ 32) (hv : v < 2 ^ w) (rest : List UInt8) :
    Bitpack.leNat ((Bitpack.leBytes (Rle.valueBytes w) v ++ rest).take (Rle.valueBytes w)) &&& valueMask w = v := by
  rw [List.take_left' (leBytes_length _ _), leNat_leBytes, valueMask_eq hw, and_mask,
    Nat.mod_eq_of_lt (Nat.lt_of_lt_of_le hv (pow_le_valueBytes w)), Nat.mod_eq_of_lt hv]

/-- full groups in closed form (input bytes that are not there read as zero) -/
theorem unpackGroups_eq' {w : Nat} (hw : w ≤ 32) (g : Nat) (data : List UInt8) :
    Bitpack.unpackGroups w g data = (List.range (8 * g)).map (nth w (Bitpack.leNat data)) := by
  induction g generalizing data with
  | zero => simp [Bitpack.unpackGroups]
  | succ g ih =>
    simp only [Bitpack.unpackGroups]
    rw [unpack8_eq hw, ih (data.drop w)]
    rw [show 8 * (g + 1) = 8 + 8 * g by omega, List.range_add, List.map_append, List.map_map]
    congr 1
    · apply List.map_congr_left
      intro i hi
      have hi8 : i < 8 := by simpa using hi
      rw [leNat_take, nth_mod]
      rw [show w * i + w = w * (i + 1) by rw [Nat.mul_add]; omega, Nat.mul_comm 8 w]
      exact Nat.mul_le_mul_left w hi8
    · apply List.map_congr_left
      intro i _
      simp only [Function.comp, nth, leNat_drop, shr_shr]
      congr 2
      rw [Nat.mul_add, Nat.mul_comm w 8]

theorem unpackGroups_eq {w : Nat} (hw : w ≤ 32) (g : Nat) (data : List UInt8) (_hlen : data.length = g * w) :
    Bitpack.unpackGroups w g data = (List.range (8 * g)).map (nth w (Bitpack.leNat data)) :=
  unpackGroups_eq' hw g data

theorem unpackGroups_length {w : Nat} (hw : w ≤ 32) (g : Nat) (data : List UInt8) (hlen : data.length = g * w) :
    (Bitpack.unpackGroups w g data).length = 8 * g := by
  rw [unpackGroups_eq hw g data hlen]; simp

/-- carquet's group-by-group unpacking of a whole bit-packed run is the Spec's unpacking -/
theorem unpackGroups_eq_spec {w : Nat} (hw : w ≤ 32) (g : Nat) (data : List UInt8) (hlen : data.length = g * w) :
    BitPack.unpack w data (8 * g) = some (Bitpack.unpackGroups w g data) := by
  rw [unpackGroups_eq hw g data hlen, unpack_eq]
  rw [hlen, Nat.mul_assoc]; exact Nat.le_refl _

/-- the decoder's walk through `g` groups that are all present -/
theorem groupsThen_append {w : Nat} (hw : w ≤ 32) (k : List UInt8 → List Nat) (g : Nat) (data rest : List UInt8)
    (hlen : data.length = g * w) :
    groupsThen w k g (data ++ rest) = Bitpack.unpackGroups w g data ++ k rest := by
  induction g generalizing data with
  | zero =>
    have : data = [] := List.eq_nil_of_length_eq_zero (by simpa using hlen)
    subst this; simp [groupsThen, Bitpack.unpackGroups]
  | succ g ih =>
    have hw1 : w ≤ data.length := by rw [hlen, Nat.add_mul]; omega
    simp only [groupsThen, Bitpack.unpackGroups]
    have hnot : ¬ (data ++ rest).length < w := by simp only [List.length_append]; omega
    rw [if_neg hnot]
    have hdrop : (data ++ rest).drop w = data.drop w ++ rest := by
      rw [List.drop_append_of_le_length hw1]
    have hu : Bitpack.unpack8 w (data ++ rest) = Bitpack.unpack8 w data := by
      rw [unpack8_eq hw, unpack8_eq hw, List.take_append_of_le_length hw1]
    rw [hdrop, hu, ih (data.drop w) (by rw [List.length_drop, hlen, Nat.add_mul]; omega), List.append_assoc]

theorem isHeader_ne_nil {hdr : List UInt8} {h : Nat} (hh : IsHeader hdr h) : hdr ≠ [] := by
  intro e; subst e; simp [IsHeader, Varint.decode] at hh

/-- carquet's header reader on a Spec header -/
theorem read_header {hdr : List UInt8} {h : Nat} (hh : IsHeader hdr h) (rest : List UInt8) :
    Impl.Varint.readVarintRle (hdr ++ rest) = some (h, rest) := by
  obtain ⟨h1, h2, h3⟩ := hh
  apply VarintImpl.readVarintRle_of_spec (VarintImpl.decode_append h1 rest) _ h3
  simp only [List.length_append]; omega

theorem two_mul_and_one (n : Nat) : (2 * n) &&& 1 = 0 := by
  have := and_mask (2 * n) 1
  simp only [Nat.pow_one, Nat.add_one_sub_one] at this
  rw [this]; omega

theorem two_mul_add_and_one (n : Nat) : (2 * n + 1) &&& 1 ≠ 0 := by
  have := and_mask (2 * n + 1) 1
  simp only [Nat.pow_one, Nat.add_one_sub_one] at this
  rw [this]; omega

theorem two_mul_shr (n : Nat) : (2 * n) >>> 1 = n := by rw [shr_eq]; omega
theorem two_mul_add_shr (n : Nat) : (2 * n + 1) >>> 1 = n := by rw [shr_eq]; omega

/-- **Every legal stream means to carquet's decoder what the grammar says.** -/
theorem allValues_of_runs {w : Nat} (hw : w ≤ 32) {bs : List UInt8} {xs : List Nat}
    (h : Runs w bs xs) : allValues w bs = xs := by
  induction h with
  | nil => simp [allValues, valuesOf]
  | rle hdr n v rest vals hh hv _ ih =>
    have hne := isHeader_ne_nil hh
    have hpos : 0 < hdr.length := List.length_pos_iff.mpr hne
    have hlen : (hdr ++ RleHybrid.leBytes (RleHybrid.valueBytes w) v ++ rest).length ≠ 0 := by
      simp only [List.length_append]
      have := List.length_pos_iff.mpr hne
      omega
    unfold allValues
    simp only [valuesOf]
    rw [if_neg hlen, List.append_assoc, read_header hh]
    simp only
    rw [if_pos (two_mul_and_one n), two_mul_shr, spec_leBytes_eq, valueBytes_eq]
    have hnot : ¬ (Bitpack.leBytes (Rle.valueBytes w) v ++ rest).length < Rle.valueBytes w := by
      simp only [List.length_append, leBytes_length]; omega
    rw [if_neg hnot, rle_value_read hw hv, List.drop_left' (leBytes_length _ _)]
    rw [valuesOf_eq_all _ _ _ (by simp only [List.length_append]; omega), ih]
  | packed hdr g data xs rest vals hh hlen hu _ ih =>
    have hne := isHeader_ne_nil hh
    have hpos : 0 < hdr.length := List.length_pos_iff.mpr hne
    have hl : (hdr ++ data ++ rest).length ≠ 0 := by
      simp only [List.length_append]
      have := List.length_pos_iff.mpr hne
      omega
    unfold allValues
    simp only [valuesOf]
    rw [if_neg hl, List.append_assoc, read_header hh]
    simp only
    rw [if_neg (two_mul_add_and_one g), two_mul_add_shr, groupsThen_append hw _ g data rest hlen]
    rw [unpackGroups_eq_spec hw g data hlen] at hu
    cases hu
    rw [valuesOf_eq_all _ _ _ (by simp only [List.length_append]; omega), ih]

theorem runs_append {w : Nat} {a b : List UInt8} {xs ys : List Nat} (ha : Runs w a xs) (hb : Runs w b ys) :
    Runs w (a ++ b) (xs ++ ys) := by
  induction ha with
  | nil => simpa using hb
  | rle hdr n v rest vals hh hv _ ih =>
    have := Runs.rle hdr n v (rest ++ b) (vals ++ ys) hh hv ih
    simpa [List.append_assoc] using this
  | packed hdr g data xs rest vals hh hlen hu _ ih =>
    have := Runs.packed hdr g data xs (rest ++ b) (vals ++ ys) hh hlen hu ih
    simpa [List.append_assoc] using this

end Carquet.Proofs.RleGrammar
