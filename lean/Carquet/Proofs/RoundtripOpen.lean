import Carquet.Proofs.ReaderPageRoundtrip
import Carquet.Proofs.FileRealFooter
import Carquet.Proofs.Schema
import Carquet.Proofs.NatBits
import Carquet.Proofs.SpecWriterFile
/-
C01, file level — stage "open": `carquet_reader_open*` (all three paths) and
`carquet_reader_get_column` on a file with the envelope the writer produces
(`PAR1 ++ data ++ footer ++ le32 |footer| ++ PAR1`, C05_envelope) and the footer the writer
serialises (`Impl.FileReal.footer md`):

* envelope: both magics are found, the length word is read back, the footer bytes are cut out;
* footer: `parquet_parse_file_metadata` returns the writer's metadata (`parse_written_footer`, C13);
* `build_schema`: the validation loop accepts root + one typed leaf per column, the traversal
  (Impl.Schema, C17 `build_flatten`) yields leaf `j` = element `1 + j` with the levels of the
  column's repetition;
* `get_column`: every test passes for a chunk whose metadata carry the column's physical type; the
  column reader it creates is `colOf c m` — the column the page / chunk theorems of the reader half
  are stated for.
-/
namespace Carquet.Proofs.Roundtrip
open Carquet.Impl Carquet.Impl.Reader
open Carquet.Impl.Writer (ChunkMeta RgMeta FooterData)
open Carquet.Proofs.ReaderPageRoundtrip Carquet.Proofs.SpecWriter
open Carquet.Spec.Schema (Leaf Element Info Node)

/-! ### the envelope -/

theorem le32_read (n : Nat) (h : n < 2 ^ 32) : le32 (Writer.le32 n) = n := by
  unfold le32
  have h4 : (Writer.le32 n).length = 4 := rfl
  rw [List.take_of_length_le (by omega), Carquet.Proofs.ReaderPageRoundtrip.le32_eq_leBytes, Carquet.Proofs.NatBits.leNat_leBytes]
  exact Nat.mod_eq_of_lt h

/-- a file with the writer's envelope -/
def envFile (data foot : Reader.Bytes) : Reader.Bytes :=
  Writer.magic ++ data ++ foot ++ Writer.le32 foot.length ++ Writer.magic

/-- the parts of a file with the writer's envelope, as the open paths cut them out -/
theorem envelope_parts (data foot : Reader.Bytes) (hlen : foot.length < 2 ^ 32) :
    (envFile data foot).length = 4 + data.length + foot.length + 8 ∧ (envFile data foot).take 4 = magic ∧
    slice (envFile data foot) ((envFile data foot).length - 4) 4 = magic ∧
    footerLen (envFile data foot) = foot.length ∧ footerBytes (envFile data foot) = foot := by
  have hl4 : (Writer.le32 foot.length).length = 4 := rfl
  have hm4 : Writer.magic.length = 4 := rfl
  have hblen : (envFile data foot).length = 4 + data.length + foot.length + 8 := by
    simp only [envFile, List.length_append, hl4, hm4]
  have htake : (envFile data foot).take 4 = magic := by
    unfold envFile
    rw [List.append_assoc, List.append_assoc, List.append_assoc, List.take_left' hm4]
    rfl
  have hlast : slice (envFile data foot) ((envFile data foot).length - 4) 4 = magic := by
    have : (envFile data foot).length - 4 = (Writer.magic ++ data ++ foot ++ Writer.le32 foot.length).length := by
      rw [hblen]; simp only [List.length_append, hl4, hm4]; omega
    rw [this]
    unfold slice envFile
    rw [List.drop_left' rfl, List.take_of_length_le (by rw [hm4]; omega)]
    rfl
  have hfl : footerLen (envFile data foot) = foot.length := by
    unfold footerLen
    have : (envFile data foot).length - 8 = (Writer.magic ++ data ++ foot).length := by
      rw [hblen]; simp only [List.length_append, hm4]; omega
    rw [this]
    unfold slice envFile
    rw [List.append_assoc (Writer.magic ++ data ++ foot), List.drop_left' rfl, List.take_left' hl4]
    exact le32_read _ hlen
  refine ⟨hblen, htake, hlast, hfl, ?_⟩
  unfold footerBytes
  rw [hfl]
  have : (envFile data foot).length - 8 - foot.length = (Writer.magic ++ data).length := by
    rw [hblen]; simp only [List.length_append, hm4]; omega
  rw [this]
  unfold slice envFile
  rw [List.append_assoc (Writer.magic ++ data ++ foot), List.append_assoc (Writer.magic ++ data), List.drop_left' rfl,
    List.take_left' rfl]

/-- **envelope**: a file with the writer's envelope whose footer the common tail of the open paths
accepts is opened by all three paths, with that result -/
theorem openFile_envelope (mode : Mode) (data foot : Reader.Bytes) (hlen : foot.length < 2 ^ 32) (o : Opened)
    (hfoot : parseFooter foot = .ok o) :
    openFile mode (Writer.magic ++ data ++ foot ++ Writer.le32 foot.length ++ Writer.magic) = .ok o := by
  obtain ⟨hblen, htake, hlast, hfl, hfb⟩ := envelope_parts data foot hlen
  show openFile mode (envFile data foot) = .ok o
  generalize envFile data foot = b at *
  have h12 : ¬ b.length < 12 := by omega
  have hfit : ¬ footerLen b > b.length - 8 := by rw [hfl, hblen]; omega
  have hfr : (openFread b).1 = .ok o := by
    unfold openFread
    rw [if_neg h12, if_neg (by rw [hlast]; simp), if_neg hfit, hfb, hfoot]
  have hmp : (openMapped b).1 = .ok o := by
    unfold openMapped
    rw [if_neg h12, if_neg (by rw [htake]; simp), if_neg (by rw [hlast]; simp), if_neg hfit, hfb, hfoot]
  have h0 : ¬ b.length = 0 := by omega
  cases mode with
  | fread => exact hfr
  | mmap =>
    show (if b.length = 0 then openFread b else openMapped b).1 = .ok o
    rw [if_neg h0]; exact hmp
  | buffer =>
    show (if b.length = 0 then (Except.error Err.invalidArgument, []) else openMapped b).1 = .ok o
    rw [if_neg h0]; exact hmp

/-! ### build_schema on the writer's schema elements -/

/-- the schema element the writer emits for a column -/
def colElement (c : Writer.Col) : ThriftParquet.SchemaElement :=
  { type := some c.ptype.code, typeLength := c.typeLen, repetition := some c.rep.code, name := some (FileReal.strBytes c.name),
    logicalType := FileReal.colLogical c }

theorem colElement_eq (c : Writer.Col) : colElement c = FileReal.schemaElementOfCol c := rfl

/-- what `build_schema` sees of it -/
def colInfo (c : Writer.Col) : Info := (toElement (colElement c)).info

/-- the root element's info as `build_schema` sees it -/
def rootInfoW : Info := ⟨nameOf (some (FileReal.strBytes "schema")), none, none, 0, none, none⟩

theorem schema_written (md : FooterData) :
    (FileReal.fileMetaData md).schema =
      ({ name := some (FileReal.strBytes "schema"), numChildren := md.cols.length } : ThriftParquet.SchemaElement) ::
        md.cols.map colElement := rfl

theorem elemBad_cols : ∀ (cols : List Writer.Col) (n : Nat), 0 < n →
    ((cols.map colElement).zipIdx n).any (fun p => elemBad p.2 p.1) = false
  | [], _, _ => rfl
  | c :: cs, n, hn => by
    have ih := elemBad_cols cs (n + 1) (by omega)
    simp only [List.map_cons, List.zipIdx_cons, List.any_cons, ih, Bool.or_false]
    simp [elemBad, colElement]

theorem toElement_cols (cols : List Writer.Col) :
    (cols.map colElement).map toElement = (cols.map colInfo).map (fun i => (⟨i, 0⟩ : Element)) := by
  rw [List.map_map, List.map_map]
  rfl

/-- the leaves `build_schema` computes for the writer's schema: leaf `j` is element `1 + j` -/
def leavesOfCols (cols : List Writer.Col) : List Leaf :=
  (cols.map colInfo).mapIdx (fun k i => (⟨1 + k, Carquet.Spec.Schema.defInc i.rep, Carquet.Spec.Schema.repInc i.rep⟩ : Leaf))

/-- **build_schema** on the schema of a written footer (at least one column) -/
theorem buildSchema_written (md : FooterData) (hne : md.cols ≠ []) :
    buildSchema (FileReal.fileMetaData md).schema = .ok (leavesOfCols md.cols) := by
  rw [schema_written]
  unfold buildSchema
  have hbad : ((({ name := some (FileReal.strBytes "schema"), numChildren := md.cols.length } : ThriftParquet.SchemaElement) ::
      md.cols.map colElement).zipIdx.any (fun p => elemBad p.2 p.1)) = false := by
    simp only [List.zipIdx_cons, List.any_cons, elemBad_cols md.cols (0 + 1) (by omega), Bool.or_false]
    simp [elemBad]
  rw [hbad]
  simp only [Bool.false_eq_true, if_false]
  have hels : (({ name := some (FileReal.strBytes "schema"), numChildren := md.cols.length } : ThriftParquet.SchemaElement) ::
      md.cols.map colElement).map toElement =
      Carquet.Spec.Schema.flatten (.group rootInfoW ((md.cols.map colInfo).map Node.leaf)) := by
    simp only [List.map_cons, toElement_cols, Carquet.Spec.Schema.flatten, Carquet.Proofs.Schema.flattenList_leaves,
      List.length_map]
    rfl
  rw [hels]
  have hne' : (md.cols.map colInfo).map Node.leaf ≠ [] := by
    cases hc : md.cols with
    | nil => exact absurd hc hne
    | cons c cs => simp
  have hgne : ∀ (is : List Info), Carquet.Spec.Schema.groupsNonEmptyList (is.map Node.leaf) = true := by
    intro is
    induction is with
    | nil => rfl
    | cons i is ih => simp [Carquet.Spec.Schema.groupsNonEmptyList, Carquet.Spec.Schema.groupsNonEmpty, ih]
  have htyped : ∀ (cs : List Writer.Col), Carquet.Spec.Schema.typedList ((cs.map colInfo).map Node.leaf) = true := by
    intro cs
    induction cs with
    | nil => rfl
    | cons c cs ih =>
      simp only [List.map_cons, Carquet.Spec.Schema.typedList, Carquet.Spec.Schema.typed, ih, Bool.and_true]
      rfl
  have hb := Carquet.Proofs.Schema.build_flatten rootInfoW ((md.cols.map colInfo).map Node.leaf)
    (by
      simp only [Carquet.Spec.Schema.groupsNonEmpty, hgne, Bool.and_true]
      cases hc : (md.cols.map colInfo).map Node.leaf with
      | nil => exact absurd hc hne'
      | cons _ _ => rfl)
    (by simp only [Carquet.Spec.Schema.typed, htyped, Bool.and_true]; rfl)
  rw [hb]
  simp only [Carquet.Spec.Schema.leaves, Carquet.Proofs.Schema.leavesOfList_leaves]
  rfl

/-- **footer**: the common tail of the three open paths on the footer of a written file -/
theorem parseFooter_written (md : FooterData) (hok : Carquet.Proofs.FileRealFooter.footerOk md = true) (hne : md.cols ≠ []) :
    parseFooter (FileReal.footer md) = .ok ⟨FileReal.fileMetaData md, leavesOfCols md.cols⟩ := by
  unfold parseFooter ThriftParquetReq.parseFileMetaDataReq
  rw [Carquet.Proofs.FileRealFooter.parse_written_footer md hok]
  simp only [buildSchema_written md hne]

/-! ### get_column -/

/-- the chunk metadata the writer serialises for a chunk (`flush_row_group`) -/
def cmdOf (ch : ChunkMeta) : ThriftParquet.ColumnMetaData :=
  { type := ch.ptype.code, encodings := [0, 3], pathInSchema := [FileReal.strBytes ch.path], codec := ch.codec,
    numValues := ch.numValues, totalUncompressedSize := ch.totalUncompressed, totalCompressedSize := ch.totalCompressed,
    dataPageOffset := ch.fileOffset }

theorem rowGroups_written (md : FooterData) (i : Nat) (gm : RgMeta) (h : md.rowGroups[i]? = some gm) :
    ∃ g : ThriftParquet.RowGroup, (FileReal.fileMetaData md).rowGroups[i]? = some g ∧
      g.columns = gm.chunks.map (fun ch => ({ fileOffset := ch.fileOffset, metaData := some (cmdOf ch) } : ThriftParquet.ColumnChunk)) := by
  refine ⟨{ columns := gm.chunks.map (fun ch => ({ fileOffset := ch.fileOffset, metaData := some (cmdOf ch) } : ThriftParquet.ColumnChunk)),
             totalByteSize := gm.totalByteSize, numRows := gm.numRows, fileOffset := some gm.fileOffset,
             totalCompressedSize := some gm.totalCompressed, ordinal := some gm.ordinal }, ?_, rfl⟩
  simp only [FileReal.fileMetaData, List.getElem?_map, h, Option.map_some]
  rfl

theorem leavesOfCols_get (cols : List Writer.Col) (j : Nat) (c : Writer.Col) (h : cols[j]? = some c) :
    (leavesOfCols cols)[j]? = some ⟨1 + j, Carquet.Spec.Schema.defInc (colInfo c).rep, Carquet.Spec.Schema.repInc (colInfo c).rep⟩ := by
  simp [leavesOfCols, List.getElem?_mapIdx, List.getElem?_map, h]

theorem colInfo_levels (c : Writer.Col) :
    Carquet.Spec.Schema.defInc (colInfo c).rep = c.maxDef ∧ Carquet.Spec.Schema.repInc (colInfo c).rep = c.maxRep := by
  cases hr : c.rep <;>
    simp [colInfo, colElement, toElement, repOf, hr, Writer.Rep.code, Carquet.Spec.Schema.defInc, Carquet.Spec.Schema.repInc,
      Writer.Col.maxDef, Writer.Col.maxRep]

/-- **get_column**: on the opened writer metadata, for row group `i` and column `j` whose chunk
metadata carry the column's physical type, `carquet_reader_get_column` succeeds and creates the
column reader `colOf c (cmdOf m)` -/
theorem getColumn_written (md : FooterData) (i j : Nat) (gm : RgMeta) (m : ChunkMeta) (c : Writer.Col) (hc : ColOk c)
    (hg : md.rowGroups[i]? = some gm) (hm : gm.chunks[j]? = some m) (hcol : md.cols[j]? = some c)
    (hpt : m.ptype = c.ptype) :
    getColumn ⟨FileReal.fileMetaData md, leavesOfCols md.cols⟩ (i : Int) (j : Int) = .ok (colOf c (cmdOf m)) := by
  obtain ⟨g, hg1, hg2⟩ := rowGroups_written md i gm hg
  have hil : i < md.rowGroups.length := by
    have := (List.getElem?_eq_some_iff.mp hg).1; exact this
  have hjl : j < md.cols.length := (List.getElem?_eq_some_iff.mp hcol).1
  have hjm : j < gm.chunks.length := (List.getElem?_eq_some_iff.mp hm).1
  have hlf := leavesOfCols_get md.cols j c hcol
  have hll : (leavesOfCols md.cols).length = md.cols.length := by simp [leavesOfCols]
  have hrl : (FileReal.fileMetaData md).rowGroups.length = md.rowGroups.length := by simp [FileReal.fileMetaData]
  have hel : (FileReal.fileMetaData md).schema[1 + j]? = some (colElement c) := by
    rw [schema_written, Nat.add_comm, List.getElem?_cons_succ, List.getElem?_map, hcol]
    rfl
  have hcols : g.columns[j]? = some ({ fileOffset := m.fileOffset, metaData := some (cmdOf m) } : ThriftParquet.ColumnChunk) := by
    rw [hg2, List.getElem?_map, hm]; rfl
  have hcl : g.columns.length = gm.chunks.length := by rw [hg2, List.length_map]
  obtain ⟨hd, hr⟩ := colInfo_levels c
  unfold getColumn
  rw [if_neg (by simp only [hrl]; omega), if_neg (by simp only [hll]; omega)]
  simp only [Int.toNat_natCast, hg1, hlf]
  rw [if_neg (by rw [hcl]; omega)]
  simp only [hcols, hel]
  have hmis : chunkMismatch (cmdOf m) (colElement c) = false := by
    have hfl := hc.flbaLen
    have e1 : (colElement c).type = some (c.ptype.code : Int) := rfl
    have e2 : (cmdOf m).type = (c.ptype.code : Int) := by simp [cmdOf, hpt]
    have e3 : (colElement c).typeLength = (c.typeLen : Int) := rfl
    have e4 : (cmdOf m).numValues = (m.numValues : Int) := rfl
    unfold chunkMismatch
    rw [e1, e2, e3, e4]
    have a : decide (some (c.ptype.code : Int) ≠ some (c.ptype.code : Int)) = false := by simp
    have b : (decide (some (c.ptype.code : Int) = some 7) && decide ((c.typeLen : Int) ≤ 0)) = false := by
      by_cases h7 : c.ptype = .flba
      · have := hfl h7
        have : decide ((c.typeLen : Int) ≤ 0) = false := decide_eq_false (by omega)
        rw [this]; simp
      · have : decide (some (c.ptype.code : Int) = some 7) = false := decide_eq_false (by
          intro h; apply h7
          cases hp : c.ptype <;> simp [hp, Writer.PType.code] at h ⊢)
        rw [this]; simp
    have d : decide ((m.numValues : Int) < 0) = false := decide_eq_false (by omega)
    rw [a, b, d]; rfl
  rw [hmis]
  simp only [Bool.false_eq_true, if_false, colOf, hd, hr, cmdOf, colElement, hpt]

end Carquet.Proofs.Roundtrip
