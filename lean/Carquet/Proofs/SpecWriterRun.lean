import Carquet.Proofs.SpecWriterInv
/-
All facts about a completed run of the writer model in one place, about ONE explicit pair
(footer data `mdOfRun`, page records `pagesOfRun`): the statements of `C05_chunks_tile`,
`C05_pages_chain`, `C05_written_table` (Properties/C05/Writer.lean) together with the further
invariants of Proofs/SpecWriterInv.lean.  Generic in `Deps`.
-/
namespace Carquet.Proofs.SpecWriter
open Carquet.Impl.Writer Carquet.Proofs.Writer Carquet.Proofs.WriterLayout Carquet.Proofs.WriterPages
open Carquet.Proofs.WriterTable

/-- the writer state whose footer `close` writes, after the history `ops` -/
def runState (D : Deps) (cols : List Col) (codec pageSize : Nat) (createdBy : String) (ops : List Op) : W :=
  closing D (stateAfter D { cols := cols, codec := codec, pageSize := pageSize, createdBy := createdBy } ops)

/-- what `build_file_metadata` assembles at close -/
def mdOfRun (D : Deps) (cols : List Col) (codec pageSize : Nat) (createdBy : String) (ops : List Op) : FooterData :=
  ⟨(runState D cols codec pageSize createdBy ops).cols, (runState D cols codec pageSize createdBy ops).createdBy,
   (runState D cols codec pageSize createdBy ops).totalRows, (runState D cols codec pageSize createdBy ops).rowGroups⟩

/-- the (ghost) page records of the run: row groups → chunks → pages -/
def pagesOfRun (D : Deps) (cols : List Col) (codec pageSize : Nat) (createdBy : String) (ops : List Op) :
    List (List (List PageRec)) :=
  (runState D cols codec pageSize createdBy ops).pagesDone

structure RunFacts (D : Deps) (pp : PagePred D) (cols : List Col) (codec : Nat) (createdBy : String) (ops : List Op)
    (file : Bytes) (md : FooterData) (gs : List (List (List PageRec))) : Prop where
  file_eq : file = magic ++ dataBytes D gs ++ D.footer md ++ le32 (D.footer md).length ++ magic
  cols_eq : md.cols = cols
  createdBy_eq : md.createdBy = createdBy
  numRows_eq : md.numRows = (md.rowGroups.map (·.numRows)).sum
  groupsAt : GroupsAt md.rowGroups 4
  allGroups : AllGroups D codec md.rowGroups gs
  groupOf : ∀ g ∈ gs, GroupOf D codec cols g
  table : gs.map (·.map pagesData) = tableOf cols ops
  groupP : ∀ g ∈ gs, GroupP pp cols g
  chunksFor : ∀ g ∈ md.rowGroups, ChunksFor codec cols g.chunks
  rowsZip : RowsZip cols md.rowGroups gs
  ordinals : ∀ (i : Nat) (g : RgMeta), md.rowGroups[i]? = some g → g.ordinal = i

theorem run_facts (D : Deps) (pp : PagePred D) (cols : List Col) (codec pageSize : Nat) (createdBy : String)
    (ops : List Op) (hwf : HistWF ops)
    (hq : ∀ b, Op.batch b ∈ ops → ∀ c, cols[b.col]? = some c → pp.Q c b)
    (hok : ∀ s ∈ (fileOf D cols codec pageSize createdBy ops).2, s = .ok) :
    RunFacts D pp cols codec createdBy ops (fileOf D cols codec pageSize createdBy ops).1
      (mdOfRun D cols codec pageSize createdBy ops) (pagesOfRun D cols codec pageSize createdBy ops) := by
  unfold fileOf writesOf at hok ⊢
  simp only at hok ⊢
  unfold mdOfRun pagesOfRun runState
  have hinit := allInv_init cols codec pageSize createdBy
  obtain ⟨r1, _⟩ := run_eq_close D ops { cols := cols, codec := codec, pageSize := pageSize, createdBy := createdBy } []
  obtain ⟨a1, a2⟩ := run_all_ok D ops _ [] hok
  have hA := allInv_stateAfter D ops _ hinit
  have hP := pinv_closing D codec _ (pinv_stateAfter D codec ops _ (pinv_init D cols codec pageSize createdBy) hinit) hA
  obtain ⟨t1, t2, t3, t4⟩ := stateAfter_refines D ops _ (tinv_init D cols codec pageSize createdBy) hwf a1
  have hcl : (step D (stateAfter D { cols := cols, codec := codec, pageSize := pageSize, createdBy := createdBy } ops) .newRowGroup).2 = .ok := by
    rw [← close_status]; exact a2
  obtain ⟨s1, s2, s3, s4⟩ := step_refines D _ .newRowGroup t1 (fun b hb => by cases hb) hcl
  obtain ⟨c1, _, c3⟩ := close_layout D _ hA a2
  have hh : (closing D (stateAfter D { cols := cols, codec := codec, pageSize := pageSize, createdBy := createdBy } ops)).headerWritten = true := by
    unfold closing; rw [flushRowGroup_header]; exact (allInv_ensureHeader _ hA).2
  obtain ⟨_, ⟨g1, g2, _⟩, _⟩ := hP
  have hstep : (step D (stateAfter D { cols := cols, codec := codec, pageSize := pageSize, createdBy := createdBy } ops) .newRowGroup).1 =
      closing D (stateAfter D { cols := cols, codec := codec, pageSize := pageSize, createdBy := createdBy } ops) := rfl
  rw [hstep] at s1 s2 s3 s4
  have hX := xinv_closing pp _ (xinv_stateAfter pp ops _ (xinv_init pp cols codec pageSize createdBy) hq)
  have hrows := rowsInv_closing D _ (rowsInv_stateAfter D ops
    { cols := cols, codec := codec, pageSize := pageSize, createdBy := createdBy } (by simp [RowsInv]))
  have hcb : (closing D (stateAfter D { cols := cols, codec := codec, pageSize := pageSize, createdBy := createdBy } ops)).createdBy = createdBy := by
    have k := step_cols D (stateAfter D { cols := cols, codec := codec, pageSize := pageSize, createdBy := createdBy } ops) .newRowGroup
    have f := stateAfter_cols D ops { cols := cols, codec := codec, pageSize := pageSize, createdBy := createdBy }
    rw [hstep] at k
    exact k.2.trans f.2
  rw [r1, c1, g1 hh]
  have htab : (closing D (stateAfter D { cols := cols, codec := codec, pageSize := pageSize, createdBy := createdBy } ops)).pagesDone.map (·.map pagesData) =
      tableOf cols ops := by
    have := congrArg A.done s2
    rw [t2, t3] at this
    simpa [abs, tableOf] using this
  have hcols : (closing D (stateAfter D { cols := cols, codec := codec, pageSize := pageSize, createdBy := createdBy } ops)).cols = cols := by
    rw [s3, t3]
  have hcodec : (closing D (stateAfter D { cols := cols, codec := codec, pageSize := pageSize, createdBy := createdBy } ops)).codec = codec := by
    rw [s4, t4]
  have hgo := s1.1
  rw [hcols, hcodec] at hgo
  obtain ⟨x1, _, x3, x4⟩ := hX
  rw [hcols] at x1
  rw [hcols, hcodec] at x3
  rw [hcols] at x4
  generalize closing D (stateAfter D { cols := cols, codec := codec, pageSize := pageSize, createdBy := createdBy } ops) = W' at *
  exact ⟨by simp [footerOf, List.append_assoc], hcols, hcb, hrows, c3, g2, hgo, htab, x1, x3, x4.1, x4.2⟩

end Carquet.Proofs.SpecWriter
