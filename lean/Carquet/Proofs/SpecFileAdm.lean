import Carquet.Spec.File.Admissible
import Carquet.Proofs.SpecFileExtras
/-
Admissibility of a layout for the whole-file theorem `C06_reference_selfconsistent` (explicit,
decidable: all `Bool`), and the unknown-field mechanism in the form the extraction lemmas use:
every getter of `Spec.File.Meta` and the required / typed check see through `withExtras` when the
extra ids avoid the struct's table.
-/
namespace Carquet.Proofs.SpecFile
open Carquet.Spec Carquet.Spec.File Carquet.Spec.Thrift Carquet.Spec.ParquetThrift

/-! ### unknown fields: ids outside the struct's table -/

theorem extrasOk_avoid {s : StructSpec} {extra : Fields} (h : extrasOk s extra = true) :
    ∀ f ∈ extra, s.find f.1 = none := by
  intro f hf
  unfold extrasOk at h
  rw [List.all_eq_true] at h
  have := h f hf
  simpa using this

theorem extrasOk_nil (s : StructSpec) : extrasOk s [] = true := rfl

theorem checkStruct_we {s : StructSpec} {extra : Fields} (h : extrasOk s extra = true) (known : Fields) :
    checkStruct s (withExtras known extra) = checkStruct s known :=
  (unknown_fields_ignored s known extra (extrasOk_avoid h)).1

theorem field?_we {s : StructSpec} {extra : Fields} (h : extrasOk s extra = true) (known : Fields) (k : Int)
    (hk : (s.find k).isSome = true) : field? (withExtras known extra) k = field? known k := by
  apply (unknown_fields_ignored s known extra (extrasOk_avoid h)).2 k
  intro hn
  rw [hn] at hk
  cases hk

theorem getInt_we {s : StructSpec} {extra : Fields} (h : extrasOk s extra = true) (known : Fields) (k : Int)
    (hk : (s.find k).isSome = true) : getInt (withExtras known extra) k = getInt known k := by
  unfold getInt; rw [field?_we h known k hk]

theorem getBin_we {s : StructSpec} {extra : Fields} (h : extrasOk s extra = true) (known : Fields) (k : Int)
    (hk : (s.find k).isSome = true) : getBin (withExtras known extra) k = getBin known k := by
  unfold getBin; rw [field?_we h known k hk]

theorem getStruct_we {s : StructSpec} {extra : Fields} (h : extrasOk s extra = true) (known : Fields) (k : Int)
    (hk : (s.find k).isSome = true) : getStruct (withExtras known extra) k = getStruct known k := by
  unfold getStruct; rw [field?_we h known k hk]

theorem getList_we {s : StructSpec} {extra : Fields} (h : extrasOk s extra = true) (known : Fields) (k : Int)
    (hk : (s.find k).isSome = true) : getList (withExtras known extra) k = getList known k := by
  unfold getList; rw [field?_we h known k hk]

theorem natField_we {s : StructSpec} {extra : Fields} (h : extrasOk s extra = true) (what : String) (known : Fields)
    (k : Int) (hk : (s.find k).isSome = true) : natField what (withExtras known extra) k = natField what known k := by
  unfold natField; rw [getInt_we h known k hk]

theorem optNatField_we {s : StructSpec} {extra : Fields} (h : extrasOk s extra = true) (what : String) (known : Fields)
    (k : Int) (hk : (s.find k).isSome = true) :
    optNatField what (withExtras known extra) k = optNatField what known k := by
  unfold optNatField; rw [getInt_we h known k hk]

/-! ### well-formedness of a struct with merged-in fields -/

theorem wfFields_cons (f : Int × TVal) (r : Fields) :
    wfFields (f :: r) = (decide (inI16 f.1) && f.2.wf && wfFields r) := by
  obtain ⟨id, v⟩ := f
  simp only [wfFields]

theorem wfFields_insertField (f : Int × TVal) : ∀ fs : Fields,
    wfFields (insertField f fs) = (decide (inI16 f.1) && f.2.wf && wfFields fs)
  | [] => by simp only [insertField, wfFields_cons]
  | g :: r => by
    simp only [insertField]
    split
    · simp only [wfFields_cons]
    · rw [wfFields_cons, wfFields_insertField f r, wfFields_cons]
      cases decide (inI16 g.1) <;> cases g.2.wf <;> cases decide (inI16 f.1) <;> cases f.2.wf <;> simp

theorem wfFields_withExtras : ∀ (extra known : Fields),
    wfFields (withExtras known extra) = (wfFields known && wfFields extra)
  | [], known => by simp [withExtras, wfFields]
  | f :: r, known => by
    have ih := wfFields_withExtras r (insertField f known)
    simp only [withExtras, List.foldl_cons] at ih ⊢
    rw [ih, wfFields_insertField, wfFields_cons]
    cases decide (inI16 f.1) <;> cases f.2.wf <;> cases wfFields known <;> simp

theorem wfFields_append : ∀ (a b : Fields), wfFields (a ++ b) = (wfFields a && wfFields b)
  | [], b => by simp [wfFields]
  | f :: r, b => by
    simp only [List.cons_append, wfFields_cons, wfFields_append r b, Bool.and_assoc]

/-! ### the oracle table -/

theorem oracleCoherent_lookup {o : Oracle} (h : oracleCoherent o = true) :
    ∀ e ∈ o, oracleLookup o e.1 = some e.2 := by
  intro e he
  unfold oracleCoherent at h
  rw [List.all_eq_true] at h
  simpa using h e he

end Carquet.Proofs.SpecFile
