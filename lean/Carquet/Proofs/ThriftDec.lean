import Carquet.Proofs.ThriftSpec
/-
The decoder primitives of Impl.Thrift read the Spec's encodings: for every primitive `f` and
every encoding `bs` of a value `a`, `Reads k f bs a` — started anywhere in front of `bs`, with
no pending error and room for `k` more nesting levels, `f` returns `a` and has consumed
exactly `bs`, leaving every other field of the decoder as it was (up to the dead `bool_value`).
-/
namespace Carquet.Proofs.Thrift
open Carquet.Spec.Thrift
open Carquet.Impl.Thrift

/-- the decoder after consuming: `rest` left, `pos` reached; `bool_value` may have been
overwritten by bool fields met on the way (it is dead while `bool_pending` is false) -/
def _root_.Carquet.Impl.Thrift.Dec.atb (d : Dec) (rest : List UInt8) (pos : Nat) (bv : Bool) : Dec :=
  { d with rest := rest, pos := pos, boolValue := bv }

@[simp] theorem atb_rest (d : Dec) (r p bv) : (d.atb r p bv).rest = r := rfl
@[simp] theorem atb_pos (d : Dec) (r p bv) : (d.atb r p bv).pos = p := rfl
@[simp] theorem atb_lastId (d : Dec) (r p bv) : (d.atb r p bv).lastId = d.lastId := rfl
@[simp] theorem atb_status (d : Dec) (r p bv) : (d.atb r p bv).status = d.status := rfl
@[simp] theorem atb_boolPending (d : Dec) (r p bv) : (d.atb r p bv).boolPending = d.boolPending := rfl
@[simp] theorem atb_boolValue (d : Dec) (r p bv) : (d.atb r p bv).boolValue = bv := rfl
@[simp] theorem atb_overlay (d : Dec) (r p bv) : (d.atb r p bv).overlay = d.overlay := rfl
@[simp] theorem atb_budget (d : Dec) (r p bv) : (d.atb r p bv).budget = d.budget := rfl
@[simp] theorem atb_atb (d : Dec) (r p bv r' p' bv') : (d.atb r p bv).atb r' p' bv' = d.atb r' p' bv' := rfl
theorem at_eq_atb (d : Dec) (r p) : d.at r p = d.atb r p d.boolValue := rfl

/-- the decoder stands in front of `bs` (followed by `r`), no error, no pending bool, `k` more
nesting levels available, loop budget not exhausted -/
structure Ready (d : Dec) (bs r : List UInt8) (k : Nat) : Prop where
  rest : d.rest = bs ++ r
  ok : d.status = none
  nb : d.boolPending = false
  room : d.lastId.length + k ≤ maxNesting
  bud : d.rest.length < d.budget

def Reads {α : Type} (k : Nat) (f : Dec → α × Dec) (bs : List UInt8) (a : α) : Prop :=
  ∀ d r, Ready d bs r k → ∃ bv, f d = (a, d.atb r (d.pos + bs.length) bv)

theorem Ready.next {d : Dec} {bs r : List UInt8} {k : Nat} (h : Ready d bs r k) {bs' r' : List UInt8} {k' : Nat}
    (hr : r = bs' ++ r') (hk : k' ≤ k) (p : Nat) (bv : Bool) : Ready (d.atb r p bv) bs' r' k' where
  rest := by simp [hr]
  ok := by simp [h.ok]
  nb := by simp [h.nb]
  room := by have := h.room; simp; omega
  bud := by have := h.bud; rw [h.rest] at this; simp at this ⊢; omega

theorem Ready.weaken {d : Dec} {bs r : List UInt8} {k k' : Nat} (h : Ready d bs r k) (hk : k' ≤ k) : Ready d bs r k' :=
  ⟨h.rest, h.ok, h.nb, by have := h.room; omega, h.bud⟩

theorem Ready.split {d : Dec} {b1 b2 r : List UInt8} {k : Nat} (h : Ready d (b1 ++ b2) r k) : Ready d b1 (b2 ++ r) k :=
  ⟨by rw [h.rest, List.append_assoc], h.ok, h.nb, h.room, h.bud⟩

theorem Reads.weaken {α : Type} {k k' : Nat} {f : Dec → α × Dec} {bs : List UInt8} {a : α}
    (h : Reads k f bs a) (hk : k ≤ k') : Reads k' f bs a :=
  fun d r hd => h d r (hd.weaken hk)

theorem lengthGe_iff (l : List UInt8) (n : Nat) : lengthGe l n = true ↔ n ≤ l.length := by
  induction l generalizing n with
  | nil => cases n <;> simp [lengthGe]
  | cons a l ih => cases n <;> simp [lengthGe, ih]

theorem has_append (d : Dec) (bs r : List UInt8) (h : d.rest = bs ++ r) : d.has bs.length = true := by
  unfold Dec.has; rw [lengthGe_iff, h]; simp

theorem advance_append (d : Dec) (bs r : List UInt8) (h : d.rest = bs ++ r) :
    d.advance bs.length = d.atb r (d.pos + bs.length) d.boolValue := by
  unfold Dec.advance Dec.atb
  rw [h, List.drop_left']
  rfl

/-! ### scalars -/

theorem reads_varint (n : Nat) (h : n < 2 ^ 64) (k : Nat) : Reads k readVarint (uleb n) n := by
  intro d r hd
  exact ⟨d.boolValue, by rw [readVarint_uleb n h d r hd.rest]; rfl⟩

theorem reads_zigzag (v : Int) (h : inI64 v) (k : Nat) : Reads k readZigzag (uleb (zigzag v)) v := by
  intro d r hd
  exact ⟨d.boolValue, by rw [readZigzag_zigzag v h d r hd.rest]; rfl⟩

theorem reads_i64 (v : Int) (h : inI64 v) (k : Nat) : Reads k readI64 (uleb (zigzag v)) v := reads_zigzag v h k

theorem reads_i32 (v : Int) (h : inI32 v) (k : Nat) : Reads k readI32 (uleb (zigzag v)) v := by
  intro d r hd
  obtain ⟨bv, hz⟩ := reads_zigzag v (inI64_of_inI32 h) k d r hd
  exact ⟨bv, by unfold readI32; rw [hz]; simp [toI32_id v h]⟩

theorem reads_i16 (v : Int) (h : inI16 v) (k : Nat) : Reads k readI16 (uleb (zigzag v)) v := by
  intro d r hd
  obtain ⟨bv, hz⟩ := reads_zigzag v (inI64_of_inI16 h) k d r hd
  exact ⟨bv, by unfold readI16; rw [hz]; simp [toI16_id v h]⟩

theorem readByteRaw_cons (d : Dec) (b : UInt8) (r : List UInt8) (h : d.rest = b :: r) :
    readByteRaw d = (b, d.atb r (d.pos + 1) d.boolValue) := by
  unfold readByteRaw; rw [h]; rfl

theorem toI8_byteOf (v : Int) (h : inI8 v) : toI8 ((byteOf v).toNat : Int) = v := by
  unfold inI8 at h
  unfold toI8 byteOf
  rw [u8_toNat _ (by omega)]
  omega

theorem reads_i8 (v : Int) (h : inI8 v) (k : Nat) : Reads k readI8 [byteOf v] v := by
  intro d r hd
  refine ⟨d.boolValue, ?_⟩
  unfold readI8
  rw [readByteRaw_cons d _ r hd.rest]
  simp [toI8_byteOf v h]

theorem impl_leNat_eq (l : List UInt8) : Carquet.Impl.Thrift.leNat l = Carquet.Spec.Thrift.leNat l := by
  induction l with
  | nil => rfl
  | cons a l ih => simp [Carquet.Impl.Thrift.leNat, Carquet.Spec.Thrift.leNat, ih]

theorem reads_double (bits : Nat) (h : bits < 2 ^ 64) (k : Nat) :
    Reads k readDouble (Carquet.Spec.Thrift.leBytes 8 bits) bits := by
  intro d r hd
  refine ⟨d.boolValue, ?_⟩
  have hl : (Carquet.Spec.Thrift.leBytes 8 bits).length = 8 := leBytes_length 8 bits
  have h1 := has_append d _ r hd.rest
  have h2 := advance_append d _ r hd.rest
  rw [hl] at h1 h2
  have h3 : List.take 8 d.rest = Carquet.Spec.Thrift.leBytes 8 bits := by rw [hd.rest, ← hl]; exact List.take_left' rfl
  have h4 : Carquet.Spec.Thrift.leNat (Carquet.Spec.Thrift.leBytes 8 bits) = bits :=
    leNat_leBytes 8 bits (Nat.lt_of_lt_of_le h (by decide))
  unfold readDouble
  rw [h1, if_pos rfl, h2, h3, impl_leNat_eq, h4, hl]

/-- a bool *field*: the value is pending from the header, no bytes are read -/
theorem readBool_pending (d : Dec) (h : d.boolPending = true) :
    readBool d = (d.boolValue, { d with boolPending := false }) := by
  unfold readBool; rw [h]; rfl

theorem readBinary_spec (b : List UInt8) (h : b.length < 2 ^ 31) (d : Dec) (r : List UInt8)
    (hrest : d.rest = uleb b.length ++ b ++ r) :
    readBinary d = (some b, (b.length : Int), d.atb r (d.pos + (uleb b.length ++ b).length) d.boolValue) := by
  have hn64 : b.length < 2 ^ 64 := Nat.lt_of_lt_of_le h (by decide)
  have hr : d.rest = uleb b.length ++ (b ++ r) := by rw [hrest, List.append_assoc]
  have hv := readVarint_uleb b.length hn64 d (b ++ r) hr
  have hi : toI32 (b.length : Int) = b.length := toI32_id _ (by
    have h31 : (2:Nat)^31 = 2147483648 := by decide
    rw [h31] at h
    unfold inI32; omega)
  unfold readBinary
  rw [hv]
  unfold readBinaryK
  simp only [hi]
  have hneg : ¬ ((b.length : Int) < 0) := by omega
  rw [if_neg hneg]
  have hd1 : (d.at (b ++ r) (d.pos + (uleb b.length).length)).rest = b ++ r := rfl
  have h1 := has_append _ b r hd1
  have h2 := advance_append _ b r hd1
  simp only [Int.toNat_natCast]
  rw [h1, if_pos rfl, h2]
  simp only [hd1, List.take_left', at_pos, List.length_append]
  simp [Dec.atb, Dec.at, Nat.add_assoc]

end Carquet.Proofs.Thrift
