import Carquet.Impl.SchemaApi
import Carquet.Impl.Reader
import Carquet.Spec.SchemaAnnot
import Carquet.Spec.ParquetThriftValue
import Carquet.Proofs.Schema
/-
Helper lemmas for Properties/C17/Api.lean.
-/
namespace Carquet.Proofs.SchemaApi
open Carquet.Spec.Schema Carquet.Spec.SchemaAnnot Carquet.Spec.Thrift
open Carquet.Impl.ThriftParquet Carquet.Impl.SchemaApi
open Carquet.Spec.ParquetThrift (schemaElementTV fOpt fPos fNonZero fLogical logicalTypeTV timeTV timeUnitTV f1)

/-! ### what the Thrift value of an element states -/

theorem field_append (a b : Fields) (id : Int) :
    field (a ++ b) id = match field a id with
                        | some v => some v
                        | none => field b id := by
  simp only [field, List.find?_append]
  cases a.find? (fun f => f.1 == id) <;> simp

theorem field_fOpt {α : Type} (k : Int) (mk : α → TVal) (o : Option α) (id : Int) :
    field (fOpt k mk o) id = if k = id then o.map mk else none := by
  cases o <;> simp [fOpt, field]

theorem field_fPos (k v id : Int) :
    field (fPos k v) id = if 0 < v ∧ k = id then some (.i32 v) else none := by
  unfold fPos
  by_cases hv : 0 < v <;> simp [hv, field]

theorem field_fNonZero (k v id : Int) :
    field (fNonZero k v) id = if v ≠ 0 ∧ k = id then some (.i32 v) else none := by
  unfold fNonZero
  by_cases hv : v = 0 <;> simp [hv, field]

theorem field_fLogical (lt : Option LogicalType) :
    field (fLogical lt) 10 = (normLogical lt).map logicalTypeTV := by
  cases lt with
  | none => rfl
  | some l => cases l <;> rfl

theorem field_fLogical_ne (lt : Option LogicalType) (id : Int) (h : id ≠ 10) : field (fLogical lt) id = none := by
  cases lt with
  | none => rfl
  | some l =>
    cases l <;> simp [fLogical, field] <;> omega

theorem fieldsOf_struct (fs : Fields) : fieldsOf (.struct fs) = fs := rfl

theorem unitOf_TV (u : TimeUnit) : unitOf (some (timeUnitTV u)) = u := by cases u <;> rfl

theorem logicalOfUnion_TV (l : LogicalType) : logicalOfUnion (fieldsOf (logicalTypeTV l)) = l := by
  cases l with
  | time utc u => cases u <;> cases utc <;> rfl
  | timestamp utc u => cases u <;> cases utc <;> rfl
  | integer bw sg => cases sg <;> rfl
  | _ => rfl

/-- the logical type an element's Thrift value states is the element's, with "present but UNKNOWN"
(which the Thrift value cannot express) as absent -/
theorem statedLogical_TV (s : SchemaElement) : statedLogical (schemaElementTV s) = normLogical s.logicalType := by
  simp only [statedLogical, schemaElementTV, fieldsOf_struct, field_append, field_fOpt, field_fPos, field_fNonZero, field_fLogical]
  simp only [show ¬ ((1 : Int) = 10) by decide, show ¬ ((2 : Int) = 10) by decide, show ¬ ((3 : Int) = 10) by decide,
    show ¬ ((4 : Int) = 10) by decide, show ¬ ((5 : Int) = 10) by decide, show ¬ ((6 : Int) = 10) by decide,
    show ¬ ((7 : Int) = 10) by decide, show ¬ ((8 : Int) = 10) by decide, show ¬ ((9 : Int) = 10) by decide,
    and_false, if_false]
  cases h : normLogical s.logicalType with
  | none => rfl
  | some l => simp [logicalOfUnion_TV]

theorem statedConverted_TV (s : SchemaElement) : statedConverted (schemaElementTV s) = s.convertedType := by
  simp only [statedConverted, schemaElementTV, fieldsOf_struct, field_append, field_fOpt, field_fPos, field_fNonZero]
  simp only [show ¬ ((1 : Int) = 6) by decide, show ¬ ((2 : Int) = 6) by decide, show ¬ ((3 : Int) = 6) by decide,
    show ¬ ((4 : Int) = 6) by decide, show ¬ ((5 : Int) = 6) by decide, and_false, if_false, if_true]
  cases s.convertedType <;> simp [field_fLogical_ne _ 6 (by decide)]

/-! ### per-node levels and the path rule -/

def defC (e : Element) : Nat := defInc e.info.rep
def repC (e : Element) : Nat := repInc e.info.rep

theorem pathSum_snoc (els : List Element) (f : Element → Nat) (acc : List Nat) (idx : Nat) (e : Element)
    (h : els[idx]? = some e) : pathSum els f (acc ++ [idx]) = pathSum els f acc + f e := by
  simp [pathSum, h]

def leafOfPath (els : List Element) (p : List Nat) : Leaf := ⟨p.getLastD 0, pathSum els defC p, pathSum els repC p⟩

mutual
  theorem leaves_paths_node : ∀ (c : Node) (pre post : List Element) (acc : List Nat) (els : List Element),
      els = pre ++ flatten c ++ post →
      leavesOf c pre.length (pathSum els defC acc) (pathSum els repC acc) = (pathsOf c pre.length acc).map (leafOfPath els)
    | .leaf i, pre, post, acc, els, hels => by
      have h : els[pre.length]? = some ⟨i, 0⟩ := by subst hels; simp [flatten]
      simp [leavesOf, pathsOf, leafOfPath, pathSum_snoc els _ acc _ _ h, defC, repC]
    | .group i cs, pre, post, acc, els, hels => by
      have h : els[pre.length]? = some ⟨i, cs.length⟩ := by subst hels; simp [flatten]
      have := leaves_paths_list cs (pre ++ [⟨i, cs.length⟩]) post (acc ++ [pre.length]) els
        (by subst hels; simp [flatten])
      simp only [List.length_append, List.length_singleton, pathSum_snoc els _ acc _ _ h, defC, repC] at this
      simpa [leavesOf, pathsOf, defC, repC] using this
  theorem leaves_paths_list : ∀ (cs : List Node) (pre post : List Element) (acc : List Nat) (els : List Element),
      els = pre ++ flattenList cs ++ post →
      leavesOfList cs pre.length (pathSum els defC acc) (pathSum els repC acc) = (pathsOfList cs pre.length acc).map (leafOfPath els)
    | [], _, _, _, _, _ => by simp [leavesOfList, pathsOfList]
    | c :: cs, pre, post, acc, els, hels => by
      have h1 := leaves_paths_node c pre (flattenList cs ++ post) acc els (by subst hels; simp [flattenList])
      have h2 := leaves_paths_list cs (pre ++ flatten c) post acc els (by subst hels; simp [flattenList])
      simp only [List.length_append] at h2
      simp only [leavesOfList, pathsOfList, List.map_append, h1, h2]
end

theorem leaves_eq_paths (i : Info) (cs : List Node) :
    leaves (.group i cs) = (paths (.group i cs)).map (leafOfPath (flatten (.group i cs))) := by
  have := leaves_paths_list cs [⟨i, cs.length⟩] [] [] (flatten (.group i cs)) (by simp [flatten])
  simpa [leaves, paths, pathSum] using this

/-- the accessor's value is the format's contribution of the node -/
theorem nodeMaxDef_eq (e : SchemaElement) : nodeMaxDefLevel e = defInc (Impl.Reader.toElement e).info.rep := by
  unfold nodeMaxDefLevel repetitionC Impl.Reader.toElement
  cases h : e.repetition with
  | none => simp [Impl.Reader.repOf, defInc]
  | some v =>
    by_cases h0 : v = 0
    · subst h0; simp [Impl.Reader.repOf, defInc]
    · by_cases h1 : v = 1
      · subst h1; simp [Impl.Reader.repOf, defInc]
      · by_cases h2 : v = 2
        · subst h2; simp [Impl.Reader.repOf, defInc]
        · have : Impl.Reader.repOf (some v) = none := by
            unfold Impl.Reader.repOf
            split <;> simp_all
          simp [this, defInc, h1, h2]

theorem nodeMaxRep_eq (e : SchemaElement) : nodeMaxRepLevel e = repInc (Impl.Reader.toElement e).info.rep := by
  unfold nodeMaxRepLevel repetitionC Impl.Reader.toElement
  cases h : e.repetition with
  | none => simp [Impl.Reader.repOf, repInc]
  | some v =>
    by_cases h0 : v = 0
    · subst h0; simp [Impl.Reader.repOf, repInc]
    · by_cases h1 : v = 1
      · subst h1; simp [Impl.Reader.repOf, repInc]
      · by_cases h2 : v = 2
        · subst h2; simp [Impl.Reader.repOf, repInc]
        · have : Impl.Reader.repOf (some v) = none := by
            unfold Impl.Reader.repOf
            split <;> simp_all
          simp [this, repInc, h2]

/-- sum over a path of an accessor's values, through `carquet_schema_get_element` -/
def accSum (sch : List SchemaElement) (f : SchemaElement → Nat) (p : List Nat) : Nat :=
  (p.map (fun i => ((getElement sch (i : Nat)).map f).getD 0)).sum

theorem getElement_nat (sch : List SchemaElement) (i : Nat) : getElement sch (i : Int) = sch[i]? := by
  unfold getElement
  by_cases h : i < sch.length
  · rw [if_neg (by omega)]; simp
  · rw [if_pos (by omega)]; simp [List.getElem?_eq_none (by omega : sch.length ≤ i)]

theorem accSum_eq (sch : List SchemaElement) (p : List Nat) :
    accSum sch nodeMaxDefLevel p = pathSum (sch.map Impl.Reader.toElement) defC p ∧
    accSum sch nodeMaxRepLevel p = pathSum (sch.map Impl.Reader.toElement) repC p := by
  unfold accSum pathSum
  constructor <;>
  · congr 1
    apply List.map_congr_left
    intro i _
    rw [getElement_nat, List.getElem?_map]
    cases sch[i]? <;> simp [defC, repC, nodeMaxDef_eq, nodeMaxRep_eq]

/-! ### the builder -/

theorem filterMap_congr' {α β : Type} (f g : α → Option β) : ∀ (l : List α), (∀ x ∈ l, f x = g x) →
    l.filterMap f = l.filterMap g
  | [], _ => rfl
  | x :: xs, h => by
    simp only [List.filterMap_cons, h x (by simp)]
    rw [filterMap_congr' f g xs (fun y hy => h y (by simp [hy]))]

def rootOf (n : Nat) : SchemaElement := { name := some (strBytes "schema"), numChildren := n }

/-- closed form of the builder state after the calls `cs` -/
structure Closed (b : Builder) (cs : List Call) : Prop where
  elements : b.elements = rootOf cs.length :: cs.map Call.element
  leavesIn : ∀ i ∈ b.leaves, 1 ≤ i ∧ i < b.elements.length
  written : b.leaves.filterMap (fun i => (b.elements[i]?).map writerElement) =
            (cs.filter Call.isColumn).map (fun c => writerElement c.element)
  count : b.leaves.length = (cs.filter Call.isColumn).length

theorem closed_create : Closed Builder.create [] :=
  ⟨rfl, by simp [Builder.create], by simp [Builder.create], by simp [Builder.create]⟩

theorem closed_add (b : Builder) (cs : List Call) (c : Call) (h : Closed b cs) : Closed (b.add c) (cs ++ [c]) := by
  have hlen : b.elements.length = cs.length + 1 := by rw [h.elements]; simp
  have hel : (b.add c).elements = rootOf (cs ++ [c]).length :: (cs ++ [c]).map Call.element := by
    simp only [Builder.add, h.elements, bumpRoot, rootOf, List.map_append, List.length_append, List.length_singleton,
      List.map_cons, List.map_nil, List.cons_append]
    congr 2
  have hkeep : ∀ i, 1 ≤ i → i < b.elements.length → (b.add c).elements[i]? = b.elements[i]? := by
    intro i h1 h2
    simp only [Builder.add]
    rw [List.getElem?_append_left (by
      have : (bumpRoot b.elements).length = b.elements.length := by rw [h.elements]; simp [bumpRoot]
      omega)]
    rw [h.elements]
    cases i with
    | zero => omega
    | succ j => simp [bumpRoot]
  have hold : b.leaves.filterMap (fun i => ((b.add c).elements[i]?).map writerElement) =
      b.leaves.filterMap (fun i => (b.elements[i]?).map writerElement) := by
    apply filterMap_congr'
    intro i hi
    obtain ⟨h1, h2⟩ := h.leavesIn i hi
    rw [hkeep i h1 h2]
  have hnew : (b.add c).elements[b.elements.length]? = some c.element := by
    simp only [Builder.add]
    have : (bumpRoot b.elements).length = b.elements.length := by rw [h.elements]; simp [bumpRoot]
    rw [List.getElem?_append_right (by omega)]
    simp [this]
  have hlen' : (b.add c).elements.length = b.elements.length + 1 := by rw [hel, hlen]; simp
  cases hc : c.isColumn with
  | false =>
    refine ⟨hel, ?_, ?_, ?_⟩
    · intro i hi
      have hi' : i ∈ b.leaves := by simpa [Builder.add, hc] using hi
      obtain ⟨h1, h2⟩ := h.leavesIn i hi'
      exact ⟨h1, by omega⟩
    · have : (b.add c).leaves = b.leaves := by simp [Builder.add, hc]
      rw [this, hold, h.written]; simp [List.filter_append, hc]
    · have : (b.add c).leaves = b.leaves := by simp [Builder.add, hc]
      rw [this, h.count]; simp [List.filter_append, hc]
  | true =>
    have hl : (b.add c).leaves = b.leaves ++ [b.elements.length] := by simp [Builder.add, hc]
    refine ⟨hel, ?_, ?_, ?_⟩
    · intro i hi
      rw [hl] at hi
      rcases List.mem_append.mp hi with hi | hi
      · obtain ⟨h1, h2⟩ := h.leavesIn i hi
        exact ⟨h1, by omega⟩
      · have : i = b.elements.length := by simpa using hi
        subst this; omega
    · rw [hl, List.filterMap_append, hold, h.written]
      simp [List.filter_append, hc, hnew]
    · rw [hl]; simp [List.filter_append, hc, h.count]

theorem closed_fold (cs : List Call) : ∀ (b : Builder) (pre : List Call), Closed b pre →
    Closed (cs.foldl Builder.add b) (pre ++ cs) := by
  induction cs with
  | nil => intro b pre h; simpa using h
  | cons c cs ih =>
    intro b pre h
    have := ih (b.add c) (pre ++ [c]) (closed_add b pre c h)
    simpa [List.append_assoc] using this

theorem closed_run (cs : List Call) : Closed (Builder.run cs) cs := by
  have := closed_fold cs Builder.create [] closed_create
  simpa [Builder.run] using this

theorem writerSchema_run (cs : List Call) :
    writerSchema (Builder.run cs) =
      rootOf (cs.filter Call.isColumn).length :: (cs.filter Call.isColumn).map (fun c => writerElement c.element) := by
  have h := closed_run cs
  simp only [writerSchema, h.written, h.count, rootOf]

theorem norm_writerElement_logical (c : Call) :
    (SchemaElement.norm (writerElement c.element)).logicalType = normLogical c.logical := by
  cases c with
  | group name rep => rfl
  | column name ptype logical rep tl =>
    cases logical with
    | none => rfl
    | some l => cases l <;> rfl

end Carquet.Proofs.SchemaApi
