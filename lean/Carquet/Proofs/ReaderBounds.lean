import Carquet.Impl.Reader
/-
Every read of the file that the reader model reports lies inside the file — for every byte
string, mode, column description and reader state (helper lemmas for C04_accesses_in_bounds).
-/
namespace Carquet.Proofs.ReaderBounds
open Carquet.Impl Carquet.Impl.Reader

/-- the access `(off, len)` lies inside a file of `n` bytes -/
def InBounds (n : Nat) (a : Access) : Prop := a.1 + a.2 ≤ n

instance (n : Nat) (a : Access) : Decidable (InBounds n a) := inferInstanceAs (Decidable (a.1 + a.2 ≤ n))

def AllIn (n : Nat) (l : List Access) : Prop := ∀ a ∈ l, InBounds n a

theorem allIn_nil (n : Nat) : AllIn n [] := by intro a h; cases h

theorem allIn_append {n : Nat} {l₁ l₂ : List Access} (h₁ : AllIn n l₁) (h₂ : AllIn n l₂) : AllIn n (l₁ ++ l₂) := by
  intro a ha
  rcases List.mem_append.mp ha with h | h
  · exact h₁ a h
  · exact h₂ a h

theorem allIn_cons {n : Nat} {a : Access} {l : List Access} (h₁ : InBounds n a) (h₂ : AllIn n l) : AllIn n (a :: l) := by
  intro x hx
  rcases List.mem_cons.mp hx with h | h
  · subst h; exact h₁
  · exact h₂ x h

theorem allIn_access {n off len : Nat} (h : len = 0 ∨ off + len ≤ n) : AllIn n (access off len) := by
  unfold access
  split
  · exact allIn_nil n
  · rename_i hne
    rcases h with h | h
    · exact absurd h hne
    · exact allIn_cons h (allIn_nil n)

theorem slice_length (b : Bytes) (off len : Nat) : (slice b off len).length = min len (b.length - off) := by
  simp [slice]

theorem slice_length_le (b : Bytes) (off len : Nat) : (slice b off len).length ≤ len := by
  rw [slice_length]; omega

theorem slice_inb (b : Bytes) (off len : Nat) :
    (slice b off len).length = 0 ∨ off + (slice b off len).length ≤ b.length := by
  rw [slice_length]; omega

/-! ### open -/

theorem openFread_inb (b : Bytes) : AllIn b.length (openFread b).2 := by
  unfold openFread
  split
  · exact allIn_nil _
  · rename_i h12
    split
    · exact allIn_cons (by unfold InBounds; simp; omega) (allIn_nil _)
    · split
      · exact allIn_cons (by unfold InBounds; simp; omega) (allIn_nil _)
      · rename_i hfl
        exact allIn_cons (by unfold InBounds; simp; omega) (allIn_access (by omega))

theorem openMapped_inb (b : Bytes) : AllIn b.length (openMapped b).2 := by
  unfold openMapped
  have k1 : ∀ (h : ¬ b.length < 12), InBounds b.length (0, 4) := by intro h; unfold InBounds; simp; omega
  have k2 : ∀ (h : ¬ b.length < 12), InBounds b.length (b.length - 4, 4) := by intro h; unfold InBounds; simp; omega
  have k3 : ∀ (h : ¬ b.length < 12), InBounds b.length (b.length - 8, 4) := by intro h; unfold InBounds; simp; omega
  split
  · exact allIn_nil _
  · rename_i h12
    split
    · exact allIn_cons (k1 h12) (allIn_nil _)
    · split
      · exact allIn_cons (k1 h12) (allIn_cons (k2 h12) (allIn_nil _))
      · split
        · exact allIn_cons (k1 h12) (allIn_cons (k2 h12) (allIn_cons (k3 h12) (allIn_nil _)))
        · rename_i hfl
          exact allIn_append (allIn_cons (k1 h12) (allIn_cons (k2 h12) (allIn_cons (k3 h12) (allIn_nil _))))
            (allIn_access (by omega))

theorem openFileA_inb (mode : Mode) (b : Bytes) : AllIn b.length (openFileA mode b).2 := by
  cases mode
  · exact openFread_inb b
  · show AllIn b.length (if b.length = 0 then openFread b else openMapped b).2
    split
    · exact openFread_inb b
    · exact openMapped_inb b
  · show AllIn b.length (if b.length = 0 then (Except.error Err.invalidArgument, []) else openMapped b).2
    split
    · exact allIn_nil _
    · exact openMapped_inb b

/-! ### the `Load` plumbing -/

theorem andThen_inb {α β : Type} {n : Nat} (l : Load α) (k : α → Load β) (h₁ : AllIn n l.accesses)
    (h₂ : ∀ a, l.result = .ok a → AllIn n (k a).accesses) : AllIn n (l.andThen k).accesses := by
  unfold Load.andThen
  split
  · exact h₁
  · rename_i a ha; exact allIn_append h₁ (h₂ a ha)

theorem pure_inb {α : Type} (n : Nat) (r : Except Err α) : AllIn n (Load.pure r).accesses := allIn_nil n

theorem andThen_ok {α β : Type} (l : Load α) (k : α → Load β) (x : β) (h : (l.andThen k).result = .ok x) :
    ∃ a, l.result = .ok a ∧ (k a).result = .ok x := by
  unfold Load.andThen at h
  split at h
  · cases h
  · rename_i a ha; exact ⟨a, ha, h⟩

/-! ### header window and page body -/

theorem bodyBytes_inb (mode : Mode) (b : Bytes) (off hsize comp : Nat) : AllIn b.length (bodyBytes mode b off hsize comp).2 := by
  unfold bodyBytes
  split
  · split
    · exact allIn_access (by omega)
    · exact allIn_nil _
  · split
    · exact allIn_access (slice_inb _ _ _)
    · rename_i hlen
      have := slice_length b (off + hsize) comp
      exact allIn_access (by omega)

/-- a page body is only handed out when all of it lies inside the file -/
theorem bodyBytes_ok (mode : Mode) (b : Bytes) (off hsize comp : Nat) (body : Bytes)
    (h : (bodyBytes mode b off hsize comp).1 = .ok body) :
    body = slice b (off + hsize) comp ∧ body.length = comp ∧ (comp = 0 ∨ off + hsize + comp ≤ b.length) := by
  unfold bodyBytes at h
  split at h
  · split at h
    · simp only [Except.ok.injEq] at h
      have := slice_length b (off + hsize) comp
      refine ⟨h.symm, by rw [← h]; omega, by omega⟩
    · cases h
  · split at h
    · cases h
    · rename_i hlen
      simp only [Except.ok.injEq] at h
      have := slice_length b (off + hsize) comp
      refine ⟨h.symm, by rw [← h]; omega, by omega⟩

theorem freadHeaderLoop_inb (b : Bytes) (off : Nat) : ∀ (fuel window : Nat),
    AllIn b.length (freadHeaderLoop b off fuel window).accesses := by
  intro fuel
  induction fuel with
  | zero => intro window; exact allIn_nil _
  | succ fuel ih =>
    intro window
    unfold freadHeaderLoop
    split
    · exact allIn_access (slice_inb _ _ _)
    · split
      · exact allIn_access (slice_inb _ _ _)
      · split
        · exact allIn_access (slice_inb _ _ _)
        · exact allIn_append (allIn_access (slice_inb _ _ _)) (ih _)

theorem loadHeader_inb (mode : Mode) (b : Bytes) (off : Int) : AllIn b.length (loadHeader mode b off).accesses := by
  unfold loadHeader
  split
  · split
    · exact pure_inb _ _
    · split
      · exact pure_inb _ _
      · exact allIn_cons (by unfold InBounds; simp; omega) (allIn_nil _)
  · split
    · exact pure_inb _ _
    · exact freadHeaderLoop_inb _ _ _ _

/-- a header the fread loop returns was parsed from a window at `off` that has at least 8 bytes -/
theorem freadHeaderLoop_ok (b : Bytes) (off : Nat) (r : ThriftParquetReq.PageHdr × Nat) : ∀ (fuel window : Nat),
    (freadHeaderLoop b off fuel window).result = .ok r →
    off + 8 ≤ b.length ∧ ∃ W, ThriftParquetReq.parsePageHeaderC (slice b off W) = .ok r := by
  intro fuel
  induction fuel with
  | zero => intro window h; cases h
  | succ fuel ih =>
    intro window h
    unfold freadHeaderLoop at h
    split at h
    · cases h
    · rename_i h8
      have hl := slice_length b off window
      split at h
      · rename_i r' hr'
        simp only [Except.ok.injEq] at h
        subst h
        exact ⟨by omega, window, hr'⟩
      · split at h
        · cases h
        · exact ih _ h

/-- a page header is only handed out for an offset inside the file with at least 8 bytes behind it,
and it was parsed from a window of the file that starts there -/
theorem loadHeader_ok (mode : Mode) (b : Bytes) (off : Int) (r : ThriftParquetReq.PageHdr × Nat)
    (h : (loadHeader mode b off).result = .ok r) :
    0 ≤ off ∧ off.toNat + 8 ≤ b.length ∧ ∃ W, ThriftParquetReq.parsePageHeaderC (slice b off.toNat W) = .ok r := by
  unfold loadHeader at h
  split at h
  · split at h
    · cases h
    · split at h
      · cases h
      · rename_i hoff h8
        refine ⟨by omega, by omega, b.length - off.toNat, ?_⟩
        simp only [parseWindow] at h
        split at h
        · cases h
        · rename_i r' hr'
          simp only [Except.ok.injEq] at h
          rw [hr', h]
  · split at h
    · cases h
    · rename_i hoff
      have := freadHeaderLoop_ok b off.toNat r _ _ h
      exact ⟨by omega, this.1, this.2⟩

/-! ### dictionary page -/

theorem readDictionaryPage_copy_le (fx : Fixes) (hfx : fx.dictBound = true) (c : Col) (pd : Bytes) (n : Int) :
    (readDictionaryPage fx c pd n).2 ≤ pd.length := by
  unfold readDictionaryPage
  split
  · split <;> simp
  · split
    · simp
    · split
      · simp [hfx]
      · simp only; omega

theorem pageData_codec0 (L : Libs) (body : Bytes) (u : Nat) : pageData L 0 body u = .ok body := by
  simp [pageData]

theorem dictCopyReport_inb (mode : Mode) (codec : Int) (b body pd : Bytes) (L : Libs) (u off hs comp copyLen : Nat)
    (hbody : body = slice b (off + hs) comp ∧ body.length = comp ∧ (comp = 0 ∨ off + hs + comp ≤ b.length))
    (hpd : pageData L codec body u = .ok pd) (hle : copyLen ≤ pd.length) :
    AllIn b.length (dictCopyReport mode codec (off + hs) pd.length copyLen).1 := by
  unfold dictCopyReport
  split
  · exact allIn_nil _
  · split
    · rename_i hz hm
      have hc : codec = 0 := hm.2
      subst hc
      rw [pageData_codec0] at hpd
      simp only [Except.ok.injEq] at hpd
      subst hpd
      exact allIn_cons (by unfold InBounds; simp; omega) (allIn_nil _)
    · exact allIn_nil _

theorem dictCopyReport_heap (mode : Mode) (codec : Int) (bodyOff pageSize copyLen : Nat) (hle : copyLen ≤ pageSize) :
    ∀ r ∈ (dictCopyReport mode codec bodyOff pageSize copyLen).2, r.2 ≤ r.1 := by
  unfold dictCopyReport
  split
  · intro r hr; cases hr
  · split
    · intro r hr; cases hr
    · intro r hr
      simp only [List.mem_singleton] at hr
      subst hr; exact hle

theorem loadDictionary_inb (fx : Fixes) (hfx : fx.dictBound = true) (L : Libs) (verify : Bool) (mode : Mode) (b : Bytes)
    (c : Col) (off : Int) : AllIn b.length (loadDictionary fx L verify mode b c off).accesses := by
  unfold loadDictionary
  apply andThen_inb
  · exact loadHeader_inb mode b off
  · intro hr _
    split
    · exact pure_inb _ _
    · split
      · exact pure_inb _ _
      · apply andThen_inb
        · exact bodyBytes_inb _ _ _ _ _
        · intro body hbody
          split
          · exact pure_inb _ _
          · split
            · exact pure_inb _ _
            · rename_i pd hpd
              exact dictCopyReport_inb mode c.cm.codec b body pd L _ off.toNat hr.2 hr.1.compressed.toNat _
                (bodyBytes_ok _ _ _ _ _ _ hbody) hpd (readDictionaryPage_copy_le fx hfx c pd _)

/-! ### data page -/

theorem viewPage_inb (b : Bytes) (c : Col) (bodyOff numValues : Nat)
    (h : numValues * valueSize c.ptype c.typeLength = 0 ∨ bodyOff + numValues * valueSize c.ptype c.typeLength ≤ b.length) :
    AllIn b.length (viewPage b c bodyOff numValues).accesses := by
  unfold viewPage
  exact allIn_access h

theorem takesView_bound (fx : Fixes) (hfx : fx.viewBound = true) (mode : Mode) (c : Col) (h : ThriftParquetReq.PageHdr)
    (ht : takesView fx mode c h = true) :
    h.word0.toNat * valueSize c.ptype c.typeLength ≤ h.compressed.toNat ∧ mode.mapped = true := by
  unfold takesView at ht
  simp only [hfx, Bool.not_true, Bool.false_or, Bool.and_eq_true, decide_eq_true_eq] at ht
  exact ⟨ht.2, ht.1.1.1⟩

theorem finishDataPage_inb (fx : Fixes) (hfx : fx.viewBound = true) (L : Libs) (verify : Bool) (mode : Mode) (b : Bytes)
    (c : Col) (st : PState) (hr : ThriftParquetReq.PageHdr × Nat) :
    AllIn b.length (finishDataPage fx L verify mode b c st hr).accesses := by
  unfold finishDataPage
  split
  · exact pure_inb _ _
  · split
    · exact pure_inb _ _
    · split
      · exact pure_inb _ _
      · apply andThen_inb
        · exact bodyBytes_inb _ _ _ _ _
        · intro body hbody
          split
          · exact pure_inb _ _
          · split
            · exact pure_inb _ _
            · split
              · rename_i hview
                apply andThen_inb
                · have hb := bodyBytes_ok _ _ _ _ _ _ hbody
                  have hv := takesView_bound fx hfx mode c hr.1 hview
                  apply viewPage_inb
                  omega
                · intro d _; exact pure_inb _ _
              · split
                · exact pure_inb _ _
                · split <;> exact pure_inb _ _

theorem prepStage_inb (fx : Fixes) (hd : fx.dictBound = true) (L : Libs) (verify : Bool) (mode : Mode) (b : Bytes)
    (c : Col) (st : PState) : AllIn b.length (prepStage fx L verify mode b c st).accesses := by
  unfold prepStage
  apply andThen_inb
  · exact loadHeader_inb mode b _
  · intro hr _
    split
    · apply andThen_inb
      · exact loadDictionary_inb fx hd L verify mode b c _
      · intro dl _
        apply andThen_inb
        · exact loadHeader_inb mode b _
        · intro hr2 _; exact pure_inb _ _
    · exact pure_inb _ _

theorem loadDataPage_inb (fx : Fixes) (hv : fx.viewBound = true) (hd : fx.dictBound = true) (L : Libs) (verify : Bool)
    (mode : Mode) (b : Bytes) (c : Col) (st : PState) : AllIn b.length (loadDataPage fx L verify mode b c st).accesses := by
  unfold loadDataPage
  apply andThen_inb
  · exact prepStage_inb fx hd L verify mode b c st
  · intro sh _; exact finishDataPage_inb fx hv L verify mode b c sh.1 sh.2

theorem dictStep_inb (fx : Fixes) (hfx : fx.dictBound = true) (L : Libs) (verify : Bool) (mode : Mode) (b : Bytes)
    (c : Col) (st : PState) : AllIn b.length (dictStep fx L verify mode b c st).accesses := by
  unfold dictStep
  split
  · exact pure_inb _ _
  · split
    · exact pure_inb _ _
    · apply andThen_inb
      · exact loadDictionary_inb fx hfx L verify mode b c _
      · intro dl _; exact pure_inb _ _

/-- every read of the file made by `load_next_page` lies inside the file: any bytes, any mode, any
column description, any reader state (repaired code: F51 and F12) -/
theorem loadPage_inb (fx : Fixes) (hv : fx.viewBound = true) (hd : fx.dictBound = true) (L : Libs) (verify : Bool)
    (mode : Mode) (b : Bytes) (c : Col) (st : PState) : AllIn b.length (loadPage fx L verify mode b c st).accesses := by
  unfold loadPage
  apply andThen_inb
  · exact dictStep_inb fx hd L verify mode b c st
  · intro st' _; exact loadDataPage_inb fx hv hd L verify mode b c st'

/-! ### heap reads (the dictionary copy out of a heap page buffer) -/

def HeapOk (l : List (Nat × Nat)) : Prop := ∀ r ∈ l, r.2 ≤ r.1

theorem heapOk_nil : HeapOk [] := by intro r h; cases h

theorem heapOk_append {l₁ l₂ : List (Nat × Nat)} (h₁ : HeapOk l₁) (h₂ : HeapOk l₂) : HeapOk (l₁ ++ l₂) := by
  intro a ha
  rcases List.mem_append.mp ha with h | h
  · exact h₁ a h
  · exact h₂ a h

theorem andThen_heap {α β : Type} (l : Load α) (k : α → Load β) (h₁ : HeapOk l.heapReads)
    (h₂ : ∀ a, l.result = .ok a → HeapOk (k a).heapReads) : HeapOk (l.andThen k).heapReads := by
  unfold Load.andThen
  split
  · exact h₁
  · rename_i a ha; exact heapOk_append h₁ (h₂ a ha)

theorem ofPair_heap {α : Type} (p : Except Err α × List Access) : HeapOk (Load.ofPair p).heapReads := heapOk_nil
theorem pure_heap {α : Type} (r : Except Err α) : HeapOk (Load.pure r).heapReads := heapOk_nil

theorem freadHeaderLoop_heap (b : Bytes) (off : Nat) : ∀ (fuel window : Nat), HeapOk (freadHeaderLoop b off fuel window).heapReads := by
  intro fuel
  induction fuel with
  | zero => intro window; exact heapOk_nil
  | succ fuel ih =>
    intro window
    unfold freadHeaderLoop
    split
    · exact heapOk_nil
    · split
      · exact heapOk_nil
      · split <;> exact heapOk_nil

theorem loadHeader_heap (mode : Mode) (b : Bytes) (off : Int) : HeapOk (loadHeader mode b off).heapReads := by
  unfold loadHeader
  split
  · split
    · exact pure_heap _
    · split
      · exact pure_heap _
      · exact heapOk_nil
  · split
    · exact pure_heap _
    · exact freadHeaderLoop_heap _ _ _ _

theorem loadDictionary_heap (fx : Fixes) (hfx : fx.dictBound = true) (L : Libs) (verify : Bool) (mode : Mode) (b : Bytes)
    (c : Col) (off : Int) : HeapOk (loadDictionary fx L verify mode b c off).heapReads := by
  unfold loadDictionary
  apply andThen_heap
  · exact loadHeader_heap mode b off
  · intro hr _
    split
    · exact pure_heap _
    · split
      · exact pure_heap _
      · apply andThen_heap
        · exact ofPair_heap _
        · intro body _
          split
          · exact pure_heap _
          · split
            · exact pure_heap _
            · rename_i pd _
              exact dictCopyReport_heap _ _ _ _ _ (readDictionaryPage_copy_le fx hfx c pd _)

theorem finishDataPage_heap (fx : Fixes) (L : Libs) (verify : Bool) (mode : Mode) (b : Bytes) (c : Col) (st : PState)
    (hr : ThriftParquetReq.PageHdr × Nat) : HeapOk (finishDataPage fx L verify mode b c st hr).heapReads := by
  unfold finishDataPage
  split
  · exact pure_heap _
  · split
    · exact pure_heap _
    · split
      · exact pure_heap _
      · apply andThen_heap
        · exact ofPair_heap _
        · intro body _
          split
          · exact pure_heap _
          · split
            · exact pure_heap _
            · split
              · apply andThen_heap
                · unfold viewPage; exact heapOk_nil
                · intro d _; exact pure_heap _
              · split
                · exact pure_heap _
                · split <;> exact pure_heap _

theorem loadDataPage_heap (fx : Fixes) (hd : fx.dictBound = true) (L : Libs) (verify : Bool) (mode : Mode) (b : Bytes)
    (c : Col) (st : PState) : HeapOk (loadDataPage fx L verify mode b c st).heapReads := by
  unfold loadDataPage
  apply andThen_heap
  · unfold prepStage
    apply andThen_heap
    · exact loadHeader_heap mode b _
    · intro hr _
      split
      · apply andThen_heap
        · exact loadDictionary_heap fx hd L verify mode b c _
        · intro dl _
          apply andThen_heap
          · exact loadHeader_heap mode b _
          · intro hr2 _; exact pure_heap _
      · exact pure_heap _
  · intro sh _; exact finishDataPage_heap fx L verify mode b c sh.1 sh.2

theorem loadPage_heap (fx : Fixes) (hd : fx.dictBound = true) (L : Libs) (verify : Bool) (mode : Mode) (b : Bytes)
    (c : Col) (st : PState) : HeapOk (loadPage fx L verify mode b c st).heapReads := by
  unfold loadPage
  apply andThen_heap
  · unfold dictStep
    split
    · exact pure_heap _
    · split
      · exact pure_heap _
      · apply andThen_heap
        · exact loadDictionary_heap fx hd L verify mode b c _
        · intro dl _; exact pure_heap _
  · intro st' _; exact loadDataPage_heap fx hd L verify mode b c st'

/-! ### whole sessions -/

theorem session_call_inb (fx : Fixes) (hv : fx.viewBound = true) (hd : fx.dictBound = true) (L : Libs) (verify : Bool)
    (mode : Mode) (b : Bytes) (o : Opened) (s : Session) (call : Call)
    (h : AllIn b.length s.accesses ∧ HeapOk s.heapReads) :
    AllIn b.length (s.call fx L verify mode b o call).accesses ∧ HeapOk (s.call fx L verify mode b o call).heapReads := by
  cases call with
  | getColumn rg col =>
    cases hg : getColumn o rg col with
    | error e => simp only [Session.call, hg]; exact h
    | ok c => simp only [Session.call, hg]; exact h
  | next i =>
    cases hr : s.readers[i]? with
    | none => simp only [Session.call, hr]; exact h
    | some r =>
      simp only [Session.call, hr]
      exact ⟨allIn_append h.1 (loadPage_inb fx hv hd L verify mode b r.1 r.2.pre),
             heapOk_append h.2 (loadPage_heap fx hd L verify mode b r.1 r.2.pre)⟩

theorem session_foldl_inb (fx : Fixes) (hv : fx.viewBound = true) (hd : fx.dictBound = true) (L : Libs) (verify : Bool)
    (mode : Mode) (b : Bytes) (o : Opened) (calls : List Call) :
    ∀ (s : Session), AllIn b.length s.accesses ∧ HeapOk s.heapReads →
      AllIn b.length (calls.foldl (Session.call fx L verify mode b o) s).accesses ∧
      HeapOk (calls.foldl (Session.call fx L verify mode b o) s).heapReads := by
  induction calls with
  | nil => intro s h; exact h
  | cons c cs ih => intro s h; exact ih _ (session_call_inb fx hv hd L verify mode b o s c h)

theorem apiRun_inb (fx : Fixes) (hv : fx.viewBound = true) (hd : fx.dictBound = true) (L : Libs) (verify : Bool)
    (mode : Mode) (b : Bytes) (calls : List Call) :
    AllIn b.length (apiRun fx L verify mode b calls).accesses ∧ HeapOk (apiRun fx L verify mode b calls).heapReads := by
  unfold apiRun
  split
  · exact ⟨openFileA_inb mode b, heapOk_nil⟩
  · exact session_foldl_inb fx hv hd L verify mode b _ calls _ ⟨openFileA_inb mode b, heapOk_nil⟩

end Carquet.Proofs.ReaderBounds
