import Carquet.Impl.Delta
import Carquet.Proofs.BitpackTails
/-
`Impl.Delta.packBits` / `unpackBits` (the delta model's own LSB-first definition of what
`carquet_bitpack_32` / `carquet_bitunpack_32` do) against `Impl.Bitpack.pack` / `unpack` (the loop-by-loop
model of src/core/bitpack.c), for every width the delta code passes to those functions (`w ≤ 32`).
-/
namespace Carquet.Proofs.DeltaBitpack
open Carquet Carquet.Proofs.NatBits Carquet.Proofs.BitpackImpl

theorem bitsOfNat_eq : ∀ (w n : Nat), Impl.Delta.bitsOfNat w n = Spec.BitPack.bitsOf w n := by
  intro w
  induction w with
  | zero => intro n; rfl
  | succ w ih => intro n; simp only [Impl.Delta.bitsOfNat, Spec.BitPack.bitsOf, ih]

theorem natOfBits_eq : ∀ (l : List Bool), Impl.Delta.natOfBits l = Spec.BitPack.natOfBits l := by
  intro l
  induction l with
  | nil => rfl
  | cons b bs ih => simp only [Impl.Delta.natOfBits, Spec.BitPack.natOfBits, ih]

theorem bytesOfBits_eq : ∀ (n : Nat) (bits : List Bool), Impl.Delta.bytesOfBits n bits = Spec.BitPack.bytesOfBitsN n bits := by
  intro n
  induction n with
  | zero => intro bits; rfl
  | succ n ih => intro bits; simp only [Impl.Delta.bytesOfBits, Spec.BitPack.bytesOfBitsN, ih, natOfBits_eq]

theorem bitsOfBytes_eq (bs : List UInt8) : Impl.Delta.bitsOfBytes bs = Spec.BitPack.bitsOfBytes bs := by
  unfold Impl.Delta.bitsOfBytes Spec.BitPack.bitsOfBytes
  congr 1
  first | done | (funext b; exact bitsOfNat_eq 8 _)

/-- the delta model's packer is the Spec's raw bit packing of the values' integers -/
theorem packBits_eq_spec (w : Nat) (vals : List (BitVec 64)) :
    Impl.Delta.packBits w vals = Spec.BitPack.pack w (vals.map (·.toNat)) := by
  unfold Impl.Delta.packBits Spec.BitPack.pack Spec.BitPack.bytesOfBits
  rw [Proofs.BitPackSpec.valueBits_length, List.length_map, bytesOfBits_eq]
  congr 1
  unfold Spec.BitPack.valueBits
  rw [List.flatMap_map]
  congr 1
  funext v
  exact bitsOfNat_eq w _

theorem concat_mod32 {w : Nat} (hw : w ≤ 32) (vals : List Nat) :
    concat w (vals.map (· % 2 ^ 32)) = concat w vals := by
  induction vals with
  | nil => rfl
  | cons v vs ih =>
    simp only [List.map_cons, concat, ih]
    rw [Nat.mod_mod_of_dvd _ (Nat.pow_dvd_pow 2 hw)]

/-- **`carquet_bitpack_32` as the delta encoder calls it** (`to_pack[i] = (uint32_t)(delta − min)`, any
number of values, `w ≤ 32`): the delta model's `packBits` is `Impl.Bitpack.pack` of the truncated values -/
theorem packBits_eq_bitpack {w : Nat} (hw : w ≤ 32) (vals : List (BitVec 64)) :
    Impl.Delta.packBits w vals = Impl.Bitpack.pack w (vals.map (fun v => v.toNat % 2 ^ 32)) := by
  rw [packBits_eq_spec, Proofs.BitpackTails.impl_pack_eq_spec hw, Proofs.BitPackSpec.pack_eq,
    Proofs.BitPackSpec.pack_eq, List.length_map, List.length_map]
  have : vals.map (fun v => v.toNat % 2 ^ 32) = (vals.map (·.toNat)).map (· % 2 ^ 32) := by
    rw [List.map_map]; rfl
  rw [this, concat_mod32 hw]

theorem takeValues_unpackNat (w : Nat) : ∀ (n : Nat) (bits : List Bool), n * w ≤ bits.length →
    Spec.BitPack.takeValues w n bits = some (Impl.Delta.unpackNat w n bits) := by
  intro n
  induction n with
  | zero => intro bits _; rfl
  | succ n ih =>
    intro bits h
    have hw : w ≤ bits.length := by rw [Nat.add_mul] at h; omega
    have hrest : n * w ≤ (bits.drop w).length := by rw [List.length_drop, Nat.add_mul] at *; omega
    simp only [Spec.BitPack.takeValues, Nat.not_lt.mpr hw, if_false, ih _ hrest, Impl.Delta.unpackNat, natOfBits_eq]

/-- **`carquet_bitunpack_32` as the delta decoder calls it** (`count` values of `w ≤ 32` bits from a buffer
that holds them): the delta model's `unpackBits` is `Impl.Bitpack.unpack`, widened to 64 bits -/
theorem unpackBits_eq_bitpack {w : Nat} (hw : w ≤ 32) (count : Nat) (bytes : List UInt8)
    (h : count * w ≤ 8 * bytes.length) :
    Impl.Delta.unpackBits w count bytes = (Impl.Bitpack.unpack w bytes count).1.map (BitVec.ofNat 64) := by
  unfold Impl.Delta.unpackBits
  congr 1
  have h1 := Proofs.BitpackTails.impl_unpack_eq_spec hw bytes count h
  unfold Spec.BitPack.unpack at h1
  rw [takeValues_unpackNat w count _ (by rw [Proofs.BitPackSpec.bitsOfBytes_length]; exact h), ← bitsOfBytes_eq] at h1
  exact Option.some.inj h1

end Carquet.Proofs.DeltaBitpack
