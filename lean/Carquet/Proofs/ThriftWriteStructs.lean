import Carquet.Proofs.ThriftWrite
/-
Struct by struct: each writer of parquet_types.c appends `Spec.Thrift.encode` of the value
`Spec.ParquetThrift.…TV` assigns to its argument.
-/
namespace Carquet.Proofs.Thrift
open Carquet.Spec.Thrift Carquet.Spec.ParquetThrift
open Carquet.Impl.Thrift
open Carquet.Impl.ThriftParquet

/-! ### field-level pieces -/

theorem stepI32 (k : Nat) (id : Int) (h0 : 0 ≤ id) (h1 : id ≤ 32767) (v : Int) :
    FieldsW k (fun e => wI e tI32 id v) (f1 id (.i32 v)) :=
  FieldsW.field id h0 h1 tI32 (fun e => writeI e v) (.i32 v) (by simp [TVal.ty]) rfl ((ValW.i32 v).mono (Nat.zero_le k))
theorem stepI64 (k : Nat) (id : Int) (h0 : 0 ≤ id) (h1 : id ≤ 32767) (v : Int) :
    FieldsW k (fun e => wI e tI64 id v) (f1 id (.i64 v)) :=
  FieldsW.field id h0 h1 tI64 (fun e => writeI e v) (.i64 v) (by simp [TVal.ty]) rfl ((ValW.i64 v).mono (Nat.zero_le k))
theorem stepI16 (k : Nat) (id : Int) (h0 : 0 ≤ id) (h1 : id ≤ 32767) (v : Int) :
    FieldsW k (fun e => wI e tI16 id v) (f1 id (.i16 v)) :=
  FieldsW.field id h0 h1 tI16 (fun e => writeI e v) (.i16 v) (by simp [TVal.ty]) rfl ((ValW.i16 v).mono (Nat.zero_le k))

theorem stepOptI32 (k : Nat) (id : Int) (h0 : 0 ≤ id) (h1 : id ≤ 32767) (o : Option Int) :
    FieldsW k (fun e => wOptI e tI32 id o) (fOpt id .i32 o) := by
  cases o with
  | none => exact FieldsW.nil k
  | some x => exact stepI32 k id h0 h1 x
theorem stepOptI64 (k : Nat) (id : Int) (h0 : 0 ≤ id) (h1 : id ≤ 32767) (o : Option Int) :
    FieldsW k (fun e => wOptI e tI64 id o) (fOpt id .i64 o) := by
  cases o with
  | none => exact FieldsW.nil k
  | some x => exact stepI64 k id h0 h1 x
theorem stepOptI16 (k : Nat) (id : Int) (h0 : 0 ≤ id) (h1 : id ≤ 32767) (o : Option Int) :
    FieldsW k (fun e => wOptI e tI16 id o) (fOpt id .i16 o) := by
  cases o with
  | none => exact FieldsW.nil k
  | some x => exact stepI16 k id h0 h1 x

theorem stepBin (k : Nat) (id : Int) (h0 : 0 ≤ id) (h1 : id ≤ 32767) (b : Bytes) :
    FieldsW k (fun e => writeBinary (writeFieldHeader e tBinary id) b) (f1 id (.binary b)) :=
  FieldsW.field id h0 h1 tBinary (fun e => writeBinary e b) (.binary b) (by simp [TVal.ty]) rfl ((ValW.binary b).mono (Nat.zero_le k))

theorem stepBinNE (k : Nat) (id : Int) (h0 : 0 ≤ id) (h1 : id ≤ 32767) (b : Bytes) :
    FieldsW k (fun e => wBinNonEmpty e id b) (fBinNonEmpty id b) := by
  unfold wBinNonEmpty fBinNonEmpty
  by_cases h : b.isEmpty
  · simp only [h, if_true]; exact FieldsW.nil k
  · simp only [h, Bool.false_eq_true, if_false]; exact stepBin k id h0 h1 b

theorem stepOptStr (k : Nat) (id : Int) (h0 : 0 ≤ id) (h1 : id ≤ 32767) (o : Option Bytes) :
    FieldsW k (fun e => wOptStr e id o) (fOpt id .binary o) := by
  cases o with
  | none => exact FieldsW.nil k
  | some x => exact stepBin k id h0 h1 x

theorem stepIfPos (k : Nat) (id : Int) (h0 : 0 ≤ id) (h1 : id ≤ 32767) (v : Int) :
    FieldsW k (fun e => wIfPos e id v) (fPos id v) := by
  unfold wIfPos fPos
  by_cases h : 0 < v
  · simp only [h, if_true]; exact stepI32 k id h0 h1 v
  · simp only [h, if_false]; exact FieldsW.nil k

theorem stepIfNonZero (k : Nat) (id : Int) (h0 : 0 ≤ id) (h1 : id ≤ 32767) (v : Int) :
    FieldsW k (fun e => wIfNonZero e id v) (fNonZero id v) := by
  unfold wIfNonZero fNonZero
  by_cases h : v = 0
  · simp only [h, if_true]; exact FieldsW.nil k
  · simp only [h, if_false]; exact stepI32 k id h0 h1 v

/-- a struct-valued field -/
theorem stepStruct {k : Nat} (id : Int) (h0 : 0 ≤ id) (h1 : id ≤ 32767) (wv : Enc → Enc) (fs : Fields) (hv : ValW k wv (.struct fs)) :
    FieldsW k (fun e => wv (writeFieldHeader e tStruct id)) (f1 id (.struct fs)) :=
  FieldsW.field id h0 h1 tStruct wv (.struct fs) (by simp [TVal.ty]) rfl hv

/-! ### Statistics -/

theorem writeStatistics_ok (s : Statistics) : ValW 1 (fun e => writeStatistics e s) (statisticsTV s) :=
  ValW.struct _ _ (((((((stepBinNE 0 1 (by omega) (by omega) s.maxDeprecated).comp
    (stepBinNE 0 2 (by omega) (by omega) s.minDeprecated)).comp
    (stepOptI64 0 3 (by omega) (by omega) s.nullCount)).comp
    (stepOptI64 0 4 (by omega) (by omega) s.distinctCount)).comp
    (stepBinNE 0 5 (by omega) (by omega) s.maxValue)).comp
    (stepBinNE 0 6 (by omega) (by omega) s.minValue)))

theorem stepOptStats (k : Nat) (hk : 1 ≤ k) (id : Int) (h0 : 0 ≤ id) (h1 : id ≤ 32767) (o : Option Statistics) :
    FieldsW k (fun e => wOptStats e id o) (fOpt id statisticsTV o) := by
  cases o with
  | none => exact FieldsW.nil k
  | some st => exact stepStruct id h0 h1 (fun e => writeStatistics e st) _ ((writeStatistics_ok st).mono hk)

/-! ### LogicalType -/

theorem emptyStruct_ok : ValW 1 (fun e => writeStructEnd (writeStructBegin e)) (.struct []) :=
  ValW.struct (fun e => e) [] (FieldsW.nil 0)

theorem stepEmptyMember (k : Nat) (hk : 1 ≤ k) (id : Int) (h0 : 0 ≤ id) (h1 : id ≤ 32767) :
    FieldsW k (fun e => wEmptyMember e id) (f1 id (.struct [])) :=
  stepStruct id h0 h1 (fun e => writeStructEnd (writeStructBegin e)) [] (emptyStruct_ok.mono hk)

theorem timeUnit_ok (u : TimeUnit) :
    ValW 2 (fun e => writeStructEnd (wEmptyMember (writeStructBegin e) (match u with | .millis => 1 | .micros => 2 | .nanos => 3)))
      (timeUnitTV u) := by
  cases u
  · exact ValW.struct _ _ (stepEmptyMember 1 (by omega) 1 (by omega) (by omega))
  · exact ValW.struct _ _ (stepEmptyMember 1 (by omega) 2 (by omega) (by omega))
  · exact ValW.struct _ _ (stepEmptyMember 1 (by omega) 3 (by omega) (by omega))

theorem time_ok (utc : Bool) (u : TimeUnit) :
    ValW 3 (fun e => writeStructEnd (wTimeUnit (writeFieldHeader (writeStructBegin e) (tBool utc) 1) u)) (timeTV utc u) :=
  ValW.struct _ _ ((FieldsW.boolField (k := 2) 1 (by omega) (by omega) utc).comp
    (stepStruct 2 (by omega) (by omega) _ _ (timeUnit_ok u)))

theorem stepTimeMember (id : Int) (h0 : 0 ≤ id) (h1 : id ≤ 32767) (utc : Bool) (u : TimeUnit) :
    FieldsW 3 (fun e => wTimeMember e id utc u) (f1 id (timeTV utc u)) :=
  stepStruct id h0 h1 _ _ (time_ok utc u)

theorem logicalMember_ok (lt : LogicalType) :
    ∃ fs, logicalTypeTV lt = .struct fs ∧ FieldsW 3 (fun e => wLogicalMember e lt) fs := by
  cases lt with
  | unknown => exact ⟨_, rfl, FieldsW.nil 3⟩
  | string => exact ⟨_, rfl, stepEmptyMember 3 (by omega) 1 (by omega) (by omega)⟩
  | map => exact ⟨_, rfl, stepEmptyMember 3 (by omega) 2 (by omega) (by omega)⟩
  | list => exact ⟨_, rfl, stepEmptyMember 3 (by omega) 3 (by omega) (by omega)⟩
  | enum => exact ⟨_, rfl, stepEmptyMember 3 (by omega) 4 (by omega) (by omega)⟩
  | decimal scale precision =>
    exact ⟨_, rfl, stepStruct 5 (by omega) (by omega) _ _
      ((ValW.struct _ _ ((stepI32 0 1 (by omega) (by omega) scale).comp (stepI32 0 2 (by omega) (by omega) precision))).mono
        (by omega))⟩
  | date => exact ⟨_, rfl, stepEmptyMember 3 (by omega) 6 (by omega) (by omega)⟩
  | time utc u => exact ⟨_, rfl, stepTimeMember 7 (by omega) (by omega) utc u⟩
  | timestamp utc u => exact ⟨_, rfl, stepTimeMember 8 (by omega) (by omega) utc u⟩
  | integer bw sg =>
    exact ⟨_, rfl, stepStruct 10 (by omega) (by omega) _ _
      ((ValW.struct _ _ ((FieldsW.field (k := 0) 1 (by omega) (by omega) tByte (fun e => writeByte e (byteOfI8 bw)) (.i8 bw)
          (by simp [TVal.ty]) rfl (ValW.i8 bw)).comp
        (FieldsW.boolField 2 (by omega) (by omega) sg))).mono (by omega))⟩
  | null => exact ⟨_, rfl, stepEmptyMember 3 (by omega) 11 (by omega) (by omega)⟩
  | json => exact ⟨_, rfl, stepEmptyMember 3 (by omega) 12 (by omega) (by omega)⟩
  | bson => exact ⟨_, rfl, stepEmptyMember 3 (by omega) 13 (by omega) (by omega)⟩
  | uuid => exact ⟨_, rfl, stepEmptyMember 3 (by omega) 14 (by omega) (by omega)⟩
  | float16 => exact ⟨_, rfl, stepEmptyMember 3 (by omega) 15 (by omega) (by omega)⟩

theorem writeLogicalType_ok (lt : LogicalType) : ValW 4 (fun e => writeLogicalType e lt) (logicalTypeTV lt) := by
  obtain ⟨fs, hfs, hw⟩ := logicalMember_ok lt
  rw [hfs]
  exact ValW.struct _ _ hw

theorem stepLogical (lt : Option LogicalType) : FieldsW 4 (fun e => wLogicalField e lt) (fLogical lt) := by
  cases lt with
  | none => exact FieldsW.nil 4
  | some l =>
    by_cases hu : l = .unknown
    · subst hu; exact FieldsW.nil 4
    · have h1 : ∀ e, wLogicalField e (some l) = writeLogicalType (writeFieldHeader e tStruct 10) l := by
        intro e; cases l <;> first | contradiction | rfl
      have h2 : fLogical (some l) = f1 10 (logicalTypeTV l) := by
        cases l <;> first | contradiction | rfl
      obtain ⟨fs, hfs, _⟩ := logicalMember_ok l
      have hw := writeLogicalType_ok l
      rw [hfs] at hw
      rw [h2, hfs]
      have : (fun e => wLogicalField e (some l)) = (fun e => writeLogicalType (writeFieldHeader e tStruct 10) l) := funext h1
      rw [this]
      exact stepStruct 10 (by omega) (by omega) (fun e => writeLogicalType e l) fs hw

/-! ### SchemaElement, KeyValue -/

theorem writeSchemaElement_ok (s : SchemaElement) : ValW 5 (fun e => writeSchemaElement e s) (schemaElementTV s) :=
  ValW.struct _ _ ((((((((((stepOptI32 4 1 (by omega) (by omega) s.type).comp
    (stepIfPos 4 2 (by omega) (by omega) s.typeLength)).comp
    (stepOptI32 4 3 (by omega) (by omega) s.repetition)).comp
    (stepOptStr 4 4 (by omega) (by omega) s.name)).comp
    (stepIfPos 4 5 (by omega) (by omega) s.numChildren)).comp
    (stepOptI32 4 6 (by omega) (by omega) s.convertedType)).comp
    (stepIfNonZero 4 7 (by omega) (by omega) s.scale)).comp
    (stepIfNonZero 4 8 (by omega) (by omega) s.precision)).comp
    (stepOptI32 4 9 (by omega) (by omega) s.fieldId)).comp
    (stepLogical s.logicalType))

theorem writeString_eq (e : Enc) (o : Option Bytes) : writeString e o = writeBinary e (o.getD []) := by
  cases o <;> rfl

theorem writeKeyValue_ok (kv : KeyValue) : ValW 1 (fun e => writeKeyValue e kv) (keyValueTV kv) := by
  have h : (fun e => writeKeyValue e kv) =
      (fun e => writeStructEnd (wOptStr (writeBinary (writeFieldHeader (writeStructBegin e) tBinary 1) (kv.key.getD [])) 2 kv.value)) := by
    funext e; simp only [writeKeyValue, writeString_eq]
  rw [h]
  exact ValW.struct _ _ ((stepBin 0 1 (by omega) (by omega) (kv.key.getD [])).comp (stepOptStr 0 2 (by omega) (by omega) kv.value))

/-! ### ColumnMetaData, ColumnChunk, RowGroup -/

theorem stepListI32 (k : Nat) (id : Int) (h0 : 0 ≤ id) (h1 : id ≤ 32767) (xs : List Int) (hlen : xs.length < 2 ^ 31) :
    FieldsW k (fun e => wEach writeI (writeListBegin (writeFieldHeader e tList id) tI32 (xs.length : Int)) xs)
      (f1 id (.list .i32 (xs.map .i32))) :=
  FieldsW.field id h0 h1 tList (fun e => wEach writeI (writeListBegin e tI32 (xs.length : Int)) xs) _ (by simp [TVal.ty]) rfl
    (ValW.list (k := k) .i32 writeI .i32 xs hlen (fun x _ => (ValW.i32 x).mono (Nat.zero_le k)))

theorem stepListStr (k : Nat) (id : Int) (h0 : 0 ≤ id) (h1 : id ≤ 32767) (xs : List Bytes) (hlen : xs.length < 2 ^ 31) :
    FieldsW k (fun e => wEach (fun e p => writeString e (some p)) (writeListBegin (writeFieldHeader e tList id) tBinary (xs.length : Int)) xs)
      (f1 id (.list .binary (xs.map .binary))) :=
  FieldsW.field id h0 h1 tList (fun e => wEach (fun e p => writeString e (some p)) (writeListBegin e tBinary (xs.length : Int)) xs) _
    (by simp [TVal.ty]) rfl
    (ValW.list (k := k) .binary (fun e p => writeString e (some p)) .binary xs hlen (fun x _ => (ValW.binary x).mono (Nat.zero_le k)))

theorem stepListStruct {α : Type} (k : Nat) (id : Int) (h0 : 0 ≤ id) (h1 : id ≤ 32767) (f : Enc → α → Enc) (tv : α → TVal)
    (xs : List α) (hlen : xs.length < 2 ^ 31) (hx : ∀ x ∈ xs, ValW k (fun e => f e x) (tv x)) :
    FieldsW k (fun e => wEach f (writeListBegin (writeFieldHeader e tList id) tStruct (xs.length : Int)) xs)
      (f1 id (.list .struct (xs.map tv))) :=
  FieldsW.field id h0 h1 tList (fun e => wEach f (writeListBegin e tStruct (xs.length : Int)) xs) _ (by simp [TVal.ty]) rfl
    (ValW.list (k := k) .struct f tv xs hlen hx)

theorem writeColumnMetaData_ok (m : ColumnMetaData) (h2 : m.encodings.length < 2 ^ 31) (h3 : m.pathInSchema.length < 2 ^ 31) :
    ValW 2 (fun e => writeColumnMetaData e m) (columnMetaDataTV m) :=
  ValW.struct _ _ (((((((((((((stepI32 1 1 (by omega) (by omega) m.type).comp
    (stepListI32 1 2 (by omega) (by omega) m.encodings h2)).comp
    (stepListStr 1 3 (by omega) (by omega) m.pathInSchema h3)).comp
    (stepI32 1 4 (by omega) (by omega) m.codec)).comp
    (stepI64 1 5 (by omega) (by omega) m.numValues)).comp
    (stepI64 1 6 (by omega) (by omega) m.totalUncompressedSize)).comp
    (stepI64 1 7 (by omega) (by omega) m.totalCompressedSize)).comp
    (stepI64 1 9 (by omega) (by omega) m.dataPageOffset)).comp
    (stepOptI64 1 10 (by omega) (by omega) m.indexPageOffset)).comp
    (stepOptI64 1 11 (by omega) (by omega) m.dictionaryPageOffset)).comp
    (stepOptStats 1 (by omega) 12 (by omega) (by omega) m.statistics)).comp
    (stepOptI64 1 14 (by omega) (by omega) m.bloomFilterOffset)).comp
    (stepOptI32 1 15 (by omega) (by omega) m.bloomFilterLength))

/-- list lengths a C `int32_t` count can hold -/
def lensOkCM (m : ColumnMetaData) : Prop := m.encodings.length < 2 ^ 31 ∧ m.pathInSchema.length < 2 ^ 31

theorem stepOptMeta (m : Option ColumnMetaData) (h : ∀ x, m = some x → lensOkCM x) :
    FieldsW 2 (fun e => wOptMeta e m) (fOpt 3 columnMetaDataTV m) := by
  cases m with
  | none => exact FieldsW.nil 2
  | some x =>
    obtain ⟨fs, hfs⟩ : ∃ fs, columnMetaDataTV x = .struct fs := ⟨_, rfl⟩
    have hw := writeColumnMetaData_ok x (h x rfl).1 (h x rfl).2
    simp only [fOpt]
    rw [hfs] at hw ⊢
    exact stepStruct 3 (by omega) (by omega) (fun e => writeColumnMetaData e x) fs hw

def lensOkCC (c : ColumnChunk) : Prop := ∀ x, c.metaData = some x → lensOkCM x

theorem writeColumnChunk_ok (c : ColumnChunk) (h : lensOkCC c) : ValW 3 (fun e => writeColumnChunk e c) (columnChunkTV c) :=
  ValW.struct _ _ (((((((stepOptStr 2 1 (by omega) (by omega) c.filePath).comp
    (stepI64 2 2 (by omega) (by omega) c.fileOffset)).comp
    (stepOptMeta c.metaData h)).comp
    (stepOptI64 2 4 (by omega) (by omega) c.offsetIndexOffset)).comp
    (stepOptI32 2 5 (by omega) (by omega) c.offsetIndexLength)).comp
    (stepOptI64 2 6 (by omega) (by omega) c.columnIndexOffset)).comp
    (stepOptI32 2 7 (by omega) (by omega) c.columnIndexLength))

def lensOkRG (g : RowGroup) : Prop := g.columns.length < 2 ^ 31 ∧ ∀ c ∈ g.columns, lensOkCC c

theorem writeRowGroup_ok (g : RowGroup) (h : lensOkRG g) : ValW 4 (fun e => writeRowGroup e g) (rowGroupTV g) :=
  ValW.struct _ _ ((((((stepListStruct 3 1 (by omega) (by omega) writeColumnChunk columnChunkTV g.columns h.1
      (fun c hc => writeColumnChunk_ok c (h.2 c hc))).comp
    (stepI64 3 2 (by omega) (by omega) g.totalByteSize)).comp
    (stepI64 3 3 (by omega) (by omega) g.numRows)).comp
    (stepOptI64 3 5 (by omega) (by omega) g.fileOffset)).comp
    (stepOptI64 3 6 (by omega) (by omega) g.totalCompressedSize)).comp
    (stepOptI16 3 7 (by omega) (by omega) g.ordinal))

/-! ### FileMetaData -/

def lensOkFM (m : FileMetaData) : Prop :=
  m.schema.length < 2 ^ 31 ∧ m.rowGroups.length < 2 ^ 31 ∧ m.keyValueMetadata.length < 2 ^ 31 ∧ ∀ g ∈ m.rowGroups, lensOkRG g

theorem stepKeyValues (kvs : List KeyValue) (h : kvs.length < 2 ^ 31) : FieldsW 5 (fun e => wKeyValues e kvs) (fKeyValues kvs) := by
  unfold wKeyValues fKeyValues
  by_cases he : kvs.isEmpty
  · simp only [he, if_true]; exact FieldsW.nil 5
  · simp only [he, Bool.false_eq_true, if_false]
    exact stepListStruct 5 5 (by omega) (by omega) writeKeyValue keyValueTV kvs h
      (fun kv _ => (writeKeyValue_ok kv).mono (by omega))

theorem writeFileMetaData_fields (m : FileMetaData) (h : lensOkFM m) :
    ValW 6 (fun e => writeStructEnd
      (wOptStr (wKeyValues
        (wEach writeRowGroup (writeListBegin (writeFieldHeader
          (wI
            (wEach writeSchemaElement (writeListBegin (writeFieldHeader
              (wI (writeStructBegin e) tI32 1 m.version) tList 2) tStruct m.schema.length) m.schema)
            tI64 3 m.numRows)
          tList 4) tStruct m.rowGroups.length) m.rowGroups)
        m.keyValueMetadata) 6 m.createdBy)) (fileMetaDataTV m) :=
  ValW.struct _ _ ((((((stepI32 5 1 (by omega) (by omega) m.version).comp
    (stepListStruct 5 2 (by omega) (by omega) writeSchemaElement schemaElementTV m.schema h.1
      (fun s _ => writeSchemaElement_ok s))).comp
    (stepI64 5 3 (by omega) (by omega) m.numRows)).comp
    (stepListStruct 5 4 (by omega) (by omega) writeRowGroup rowGroupTV m.rowGroups h.2.1
      (fun g hg => (writeRowGroup_ok g (h.2.2.2 g hg)).mono (by omega)))).comp
    (stepKeyValues m.keyValueMetadata h.2.2.1)).comp
    (stepOptStr 5 6 (by omega) (by omega) m.createdBy))

/-- **`parquet_write_file_metadata` writes the canonical encoding of the structure's Thrift value** -/
theorem writeFileMetaData_eq (m : FileMetaData) (h : lensOkFM m) :
    writeFileMetaData m = encode (fileMetaDataTV m) ∧ writeFileMetaDataStatus m = none := by
  obtain ⟨a1, _, a3⟩ := writeFileMetaData_fields m h Enc.init rfl (by simp [Enc.init, maxNesting])
  exact ⟨by simpa [writeFileMetaData, writeFileMetaDataEnc, encode, Enc.init, Enc.out] using a1,
         by simpa [writeFileMetaDataStatus, writeFileMetaDataEnc] using a3⟩

/-! ### PageHeader -/

theorem stepDataPage (h : DataPageHeader) : FieldsW 2 (fun e => wDataPageHeader e h) (f1 5 (dataPageHeaderTV h)) := by
  obtain ⟨fs, hfs⟩ : ∃ fs, dataPageHeaderTV h = .struct fs := ⟨_, rfl⟩
  have hw : ValW 2 (fun e => writeStructEnd (wOptStats (wI (wI (wI (wI (writeStructBegin e)
      tI32 1 h.numValues) tI32 2 h.encoding) tI32 3 h.definitionLevelEncoding)
      tI32 4 h.repetitionLevelEncoding) 5 h.statistics)) (dataPageHeaderTV h) :=
    ValW.struct _ _ (((((stepI32 1 1 (by omega) (by omega) h.numValues).comp
      (stepI32 1 2 (by omega) (by omega) h.encoding)).comp
      (stepI32 1 3 (by omega) (by omega) h.definitionLevelEncoding)).comp
      (stepI32 1 4 (by omega) (by omega) h.repetitionLevelEncoding)).comp
      (stepOptStats 1 (by omega) 5 (by omega) (by omega) h.statistics))
  rw [hfs] at hw ⊢
  exact stepStruct 5 (by omega) (by omega) _ fs hw

theorem stepDataPageV2 (h : DataPageHeaderV2) : FieldsW 2 (fun e => wDataPageHeaderV2 e h) (f1 8 (dataPageHeaderV2TV h)) := by
  obtain ⟨fs, hfs⟩ : ∃ fs, dataPageHeaderV2TV h = .struct fs := ⟨_, rfl⟩
  have hw : ValW 2 (fun e => writeStructEnd (writeFieldHeader (wI (wI (wI (wI (wI (wI (writeStructBegin e)
      tI32 1 h.numValues) tI32 2 h.numNulls) tI32 3 h.numRows) tI32 4 h.encoding)
      tI32 5 h.definitionLevelsByteLength) tI32 6 h.repetitionLevelsByteLength) (tBool h.isCompressed) 7))
      (dataPageHeaderV2TV h) :=
    (ValW.struct _ _ (((((((stepI32 0 1 (by omega) (by omega) h.numValues).comp
      (stepI32 0 2 (by omega) (by omega) h.numNulls)).comp
      (stepI32 0 3 (by omega) (by omega) h.numRows)).comp
      (stepI32 0 4 (by omega) (by omega) h.encoding)).comp
      (stepI32 0 5 (by omega) (by omega) h.definitionLevelsByteLength)).comp
      (stepI32 0 6 (by omega) (by omega) h.repetitionLevelsByteLength)).comp
      (FieldsW.boolField 7 (by omega) (by omega) h.isCompressed))).mono (by omega)
  rw [hfs] at hw ⊢
  exact stepStruct 8 (by omega) (by omega) _ fs hw

theorem stepDictPage (h : DictionaryPageHeader) : FieldsW 2 (fun e => wDictionaryPageHeader e h) (f1 7 (dictionaryPageHeaderTV h)) := by
  obtain ⟨fs, hfs⟩ : ∃ fs, dictionaryPageHeaderTV h = .struct fs := ⟨_, rfl⟩
  have hw : ValW 2 (fun e => writeStructEnd (writeFieldHeader (wI (wI (writeStructBegin e)
      tI32 1 h.numValues) tI32 2 h.encoding) (tBool h.isSorted) 3)) (dictionaryPageHeaderTV h) :=
    (ValW.struct _ _ (((stepI32 0 1 (by omega) (by omega) h.numValues).comp
      (stepI32 0 2 (by omega) (by omega) h.encoding)).comp
      (FieldsW.boolField 3 (by omega) (by omega) h.isSorted))).mono (by omega)
  rw [hfs] at hw ⊢
  exact stepStruct 7 (by omega) (by omega) _ fs hw

theorem stepPageMember (h : PageHeader) : FieldsW 2 (fun e => wPageMember e h) (fPageMember h) := by
  unfold wPageMember fPageMember
  by_cases h0 : h.type = pageData
  · simp only [h0, if_true]; exact stepDataPage _
  by_cases h3 : h.type = pageDataV2
  · simp only [h0, h3, if_true, if_false]; exact stepDataPageV2 _
  by_cases h2 : h.type = pageDictionary
  · simp only [h0, h3, h2, if_true, if_false]; exact stepDictPage _
  · simp only [h0, h3, h2, if_false]; exact FieldsW.nil 2

/-- **`parquet_write_page_header` writes the canonical encoding of the structure's Thrift value** -/
theorem writePageHeader_eq (h : PageHeader) :
    writePageHeader h = encode (pageHeaderTV h) ∧ writePageHeaderStatus h = none := by
  have hw : ValW 3 (fun e => writeStructEnd (wPageMember (wOptI (wI (wI (wI (writeStructBegin e) tI32 1 h.type)
      tI32 2 h.uncompressedPageSize) tI32 3 h.compressedPageSize) tI32 4 h.crc) h)) (pageHeaderTV h) :=
    ValW.struct _ _ (((((stepI32 2 1 (by omega) (by omega) h.type).comp
      (stepI32 2 2 (by omega) (by omega) h.uncompressedPageSize)).comp
      (stepI32 2 3 (by omega) (by omega) h.compressedPageSize)).comp
      (stepOptI32 2 4 (by omega) (by omega) h.crc)).comp
      (stepPageMember h))
  obtain ⟨a1, _, a3⟩ := hw Enc.init rfl (by simp [Enc.init, maxNesting])
  exact ⟨by simpa [writePageHeader, writePageHeaderEnc, encode, Enc.init, Enc.out] using a1,
         by simpa [writePageHeaderStatus, writePageHeaderEnc] using a3⟩

end Carquet.Proofs.Thrift
