import Carquet.Spec.File.Read
/-
Envelope layer of the independent reader: `splitFile` accepts exactly the byte strings of the
form  PAR1 ++ data ++ footer ++ le32 |footer| ++ PAR1  and returns that footer.
-/
namespace Carquet.Proofs.SpecFile
open Carquet.Spec.File

theorem leBytes_length (n v : Nat) : (leBytes n v).length = n := by
  induction n generalizing v with
  | zero => rfl
  | succ k ih => simp [leBytes, ih]

theorem leNat_leBytes (n v : Nat) (h : v < 256 ^ n) : leNat (leBytes n v) = v := by
  induction n generalizing v with
  | zero => simp [leBytes, leNat]; omega
  | succ k ih =>
    have hk : v / 256 < 256 ^ k := by
      rw [Nat.pow_succ] at h
      exact Nat.div_lt_of_lt_mul (by rw [Nat.mul_comm]; exact h)
    simp only [leBytes, leNat, ih _ hk]
    have : (UInt8.ofNat (v % 256)).toNat = v % 256 := by
      simp
    rw [this]; omega

theorem leBytes_leNat (bs : Bytes) : leBytes bs.length (leNat bs) = bs := by
  induction bs with
  | nil => rfl
  | cons b r ih =>
    simp only [List.length_cons, leBytes, leNat]
    have hb : b.toNat < 256 := b.toNat_lt
    have h1 : (b.toNat + 256 * leNat r) % 256 = b.toNat := by omega
    have h2 : (b.toNat + 256 * leNat r) / 256 = leNat r := by omega
    rw [h1, h2, ih]
    simp

theorem magic_length : magic.length = 4 := rfl

/-- the file fileOfPartsd from its parts -/
def fileOfParts (data footer : Bytes) : Bytes := magic ++ data ++ footer ++ leBytes 4 footer.length ++ magic

theorem fileOfParts_length (data footer : Bytes) : (fileOfParts data footer).length = data.length + footer.length + 12 := by
  simp [fileOfParts, leBytes_length, magic_length]; omega

theorem footerLen_fileOfParts (data footer : Bytes) (h : footer.length < 2 ^ 32) :
    footerLen (fileOfParts data footer) = footer.length := by
  unfold footerLen
  have hl := fileOfParts_length data footer
  have e : fileOfParts data footer = (magic ++ data ++ footer) ++ (leBytes 4 footer.length ++ magic) := by
    simp [fileOfParts, List.append_assoc]
  have hd : (fileOfParts data footer).length - 8 = (magic ++ data ++ footer).length := by
    simp [hl, magic_length]; omega
  rw [hd, e, List.drop_left]
  have : (leBytes 4 footer.length ++ magic).take 4 = leBytes 4 footer.length := by
    have := List.take_left (l₁ := leBytes 4 footer.length) (l₂ := magic)
    rwa [leBytes_length] at this
  rw [this, leNat_leBytes _ _ (by simpa using h)]

/-- **envelope accepted**: a file fileOfPartsd as the format says is split into its parts -/
theorem splitFile_fileOfParts (data footer : Bytes) (h : footer.length < 2 ^ 32) :
    splitFile (fileOfParts data footer) = .ok (4 + data.length, footer) := by
  have hl := fileOfParts_length data footer
  have hf := footerLen_fileOfParts data footer h
  unfold splitFile
  have h1 : ¬ (fileOfParts data footer).length < 12 := by omega
  have h2 : (fileOfParts data footer).take 4 = magic := by
    have e : fileOfParts data footer = magic ++ (data ++ footer ++ leBytes 4 footer.length ++ magic) := by
      simp [fileOfParts, List.append_assoc]
    rw [e]; exact List.take_left (l₁ := magic)
  have h3 : (fileOfParts data footer).drop ((fileOfParts data footer).length - 4) = magic := by
    have e : fileOfParts data footer = (magic ++ data ++ footer ++ leBytes 4 footer.length) ++ magic := by
      simp [fileOfParts, List.append_assoc]
    have hd : (fileOfParts data footer).length - 4 = (magic ++ data ++ footer ++ leBytes 4 footer.length).length := by
      simp [hl, leBytes_length, magic_length]; omega
    rw [hd, e, List.drop_left]
  have h4 : ¬ (footerLen (fileOfParts data footer) + 12 > (fileOfParts data footer).length) := by omega
  rw [if_neg h1, if_neg (by simp [h2]), if_neg (by simp [h3]), if_neg h4, hf]
  have hpos : (fileOfParts data footer).length - 8 - footer.length = (magic ++ data).length := by
    simp [hl, magic_length]; omega
  have e : fileOfParts data footer = (magic ++ data) ++ (footer ++ (leBytes 4 footer.length ++ magic)) := by
    simp [fileOfParts, List.append_assoc]
  rw [hpos]
  congr 1
  rw [e, List.drop_left]
  have : (magic ++ data).length = 4 + data.length := by simp [magic_length]
  simp [this, List.take_left']

/-- **only enveloped files are accepted**: whatever `splitFile` accepts has the envelope, and the
returned footer is the one the trailing length announces -/
theorem splitFile_inv {bs footer : Bytes} {fs : Nat} (h : splitFile bs = .ok (fs, footer)) :
    ∃ data, bs = fileOfParts data footer ∧ fs = 4 + data.length := by
  unfold splitFile at h
  split at h; · cases h
  split at h; · cases h
  split at h; · cases h
  split at h; · cases h
  rename_i h1 h2 h3 h4
  simp only [ne_eq, Decidable.not_not] at h2 h3
  simp only [Except.ok.injEq, Prod.mk.injEq] at h
  obtain ⟨hfs, hft⟩ := h
  have hlen : footer.length = footerLen bs := by
    rw [← hft, List.length_take, List.length_drop]; omega
  refine ⟨(bs.drop 4).take (bs.length - 12 - footerLen bs), ?_, ?_⟩
  · -- cut bs at 4, at the footer start, at the length field, at the trailing magic
    have c1 : bs = bs.take 4 ++ bs.drop 4 := (List.take_append_drop 4 bs).symm
    have c2 : bs.drop 4 = (bs.drop 4).take (bs.length - 12 - footerLen bs) ++ (bs.drop 4).drop (bs.length - 12 - footerLen bs) :=
      (List.take_append_drop _ _).symm
    have e3 : (bs.drop 4).drop (bs.length - 12 - footerLen bs) = bs.drop (bs.length - 8 - footerLen bs) := by
      rw [List.drop_drop]; congr 1; omega
    have c3 : bs.drop (bs.length - 8 - footerLen bs) =
        (bs.drop (bs.length - 8 - footerLen bs)).take (footerLen bs) ++ (bs.drop (bs.length - 8 - footerLen bs)).drop (footerLen bs) :=
      (List.take_append_drop _ _).symm
    have e4 : (bs.drop (bs.length - 8 - footerLen bs)).drop (footerLen bs) = bs.drop (bs.length - 8) := by
      rw [List.drop_drop]; congr 1; omega
    have c4 : bs.drop (bs.length - 8) = (bs.drop (bs.length - 8)).take 4 ++ (bs.drop (bs.length - 8)).drop 4 :=
      (List.take_append_drop _ _).symm
    have e5 : (bs.drop (bs.length - 8)).drop 4 = bs.drop (bs.length - 4) := by
      rw [List.drop_drop]; congr 1; omega
    have e6 : (bs.drop (bs.length - 8)).take 4 = leBytes 4 footer.length := by
      have hl4 : ((bs.drop (bs.length - 8)).take 4).length = 4 := by
        rw [List.length_take, List.length_drop]; omega
      have := leBytes_leNat ((bs.drop (bs.length - 8)).take 4)
      rw [hl4] at this
      rw [hlen]; exact this.symm
    unfold fileOfParts
    conv => lhs; rw [c1, c2, e3, c3, e4, c4, e5, e6, h2, h3, hft]
    simp [List.append_assoc]
  · rw [← hfs, List.length_take, List.length_drop]; omega

end Carquet.Proofs.SpecFile
