import Carquet.Impl.ReaderTable
import Carquet.Proofs.RoundtripPage
import Carquet.Proofs.RoundtripOpen
import Carquet.Proofs.RoundtripLayout
import Carquet.Proofs.CursorRun
/-
C01, file level — stage "one chunk, read completely": for the chunk of row group `i`, column `j`
of a completed run (`Cell`, Proofs/RoundtripLayout.lean), the column reader that `get_column`
creates, driven by ONE `carquet_column_read_batch` of `num_values` rows with a definition-level
array (what `Impl.Reader.readRowGroup` does), returns exactly the column's entry of the table the
history denotes: `readerColOf c (pagesData ps)`.

Composition of: `RecOk` for every page (stage "pages"), the chunk theorem of the reader half
(`chunkOf_writer`: the page iteration delivers the writer's pages, in any mode), the column reader
refinement (`readBatch_ok`, C02: a read of `k` rows delivers the first `k` pending rows) and the
description of the written rows (`writtenRows_defs`, `writtenRows_vals`).
-/
namespace Carquet.Proofs.Roundtrip
open Carquet.Impl Carquet.Impl.Reader
open Carquet.Impl.Writer (ChunkMeta PageRec readerColOf readerDefs)
open Carquet.Proofs.SpecWriter Carquet.Proofs.WriterTable
open Carquet.Proofs.ReaderPageRoundtrip Carquet.Proofs.ReaderChunkRoundtrip
open Carquet.Proofs.Cursor

theorem mapM_id_some {β : Type} : ∀ (xs : List β), (xs.map some).mapM id = some xs
  | [] => rfl
  | x :: xs => by
    simp only [List.map_cons, List.mapM_cons, id, mapM_id_some xs]
    rfl

/-- what `columnData` makes of a read that delivered all `rows` of a chunk -/
theorem columnData_of_resOk (maxDef k : Nat) (res : ColumnReader.ReadResult Reader.Bytes)
    (rows : List (Carquet.Spec.Cursor.Row Reader.Bytes)) (wr : Bool)
    (h : ResOk true wr k res rows) (hwf : ∀ row ∈ rows, Carquet.Spec.Cursor.Row.WF maxDef row) :
    columnData maxDef res (rows.length : Int) = some ⟨rows.map (·.defLevel), rows.filterMap (·.val)⟩ := by
  unfold columnData
  rw [if_neg (by rw [h.count]; simp), h.rowDefs, h.vals]
  simp only [Int.toNat_natCast]
  have h1 : (rows.map (fun row => some row.defLevel)).take rows.length = (rows.map (·.defLevel)).map some := by
    rw [List.take_of_length_le (by simp), List.map_map]; rfl
  rw [h1, countP_some, ← length_filterMap_val maxDef rows hwf, take_fill, mapM_id_some, mapM_id_some]

theorem sumRows_zero_nil (c : Writer.Col) : ∀ (ps : List PageRec), (∀ r ∈ ps, RecShape c r) →
    Carquet.Proofs.ReaderChunkRoundtrip.sumRows ps = 0 → ps = []
  | [], _, _ => rfl
  | r :: ps, h, h0 => by
    have := (h r (by simp)).pos
    simp only [Carquet.Proofs.ReaderChunkRoundtrip.sumRows, List.map_cons, List.sum_cons] at h0
    omega

/-- **one chunk, read completely** (any mode, any CRC setting; any codec tag whose stored bodies
decompress, `StoredOk`) -/
theorem readCell (L : Libs) (verify : Bool) (mode : Mode) (codec : Nat) (o : FileReal.Oracle)
    (hst : StoredOk L o codec) (file : Reader.Bytes) (c : Writer.Col) (hc : ColOk c)
    (m : ChunkMeta) (ps : List PageRec) (hcell : Cell o codec file c m ps)
    (hnv : m.numValues < 2147483648) (hfile : file.length < 2 ^ 64) :
    columnData (colOf c (cmdOf m)).maxDef
      (ColumnReader.readBatch ColumnReader.Fixes.all
        (ColumnReader.getColumn (chunkOf Fixes.all L verify mode file (colOf c (cmdOf m)))) (colOf c (cmdOf m)).cm.numValues true false).2
      (colOf c (cmdOf m)).cm.numValues = some (readerColOf c (pagesData ps)) := by
  obtain ⟨pre, post, hsplit, hpre, hpost⟩ := hcell.split
  have hall : ∀ r ∈ ps, RecOkL L c codec r := fun r hr => recOkL_of_facts hst hc (hcell.facts r hr)
  have hshape : ∀ r ∈ ps, RecShape c r := fun r hr => (hall r hr).toRecShape
  rw [pagesBytes_oracle] at hsplit
  obtain ⟨n1, _, _, n4, _⟩ := hcell.pages
  have hcm1 : (cmdOf m).codec = (codec : Int) := by simp [cmdOf, n4]
  have hcm2 : (cmdOf m).dictionaryPageOffset = none := rfl
  have hcm3 : (cmdOf m).dataPageOffset = (pre.length : Int) := by simp [cmdOf, hpre]
  have hcm4 : (cmdOf m).numValues = (Carquet.Proofs.ReaderChunkRoundtrip.sumRows ps : Int) := by
    simp [cmdOf, n1]; rfl
  rw [hsplit] at hfile ⊢
  have hcw := chunkOf_writerL L verify mode c (cmdOf m) codec ps pre post hcm1 hcm2 hcm3 hcm4 hall hpost hfile
  rw [chunkBytes_eq] at hcw
  obtain ⟨k1, k2, k3⟩ := hcw
  obtain ⟨hok, hrows⟩ := chunkOk_writerS _ c ps hshape k1 k2 k3
  have hinv := inv_getColumn _ hok
  have hpend := pending_getColumn (chunkOf Fixes.all L verify mode
    (pre ++ Carquet.Proofs.WriterPages.pagesBytes D ps ++ post) (colOf c (cmdOf m)))
  have hlen := writtenRows_lengthS c ps hshape
  have hsum : Carquet.Proofs.ReaderChunkRoundtrip.sumRows ps = (pagesData ps).rows := by
    unfold Carquet.Proofs.ReaderChunkRoundtrip.sumRows pagesData
    simp only
    congr 1
    apply List.map_congr_left
    intro r hr
    exact (hall r hr).rows
  have hnum : (colOf c (cmdOf m)).cm.numValues = (Carquet.Proofs.ReaderChunkRoundtrip.sumRows ps : Int) := hcm4
  have hmd : (colOf c (cmdOf m)).maxDef = c.maxDef := rfl
  rw [hnum, hmd]
  by_cases h0 : Carquet.Proofs.ReaderChunkRoundtrip.sumRows ps = 0
  · -- an empty chunk: nothing is read
    have hnil := sumRows_zero_nil c ps hshape h0
    obtain ⟨r', hz, _⟩ := readBatch_zero (ColumnReader.getColumn (chunkOf Fixes.all L verify mode
      (pre ++ Carquet.Proofs.WriterPages.pagesBytes D ps ++ post) (colOf c (cmdOf m)))) hinv true false
    rw [h0]
    simp only [Int.natCast_zero] at hz ⊢
    rw [hz, hnil]
    simp only [columnData, readerColOf, readerDefs, pagesData, List.map_nil, List.sum_nil, List.flatten_nil, List.replicate_zero,
      ite_self]
    rfl
  · have hk0 : 0 < Carquet.Proofs.ReaderChunkRoundtrip.sumRows ps := by omega
    have hk : Carquet.Proofs.ReaderChunkRoundtrip.sumRows ps < 2147483648 := by
      have : (Carquet.Proofs.ReaderChunkRoundtrip.sumRows ps : Int) = (m.numValues : Int) := by rw [← hcm4]; rfl
      omega
    obtain ⟨r', res, heq, _, _, _, hres⟩ := readBatch_ok (ColumnReader.getColumn (chunkOf Fixes.all L verify mode
      (pre ++ Carquet.Proofs.WriterPages.pagesBytes D ps ++ post) (colOf c (cmdOf m)))) hinv
      (Carquet.Proofs.ReaderChunkRoundtrip.sumRows ps) hk0 hk true false
    rw [hpend, hrows, List.take_of_length_le (by rw [hlen]; exact Nat.le_refl _)] at hres
    have hwf : ∀ row ∈ writtenRows c ps, Carquet.Spec.Cursor.Row.WF c.maxDef row := by
      have := pending_wf _ hinv
      rw [hpend, hrows] at this
      intro row hrow
      have := this row hrow
      rwa [show (ColumnReader.getColumn (chunkOf Fixes.all L verify mode
        (pre ++ Carquet.Proofs.WriterPages.pagesBytes D ps ++ post) (colOf c (cmdOf m)))).chunk.maxDef = c.maxDef from k3] at this
    rw [heq]
    have := columnData_of_resOk c.maxDef _ res (writtenRows c ps) false hres hwf
    rw [hlen] at this
    rw [this, writtenRows_defsS c ps hshape, writtenRows_valsS c ps hshape, hsum]
    rfl

/-- **one chunk through the public call** `carquet_column_read_batch(cr, values, num_values, def_levels?, NULL)`
(what harness/ops_file.c does and `Impl.Reader.readChunk` models; `wd` = a def_levels array is passed):
the call returns the chunk's row count, fills the level array (if any) with the definition level of
every row and the value array with the dense values, leaving its remaining slots untouched -/
theorem readCellApi (L : Libs) (verify : Bool) (mode : Mode) (codec : Nat) (o : FileReal.Oracle)
    (hst : StoredOk L o codec) (file : Reader.Bytes) (c : Writer.Col) (hc : ColOk c)
    (m : ChunkMeta) (ps : List PageRec) (hcell : Cell o codec file c m ps)
    (hnv : m.numValues < 2147483648) (hfile : file.length < 2 ^ 64) (wd : Bool) :
    ∃ res, (ColumnReader.readBatch ColumnReader.Fixes.all
        (ColumnReader.getColumn (chunkOf Fixes.all L verify mode file (colOf c (cmdOf m)))) (colOf c (cmdOf m)).cm.numValues wd false).2 = res ∧
      res.count = ((pagesData ps).rows : Int) ∧
      res.defs = (if wd then (readerDefs c (pagesData ps)).map some else []) ∧ res.reps = [] ∧
      res.vals = (pagesData ps).vals.map some ++ List.replicate ((pagesData ps).rows - (pagesData ps).vals.length) none := by
  obtain ⟨pre, post, hsplit, hpre, hpost⟩ := hcell.split
  have hall : ∀ r ∈ ps, RecOkL L c codec r := fun r hr => recOkL_of_facts hst hc (hcell.facts r hr)
  have hshape : ∀ r ∈ ps, RecShape c r := fun r hr => (hall r hr).toRecShape
  rw [pagesBytes_oracle] at hsplit
  obtain ⟨n1, _, _, n4, _⟩ := hcell.pages
  have hcm1 : (cmdOf m).codec = (codec : Int) := by simp [cmdOf, n4]
  have hcm3 : (cmdOf m).dataPageOffset = (pre.length : Int) := by simp [cmdOf, hpre]
  have hcm4 : (cmdOf m).numValues = (Carquet.Proofs.ReaderChunkRoundtrip.sumRows ps : Int) := by
    simp [cmdOf, n1]; rfl
  rw [hsplit] at hfile ⊢
  have hcw := chunkOf_writerL L verify mode c (cmdOf m) codec ps pre post hcm1 rfl hcm3 hcm4 hall hpost hfile
  rw [chunkBytes_eq] at hcw
  obtain ⟨k1, k2, k3⟩ := hcw
  obtain ⟨hok, hrows⟩ := chunkOk_writerS _ c ps hshape k1 k2 k3
  have hinv := inv_getColumn _ hok
  have hpend := pending_getColumn (chunkOf Fixes.all L verify mode
    (pre ++ Carquet.Proofs.WriterPages.pagesBytes D ps ++ post) (colOf c (cmdOf m)))
  have hlen := writtenRows_lengthS c ps hshape
  have hsum : Carquet.Proofs.ReaderChunkRoundtrip.sumRows ps = (pagesData ps).rows := by
    unfold Carquet.Proofs.ReaderChunkRoundtrip.sumRows pagesData
    simp only
    congr 1
    apply List.map_congr_left
    intro r hr
    exact (hall r hr).rows
  have hnum : (colOf c (cmdOf m)).cm.numValues = (Carquet.Proofs.ReaderChunkRoundtrip.sumRows ps : Int) := hcm4
  rw [hnum]
  by_cases h0 : Carquet.Proofs.ReaderChunkRoundtrip.sumRows ps = 0
  · have hnil := sumRows_zero_nil c ps hshape h0
    obtain ⟨r', hz, _⟩ := readBatch_zero (ColumnReader.getColumn (chunkOf Fixes.all L verify mode
      (pre ++ Carquet.Proofs.WriterPages.pagesBytes D ps ++ post) (colOf c (cmdOf m)))) hinv wd false
    rw [h0]
    simp only [Int.natCast_zero] at hz ⊢
    rw [hz, hnil]
    refine ⟨_, rfl, ?_, ?_, rfl, ?_⟩
    · simp [pagesData]
    · cases wd <;> simp [readerDefs, pagesData]
    · simp [pagesData]
  · have hk0 : 0 < Carquet.Proofs.ReaderChunkRoundtrip.sumRows ps := by omega
    have hk : Carquet.Proofs.ReaderChunkRoundtrip.sumRows ps < 2147483648 := by
      have : (Carquet.Proofs.ReaderChunkRoundtrip.sumRows ps : Int) = (m.numValues : Int) := by rw [← hcm4]; rfl
      omega
    obtain ⟨r', res, heq, _, _, _, hres⟩ := readBatch_ok (ColumnReader.getColumn (chunkOf Fixes.all L verify mode
      (pre ++ Carquet.Proofs.WriterPages.pagesBytes D ps ++ post) (colOf c (cmdOf m)))) hinv
      (Carquet.Proofs.ReaderChunkRoundtrip.sumRows ps) hk0 hk wd false
    rw [hpend, hrows, List.take_of_length_le (by rw [hlen]; exact Nat.le_refl _)] at hres
    rw [heq]
    have hdefs : (writtenRows c ps).map (·.defLevel) = readerDefs c (pagesData ps) := by
      rw [writtenRows_defsS c ps hshape, hsum]; rfl
    have hvals : (writtenRows c ps).filterMap (·.val) = (pagesData ps).vals := by
      rw [writtenRows_valsS c ps hshape]; rfl
    refine ⟨res, rfl, ?_, ?_, ?_, ?_⟩
    · rw [hres.count, hlen, hsum]
    · rw [hres.defs, hdefs]
      cases wd
      · rfl
      · simp only [if_true, fill]
        rw [← hdefs, List.length_map, hlen, Nat.sub_self]
        simp
    · rw [hres.reps]; rfl
    · rw [hres.vals, hvals, hsum]; rfl

end Carquet.Proofs.Roundtrip
