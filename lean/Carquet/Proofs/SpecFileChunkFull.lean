import Carquet.Proofs.SpecFileChainFull
/-
The chunk stage for admissible layouts: an optional dictionary page (PLAIN, any compression plan,
`is_sorted`, unknown fields, `dictionary_page_offset` present or absent) followed by data pages in
either value encoding.
-/
namespace Carquet.Proofs.SpecFile
open Carquet.Spec Carquet.Spec.File Carquet.Spec.Thrift Carquet.Spec.ParquetThrift

/-! ### the dictionary page -/

def dictPageHdrTV (leaf : LeafInfo) (dl : DictLayout) (comp : Bytes) : TVal :=
  pageHdrTV 2 (plainEncode leaf dl.values).length comp.length (if dl.crc then some (crcField comp) else none) 7
    (dictHdrTV ⟨dl.values.length, dl.encoding⟩ dl.sorted dl.memberExtra) dl.hdrExtra

theorem writeDictPage_adm {leaf : LeafInfo} {dl : DictLayout} {w : Written} (hd : DictAdm dl)
    (hw : writeDictPage leaf dl = some w) :
    ∃ comp, compressWith dl.comp (plainEncode leaf dl.values) = some comp ∧
      w.bytes = encodeValF dl.form (dictPageHdrTV leaf dl comp) ++ comp ∧
      w.oracle = oracleEntry dl.comp comp (plainEncode leaf dl.values) ∧
      w.usize = (encodeValF dl.form (dictPageHdrTV leaf dl comp)).length + (plainEncode leaf dl.values).length := by
  unfold writeDictPage at hw
  rw [hd.damage] at hw
  cases hc : compressWith dl.comp (plainEncode leaf dl.values) with
  | none => simp [hc] at hw
  | some comp =>
    simp only [hc, Option.some.injEq, mkPage] at hw
    have hcnt : (Int.ofNat dl.values.length + ({} : Damage).countDelta).toNat = dl.values.length := by
      show (Int.ofNat dl.values.length + 0).toNat = dl.values.length
      simp
    rw [hcnt] at hw
    refine ⟨comp, rfl, ?_, ?_, ?_⟩ <;> rw [← hw] <;> simp [dictPageHdrTV]

/-- **the dictionary page** is read back: raw page (any codec plan) and the dictionary -/
theorem dictPage_written (cfg : Config) (leaf : LeafInfo) (dl : DictLayout) (a : Written) (rest : Bytes)
    (hd : DictAdm dl) (h1 : writeDictPage leaf dl = some a) (hvalid : ∀ v ∈ dl.values, validValue leaf v = true)
    (hlen : a.bytes.length < 2 ^ 31) (hus : a.usize < 2 ^ 31)
    (ho : ∀ e ∈ a.oracle, oracleLookup cfg.oracle e.1 = some e.2) :
    ∃ p : RawPage, readRawPage cfg dl.comp.codec (a.bytes ++ rest) = .ok p ∧ p.hdr.type = 2 ∧ p.rest = rest ∧
      p.size = a.bytes.length ∧ RawPage.usize p = a.usize ∧
      ∃ kh, p.hdr.dict = some kh ∧ decodeDictPage leaf kh p.page = .ok dl.values := by
  obtain ⟨comp, hc, hbytes, horacle, husize⟩ := writeDictPage_adm hd h1
  have hbody : (plainEncode leaf dl.values).length < 2 ^ 31 := by omega
  have hcomp : comp.length < 2 ^ 31 := by
    rw [hbytes] at hlen; simp only [List.length_append] at hlen; omega
  have hdecomp := decompress_compressWith cfg.oracle dl.comp _ comp hc hd.comp (by rw [← horacle]; exact ho)
  have henc : inI32 (dl.encoding : Int) := by
    unfold inI32; rcases hd.encoding with h | h <;> rw [h] <;> decide
  obtain ⟨kfs, hk1, hk2⟩ := dictHdrOf_TV_gen dl.values.length dl.encoding dl.sorted dl.memberExtra hd.memberExtra
  have hkwf := dictHdrTV_wf dl.values.length dl.encoding dl.sorted dl.memberExtra hd.count henc hd.memberExtraWf
  rw [hk1] at hkwf
  obtain ⟨fs, hf1, hf2⟩ := pageHdrOf_dict (plainEncode leaf dl.values).length comp.length
    (if dl.crc then some (crcField comp) else none) kfs _ hk2 dl.hdrExtra hd.hdrExtra
  have hpwf := pageHdrTV_wf 2 (plainEncode leaf dl.values).length comp.length (if dl.crc then some (crcField comp) else none) 7
    (.struct kfs) dl.hdrExtra (by unfold inI32; omega) hbody hcomp (crc_inI32 dl.crc comp) (by unfold inI16; omega) hkwf
    hd.hdrExtraWf
  rw [hf1] at hpwf
  have hhdr : dictPageHdrTV leaf dl comp = .struct fs := by
    unfold dictPageHdrTV; rw [hk1, hf1]
  rw [hhdr] at hbytes
  have hraw := readRawPage_of cfg dl.comp.codec dl.form fs _ dl.crc (plainEncode leaf dl.values) comp rest hpwf hf2
    (Or.inr rfl) rfl rfl rfl hdecomp
  rw [← hbytes] at hraw
  refine ⟨_, hraw, rfl, rfl, ?_, ?_, _, rfl, ?_⟩
  · rw [hbytes]; simp
  · rw [husize, hhdr]
    simp only [RawPage.usize]
    omega
  · have h3 := plainValues_written leaf dl.values hvalid [] (fun _ => rfl)
    simp only [List.append_nil] at h3
    unfold decodeDictPage
    have hne : ¬ ((dl.encoding : Int) ≠ 0 ∧ (dl.encoding : Int) ≠ 2) := by
      rcases hd.encoding with h | h <;> rw [h] <;> decide
    simp only [hne, if_false, h3]
    simp

theorem writeDictPage_ne_nil {leaf : LeafInfo} {dl : DictLayout} {w : Written} (hd : DictAdm dl)
    (hw : writeDictPage leaf dl = some w) : w.bytes ≠ [] := by
  obtain ⟨comp, _, hbytes, _, _⟩ := writeDictPage_adm hd hw
  rw [hbytes]
  intro h
  have := (List.append_eq_nil_iff.mp h).1
  unfold dictPageHdrTV pageHdrTV at this
  exact encodeValF_struct_ne_nil _ _ this

theorem writeDictPage_body_le {leaf : LeafInfo} {dl : DictLayout} {w : Written} (hd : DictAdm dl)
    (hw : writeDictPage leaf dl = some w) : (plainEncode leaf dl.values).length ≤ w.usize := by
  obtain ⟨comp, _, _, _, husize⟩ := writeDictPage_adm hd hw
  omega

/-! ### the chunk -/

/-- the first entry of a well-formed chunk has repetition level 0 -/
theorem wellFormedChunk_first {leaf : LeafInfo} {es : List Entry} (hwf : wellFormedChunk leaf es = true) :
    ∀ e t, es = e :: t → e.rep = 0 := by
  intro e t h
  subst h
  unfold wellFormedChunk at hwf
  simp only [Bool.and_eq_true] at hwf
  simpa using hwf.2

/-- **one column chunk without dictionary page** -/
theorem readChunk_written_nodict (cfg : Config) (leaf : LeafInfo) (pls : List PageLayout) (es : List Entry) (w : Written)
    (m : ColumnMeta) (start : Nat)
    (hpl : ∀ pl ∈ pls, PageAdm pl ∧ pl.comp.codec = m.codec) (hw : writeDataPages leaf none pls es = some w)
    (hwf : wellFormedChunk leaf es = true) (hlen : w.bytes.length < 2 ^ 31) (hus : w.usize < 2 ^ 31) (hes : es.length < 2 ^ 31)
    (hlegal : m.encodings.all legalEncoding = true)
    (henc : ∀ pl ∈ pls, m.encodings.contains (valueEncTag pl.values) = true)
    (hnum : m.numValues = es.length) (hdict : m.dictionaryPageOffset = none)
    (ho : ∀ e ∈ w.oracle, oracleLookup cfg.oracle e.1 = some e.2) :
    readChunk cfg leaf m start w.bytes = .ok es := by
  have hwfe : ∀ e ∈ es, wellFormedEntry leaf e = true := by
    unfold wellFormedChunk at hwf
    simp only [Bool.and_eq_true, List.all_eq_true] at hwf
    exact hwf.1
  have hdv : ∀ d, (none : Option (List Bytes)) = some d → ∀ v ∈ d, v.length < 2 ^ 31 := fun d h => by cases h
  have hcount := pages_count_le leaf none pls es w (fun p hp => (hpl p hp).1) hw
  have hall := readDataPages_written_gen cfg m.codec leaf none m.encodings hdv pls es w (w.bytes.length + 1) henc hpl hw hwfe
    hlen hus hes ho (by omega)
  have hfirst := wellFormedChunk_first hwf
  unfold readChunk
  simp only [hlegal, Bool.not_true, Bool.false_eq_true, if_false, bind, Except.bind, pure, Except.pure]
  by_cases hnil : w.bytes = []
  · obtain ⟨he, _⟩ := pages_nil_entries leaf none pls es w (fun p hp => (hpl p hp).1) hw hnil
    subst he
    simp [hnil, hnum]
  · obtain ⟨p, hraw, hty⟩ := first_page_data cfg m.codec leaf none hdv pls es w hpl hw hwfe hlen hus hes ho hnil
    simp only [hnil, if_false, hraw, hty, hdict, Option.isSome_none, Bool.false_eq_true, hall, hnum]
    simp
    cases es with
    | nil => rfl
    | cons e t => simp [hfirst e t rfl]

/-- **one column chunk with a dictionary page** -/
theorem readChunk_written_dict (cfg : Config) (leaf : LeafInfo) (dl : DictLayout) (pls : List PageLayout) (es : List Entry)
    (dp w : Written) (m : ColumnMeta) (start : Nat)
    (hd : DictAdm dl) (hdc : dl.comp.codec = m.codec) (hdw : writeDictPage leaf dl = some dp)
    (hvalid : ∀ v ∈ dl.values, validValue leaf v = true)
    (hpl : ∀ pl ∈ pls, PageAdm pl ∧ pl.comp.codec = m.codec) (hw : writeDataPages leaf (some dl.values) pls es = some w)
    (hwf : wellFormedChunk leaf es = true) (hlen : dp.bytes.length + w.bytes.length < 2 ^ 31)
    (hus : dp.usize + w.usize < 2 ^ 31) (hes : es.length < 2 ^ 31)
    (hlegal : m.encodings.all legalEncoding = true)
    (henc : ∀ pl ∈ pls, m.encodings.contains (valueEncTag pl.values) = true)
    (hnum : m.numValues = es.length)
    (hoff : m.dictionaryPageOffset.isSome = true → m.dataPageOffset = start + dp.bytes.length)
    (ho : ∀ e ∈ dp.oracle ++ w.oracle, oracleLookup cfg.oracle e.1 = some e.2) :
    readChunk cfg leaf m start (dp.bytes ++ w.bytes) = .ok es := by
  have hwfe : ∀ e ∈ es, wellFormedEntry leaf e = true := by
    unfold wellFormedChunk at hwf
    simp only [Bool.and_eq_true, List.all_eq_true] at hwf
    exact hwf.1
  have hbody := writeDictPage_body_le hd hdw
  have hdv : ∀ d, some dl.values = some d → ∀ v ∈ d, v.length < 2 ^ 31 := by
    intro d h; cases h
    exact value_length_lt leaf dl.values hvalid (by omega)
  have hcount := pages_count_le leaf (some dl.values) pls es w (fun p hp => (hpl p hp).1) hw
  have hall := readDataPages_written_gen cfg m.codec leaf (some dl.values) m.encodings hdv pls es w (w.bytes.length + 1) henc hpl hw
    hwfe (by omega) (by omega) hes (fun e he => ho e (by simp [he])) (by omega)
  obtain ⟨p, hraw, hty, hrest, hsize, _, kh, hkh, hdec⟩ := dictPage_written cfg leaf dl dp w.bytes hd hdw hvalid (by omega) (by omega)
    (fun e he => ho e (by simp [he]))
  rw [hdc] at hraw
  have hfirst := wellFormedChunk_first hwf
  have hne : dp.bytes ++ w.bytes ≠ [] := by
    intro h; exact writeDictPage_ne_nil hd hdw (List.append_eq_nil_iff.mp h).1
  have hoffc : (m.dictionaryPageOffset.isSome && decide (start + p.size ≠ m.dataPageOffset)) = false := by
    cases hs : m.dictionaryPageOffset.isSome with
    | false => rfl
    | true => simp [hoff hs, hsize]
  unfold readChunk
  simp only [hlegal, Bool.not_true, Bool.false_eq_true, if_false, bind, Except.bind, pure, Except.pure, hne, hraw, hty,
    if_true, hkh, hoffc, hdec, hrest, hall, hnum]
  simp
  cases es with
  | nil => rfl
  | cons e t => simp [hfirst e t rfl]

/-! ### `total_uncompressed_size` of the chunk, as the independent reader evaluates it -/

/-- chunk without dictionary page -/
theorem chunkUsize_written_nodict (cfg : Config) (codec : Nat) (leaf : LeafInfo) (pls : List PageLayout) (es : List Entry)
    (w : Written) (hpl : ∀ pl ∈ pls, PageAdm pl ∧ pl.comp.codec = codec) (hw : writeDataPages leaf none pls es = some w)
    (hwf : wellFormedChunk leaf es = true) (hlen : w.bytes.length < 2 ^ 31) (hus : w.usize < 2 ^ 31) (hes : es.length < 2 ^ 31)
    (ho : ∀ e ∈ w.oracle, oracleLookup cfg.oracle e.1 = some e.2) :
    chunkUsize (w.bytes.length + 1) w.bytes = some w.usize := by
  have hwfe : ∀ e ∈ es, wellFormedEntry leaf e = true := by
    unfold wellFormedChunk at hwf
    simp only [Bool.and_eq_true, List.all_eq_true] at hwf
    exact hwf.1
  have hdv : ∀ d, (none : Option (List Bytes)) = some d → ∀ v ∈ d, v.length < 2 ^ 31 := fun d h => by cases h
  have hcount := pages_count_le leaf none pls es w (fun p hp => (hpl p hp).1) hw
  exact chunkUsize_written_gen cfg codec leaf none hdv pls es w (w.bytes.length + 1) hpl hw hwfe hlen hus hes ho (by omega)

/-- chunk with a dictionary page: its header and uncompressed body count as well -/
theorem chunkUsize_written_dict (cfg : Config) (codec : Nat) (leaf : LeafInfo) (dl : DictLayout) (pls : List PageLayout)
    (es : List Entry) (dp w : Written)
    (hd : DictAdm dl) (hdc : dl.comp.codec = codec) (hdw : writeDictPage leaf dl = some dp)
    (hvalid : ∀ v ∈ dl.values, validValue leaf v = true)
    (hpl : ∀ pl ∈ pls, PageAdm pl ∧ pl.comp.codec = codec) (hw : writeDataPages leaf (some dl.values) pls es = some w)
    (hwf : wellFormedChunk leaf es = true) (hlen : dp.bytes.length + w.bytes.length < 2 ^ 31)
    (hus : dp.usize + w.usize < 2 ^ 31) (hes : es.length < 2 ^ 31)
    (ho : ∀ e ∈ dp.oracle ++ w.oracle, oracleLookup cfg.oracle e.1 = some e.2) :
    chunkUsize (dp.bytes.length + w.bytes.length + 1) (dp.bytes ++ w.bytes) = some (dp.usize + w.usize) := by
  have hwfe : ∀ e ∈ es, wellFormedEntry leaf e = true := by
    unfold wellFormedChunk at hwf
    simp only [Bool.and_eq_true, List.all_eq_true] at hwf
    exact hwf.1
  have hbody := writeDictPage_body_le hd hdw
  have hdv : ∀ d, some dl.values = some d → ∀ v ∈ d, v.length < 2 ^ 31 := by
    intro d h; cases h
    exact value_length_lt leaf dl.values hvalid (by omega)
  have hcount := pages_count_le leaf (some dl.values) pls es w (fun p hp => (hpl p hp).1) hw
  have hall := chunkUsize_written_gen cfg codec leaf (some dl.values) hdv pls es w (dp.bytes.length + w.bytes.length) hpl hw
    hwfe (by omega) (by omega) hes (fun e he => ho e (by simp [he]))
    (by have := List.length_pos_iff.mpr (writeDictPage_ne_nil hd hdw); omega)
  obtain ⟨p, hraw, _, hrest, _, husz, _⟩ := dictPage_written cfg leaf dl dp w.bytes hd hdw hvalid (by omega) (by omega)
    (fun e he => ho e (by simp [he]))
  have hne : dp.bytes ++ w.bytes ≠ [] := by
    intro h; exact writeDictPage_ne_nil hd hdw (List.append_eq_nil_iff.mp h).1
  rw [chunkUsize_of_raw cfg _ _ p _ hne hraw, hrest, hall, husz]
  rfl

end Carquet.Proofs.SpecFile
