import Carquet.Proofs.DeltaSpec
import Carquet.Proofs.DeltaImplDec
import Carquet.Proofs.DeltaImplEnc
/-
Glue between the three grammar lemmas (Spec decoder, Impl decoder, Impl encoder) used by the
C11 / C12 property theorems of DELTA_BINARY_PACKED.
-/
namespace Carquet.Impl.Delta
open Carquet.Spec.Delta (Stream Geometry)

theorem truncate_signExtend32 (x : BitVec 32) : BitVec.truncate 32 (BitVec.signExtend 64 x) = x := by
  have h : BitVec.signExtend 64 x = BitVec.ofInt 64 x.toInt := by
    rw [← BitVec.toInt_signExtend_of_le (v := 64) (x := x) (by decide), BitVec.ofInt_toInt]
  rw [h, truncate_ofInt 32 (by decide), BitVec.ofInt_toInt]

theorem truncate64 (x : BitVec 64) : BitVec.truncate 64 x = x := by
  simp [BitVec.truncate_eq_setWidth]

/-- every value a stream denotes is already wrapped -/
theorem wrap_accum (W : Nat) (x : Int) (ds : List Int) : ∀ y ∈ Spec.Delta.accum W x ds, Spec.Delta.wrap W y = y := by
  induction ds generalizing x with
  | nil => intro y hy; simp [Spec.Delta.accum] at hy
  | cons d ds ih =>
    intro y hy
    simp only [Spec.Delta.accum, List.mem_cons] at hy
    rcases hy with rfl | hy
    · simp [Spec.Delta.wrap]
    · exact ih _ y hy

theorem wrap_values (W : Nat) (s : Stream) : ∀ y ∈ s.values W, Spec.Delta.wrap W y = y := by
  intro y hy
  unfold Stream.values at hy
  split at hy
  · simp at hy
  · simp only [List.mem_cons] at hy
    rcases hy with rfl | hy
    · simp [Spec.Delta.wrap]
    · exact wrap_accum W _ _ y hy

/-- from "the narrowed register values are `vs`" to "the denoted integers are `vs.map toInt`" -/
theorem values_eq_of_ofInt (W : Nat) (s : Stream) (vs : List (BitVec W))
    (h : (s.values W).map (BitVec.ofInt W) = vs) : s.values W = vs.map BitVec.toInt := by
  rw [← h, List.map_map]
  conv => lhs; rw [← List.map_id (s.values W)]
  apply List.map_congr_left
  intro y hy
  simp only [Function.comp_def, id, BitVec.toInt_ofInt]
  exact (wrap_values W s y hy).symm

theorem map_truncate64 (l : List (BitVec 64)) : l.map (BitVec.truncate 64) = l := by
  conv => rhs; rw [← List.map_id l]
  exact List.map_congr_left (fun x _ => truncate64 x)

theorem map_truncate_signExtend32 (l : List (BitVec 32)) :
    (l.map (BitVec.signExtend 64)).map (BitVec.truncate 32) = l := by
  rw [List.map_map]
  conv => rhs; rw [← List.map_id l]
  exact List.map_congr_left (fun x _ => truncate_signExtend32 x)

/-- INT64 round trip through the Impl models (any bytes may follow the encoding) -/
theorem int64_roundtrip (vs : List (BitVec 64)) (cap : Nat) (bs tail : List UInt8)
    (hne : vs ≠ []) (hlen : vs.length ≤ 2147483647) (henc : encodeInt64 vs cap = .ok bs) :
    decodeInt64 (bs ++ tail) vs.length = .ok (vs, bs.length) := by
  cases vs with
  | nil => exact absurd rfl hne
  | cons v rest =>
    obtain ⟨s, hwf, hg, hapi, hbs, hcnt, hvals⟩ := encodeV_stream v rest cap bs (by simpa using hlen) henc
    have := decodeV_stream s tail hwf hg hapi
    rw [hcnt, ← hbs, hvals] at this
    simpa [decodeInt64] using this

theorem int32_roundtrip (vs : List (BitVec 32)) (cap : Nat) (bs tail : List UInt8)
    (hne : vs ≠ []) (hlen : vs.length ≤ 2147483647) (henc : encodeInt32 vs cap = .ok bs) :
    decodeInt32 (bs ++ tail) vs.length = .ok (vs, bs.length) := by
  cases vs with
  | nil => exact absurd rfl hne
  | cons v rest =>
    unfold encodeInt32 at henc
    simp only [List.map_cons] at henc
    obtain ⟨s, hwf, hg, hapi, hbs, hcnt, hvals⟩ :=
      encodeV_stream (v.signExtend 64) (rest.map (BitVec.signExtend 64)) cap bs (by simpa using hlen) henc
    have := decodeV_stream s tail hwf hg hapi
    rw [hcnt, ← hbs, hvals] at this
    simp only [List.length_map] at this
    have e := map_truncate_signExtend32 (v :: rest)
    simp only [List.map_cons] at e
    simp only [decodeInt32, List.length_cons, this, List.map_cons, e]

/-- what carquet writes, read by the reference decoder (any bytes may follow) -/
theorem int64_to_spec (vs : List (BitVec 64)) (cap : Nat) (bs tail : List UInt8)
    (hne : vs ≠ []) (hlen : vs.length ≤ 2147483647) (henc : encodeInt64 vs cap = .ok bs) :
    Spec.Delta.decode 64 (bs ++ tail) = .ok (vs.map BitVec.toInt, tail) := by
  cases vs with
  | nil => exact absurd rfl hne
  | cons v rest =>
    obtain ⟨s, hwf, _, _, hbs, _, hvals⟩ := encodeV_stream v rest cap bs (by simpa using hlen) henc
    have hd := Spec.Delta.decode_stream 64 s tail hwf
    rw [← hbs] at hd
    rw [hd]
    have ht := implValues_truncate 64 (by decide) s
    rw [hvals, map_truncate64] at ht
    rw [values_eq_of_ofInt 64 s (v :: rest) ht.symm]

theorem int32_to_spec (vs : List (BitVec 32)) (cap : Nat) (bs tail : List UInt8)
    (hne : vs ≠ []) (hlen : vs.length ≤ 2147483647) (henc : encodeInt32 vs cap = .ok bs) :
    Spec.Delta.decode 32 (bs ++ tail) = .ok (vs.map BitVec.toInt, tail) := by
  cases vs with
  | nil => exact absurd rfl hne
  | cons v rest =>
    unfold encodeInt32 at henc
    simp only [List.map_cons] at henc
    obtain ⟨s, hwf, _, _, hbs, _, hvals⟩ :=
      encodeV_stream (v.signExtend 64) (rest.map (BitVec.signExtend 64)) cap bs (by simpa using hlen) henc
    have hd := Spec.Delta.decode_stream 32 s tail hwf
    rw [← hbs] at hd
    rw [hd]
    have ht := implValues_truncate 32 (by decide) s
    have e := map_truncate_signExtend32 (v :: rest)
    simp only [List.map_cons] at e
    rw [hvals] at ht
    simp only [List.map_cons] at ht
    rw [e] at ht
    rw [values_eq_of_ofInt 32 s (v :: rest) ht.symm]

/-- a grammar stream read by the Impl decoders -/
theorem stream_decodeInt64 (s : Stream) (tail : List UInt8) (hwf : s.wf)
    (hg : s.geom = ⟨128, 4⟩) (hapi : Stream.fitsApi s) :
    decodeInt64 (s.bytes ++ tail) s.count = .ok ((s.values 64).map (BitVec.ofInt 64), s.bytes.length) := by
  have := decodeV_stream s tail hwf hg hapi
  have ht := implValues_truncate 64 (by decide) s
  rw [map_truncate64] at ht
  rw [← ht]
  exact this

theorem stream_decodeInt32 (s : Stream) (tail : List UInt8) (hwf : s.wf)
    (hg : s.geom = ⟨128, 4⟩) (hapi : Stream.fitsApi s) :
    decodeInt32 (s.bytes ++ tail) s.count = .ok ((s.values 32).map (BitVec.ofInt 32), s.bytes.length) := by
  have := decodeV_stream s tail hwf hg hapi
  have ht := implValues_truncate 32 (by decide) s
  simp only [decodeInt32, this, ht]

end Carquet.Impl.Delta
