/-
XXH64, written from the xxHash specification ("xxHash fast digest algorithm", section
"XXH64 algorithm description"): step 1 initialise four accumulators, step 2 process 32-byte
stripes (four little-endian 64-bit lanes, one per accumulator), step 3 converge the
accumulators, step 4 add the input length, step 5 consume the remaining input (8-byte lanes,
then one 4-byte lane, then single bytes), step 6 final mix (avalanche).

Index-free: the input is a `List UInt8` that is cut into pieces; lanes are the little-endian
values of byte lists.  Shares nothing with carquet's pointer loop.  All arithmetic is modulo
2^64 (`BitVec 64`).
-/
namespace Carquet.Spec.Xxh64

def PRIME64_1 : BitVec 64 := 0x9E3779B185EBCA87#64
def PRIME64_2 : BitVec 64 := 0xC2B2AE3D27D4EB4F#64
def PRIME64_3 : BitVec 64 := 0x165667B19E3779F9#64
def PRIME64_4 : BitVec 64 := 0x85EBCA77C2B2AE63#64
def PRIME64_5 : BitVec 64 := 0x27D4EB2F165667C5#64

/-- Little-endian value of a byte string as a 64-bit lane: the first byte is the least
significant one. -/
def lane (bs : List UInt8) : BitVec 64 :=
  bs.foldr (fun b acc => (acc <<< 8) ||| b.toBitVec.setWidth 64) 0#64

/-- `round(accN, laneN)`:  accN + laneN·PRIME64_2, rotated left by 31, times PRIME64_1. -/
def round (acc ln : BitVec 64) : BitVec 64 :=
  ((acc + ln * PRIME64_2).rotateLeft 31) * PRIME64_1

/-- `mergeAccumulator(acc, accN)` -/
def mergeAccumulator (acc accN : BitVec 64) : BitVec 64 :=
  (acc ^^^ round 0#64 accN) * PRIME64_1 + PRIME64_4

/-- The four accumulators. -/
structure Accs where
  acc1 : BitVec 64
  acc2 : BitVec 64
  acc3 : BitVec 64
  acc4 : BitVec 64
deriving DecidableEq, Repr

/-- Step 1. -/
def initAccs (seed : BitVec 64) : Accs :=
  ⟨seed + PRIME64_1 + PRIME64_2, seed + PRIME64_2, seed + 0#64, seed - PRIME64_1⟩

/-- The first `k` consecutive pieces of `n` elements. -/
def piecesAux (n : Nat) : Nat → List α → List (List α)
  | 0, _ => []
  | k + 1, l => l.take n :: piecesAux n k (l.drop n)

/-- `l` cut into consecutive pieces of `n` elements; an incomplete last piece is not included. -/
def pieces (n : Nat) (l : List α) : List (List α) := piecesAux n (l.length / n) l

/-- What is left of `l` after its complete pieces of `n` elements. -/
def leftover (n : Nat) (l : List α) : List α := l.drop (n * (l.length / n))

/-- Step 2, one stripe of 32 bytes: lane `N` (bytes `8(N-1) .. 8N-1`) goes to accumulator `N`. -/
def stripe (a : Accs) (s : List UInt8) : Accs :=
  ⟨round a.acc1 (lane (s.take 8)),
   round a.acc2 (lane ((s.drop 8).take 8)),
   round a.acc3 (lane ((s.drop 16).take 8)),
   round a.acc4 (lane ((s.drop 24).take 8))⟩

/-- Step 3. -/
def converge (a : Accs) : BitVec 64 :=
  mergeAccumulator (mergeAccumulator (mergeAccumulator (mergeAccumulator
    (a.acc1.rotateLeft 1 + a.acc2.rotateLeft 7 + a.acc3.rotateLeft 12 + a.acc4.rotateLeft 18)
    a.acc1) a.acc2) a.acc3) a.acc4

/-- Step 5, an 8-byte lane. -/
def consume8 (acc : BitVec 64) (bs : List UInt8) : BitVec 64 :=
  ((acc ^^^ round 0#64 (lane bs)).rotateLeft 27) * PRIME64_1 + PRIME64_4

/-- Step 5, a 4-byte lane. -/
def consume4 (acc : BitVec 64) (bs : List UInt8) : BitVec 64 :=
  ((acc ^^^ (lane bs * PRIME64_1)).rotateLeft 23) * PRIME64_2 + PRIME64_3

/-- Step 5, a single byte. -/
def consume1 (acc : BitVec 64) (b : UInt8) : BitVec 64 :=
  ((acc ^^^ (b.toBitVec.setWidth 64 * PRIME64_5)).rotateLeft 11) * PRIME64_1

/-- Step 5 on the input that remains after the stripes (fewer than 32 bytes): as many 8-byte
lanes as fit, then a 4-byte lane if it fits, then the remaining bytes one by one. -/
def consumeRemaining (acc : BitVec 64) (rem : List UInt8) : BitVec 64 :=
  if 4 ≤ (leftover 8 rem).length then
    ((leftover 8 rem).drop 4).foldl consume1
      (consume4 ((pieces 8 rem).foldl consume8 acc) ((leftover 8 rem).take 4))
  else
    (leftover 8 rem).foldl consume1 ((pieces 8 rem).foldl consume8 acc)

/-- Step 6. -/
def avalanche1 (acc : BitVec 64) : BitVec 64 := (acc ^^^ (acc >>> 33)) * PRIME64_2
def avalanche2 (acc : BitVec 64) : BitVec 64 := (acc ^^^ (acc >>> 29)) * PRIME64_3
def avalanche3 (acc : BitVec 64) : BitVec 64 := acc ^^^ (acc >>> 32)
def avalanche (acc : BitVec 64) : BitVec 64 := avalanche3 (avalanche2 (avalanche1 acc))

/-- Steps 1–3 (or the short-input special case): the accumulator before the length is added. -/
def startAcc (data : List UInt8) (seed : BitVec 64) : BitVec 64 :=
  if data.length < 32 then seed + PRIME64_5
  else converge ((pieces 32 data).foldl stripe (initAccs seed))

def xxh64 (data : List UInt8) (seed : BitVec 64) : BitVec 64 :=
  avalanche (consumeRemaining (startAcc data seed + BitVec.ofNat 64 data.length) (leftover 32 data))

/-! Published values (tests of the transcription, not proofs).  Sources: the sanity checks
of the reference `xxhsum` program (empty input, and its generated buffer at lengths 1, 4, 14,
222 with seeds 0 and PRIME32_1) and widely published digests of short ASCII strings.  All of
them were re-computed with the system's reference libxxhash 0.8.1. -/

-- XXH64("", seed 0)
example : xxh64 [] 0#64 = 0xEF46DB3751D8E999#64 := by decide +kernel
-- XXH64("a", 0)
example : xxh64 [0x61] 0#64 = 0xD24EC4F1A98C6E5B#64 := by decide +kernel
-- XXH64("abc", 0)
example : xxh64 [0x61, 0x62, 0x63] 0#64 = 0x44BC2CF5AD770999#64 := by decide +kernel

/-- First 222 bytes of the `xxhsum` sanity buffer (`byteGen = 2654435761; buf[i] = byteGen >> 56;
byteGen *= 11400714785074694797`). -/
def sanityBuffer : List UInt8 :=
  [0x00, 0x52, 0x92, 0x9B, 0xB7, 0x32, 0xA3, 0x24, 0x2D, 0x00, 0xAF, 0x95, 0x0E, 0xEC, 0xB8, 0x93, 0xE3, 0xDF, 0xEF, 0x93, 0xAA, 0xD6, 0xCD, 0x2A, 0x53, 0x8B, 0x5C, 0x3F, 0x54, 0x5A, 0x6F, 0xD5, 0x59, 0xC0, 0xFF, 0xFC, 0x8F, 0x85, 0xB9, 0x33, 0x1D, 0xAB, 0x74, 0xF7, 0xB6, 0x05, 0x93, 0x27, 0xB0, 0x70, 0x84, 0xB3, 0x67, 0x7C, 0x9F, 0x76, 0x48, 0x00, 0x72, 0xED, 0x7B, 0x98, 0x17, 0xE8, 0xDD, 0x48, 0x5E, 0x0C, 0x0C, 0xCB, 0xD0, 0x65, 0x3F, 0xAD, 0xB2, 0x8F, 0x11, 0xB0, 0x6C, 0xE8, 0x8D, 0xB0, 0xF1, 0x86, 0x08, 0x61, 0x59, 0x56, 0x6C, 0x8E, 0x4E, 0x78, 0x13, 0x63, 0xBD, 0xAB, 0x9D, 0x32, 0x73, 0x09, 0xEA, 0x71, 0x2F, 0xD9, 0x7A, 0x9D, 0x55, 0xF0, 0xCA, 0x8A, 0xD0, 0xE9, 0x5E, 0x1A, 0x36, 0xB3, 0x6B, 0x0F, 0xCA, 0x51, 0xEF, 0x8B, 0xA2, 0xC4, 0x62, 0xED, 0x00, 0x96, 0xF3, 0x34, 0x49, 0xEB, 0x0F, 0xD1, 0x3B, 0x92, 0xA1, 0xA9, 0x63, 0xDB, 0xAA, 0xED, 0x3D, 0xCF, 0xF1, 0x09, 0x42, 0xCD, 0xF9, 0xB3, 0x21, 0xA2, 0xEB, 0xF2, 0xC8, 0xF4, 0xE4, 0x2F, 0x48, 0xD1, 0x4B, 0x10, 0xF4, 0xC2, 0xEF, 0xEC, 0xF8, 0x4A, 0xB5, 0x38, 0x74, 0xC3, 0xA4, 0xA6, 0x62, 0x0E, 0xBF, 0xFD, 0x63, 0x37, 0x41, 0xE3, 0x86, 0x98, 0x1A, 0xEB, 0x4C, 0xBA, 0x56, 0x03, 0x66, 0x87, 0xED, 0x00, 0x45, 0x59, 0xC1, 0x85, 0x44, 0xB6, 0xC3, 0x68, 0xF9, 0x41, 0xA9, 0xEA, 0xF9, 0x87, 0xE0, 0x9F, 0x12, 0xD0, 0xD5, 0x14, 0x54, 0x48, 0x5D, 0x44, 0x40, 0x51, 0xE3, 0x38]

/-- `PRIME32_1`, the non-zero seed of the `xxhsum` sanity checks. -/
def sanitySeed : BitVec 64 := 2654435761#64

example : sanityBuffer.length = 222 := by decide +kernel
example : xxh64 [] sanitySeed = 0xAC75FDA2929B17EF#64 := by decide +kernel
example : xxh64 (sanityBuffer.take 1) 0#64 = 0xE934A84ADB052768#64 := by decide +kernel
example : xxh64 (sanityBuffer.take 1) sanitySeed = 0x5014607643A9B4C3#64 := by decide +kernel
example : xxh64 (sanityBuffer.take 4) 0#64 = 0x9136A0DCA57457EE#64 := by decide +kernel
example : xxh64 (sanityBuffer.take 14) 0#64 = 0x8282DCC4994E35C8#64 := by decide +kernel
example : xxh64 (sanityBuffer.take 14) sanitySeed = 0xC3BD6BF63DEB6DF0#64 := by decide +kernel
example : xxh64 sanityBuffer 0#64 = 0xB641AE8CB691C174#64 := by decide +kernel
example : xxh64 sanityBuffer sanitySeed = 0x20CB8AB7AE10C14A#64 := by decide +kernel
-- XXH64("Nobody inspects the spammish repetition", 0): 39 bytes = one stripe + a 4-byte lane + 3 bytes
example : xxh64 [0x4E, 0x6F, 0x62, 0x6F, 0x64, 0x79, 0x20, 0x69, 0x6E, 0x73, 0x70, 0x65, 0x63, 0x74, 0x73, 0x20, 0x74, 0x68, 0x65, 0x20, 0x73, 0x70, 0x61, 0x6D, 0x6D, 0x69, 0x73, 0x68, 0x20, 0x72, 0x65, 0x70, 0x65, 0x74, 0x69, 0x74, 0x69, 0x6F, 0x6E] 0#64 = 0xFBCEA83C8A378BF1#64 := by decide +kernel

end Carquet.Spec.Xxh64
