/-
Orders of the Parquet physical types on BIT PATTERNS, the semantics of the six comparison
predicates, and what it means for min/max/null-count statistics to be true bounds.

Written from the format documents (PLAIN encoding = little-endian values; IEEE-754 binary32 /
binary64 from sign, exponent and mantissa; INT96 = 96-bit little-endian integer, which is the
order "three uint32 words, high to low" that carquet uses; byte arrays unsigned lexicographic).
Nothing here mirrors carquet's comparators; those are modelled in `Impl/Stats.lean`.

Values are byte strings exactly as they are stored in a Statistics struct or handed to the
reader API (`List UInt8`, PLAIN encoding).  All decoders are total: a string shorter than the
type's width is read as if zero-extended, a longer one by its leading bytes.  `Valid` says the
length is the type's width; the C code may only be called with valid values.
-/
namespace Carquet.Spec.Order

/-- Parquet physical types. -/
inductive PType where
  | boolean | int32 | int64 | int96 | float | double | byteArray | flba
  deriving DecidableEq, Repr, Inhabited

/-- Width in bytes of the fixed-width types; `none` for BYTE_ARRAY / FIXED_LEN_BYTE_ARRAY
(whose length comes with the value / the schema). -/
def PType.width : PType → Option Nat
  | .boolean => some 1 | .int32 => some 4 | .int64 => some 8 | .int96 => some 12
  | .float => some 4 | .double => some 8 | .byteArray => none | .flba => none

/-- A value of the right length for its type. -/
def Valid (t : PType) (v : List UInt8) : Prop :=
  match t.width with
  | some w => v.length = w
  | none => True

instance (t : PType) (v : List UInt8) : Decidable (Valid t v) := by
  unfold Valid; cases t.width <;> exact inferInstance

/-- Unsigned little-endian value of a byte string. -/
def leNat : List UInt8 → Nat
  | [] => 0
  | b :: r => b.toNat + 256 * leNat r

/-- Unsigned value of the first `n` bytes (`leNat bs mod 256^n`). -/
def uval (n : Nat) (bs : List UInt8) : Nat := leNat bs % 256 ^ n

/-! ### Three-way comparison from `<` -/

def cmpNat (a b : Nat) : Ordering := if a < b then .lt else if b < a then .gt else .eq
def cmpInt (a b : Int) : Ordering := if a < b then .lt else if b < a then .gt else .eq

/-! ### Signed integers: two's complement bit patterns, `BitVec.slt` -/

def cmpSigned (w : Nat) (a b : Nat) : Ordering :=
  if (BitVec.ofNat w a).slt (BitVec.ofNat w b) then .lt
  else if (BitVec.ofNat w b).slt (BitVec.ofNat w a) then .gt else .eq

/-! ### IEEE-754 binary interchange formats, from sign / exponent / mantissa -/

/-- `ebits` exponent bits, `mbits` stored mantissa bits (1 sign bit on top). -/
structure FFmt where
  ebits : Nat
  mbits : Nat
  deriving Repr

def f32 : FFmt := ⟨8, 23⟩
def f64 : FFmt := ⟨11, 52⟩

def FFmt.bits (f : FFmt) : Nat := 1 + f.ebits + f.mbits

def fsign (f : FFmt) (x : Nat) : Bool := x / 2 ^ (f.ebits + f.mbits) % 2 = 1
def fexp (f : FFmt) (x : Nat) : Nat := x / 2 ^ f.mbits % 2 ^ f.ebits
def fman (f : FFmt) (x : Nat) : Nat := x % 2 ^ f.mbits

/-- NaN: exponent all ones, mantissa non-zero (quiet and signalling alike, either sign). -/
def fisNaN (f : FFmt) (x : Nat) : Bool := fexp f x = 2 ^ f.ebits - 1 && fman f x != 0

/-- Magnitude as an exact integer multiple of the smallest denormal `2^(1 - bias - mbits)`:
denormals (exponent 0) are `mantissa`, normal numbers `(2^mbits + mantissa) * 2^(exponent-1)`.
Infinity (exponent all ones, mantissa 0) gets the value the next binade would start with, above
every finite number.  Both zeros have magnitude 0. -/
def fmag (f : FFmt) (x : Nat) : Nat :=
  if fexp f x = 0 then fman f x else (2 ^ f.mbits + fman f x) * 2 ^ (fexp f x - 1)

/-- The represented number (scaled as in `fmag`); `-0 = +0 = 0`. -/
def fval (f : FFmt) (x : Nat) : Int :=
  if fsign f x then - (fmag f x : Int) else (fmag f x : Int)

/-- IEEE comparison of two bit patterns: `none` (unordered) when either is NaN. -/
def fcmp (f : FFmt) (a b : Nat) : Option Ordering :=
  if fisNaN f a || fisNaN f b then none else some (cmpInt (fval f a) (fval f b))

/-! ### Unsigned lexicographic byte strings -/

def blex : List UInt8 → List UInt8 → Ordering
  | [], [] => .eq
  | [], _ :: _ => .lt
  | _ :: _, [] => .gt
  | a :: as, b :: bs => if a < b then .lt else if b < a then .gt else blex as bs

/-! ### The order of each physical type -/

/-- Is the value a NaN (only FLOAT and DOUBLE have any). -/
def isNaN : PType → List UInt8 → Bool
  | .float, v => fisNaN f32 (uval 4 v)
  | .double, v => fisNaN f64 (uval 8 v)
  | _, _ => false

/-- Comparison of two values that are not NaN. -/
def keyCmp : PType → List UInt8 → List UInt8 → Ordering
  | .boolean, a, b => cmpNat (uval 1 a) (uval 1 b)
  | .int32, a, b => cmpSigned 32 (leNat a) (leNat b)
  | .int64, a, b => cmpSigned 64 (leNat a) (leNat b)
  | .int96, a, b => cmpNat (uval 12 a) (uval 12 b)
  | .float, a, b => cmpInt (fval f32 (uval 4 a)) (fval f32 (uval 4 b))
  | .double, a, b => cmpInt (fval f64 (uval 8 a)) (fval f64 (uval 8 b))
  | .byteArray, a, b => blex a b
  | .flba, a, b => blex a b

/-- The type's own (partial) comparison: `none` when unordered, i.e. a NaN is involved. -/
def cmpT (t : PType) (a b : List UInt8) : Option Ordering :=
  if isNaN t a || isNaN t b then none else some (keyCmp t a b)

/-- The total preorder used for statistics: the type's order with all NaNs in one class above
every other value (the convention of carquet's statistics builder: "NaN sorts after
everything"; `-0 = +0`). -/
def tcmp (t : PType) (a b : List UInt8) : Ordering :=
  if isNaN t a then (if isNaN t b then .eq else .gt)
  else if isNaN t b then .lt else keyCmp t a b

/-- `a ≤ b` in the statistics order. -/
def tle (t : PType) (a b : List UInt8) : Prop := tcmp t a b ≠ .gt

instance (t : PType) (a b : List UInt8) : Decidable (tle t a b) := by unfold tle; exact inferInstance

/-! ### The six predicates -/

inductive Op where
  | eq | ne | lt | le | gt | ge
  deriving DecidableEq, Repr, Inhabited

/-- `value op probe` given the comparison of value with probe.  Unordered (`none`) satisfies
only `!=`: a NaN value (or a NaN probe) is different from everything, and neither less, equal
nor greater. -/
def satOrd : Op → Option Ordering → Bool
  | .eq, o => o == some .eq
  | .ne, o => o != some .eq
  | .lt, o => o == some .lt
  | .le, o => o == some .lt || o == some .eq
  | .gt, o => o == some .gt
  | .ge, o => o == some .gt || o == some .eq

/-- Does the (non-null) `value` satisfy `value op probe`. -/
def sat (t : PType) (op : Op) (value probe : List UInt8) : Bool := satOrd op (cmpT t value probe)

/-- A row is a value or null; a null satisfies no comparison. -/
abbrev Row := Option (List UInt8)

def satRow (t : PType) (op : Op) (probe : List UInt8) : Row → Bool
  | none => false
  | some v => sat t op v probe

/-- `lo ≤ value ≤ hi` (IEEE sense: false when a NaN is involved); a missing side is unbounded. -/
def inRange (t : PType) (lo hi : Option (List UInt8)) (v : List UInt8) : Bool :=
  (match lo with | none => true | some l => sat t .ge v l) &&
  (match hi with | none => true | some h => sat t .le v h)

/-! ### Statistics and what it means for them to be true -/

/-- What a statistics producer emits: each part may be absent. -/
structure Stats where
  min : Option (List UInt8) := none
  max : Option (List UInt8) := none
  nullCount : Option Int := none
  deriving Repr, DecidableEq

def countNulls : List Row → Nat
  | [] => 0
  | none :: r => countNulls r + 1
  | some _ :: r => countNulls r

/-- Every part that is present is true of the data: `min ≤ x ≤ max` in the type's statistics
order for every non-null `x`, and `null_count` is the number of nulls. -/
def TrueBounds (t : PType) (s : Stats) (data : List Row) : Prop :=
  (∀ lo, s.min = some lo → ∀ x, some x ∈ data → tle t lo x) ∧
  (∀ hi, s.max = some hi → ∀ x, some x ∈ data → tle t x hi) ∧
  (∀ n, s.nullCount = some n → n = (countNulls data : Int))

/-- Executable form of `TrueBounds` (used by the driver on what the real code produced). -/
def trueBoundsB (t : PType) (s : Stats) (data : List Row) : Bool :=
  (match s.min with
   | none => true
   | some lo => data.all (fun r => match r with | none => true | some x => decide (tle t lo x))) &&
  (match s.max with
   | none => true
   | some hi => data.all (fun r => match r with | none => true | some x => decide (tle t x hi))) &&
  (match s.nullCount with
   | none => true
   | some n => n == (countNulls data : Int))

/-! ### Tests of the transcription (not proofs) -/

-- 1.0f < 2.0f, -1.0f < 1.0f, -0 = +0, smallest denormal > 0, inf > max finite, NaN unordered
example : fcmp f32 0x3f800000 0x40000000 = some .lt := by decide +kernel
example : fcmp f32 0xbf800000 0x3f800000 = some .lt := by decide +kernel
example : fcmp f32 0x80000000 0x00000000 = some .eq := by decide +kernel
example : fcmp f32 0x00000001 0x00000000 = some .gt := by decide +kernel
example : fcmp f32 0x80000001 0x80000000 = some .lt := by decide +kernel
example : fcmp f32 0x7f800000 0x7f7fffff = some .gt := by decide +kernel
example : fcmp f32 0xff800000 0xff7fffff = some .lt := by decide +kernel
example : fcmp f32 0x7fc00000 0x3f800000 = none := by decide +kernel
example : fcmp f32 0x3f800000 0xffc00001 = none := by decide +kernel
example : fcmp f32 0x007fffff 0x00800000 = some .lt := by decide +kernel   -- largest denormal < smallest normal
example : fcmp f64 0x3ff0000000000000 0x4000000000000000 = some .lt := by decide +kernel
example : fcmp f64 0x8000000000000000 0 = some .eq := by decide +kernel
example : fcmp f64 0x7ff0000000000000 0x7fefffffffffffff = some .gt := by decide +kernel
example : fcmp f64 0x7ff8000000000000 0 = none := by decide +kernel
-- int32: -1 < 0 < 1, INT_MIN < INT_MAX
example : keyCmp .int32 [0xff,0xff,0xff,0xff] [0,0,0,0] = .lt := by decide +kernel
example : keyCmp .int32 [0,0,0,0x80] [0xff,0xff,0xff,0x7f] = .lt := by decide +kernel
-- INT96: the high word decides
example : keyCmp .int96 [0xff,0xff,0xff,0xff, 0,0,0,0, 0,0,0,0] [0,0,0,0, 0,0,0,0, 1,0,0,0] = .lt := by decide +kernel
-- bytes: prefix is smaller, unsigned
example : blex [0x61] [0x61, 0x00] = .lt := by decide
example : blex [0x7f] [0x80] = .lt := by decide
example : sat .float .ne [0,0,0xc0,0x7f] [0,0,0x80,0x3f] = true := by decide +kernel
example : sat .float .le [0,0,0xc0,0x7f] [0,0,0x80,0x3f] = false := by decide +kernel

end Carquet.Spec.Order
