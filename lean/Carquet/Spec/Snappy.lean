/-
Raw Snappy block format, written from google/snappy `format_description.txt`.
Shares nothing with carquet's compressor or decompressor.

  stream   := preamble element*
  preamble := uncompressed length as little-endian base-128 varint, value < 2^32
              (hence at most 5 bytes)
  element  := tag byte, low two bits = kind
     00 literal : upper six bits m.  m < 60: length m+1.  m = 60..63: the next 1..4 bytes hold
                  (length-1) little-endian.  Then `length` literal bytes.
     01 copy-1  : length 4 + bits[2..4] (4..11); offset = bits[5..7]·256 + next byte (11 bits)
     10 copy-2  : length 1 + upper six bits (1..64); offset = next two bytes little-endian
     11 copy-4  : length 1 + upper six bits (1..64); offset = next four bytes little-endian
  A copy of (offset, length) appends `length` bytes, each equal to the byte `offset` positions
  back in the output produced so far (so the ranges may overlap: byte-by-byte semantics).
  offset = 0 or offset > bytes produced so far is invalid.
  The stream is valid iff the elements consume the input exactly and produce exactly the
  declared number of bytes.

Contents: executable decoder `decode`, inductive grammar `Stream bs out`, steerable reference
encoder `encode` (every tag kind / every literal-length form on request).
The `example`s are tests of the transcription, not proofs.
-/
namespace Carquet.Spec.Snappy

inductive Err where
  | badPreamble      -- truncated, longer than 5 bytes, or value ≥ 2^32
  | truncated        -- an element runs past the end of the input
  | badOffset        -- offset 0, or offset larger than the number of bytes produced so far
  | lengthMismatch   -- the elements do not produce exactly the declared length
  | internal         -- not reachable (fuel of the element loop)
  deriving DecidableEq, Repr

deriving instance DecidableEq for Except

/-! ### Preamble -/

/-- Little-endian base-128 varint, at most `k` bytes: value and remaining input. -/
def readVarint : Nat → List UInt8 → Option (Nat × List UInt8)
  | 0, _ => none
  | _ + 1, [] => none
  | k + 1, b :: rest =>
    if b.toNat < 128 then some (b.toNat, rest)
    else
      match readVarint k rest with
      | some (m, r) => some (b.toNat - 128 + 128 * m, r)
      | none => none

/-- The uncompressed length: a varint whose value fits 32 bits. -/
def readPreamble (bs : List UInt8) : Option (Nat × List UInt8) :=
  match readVarint 5 bs with
  | some (n, r) => if n < 2 ^ 32 then some (n, r) else none
  | none => none

/-- Grammar of a varint: `Varint bytes value`. -/
inductive Varint : List UInt8 → Nat → Prop
  | last (b : UInt8) : b.toNat < 128 → Varint [b] b.toNat
  | more (b : UInt8) (rest : List UInt8) (m : Nat) :
      128 ≤ b.toNat → Varint rest m → Varint (b :: rest) (b.toNat - 128 + 128 * m)

/-! ### Elements -/

/-- Little-endian value of a byte string. -/
def leVal : List UInt8 → Nat
  | [] => 0
  | b :: r => b.toNat + 256 * leVal r

/-- Byte-by-byte copy on lists: append `n` bytes, each taken `off` back from the current end.
`none` when a source byte does not exist. -/
def copyOverlap (off : Nat) : Nat → List UInt8 → Option (List UInt8)
  | 0, o => some o
  | n + 1, o =>
    match o[o.length - off]? with
    | some b => if 0 < off then copyOverlap off n (o ++ [b]) else none
    | none => none

/-- One element: `Element bytes o o'` — the element spelled `bytes` turns output `o` into `o'`. -/
inductive Element : List UInt8 → List UInt8 → List UInt8 → Prop
  /-- tag 00, upper six bits < 60 -/
  | litShort (tag : UInt8) (data o : List UInt8) :
      tag.toNat % 4 = 0 → tag.toNat / 4 < 60 → data.length = tag.toNat / 4 + 1 →
      Element (tag :: data) o (o ++ data)
  /-- tag 00, upper six bits 60..63: 1..4 length bytes -/
  | litLong (tag : UInt8) (ext data o : List UInt8) :
      tag.toNat % 4 = 0 → 60 ≤ tag.toNat / 4 → ext.length = tag.toNat / 4 - 59 →
      data.length = leVal ext + 1 →
      Element (tag :: (ext ++ data)) o (o ++ data)
  /-- tag 01 -/
  | copy1 (tag b : UInt8) (o o' : List UInt8) :
      tag.toNat % 4 = 1 →
      0 < tag.toNat / 32 * 256 + b.toNat → tag.toNat / 32 * 256 + b.toNat ≤ o.length →
      copyOverlap (tag.toNat / 32 * 256 + b.toNat) (tag.toNat / 4 % 8 + 4) o = some o' →
      Element [tag, b] o o'
  /-- tag 10 -/
  | copy2 (tag b0 b1 : UInt8) (o o' : List UInt8) :
      tag.toNat % 4 = 2 →
      0 < leVal [b0, b1] → leVal [b0, b1] ≤ o.length →
      copyOverlap (leVal [b0, b1]) (tag.toNat / 4 + 1) o = some o' →
      Element [tag, b0, b1] o o'
  /-- tag 11 -/
  | copy4 (tag b0 b1 b2 b3 : UInt8) (o o' : List UInt8) :
      tag.toNat % 4 = 3 →
      0 < leVal [b0, b1, b2, b3] → leVal [b0, b1, b2, b3] ≤ o.length →
      copyOverlap (leVal [b0, b1, b2, b3]) (tag.toNat / 4 + 1) o = some o' →
      Element [tag, b0, b1, b2, b3] o o'

/-- A sequence of elements. -/
inductive Elems : List UInt8 → List UInt8 → List UInt8 → Prop
  | nil (o : List UInt8) : Elems [] o o
  | cons {e rest o o1 o2 : List UInt8} : Element e o o1 → Elems rest o1 o2 → Elems (e ++ rest) o o2

/-- `Stream bs out`: `bs` is a valid raw Snappy block whose content is `out`. -/
inductive Stream : List UInt8 → List UInt8 → Prop
  | mk {pre body out : List UInt8} {n : Nat} :
      Varint pre n → pre.length ≤ 5 → n < 2 ^ 32 →
      Elems body [] out → out.length = n → Stream (pre ++ body) out

/-! ### Executable decoder -/

inductive Elem where
  | literal (data : List UInt8)
  | copy (off len : Nat)
  deriving DecidableEq, Repr

def takeLiteral (len : Nat) (rest : List UInt8) : Except Err (Elem × List UInt8) :=
  if rest.length < len then .error .truncated
  else .ok (.literal (rest.take len), rest.drop len)

/-- Parse one element (tag byte already taken): the element and the remaining input. -/
def parseElem (tag : UInt8) (rest : List UInt8) : Except Err (Elem × List UInt8) :=
  if tag.toNat % 4 = 0 then
    if tag.toNat / 4 < 60 then takeLiteral (tag.toNat / 4 + 1) rest
    else if rest.length < tag.toNat / 4 - 59 then .error .truncated
    else takeLiteral (leVal (rest.take (tag.toNat / 4 - 59)) + 1) (rest.drop (tag.toNat / 4 - 59))
  else if tag.toNat % 4 = 1 then
    match rest with
    | b :: r => .ok (.copy (tag.toNat / 32 * 256 + b.toNat) (tag.toNat / 4 % 8 + 4), r)
    | _ => .error .truncated
  else if tag.toNat % 4 = 2 then
    match rest with
    | b0 :: b1 :: r => .ok (.copy (leVal [b0, b1]) (tag.toNat / 4 + 1), r)
    | _ => .error .truncated
  else
    match rest with
    | b0 :: b1 :: b2 :: b3 :: r => .ok (.copy (leVal [b0, b1, b2, b3]) (tag.toNat / 4 + 1), r)
    | _ => .error .truncated

/-- Byte-by-byte copy on the output buffer (same as `copyOverlap`, on an array for speed). -/
def copyLoop (off : Nat) : Nat → Array UInt8 → Option (Array UInt8)
  | 0, o => some o
  | n + 1, o =>
    match o[o.size - off]? with
    | some b => if 0 < off then copyLoop off n (o.push b) else none
    | none => none

def applyElem (o : Array UInt8) : Elem → Except Err (Array UInt8)
  | .literal data => .ok (o ++ data.toArray)
  | .copy off len =>
    if off = 0 ∨ o.size < off then .error .badOffset
    else
      match copyLoop off len o with
      | some o' => .ok o'
      | none => .error .badOffset

/-- Element loop; `fuel` ≥ number of input bytes (each element takes at least its tag byte). -/
def decodeElems : Nat → List UInt8 → Array UInt8 → Except Err (Array UInt8)
  | _, [], o => .ok o
  | 0, _ :: _, _ => .error .internal
  | f + 1, tag :: rest, o =>
    match parseElem tag rest with
    | .error e => .error e
    | .ok (el, rest') =>
      match applyElem o el with
      | .error e => .error e
      | .ok o' => decodeElems f rest' o'

/-- Decode a raw Snappy block. -/
def decode (bs : List UInt8) : Except Err (List UInt8) :=
  match readPreamble bs with
  | none => .error .badPreamble
  | some (n, body) =>
    match decodeElems body.length body #[] with
    | .error e => .error e
    | .ok o => if o.size = n then .ok o.toList else .error .lengthMismatch

/-! ### Steerable reference encoder -/

/-- How a literal length is to be written: in the tag, or in `k` (1..4) following bytes. -/
inductive LitForm where
  | inTag
  | ext (k : Nat)
  deriving DecidableEq, Repr

inductive CopyForm where
  | c1 | c2 | c4
  deriving DecidableEq, Repr

inductive Op where
  | literal (data : List UInt8) (form : LitForm)
  | copy (off len : Nat) (form : CopyForm)
  deriving DecidableEq, Repr

/-- `k` little-endian bytes of `v`. -/
def leBytes : Nat → Nat → List UInt8
  | 0, _ => []
  | k + 1, v => UInt8.ofNat (v % 256) :: leBytes k (v / 256)

def writeVarint (fuel : Nat) (v : Nat) : List UInt8 :=
  match fuel with
  | 0 => []
  | f + 1 => if v < 128 then [UInt8.ofNat v] else UInt8.ofNat (v % 128 + 128) :: writeVarint f (v / 128)

/-- Bytes of one op in the requested form; `none` if the form cannot express it. -/
def encodeOp : Op → Option (List UInt8)
  | .literal data .inTag =>
    if 1 ≤ data.length ∧ data.length ≤ 60 then some (UInt8.ofNat ((data.length - 1) * 4) :: data) else none
  | .literal data (.ext k) =>
    if 1 ≤ k ∧ k ≤ 4 ∧ 1 ≤ data.length ∧ data.length - 1 < 256 ^ k then
      some (UInt8.ofNat ((59 + k) * 4) :: (leBytes k (data.length - 1) ++ data))
    else none
  | .copy off len .c1 =>
    if 4 ≤ len ∧ len ≤ 11 ∧ off < 2048 then
      some [UInt8.ofNat (off / 256 * 32 + (len - 4) * 4 + 1), UInt8.ofNat (off % 256)]
    else none
  | .copy off len .c2 =>
    if 1 ≤ len ∧ len ≤ 64 ∧ off < 65536 then
      some (UInt8.ofNat ((len - 1) * 4 + 2) :: leBytes 2 off)
    else none
  | .copy off len .c4 =>
    if 1 ≤ len ∧ len ≤ 64 ∧ off < 2 ^ 32 then
      some (UInt8.ofNat ((len - 1) * 4 + 3) :: leBytes 4 off)
    else none

def encodeOps : List Op → Option (List UInt8)
  | [] => some []
  | op :: r =>
    match encodeOp op, encodeOps r with
    | some a, some b => some (a ++ b)
    | _, _ => none

/-- What a list of ops produces (none: a copy reaches before the start or has offset 0). -/
def runOps : List Op → List UInt8 → Option (List UInt8)
  | [], o => some o
  | .literal data _ :: r, o => runOps r (o ++ data)
  | .copy off len _ :: r, o =>
    if off = 0 ∨ o.length < off then none
    else
      match copyOverlap off len o with
      | some o' => runOps r o'
      | none => none

/-- Reference encoder: preamble for the length the ops produce, then the ops. -/
def encode (ops : List Op) : Option (List UInt8) :=
  match runOps ops [], encodeOps ops with
  | some out, some body => if out.length < 2 ^ 32 then some (writeVarint 5 out.length ++ body) else none
  | _, _ => none

/-! ### Tests of the transcription -/

-- empty block
example : decode [0] = .ok [] := by decide +kernel
-- "aaaaaaaaaa": literal 'a', then an overlapping copy-1 (offset 1, length 9)
example : decode [10, 0x00, 0x61, 0x15, 0x01] = .ok (List.replicate 10 0x61) := by decide +kernel
-- copy-2 and copy-4 forms, literal with 1 and 2 length bytes
example : decode [6, 0x04, 1, 2, 0x0e, 0x02, 0x00] = .ok [1, 2, 1, 2, 1, 2] := by decide +kernel
example : decode [6, 0x04, 1, 2, 0x0f, 0x02, 0x00, 0x00, 0x00] = .ok [1, 2, 1, 2, 1, 2] := by decide +kernel
example : decode [3, 0xf0, 2, 7, 8, 9] = .ok [7, 8, 9] := by decide +kernel
example : decode [3, 0xf4, 2, 0, 7, 8, 9] = .ok [7, 8, 9] := by decide +kernel
-- invalid: offset 0, offset before start, truncated element, trailing element, short output,
-- preamble ≥ 2^32, preamble of 6 bytes
example : decode [4, 0x00, 1, 0x0a, 0x00, 0x00] = .error .badOffset := by decide +kernel
example : decode [4, 0x00, 1, 0x0a, 0x02, 0x00] = .error .badOffset := by decide +kernel
example : decode [4, 0x01] = .error .truncated := by decide +kernel
example : decode [1, 0x00, 1, 0x00, 2] = .error .lengthMismatch := by decide +kernel
example : decode [2, 0x00, 1] = .error .lengthMismatch := by decide +kernel
example : decode [0x80, 0x80, 0x80, 0x80, 0x10] = .error .badPreamble := by decide +kernel
example : decode [0x80, 0x80, 0x80, 0x80, 0x80, 0x00] = .error .badPreamble := by decide +kernel
example : decode [0xff, 0xff, 0xff, 0xff, 0x0f] = .error .lengthMismatch := by decide +kernel
-- the encoder produces what the decoder reads, in every form
example : encode [.literal [1, 2, 3] .inTag, .copy 3 5 .c1, .copy 2 1 .c2, .copy 8 64 .c4,
                  .literal [9] (.ext 1), .literal [9, 9] (.ext 4)] =
    some [76, 0x08, 1, 2, 3, 0x05, 0x03, 0x02, 0x02, 0x00, 0xff, 0x08, 0, 0, 0,
          0xf0, 0, 9, 0xfc, 1, 0, 0, 0, 9, 9] := by decide +kernel
example : (encode [.literal [1, 2, 3] .inTag, .copy 3 5 .c1, .copy 2 1 .c2, .copy 8 64 .c4,
                   .literal [9] (.ext 1), .literal [9, 9] (.ext 4)]).map decode =
    some (.ok ([1, 2, 3, 1, 2, 3, 1, 2, 1] ++ (List.replicate 8 [2, 3, 1, 2, 3, 1, 2, 1]).flatten ++ [9, 9, 9])) := by
  decide +kernel

end Carquet.Spec.Snappy
