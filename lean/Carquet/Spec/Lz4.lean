/-
LZ4 block format, written from the format description (lz4_Block_format.md); shares nothing with
carquet's lz4.c.

A block is a series of *sequences*.  A sequence is
  token                       high nibble: literal length, low nibble: match length − 4
  [literal length bytes]      present iff the nibble is 15: bytes are added until one is ≠ 255
  literals
  offset                      2 bytes little-endian; 0 is invalid; it must not reach before the
                              start of the output produced so far
  [match length bytes]        same scheme
and means: append the literals, then copy `match length` bytes from `offset` bytes back, one byte
at a time (so the copy may overlap its own output).  The *last* sequence stops after its literals.

End-of-block rules an encoder must respect (`EndRules`): the last 5 bytes of the data are
literals and the last match starts at least 12 bytes before the end of the data; a decoder is
allowed, not obliged, to enforce these two, so `decode` / `Block` do not.
-/
namespace Carquet.Spec.Lz4

inductive Err where
  | truncated       -- the input ends inside a sequence (or there is no sequence at all)
  | offsetZero
  | offsetTooFar    -- the offset reaches before the start of the output
  | outputOverrun   -- the block encodes more than `cap` bytes
  deriving DecidableEq, Repr

instance : DecidableEq (Except Err (List UInt8)) := fun a b =>
  match a, b with
  | .ok x, .ok y => if h : x = y then isTrue (by rw [h]) else isFalse (fun e => h (by cases e; rfl))
  | .error x, .error y => if h : x = y then isTrue (by rw [h]) else isFalse (fun e => h (by cases e; rfl))
  | .ok _, .error _ => isFalse (fun e => by cases e)
  | .error _, .ok _ => isFalse (fun e => by cases e)

/-! ## Data: what a block says -/

/-- A sequence with a match: literals, then `mlen` bytes copied from `off` back. -/
structure Seq where
  lits : List UInt8
  off  : Nat
  mlen : Nat
  deriving DecidableEq, Repr

/-- one byte of a match copy -/
def copy1 (out : List UInt8) (off : Nat) : List UInt8 :=
  match out[out.length - off]? with
  | some b => out ++ [b]
  | none => out

/-- byte-by-byte match copy (overlap allowed) -/
def applyMatch (out : List UInt8) (off : Nat) : Nat → List UInt8
  | 0 => out
  | n + 1 => applyMatch (copy1 out off) off n

/-- The data denoted by sequences `seqs` followed by the final literals, starting from the
output `pre`; `none` if some sequence is not allowed by the format. -/
def exec (pre : List UInt8) : List Seq → List UInt8 → Option (List UInt8)
  | [], last => some (pre ++ last)
  | s :: r, last =>
    if 0 < s.off ∧ s.off ≤ (pre ++ s.lits).length ∧ s.off ≤ 65535 ∧ 4 ≤ s.mlen then
      exec (applyMatch (pre ++ s.lits) s.off s.mlen) r last
    else none

/-! ## Reference encoder, steered by the list of sequences -/

def lenNibble (len : Nat) : Nat := if len < 15 then len else 15

/-- additional length bytes: none below 15, otherwise `len − 15` as a run of 255s and a final
byte below 255 -/
def lenExt (len : Nat) : List UInt8 :=
  if len < 15 then [] else List.replicate ((len - 15) / 255) 255 ++ [UInt8.ofNat ((len - 15) % 255)]

def token (litLen mcode : Nat) : UInt8 := UInt8.ofNat (lenNibble litLen * 16 + lenNibble mcode)

def encodeSeq (s : Seq) : List UInt8 :=
  token s.lits.length (s.mlen - 4) ::
    (lenExt s.lits.length ++ s.lits ++ [UInt8.ofNat (s.off % 256), UInt8.ofNat (s.off / 256)]
      ++ lenExt (s.mlen - 4))

def encodeLast (last : List UInt8) : List UInt8 :=
  token last.length 0 :: (lenExt last.length ++ last)

def encode : List Seq → List UInt8 → List UInt8
  | [], last => encodeLast last
  | s :: r, last => encodeSeq s ++ encode r last

/-- End-of-block restrictions on encoders: if there is a match at all, the final literal run has
at least 5 bytes and the last match starts at least 12 bytes before the end of the data. -/
def EndRules (seqs : List Seq) (last : List UInt8) : Prop :=
  match seqs.getLast? with
  | none => True
  | some s => 5 ≤ last.length ∧ 12 ≤ s.mlen + last.length

instance (seqs : List Seq) (last : List UInt8) : Decidable (EndRules seqs last) := by
  unfold EndRules; cases seqs.getLast? <;> infer_instance

/-! ## Grammar -/

/-- value of a run of additional length bytes -/
inductive LenChain : Nat → List UInt8 → Prop
  | stop (b : UInt8) : b ≠ 255 → LenChain b.toNat [b]
  | cont {n : Nat} {ext : List UInt8} : LenChain n ext → LenChain (255 + n) (255 :: ext)

/-- `Len nib len ext`: the nibble `nib` followed by the bytes `ext` denotes the length `len` -/
inductive Len : Nat → Nat → List UInt8 → Prop
  | short {n : Nat} : n < 15 → Len n n []
  | long {n : Nat} {ext : List UInt8} : LenChain n ext → Len 15 (15 + n) ext

/-- `Seqs pre bs out`: with `pre` already produced, the bytes `bs` are a well-formed rest of a
block and the whole block denotes `out`. -/
inductive Seqs : List UInt8 → List UInt8 → List UInt8 → Prop
  | last {pre : List UInt8} {tok : UInt8} {ext lits : List UInt8} :
      Len (tok.toNat / 16) lits.length ext →
      Seqs pre (tok :: (ext ++ lits)) (pre ++ lits)
  | seq {pre : List UInt8} {tok lo hi : UInt8} {lext lits mext rest out : List UInt8} {mcode : Nat} :
      Len (tok.toNat / 16) lits.length lext →
      0 < lo.toNat + 256 * hi.toNat →
      lo.toNat + 256 * hi.toNat ≤ (pre ++ lits).length →
      Len (tok.toNat % 16) mcode mext →
      Seqs (applyMatch (pre ++ lits) (lo.toNat + 256 * hi.toNat) (mcode + 4)) rest out →
      Seqs pre (tok :: (lext ++ lits ++ [lo, hi] ++ mext ++ rest)) out

/-- `bs` is a valid LZ4 block and denotes `out`. -/
def Block (bs out : List UInt8) : Prop := Seqs [] bs out

/-! ## Executable decoder -/

/-- additional length bytes: add until a byte other than 255 -/
def readChain : List UInt8 → Nat → Option (Nat × List UInt8)
  | [], _ => none
  | b :: r, acc => if b = 255 then readChain r (acc + 255) else some (acc + b.toNat, r)

def readLen (nib : Nat) (bs : List UInt8) : Option (Nat × List UInt8) :=
  if nib < 15 then some (nib, bs) else readChain bs 15

/-- byte-by-byte copy on the output array -/
def copyMatch (out : Array UInt8) (off : Nat) : Nat → Array UInt8
  | 0 => out
  | n + 1 =>
    match out[out.size - off]? with
    | some b => copyMatch (out.push b) off n
    | none => out

inductive Step where
  | done (r : Except Err (Array UInt8))
  | more (rest : List UInt8) (out : Array UInt8)

def stepOff (tok : UInt8) (off : Nat) (r3 : List UInt8) (out : Array UInt8) (cap : Nat) : Step :=
  if off = 0 then .done (.error .offsetZero)
  else if out.size < off then .done (.error .offsetTooFar)
  else
    match readLen (tok.toNat % 16) r3 with
    | none => .done (.error .truncated)
    | some (mc, r4) =>
      if cap < out.size + (mc + 4) then .done (.error .outputOverrun)
      else .more r4 (copyMatch out off (mc + 4))

def stepMatch (tok : UInt8) (r2 : List UInt8) (out : Array UInt8) (cap : Nat) : Step :=
  match r2 with
  | [] => .done (.ok out)
  | [_] => .done (.error .truncated)
  | lo :: hi :: r3 => stepOff tok (lo.toNat + 256 * hi.toNat) r3 out cap

def stepLits (tok : UInt8) (ll : Nat) (r1 : List UInt8) (out : Array UInt8) (cap : Nat) : Step :=
  if (r1.take ll).length < ll then .done (.error .truncated)
  else if cap < out.size + ll then .done (.error .outputOverrun)
  else stepMatch tok (r1.drop ll) (out ++ r1.take ll) cap

/-- one sequence -/
def step (bs : List UInt8) (out : Array UInt8) (cap : Nat) : Step :=
  match bs with
  | [] => .done (.error .truncated)
  | tok :: r =>
    match readLen (tok.toNat / 16) r with
    | none => .done (.error .truncated)
    | some (ll, r1) => stepLits tok ll r1 out cap

/-- sequences until the one that stops after its literals; every sequence consumes at least its
token, so `fuel = |bs| + 1` is enough (`loop_fuel` in Proofs) -/
def loop : Nat → List UInt8 → Array UInt8 → Nat → Except Err (Array UInt8)
  | 0, _, _, _ => .error .truncated
  | fuel + 1, bs, out, cap =>
    match step bs out cap with
    | .done r => r
    | .more rest out' => loop fuel rest out' cap

/-- Decode a block into at most `cap` bytes. -/
def decode (bs : List UInt8) (cap : Nat) : Except Err (List UInt8) :=
  match loop (bs.length + 1) bs #[] cap with
  | .ok o => .ok o.toList
  | .error e => .error e

/-! ## Structure of a block (for the end-of-block rules) -/

/-- syntactic parse into sequences and final literals; no semantic checks -/
def parseLoop : Nat → List UInt8 → List Seq → Option (List Seq × List UInt8)
  | 0, _, _ => none
  | _ + 1, [], _ => none
  | fuel + 1, tok :: r, acc =>
    match readLen (tok.toNat / 16) r with
    | none => none
    | some (ll, r1) =>
      if (r1.take ll).length < ll then none
      else
        match r1.drop ll with
        | [] => some (acc.reverse, r1.take ll)
        | [_] => none
        | lo :: hi :: r3 =>
          match readLen (tok.toNat % 16) r3 with
          | none => none
          | some (mc, r4) => parseLoop fuel r4 (⟨r1.take ll, lo.toNat + 256 * hi.toNat, mc + 4⟩ :: acc)

def parse (bs : List UInt8) : Option (List Seq × List UInt8) := parseLoop (bs.length + 1) bs []

/-- The block `bs` was produced respecting the end-of-block rules. -/
def EndRulesOk (bs : List UInt8) : Prop :=
  ∃ seqs last, bs = encode seqs last ∧ EndRules seqs last

/-- executable form used by the driver -/
def endRulesCheck (bs : List UInt8) : Bool :=
  match parse bs with
  | none => false
  | some (seqs, last) => decide (EndRules seqs last) && (encode seqs last == bs)

/-! ## Tests of the transcription (not proofs) -/

-- "AAAAA": one literal, then a match of 4 at offset 1, then an empty final sequence
example : decode [0x10, 0x41, 0x01, 0x00, 0x00] 5 = .ok [0x41, 0x41, 0x41, 0x41, 0x41] := by decide +kernel
example : decode [0x10, 0x41, 0x01, 0x00, 0x00] 4 = .error .outputOverrun := by decide +kernel
-- empty data is the single token 0
example : decode [0x00] 0 = .ok [] := by decide +kernel
-- a block needs its final literal-only sequence
example : decode [] 0 = .error .truncated := by decide +kernel
example : decode [0x10, 0x41, 0x01, 0x00] 5 = .error .truncated := by decide +kernel
example : decode [0x10, 0x41, 0x00, 0x00, 0x00] 5 = .error .offsetZero := by decide +kernel
example : decode [0x10, 0x41, 0x02, 0x00, 0x00] 5 = .error .offsetTooFar := by decide +kernel
-- liblz4 1.9.4, LZ4_compress_default("abcabcabcabcabcabcabcabcabcabc", 30):
example : decode [0x3f, 0x61, 0x62, 0x63, 0x03, 0x00, 0x03, 0x50, 0x62, 0x63, 0x61, 0x62, 0x63] 30
    = .ok (List.flatten (List.replicate 10 [0x61, 0x62, 0x63])) := by decide +kernel
-- liblz4 1.9.4 on "Parquet pages: page page page page page page page page!" (55 bytes)
example : decode [0xe1, 0x50, 0x61, 0x72, 0x71, 0x75, 0x65, 0x74, 0x20, 0x70, 0x61, 0x67, 0x65, 0x73, 0x3a,
    0x07, 0x00, 0x0f, 0x05, 0x00, 0x0c, 0x50, 0x70, 0x61, 0x67, 0x65, 0x21] 55
    = .ok "Parquet pages: page page page page page page page page!".toUTF8.toList := by decide +kernel
example : endRulesCheck [0xe1, 0x50, 0x61, 0x72, 0x71, 0x75, 0x65, 0x74, 0x20, 0x70, 0x61, 0x67, 0x65, 0x73, 0x3a,
    0x07, 0x00, 0x0f, 0x05, 0x00, 0x0c, 0x50, 0x70, 0x61, 0x67, 0x65, 0x21] = true := by decide +kernel
example : encode [⟨[0x41], 1, 4⟩] [] = [0x10, 0x41, 0x01, 0x00, 0x00] := by decide +kernel
example : exec [] [⟨[0x41], 1, 4⟩] [] = some [0x41, 0x41, 0x41, 0x41, 0x41] := by decide +kernel
example : parse [0x10, 0x41, 0x01, 0x00, 0x00] = some ([⟨[0x41], 1, 4⟩], []) := by decide +kernel

end Carquet.Spec.Lz4
