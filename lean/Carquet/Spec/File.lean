import Carquet.Spec.File.Types
import Carquet.Spec.File.Meta
import Carquet.Spec.File.Codec
import Carquet.Spec.File.Read
/-
Whole-file Spec layer: `Spec.File.Table`, the independent reader `Spec.File.read`
(File/Read.lean) and the reference writer `Spec.File.write` (File/Write.lean, imported by its
users directly so that readers of carquet-written files do not depend on it).
-/
