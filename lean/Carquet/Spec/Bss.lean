/-
BYTE_STREAM_SPLIT (= 9), written from the Parquet "Encodings" document:

  "This encoding does not reduce the size of the data but can lead to a significantly better
   compression ratio [...].  The encoding creates K byte-streams of length N where K is the size
   in bytes of the data type and N is the number of elements in the data sequence.  The bytes of
   each value are scattered to the corresponding streams: the 0-th byte goes to the 0-th stream,
   the 1-st byte goes to the 1-st stream and so on.  The streams are concatenated in the
   following order: 0-th stream, 1-st stream, etc."

A value is its `K`-byte little-endian PLAIN image (a `List UInt8` of length `K`): FLOAT K = 4,
DOUBLE K = 8, INT32/INT64/FIXED_LEN_BYTE_ARRAY K = the type's width.  The encoder is a
transposition by heads and tails, the decoder cuts the data into `K` streams and zips them back;
neither uses index arithmetic of the form `b * count + i` (which is what carquet's loops do).
-/
namespace Carquet.Spec.Bss

/-- The first byte of every value: one stream. -/
def heads (vals : List (List UInt8)) : List UInt8 := vals.filterMap List.head?

/-- Every value without its first byte. -/
def tails (vals : List (List UInt8)) : List (List UInt8) := vals.map List.tail

/-- `k` streams, concatenated: stream 0 holds byte 0 of every value, and so on. -/
def encode : Nat → List (List UInt8) → List UInt8
  | 0, _ => []
  | k + 1, vals => heads vals ++ encode k (tails vals)

/-- Cut `data` into `k` consecutive streams of `n` bytes. -/
def streams : Nat → Nat → List UInt8 → List (List UInt8)
  | 0, _, _ => []
  | k + 1, n, data => data.take n :: streams k n (data.drop n)

/-- Put one byte in front of each value (`zipWith cons`). -/
def consAll : List UInt8 → List (List UInt8) → List (List UInt8)
  | b :: bs, v :: vs => (b :: v) :: consAll bs vs
  | _, _ => []

/-- Zip the streams back into values: `n` values of `k` bytes. -/
def unsplit (n : Nat) : List (List UInt8) → List (List UInt8)
  | [] => List.replicate n []
  | s :: ss => consAll s (unsplit n ss)

/-- Decode `n` values of `k` bytes; `none` when fewer than `k * n` bytes are present. -/
def decode (k n : Nat) (data : List UInt8) : Option (List (List UInt8)) :=
  if data.length < k * n then none else some (unsplit n (streams k n data))

-- the example of the format document: three 4-byte values AA BB CC DD, 00 11 22 33, A3 B4 C5 D6
example : encode 4 [[0xAA, 0xBB, 0xCC, 0xDD], [0x00, 0x11, 0x22, 0x33], [0xA3, 0xB4, 0xC5, 0xD6]] =
    [0xAA, 0x00, 0xA3, 0xBB, 0x11, 0xB4, 0xCC, 0x22, 0xC5, 0xDD, 0x33, 0xD6] := by decide
example : decode 4 3 [0xAA, 0x00, 0xA3, 0xBB, 0x11, 0xB4, 0xCC, 0x22, 0xC5, 0xDD, 0x33, 0xD6] =
    some [[0xAA, 0xBB, 0xCC, 0xDD], [0x00, 0x11, 0x22, 0x33], [0xA3, 0xB4, 0xC5, 0xD6]] := by decide
example : decode 4 3 [0xAA, 0x00, 0xA3, 0xBB, 0x11, 0xB4, 0xCC, 0x22, 0xC5, 0xDD, 0x33] = none := by decide
example : decode 4 0 [] = some [] := by decide

end Carquet.Spec.Bss
