/-
PLAIN encoding, written from the Parquet "Encodings" document (Plain: PLAIN = 0):

  BOOLEAN               bit-packed, LSB first
  INT32 / INT64         4 / 8 bytes little endian
  INT96                 12 bytes little endian (deprecated type)
  FLOAT / DOUBLE        4 / 8 bytes IEEE little endian  (handled as bit patterns: never `Float`)
  BYTE_ARRAY            length in 4 bytes little endian followed by the bytes
  FIXED_LEN_BYTE_ARRAY  the bytes

Values are numbers (`Nat` below `256^k`) or byte strings; there is an independent encoder and an
independent decoder for every type.  Nothing here is shared with carquet's code or with
`Carquet.Impl.Plain`.
-/
namespace Carquet.Spec.Plain

/-! ### little endian numbers -/

/-- The `k` low-order bytes of `n`, least significant first. -/
def leBytes : Nat → Nat → List UInt8
  | 0, _ => []
  | k + 1, n => UInt8.ofNat (n % 256) :: leBytes k (n / 256)

/-- The number whose little-endian representation is `bs`. -/
def ofLeBytes : List UInt8 → Nat
  | [] => 0
  | b :: bs => b.toNat + 256 * ofLeBytes bs

/-! ### fixed-width numeric types (INT32, INT64, INT96, FLOAT and DOUBLE as bit patterns) -/

/-- `k`-byte little-endian values, back to back. -/
def encodeFixed (k : Nat) (vs : List Nat) : List UInt8 :=
  vs.flatMap (leBytes k)

/-- Read `count` values of `k` bytes; `none` when the stream is too short.  Returns the values and
the unread rest of the stream. -/
def decodeFixed (k : Nat) : Nat → List UInt8 → Option (List Nat × List UInt8)
  | 0, bs => some ([], bs)
  | count + 1, bs =>
    if bs.length < k then none
    else match decodeFixed k count (bs.drop k) with
      | none => none
      | some (vs, rest) => some (ofLeBytes (bs.take k) :: vs, rest)

/-! ### BOOLEAN: bit-packed, LSB first -/

/-- Value of a group of at most 8 bits, the first bit being the least significant. -/
def bitsVal : List Bool → Nat
  | [] => 0
  | b :: bs => (if b then 1 else 0) + 2 * bitsVal bs

/-- Eight values per byte, first value in bit 0; the unused high bits of the last byte are 0. -/
def encodeBool : List Bool → List UInt8
  | b0 :: b1 :: b2 :: b3 :: b4 :: b5 :: b6 :: b7 :: rest =>
      UInt8.ofNat (bitsVal [b0, b1, b2, b3, b4, b5, b6, b7]) :: encodeBool rest
  | [] => []
  | short => [UInt8.ofNat (bitsVal short)]

/-- The eight bits of a byte, least significant first. -/
def byteBits (b : UInt8) : List Bool :=
  [b.toNat % 2 = 1, b.toNat / 2 % 2 = 1, b.toNat / 4 % 2 = 1, b.toNat / 8 % 2 = 1,
   b.toNat / 16 % 2 = 1, b.toNat / 32 % 2 = 1, b.toNat / 64 % 2 = 1, b.toNat / 128 % 2 = 1]

/-- First `count` bits of the stream (whatever the padding bits are); `none` when there are
fewer than `count` bits. -/
def decodeBool (bs : List UInt8) (count : Nat) : Option (List Bool) :=
  if bs.length * 8 < count then none else some ((bs.flatMap byteBits).take count)

/-- Number of bytes of a bit-packed run of `count` booleans. -/
def boolBytes (count : Nat) : Nat := (count + 7) / 8

/-! ### BYTE_ARRAY: `<4-byte little-endian length> <bytes>` per value -/

def encodeByteArray (vs : List (List UInt8)) : List UInt8 :=
  vs.flatMap (fun v => leBytes 4 v.length ++ v)

/-- Read `count` length-prefixed values; `none` when a prefix or a body is cut short. -/
def decodeByteArray : Nat → List UInt8 → Option (List (List UInt8) × List UInt8)
  | 0, bs => some ([], bs)
  | count + 1, bs =>
    if bs.length < 4 then none
    else if (bs.drop 4).length < ofLeBytes (bs.take 4) then none
    else match decodeByteArray count ((bs.drop 4).drop (ofLeBytes (bs.take 4))) with
      | none => none
      | some (vs, rest) => some ((bs.drop 4).take (ofLeBytes (bs.take 4)) :: vs, rest)

/-! ### FIXED_LEN_BYTE_ARRAY: the bytes, back to back -/

def encodeFlba (vs : List (List UInt8)) : List UInt8 := vs.flatten

def decodeFlba (k : Nat) : Nat → List UInt8 → Option (List (List UInt8) × List UInt8)
  | 0, bs => some ([], bs)
  | count + 1, bs =>
    if bs.length < k then none
    else match decodeFlba k count (bs.drop k) with
      | none => none
      | some (vs, rest) => some (bs.take k :: vs, rest)

/-! ### tests of the transcription (examples from the format documentation / hand computed) -/

example : encodeFixed 4 [1, 0x12345678, 0xFFFFFFFF] =
    [1, 0, 0, 0, 0x78, 0x56, 0x34, 0x12, 0xFF, 0xFF, 0xFF, 0xFF] := by decide
example : decodeFixed 4 2 [1, 0, 0, 0, 0x78, 0x56, 0x34, 0x12, 9] = some ([1, 0x12345678], [9]) := by
  decide
-- 1.0f = 0x3F800000, -0.0 (double) = 0x8000000000000000
example : encodeFixed 4 [0x3F800000] = [0, 0, 0x80, 0x3F] := by decide
example : encodeFixed 8 [0x8000000000000000] = [0, 0, 0, 0, 0, 0, 0, 0x80] := by decide
-- true,false,true,true,false,false,false,false,true  ->  0b00001101, 0b00000001
example : encodeBool [true, false, true, true, false, false, false, false, true] = [0x0D, 0x01] := by
  decide
example : decodeBool [0x0D, 0xFF] 9 = some [true, false, true, true, false, false, false, false, true] := by
  decide
example : decodeBool [0x0D] 9 = none := by decide
-- "ab", "" -> 02 00 00 00 61 62 00 00 00 00
example : encodeByteArray [[0x61, 0x62], []] = [2, 0, 0, 0, 0x61, 0x62, 0, 0, 0, 0] := by decide
example : decodeByteArray 2 [2, 0, 0, 0, 0x61, 0x62, 0, 0, 0, 0] = some ([[0x61, 0x62], []], []) := by
  decide
example : decodeByteArray 1 [3, 0, 0, 0, 0x61, 0x62] = none := by decide

end Carquet.Spec.Plain
