/-
Scalar definitions of the vectorised kernels of `src/simd/` — the reference of property C15
("the outputs equal those of the scalar definition").  Written as list functions from what each
kernel is documented to compute (and what the scalar fallbacks in `dispatch.c` mean); no
blocking, no vectors.  Integer arithmetic wraps at the element width (`BitVec`).
-/
namespace Carquet.Spec.Kernels

/-! ### prefix sums (delta decoding): `out[i] = initial + v[0] + … + v[i]`, wrapping at `w` bits -/

def prefixSum {w : Nat} (init : BitVec w) : List (BitVec w) → List (BitVec w)
  | [] => []
  | x :: xs => (init + x) :: prefixSum (init + x) xs

/-! ### dictionary gather: `out[i] = dict[idx[i]]`; an index outside the dictionary is outside the
kernel's domain (`none`) -/

def gather {α : Type} (dict : List α) (idx : List Nat) : Option (List α) :=
  idx.mapM (fun i => dict[i]?)

/-! ### BYTE_STREAM_SPLIT for `k`-byte values: stream `b` holds byte `b` (little-endian) of every
value; the `k` streams are concatenated -/

/-- byte `b` of a `8k`-bit little-endian value -/
def byteOf {k : Nat} (v : BitVec (8 * k)) (b : Nat) : UInt8 :=
  UInt8.ofNat ((v >>> (8 * b)).toNat % 256)

def bssEncode {k : Nat} (vals : List (BitVec (8 * k))) : List UInt8 :=
  (List.range k).flatMap fun b => vals.map fun v => byteOf v b

/-- little-endian value of a byte string -/
def leValue (k : Nat) (bytes : List UInt8) : BitVec (8 * k) :=
  BitVec.ofNat (8 * k) (bytes.foldr (fun b acc => b.toNat + 256 * acc) 0)

/-- value `i` is assembled from byte `i` of each of the `k` streams of `n` bytes; the input must
consist of exactly `k` streams -/
def bssDecode (k n : Nat) (data : List UInt8) : Option (List (BitVec (8 * k))) :=
  if data.length = k * n then
    some ((List.range n).map fun i => leValue k ((List.range k).map fun b => data.getD (b * n + i) 0))
  else none

/-! ### booleans: bit `i % 8` of byte `i / 8` (LSB first) -/

/-- the eight flags of a byte, bit 0 first, each as a 0/1 byte -/
def bitsOfByte (x : UInt8) : List UInt8 :=
  (List.range 8).map fun j => if x.toNat.testBit j then 1 else 0

/-- expand every byte into its eight flags and keep the first `count` -/
def unpackBools (bytes : List UInt8) (count : Nat) : Option (List UInt8) :=
  if count ≤ 8 * bytes.length then some ((bytes.flatMap bitsOfByte).take count) else none

/-- up to eight flags, first flag in bit 0 -/
def packByte : List Bool → UInt8
  | [] => 0
  | b :: bs => (if b then 1 else 0) + 2 * packByte bs

/-- pack flags LSB first, eight per byte; the last byte is zero padded -/
def packBits : List Bool → List UInt8
  | a :: b :: c :: d :: e :: f :: g :: h :: rest => packByte [a, b, c, d, e, f, g, h] :: packBits rest
  | [] => []
  | short => [packByte short]

/-- a byte counts as `true` iff it is non-zero (the documented domain is {0,1}) -/
def packBools (xs : List UInt8) : List UInt8 := packBits (xs.map (· != 0))

/-! ### run-length search: number of leading elements equal to the first one -/

/-- index of the first element satisfying `p`, the length if there is none -/
def firstIdx {α : Type} (p : α → Bool) : List α → Nat
  | [] => 0
  | x :: xs => if p x then 0 else firstIdx p xs + 1

def findRunLength {w : Nat} : List (BitVec w) → Nat
  | [] => 0
  | x :: xs => firstIdx (· != x) (x :: xs)

/-! ### definition levels (signed 16-bit) -/

def countNonNulls (levels : List (BitVec 16)) (maxDef : BitVec 16) : Nat :=
  (levels.filter (· == maxDef)).length

/-- bit set = null = level below the maximum (signed comparison); LSB first, zero padded -/
def buildNullBitmap (levels : List (BitVec 16)) (maxDef : BitVec 16) : List UInt8 :=
  packBits (levels.map fun l => l.slt maxDef)

def fillDefLevels (count : Nat) (value : BitVec 16) : List (BitVec 16) := List.replicate count value

/-! ### LZ77 match copy / match length -/

/-- copy `len` bytes from `offset` bytes back, byte by byte (so the copy may overlap its own
output); `window` = the `offset` bytes preceding the destination -/
def matchCopy : List UInt8 → Nat → List UInt8
  | _, 0 => []
  | [], _ + 1 => []
  | h :: t, n + 1 => h :: matchCopy (t ++ [h]) n

/-- length of the common prefix -/
def commonPrefix : List UInt8 → List UInt8 → Nat
  | a :: as, b :: bs => if a = b then commonPrefix as bs + 1 else 0
  | _, _ => 0

/-- `match = buf`, `p = buf + off`, `limit = buf + |buf|` -/
def matchLength (buf : List UInt8) (off : Nat) : Nat := commonPrefix (buf.drop off) buf

/-! ### CRC-32C (Castagnoli): reflected polynomial 0x82F63B78, init and final xor 0xFFFFFFFF -/

def crc32cPoly : BitVec 32 := 0x82F63B78#32

def crcStep1 (c : BitVec 32) : BitVec 32 :=
  if c.getLsbD 0 then (c >>> 1) ^^^ crc32cPoly else c >>> 1

def crcStep8 (c : BitVec 32) : BitVec 32 :=
  crcStep1 (crcStep1 (crcStep1 (crcStep1 (crcStep1 (crcStep1 (crcStep1 (crcStep1 c)))))))

def crcByte (c : BitVec 32) (b : UInt8) : BitVec 32 := crcStep8 (c ^^^ (b.toBitVec.setWidth 32))

/-- incremental form (`crc` is the finished checksum of what came before; 0 to start) -/
def crc32c (crc : BitVec 32) (data : List UInt8) : BitVec 32 :=
  ~~~ (data.foldl crcByte (~~~ crc))

/-! ### fixed-width bit unpacking (Parquet bit packing): value `j` = bits `[j*w, (j+1)*w)` of the
little-endian bit stream -/

def bitAt (bytes : List UInt8) (i : Nat) : Bool := (bytes.getD (i / 8) 0).toNat.testBit (i % 8)

def bitUnpack (w n : Nat) (bytes : List UInt8) : Option (List Nat) :=
  if w * n ≤ 8 * bytes.length then
    some ((List.range n).map fun j =>
      (List.range w).foldr (fun b acc => (if bitAt bytes (j * w + b) then 1 else 0) + 2 * acc) 0)
  else none

/-! ### memset / memcpy helpers -/

def memset (n : Nat) (v : UInt8) : List UInt8 := List.replicate n v
def memcpy (src : List UInt8) : List UInt8 := src

-- Known answers (tests of the transcription, not proofs).
example : crc32c 0 [0x31,0x32,0x33,0x34,0x35,0x36,0x37,0x38,0x39] = 0xE3069283#32 := by decide +kernel
example : prefixSum 5#32 [1#32, 2#32, 0xFFFFFFFF#32] = [6#32, 8#32, 7#32] := by decide
example : packBools [1, 0, 1, 1, 0, 0, 0, 0, 1] = [0x0D, 0x01] := by decide
example : unpackBools [0x0D, 0x01] 9 = some [1, 0, 1, 1, 0, 0, 0, 0, 1] := by decide
example : bssEncode (k := 4) [0x04030201#32, 0x0D0C0B0A#32] = [1, 0x0A, 2, 0x0B, 3, 0x0C, 4, 0x0D] := by decide
example : bssDecode 4 2 [1, 0x0A, 2, 0x0B, 3, 0x0C, 4, 0x0D] = some [0x04030201#32, 0x0D0C0B0A#32] := by decide
example : findRunLength [7#32, 7#32, 7#32, 8#32, 7#32] = 3 := by decide
example : matchCopy [0x61, 0x62] 5 = [0x61, 0x62, 0x61, 0x62, 0x61] := by decide
example : matchLength [1, 2, 3, 1, 2, 4] 3 = 2 := by decide
example : buildNullBitmap [1#16, 0#16, 1#16] 1#16 = [0x02] := by decide
example : bitUnpack 4 4 [0x21, 0x43] = some [1, 2, 3, 4] := by decide

end Carquet.Spec.Kernels
