import Carquet.Spec.File.Read
/-
The reference writer: a specification-following Parquet writer that makes every *choice* the
format leaves open according to a `Layout` — so that files no carquet writer ever produces can
be generated: dictionary pages (with or without `dictionary_page_offset`), any page split,
level and index streams in any legal mix of RLE and bit-packed runs (`RleHybrid.encodeWith`),
all physical types, nested schemas, optional CRCs and statistics, unknown Thrift fields of
every wire type in short or long header form, codecs UNCOMPRESSED / SNAPPY (any op list) /
LZ4 / LZ4_RAW (any sequence list) / GZIP (stored blocks) / ZSTD (raw and RLE blocks).

It also writes, on request, features the format defines but carquet does not claim to read
(data page v2, other value encodings, BIT_PACKED levels, codec tags LZO / BROTLI / unknown), so
that "rejected with an error, never decoded to wrong values" can be tested.

The writer follows the layout; it never searches.  Choices that depend on the data (run
boundaries, Snappy ops, LZ4 sequences) are computed by the *generator* (Driver/Gen/RefFiles)
and only checked here: a layout that does not fit the table is not admissible (`none`).
-/
namespace Carquet.Spec.File
open Carquet.Spec Carquet.Spec.Thrift

/-! ### Thrift values in a chosen header form -/

structure ThriftForm where
  /-- 0: short field headers whenever legal; 1: always the long form; k ≥ 2: long for ids divisible by k -/
  fieldForm : Nat := 0
  /-- 0: short list headers whenever legal; 1: always long; k ≥ 2: long for lengths divisible by k -/
  listForm : Nat := 0
  /-- bool lists with element-type nibble 1 and `false` elements written as 0 -/
  boolAlt : Bool := false
  deriving DecidableEq, Repr, Inhabited

def ThriftForm.longField (F : ThriftForm) (id : Int) : Bool :=
  F.fieldForm == 1 || (decide (F.fieldForm ≥ 2) && id.toNat % F.fieldForm == 0)
def ThriftForm.longList (F : ThriftForm) (n : Nat) : Bool :=
  F.listForm == 1 || (decide (F.listForm ≥ 2) && n % F.listForm == 0)

def fieldHdrF (F : ThriftForm) (last id : Int) (code : Nat) : Bytes :=
  if F.longField id then longFieldHdr id code else fieldHdr last id code

def elemCodeF (F : ThriftForm) (et : TType) : Nat := if et = .bool ∧ F.boolAlt then 1 else et.code

def listHdrF (F : ThriftForm) (et : TType) (n : Nat) : Bytes :=
  if F.longList n then longListHdr (elemCodeF F et) n
  else if n < 15 then shortListHdr (elemCodeF F et) n else longListHdr (elemCodeF F et) n

mutual
def encodeValF (F : ThriftForm) : TVal → Bytes
  | .bool b => [if b then 1 else if F.boolAlt then 0 else 2]
  | .i8 v => [byteOf v]
  | .i16 v => uleb (zigzag v)
  | .i32 v => uleb (zigzag v)
  | .i64 v => uleb (zigzag v)
  | .double bits => Thrift.leBytes 8 bits
  | .binary bs => uleb bs.length ++ bs
  | .list et xs => listHdrF F et xs.length ++ encodeElemsF F xs
  | .set et xs => listHdrF F et xs.length ++ encodeElemsF F xs
  | .map [] => [0]
  | .map ((k, v) :: r) => uleb (r.length + 1) ++ UInt8.ofNat (k.ty.code * 16 + v.ty.code) :: encodeKVsF F ((k, v) :: r)
  | .struct fs => encodeFieldsF F 0 fs ++ [0]
  | .uuid bs => bs
def encodeElemsF (F : ThriftForm) : List TVal → Bytes
  | [] => []
  | x :: r => encodeValF F x ++ encodeElemsF F r
def encodeKVsF (F : ThriftForm) : List (TVal × TVal) → Bytes
  | [] => []
  | (k, v) :: r => encodeValF F k ++ encodeValF F v ++ encodeKVsF F r
def encodeFieldsF (F : ThriftForm) : Int → List (Int × TVal) → Bytes
  | _, [] => []
  | last, (id, .bool b) :: r => fieldHdrF F last id (fieldCode (.bool b)) ++ encodeFieldsF F id r
  | last, (id, v) :: r => fieldHdrF F last id (fieldCode v) ++ encodeValF F v ++ encodeFieldsF F id r
end

/-! ### layout -/

/-- how the body of a page is compressed; the codec tag follows from the plan -/
inductive CompPlan where
  | none
  | snappy (ops : List Snappy.Op)
  | lz4 (tag : Nat) (seqs : List Lz4.Seq) (last : Bytes)     -- tag 5 (LZ4, raw block) or 7 (LZ4_RAW)
  | gzip (blockSize : Nat) (name : Option Bytes)
  | zstd (fcs : Nat) (plan : List ZBlock)
  deriving Repr, Inhabited

def CompPlan.codec : CompPlan → Nat
  | .none => 0 | .snappy _ => 1 | .gzip _ _ => 2 | .lz4 tag _ _ => tag | .zstd _ _ => 6

/-- which members of `Statistics` a page header carries -/
structure StatsSel where
  nullCount : Bool := false
  minMaxValue : Bool := false       -- fields 5 / 6
  minMaxOld : Bool := false         -- deprecated fields 1 / 2
  deriving DecidableEq, Repr, Inhabited

def StatsSel.any (s : StatsSel) : Bool := s.nullCount || s.minMaxValue || s.minMaxOld

inductive ValueEnc where
  | plain
  /-- dictionary indices: encoding tag (2 PLAIN_DICTIONARY or 8 RLE_DICTIONARY), bit width, runs -/
  | dict (tag : Nat) (width : Nat) (runs : List RleHybrid.Choice)
  /-- a value encoding outside carquet's claimed set: tag and ready-made payload -/
  | other (tag : Nat) (payload : Bytes)
  deriving Inhabited

inductive PageKind where
  | v1
  | v2                    -- DATA_PAGE_V2 (outside carquet's claimed set)
  | v1BitPackedLevels     -- v1 with the deprecated BIT_PACKED level encoding (outside the claimed set)
  deriving DecidableEq, Repr, Inhabited

/-- Deliberate damage (test files whose headers lie or whose streams are cut): NOT part of a
specification-following layout — a layout is sound only if every `Damage` is the default. -/
structure Damage where
  usizeDelta : Int := 0          -- header uncompressed_page_size = true size + delta
  defCut : Nat := 0              -- the definition-level stream loses its last bytes (length prefix adjusted)
  valCut : Nat := 0              -- the value section loses its last bytes
  widthByte : Option Nat := none -- replaces the bit-width byte of a dictionary-index section
  countDelta : Int := 0          -- dictionary page: header num_values = entries + delta
  deriving DecidableEq, Repr, Inhabited

structure PageLayout where
  count : Nat                                   -- entries in this page
  kind : PageKind := .v1
  repRuns : List RleHybrid.Choice := []
  defRuns : List RleHybrid.Choice := []
  values : ValueEnc := .plain
  comp : CompPlan := .none
  crc : Bool := false
  stats : StatsSel := {}
  form : ThriftForm := {}
  hdrExtra : Fields := []
  memberExtra : Fields := []
  statsExtra : Fields := []
  damage : Damage := {}
  deriving Inhabited

structure DictLayout where
  values : List Bytes                            -- the dictionary, in page order
  encoding : Nat := 0                            -- 0 PLAIN or 2 PLAIN_DICTIONARY
  offsetPresent : Bool := true                   -- write ColumnMetaData.dictionary_page_offset
  sorted : Option Bool := none
  comp : CompPlan := .none
  crc : Bool := false
  form : ThriftForm := {}
  hdrExtra : Fields := []
  memberExtra : Fields := []
  damage : Damage := {}
  deriving Repr, Inhabited

structure ChunkLayout where
  codec : Nat := 0                               -- every page plan of the chunk must have this codec
  codecTag : Option Nat := none                  -- tag written instead of `codec` (unsupported-codec files)
  dict : Option DictLayout := none
  pages : List PageLayout := []
  gapBefore : Bytes := []                        -- bytes between the previous chunk and this one
  chunkStats : Bool := false                     -- ColumnMetaData.statistics (null_count, min_value, max_value)
  metaExtra : Fields := []
  chunkExtra : Fields := []
  deriving Inhabited

structure Layout where
  rowGroups : List (List ChunkLayout) := []
  version : Int := 1
  createdBy : Option Bytes := none
  form : ThriftForm := {}
  footerExtra : Fields := []
  schemaExtra : Fields := []
  rowGroupExtra : Fields := []
  deriving Inhabited

/-! ### values, levels, statistics -/

def validValue (leaf : LeafInfo) (v : Bytes) : Bool :=
  match leaf.ptype with
  | .boolean => v == [0] || v == [1]
  | .flba => v.length == leaf.typeLength
  | .byteArray => decide (v.length < 2 ^ 31)
  | t => decide (Order.Valid t v)

/-- PLAIN encoding of bit-pattern values -/
def plainEncode (leaf : LeafInfo) (vs : List Bytes) : Bytes :=
  match leaf.ptype with
  | .boolean => Plain.encodeBool (vs.map (fun v => v == [1]))
  | .byteArray => Plain.encodeByteArray vs
  | _ => Plain.encodeFlba vs

def prefixed (bs : Bytes) : Bytes := leBytes 4 bs.length ++ bs

def levelBytes (maxLevel : Nat) (runs : List RleHybrid.Choice) (ls : List Nat) : Option Bytes :=
  if maxLevel = 0 then some []
  else RleHybrid.encodeWith (levelWidth maxLevel) runs ls

/-- the deprecated BIT_PACKED level encoding: `w` bits per level, most significant bit first,
bytes filled from the most significant bit; no length prefix -/
def msbBits : Nat → Nat → List Bool
  | 0, _ => []
  | w + 1, v => (v / 2 ^ w % 2 == 1) :: msbBits w v
def msbByte (bits : List Bool) : UInt8 :=
  UInt8.ofNat ((bits ++ List.replicate (8 - bits.length) false).foldl (fun a b => 2 * a + (if b then 1 else 0)) 0)
def msbBytes : Nat → List Bool → Bytes
  | 0, _ => []
  | fuel + 1, bits => if bits = [] then [] else msbByte (bits.take 8) :: msbBytes fuel (bits.drop 8)
def bitPackedLevels (maxLevel : Nat) (ls : List Nat) : Bytes :=
  if maxLevel = 0 then []
  else msbBytes (ls.length * levelWidth maxLevel + 1) (ls.flatMap (msbBits (levelWidth maxLevel)))

def minOf (t : Order.PType) : List Bytes → Option Bytes
  | [] => none
  | v :: r => some (r.foldl (fun m x => if Order.tcmp t x m == .lt then x else m) v)
def maxOf (t : Order.PType) : List Bytes → Option Bytes
  | [] => none
  | v :: r => some (r.foldl (fun m x => if Order.tcmp t x m == .gt then x else m) v)

def statsFor (leaf : LeafInfo) (sel : StatsSel) (dls : List Nat) (vals : List Bytes) : Option StatsMeta :=
  if !sel.any then none
  else some
    ⟨if sel.minMaxOld then maxOf leaf.ptype vals else none,
     if sel.minMaxOld then minOf leaf.ptype vals else none,
     if sel.nullCount then some ((dls.filter (· < leaf.maxDef)).length : Int) else none,
     if sel.minMaxValue then maxOf leaf.ptype vals else none,
     if sel.minMaxValue then minOf leaf.ptype vals else none⟩

/-! ### compression -/

/-- compressed bytes of `body` under the plan; `none` if the plan does not reproduce the body -/
def compressWith (plan : CompPlan) (body : Bytes) : Option Bytes :=
  match plan with
  | .none => some body
  | .snappy ops => if Snappy.runOps ops [] = some body then Snappy.encode ops else none
  | .lz4 _ seqs last => if Lz4.exec [] seqs last = some body then some (Lz4.encode seqs last) else none
  | .gzip k name => some (gzipStored k name body)
  | .zstd f plan => zstdRaw f plan body

def oracleEntry (plan : CompPlan) (comp body : Bytes) : Oracle :=
  match plan with
  | .gzip _ _ => [(comp, body)]
  | .zstd _ _ => [(comp, body)]
  | _ => []

/-- CRC-32 as the signed 32-bit integer a Thrift `i32` holds -/
def crcField (bs : Bytes) : Int :=
  if (Crc32.crc32 bs).toNat < 2 ^ 31 then ((Crc32.crc32 bs).toNat : Int)
  else ((Crc32.crc32 bs).toNat : Int) - 4294967296

/-! ### pages -/

structure Written where
  bytes : Bytes
  oracle : Oracle
  usize : Nat               -- page headers + uncompressed bodies

/-- a page: header, stored body, length of the uncompressed body -/
def mkPage (hdr stored : Bytes) (ulen : Nat) (oracle : Oracle) : Written := ⟨hdr ++ stored, oracle, hdr.length + ulen⟩

def valueEncTag : ValueEnc → Int
  | .plain => 0
  | .dict tag _ _ => tag
  | .other tag _ => tag

/-- the value section of a data page -/
def valueBytes (leaf : LeafInfo) (dict : Option (List Bytes)) (enc : ValueEnc) (vals : List Bytes) : Option Bytes :=
  match enc with
  | .plain => some (plainEncode leaf vals)
  | .other _ payload => some payload
  | .dict _ w runs =>
    match dict with
    | none => none
    | some d =>
      if w > 32 ∨ ¬ vals.all (fun v => d.contains v) then none
      else
        match RleHybrid.encodeWith w runs (vals.map (fun v => Dictionary.indexIn v d)) with
        | some bs => some (UInt8.ofNat w :: bs)
        | none => none

def levelEncTag (k : PageKind) : Int := if k = .v1BitPackedLevels then 4 else 3

def cutTail (k : Nat) (bs : Bytes) : Bytes := bs.take (bs.length - k)

def damageValues (d : Damage) (bs : Bytes) : Bytes :=
  cutTail d.valCut (match d.widthByte, bs with
    | some w, _ :: r => UInt8.ofNat w :: r
    | _, _ => bs)

def damagedSize (d : Damage) (n : Nat) : Nat := (Int.ofNat n + d.usizeDelta).toNat

/-- body of a v1 data page: length-prefixed RLE level streams (or the deprecated BIT_PACKED ones), values -/
def v1Body (leaf : LeafInfo) (k : PageKind) (es : List Entry) (repB defB valB : Bytes) : Bytes :=
  (if k = .v1BitPackedLevels then
     bitPackedLevels leaf.maxRep (es.map (·.rep)) ++ bitPackedLevels leaf.maxDef (es.map (·.dl))
   else (if leaf.maxRep = 0 then [] else prefixed repB) ++ (if leaf.maxDef = 0 then [] else prefixed defB)) ++ valB

/-- one data page (header and body) holding `es` -/
def writeDataPage (leaf : LeafInfo) (dict : Option (List Bytes)) (pl : PageLayout) (es : List Entry) : Option Written :=
  match levelBytes leaf.maxRep pl.repRuns (es.map (·.rep)),
        (levelBytes leaf.maxDef pl.defRuns (es.map (·.dl))).map (cutTail pl.damage.defCut),
        (valueBytes leaf dict pl.values (es.filterMap (·.val))).map (damageValues pl.damage) with
  | some repB, some defB, some valB =>
    match pl.kind with
    | .v2 =>
      -- levels without length prefix and never compressed; values compressed
      match compressWith pl.comp valB with
      | none => none
      | some cv =>
        some (mkPage (encodeValF pl.form
            (pageHdrTV 3 (repB.length + defB.length + valB.length) (repB.length + defB.length + cv.length)
              (if pl.crc then some (crcField (repB ++ defB ++ cv)) else none) 8
              (.struct (withExtras
                [(1, .i32 es.length), (2, .i32 ((es.filter (fun e => e.val.isNone)).length)),
                 (3, .i32 (rowsOf leaf.maxRep es)), (4, .i32 (valueEncTag pl.values)),
                 (5, .i32 defB.length), (6, .i32 repB.length), (7, .bool (pl.comp.codec != 0))] pl.memberExtra))
              pl.hdrExtra)) (repB ++ defB ++ cv) (repB.length + defB.length + valB.length)
          (oracleEntry pl.comp cv valB))
    | k =>
      match compressWith pl.comp
          (v1Body leaf k es repB defB valB) with
      | none => none
      | some comp =>
        some (mkPage (encodeValF pl.form
            (pageHdrTV 0
              (damagedSize pl.damage (v1Body leaf k es repB defB valB).length)
              comp.length (if pl.crc then some (crcField comp) else none) 5
              (dataHdrTV ⟨es.length, valueEncTag pl.values, levelEncTag k, levelEncTag k,
                          statsFor leaf pl.stats (es.map (·.dl)) (es.filterMap (·.val))⟩ pl.statsExtra pl.memberExtra)
              pl.hdrExtra)) comp (v1Body leaf k es repB defB valB).length
          (oracleEntry pl.comp comp (v1Body leaf k es repB defB valB)))
  | _, _, _ => none

def writeDictPage (leaf : LeafInfo) (dl : DictLayout) : Option Written :=
  match compressWith dl.comp (plainEncode leaf dl.values) with
  | none => none
  | some comp =>
    some (mkPage (encodeValF dl.form
        (pageHdrTV 2 (plainEncode leaf dl.values).length comp.length (if dl.crc then some (crcField comp) else none) 7
          (dictHdrTV ⟨(Int.ofNat dl.values.length + dl.damage.countDelta).toNat, dl.encoding⟩ dl.sorted dl.memberExtra)
          dl.hdrExtra)) comp
      (plainEncode leaf dl.values).length (oracleEntry dl.comp comp (plainEncode leaf dl.values)))

/-- the data pages of a chunk: the entries are dealt out by the page counts -/
def writeDataPages (leaf : LeafInfo) (dict : Option (List Bytes)) : List PageLayout → List Entry → Option Written
  | [], es => if es = [] then some ⟨[], [], 0⟩ else none
  | pl :: r, es =>
    if es.length < pl.count then none
    else
      match writeDataPage leaf dict pl (es.take pl.count), writeDataPages leaf dict r (es.drop pl.count) with
      | some a, some b => some ⟨a.bytes ++ b.bytes, a.oracle ++ b.oracle, a.usize + b.usize⟩
      | _, _ => none

/-! ### chunks, row groups, file -/

def wellFormedEntry (leaf : LeafInfo) (e : Entry) : Bool :=
  decide (e.rep ≤ leaf.maxRep) && decide (e.dl ≤ leaf.maxDef) &&
  (match e.val with
   | some v => e.dl == leaf.maxDef && validValue leaf v
   | none => decide (e.dl < leaf.maxDef))

def wellFormedChunk (leaf : LeafInfo) (es : Chunk) : Bool :=
  es.all (wellFormedEntry leaf) && (match es with | e :: _ => e.rep == 0 | [] => true)

def usedEncodings (cl : ChunkLayout) : List Int :=
  ((match cl.dict with | some d => [(d.encoding : Int)] | none => []) ++ cl.pages.map (fun p => valueEncTag p.values) ++
   cl.pages.map (fun p => levelEncTag p.kind)).eraseDups

structure ChunkOut where
  bytes : Bytes               -- gap, then the chunk
  cmeta : TVal                -- the ColumnChunk struct
  oracle : Oracle
  endPos : Nat
  usize : Nat                 -- total_uncompressed_size: page headers + uncompressed page bodies

/-- one chunk placed at file offset `pos` (before its gap) -/
def writeChunk (leaf : LeafInfo) (cl : ChunkLayout) (es : Chunk) (pos : Nat) : Option ChunkOut :=
  if !wellFormedChunk leaf es || !(cl.pages.all (fun p => p.comp.codec == cl.codec)) ||
     !(match cl.dict with | some d => d.comp.codec == cl.codec && d.values.all (validValue leaf) | none => true) then none
  else
    match (match cl.dict with
           | none => some (⟨[], [], 0⟩ : Written)
           | some d => writeDictPage leaf d),
          writeDataPages leaf (cl.dict.map (·.values)) cl.pages es with
    | some dp, some pages =>
      some ⟨cl.gapBefore ++ dp.bytes ++ pages.bytes,
        columnChunkTV (pos + cl.gapBefore.length)
          (columnMetaTV
            ⟨ptypeCode leaf.ptype, usedEncodings cl, leaf.path.map strBytes, cl.codecTag.getD cl.codec, es.length,
             dp.usize + pages.usize, dp.bytes.length + pages.bytes.length,
             (match cl.dict with
              | some d => if d.offsetPresent then pos + cl.gapBefore.length + dp.bytes.length else pos + cl.gapBefore.length
              | none => pos + cl.gapBefore.length),
             (match cl.dict with
              | some d => if d.offsetPresent then some (pos + cl.gapBefore.length) else none
              | none => none)⟩
            (if cl.chunkStats then
               some (statsTV ⟨none, none, some ((es.filter (fun e => e.val.isNone)).length : Int),
                              maxOf leaf.ptype (es.filterMap (·.val)), minOf leaf.ptype (es.filterMap (·.val))⟩ [])
             else none)
            cl.metaExtra)
          cl.chunkExtra,
        dp.oracle ++ pages.oracle,
        pos + cl.gapBefore.length + dp.bytes.length + pages.bytes.length,
        dp.usize + pages.usize⟩
    | _, _ => none

structure GroupOut where
  bytes : Bytes
  metas : List TVal
  oracle : Oracle
  endPos : Nat
  usize : Nat                 -- Σ total_uncompressed_size of the chunks laid out

def writeChunks : List LeafInfo → List ChunkLayout → List Chunk → Nat → Option GroupOut
  | [], [], [], pos => some ⟨[], [], [], pos, 0⟩
  | leaf :: ls, cl :: cls, es :: ess, pos =>
    match writeChunk leaf cl es pos with
    | none => none
    | some c =>
      match writeChunks ls cls ess c.endPos with
      | none => none
      | some g => some ⟨c.bytes ++ g.bytes, c.cmeta :: g.metas, c.oracle ++ g.oracle, g.endPos, c.usize + g.usize⟩
  | _, _, _, _ => none

def groupRows (leaves : List LeafInfo) (g : RowGroup) : Nat :=
  match leaves, g.chunks with
  | l :: _, c :: _ => rowsOf l.maxRep c
  | _, _ => 0

def writeGroups (leaves : List LeafInfo) (extra : Fields) :
    List (List ChunkLayout) → List RowGroup → Nat → Option GroupOut
  | [], [], pos => some ⟨[], [], [], pos, 0⟩
  | cls :: r, g :: gs, pos =>
    if !(List.zipWith (fun (l : LeafInfo) c => rowsOf l.maxRep c == groupRows leaves g) leaves g.chunks).all id then none
    else
      match writeChunks leaves cls g.chunks pos with
      | none => none
      | some o =>
        match writeGroups leaves extra r gs o.endPos with
        | none => none
        | some rest =>
          some ⟨o.bytes ++ rest.bytes,
            -- RowGroup.total_byte_size: "Total byte size of all the uncompressed column data in this row group"
            rowGroupTV o.metas o.usize (groupRows leaves g) extra :: rest.metas,
            o.oracle ++ rest.oracle, rest.endPos, o.usize + rest.usize⟩
  | _, _, _ => none

/-- the file and the oracle table of its GZIP / ZSTD page bodies -/
def writeFull (t : Table) (l : Layout) : Option (Bytes × Oracle) :=
  match columnsOf t.schema with
  | .error _ => none
  | .ok leaves =>
    match writeGroups leaves l.rowGroupExtra l.rowGroups t.rowGroups 4 with
    | none => none
    | some g =>
      some (magic ++ g.bytes ++
        encodeValF l.form (fileMetaTV l.version ((Schema.flatten t.schema).map (fun e => schemaElementTV e l.schemaExtra))
          ((t.rowGroups.map (groupRows leaves)).sum) g.metas l.createdBy l.footerExtra) ++
        leBytes 4 (encodeValF l.form (fileMetaTV l.version ((Schema.flatten t.schema).map (fun e => schemaElementTV e l.schemaExtra))
          ((t.rowGroups.map (groupRows leaves)).sum) g.metas l.createdBy l.footerExtra)).length ++ magic,
        g.oracle)

/-- no deliberate damage anywhere -/
def Layout.sound (l : Layout) : Bool :=
  l.rowGroups.all (fun g => g.all (fun c =>
    c.pages.all (fun p => p.damage == {}) && (match c.dict with | some d => d.damage == {} | none => true)))

/-- the layout fits the table -/
def Admissible (t : Table) (l : Layout) : Prop := (writeFull t l).isSome

instance (t : Table) (l : Layout) : Decidable (Admissible t l) := by unfold Admissible; infer_instance

/-- **The reference writer**: the file for an admissible layout (no bytes otherwise). -/
def write (t : Table) (l : Layout) : Bytes :=
  match writeFull t l with
  | some p => p.1
  | none => []

/-- the GZIP / ZSTD page bodies of `write t l` with their contents -/
def writeOracle (t : Table) (l : Layout) : Oracle :=
  match writeFull t l with
  | some p => p.2
  | none => []

end Carquet.Spec.File
