import Carquet.Spec.File.Types
import Carquet.Spec.Thrift
import Carquet.Spec.ParquetThrift
/-
The metadata structures of a Parquet file as the independent reader needs them, and their
extraction from generic Thrift values (`Spec.Thrift.TVal`) with the REQUIRED-field rules of
parquet.thrift (`Spec.ParquetThrift` field tables): a struct must carry every required field,
every field whose id is in the table must have the table's type, fields with other ids are
ignored (that is what "unknown/extra Thrift fields" means for a reader).

Also the converse direction used by the reference writer: the Thrift value of each structure.
-/
namespace Carquet.Spec.File
open Carquet.Spec Carquet.Spec.Thrift Carquet.Spec.ParquetThrift

abbrev Fields := List (Int × TVal)

/-! ### strings -/

def strBytes (s : String) : Bytes := s.toUTF8.data.toList
def bytesStr (l : Bytes) : Option String := String.fromUTF8? (ByteArray.mk l.toArray)

/-! ### generic field access -/

def field? (fs : Fields) (id : Int) : Option TVal := (fs.find? (fun f => f.1 == id)).map (·.2)

/-- required fields present; known fields have the type parquet.thrift gives them -/
def knownTyped (s : StructSpec) (fs : Fields) : Bool :=
  fs.all (fun f => match s.find f.1 with
                   | some fsp => fsp.ty == f.2.ty
                   | none => true)

def checkStruct (s : StructSpec) (fs : Fields) : Except Reason Unit :=
  if !s.complete fs then .error (.missingField s.name)
  else if !knownTyped s fs then .error (.wrongFieldType s.name)
  else .ok ()

def intOf : TVal → Option Int
  | .i8 v => some v | .i16 v => some v | .i32 v => some v | .i64 v => some v | _ => none

def getInt (fs : Fields) (id : Int) : Option Int := (field? fs id).bind intOf

def getBin (fs : Fields) (id : Int) : Option Bytes :=
  match field? fs id with
  | some (.binary b) => some b
  | _ => none

def getStruct (fs : Fields) (id : Int) : Option Fields :=
  match field? fs id with
  | some (.struct g) => some g
  | _ => none

def getList (fs : Fields) (id : Int) : Option (List TVal) :=
  match field? fs id with
  | some (.list _ xs) => some xs
  | _ => none

def structsOf (what : String) : List TVal → Except Reason (List Fields)
  | [] => .ok []
  | .struct g :: r =>
    match structsOf what r with
    | .ok gs => .ok (g :: gs)
    | .error e => .error e
  | _ :: _ => .error (.wrongFieldType what)

/-- a required integer that must not be negative -/
def natField (what : String) (fs : Fields) (id : Int) : Except Reason Nat :=
  match getInt fs id with
  | none => .error (.missingField what)
  | some v => if v < 0 then .error (.negativeField what) else .ok v.toNat

def optNatField (what : String) (fs : Fields) (id : Int) : Except Reason (Option Nat) :=
  match getInt fs id with
  | none => .ok none
  | some v => if v < 0 then .error (.negativeField what) else .ok (some v.toNat)

/-! ### SchemaElement -/

def repOf : Option Int → Except Reason (Option Schema.Rep)
  | none => .ok none
  | some 0 => .ok (some .required)
  | some 1 => .ok (some .optional)
  | some 2 => .ok (some .repeated)
  | some _ => .error .badRepetition

/-! ### LogicalType (SchemaElement field 10)

A Thrift union is a struct value with EXACTLY ONE field (that is how every Thrift runtime reads it:
one field, then the stop byte).  Each member struct is checked like every other struct: all REQUIRED
fields of parquet.thrift present (DecimalType scale and precision, TimeType / TimestampType
isAdjustedToUTC and unit, IntType bitWidth and isSigned), known fields of the table's type, unknown
ids ignored.  A single member whose id the list of `Schema.Annotation` does not have (a newer
annotation) is accepted and yields no annotation; a TimeUnit that is not MILLIS / MICROS / NANOS is
rejected (the annotation could not be stated). -/

def getBool (fs : Fields) (id : Int) : Option Bool :=
  match field? fs id with
  | some (.bool b) => some b
  | _ => none

/-- union TimeUnit -/
def timeUnitOf (fs : Fields) : Except Reason Schema.AnnotTimeUnit :=
  match checkStruct timeUnit fs with
  | .error e => .error e
  | .ok () =>
    match fs with
    | [f] => if f.1 = 1 then .ok .millis else if f.1 = 2 then .ok .micros else if f.1 = 3 then .ok .nanos
             else .error .unknownTimeUnit
    | _ => .error (.unionNotOneMember "TimeUnit")

/-- DecimalType: (scale, precision), both REQUIRED -/
def decimalTypeOf (fs : Fields) : Except Reason (Int × Int) :=
  match checkStruct decimalType fs with
  | .error e => .error e
  | .ok () =>
    match getInt fs 1, getInt fs 2 with
    | some s, some p => .ok (s, p)
    | _, _ => .error (.missingField "DecimalType")

/-- TimeType / TimestampType: (isAdjustedToUTC, unit), both REQUIRED -/
def timeTypeOf (fs : Fields) : Except Reason (Bool × Schema.AnnotTimeUnit) :=
  match checkStruct timeType fs with
  | .error e => .error e
  | .ok () =>
    match getBool fs 1, getStruct fs 2 with
    | some utc, some u =>
      match timeUnitOf u with
      | .ok unit => .ok (utc, unit)
      | .error e => .error e
    | _, _ => .error (.missingField "TimeType / TimestampType")

/-- IntType: (bitWidth, isSigned), both REQUIRED -/
def intTypeOf (fs : Fields) : Except Reason (Int × Bool) :=
  match checkStruct intType fs with
  | .error e => .error e
  | .ok () =>
    match getInt fs 1, getBool fs 2 with
    | some bw, some sg => .ok (bw, sg)
    | _, _ => .error (.missingField "IntType")

/-- the member `id` of the LogicalType union with member struct `m` -/
def logicalMemberOf (id : Int) (m : Fields) : Except Reason (Option Schema.Annotation) :=
  if id = 1 then .ok (some .string) else if id = 2 then .ok (some .map) else if id = 3 then .ok (some .list)
  else if id = 4 then .ok (some .enum)
  else if id = 5 then (match decimalTypeOf m with
                       | .ok sp => .ok (some (.decimal sp.1 sp.2))
                       | .error e => .error e)
  else if id = 6 then .ok (some .date)
  else if id = 7 then (match timeTypeOf m with
                       | .ok t => .ok (some (.time t.1 t.2))
                       | .error e => .error e)
  else if id = 8 then (match timeTypeOf m with
                       | .ok t => .ok (some (.timestamp t.1 t.2))
                       | .error e => .error e)
  else if id = 10 then (match intTypeOf m with
                        | .ok t => .ok (some (.integer t.1 t.2))
                        | .error e => .error e)
  else if id = 11 then .ok (some .nullType) else if id = 12 then .ok (some .json) else if id = 13 then .ok (some .bson)
  else if id = 14 then .ok (some .uuid) else if id = 15 then .ok (some .float16) else .ok none

/-- union LogicalType: exactly one member, the member struct complete -/
def logicalTypeOf (fs : Fields) : Except Reason (Option Schema.Annotation) :=
  match checkStruct ParquetThrift.logicalType fs with
  | .error e => .error e
  | .ok () =>
    match fs with
    | [f] => (match f.2 with
              | .struct m => logicalMemberOf f.1 m
              | _ => .ok none)
    | _ => .error (.unionNotOneMember "LogicalType")

/-- field 10 of a SchemaElement (after `checkStruct`: a struct when present) -/
def optLogicalTypeOf (fs : Fields) : Except Reason (Option Schema.Annotation) :=
  match getStruct fs 10 with
  | none => .ok none
  | some u => logicalTypeOf u

/-! #### "complete per parquet.thrift", as a predicate on the union value alone (used to STATE what a
written footer satisfies; the reader above enforces it by construction) -/

/-- the struct of parquet.thrift behind member `id` of the LogicalType union: 5 DecimalType,
7 TimeType, 8 TimestampType, 10 IntType; every other member is a struct without fields -/
def memberSpec (id : Int) : StructSpec :=
  if id = 5 then decimalType else if id = 7 ∨ id = 8 then timeType else if id = 10 then intType else emptyStruct

/-- a TimeUnit union value: exactly one member, and it is MILLIS, MICROS or NANOS -/
def timeUnitComplete : Option TVal → Bool
  | some (.struct [(k, .struct _)]) => k == 1 || k == 2 || k == 3
  | _ => false

/-- **a LogicalType union value is complete per parquet.thrift**: exactly one member, of an id the union
has, a struct; every REQUIRED field of the member's struct present and every known field of the type
parquet.thrift gives it; the `unit` of a TIME / TIMESTAMP itself a one-member TimeUnit union -/
def logicalTypeComplete : Fields → Bool
  | [(id, .struct m)] =>
    (ParquetThrift.logicalType.find id).isSome && (memberSpec id).complete m && knownTyped (memberSpec id) m &&
    (if id = 7 ∨ id = 8 then timeUnitComplete (field? m 2) else true)
  | _ => false

def schemaElementOf (fs : Fields) : Except Reason Schema.Element := do
  checkStruct schemaElement fs
  let nameB ← match getBin fs 4 with | some b => pure b | none => throw (.missingField "SchemaElement")
  let name ← match bytesStr nameB with | some s => pure s | none => throw .badName
  let rep ← repOf (getInt fs 3)
  let pt ← optNatField "SchemaElement.type" fs 1
  let conv ← optNatField "SchemaElement.converted_type" fs 6
  let lt ← optLogicalTypeOf fs
  pure ⟨⟨name, rep, pt, (getInt fs 2).getD 0, conv, lt⟩, (getInt fs 5).getD 0⟩

def schemaElementsOf : List Fields → Except Reason (List Schema.Element)
  | [] => .ok []
  | g :: r => do
    let e ← schemaElementOf g
    let es ← schemaElementsOf r
    pure (e :: es)

/-! ### ColumnChunk / ColumnMetaData / RowGroup / FileMetaData -/

structure ColumnMeta where
  ptype : Nat
  encodings : List Int
  path : List Bytes
  codec : Nat
  numValues : Nat
  totalUncompressed : Nat
  totalCompressed : Nat
  dataPageOffset : Nat
  dictionaryPageOffset : Option Nat
  deriving DecidableEq, Repr

def intsOf : List TVal → List Int
  | [] => []
  | v :: r => (intOf v).getD 0 :: intsOf r

def binsOf : List TVal → List Bytes
  | [] => []
  | .binary b :: r => b :: binsOf r
  | _ :: r => [] :: binsOf r

def columnMetaOf (fs : Fields) : Except Reason ColumnMeta := do
  checkStruct columnMetaData fs
  let ty ← natField "ColumnMetaData.type" fs 1
  let codec ← natField "ColumnMetaData.codec" fs 4
  let nv ← natField "ColumnMetaData.num_values" fs 5
  let tu ← natField "ColumnMetaData.total_uncompressed_size" fs 6
  let tc ← natField "ColumnMetaData.total_compressed_size" fs 7
  let dpo ← natField "ColumnMetaData.data_page_offset" fs 9
  let dict ← optNatField "ColumnMetaData.dictionary_page_offset" fs 11
  pure ⟨ty, intsOf ((getList fs 2).getD []), binsOf ((getList fs 3).getD []), codec, nv, tu, tc, dpo, dict⟩

def columnChunkOf (fs : Fields) : Except Reason ColumnMeta := do
  checkStruct columnChunk fs
  match getStruct fs 3 with
  | none => throw .noColumnMetaData
  | some m => columnMetaOf m

def columnChunksOf : List Fields → Except Reason (List ColumnMeta)
  | [] => .ok []
  | g :: r => do
    let c ← columnChunkOf g
    let cs ← columnChunksOf r
    pure (c :: cs)

structure RowGroupMeta where
  columns : List ColumnMeta
  totalByteSize : Nat
  numRows : Nat
  deriving DecidableEq, Repr

def rowGroupOf (fs : Fields) : Except Reason RowGroupMeta := do
  checkStruct rowGroup fs
  let cols ← structsOf "RowGroup.columns" ((getList fs 1).getD [])
  let cms ← columnChunksOf cols
  let tb ← natField "RowGroup.total_byte_size" fs 2
  let nr ← natField "RowGroup.num_rows" fs 3
  pure ⟨cms, tb, nr⟩

def rowGroupsOf : List Fields → Except Reason (List RowGroupMeta)
  | [] => .ok []
  | g :: r => do
    let x ← rowGroupOf g
    let xs ← rowGroupsOf r
    pure (x :: xs)

structure FileMeta where
  version : Int
  schema : List Schema.Element
  numRows : Nat
  rowGroups : List RowGroupMeta
  deriving DecidableEq, Repr

def fileMetaOf (fs : Fields) : Except Reason FileMeta := do
  checkStruct fileMetaData fs
  let els ← structsOf "FileMetaData.schema" ((getList fs 2).getD [])
  let schema ← schemaElementsOf els
  let nr ← natField "FileMetaData.num_rows" fs 3
  let rgs ← structsOf "FileMetaData.row_groups" ((getList fs 4).getD [])
  let rowGroups ← rowGroupsOf rgs
  pure ⟨(getInt fs 1).getD 0, schema, nr, rowGroups⟩

/-- footer bytes → FileMetaData: one compact-protocol struct filling the footer exactly -/
def parseFooter (footer : Bytes) : Except Reason FileMeta :=
  match decodeStruct footer with
  | some (.struct fs) => fileMetaOf fs
  | _ => .error .footerNotThrift

/-! ### page headers -/

structure StatsMeta where
  max : Option Bytes            -- field 1 (deprecated)
  min : Option Bytes            -- field 2 (deprecated)
  nullCount : Option Int        -- field 3
  maxValue : Option Bytes       -- field 5
  minValue : Option Bytes       -- field 6
  deriving DecidableEq, Repr

def statsOf (fs : Fields) : Except Reason StatsMeta := do
  checkStruct statistics fs
  pure ⟨getBin fs 1, getBin fs 2, getInt fs 3, getBin fs 5, getBin fs 6⟩

structure DataHdr where
  numValues : Nat
  encoding : Int
  defEncoding : Int
  repEncoding : Int
  stats : Option StatsMeta
  deriving DecidableEq, Repr

structure DictHdr where
  numValues : Nat
  encoding : Int
  deriving DecidableEq, Repr

structure PageHdr where
  type : Int
  uncompressed : Nat
  compressed : Nat
  crc : Option Int
  data : Option DataHdr
  dict : Option DictHdr
  deriving DecidableEq, Repr

def dataHdrOf (fs : Fields) : Except Reason DataHdr := do
  checkStruct dataPageHeader fs
  let nv ← natField "DataPageHeader.num_values" fs 1
  let st ← match getStruct fs 5 with
    | none => pure none
    | some g => do let s ← statsOf g; pure (some s)
  pure ⟨nv, (getInt fs 2).getD 0, (getInt fs 3).getD 0, (getInt fs 4).getD 0, st⟩

def dictHdrOf (fs : Fields) : Except Reason DictHdr := do
  checkStruct dictionaryPageHeader fs
  let nv ← natField "DictionaryPageHeader.num_values" fs 1
  pure ⟨nv, (getInt fs 2).getD 0⟩

def pageHdrOf (fs : Fields) : Except Reason PageHdr := do
  checkStruct pageHeader fs
  let un ← match getInt fs 2 with
    | some v => if v < 0 then throw .pageSizeNegative else pure v.toNat
    | none => throw (.missingField "PageHeader")
  let co ← match getInt fs 3 with
    | some v => if v < 0 then throw .pageSizeNegative else pure v.toNat
    | none => throw (.missingField "PageHeader")
  let d ← match getStruct fs 5 with
    | none => pure none
    | some g => do let x ← dataHdrOf g; pure (some x)
  let k ← match getStruct fs 7 with
    | none => pure none
    | some g => do let x ← dictHdrOf g; pure (some x)
  pure ⟨(getInt fs 1).getD 0, un, co, getInt fs 4, d, k⟩

/-- the page header at the front of `bs`: the header and what follows it -/
def parsePageHeader (bs : Bytes) : Except Reason (PageHdr × Bytes) :=
  match decode .struct bs with
  | some (.struct fs, rest) =>
    match pageHdrOf fs with
    | .ok h => .ok (h, rest)
    | .error e => .error e
  | _ => .error .pageHeaderNotThrift

/-! ### the Thrift value of each structure (reference writer side)

`extra` fields are merged in by field id (a stable insertion), so a struct may carry fields a
reader does not know, before, between and after the known ones. -/

def insertField (f : Int × TVal) : Fields → Fields
  | [] => [f]
  | g :: r => if f.1 < g.1 then f :: g :: r else g :: insertField f r

def withExtras (known extra : Fields) : Fields := extra.foldl (fun acc f => insertField f acc) known

def optField {α : Type} (id : Int) (mk : α → TVal) : Option α → Fields
  | none => []
  | some x => [(id, mk x)]

def repCode : Schema.Rep → Int
  | .required => 0 | .optional => 1 | .repeated => 2

def annotUnitTV : Schema.AnnotTimeUnit → TVal
  | .millis => .struct [(1, .struct [])]
  | .micros => .struct [(2, .struct [])]
  | .nanos => .struct [(3, .struct [])]

/-- the LogicalType union value stating an annotation: one member, its required fields -/
def annotationTV : Schema.Annotation → TVal
  | .string => .struct [(1, .struct [])]
  | .map => .struct [(2, .struct [])]
  | .list => .struct [(3, .struct [])]
  | .enum => .struct [(4, .struct [])]
  | .decimal scale precision => .struct [(5, .struct [(1, .i32 scale), (2, .i32 precision)])]
  | .date => .struct [(6, .struct [])]
  | .time utc u => .struct [(7, .struct [(1, .bool utc), (2, annotUnitTV u)])]
  | .timestamp utc u => .struct [(8, .struct [(1, .bool utc), (2, annotUnitTV u)])]
  | .integer bw sg => .struct [(10, .struct [(1, .i8 bw), (2, .bool sg)])]
  | .nullType => .struct [(11, .struct [])]
  | .json => .struct [(12, .struct [])]
  | .bson => .struct [(13, .struct [])]
  | .uuid => .struct [(14, .struct [])]
  | .float16 => .struct [(15, .struct [])]

def schemaElementTV (e : Schema.Element) (extra : Fields) : TVal :=
  .struct (withExtras
    (optField 1 (fun n : Nat => .i32 n) e.info.ptype ++
     (if e.info.typeLength = 0 then [] else [(2, .i32 e.info.typeLength)]) ++
     optField 3 (fun r => .i32 (repCode r)) e.info.rep ++
     [(4, .binary (strBytes e.info.name))] ++
     (if e.numChildren = 0 then [] else [(5, .i32 e.numChildren)]) ++
     optField 6 (fun n : Nat => .i32 n) e.info.logical ++
     optField 10 annotationTV e.info.logicalType) extra)

def columnMetaTV (m : ColumnMeta) (stats : Option TVal) (extra : Fields) : TVal :=
  .struct (withExtras
    ([(1, .i32 m.ptype), (2, .list .i32 (m.encodings.map .i32)), (3, .list .binary (m.path.map .binary)),
      (4, .i32 m.codec), (5, .i64 m.numValues), (6, .i64 m.totalUncompressed), (7, .i64 m.totalCompressed),
      (9, .i64 m.dataPageOffset)] ++
     optField 11 (fun n : Nat => .i64 n) m.dictionaryPageOffset ++
     optField 12 id stats) extra)

def columnChunkTV (fileOffset : Nat) (m : TVal) (extra : Fields) : TVal :=
  .struct (withExtras [(2, .i64 fileOffset), (3, m)] extra)

def rowGroupTV (cols : List TVal) (totalByteSize numRows : Nat) (extra : Fields) : TVal :=
  .struct (withExtras [(1, .list .struct cols), (2, .i64 totalByteSize), (3, .i64 numRows)] extra)

def fileMetaTV (version : Int) (schema : List TVal) (numRows : Nat) (rgs : List TVal)
    (createdBy : Option Bytes) (extra : Fields) : TVal :=
  .struct (withExtras
    ([(1, .i32 version), (2, .list .struct schema), (3, .i64 numRows), (4, .list .struct rgs)] ++
     optField 6 .binary createdBy) extra)

def statsTV (s : StatsMeta) (extra : Fields) : TVal :=
  .struct (withExtras
    (optField 1 .binary s.max ++ optField 2 .binary s.min ++ optField 3 .i64 s.nullCount ++
     optField 5 .binary s.maxValue ++ optField 6 .binary s.minValue) extra)

def dataHdrTV (h : DataHdr) (statsExtra extra : Fields) : TVal :=
  .struct (withExtras
    ([(1, .i32 h.numValues), (2, .i32 h.encoding), (3, .i32 h.defEncoding), (4, .i32 h.repEncoding)] ++
     optField 5 (fun s => statsTV s statsExtra) h.stats) extra)

def dictHdrTV (h : DictHdr) (sorted : Option Bool) (extra : Fields) : TVal :=
  .struct (withExtras
    ([(1, .i32 h.numValues), (2, .i32 h.encoding)] ++ optField 3 .bool sorted) extra)

/-- a page header whose member struct (`memberId` 5 data page, 7 dictionary page, 8 data page
v2, 6 index page) is given as a ready Thrift value -/
def pageHdrTV (type : Int) (uncompressed compressed : Nat) (crc : Option Int) (memberId : Int)
    (member : TVal) (extra : Fields) : TVal :=
  .struct (withExtras
    ([(1, .i32 type), (2, .i32 uncompressed), (3, .i32 compressed)] ++ optField 4 .i32 crc ++
     [(memberId, member)]) extra)

end Carquet.Spec.File
