import Carquet.Spec.File.Write
/-
Which layouts of the reference writer the independent reader is CLAIMED to read back — the
hypotheses of `C06_reference_selfconsistent`, all decidable (`Bool`), so that they can be evaluated
for every generated file (`hyp=` in the `refread` lines) and by the kernel on concrete instances.

* `layoutAdm`: inside the feature set the independent reader decodes, and unknown fields really are
  unknown to parquet.thrift;
* size bounds: the footer value is a well-formed Thrift value, announces `total_uncompressed_size`
  below 2^31 for every chunk (page headers carry sizes as i32), the file is below 2 GiB, no chunk has
  2^31 entries;
* `oracleCoherent`: the table of GZIP / ZSTD bodies is a function on its keys (proved of the table the
  reference writer emits for an admissible layout; a hypothesis only where a foreign table is used).
-/
namespace Carquet.Spec.File
open Carquet.Spec Carquet.Spec.Thrift Carquet.Spec.ParquetThrift

/-! ### unknown fields: ids outside the struct's table -/

/-- the ids of `extra` are not ids of the struct's table in parquet.thrift -/
def extrasOk (s : StructSpec) (extra : Fields) : Bool := extra.all (fun f => (s.find f.1).isNone)

/-! ### admissible layouts -/

/-- the FNAME field of a gzip member is a zero-terminated string: it holds no zero byte -/
def fnameOk : Option Bytes → Bool
  | none => true
  | some n => n.all (· != 0)

/-- a compression plan whose codec tag the independent reader decodes with the decoder the plan
was made for (an LZ4 plan carries its own tag: 5 legacy LZ4 read as a raw block, or 7 LZ4_RAW), and
which yields a well-formed container (GZIP: FNAME without zero byte) -/
def planOk : CompPlan → Bool
  | .lz4 tag _ _ => tag == 5 || tag == 7
  | .gzip _ name => fnameOk name
  | _ => true

/-- value encodings inside the claimed set: PLAIN, or dictionary indices under tag 2 / 8 -/
def valuesOk : ValueEnc → Bool
  | .plain => true
  | .dict tag _ _ => tag == 2 || tag == 8
  | .other _ _ => false

/-- a v1 data page, undamaged, value encoding PLAIN / PLAIN_DICTIONARY / RLE_DICTIONARY, any
compression plan, unknown fields (well-formed Thrift values, ids outside the tables) in the page
header, the data page header and the statistics -/
def pageAdm (pl : PageLayout) : Bool :=
  pl.kind == .v1 && pl.damage == {} && valuesOk pl.values && planOk pl.comp &&
  extrasOk pageHeader pl.hdrExtra && wfFields pl.hdrExtra &&
  extrasOk dataPageHeader pl.memberExtra && wfFields pl.memberExtra &&
  extrasOk statistics pl.statsExtra && wfFields pl.statsExtra

/-- a dictionary page: PLAIN (tag 0 or the deprecated 2), undamaged, fewer than 2^31 entries -/
def dictAdm (d : DictLayout) : Bool :=
  (d.encoding == 0 || d.encoding == 2) && d.damage == {} && planOk d.comp && decide (d.values.length < 2 ^ 31) &&
  extrasOk pageHeader d.hdrExtra && wfFields d.hdrExtra &&
  extrasOk dictionaryPageHeader d.memberExtra && wfFields d.memberExtra

def chunkAdm (cl : ChunkLayout) : Bool :=
  cl.codecTag.getD cl.codec == cl.codec && cl.pages.all pageAdm &&
  (match cl.dict with | some d => dictAdm d | none => true) &&
  extrasOk columnMetaData cl.metaExtra && extrasOk columnChunk cl.chunkExtra

/-- **admissible layout**: inside the feature set the independent reader decodes (data page v1;
PLAIN and dictionary value encodings; every codec plan; no deliberate damage; the written codec tag
is the plans' codec), and every unknown field really is unknown to parquet.thrift -/
def layoutAdm (l : Layout) : Bool :=
  l.rowGroups.all (fun g => g.all chunkAdm) &&
  extrasOk fileMetaData l.footerExtra && extrasOk schemaElement l.schemaExtra && extrasOk rowGroup l.rowGroupExtra

/-- the oracle table is a function on its keys: looking a stored body up gives the contents it was
entered with (true of any table made by a real decompressor) -/
def oracleCoherent (o : Oracle) : Bool := o.all (fun e => oracleLookup o e.1 == some e.2)

/-! ### the announced uncompressed sizes (page headers carry them as i32) -/

/-- `total_uncompressed_size` of a ColumnChunk value is below 2^31 -/
def chunkUsizeOk : TVal → Bool
  | .struct fs =>
    match getStruct fs 3 with
    | some mfs =>
      match getInt mfs 6 with
      | some v => decide (v < 2147483648)
      | none => false
    | none => false
  | _ => false

def rgUsizeOk : TVal → Bool
  | .struct fs => ((getList fs 1).getD []).all chunkUsizeOk
  | _ => false

/-- every column chunk's `total_uncompressed_size` in a FileMetaData value is below 2^31 -/
def footerUsizeOk : TVal → Bool
  | .struct fs => ((getList fs 4).getD []).all rgUsizeOk
  | _ => false

/-! ### all hypotheses of the whole-file theorem as one decidable predicate -/

/-- the footer value `writeFull` encodes (mirrors its definition) -/
def footerTV (t : Table) (l : Layout) : Option TVal :=
  match columnsOf t.schema with
  | .error _ => none
  | .ok leaves =>
    match writeGroups leaves l.rowGroupExtra l.rowGroups t.rowGroups 4 with
    | none => none
    | some g =>
      some (fileMetaTV l.version ((Schema.flatten t.schema).map (fun e => schemaElementTV e l.schemaExtra))
        ((t.rowGroups.map (groupRows leaves)).sum) g.metas l.createdBy l.footerExtra)

/-- **every hypothesis of `C06_reference_selfconsistent` at once**: the layout fits the table and is
admissible, the sizes are in range (that the oracle table the writer emits is coherent is a theorem,
`C06_writer_oracle_coherent`) -/
def selfConsistencyHyp (t : Table) (l : Layout) : Bool :=
  (writeFull t l).isSome && layoutAdm l &&
  (match footerTV t l with | some v => v.wf && footerUsizeOk v | none => false) &&
  decide ((write t l).length < 2 ^ 31) &&
  t.rowGroups.all (fun g => g.chunks.all (fun es => decide (es.length < 2 ^ 31)))

end Carquet.Spec.File
