import Carquet.Spec.Schema
import Carquet.Spec.Order
/-
Whole-file layer of the Spec: what a Parquet file *contains* (a `Table`), and why a byte string
is not a valid Parquet file (`Reason`).  Written from the format description
(parquet-format: README "File format", "Metadata", "Data Pages", "Nested Encoding",
"Checksumming"; Encodings.md; parquet.thrift), sharing nothing with carquet.

A table is already *shredded* (Dremel): per leaf column of the schema tree, the list of entries
`(repetition level, definition level, value)`; an entry has a value exactly when its
definition level is the leaf's maximum.  Values are bit patterns: the bytes PLAIN stores for
the value (BOOLEAN: one byte 0/1; BYTE_ARRAY: the content without its length prefix; INT96:
12 bytes; floats are never interpreted).
-/
namespace Carquet.Spec.File
open Carquet.Spec

abbrev Bytes := List UInt8

structure Entry where
  rep : Nat
  dl : Nat
  val : Option Bytes
  deriving DecidableEq, Repr, Inhabited

/-- one column chunk: its entries in file order -/
abbrev Chunk := List Entry

/-- one row group: one chunk per leaf of the schema, in leaf order -/
structure RowGroup where
  chunks : List Chunk
  deriving DecidableEq, Repr

structure Table where
  schema : Schema.Node
  rowGroups : List RowGroup

/-! ### equality tests on schema trees (a nested inductive: no derived `DecidableEq`) -/

mutual
def nodeBeq : Schema.Node → Schema.Node → Bool
  | .leaf i, .leaf j => i == j
  | .group i cs, .group j ds => i == j && nodesBeq cs ds
  | _, _ => false
def nodesBeq : List Schema.Node → List Schema.Node → Bool
  | [], [] => true
  | c :: cs, d :: ds => nodeBeq c d && nodesBeq cs ds
  | _, _ => false
end

def Table.beq (a b : Table) : Bool := nodeBeq a.schema b.schema && a.rowGroups == b.rowGroups

/-! ### why a byte string is rejected -/

inductive Reason where
  -- envelope
  | tooShort | badLeadingMagic | badTrailingMagic | badFooterLength
  -- footer
  | footerNotThrift | missingField (struct : String) | wrongFieldType (struct : String)
  | negativeField (what : String) | badName
  -- a Thrift union (LogicalType, TimeUnit) that does not hold exactly one member; a TimeUnit member parquet.thrift does not have
  | unionNotOneMember (union : String) | unknownTimeUnit
  -- schema
  | badSchemaTree | badRepetition | badPhysicalType | badTypeLength | rootNotGroup | emptyGroup
  -- row groups / chunks
  | columnCountMismatch | noColumnMetaData | chunkTypeMismatch | chunkPathMismatch
  | illegalCodec | unsupportedCodec | illegalEncodingTag
  | chunkOutsideData | chunksOverlap | chunksLeaveGap | dictionaryOffsetWrong | dataOffsetWrong
  -- pages
  | pageHeaderNotThrift | pageSizeNegative | pageOverrunsChunk | illegalPageType
  | unsupportedPageType | pageMemberMissing
  | crcMismatch | decompressFailed | oracleMissing | uncompressedSizeMismatch
  | dictionaryNotFirst | dictionaryBadEncoding | dictionaryDecode | dictionaryTrailingBytes
  | dictionaryMissing
  | unsupportedEncoding | illegalLevelEncoding | unsupportedLevelEncoding
  | levelsTruncated | levelsDecode | levelOutOfRange | firstRepetitionNonZero
  | valuesDecode | valuesTrailingBytes | indexWidthMissing | indexWidthTooLarge | indexDecode
  | indexOutOfRange
  -- statistics of a page header that are not true of the page (C16)
  | statsNullCountWrong | statsMinWrong | statsMaxWrong | statsMalformed
  -- counts
  | chunkValueCountMismatch | rowGroupRowCountMismatch | fileRowCountMismatch
  -- byte sizes the metadata state: ColumnMetaData.total_uncompressed_size ≠ Σ over the chunk's pages of
  -- (page header + uncompressed_page_size); RowGroup.total_byte_size ≠ Σ of its chunks' total_uncompressed_size
  | chunkUncompressedSizeMismatch | rowGroupByteSizeMismatch
  deriving DecidableEq, Repr

/-! ### small helpers -/

def magic : Bytes := [0x50, 0x41, 0x52, 0x31]   -- "PAR1"

/-- `n` little-endian bytes of `v` -/
def leBytes : Nat → Nat → Bytes
  | 0, _ => []
  | n + 1, v => UInt8.ofNat (v % 256) :: leBytes n (v / 256)

/-- the number denoted by little-endian bytes -/
def leNat : Bytes → Nat
  | [] => 0
  | b :: bs => b.toNat + 256 * leNat bs

/-- physical type codes of parquet.thrift `Type` -/
def ptypeOf : Nat → Option Order.PType
  | 0 => some .boolean | 1 => some .int32 | 2 => some .int64 | 3 => some .int96
  | 4 => some .float | 5 => some .double | 6 => some .byteArray | 7 => some .flba | _ => none

def ptypeCode : Order.PType → Nat
  | .boolean => 0 | .int32 => 1 | .int64 => 2 | .int96 => 3
  | .float => 4 | .double => 5 | .byteArray => 6 | .flba => 7

/-- bit width of the RLE/bit-packed hybrid for levels up to `m` -/
def levelWidth (m : Nat) : Nat := if m = 0 then 0 else m.log2 + 1

/-- A column as the reader sees it: the leaf's levels, type, and path from the root. -/
structure LeafInfo where
  maxDef : Nat
  maxRep : Nat
  ptype : Order.PType
  typeLength : Nat
  path : List String
  deriving DecidableEq, Repr

/-- number of rows a chunk holds: every entry of a non-repeated column is a row; in a column
with repeated ancestors a row starts at each entry with repetition level 0 -/
def rowsOf (maxRep : Nat) (es : Chunk) : Nat :=
  if maxRep = 0 then es.length else (es.filter (fun e => e.rep == 0)).length

/-- number of entries that carry a value -/
def nonNullCount (maxDef : Nat) (dls : List Nat) : Nat := (dls.filter (· == maxDef)).length

end Carquet.Spec.File
