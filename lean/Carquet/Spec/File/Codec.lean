import Carquet.Spec.File.Types
import Carquet.Spec.Snappy
import Carquet.Spec.Lz4
import Carquet.Spec.Crc32
/-
Page compression as the independent reader sees it, and two container *encoders* that need no
compressor, so that the reference writer can produce every codec tag:

* GZIP (RFC 1952 member around RFC 1951 *stored* blocks: BFINAL/BTYPE=00, LEN, NLEN, bytes),
* ZSTD (RFC 8878 frame: magic, frame header with Single_Segment + Frame_Content_Size, Raw and
  RLE blocks, no checksum, no dictionary).

Decompression of SNAPPY and LZ4 / LZ4_RAW is by the Spec decoders.  GZIP and ZSTD payloads are
decompressed through an ORACLE table `(compressed, uncompressed)` supplied by the caller (the
harness fills it by calling zlib / libzstd directly, never through carquet's wrappers).
Codec tags: 0 UNCOMPRESSED, 1 SNAPPY, 2 GZIP, 3 LZO, 4 BROTLI, 5 LZ4 (legacy tag; read as a raw
LZ4 block, decision recorded in DESIGN §3 C05), 6 ZSTD, 7 LZ4_RAW.
-/
namespace Carquet.Spec.File
open Carquet.Spec

abbrev Oracle := List (Bytes × Bytes)

def oracleLookup (o : Oracle) (body : Bytes) : Option Bytes := (o.find? (fun p => p.1 == body)).map (·.2)

/-- the bytes a page body stands for; `usize` is the header's uncompressed_page_size (needed as
output bound by the LZ4 block format, which does not carry its own length) -/
def decompress (o : Oracle) (codec : Nat) (body : Bytes) (usize : Nat) : Except Reason Bytes :=
  if codec = 0 then .ok body
  else if codec = 1 then
    match Snappy.decode body with
    | .ok out => .ok out
    | .error _ => .error .decompressFailed
  else if codec = 5 ∨ codec = 7 then
    match Lz4.decode body usize with
    | .ok out => .ok out
    | .error _ => .error .decompressFailed
  else if codec = 2 ∨ codec = 6 then
    match oracleLookup o body with
    | some out => .ok out
    | none => .error .oracleMissing
  else if codec = 3 ∨ codec = 4 then .error .unsupportedCodec
  else .error .illegalCodec

/-! ### GZIP member with stored deflate blocks -/

/-- cut into pieces of at most `k ≥ 1` bytes (an empty input gives no piece) -/
def chunksOf (k : Nat) : Nat → Bytes → List Bytes
  | 0, _ => []
  | fuel + 1, bs => if bs = [] then [] else bs.take (max k 1) :: chunksOf k fuel (bs.drop (max k 1))

/-- one stored block: header byte (BFINAL in bit 0, BTYPE = 00), LEN, NLEN = ~LEN, the bytes -/
def storedBlock (final : Bool) (piece : Bytes) : Bytes :=
  (if final then (1 : UInt8) else 0) :: (leBytes 2 piece.length ++ leBytes 2 (65535 - piece.length) ++ piece)

def storedBlocks : List Bytes → Bytes
  | [] => storedBlock true []
  | [p] => storedBlock true p
  | p :: q :: r => storedBlock false p ++ storedBlocks (q :: r)

/-- A gzip member holding `data` in stored blocks of at most `blockSize` (1..65535) bytes;
`name`: optional FNAME header field (zero-terminated). -/
def gzipStored (blockSize : Nat) (name : Option Bytes) (data : Bytes) : Bytes :=
  ([0x1f, 0x8b, 8, (match name with | none => 0 | some _ => 8), 0, 0, 0, 0, 0, 255] : Bytes) ++
  (match name with | none => [] | some n => n ++ [0]) ++
  storedBlocks (chunksOf (min (max blockSize 1) 65535) data.length data) ++
  leBytes 4 (Crc32.crc32 data).toNat ++ leBytes 4 (data.length % 2 ^ 32)

/-! ### ZSTD frame of raw / RLE blocks -/

/-- how one block of the frame is written -/
inductive ZBlock where
  | raw (n : Nat)     -- the next `n` bytes as a Raw_Block
  | rle (n : Nat)     -- the next `n` bytes (which must be equal, n ≥ 1) as an RLE_Block
  deriving DecidableEq, Repr

/-- block header: Last_Block (bit 0), Block_Type (bits 1-2: 0 raw, 1 RLE), Block_Size (21 bits) -/
def zBlockHeader (last : Bool) (type size : Nat) : Bytes :=
  leBytes 3 ((if last then 1 else 0) + 2 * type + 8 * size)

/-- blocks per the plan; whatever the plan leaves over goes into one final raw block -/
def zBlocks : List ZBlock → Bytes → Option Bytes
  | [], data => if data.length < 2 ^ 17 then some (zBlockHeader true 0 data.length ++ data) else none
  | .raw n :: r, data =>
    if n ≥ 2 ^ 17 ∨ data.length < n then none
    else if r = [] ∧ data.length = n then some (zBlockHeader true 0 n ++ data)
    else match zBlocks r (data.drop n) with
      | none => none
      | some bs => some (zBlockHeader false 0 n ++ data.take n ++ bs)
  | .rle n :: r, data =>
    match data with
    | [] => none
    | b :: _ =>
      if n = 0 ∨ n ≥ 2 ^ 17 ∨ data.length < n ∨ data.take n ≠ List.replicate n b then none
      else if r = [] ∧ data.length = n then some (zBlockHeader true 1 n ++ [b])
      else match zBlocks r (data.drop n) with
        | none => none
        | some bs => some (zBlockHeader false 1 n ++ [b] ++ bs)

/-- What follows the frame header descriptor.  `f = 0..3`: the Frame_Content_Size field for flag value `f`
(Single_Segment set): 1, 2, 4 or 8 bytes.  `f = 4`: a frame WITHOUT content size, as streaming compressors write it
(Single_Segment clear, FCS flag 0): the Window_Descriptor byte instead — `0x38` = exponent 7, mantissa 0 = a window of
128 KiB, which covers every block this writer can produce (blocks are below 2^17 bytes). -/
def zContentSize (f n : Nat) : Option Bytes :=
  if f = 0 then (if n < 256 then some (leBytes 1 n) else none)
  else if f = 1 then (if 256 ≤ n ∧ n < 65536 + 256 then some (leBytes 2 (n - 256)) else none)
  else if f = 2 then (if n < 2 ^ 32 then some (leBytes 4 n) else none)
  else if f = 3 then (if n < 2 ^ 64 then some (leBytes 8 n) else none)
  else if f = 4 then some [0x38]
  else none

/-- Frame_Header_Descriptor: FCS flag (bits 7-6), Single_Segment (bit 5), no checksum, no dictionary -/
def zDescriptor (f : Nat) : UInt8 := if f = 4 then 0x00 else UInt8.ofNat (f * 64 + 32)

/-- A zstd frame: magic, descriptor, content size (or window descriptor, see `zContentSize`), blocks. -/
def zstdRaw (f : Nat) (plan : List ZBlock) (data : Bytes) : Option Bytes :=
  match zContentSize f data.length, zBlocks plan data with
  | some cs, some bl => some (([0x28, 0xB5, 0x2F, 0xFD, zDescriptor f] : Bytes) ++ cs ++ bl)
  | _, _ => none

-- the smallest frames / members (tests of the transcription; the harness cross-checks the
-- generated streams against zlib and libzstd on every run)
example : gzipStored 65535 none [] =
    [0x1f, 0x8b, 8, 0, 0, 0, 0, 0, 0, 255, 1, 0, 0, 0xff, 0xff, 0, 0, 0, 0, 0, 0, 0, 0] := by decide +kernel
example : gzipStored 2 none [0x61, 0x62, 0x63] =
    [0x1f, 0x8b, 8, 0, 0, 0, 0, 0, 0, 255, 0, 2, 0, 0xfd, 0xff, 0x61, 0x62, 1, 1, 0, 0xfe, 0xff, 0x63,
     0xc2, 0x41, 0x24, 0x35, 3, 0, 0, 0] := by decide +kernel
example : zstdRaw 0 [] [] = some [0x28, 0xB5, 0x2F, 0xFD, 0x20, 0x00, 0x01, 0x00, 0x00] := by decide +kernel
example : zstdRaw 4 [] [5] = some [0x28, 0xB5, 0x2F, 0xFD, 0x00, 0x38, 0x09, 0x00, 0x00, 5] := by decide +kernel
example : zstdRaw 0 [.rle 3] [7, 7, 7, 9] =
    some [0x28, 0xB5, 0x2F, 0xFD, 0x20, 0x04, 0x1a, 0, 0, 7, 0x09, 0, 0, 9] := by decide +kernel

end Carquet.Spec.File
