import Carquet.Spec.File.Meta
import Carquet.Spec.File.Codec
import Carquet.Spec.RleHybrid
import Carquet.Spec.Plain
import Carquet.Spec.Dictionary
/-
The independent whole-file reader, written from the Parquet format description.

  file      := "PAR1" <column chunks ...> <FileMetaData (Thrift compact)> <4-byte LE length> "PAR1"
  chunk     := [dictionary page] data page*          -- contiguous, at the offsets the footer names
  page      := <PageHeader (Thrift compact)> <compressed_page_size bytes>
  data page v1 body (after decompression)
            := [<4-byte LE length> <RLE hybrid repetition levels>]   -- iff max repetition level > 0
               [<4-byte LE length> <RLE hybrid definition levels>]   -- iff max definition level > 0
               <values of the entries whose definition level is the maximum>
  values    := PLAIN | <1-byte bit width> <RLE hybrid dictionary indices>

`read` accepts a byte string only if every structural claim the file makes about itself is
true (C05) — including the byte sizes its metadata state: `total_compressed_size` (the chunk's extent),
`total_uncompressed_size` (Σ page header + uncompressed page) and `RowGroup.total_byte_size`
(Σ of the chunks' `total_uncompressed_size`) — and returns the table it contains (C06).  It shares nothing with carquet.
-/
namespace Carquet.Spec.File
open Carquet.Spec

structure Config where
  /-- the column chunks must tile the data region `[4, footer)` exactly, in file order -/
  strictTiling : Bool := false
  /-- (compressed, uncompressed) pairs for the GZIP / ZSTD page bodies of the file -/
  oracle : Oracle := []

/-! ### envelope -/

/-- the footer length the last 8 bytes announce -/
def footerLen (bs : Bytes) : Nat := leNat ((bs.drop (bs.length - 8)).take 4)

/-- `PAR1 … footer len PAR1`: returns the offset at which the footer starts and the footer -/
def splitFile (bs : Bytes) : Except Reason (Nat × Bytes) :=
  if bs.length < 12 then .error .tooShort
  else if bs.take 4 ≠ magic then .error .badLeadingMagic
  else if bs.drop (bs.length - 4) ≠ magic then .error .badTrailingMagic
  else if footerLen bs + 12 > bs.length then .error .badFooterLength
  else .ok (bs.length - 8 - footerLen bs, (bs.drop (bs.length - 8 - footerLen bs)).take (footerLen bs))

/-! ### schema -/

mutual
/-- columns below a node, with the levels inherited from the ancestors (`d`, `r`) and the path -/
def leafInfosOf : Schema.Node → (d r : Nat) → List String → Except Reason (List LeafInfo)
  | .leaf i, d, r, path =>
    match i.rep, i.ptype.bind ptypeOf with
    | none, _ => .error .badRepetition
    | some _, none => .error .badPhysicalType
    | some _, some t =>
      if i.typeLength < 0 ∨ (t = .flba ∧ i.typeLength = 0) then .error .badTypeLength
      else .ok [⟨d + Schema.defInc i.rep, r + Schema.repInc i.rep, t, i.typeLength.toNat, path ++ [i.name]⟩]
  | .group i cs, d, r, path =>
    if i.rep = none then .error .badRepetition
    else if i.ptype.isSome then .error .badPhysicalType
    else if cs.isEmpty then .error .emptyGroup
    else leafInfosOfList cs (d + Schema.defInc i.rep) (r + Schema.repInc i.rep) (path ++ [i.name])
def leafInfosOfList : List Schema.Node → (d r : Nat) → List String → Except Reason (List LeafInfo)
  | [], _, _, _ => .ok []
  | c :: cs, d, r, path =>
    match leafInfosOf c d r path, leafInfosOfList cs d r path with
    | .ok a, .ok b => .ok (a ++ b)
    | .error e, _ => .error e
    | _, .error e => .error e
end

/-- the columns of a file whose schema tree is `root` (the root's own name and repetition do
not count) -/
def columnsOf : Schema.Node → Except Reason (List LeafInfo)
  | .leaf _ => .error .rootNotGroup
  | .group i cs =>
    if i.ptype.isSome then .error .badPhysicalType
    else if cs.isEmpty then .error .emptyGroup
    else leafInfosOfList cs 0 0 []

def schemaOf (els : List Schema.Element) : Except Reason Schema.Node :=
  match Schema.parseTree els with
  | some root => .ok root
  | none => .error .badSchemaTree

/-! ### values -/

def boolByte (b : Bool) : Bytes := [if b then 1 else 0]

/-- `n` PLAIN values of a column as bit patterns, and the unread rest -/
def plainValues (leaf : LeafInfo) (n : Nat) (bs : Bytes) : Option (List Bytes × Bytes) :=
  match leaf.ptype with
  | .boolean =>
    match Plain.decodeBool bs n with
    | some vs => some (vs.map boolByte, bs.drop (Plain.boolBytes n))
    | none => none
  | .int32 => Plain.decodeFlba 4 n bs
  | .int64 => Plain.decodeFlba 8 n bs
  | .int96 => Plain.decodeFlba 12 n bs
  | .float => Plain.decodeFlba 4 n bs
  | .double => Plain.decodeFlba 8 n bs
  | .byteArray => Plain.decodeByteArray n bs
  | .flba => Plain.decodeFlba leaf.typeLength n bs

/-- a length-prefixed level stream at the front of `bs`: the levels and what follows -/
def readLevels (maxLevel n : Nat) (bs : Bytes) : Except Reason (List Nat × Bytes) :=
  if maxLevel = 0 then .ok (List.replicate n 0, bs)
  else if bs.length < 4 then .error .levelsTruncated
  else if (bs.drop 4).length < leNat (bs.take 4) then .error .levelsTruncated
  else
    match RleHybrid.decode (levelWidth maxLevel) ((bs.drop 4).take (leNat (bs.take 4))) n with
    | .error _ => .error .levelsDecode
    | .ok ls =>
      if ls.all (· ≤ maxLevel) then .ok (ls, (bs.drop 4).drop (leNat (bs.take 4)))
      else .error .levelOutOfRange

/-- the values of a data page: PLAIN, or dictionary indices looked up in the chunk's dictionary -/
def readValues (leaf : LeafInfo) (dict : Option (List Bytes)) (encoding : Int) (n : Nat) (bs : Bytes) :
    Except Reason (List Bytes) :=
  if encoding = 0 then
    match plainValues leaf n bs with
    | none => .error .valuesDecode
    | some (vs, rest) => if rest = [] then .ok vs else .error .valuesTrailingBytes
  else if encoding = 2 ∨ encoding = 8 then
    match dict, bs with
    | none, _ => .error .dictionaryMissing
    | some _, [] => .error .indexWidthMissing
    | some d, w :: rest =>
      if w.toNat > 32 then .error .indexWidthTooLarge
      else
        match RleHybrid.decode w.toNat rest n with
        | .error _ => .error .indexDecode
        | .ok idx =>
          match Dictionary.decode d idx with
          | some vs => .ok vs
          | none => .error .indexOutOfRange
  else if 0 ≤ encoding ∧ encoding ≤ 9 ∧ encoding ≠ 1 then .error .unsupportedEncoding
  else .error .illegalEncodingTag

/-- entries from levels and the dense values -/
def assemble (maxDef : Nat) : List Nat → List Nat → List Bytes → List Entry
  | r :: rs, d :: ds, vs =>
    if d = maxDef then
      match vs with
      | v :: vs' => ⟨r, d, some v⟩ :: assemble maxDef rs ds vs'
      | [] => ⟨r, d, none⟩ :: assemble maxDef rs ds []
    else ⟨r, d, none⟩ :: assemble maxDef rs ds vs
  | _, _, _ => []

/-! ### page-header statistics must be true of the page (C16) -/

def validStat (leaf : LeafInfo) (b : Bytes) : Bool :=
  match leaf.ptype with
  | .flba => b.length == leaf.typeLength
  | t => decide (Order.Valid t b)

def checkBound (leaf : LeafInfo) (isMin : Bool) (vals : List Bytes) : Option Bytes → Except Reason Unit
  | none => .ok ()
  | some b =>
    if !validStat leaf b then .error .statsMalformed
    else if isMin then
      (if vals.all (fun v => decide (Order.tle leaf.ptype b v)) then .ok () else .error .statsMinWrong)
    else
      (if vals.all (fun v => decide (Order.tle leaf.ptype v b)) then .ok () else .error .statsMaxWrong)

def checkNullCount (leaf : LeafInfo) (dls : List Nat) : Option Int → Except Reason Unit
  | none => .ok ()
  | some n => if n = ((dls.filter (· < leaf.maxDef)).length : Int) then .ok () else .error .statsNullCountWrong

/-- both checks, the first one's reason reported first -/
def andThen (a b : Except Reason Unit) : Except Reason Unit :=
  match a with
  | .ok _ => b
  | .error e => .error e

def checkStats (leaf : LeafInfo) (dls : List Nat) (vals : List Bytes) : Option StatsMeta → Except Reason Unit
  | none => .ok ()
  | some s =>
    andThen (checkNullCount leaf dls s.nullCount)
      (andThen (checkBound leaf true vals s.min)
        (andThen (checkBound leaf true vals s.minValue)
          (andThen (checkBound leaf false vals s.max) (checkBound leaf false vals s.maxValue))))

/-! ### pages -/

def legalEncoding (e : Int) : Bool := 0 ≤ e && e ≤ 9 && e != 1

/-- the body of a v1 data page (already decompressed) -/
def decodeDataPage (leaf : LeafInfo) (dict : Option (List Bytes)) (h : DataHdr) (page : Bytes) :
    Except Reason (List Entry) := do
  if !legalEncoding h.defEncoding || !legalEncoding h.repEncoding then throw .illegalLevelEncoding
  if (leaf.maxDef > 0 && h.defEncoding != 3) || (leaf.maxRep > 0 && h.repEncoding != 3) then
    throw .unsupportedLevelEncoding
  let (reps, afterRep) ← readLevels leaf.maxRep h.numValues page
  let (defs, afterDef) ← readLevels leaf.maxDef h.numValues afterRep
  let vals ← readValues leaf dict h.encoding (nonNullCount leaf.maxDef defs) afterDef
  checkStats leaf defs vals h.stats
  pure (assemble leaf.maxDef reps defs vals)

/-- the dictionary of a chunk: PLAIN values filling the page exactly -/
def decodeDictPage (leaf : LeafInfo) (h : DictHdr) (page : Bytes) : Except Reason (List Bytes) :=
  if h.encoding ≠ 0 ∧ h.encoding ≠ 2 then .error .dictionaryBadEncoding
  else
    match plainValues leaf h.numValues page with
    | none => .error .dictionaryDecode
    | some (vs, rest) => if rest = [] then .ok vs else .error .dictionaryTrailingBytes

structure RawPage where
  hdr : PageHdr
  page : Bytes          -- the decompressed body
  size : Nat            -- header + compressed body, in bytes
  rest : Bytes          -- what follows the page in the chunk

/-- header, body, checksum, decompression, uncompressed size -/
def readRawPage (cfg : Config) (codec : Nat) (bs : Bytes) : Except Reason RawPage := do
  let (h, rest) ← parsePageHeader bs
  if h.type = 1 ∨ h.type = 3 then throw .unsupportedPageType     -- index page, data page v2
  if h.type ≠ 0 ∧ h.type ≠ 2 then throw .illegalPageType
  if rest.length < h.compressed then throw .pageOverrunsChunk
  match h.crc with
  | none => pure ()
  | some c =>
    if (Crc32.crc32 (rest.take h.compressed)).toNat = (c % 4294967296).toNat then pure ()
    else throw .crcMismatch
  let page ← decompress cfg.oracle codec (rest.take h.compressed) h.uncompressed
  if page.length ≠ h.uncompressed then throw .uncompressedSizeMismatch
  pure ⟨h, page, bs.length - rest.length + h.compressed, rest.drop h.compressed⟩

/-- the data pages of a chunk, to the end of the chunk's bytes (fuel: one unit per page) -/
def readDataPages (cfg : Config) (codec : Nat) (leaf : LeafInfo) (encodings : List Int)
    (dict : Option (List Bytes)) : Nat → Bytes → Except Reason (List Entry)
  | 0, _ => .error .pageOverrunsChunk
  | fuel + 1, bs =>
    if bs = [] then .ok []
    else
      match readRawPage cfg codec bs with
      | .error e => .error e
      | .ok p =>
        if p.hdr.type = 0 then
          match p.hdr.data with
          | none => .error .pageMemberMissing
          | some dh =>
            if !encodings.contains dh.encoding then .error .illegalEncodingTag
            else
              match decodeDataPage leaf dict dh p.page, readDataPages cfg codec leaf encodings dict fuel p.rest with
              | .ok es, .ok more => .ok (es ++ more)
              | .error e, _ => .error e
              | _, .error e => .error e
        else .error .dictionaryNotFirst

/-- one column chunk from its bytes `bs` (which start at file offset `start`) -/
def readChunk (cfg : Config) (leaf : LeafInfo) (m : ColumnMeta) (start : Nat) (bs : Bytes) :
    Except Reason (List Entry) := do
  if !m.encodings.all legalEncoding then throw .illegalEncodingTag
  let es ←
    if bs = [] then pure []
    else do
      let p ← readRawPage cfg m.codec bs
      if p.hdr.type = 2 then
        match p.hdr.dict with
        | none => throw .pageMemberMissing
        | some kh =>
          if m.dictionaryPageOffset.isSome && start + p.size ≠ m.dataPageOffset then throw .dataOffsetWrong
          let d ← decodeDictPage leaf kh p.page
          readDataPages cfg m.codec leaf m.encodings (some d) (p.rest.length + 1) p.rest
      else if m.dictionaryPageOffset.isSome then throw .dictionaryOffsetWrong
      else readDataPages cfg m.codec leaf m.encodings none (bs.length + 1) bs
  if es.length ≠ m.numValues then throw .chunkValueCountMismatch
  match es with
  | e :: _ => if e.rep ≠ 0 then throw .firstRepetitionNonZero
  | [] => pure ()
  pure es

/-- `total_uncompressed_size` of a chunk as its pages state it: parquet.thrift defines it as the "total
byte size of all uncompressed pages in this column chunk (including the headers)", i.e. Σ over the pages
of (length of the page header + `uncompressed_page_size`).  It is evaluated on the bytes of a chunk that
`readChunk` has accepted, so every `uncompressed_page_size` is the true length of the decompressed page
and the pages fill the chunk exactly.  (fuel: one unit per page) -/
def chunkUsize : Nat → Bytes → Option Nat
  | 0, _ => none
  | fuel + 1, bs =>
    if bs = [] then some 0
    else
      match parsePageHeader bs with
      | .error _ => none
      | .ok (h, rest) =>
        (chunkUsize fuel (rest.drop h.compressed)).map (fun n => (bs.length - rest.length) + h.uncompressed + n)

/-! ### row groups -/

def chunkStart (m : ColumnMeta) : Nat :=
  match m.dictionaryPageOffset with
  | some d => d
  | none => m.dataPageOffset

/-- the chunks of a row group, threading the tiling cursor `pos` -/
def readChunks (cfg : Config) (file : Bytes) (footerStart : Nat) :
    List LeafInfo → List ColumnMeta → Nat → Except Reason (List Chunk × Nat)
  | [], [], pos => .ok ([], pos)
  | leaf :: ls, m :: ms, pos => do
    if some m.ptype ≠ some (ptypeCode leaf.ptype) then throw .chunkTypeMismatch
    if m.path ≠ leaf.path.map strBytes then throw .chunkPathMismatch
    if chunkStart m < 4 ∨ chunkStart m + m.totalCompressed > footerStart then throw .chunkOutsideData
    if cfg.strictTiling && chunkStart m < pos then throw .chunksOverlap
    if cfg.strictTiling && chunkStart m > pos then throw .chunksLeaveGap
    let es ← readChunk cfg leaf m (chunkStart m) ((file.drop (chunkStart m)).take m.totalCompressed)
    if chunkUsize (m.totalCompressed + 1) ((file.drop (chunkStart m)).take m.totalCompressed) ≠ some m.totalUncompressed then
      throw .chunkUncompressedSizeMismatch
    let (rest, pos') ← readChunks cfg file footerStart ls ms (chunkStart m + m.totalCompressed)
    pure (es :: rest, pos')
  | _, _, _ => .error .columnCountMismatch

def readRowGroups (cfg : Config) (file : Bytes) (footerStart : Nat) (leaves : List LeafInfo) :
    List RowGroupMeta → Nat → Except Reason (List RowGroup × Nat)
  | [], pos => .ok ([], pos)
  | g :: gs, pos => do
    let (chunks, pos') ← readChunks cfg file footerStart leaves g.columns pos
    if !(List.zipWith (fun (l : LeafInfo) c => rowsOf l.maxRep c == g.numRows) leaves chunks).all id then
      throw .rowGroupRowCountMismatch
    -- RowGroup.total_byte_size: "Total byte size of all the uncompressed column data in this row group"
    if (g.columns.map (·.totalUncompressed)).sum ≠ g.totalByteSize then throw .rowGroupByteSizeMismatch
    let (rest, pos'') ← readRowGroups cfg file footerStart leaves gs pos'
    pure (⟨chunks⟩ :: rest, pos'')

/-! ### the reader -/

def readWith (cfg : Config) (bs : Bytes) : Except Reason Table := do
  let (footerStart, footer) ← splitFile bs
  let fm ← parseFooter footer
  let root ← schemaOf fm.schema
  let leaves ← columnsOf root
  let (rgs, pos) ← readRowGroups cfg bs footerStart leaves fm.rowGroups 4
  if cfg.strictTiling && pos ≠ footerStart then throw .chunksLeaveGap
  if (fm.rowGroups.map (·.numRows)).sum ≠ fm.numRows then throw .fileRowCountMismatch
  pure ⟨root, rgs⟩

/-- the metadata stages of the reader alone: envelope, footer (with every REQUIRED-field, field-type and
union rule of parquet.thrift, the LogicalType of every schema element included), schema tree -/
def readSchema (bs : Bytes) : Except Reason Schema.Node := do
  let (_, footer) ← splitFile bs
  let fm ← parseFooter footer
  schemaOf fm.schema

/-- **The independent reader.**  `strictTiling`: the chunks must tile the data region exactly
(C05); `oracle`: decompressed GZIP / ZSTD page bodies. -/
def read (bs : Bytes) (strictTiling : Bool := false) (oracle : Oracle := []) : Except Reason Table :=
  readWith ⟨strictTiling, oracle⟩ bs

end Carquet.Spec.File
