import Carquet.Spec.Thrift
/-
The field tables of parquet.thrift (apache/parquet-format, src/main/thrift/parquet.thrift) for
the structs carquet reads or writes: field id, name, Thrift type, required/optional.
Written from the format definition (from memory, no network in this environment); entries I am
less than certain of are marked `-- unsure`.  Enums travel as i32; `string` is `binary`.
-/
namespace Carquet.Spec.ParquetThrift
open Carquet.Spec.Thrift

structure FieldSpec where
  id : Int
  name : String
  ty : TType
  required : Bool
  deriving DecidableEq, Repr

structure StructSpec where
  name : String
  isUnion : Bool
  fields : List FieldSpec
  deriving DecidableEq, Repr

private def req (id : Int) (name : String) (ty : TType) : FieldSpec := ⟨id, name, ty, true⟩
private def opt (id : Int) (name : String) (ty : TType) : FieldSpec := ⟨id, name, ty, false⟩

def statistics : StructSpec := ⟨"Statistics", false,
  [opt 1 "max" .binary, opt 2 "min" .binary, opt 3 "null_count" .i64, opt 4 "distinct_count" .i64,
   opt 5 "max_value" .binary, opt 6 "min_value" .binary,
   opt 7 "is_max_value_exact" .bool, opt 8 "is_min_value_exact" .bool]⟩

/-- StringType, MapType, ListType, EnumType, DateType, NullType, JsonType, BsonType, UUIDType,
Float16Type, MilliSeconds, MicroSeconds, NanoSeconds, IndexPageHeader: no fields -/
def emptyStruct : StructSpec := ⟨"(empty struct)", false, []⟩

def decimalType : StructSpec := ⟨"DecimalType", false, [req 1 "scale" .i32, req 2 "precision" .i32]⟩

def timeUnit : StructSpec := ⟨"TimeUnit", true,
  [opt 1 "MILLIS" .struct, opt 2 "MICROS" .struct, opt 3 "NANOS" .struct]⟩

/-- TimeType and TimestampType have the same two fields -/
def timeType : StructSpec := ⟨"TimeType / TimestampType", false,
  [req 1 "isAdjustedToUTC" .bool, req 2 "unit" .struct]⟩

def intType : StructSpec := ⟨"IntType", false, [req 1 "bitWidth" .i8, req 2 "isSigned" .bool]⟩

def logicalType : StructSpec := ⟨"LogicalType", true,
  [opt 1 "STRING" .struct, opt 2 "MAP" .struct, opt 3 "LIST" .struct, opt 4 "ENUM" .struct,
   opt 5 "DECIMAL" .struct, opt 6 "DATE" .struct, opt 7 "TIME" .struct, opt 8 "TIMESTAMP" .struct,
   -- 9 is reserved (INTERVAL)
   opt 10 "INTEGER" .struct, opt 11 "UNKNOWN" .struct, opt 12 "JSON" .struct, opt 13 "BSON" .struct,
   opt 14 "UUID" .struct, opt 15 "FLOAT16" .struct,
   opt 16 "VARIANT" .struct, opt 17 "GEOMETRY" .struct, opt 18 "GEOGRAPHY" .struct  -- unsure (recent additions)
  ]⟩

def schemaElement : StructSpec := ⟨"SchemaElement", false,
  [opt 1 "type" .i32, opt 2 "type_length" .i32, opt 3 "repetition_type" .i32, req 4 "name" .binary,
   opt 5 "num_children" .i32, opt 6 "converted_type" .i32, opt 7 "scale" .i32, opt 8 "precision" .i32,
   opt 9 "field_id" .i32, opt 10 "logicalType" .struct]⟩

def dataPageHeader : StructSpec := ⟨"DataPageHeader", false,
  [req 1 "num_values" .i32, req 2 "encoding" .i32, req 3 "definition_level_encoding" .i32,
   req 4 "repetition_level_encoding" .i32, opt 5 "statistics" .struct]⟩

def dictionaryPageHeader : StructSpec := ⟨"DictionaryPageHeader", false,
  [req 1 "num_values" .i32, req 2 "encoding" .i32, opt 3 "is_sorted" .bool]⟩

def dataPageHeaderV2 : StructSpec := ⟨"DataPageHeaderV2", false,
  [req 1 "num_values" .i32, req 2 "num_nulls" .i32, req 3 "num_rows" .i32, req 4 "encoding" .i32,
   req 5 "definition_levels_byte_length" .i32, req 6 "repetition_levels_byte_length" .i32,
   opt 7 "is_compressed" .bool, opt 8 "statistics" .struct]⟩

def pageHeader : StructSpec := ⟨"PageHeader", false,
  [req 1 "type" .i32, req 2 "uncompressed_page_size" .i32, req 3 "compressed_page_size" .i32,
   opt 4 "crc" .i32, opt 5 "data_page_header" .struct, opt 6 "index_page_header" .struct,
   opt 7 "dictionary_page_header" .struct, opt 8 "data_page_header_v2" .struct]⟩

def keyValue : StructSpec := ⟨"KeyValue", false, [req 1 "key" .binary, opt 2 "value" .binary]⟩

def sortingColumn : StructSpec := ⟨"SortingColumn", false,
  [req 1 "column_idx" .i32, req 2 "descending" .bool, req 3 "nulls_first" .bool]⟩

def pageEncodingStats : StructSpec := ⟨"PageEncodingStats", false,
  [req 1 "page_type" .i32, req 2 "encoding" .i32, req 3 "count" .i32]⟩

def columnMetaData : StructSpec := ⟨"ColumnMetaData", false,
  [req 1 "type" .i32, req 2 "encodings" .list, req 3 "path_in_schema" .list, req 4 "codec" .i32,
   req 5 "num_values" .i64, req 6 "total_uncompressed_size" .i64, req 7 "total_compressed_size" .i64,
   opt 8 "key_value_metadata" .list, req 9 "data_page_offset" .i64, opt 10 "index_page_offset" .i64,
   opt 11 "dictionary_page_offset" .i64, opt 12 "statistics" .struct, opt 13 "encoding_stats" .list,
   opt 14 "bloom_filter_offset" .i64, opt 15 "bloom_filter_length" .i32,
   opt 16 "size_statistics" .struct,          -- unsure (recent addition)
   opt 17 "geospatial_statistics" .struct     -- unsure (recent addition)
  ]⟩

def columnChunk : StructSpec := ⟨"ColumnChunk", false,
  [opt 1 "file_path" .binary, req 2 "file_offset" .i64, opt 3 "meta_data" .struct,
   opt 4 "offset_index_offset" .i64, opt 5 "offset_index_length" .i32,
   opt 6 "column_index_offset" .i64, opt 7 "column_index_length" .i32,
   opt 8 "crypto_metadata" .struct, opt 9 "encrypted_column_metadata" .binary]⟩

def rowGroup : StructSpec := ⟨"RowGroup", false,
  [req 1 "columns" .list, req 2 "total_byte_size" .i64, req 3 "num_rows" .i64,
   opt 4 "sorting_columns" .list, opt 5 "file_offset" .i64, opt 6 "total_compressed_size" .i64,
   opt 7 "ordinal" .i16]⟩

def fileMetaData : StructSpec := ⟨"FileMetaData", false,
  [req 1 "version" .i32, req 2 "schema" .list, req 3 "num_rows" .i64, req 4 "row_groups" .list,
   opt 5 "key_value_metadata" .list, opt 6 "created_by" .binary, opt 7 "column_orders" .list,
   opt 8 "encryption_algorithm" .struct, opt 9 "footer_signing_key_metadata" .binary]⟩

def StructSpec.find (s : StructSpec) (id : Int) : Option FieldSpec := s.fields.find? (·.id == id)

/-- wire code of a field of the given Thrift type as it appears in a field header (bool: 1,
standing for "1 or 2 by value") -/
def fieldWireCode (t : TType) : Nat := if t = .bool then 1 else t.code

/-- a struct value carries only ids of the table, with the table's types -/
def StructSpec.admits (s : StructSpec) (fs : List (Int × TVal)) : Bool :=
  fs.all (fun f => match s.find f.1 with | some fsp => fsp.ty == f.2.ty | none => false)

/-- all required fields are present -/
def StructSpec.complete (s : StructSpec) (fs : List (Int × TVal)) : Bool :=
  s.fields.all (fun fsp => !fsp.required || fs.any (·.1 == fsp.id))

end Carquet.Spec.ParquetThrift
