import Carquet.Spec.Thrift
import Carquet.Spec.ParquetThrift
import Carquet.Spec.ParquetThriftValue
import Carquet.Impl.ThriftPageIndex
/-
parquet.thrift: ColumnIndex, OffsetIndex, PageLocation — field tables (with the element types of
the list-valued fields, which `StructSpec` does not carry) and the Thrift value the format
assigns to a page index.  Written from the format definition (from memory, as the rest of
Spec/ParquetThrift.lean); only the *types* of Impl.ThriftPageIndex are used.

  struct PageLocation { 1: required i64 offset; 2: required i32 compressed_page_size;
                        3: required i64 first_row_index }
  struct OffsetIndex  { 1: required list<PageLocation> page_locations;
                        2: optional list<i64> unencoded_byte_array_data_bytes }
  struct ColumnIndex  { 1: required list<bool> null_pages; 2: required list<binary> min_values;
                        3: required list<binary> max_values; 4: required BoundaryOrder boundary_order;
                        5: optional list<i64> null_counts;
                        6: optional list<i64> repetition_level_histograms;
                        7: optional list<i64> definition_level_histograms }
-/
namespace Carquet.Spec.ParquetThrift
open Carquet.Spec.Thrift Carquet.Impl.ThriftParquet Carquet.Impl.ThriftPageIndex

private def req' (id : Int) (name : String) (ty : TType) : FieldSpec := ⟨id, name, ty, true⟩
private def opt' (id : Int) (name : String) (ty : TType) : FieldSpec := ⟨id, name, ty, false⟩

def pageLocation : StructSpec := ⟨"PageLocation", false,
  [req' 1 "offset" .i64, req' 2 "compressed_page_size" .i32, req' 3 "first_row_index" .i64]⟩

def offsetIndex : StructSpec := ⟨"OffsetIndex", false,
  [req' 1 "page_locations" .list, opt' 2 "unencoded_byte_array_data_bytes" .list]⟩

def columnIndex : StructSpec := ⟨"ColumnIndex", false,
  [req' 1 "null_pages" .list, req' 2 "min_values" .list, req' 3 "max_values" .list, req' 4 "boundary_order" .i32,
   opt' 5 "null_counts" .list, opt' 6 "repetition_level_histograms" .list, opt' 7 "definition_level_histograms" .list]⟩

/-- element types of the list-valued fields -/
def offsetIndexElems : List (Int × TType) := [(1, .struct), (2, .i64)]
def columnIndexElems : List (Int × TType) := [(1, .bool), (2, .binary), (3, .binary), (5, .i64), (6, .i64), (7, .i64)]

/-- a bound that is absent in the builder is the empty binary (min_values / max_values have one
entry per page; for a null page the value is unspecified and conventionally empty) -/
def boundTV (o : Option Bytes) : TVal := .binary (o.getD [])

/-- the ColumnIndex value of a builder state: fields 1-5 (the two histogram lists are optional
and carquet does not compute them) -/
def columnIndexTV (b : ColumnIndexB) : TVal :=
  .struct (f1 1 (.list .bool (b.pages.map (fun p => .bool p.nullPage))) ++
    f1 2 (.list .binary (b.pages.map (fun p => boundTV p.minV))) ++
    f1 3 (.list .binary (b.pages.map (fun p => boundTV p.maxV))) ++
    f1 4 (.i32 b.boundaryOrder) ++
    f1 5 (.list .i64 (b.pages.map (fun p => .i64 p.nullCount))))

def pageLocationTV (p : OIPage) : TVal :=
  .struct (f1 1 (.i64 p.offset) ++ f1 2 (.i32 p.compressedSize) ++ f1 3 (.i64 p.firstRowIndex))

/-- the OffsetIndex value of a builder state: the page locations.  (parquet.thrift has no member
for uncompressed page sizes; its field 2 is `unencoded_byte_array_data_bytes`, which carquet does
not compute.) -/
def offsetIndexTV (b : OffsetIndexB) : TVal :=
  .struct (f1 1 (.list .struct (b.pages.map pageLocationTV)))

/-- what `carquet_offset_index_serialize` writes when the builder tracks uncompressed sizes: a
second field, id 2, `list<i32>` of the uncompressed page sizes — NOT a member of parquet.thrift's
OffsetIndex (see `offsetIndexElems`: field 2 is a `list<i64>` with another meaning) -/
def offsetIndexWrittenTV (b : OffsetIndexB) : TVal :=
  .struct (f1 1 (.list .struct (b.pages.map pageLocationTV)) ++
    (if b.trackUncompressed then f1 2 (.list .i32 (b.pages.map (fun p => .i32 p.uncompressedSize))) else []))

end Carquet.Spec.ParquetThrift
