/-
ULEB128 (unsigned LEB128, "varint") over `Nat` and zigzag over `Int`, written from the
definitions (DWARF appendix C / protobuf encoding document; used by the Parquet "Encodings"
document for RLE run headers and DELTA_* headers, and by the Thrift compact protocol).
Shares nothing with carquet's readers/writers.

  ULEB128(n): the base-128 digits of n, least significant first, one per byte in the low seven
              bits; every byte except the last has its high bit set.
  zigzag(i):  0, -1, 1, -2, 2, ...  ->  0, 1, 2, 3, 4, ...

Round-trip lemmas are in this file because every other component imports them.
-/
namespace Carquet.Spec.Varint

/-- ULEB128 with explicit fuel (the recursion `n ↦ n / 128` is not structural). -/
def encodeFuel : Nat → Nat → List UInt8
  | 0, n => [UInt8.ofNat n]
  | f + 1, n =>
    if n < 128 then [UInt8.ofNat n]
    else UInt8.ofNat (n % 128 + 128) :: encodeFuel f (n / 128)

/-- The canonical (shortest) ULEB128 encoding of `n`. -/
def encode (n : Nat) : List UInt8 := encodeFuel n n

/-- Reads one ULEB128 number (any length, over-long encodings with trailing zero digits
included); `none` if the input ends inside the number. Returns the value and the rest. -/
def decode : List UInt8 → Option (Nat × List UInt8)
  | [] => none
  | b :: rest =>
    if b.toNat < 128 then some (b.toNat, rest)
    else
      match decode rest with
      | none => none
      | some (v, r) => some (b.toNat - 128 + 128 * v, r)

/-- Zigzag: signed to unsigned. -/
def zigzag (i : Int) : Nat :=
  if 0 ≤ i then 2 * i.toNat else 2 * (-i).toNat - 1

/-- Zigzag: unsigned to signed. -/
def unzigzag (n : Nat) : Int :=
  if n % 2 = 0 then ((n / 2 : Nat) : Int) else - (((n + 1) / 2 : Nat) : Int)

-- Test vectors (tests of the transcription, not proofs): DWARF's 624485 example, protobuf's 300.
example : encode 624485 = [0xE5, 0x8E, 0x26] := by decide
example : encode 300 = [0xAC, 0x02] := by decide
example : encode 0 = [0] := by decide
example : encode 127 = [0x7F] := by decide
example : encode 128 = [0x80, 0x01] := by decide
example : decode [0xE5, 0x8E, 0x26, 0xFF] = some (624485, [0xFF]) := by decide
example : decode [0x80, 0x80, 0x00] = some (0, []) := by decide      -- over-long zero
example : decode [0x80, 0x80] = none := by decide
example : [0, -1, 1, -2, 2147483647, -2147483648].map zigzag = [0, 1, 2, 3, 4294967294, 4294967295] := by decide
example : [0, 1, 2, 3, 4294967294, 4294967295].map unzigzag = [0, -1, 1, -2, 2147483647, -2147483648] := by decide

/-! ### Lemmas -/

theorem encodeFuel_eq (f g n : Nat) (hf : n ≤ f) (hg : n ≤ g) : encodeFuel f n = encodeFuel g n := by
  induction f generalizing g n with
  | zero =>
    have : n = 0 := by omega
    subst this
    cases g <;> simp [encodeFuel]
  | succ f ih =>
    cases g with
    | zero =>
      have : n = 0 := by omega
      subst this; simp [encodeFuel]
    | succ g =>
      simp only [encodeFuel]
      split
      · rfl
      · rw [ih g (n / 128) (by omega) (by omega)]

theorem encode_lt {n : Nat} (h : n < 128) : encode n = [UInt8.ofNat n] := by
  unfold encode
  cases n with
  | zero => simp [encodeFuel]
  | succ n => simp [encodeFuel, h]

theorem encode_ge {n : Nat} (h : 128 ≤ n) :
    encode n = UInt8.ofNat (n % 128 + 128) :: encode (n / 128) := by
  unfold encode
  cases n with
  | zero => omega
  | succ n =>
    have h' : ¬ (n + 1 < 128) := by omega
    simp only [encodeFuel, h', if_false]
    rw [encodeFuel_eq n ((n + 1) / 128) ((n + 1) / 128) (by omega) (Nat.le_refl _)]

theorem encode_ne_nil (n : Nat) : encode n ≠ [] := by
  by_cases h : n < 128
  · rw [encode_lt h]; simp
  · rw [encode_ge (by omega)]; simp

private theorem toNat_ofNat_lt {n : Nat} (h : n < 256) : (UInt8.ofNat n).toNat = n := by
  simp [Nat.mod_eq_of_lt h]

/-- `decode` inverts `encode`, whatever follows. -/
theorem decode_encode_append (n : Nat) (rest : List UInt8) :
    decode (encode n ++ rest) = some (n, rest) := by
  induction n using Nat.strongRecOn with
  | _ n ih =>
    by_cases h : n < 128
    · rw [encode_lt h]
      simp [decode, toNat_ofNat_lt (show n < 256 by omega), h]
    · rw [encode_ge (by omega)]
      have hb : (UInt8.ofNat (n % 128 + 128)).toNat = n % 128 + 128 :=
        toNat_ofNat_lt (by omega)
      simp only [List.cons_append, decode, hb]
      rw [ih (n / 128) (by omega)]
      have : ¬ (n % 128 + 128 < 128) := by omega
      simp only [this, if_false]
      congr 2
      omega

theorem decode_encode (n : Nat) : decode (encode n) = some (n, []) := by
  have := decode_encode_append n []
  simpa using this

/-- length of the canonical encoding: at most `k` bytes below `2^(7k)` (`k ≥ 1`). -/
theorem encode_length_le (k n : Nat) (h : n < 2 ^ (7 * (k + 1))) : (encode n).length ≤ k + 1 := by
  induction k generalizing n with
  | zero =>
    have : n < 128 := by simpa using h
    rw [encode_lt this]; simp
  | succ k ih =>
    by_cases h1 : n < 128
    · rw [encode_lt h1]; simp
    · rw [encode_ge (by omega)]
      have : n / 128 < 2 ^ (7 * (k + 1)) := by
        rw [Nat.div_lt_iff_lt_mul (by decide)]
        have e : 2 ^ (7 * (k + 1 + 1)) = 2 ^ (7 * (k + 1)) * 128 := by
          rw [show 7 * (k + 1 + 1) = 7 * (k + 1) + 7 by omega, Nat.pow_add]
        omega
      have := ih (n / 128) this
      simp only [List.length_cons]
      omega

/-- decoding consumes at least one byte -/
theorem decode_rest_length {bs rest : List UInt8} {v : Nat} (h : decode bs = some (v, rest)) :
    rest.length < bs.length := by
  induction bs generalizing v rest with
  | nil => simp [decode] at h
  | cons b bs ih =>
    simp only [decode] at h
    split at h
    · cases h; simp
    · split at h
      · cases h
      · rename_i v' r' heq
        cases h
        have := ih heq
        simp only [List.length_cons]; omega

/-- what was consumed, as a prefix -/
theorem decode_eq_append {bs rest : List UInt8} {v : Nat} (h : decode bs = some (v, rest)) :
    ∃ hd, bs = hd ++ rest ∧ hd ≠ [] := by
  induction bs generalizing v rest with
  | nil => simp [decode] at h
  | cons b bs ih =>
    simp only [decode] at h
    split at h
    · cases h; exact ⟨[b], by simp, by simp⟩
    · split at h
      · cases h
      · rename_i v' r' heq
        cases h
        obtain ⟨hd, e, _⟩ := ih heq
        exact ⟨b :: hd, by simp [e], by simp⟩

theorem unzigzag_zigzag (i : Int) : unzigzag (zigzag i) = i := by
  unfold zigzag unzigzag
  by_cases h : 0 ≤ i
  · simp only [h, if_true]
    have : 2 * i.toNat % 2 = 0 := by omega
    simp only [this, if_true]
    omega
  · simp only [h, if_false]
    have : ¬ ((2 * (-i).toNat - 1) % 2 = 0) := by omega
    simp only [this, if_false]
    omega

theorem zigzag_unzigzag (n : Nat) : zigzag (unzigzag n) = n := by
  unfold zigzag unzigzag
  by_cases h : n % 2 = 0
  · simp only [h, if_true]
    have : (0 : Int) ≤ ((n / 2 : Nat) : Int) := Int.natCast_nonneg _
    simp only [this, if_true]
    omega
  · simp only [h, if_false]
    have h2 : ¬ ((0 : Int) ≤ - (((n + 1) / 2 : Nat) : Int)) := by omega
    simp only [h2, if_false]
    omega

end Carquet.Spec.Varint
