/-
Thrift compact protocol, written from the protocol specification
(thrift/doc/specs/thrift-compact-protocol.md).  Shares nothing with carquet's codec.

* `TVal`: the generic value tree.  Doubles are their IEEE-754 bit pattern; a map's key and value
  types are those of its entries (an empty map is a single 0 byte and carries no types).
* `Enc` / `Encodes v bs`: the *relation* "bs is an encoding of v", admitting every legal choice:
  short field headers (delta 1..15) and long ones (type byte + zigzag i16 id), short list
  headers (size < 15) and long ones (0xF nibble + varint size, also for small sizes), element
  type nibble 1 or 2 for lists of bools, false elements as 2 or 0.
  Varints are the minimal ULEB128 form.
* `encodeVal`: the canonical encoder (short forms whenever legal, false = 2, bool lists = 2).
* `decode`: a generic decoder directed by wire types only.
Bool *fields* live in the header's type nibble (1 true, 2 false) and have no value bytes; bool
*elements* are one byte.
-/
namespace Carquet.Spec.Thrift

inductive TType where
  | bool | i8 | i16 | i32 | i64 | double | binary | list | set | map | struct | uuid
  deriving DecidableEq, Repr, Inhabited

inductive TVal where
  | bool (b : Bool)
  | i8 (v : Int)
  | i16 (v : Int)
  | i32 (v : Int)
  | i64 (v : Int)
  | double (bits : Nat)
  | binary (bs : List UInt8)
  | list (et : TType) (xs : List TVal)
  | set (et : TType) (xs : List TVal)
  | map (kvs : List (TVal × TVal))
  | struct (fs : List (Int × TVal))
  | uuid (bs : List UInt8)
  deriving Repr, Inhabited

def TVal.ty : TVal → TType
  | .bool _ => .bool | .i8 _ => .i8 | .i16 _ => .i16 | .i32 _ => .i32 | .i64 _ => .i64
  | .double _ => .double | .binary _ => .binary | .list _ _ => .list | .set _ _ => .set
  | .map _ => .map | .struct _ => .struct | .uuid _ => .uuid

mutual
/-- structural equality test (the driver's comparison; `TVal` is a nested inductive, for which
`DecidableEq` is not derived) -/
def TVal.beq : TVal → TVal → Bool
  | .bool a, .bool b => a == b
  | .i8 a, .i8 b => a == b
  | .i16 a, .i16 b => a == b
  | .i32 a, .i32 b => a == b
  | .i64 a, .i64 b => a == b
  | .double a, .double b => a == b
  | .binary a, .binary b => a == b
  | .uuid a, .uuid b => a == b
  | .list t xs, .list u ys => t == u && beqElems xs ys
  | .set t xs, .set u ys => t == u && beqElems xs ys
  | .map xs, .map ys => beqKVs xs ys
  | .struct xs, .struct ys => beqFields xs ys
  | _, _ => false
def beqElems : List TVal → List TVal → Bool
  | [], [] => true
  | x :: xs, y :: ys => x.beq y && beqElems xs ys
  | _, _ => false
def beqKVs : List (TVal × TVal) → List (TVal × TVal) → Bool
  | [], [] => true
  | (a, b) :: xs, (c, d) :: ys => a.beq c && b.beq d && beqKVs xs ys
  | _, _ => false
def beqFields : List (Int × TVal) → List (Int × TVal) → Bool
  | [], [] => true
  | (i, x) :: xs, (j, y) :: ys => i == j && x.beq y && beqFields xs ys
  | _, _ => false
end

/-- type code in field headers and container headers (bool: see `fieldCode` / `elemCode`) -/
def TType.code : TType → Nat
  | .bool => 2 | .i8 => 3 | .i16 => 4 | .i32 => 5 | .i64 => 6 | .double => 7 | .binary => 8
  | .list => 9 | .set => 10 | .map => 11 | .struct => 12 | .uuid => 13

/-- the type nibble of a field header: a bool field carries its value there -/
def fieldCode : TVal → Nat
  | .bool true => 1
  | .bool false => 2
  | v => v.ty.code

/-! ## Integers -/

/-- zigzag: 0, -1, 1, -2, … ↦ 0, 1, 2, 3, … -/
def zigzag (v : Int) : Nat := if 0 ≤ v then (2 * v).toNat else (2 * (-v) - 1).toNat
def unzigzag (n : Nat) : Int := if n % 2 = 0 then ((n / 2 : Nat) : Int) else -(((n + 1) / 2 : Nat) : Int)

def ulebAux : Nat → Nat → List UInt8
  | 0, n => [UInt8.ofNat n]
  | f + 1, n => if n < 128 then [UInt8.ofNat n] else UInt8.ofNat (n % 128 + 128) :: ulebAux f (n / 128)

/-- minimal ULEB128 of `n`; every varint of the protocol is below 2^64 (ten bytes) -/
def uleb (n : Nat) : List UInt8 := ulebAux 9 n

/-- ULEB128 reader (any length) -/
def unuleb : List UInt8 → Option (Nat × List UInt8)
  | [] => none
  | b :: r =>
    if b.toNat < 128 then some (b.toNat, r)
    else match unuleb r with
      | none => none
      | some (n, r') => some (b.toNat % 128 + 128 * n, r')

def inI8 (v : Int) : Prop := -128 ≤ v ∧ v ≤ 127
def inI16 (v : Int) : Prop := -32768 ≤ v ∧ v ≤ 32767
def inI32 (v : Int) : Prop := -2147483648 ≤ v ∧ v ≤ 2147483647
def inI64 (v : Int) : Prop := -9223372036854775808 ≤ v ∧ v ≤ 9223372036854775807
instance (v : Int) : Decidable (inI8 v) := by unfold inI8; infer_instance
instance (v : Int) : Decidable (inI16 v) := by unfold inI16; infer_instance
instance (v : Int) : Decidable (inI32 v) := by unfold inI32; infer_instance
instance (v : Int) : Decidable (inI64 v) := by unfold inI64; infer_instance

/-- two's-complement byte of an i8 -/
def byteOf (v : Int) : UInt8 := UInt8.ofNat (v % 256).toNat
def ofByte (b : UInt8) : Int := if b.toNat < 128 then b.toNat else (b.toNat : Int) - 256

def leBytes : Nat → Nat → List UInt8
  | 0, _ => []
  | n + 1, v => UInt8.ofNat (v % 256) :: leBytes n (v / 256)
def leNat : List UInt8 → Nat
  | [] => 0
  | b :: r => b.toNat + 256 * leNat r

/-- `n ≤ l.length` (looks at no more than `n` cells) -/
def hasLen : List UInt8 → Nat → Bool
  | _, 0 => true
  | [], _ + 1 => false
  | _ :: r, n + 1 => hasLen r n

/-! ## Well-formed values -/

mutual
def TVal.wf : TVal → Bool
  | .bool _ => true
  | .i8 v => decide (inI8 v)
  | .i16 v => decide (inI16 v)
  | .i32 v => decide (inI32 v)
  | .i64 v => decide (inI64 v)
  | .double bits => decide (bits < 2 ^ 64)
  | .binary bs => decide (bs.length < 2 ^ 31)
  | .list et xs => decide (xs.length < 2 ^ 31) && wfElems et xs
  | .set et xs => decide (xs.length < 2 ^ 31) && wfElems et xs
  | .map [] => true
  | .map ((k, v) :: r) => decide (r.length + 1 < 2 ^ 31) && wfKVs k.ty v.ty ((k, v) :: r)
  | .struct fs => wfFields fs
  | .uuid bs => decide (bs.length = 16)
def wfElems : TType → List TVal → Bool
  | _, [] => true
  | et, x :: r => decide (x.ty = et) && x.wf && wfElems et r
def wfKVs : TType → TType → List (TVal × TVal) → Bool
  | _, _, [] => true
  | kt, vt, (k, v) :: r => decide (k.ty = kt) && decide (v.ty = vt) && k.wf && v.wf && wfKVs kt vt r
def wfFields : List (Int × TVal) → Bool
  | [] => true
  | (id, v) :: r => decide (inI16 id) && v.wf && wfFields r
end

mutual
/-- nesting depth of containers and structs (a scalar is 0) -/
def TVal.depth : TVal → Nat
  | .list _ xs => 1 + depthElems xs
  | .set _ xs => 1 + depthElems xs
  | .map kvs => 1 + depthKVs kvs
  | .struct fs => 1 + depthFields fs
  | _ => 0
def depthElems : List TVal → Nat
  | [] => 0
  | x :: r => max x.depth (depthElems r)
def depthKVs : List (TVal × TVal) → Nat
  | [] => 0
  | (k, v) :: r => max (max k.depth v.depth) (depthKVs r)
def depthFields : List (Int × TVal) → Nat
  | [] => 0
  | (_, v) :: r => max v.depth (depthFields r)
end

/-! ## Headers -/

/-- short form: delta in the high nibble -/
def shortFieldHdr (last id : Int) (code : Nat) : List UInt8 := [UInt8.ofNat ((id - last).toNat * 16 + code)]
/-- long form: type byte, then the id as a zigzag varint -/
def longFieldHdr (id : Int) (code : Nat) : List UInt8 := UInt8.ofNat code :: uleb (zigzag id)

def FieldHdr (last id : Int) (code : Nat) (hdr : List UInt8) : Prop :=
  (0 < id - last ∧ id - last ≤ 15 ∧ hdr = shortFieldHdr last id code) ∨ hdr = longFieldHdr id code

def fieldHdr (last id : Int) (code : Nat) : List UInt8 :=
  if 0 < id - last ∧ id - last ≤ 15 then shortFieldHdr last id code else longFieldHdr id code

def shortListHdr (code n : Nat) : List UInt8 := [UInt8.ofNat (n * 16 + code)]
def longListHdr (code n : Nat) : List UInt8 := UInt8.ofNat (15 * 16 + code) :: uleb n

/-- element-type nibble: bool lists are written with 1 or 2 (both occur in the wild) -/
def ElemCode (et : TType) (code : Nat) : Prop := code = et.code ∨ (et = .bool ∧ code = 1)

def ListHdr (et : TType) (n : Nat) (hdr : List UInt8) : Prop :=
  ∃ code, ElemCode et code ∧ ((n < 15 ∧ hdr = shortListHdr code n) ∨ hdr = longListHdr code n)

def listHdr (et : TType) (n : Nat) : List UInt8 :=
  if n < 15 then shortListHdr et.code n else longListHdr et.code n

/-! ## The encoding relation -/

/-- what an encoding is an encoding of: a value (as an element / after a field header), the
elements of a list, the entries of a map, the fields of a struct after the field with id `last` -/
inductive Item where
  | val (v : TVal)
  | elems (xs : List TVal)
  | kvs (kvs : List (TVal × TVal))
  | fields (last : Int) (fs : List (Int × TVal))

inductive Enc : Item → List UInt8 → Prop
  | boolT : Enc (.val (.bool true)) [1]
  | boolF : Enc (.val (.bool false)) [2]
  | boolF0 : Enc (.val (.bool false)) [0]
  | i8 {v} : inI8 v → Enc (.val (.i8 v)) [byteOf v]
  | i16 {v} : inI16 v → Enc (.val (.i16 v)) (uleb (zigzag v))
  | i32 {v} : inI32 v → Enc (.val (.i32 v)) (uleb (zigzag v))
  | i64 {v} : inI64 v → Enc (.val (.i64 v)) (uleb (zigzag v))
  | double {bits} : bits < 2 ^ 64 → Enc (.val (.double bits)) (leBytes 8 bits)
  | binary {bs : List UInt8} : bs.length < 2 ^ 31 → Enc (.val (.binary bs)) (uleb bs.length ++ bs)
  | uuid {bs : List UInt8} : bs.length = 16 → Enc (.val (.uuid bs)) bs
  | list {et xs hdr body} : xs.length < 2 ^ 31 → (∀ x ∈ xs, x.ty = et) → ListHdr et xs.length hdr →
      Enc (.elems xs) body → Enc (.val (.list et xs)) (hdr ++ body)
  | set {et xs hdr body} : xs.length < 2 ^ 31 → (∀ x ∈ xs, x.ty = et) → ListHdr et xs.length hdr →
      Enc (.elems xs) body → Enc (.val (.set et xs)) (hdr ++ body)
  | mapNil : Enc (.val (.map [])) [0]
  | mapCons {k v r body} : r.length + 1 < 2 ^ 31 →
      (∀ p ∈ (k, v) :: r, p.1.ty = k.ty ∧ p.2.ty = v.ty) → Enc (.kvs ((k, v) :: r)) body →
      Enc (.val (.map ((k, v) :: r))) (uleb (r.length + 1) ++ UInt8.ofNat (k.ty.code * 16 + v.ty.code) :: body)
  | struct {fs body} : Enc (.fields 0 fs) body → Enc (.val (.struct fs)) (body ++ [0])
  | elemsNil : Enc (.elems []) []
  | elemsCons {x r b1 b2} : Enc (.val x) b1 → Enc (.elems r) b2 → Enc (.elems (x :: r)) (b1 ++ b2)
  | kvsNil : Enc (.kvs []) []
  | kvsCons {k v r b1 b2 b3} : Enc (.val k) b1 → Enc (.val v) b2 → Enc (.kvs r) b3 →
      Enc (.kvs ((k, v) :: r)) (b1 ++ b2 ++ b3)
  | fieldsNil {last} : Enc (.fields last []) []
  /-- a bool field: the value is in the header -/
  | fieldsBool {last id b r hdr b3} : inI16 id → FieldHdr last id (fieldCode (.bool b)) hdr →
      Enc (.fields id r) b3 → Enc (.fields last ((id, .bool b) :: r)) (hdr ++ b3)
  | fieldsCons {last id v r hdr b2 b3} : inI16 id → v.ty ≠ .bool → FieldHdr last id (fieldCode v) hdr →
      Enc (.val v) b2 → Enc (.fields id r) b3 → Enc (.fields last ((id, v) :: r)) (hdr ++ b2 ++ b3)

/-- `bs` is a compact-protocol encoding of `v` (as a stand-alone value: a struct, typically) -/
def Encodes (v : TVal) (bs : List UInt8) : Prop := Enc (.val v) bs

/-! ## The canonical encoder -/

mutual
def encodeVal : TVal → List UInt8
  | .bool b => [if b then 1 else 2]
  | .i8 v => [byteOf v]
  | .i16 v => uleb (zigzag v)
  | .i32 v => uleb (zigzag v)
  | .i64 v => uleb (zigzag v)
  | .double bits => leBytes 8 bits
  | .binary bs => uleb bs.length ++ bs
  | .list et xs => listHdr et xs.length ++ encodeElems xs
  | .set et xs => listHdr et xs.length ++ encodeElems xs
  | .map [] => [0]
  | .map ((k, v) :: r) => uleb (r.length + 1) ++ UInt8.ofNat (k.ty.code * 16 + v.ty.code) :: encodeKVs ((k, v) :: r)
  | .struct fs => encodeFields 0 fs ++ [0]
  | .uuid bs => bs
def encodeElems : List TVal → List UInt8
  | [] => []
  | x :: r => encodeVal x ++ encodeElems r
def encodeKVs : List (TVal × TVal) → List UInt8
  | [] => []
  | (k, v) :: r => encodeVal k ++ encodeVal v ++ encodeKVs r
def encodeFields : Int → List (Int × TVal) → List UInt8
  | _, [] => []
  | last, (id, .bool b) :: r => fieldHdr last id (fieldCode (.bool b)) ++ encodeFields id r
  | last, (id, v) :: r => fieldHdr last id (fieldCode v) ++ encodeVal v ++ encodeFields id r
end

/-- the canonical encoding of a value -/
def encode (v : TVal) : List UInt8 := encodeVal v

/-! ## The generic decoder -/

abbrev Res (α : Type) := Option (α × List UInt8)

/-- type named by the nibble of a container header (bool: 1 or 2) -/
def elemType (code : Nat) : Option TType :=
  match code with
  | 1 => some .bool | 2 => some .bool | 3 => some .i8 | 4 => some .i16 | 5 => some .i32 | 6 => some .i64
  | 7 => some .double | 8 => some .binary | 9 => some .list | 10 => some .set | 11 => some .map
  | 12 => some .struct | 13 => some .uuid | _ => none

/-- `n` values, each read by `f` -/
def decodeN (f : List UInt8 → Res TVal) : Nat → List UInt8 → Res (List TVal)
  | 0, bs => some ([], bs)
  | n + 1, bs =>
    match f bs with
    | none => none
    | some (x, r) =>
      match decodeN f n r with
      | none => none
      | some (xs, r') => some (x :: xs, r')

def decodePairs (fk fv : List UInt8 → Res TVal) : Nat → List UInt8 → Res (List (TVal × TVal))
  | 0, bs => some ([], bs)
  | n + 1, bs =>
    match fk bs with
    | none => none
    | some (k, r) =>
      match fv r with
      | none => none
      | some (v, r') =>
        match decodePairs fk fv n r' with
        | none => none
        | some (kvs, r'') => some ((k, v) :: kvs, r'')

/-- a zigzag varint within `[lo, hi]` -/
def decodeInt (lo hi : Int) (bs : List UInt8) : Res Int :=
  match unuleb bs with
  | none => none
  | some (n, r) => if lo ≤ unzigzag n ∧ unzigzag n ≤ hi then some (unzigzag n, r) else none

/-- list / set header: element type and size -/
def decodeListHdr (bs : List UInt8) : Res (TType × Nat) :=
  match bs with
  | [] => none
  | h :: r =>
    match elemType (h.toNat % 16) with
    | none => none
    | some et =>
      if h.toNat / 16 = 15 then
        match unuleb r with
        | none => none
        | some (n, r') => if n < 2 ^ 31 then some ((et, n), r') else none
      else some ((et, h.toNat / 16), r)

/-- the fields of a struct up to and including the stop byte; `m` bounds the number of fields
(each takes at least one byte) -/
def decodeFields (f : TType → List UInt8 → Res TVal) : Nat → Int → List UInt8 → Res (List (Int × TVal))
  | 0, _, _ => none
  | _ + 1, _, [] => none
  | m + 1, last, h :: r =>
    if h = 0 then some ([], r)
    else
      match (if h.toNat / 16 = 0 then decodeInt (-32768) 32767 r
             else if last + (h.toNat / 16 : Nat) ≤ 32767 then some (last + (h.toNat / 16 : Nat), r) else none) with
      | none => none
      | some (id, r1) =>
        match (if h.toNat % 16 = 1 then some (TVal.bool true, r1)
               else if h.toNat % 16 = 2 then some (TVal.bool false, r1)
               else match elemType (h.toNat % 16) with
                 | none => none
                 | some t => f t r1) with
        | none => none
        | some (v, r2) =>
          match decodeFields f m id r2 with
          | none => none
          | some (fs, r3) => some ((id, v) :: fs, r3)

/-- a value of type `t`; `fuel` bounds the nesting depth -/
def decodeVal : Nat → TType → List UInt8 → Res TVal
  | 0, _, _ => none
  | fuel + 1, t, bs =>
    match t with
    | .bool =>
      (match bs with
       | [] => none
       | b :: r => if b = 1 then some (.bool true, r) else if b = 2 ∨ b = 0 then some (.bool false, r) else none)
    | .i8 =>
      (match bs with
       | [] => none
       | b :: r => some (.i8 (ofByte b), r))
    | .i16 => (decodeInt (-32768) 32767 bs).map (fun p => (.i16 p.1, p.2))
    | .i32 => (decodeInt (-2147483648) 2147483647 bs).map (fun p => (.i32 p.1, p.2))
    | .i64 => (decodeInt (-9223372036854775808) 9223372036854775807 bs).map (fun p => (.i64 p.1, p.2))
    | .double => if hasLen bs 8 then some (.double (leNat (bs.take 8)), bs.drop 8) else none
    | .binary =>
      (match unuleb bs with
       | none => none
       | some (n, r) => if n < 2 ^ 31 ∧ hasLen r n then some (.binary (r.take n), r.drop n) else none)
    | .uuid => if hasLen bs 16 then some (.uuid (bs.take 16), bs.drop 16) else none
    | .list =>
      (match decodeListHdr bs with
       | none => none
       | some ((et, n), r) => (decodeN (decodeVal fuel et) n r).map (fun p => (.list et p.1, p.2)))
    | .set =>
      (match decodeListHdr bs with
       | none => none
       | some ((et, n), r) => (decodeN (decodeVal fuel et) n r).map (fun p => (.set et p.1, p.2)))
    | .map =>
      (match unuleb bs with
       | none => none
       | some (n, r) =>
         if n = 0 then some (.map [], r)
         else if n < 2 ^ 31 then
           (match r with
            | [] => none
            | tb :: r' =>
              match elemType (tb.toNat / 16), elemType (tb.toNat % 16) with
              | some kt, some vt => (decodePairs (decodeVal fuel kt) (decodeVal fuel vt) n r').map (fun p => (.map p.1, p.2))
              | _, _ => none)
         else none)
    | .struct => (decodeFields (decodeVal fuel) (bs.length) 0 bs).map (fun p => (.struct p.1, p.2))

/-- decode one value of type `t` from the front of `bs` -/
def decode (t : TType) (bs : List UInt8) : Res TVal := decodeVal (bs.length + 1) t bs

/-- decode a struct that must fill `bs` exactly -/
def decodeStruct (bs : List UInt8) : Option TVal :=
  match decode .struct bs with
  | some (v, []) => some v
  | _ => none

-- Worked examples (tests of the transcription).
-- struct { 1: i32 = 1, 2: list<i32> [1,2], 18: bool true (gap > 15: long form) }
example : encode (.struct [(1, .i32 1), (2, .list .i32 [.i32 1, .i32 2]), (18, .bool true)])
    = [0x15, 0x02, 0x19, 0x25, 0x02, 0x04, 0x01, 0x24, 0x00] := by decide +kernel
example : (decodeStruct [0x15, 0x02, 0x19, 0x25, 0x02, 0x04, 0x01, 0x24, 0x00]).map
    (TVal.beq (.struct [(1, .i32 1), (2, .list .i32 [.i32 1, .i32 2]), (18, .bool true)])) = some true := by
  decide +kernel
example : uleb 300 = [0xAC, 0x02] ∧ zigzag (-1) = 1 ∧ zigzag 1 = 2 ∧ zigzag (-64) = 127 := by decide +kernel

end Carquet.Spec.Thrift
