import Carquet.Spec.Thrift
import Carquet.Spec.ParquetThrift
/-
The outermost layer of the Parquet file format, written from the format description and
sharing nothing with carquet's reader:

    "PAR1"  <column chunks …>  <FileMetaData, Thrift compact>  <4-byte LE length of it>  "PAR1"

`completeFile p` is the envelope + footer predicate property C18 uses for "is itself a complete
Parquet file": both magics, a footer length that fits between them, a footer that decodes as a
Thrift compact struct (generic `Spec.Thrift` decoder), and that struct carries every field
parquet.thrift marks `required` in FileMetaData (`Spec.ParquetThrift.fileMetaData`).  It does
not look into the row groups (a reader that wants the data checks those when it gets there).
-/
namespace Carquet.Spec.FileEnvelope
open Carquet.Spec.Thrift Carquet.Spec.ParquetThrift

def magic : List UInt8 := [0x50, 0x41, 0x52, 0x31]

/-- the declared footer length: little-endian word before the trailing magic -/
def footerLength (p : List UInt8) : Nat := leNat ((p.drop (p.length - 8)).take 4)

/-- the fields of the footer struct, if the envelope is intact and the footer decodes -/
def footerFields (p : List UInt8) : Option (List (Int × TVal)) :=
  if p.length < 12 then none
  else if p.take 4 ≠ magic then none
  else if p.drop (p.length - 4) ≠ magic then none
  else if footerLength p + 12 > p.length then none
  else
    match decode .struct ((p.drop (p.length - 8 - footerLength p)).take (footerLength p)) with
    | some (.struct fs, _) => some fs
    | _ => none

/-- envelope intact and the footer has FileMetaData's required fields -/
def completeFile (p : List UInt8) : Bool :=
  match footerFields p with
  | some fs => fileMetaData.complete fs
  | none => false

end Carquet.Spec.FileEnvelope
