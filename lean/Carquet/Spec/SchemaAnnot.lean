import Carquet.Spec.Schema
import Carquet.Spec.Thrift
import Carquet.Impl.ThriftParquet
/-
What a schema element of a file *states* besides its place in the tree, read off the Thrift value
of the SchemaElement with parquet.thrift in hand (field 6 `converted_type`, field 10 `logicalType`
= union LogicalType: 1 STRING, 2 MAP, 3 LIST, 4 ENUM, 5 DECIMAL{1 scale, 2 precision}, 6 DATE,
7 TIME{1 isAdjustedToUTC, 2 unit}, 8 TIMESTAMP{same}, 10 INTEGER{1 bitWidth, 2 isSigned},
11 UNKNOWN (the null type), 12 JSON, 13 BSON, 14 UUID, 15 FLOAT16; TimeUnit = union 1 MILLIS,
2 MICROS, 3 NANOS), and the path rule for levels: the maximum definition (repetition) level of
a leaf is the number of optional-or-repeated (repeated) nodes on its path, i.e. the sum of the
contributions 0/1 of the nodes on the path.

Only the *type* `LogicalType` of Impl.ThriftParquet is shared (as in Spec/ParquetThriftValue);
nothing here looks at carquet's parser.  A union that sets no member this list knows (a newer
annotation, or none at all) is reported as `unknown`.
-/
namespace Carquet.Spec.SchemaAnnot
open Carquet.Spec.Thrift Carquet.Spec.Schema
open Carquet.Impl.ThriftParquet (LogicalType TimeUnit)

abbrev Fields := List (Int × TVal)

/-- the value of field `id` of a struct's field list -/
def field (fs : Fields) (id : Int) : Option TVal := (fs.find? (fun f => f.1 == id)).map (·.2)

def fieldsOf : TVal → Fields
  | .struct fs => fs
  | _ => []

def intOf : Option TVal → Int
  | some (.i8 v) => v
  | some (.i16 v) => v
  | some (.i32 v) => v
  | some (.i64 v) => v
  | _ => 0

def boolOf : Option TVal → Bool
  | some (.bool b) => b
  | _ => false

/-- union TimeUnit -/
def unitOf (v : Option TVal) : TimeUnit :=
  match v with
  | some (.struct fs) =>
    if (field fs 3).isSome then .nanos else if (field fs 2).isSome then .micros else .millis
  | _ => .millis

/-- one member of the LogicalType union -/
def memberOf (f : Int × TVal) : Option LogicalType :=
  if f.1 = 1 then some .string else if f.1 = 2 then some .map else if f.1 = 3 then some .list
  else if f.1 = 4 then some .enum
  else if f.1 = 5 then some (.decimal (intOf (field (fieldsOf f.2) 1)) (intOf (field (fieldsOf f.2) 2)))
  else if f.1 = 6 then some .date
  else if f.1 = 7 then some (.time (boolOf (field (fieldsOf f.2) 1)) (unitOf (field (fieldsOf f.2) 2)))
  else if f.1 = 8 then some (.timestamp (boolOf (field (fieldsOf f.2) 1)) (unitOf (field (fieldsOf f.2) 2)))
  else if f.1 = 10 then some (.integer (intOf (field (fieldsOf f.2) 1)) (boolOf (field (fieldsOf f.2) 2)))
  else if f.1 = 11 then some .null else if f.1 = 12 then some .json else if f.1 = 13 then some .bson
  else if f.1 = 14 then some .uuid else if f.1 = 15 then some .float16 else none

/-- the annotation a LogicalType union value holds (a union has one member; should a writer set
several, the last one listed counts) -/
def logicalOfUnion (fs : Fields) : LogicalType := ((fs.filterMap memberOf).getLast?).getD .unknown

/-- the logical type a SchemaElement states: `none` when field 10 is absent -/
def statedLogical (el : TVal) : Option LogicalType :=
  (field (fieldsOf el) 10).map (fun v => logicalOfUnion (fieldsOf v))

/-- the converted type a SchemaElement states (field 6) -/
def statedConverted (el : TVal) : Option Int :=
  match field (fieldsOf el) 6 with
  | some (.i32 v) => some v
  | _ => none

/-! ## levels along a path -/

mutual
  /-- for each leaf below the node (first element at index `idx`), the element indices of the nodes
  on its path: `acc` (the ancestors so far) then down to the leaf itself -/
  def pathsOf : Node → (idx : Nat) → (acc : List Nat) → List (List Nat)
    | .leaf _, idx, acc => [acc ++ [idx]]
    | .group _ cs, idx, acc => pathsOfList cs (idx + 1) (acc ++ [idx])
  def pathsOfList : List Node → (idx : Nat) → (acc : List Nat) → List (List Nat)
    | [], _, _ => []
    | c :: cs, idx, acc => pathsOf c idx acc ++ pathsOfList cs (idx + (flatten c).length) acc
end

/-- the paths of the columns of a schema (the root itself is not on them) -/
def paths : Node → List (List Nat)
  | .leaf _ => []
  | .group _ cs => pathsOfList cs 1 []

/-- sum over a path of a per-element contribution -/
def pathSum (els : List Element) (f : Element → Nat) (p : List Nat) : Nat :=
  (p.map (fun i => match els[i]? with | some e => f e | none => 0)).sum

end Carquet.Spec.SchemaAnnot
