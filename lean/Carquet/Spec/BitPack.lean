/-
Raw bit packing as the Parquet "Encodings" document defines it for the RLE/bit-packed hybrid
(and for DELTA_BINARY_PACKED miniblocks): each value is written with `w` bits, "packed from
the least significant bit of each byte to the most significant bit", the bits of one value in
their usual order; a value may span bytes; unused bits of the last byte are zero.

Written over bit strings, literally: values → bits (least significant first) → concatenate →
cut into bytes (first bit of each chunk is the byte's least significant bit).
Shares nothing with carquet's byte-loop implementation.
-/
namespace Carquet.Spec.BitPack

/-- the `w` low bits of `v`, least significant first -/
def bitsOf : Nat → Nat → List Bool
  | 0, _ => []
  | w + 1, v => (v % 2 == 1) :: bitsOf w (v / 2)

/-- the number a bit string denotes, first bit least significant -/
def natOfBits : List Bool → Nat
  | [] => 0
  | b :: bs => (if b then 1 else 0) + 2 * natOfBits bs

/-- all value bits in stream order -/
def valueBits (w : Nat) (vals : List Nat) : List Bool := vals.flatMap (bitsOf w)

/-- the next `n` bytes of a bit string: each byte takes the next 8 bits, first bit = least
significant; where the string has ended the missing bits are zero -/
def bytesOfBitsN : Nat → List Bool → List UInt8
  | 0, _ => []
  | n + 1, bits => UInt8.ofNat (natOfBits (bits.take 8)) :: bytesOfBitsN n (bits.drop 8)

/-- cut a bit string into `ceil(len/8)` bytes; the final partial byte is completed with zero bits -/
def bytesOfBits (bits : List Bool) : List UInt8 := bytesOfBitsN ((bits.length + 7) / 8) bits

/-- pack `vals` at `w` bits per value: `ceil(|vals|·w / 8)` bytes -/
def pack (w : Nat) (vals : List Nat) : List UInt8 := bytesOfBits (valueBits w vals)

/-- the bits of a byte string in stream order -/
def bitsOfBytes (bs : List UInt8) : List Bool := bs.flatMap (fun b => bitsOf 8 b.toNat)

/-- read `n` values of `w` bits from a bit string; `none` if it is too short -/
def takeValues (w : Nat) : Nat → List Bool → Option (List Nat)
  | 0, _ => some []
  | n + 1, bits =>
    if bits.length < w then none
    else
      match takeValues w n (bits.drop w) with
      | none => none
      | some vs => some (natOfBits (bits.take w) :: vs)

/-- unpack the first `n` values of `w` bits from `bytes` (bits after them are ignored) -/
def unpack (w : Nat) (bytes : List UInt8) (n : Nat) : Option (List Nat) :=
  takeValues w n (bitsOfBytes bytes)

-- The example of the Parquet document: the numbers 0..7 at width 3 are the bytes
-- 10001000 11000110 11111010 (test of the transcription).
example : pack 3 [0, 1, 2, 3, 4, 5, 6, 7] = [0x88, 0xC6, 0xFA] := by decide
example : unpack 3 [0x88, 0xC6, 0xFA] 8 = some [0, 1, 2, 3, 4, 5, 6, 7] := by decide
example : pack 1 [1, 0, 1] = [0x05] := by decide
example : unpack 1 [0x05] 3 = some [1, 0, 1] := by decide
example : unpack 1 [0x05] 9 = none := by decide
example : pack 9 [511, 0, 1] = [0xFF, 0x01, 0x04, 0x00] := by decide
example : pack 0 [0, 0, 0] = [] := by decide
example : unpack 0 [] 5 = some [0, 0, 0, 0, 0] := by decide

end Carquet.Spec.BitPack
