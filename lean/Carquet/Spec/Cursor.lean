/-
C02 — what "reading a column chunk" means, independent of how it is consumed.

A column chunk is a list of rows.  A row carries its definition level, its repetition level
and — iff it is not null — a value.  A cursor over a chunk is just an index.  The four
consumer operations (and re-creation of the cursor) have the obvious meaning; nothing here
knows about pages, decoded buffers, dense value arrays or page-local offsets.

Values are an opaque type `α` (bit patterns / byte strings): the cursor never looks at them.
-/
namespace Carquet.Spec.Cursor

/-- One logical row of a column chunk. `val = none` ⇔ the row is null. -/
structure Row (α : Type) where
  defLevel : Nat
  repLevel : Nat
  val : Option α
deriving DecidableEq, Repr

abbrev Chunk (α : Type) := List (Row α)

/-- A row is well formed for a column of maximum definition level `maxDef` when it carries a
value exactly if its definition level is the maximum one, and never exceeds it. -/
def Row.WF (maxDef : Nat) (r : Row α) : Prop :=
  r.defLevel ≤ maxDef ∧ (r.val.isSome ↔ r.defLevel = maxDef)

instance (maxDef : Nat) (r : Row α) : Decidable (Row.WF maxDef r) := by
  unfold Row.WF; exact inferInstance

/-- The consumer operations of the column-reader API.  Counts are signed, as in the API. -/
inductive Op where
  | read (k : Int)      -- carquet_column_read_batch(…, k, def, rep)
  | skip (k : Int)      -- carquet_column_skip(…, k)
  | hasNext             -- carquet_column_has_next
  | remaining           -- carquet_column_remaining
  | recreate            -- carquet_column_reader_free + carquet_reader_get_column
deriving DecidableEq, Repr

/-- What an operation hands back. -/
inductive Out (α : Type) where
  | read (n : Int) (rows : List (Row α))   -- n = −1 for a negative request, else rows.length
  | skip (n : Int)
  | hasNext (b : Bool)
  | remaining (n : Int)
  | recreated
deriving DecidableEq, Repr

/-- Rows still to be delivered. -/
def left (chunk : Chunk α) (pos : Nat) : Nat := chunk.length - pos

/-- One operation: new position and output. -/
def step (chunk : Chunk α) (pos : Nat) : Op → Nat × Out α
  | .read k =>
      if k < 0 then (pos, .read (-1) [])
      else (pos + min k.toNat (left chunk pos),
            .read ((min k.toNat (left chunk pos) : Nat) : Int) ((chunk.drop pos).take k.toNat))
  | .skip k =>
      if k ≤ 0 then (pos, .skip 0)
      else (pos + min k.toNat (left chunk pos), .skip ((min k.toNat (left chunk pos) : Nat) : Int))
  | .hasNext => (pos, .hasNext (decide (pos < chunk.length)))
  | .remaining => (pos, .remaining ((left chunk pos : Nat) : Int))
  | .recreate => (0, .recreated)

/-- Outputs of a whole history started at position `pos`, in order. -/
def outs (chunk : Chunk α) : Nat → List Op → List (Out α)
  | _, [] => []
  | pos, op :: ops => (step chunk pos op).2 :: outs chunk (step chunk pos op).1 ops

/-- Position after a whole history started at position `pos`. -/
def finalPos (chunk : Chunk α) : Nat → List Op → Nat
  | pos, [] => pos
  | pos, op :: ops => finalPos chunk (step chunk pos op).1 ops

/-- A history on a freshly created cursor: final position and outputs. -/
def run (chunk : Chunk α) (ops : List Op) : Nat × List (Out α) := (finalPos chunk 0 ops, outs chunk 0 ops)

/-- The logical content of a chunk as the property speaks of it: per row, `none` for a null and
`some v` for a value (null positions, values, total count all in one list). -/
def content (chunk : Chunk α) : List (Option α) := chunk.map (·.val)

-- tests of the transcription
example : (run [⟨1,0,some 7⟩, ⟨0,0,none⟩, ⟨1,0,some 9⟩] [.read 2, .remaining, .skip 5, .hasNext]).2 =
    [.read 2 [⟨1,0,some 7⟩, ⟨0,0,none⟩], .remaining 1, .skip 1, .hasNext false] := by decide
example : (run [⟨1,0,some 7⟩] [.read (-3), .read 0, .skip (-1), .read 9, .recreate, .remaining]).2 =
    [.read (-1) [], .read 0 [], .skip 0, .read 1 [⟨1,0,some 7⟩], .recreated, .remaining 1] := by decide

end Carquet.Spec.Cursor
