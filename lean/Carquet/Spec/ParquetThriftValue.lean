import Carquet.Spec.Thrift
import Carquet.Spec.ParquetThrift
import Carquet.Impl.ThriftParquet
/-
The Thrift value that parquet.thrift assigns to a metadata structure (`toTVal…`): which field id
carries which member, with which Thrift type.  Written from parquet.thrift, not from carquet's
writer; only the *types* of `Carquet.Impl.ThriftParquet` are used (the structures mirror the C
structs, and this file is the abstraction function from those structs to Thrift values).

Presence of optional members follows the C struct's own representation of "absent":
`has_x = false` / NULL pointer (`Option`), `type_length <= 0`, `num_children <= 0`,
`scale = 0`, `precision = 0`, empty min/max, an empty key/value list, a logical type that is
absent or UNKNOWN.  Members carquet never serialises are not part of the value
(`ColumnMetaData.key_value_metadata`, `encoding_stats`, `Statistics.is_*_value_exact`,
`DataPageHeaderV2.statistics`); `…Full` variants that include every member carquet *parses* are
used to state that carquet reads other writers' encodings.
-/
namespace Carquet.Spec.ParquetThrift
open Carquet.Spec.Thrift Carquet.Impl.ThriftParquet

abbrev Fields := List (Int × TVal)

/-- one field -/
def f1 (id : Int) (v : TVal) : Fields := [(id, v)]
def fOpt {α : Type} (id : Int) (mk : α → TVal) (o : Option α) : Fields :=
  match o with
  | none => []
  | some x => [(id, mk x)]
def fBinNonEmpty (id : Int) (b : Bytes) : Fields := if b.isEmpty then [] else [(id, .binary b)]
def fPos (id : Int) (v : Int) : Fields := if 0 < v then [(id, .i32 v)] else []
def fNonZero (id : Int) (v : Int) : Fields := if v = 0 then [] else [(id, .i32 v)]

def statisticsTV (s : Statistics) : TVal :=
  .struct (fBinNonEmpty 1 s.maxDeprecated ++ fBinNonEmpty 2 s.minDeprecated ++ fOpt 3 .i64 s.nullCount ++
    fOpt 4 .i64 s.distinctCount ++ fBinNonEmpty 5 s.maxValue ++ fBinNonEmpty 6 s.minValue)

def timeUnitTV (u : TimeUnit) : TVal :=
  .struct (f1 (match u with | .millis => 1 | .micros => 2 | .nanos => 3) (.struct []))

def timeTV (utc : Bool) (u : TimeUnit) : TVal := .struct (f1 1 (.bool utc) ++ f1 2 (timeUnitTV u))

/-- the LogicalType union: exactly one member (none for UNKNOWN) -/
def logicalTypeTV (lt : LogicalType) : TVal :=
  .struct (match lt with
    | .unknown => []
    | .string => [(1, .struct [])]
    | .map => [(2, .struct [])]
    | .list => [(3, .struct [])]
    | .enum => [(4, .struct [])]
    | .decimal scale precision => [(5, .struct (f1 1 (.i32 scale) ++ f1 2 (.i32 precision)))]
    | .date => [(6, .struct [])]
    | .time utc u => [(7, timeTV utc u)]
    | .timestamp utc u => [(8, timeTV utc u)]
    | .integer bw sg => [(10, .struct (f1 1 (.i8 bw) ++ f1 2 (.bool sg)))]
    | .null => [(11, .struct [])]
    | .json => [(12, .struct [])]
    | .bson => [(13, .struct [])]
    | .uuid => [(14, .struct [])]
    | .float16 => [(15, .struct [])])

def fLogical (lt : Option LogicalType) : Fields :=
  match lt with
  | none => []
  | some .unknown => []
  | some l => [(10, logicalTypeTV l)]

def schemaElementTV (s : SchemaElement) : TVal :=
  .struct (fOpt 1 .i32 s.type ++ fPos 2 s.typeLength ++ fOpt 3 .i32 s.repetition ++ fOpt 4 .binary s.name ++
    fPos 5 s.numChildren ++ fOpt 6 .i32 s.convertedType ++ fNonZero 7 s.scale ++ fNonZero 8 s.precision ++
    fOpt 9 .i32 s.fieldId ++ fLogical s.logicalType)

/-- a NULL key is written as the empty string -/
def keyValueTV (kv : KeyValue) : TVal :=
  .struct (f1 1 (.binary (kv.key.getD [])) ++ fOpt 2 .binary kv.value)

def columnMetaDataTV (m : ColumnMetaData) : TVal :=
  .struct (f1 1 (.i32 m.type) ++ f1 2 (.list .i32 (m.encodings.map .i32)) ++ f1 3 (.list .binary (m.pathInSchema.map .binary)) ++
    f1 4 (.i32 m.codec) ++ f1 5 (.i64 m.numValues) ++ f1 6 (.i64 m.totalUncompressedSize) ++ f1 7 (.i64 m.totalCompressedSize) ++
    f1 9 (.i64 m.dataPageOffset) ++ fOpt 10 .i64 m.indexPageOffset ++ fOpt 11 .i64 m.dictionaryPageOffset ++
    fOpt 12 statisticsTV m.statistics ++ fOpt 14 .i64 m.bloomFilterOffset ++ fOpt 15 .i32 m.bloomFilterLength)

def columnChunkTV (c : ColumnChunk) : TVal :=
  .struct (fOpt 1 .binary c.filePath ++ f1 2 (.i64 c.fileOffset) ++ fOpt 3 columnMetaDataTV c.metaData ++
    fOpt 4 .i64 c.offsetIndexOffset ++ fOpt 5 .i32 c.offsetIndexLength ++ fOpt 6 .i64 c.columnIndexOffset ++
    fOpt 7 .i32 c.columnIndexLength)

def rowGroupTV (g : RowGroup) : TVal :=
  .struct (f1 1 (.list .struct (g.columns.map columnChunkTV)) ++ f1 2 (.i64 g.totalByteSize) ++ f1 3 (.i64 g.numRows) ++
    fOpt 5 .i64 g.fileOffset ++ fOpt 6 .i64 g.totalCompressedSize ++ fOpt 7 .i16 g.ordinal)

def fKeyValues (kvs : List KeyValue) : Fields :=
  if kvs.isEmpty then [] else f1 5 (.list .struct (kvs.map keyValueTV))

/-- the Thrift value of a FileMetaData (the members carquet serialises) -/
def fileMetaDataTV (m : FileMetaData) : TVal :=
  .struct (f1 1 (.i32 m.version) ++ f1 2 (.list .struct (m.schema.map schemaElementTV)) ++ f1 3 (.i64 m.numRows) ++
    f1 4 (.list .struct (m.rowGroups.map rowGroupTV)) ++ fKeyValues m.keyValueMetadata ++ fOpt 6 .binary m.createdBy)

def dataPageHeaderTV (h : DataPageHeader) : TVal :=
  .struct (f1 1 (.i32 h.numValues) ++ f1 2 (.i32 h.encoding) ++ f1 3 (.i32 h.definitionLevelEncoding) ++
    f1 4 (.i32 h.repetitionLevelEncoding) ++ fOpt 5 statisticsTV h.statistics)

def dataPageHeaderV2TV (h : DataPageHeaderV2) : TVal :=
  .struct (f1 1 (.i32 h.numValues) ++ f1 2 (.i32 h.numNulls) ++ f1 3 (.i32 h.numRows) ++ f1 4 (.i32 h.encoding) ++
    f1 5 (.i32 h.definitionLevelsByteLength) ++ f1 6 (.i32 h.repetitionLevelsByteLength) ++ f1 7 (.bool h.isCompressed))

def dictionaryPageHeaderTV (h : DictionaryPageHeader) : TVal :=
  .struct (f1 1 (.i32 h.numValues) ++ f1 2 (.i32 h.encoding) ++ f1 3 (.bool h.isSorted))

def fPageMember (h : PageHeader) : Fields :=
  if h.type = pageData then f1 5 (dataPageHeaderTV h.dataPageHeader)
  else if h.type = pageDataV2 then f1 8 (dataPageHeaderV2TV h.dataPageHeaderV2)
  else if h.type = pageDictionary then f1 7 (dictionaryPageHeaderTV h.dictionaryPageHeader)
  else []

/-- the Thrift value of a PageHeader: the member named by `type` -/
def pageHeaderTV (h : PageHeader) : TVal :=
  .struct (f1 1 (.i32 h.type) ++ f1 2 (.i32 h.uncompressedPageSize) ++ f1 3 (.i32 h.compressedPageSize) ++
    fOpt 4 .i32 h.crc ++ fPageMember h)

end Carquet.Spec.ParquetThrift
