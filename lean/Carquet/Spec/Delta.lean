/-
Spec (L0): DELTA_BINARY_PACKED, DELTA_LENGTH_BYTE_ARRAY, DELTA_BYTE_ARRAY, written from the
Parquet "Encodings" document (https://parquet.apache.org/docs/file-format/data-pages/encodings/),
sharing nothing with carquet's algorithm.

  header  : <block size ULEB128> <miniblocks per block ULEB128> <total value count ULEB128>
            <first value zigzag ULEB128>
  block   : <min delta zigzag ULEB128> <one bit-width byte per miniblock> <miniblocks>
  miniblock : (block size / miniblocks) values bit-packed LSB-first at the declared width
  * block size is a multiple of 128; values per miniblock is a multiple of 32;
  * deltas, the subtraction of the frame of reference and the additions when decoding wrap
    around in two's complement in the width of the column type (32 or 64);
  * the last block may be partially filled: the miniblocks that are needed are padded to
    full size; width bytes of the unneeded miniblocks are present, may hold *any* value, and
    no data follows for them.

Contents: bit strings / ULEB128 / zigzag;  the grammar as a data type (`Stream`) with its byte
image (`Stream.bytes`) and meaning (`Stream.values`);  an executable reference decoder accepting
every legal geometry and every width 0..64;  a reference encoder steerable to any legal
geometry, frame of reference, width choice, padding and junk width bytes;  the two byte-array
encodings built on top.  Numbers are unbounded `Nat`/`Int`; the column width `W` is a parameter.
-/
namespace Carquet.Spec.Delta

deriving instance DecidableEq for Except

/-! ### LSB-first bit strings -/

/-- the `w` low bits of `n`, least significant first -/
def bitsOfNat : Nat → Nat → List Bool
  | 0, _ => []
  | w + 1, n => (n % 2 == 1) :: bitsOfNat w (n / 2)

def natOfBits : List Bool → Nat
  | [] => 0
  | b :: bs => (if b then 1 else 0) + 2 * natOfBits bs

/-- `n` bytes from a bit string (8 bits per byte, LSB first, missing bits are 0) -/
def bytesOfBits : Nat → List Bool → List UInt8
  | 0, _ => []
  | n + 1, bs => UInt8.ofNat (natOfBits (bs.take 8)) :: bytesOfBits n (bs.drop 8)

def bitsOfBytes (bs : List UInt8) : List Bool := bs.flatMap (fun b => bitsOfNat 8 b.toNat)

/-- number of bytes holding `count` values of `w` bits -/
def packedSize (w count : Nat) : Nat := (count * w + 7) / 8

/-- Parquet bit-packing (the non-deprecated, LSB-first one) of `vals` at width `w`. -/
def pack (w : Nat) (vals : List Nat) : List UInt8 :=
  bytesOfBits (packedSize w vals.length) (vals.flatMap (bitsOfNat w))

def unpackBits (w : Nat) : Nat → List Bool → List Nat
  | 0, _ => []
  | n + 1, bits => natOfBits (bits.take w) :: unpackBits w n (bits.drop w)

/-- `count` values of width `w` from the front of `bytes` -/
def unpack (w count : Nat) (bytes : List UInt8) : List Nat := unpackBits w count (bitsOfBytes bytes)

/-! ### ULEB128 and zigzag -/

def ulebEncodeAux : Nat → Nat → List UInt8
  | 0, n => [UInt8.ofNat n]
  | f + 1, n => if n < 128 then [UInt8.ofNat n] else UInt8.ofNat (n % 128 + 128) :: ulebEncodeAux f (n / 128)

/-- minimal-length ULEB128 (the fuel `n` is never exhausted before `n` drops below 128) -/
def ulebEncode (n : Nat) : List UInt8 := ulebEncodeAux n n

/-- ULEB128 of any length -/
def ulebDecode : List UInt8 → Option (Nat × List UInt8)
  | [] => none
  | b :: bs =>
    if b.toNat < 128 then some (b.toNat, bs)
    else match ulebDecode bs with
      | none => none
      | some (v, r) => some (b.toNat - 128 + 128 * v, r)

inductive Err where
  | truncated      -- the input ends inside a header, a width list or a miniblock
  | geometry       -- block size / miniblock count not allowed by the format
  | width          -- a needed miniblock declares more than 64 bits
  | overflow       -- a varint holds a number that does not fit 64 bits (no Parquet integer is wider)
  | negativeLength -- byte-array encodings: a length is negative
  | prefixTooLong  -- DELTA_BYTE_ARRAY: prefix longer than the previous value
deriving Repr, DecidableEq

/-- a varint of the format: any encoding length, but the number must fit 64 bits -/
def ulebDecode64 (bs : List UInt8) : Except Err (Nat × List UInt8) :=
  match ulebDecode bs with
  | none => .error .truncated
  | some (v, r) => if v < 2 ^ 64 then .ok (v, r) else .error .overflow

def zigzagEnc (i : Int) : Nat := if 0 ≤ i then (2 * i).toNat else (-2 * i - 1).toNat
def zigzagDec (n : Nat) : Int := if n % 2 = 0 then ((n / 2 : Nat) : Int) else -((n / 2 : Nat) : Int) - 1

/-- two's complement wrap-around in `W` bits: the representative in `[-2^(W-1), 2^(W-1))` -/
def wrap (W : Nat) (x : Int) : Int := Int.bmod x (2 ^ W)

/-! ### The grammar -/

structure Geometry where
  blockSize : Nat
  miniblocks : Nat
deriving Repr, DecidableEq

/-- values per miniblock -/
def Geometry.vpm (g : Geometry) : Nat := g.blockSize / g.miniblocks

/-- "the block size is a multiple of 128; the miniblock count per block is a divisor of the
block size such that their quotient, the number of values in a miniblock, is a multiple of 32" -/
def Geometry.legal (g : Geometry) : Prop :=
  0 < g.blockSize ∧ g.blockSize % 128 = 0 ∧ 0 < g.miniblocks ∧ g.blockSize % g.miniblocks = 0 ∧
  g.vpm % 32 = 0

instance (g : Geometry) : Decidable g.legal := by unfold Geometry.legal; exact inferInstance

/-- One block of the stream.  `adj` are the deltas of the block minus the frame of reference
(1 .. block size of them), `pad` completes the last needed miniblock, `widths` has one byte per
miniblock of the geometry (those of unneeded miniblocks are arbitrary). -/
structure Block where
  minDelta : Int
  widths : List UInt8
  adj : List Nat
  pad : List Nat
deriving Repr

structure Stream where
  geom : Geometry
  count : Nat
  first : Int
  blocks : List Block
deriving Repr

/-- miniblocks in order: while values are left, `vpm` of them at the next width -/
def packMinis (vpm : Nat) : List UInt8 → List Nat → List UInt8
  | [], _ => []
  | w :: ws, xs => if xs = [] then [] else pack w.toNat (xs.take vpm) ++ packMinis vpm ws (xs.drop vpm)

def Block.bytes (g : Geometry) (b : Block) : List UInt8 :=
  ulebEncode (zigzagEnc b.minDelta) ++ b.widths ++ packMinis g.vpm b.widths (b.adj ++ b.pad)

def Stream.header (s : Stream) : List UInt8 :=
  ulebEncode s.geom.blockSize ++ ulebEncode s.geom.miniblocks ++ ulebEncode s.count ++
  ulebEncode (zigzagEnc s.first)

def Stream.bytes (s : Stream) : List UInt8 := s.header ++ s.blocks.flatMap (Block.bytes s.geom)

/-- range of a 64-bit two's complement integer: every zigzag varint of the format stays below 2^64 -/
def inI64 (i : Int) : Prop := -(2 ^ 63) ≤ i ∧ i < 2 ^ 63

instance (i : Int) : Decidable (inI64 i) := by unfold inI64; exact inferInstance

/-- every needed miniblock has a width ≤ 64 that its values (and padding) fit in -/
def fits (vpm : Nat) : List UInt8 → List Nat → Prop
  | [], xs => xs = []
  | w :: ws, xs => xs = [] ∨ (w.toNat ≤ 64 ∧ (∀ x ∈ xs.take vpm, x < 2 ^ w.toNat) ∧ fits vpm ws (xs.drop vpm))

def Block.wf (g : Geometry) (b : Block) : Prop :=
  b.widths.length = g.miniblocks ∧ 0 < b.adj.length ∧ b.adj.length ≤ g.blockSize ∧
  (b.adj.length + b.pad.length) % g.vpm = 0 ∧ b.pad.length < g.vpm ∧
  fits g.vpm b.widths (b.adj ++ b.pad) ∧ inI64 b.minDelta

/-- all blocks but the last are full -/
def blocksWf (g : Geometry) : List Block → Prop
  | [] => True
  | [b] => b.wf g
  | b :: b' :: bs => b.wf g ∧ b.adj.length = g.blockSize ∧ blocksWf g (b' :: bs)

def totalDeltas (bs : List Block) : Nat := (bs.map (fun b => b.adj.length)).sum

/-- the header numbers fit 64-bit varints -/
def Stream.fits64 (s : Stream) : Prop :=
  s.geom.blockSize < 2 ^ 64 ∧ s.geom.miniblocks < 2 ^ 64 ∧ s.count < 2 ^ 64 ∧ inI64 s.first

instance (s : Stream) : Decidable s.fits64 := by unfold Stream.fits64; exact inferInstance

def Stream.wf (s : Stream) : Prop :=
  s.geom.legal ∧ blocksWf s.geom s.blocks ∧
  (s.count = totalDeltas s.blocks + 1 ∨ (s.count = 0 ∧ s.blocks = [])) ∧ s.fits64

/-- running sums with wrap-around -/
def accum (W : Nat) : Int → List Int → List Int
  | _, [] => []
  | last, d :: ds => wrap W (last + d) :: accum W (wrap W (last + d)) ds

def Block.deltas (b : Block) : List Int := b.adj.map (fun (a : Nat) => b.minDelta + Int.ofNat a)

/-- the values a stream denotes for a column of width `W` -/
def Stream.values (W : Nat) (s : Stream) : List Int :=
  if s.count = 0 then [] else wrap W s.first :: accum W (wrap W s.first) (s.blocks.flatMap Block.deltas)

/-- `bs` is a DELTA_BINARY_PACKED stream denoting `vs` (column width `W`) -/
def IsStream (W : Nat) (bs : List UInt8) (vs : List Int) : Prop :=
  ∃ s : Stream, s.wf ∧ bs = s.bytes ∧ vs = s.values W

/-! ### Reference decoder -/


/-- the needed miniblocks of one block: `r` values are still wanted (of the last needed miniblock
only the wanted values are unpacked; its padding is skipped) -/
def decodeMinis (vpm : Nat) : List UInt8 → Nat → List UInt8 → Except Err (List Nat × List UInt8)
  | [], _, bs => .ok ([], bs)
  | w :: ws, r, bs =>
    if r = 0 then .ok ([], bs)
    else if 64 < w.toNat then .error .width
    else if bs.length < packedSize w.toNat vpm then .error .truncated
    else match decodeMinis vpm ws (r - vpm) (bs.drop (packedSize w.toNat vpm)) with
      | .error e => .error e
      | .ok (more, rest) => .ok (unpack w.toNat (min vpm r) (bs.take (packedSize w.toNat vpm)) ++ more, rest)

/-- blocks until `r` deltas have been produced (`fuel ≥ r` is enough: every block yields at
least one delta) -/
def decodeBlocks (g : Geometry) : Nat → Nat → List UInt8 → Except Err (List Int × List UInt8)
  | _, 0, bs => .ok ([], bs)
  | 0, _ + 1, _ => .error .truncated
  | fuel + 1, r + 1, bs =>
    match ulebDecode64 bs with
    | .error e => .error e
    | .ok (zz, bs1) =>
      if bs1.length < g.miniblocks then .error .truncated
      else match decodeMinis g.vpm (bs1.take g.miniblocks) (r + 1) (bs1.drop g.miniblocks) with
        | .error e => .error e
        | .ok (adj, bs2) =>
          match decodeBlocks g fuel (r + 1 - g.blockSize) bs2 with
          | .error e => .error e
          | .ok (more, bs3) => .ok (adj.map (fun (a : Nat) => zigzagDec zz + Int.ofNat a) ++ more, bs3)

structure Header where
  geom : Geometry
  count : Nat
  first : Int
deriving Repr

def decodeHeader (bs : List UInt8) : Except Err (Header × List UInt8) :=
  match ulebDecode64 bs with
  | .error e => .error e
  | .ok (blockSize, bs1) =>
    match ulebDecode64 bs1 with
    | .error e => .error e
    | .ok (miniblocks, bs2) =>
      match ulebDecode64 bs2 with
      | .error e => .error e
      | .ok (count, bs3) =>
        match ulebDecode64 bs3 with
        | .error e => .error e
        | .ok (zz, bs4) =>
          if Geometry.legal ⟨blockSize, miniblocks⟩ then
            .ok (⟨⟨blockSize, miniblocks⟩, count, zigzagDec zz⟩, bs4)
          else .error .geometry

/-- Decode a whole DELTA_BINARY_PACKED stream of column width `W` from the front of `bs`;
returns all `count` values and the bytes that follow the stream. -/
def decode (W : Nat) (bs : List UInt8) : Except Err (List Int × List UInt8) :=
  match decodeHeader bs with
  | .error e => .error e
  | .ok (h, rest) =>
    if h.count = 0 then .ok ([], rest)
    else match decodeBlocks h.geom (h.count - 1) (h.count - 1) rest with
      | .error e => .error e
      | .ok (ds, rest') => .ok (wrap W h.first :: accum W (wrap W h.first) ds, rest')

/-! ### Reference encoder, steerable -/

/-- number of bits of `n` (0 for 0) -/
def bitLen : Nat → Nat
  | 0 => 0
  | n + 1 => Nat.log2 (n + 1) + 1

/-- steering of one block -/
structure Choice where
  /-- frame of reference; `none`: the minimum of the block's deltas, as the text prescribes -/
  minDelta : Option Int := none
  /-- per needed miniblock: bits to add to the minimal width (the result is capped at 64) -/
  extraWidth : List Nat := []
  /-- width bytes to put in the slots of unneeded miniblocks (missing ones are 0) -/
  junk : List UInt8 := []
  /-- padding values for the last needed miniblock (reduced to the miniblock's width; missing: 0) -/
  pad : List Nat := []
deriving Repr

structure Params where
  geom : Geometry := ⟨128, 4⟩
  /-- steering per block index -/
  choice : Nat → Choice := fun _ => {}

def listMin : Int → List Int → Int
  | m, [] => m
  | m, d :: ds => listMin (if d < m then d else m) ds

def listMax : Nat → List Nat → Nat
  | m, [] => m
  | m, d :: ds => listMax (if m < d then d else m) ds

/-- the W-bit wrapped differences of consecutive values -/
def deltasOf (W : Nat) : Int → List Int → List Int
  | _, [] => []
  | last, v :: vs => wrap W (v - last) :: deltasOf W v vs

/-- `xs` cut into pieces of `n` (the last may be shorter); `fuel ≥ xs.length` suffices -/
def chunksAux (n : Nat) : Nat → List α → List (List α)
  | 0, _ => []
  | fuel + 1, xs => if xs = [] then [] else xs.take n :: chunksAux n fuel (xs.drop n)

def chunks (n : Nat) (xs : List α) : List (List α) := chunksAux n xs.length xs

/-- width chosen for one miniblock: the minimal one plus the extra bits asked for, if that stays ≤ 64 -/
def widthFor (extra : Nat) (chunk : List Nat) : Nat :=
  if bitLen (listMax 0 chunk) + extra ≤ 64 then bitLen (listMax 0 chunk) + extra else bitLen (listMax 0 chunk)

def chunkWidths : List Nat → List (List Nat) → List Nat
  | _, [] => []
  | extra, c :: cs => widthFor (extra.headD 0) c :: chunkWidths extra.tail cs

/-- One block from its (wrapped) deltas `ds` under steering `c`: frame of reference, adjusted
deltas, padding (the steering's values reduced to `W` bits) up to a whole number of miniblocks,
a width per needed miniblock, the steering's junk in the remaining width slots. -/
def encodeBlock (W : Nat) (g : Geometry) (c : Choice) (ds : List Int) : Block :=
  let md := c.minDelta.getD (listMin (ds.headD 0) ds)
  let adj := ds.map (fun d => ((d - md) % (2 ^ W : Int)).toNat)
  let m := (adj.length + g.vpm - 1) / g.vpm
  let pad := (List.range (m * g.vpm - adj.length)).map (fun i => (c.pad[i]?.getD 0) % 2 ^ W)
  let ws := chunkWidths c.extraWidth (chunks g.vpm (adj ++ pad))
  { minDelta := md
    widths := ws.map UInt8.ofNat ++ (List.range (g.miniblocks - ws.length)).map (fun i => c.junk[i]?.getD 0)
    adj := adj
    pad := pad }

def encodeBlocks (W : Nat) (p : Params) : Nat → List (List Int) → List Block
  | _, [] => []
  | k, ds :: rest => encodeBlock W p.geom (p.choice k) ds :: encodeBlocks W p (k + 1) rest

/-- the stream (grammar element) the steered encoder builds for `vs` -/
def encodeStream (W : Nat) (p : Params) : List Int → Stream
  | [] => ⟨p.geom, 0, 0, []⟩
  | v :: vs => ⟨p.geom, vs.length + 1, v, encodeBlocks W p 0 (chunks p.geom.blockSize (deltasOf W v vs))⟩

def encode (W : Nat) (p : Params) (vs : List Int) : List UInt8 := (encodeStream W p vs).bytes

/-! ### DELTA_LENGTH_BYTE_ARRAY: `<lengths, DELTA_BINARY_PACKED> <all bytes, concatenated>` -/

def splitByLengths : List Int → List UInt8 → Except Err (List (List UInt8) × List UInt8)
  | [], bs => .ok ([], bs)
  | l :: ls, bs =>
    if l < 0 then .error .negativeLength
    else if bs.length < l.toNat then .error .truncated
    else match splitByLengths ls (bs.drop l.toNat) with
      | .error e => .error e
      | .ok (vs, rest) => .ok (bs.take l.toNat :: vs, rest)

def decodeLengthByteArray (bs : List UInt8) : Except Err (List (List UInt8) × List UInt8) :=
  match decode 32 bs with
  | .error e => .error e
  | .ok (lens, rest) => splitByLengths lens rest

def encodeLengthByteArray (p : Params) (vs : List (List UInt8)) : List UInt8 :=
  encode 32 p (vs.map (fun v => Int.ofNat v.length)) ++ vs.flatten

/-! ### DELTA_BYTE_ARRAY: `<prefix lengths, DELTA_BINARY_PACKED> <suffixes, DELTA_LENGTH_BYTE_ARRAY>` -/

def joinPrefixes : List UInt8 → List Int → List (List UInt8) → Except Err (List (List UInt8))
  | _, [], [] => .ok []
  | prev, p :: ps, s :: ss =>
    if p < 0 then .error .negativeLength
    else if prev.length < p.toNat then .error .prefixTooLong
    else match joinPrefixes (prev.take p.toNat ++ s) ps ss with
      | .error e => .error e
      | .ok vs => .ok ((prev.take p.toNat ++ s) :: vs)
  | _, _, _ => .error .truncated

def decodeByteArray (bs : List UInt8) : Except Err (List (List UInt8) × List UInt8) :=
  match decode 32 bs with
  | .error e => .error e
  | .ok (prefixes, rest) =>
    match decodeLengthByteArray rest with
    | .error e => .error e
    | .ok (suffixes, rest') =>
      match joinPrefixes [] prefixes suffixes with
      | .error e => .error e
      | .ok vs => .ok (vs, rest')

def commonPrefix : List UInt8 → List UInt8 → Nat
  | a :: as, b :: bs => if a = b then commonPrefix as bs + 1 else 0
  | _, _ => 0

/-- prefix lengths: the shared prefix with the previous value, optionally capped by `cap i`
(any shorter prefix is an equally legal stream) -/
def prefixLengths (cap : Nat → Nat) : Nat → List UInt8 → List (List UInt8) → List Nat
  | _, _, [] => []
  | i, prev, v :: vs => min (commonPrefix prev v) (cap i) :: prefixLengths cap (i + 1) v vs

def encodeByteArray (pPre pSuf : Params) (cap : Nat → Nat) (vs : List (List UInt8)) : List UInt8 :=
  let pl := prefixLengths cap 0 [] vs
  encode 32 pPre (pl.map Int.ofNat) ++
  encodeLengthByteArray pSuf (List.zipWith (fun n v => v.drop n) pl vs)

/-! ### Known answers (tests of the transcription, not proofs) -/

-- the document's first example: 1,2,3,4,5 → deltas 1,1,1,1; min delta 1; widths 0
example : encode 32 {} [1, 2, 3, 4, 5] = [0x80, 0x01, 0x04, 0x05, 0x02, 0x02, 0, 0, 0, 0] := by decide +kernel
example : decode 32 [0x80, 0x01, 0x04, 0x05, 0x02, 0x02, 0, 0, 0, 0] = .ok ([1, 2, 3, 4, 5], []) := by decide +kernel
-- the document's second example: 7,5,3,1,2,3,4,5 → deltas -2,-2,-2,1,1,1,1; min delta -2; adjusted 0,0,0,3,3,3,3; width 2
example : (encode 32 {} [7, 5, 3, 1, 2, 3, 4, 5]).take 17 =
    [0x80, 0x01, 0x04, 0x08, 0x0e, 0x03, 2, 0, 0, 0, 0xc0, 0x3f, 0, 0, 0, 0, 0] := by decide +kernel
example : decode 32 (encode 32 {} [7, 5, 3, 1, 2, 3, 4, 5]) = .ok ([7, 5, 3, 1, 2, 3, 4, 5], []) := by decide +kernel
-- wrap-around: INT32_MIN, INT32_MAX, INT32_MIN has 32-bit deltas -1, +1
example : decode 32 (encode 32 {} [-2147483648, 2147483647, -2147483648]) =
    .ok ([-2147483648, 2147483647, -2147483648], []) := by decide +kernel
-- another geometry, junk width bytes, wider-than-needed miniblocks, a lower frame of reference
example : decode 64 (encode 64 { geom := ⟨256, 2⟩, choice := fun _ => { minDelta := some (-5), extraWidth := [3], junk := [0xff], pad := [1, 2, 3] } }
                     [10, 20, 15, -9223372036854775808, 9223372036854775807]) =
    .ok ([10, 20, 15, -9223372036854775808, 9223372036854775807], []) := by decide +kernel
example : decodeByteArray (encodeByteArray {} {} (fun _ => 1000) [[1, 2, 3], [1, 2, 4, 5], [], [1, 2, 4, 5]]) =
    .ok ([[1, 2, 3], [1, 2, 4, 5], [], [1, 2, 4, 5]], []) := by decide +kernel

end Carquet.Spec.Delta
