import Carquet.Spec.Xxh64
/-
The Parquet split-block Bloom filter (SBBF), written from the format document
(parquet-format `BloomFilter.md`, sections "Technical approach" and "File format").

A *block* is 256 bits: eight 32-bit *words*.  `mask(x)` has exactly one bit set in each word:
in word `i` the bit `(x * salt[i]) >> 27` (32-bit multiplication).  `block_insert` sets the
mask's bits, `block_check` tests that all of them are set.  A filter is a sequence of `z`
blocks; a 64-bit hash `h` goes to block `((h >> 32) * z) >> 32` and uses the low 32 bits of `h`
inside the block.  The hash of a value is XXH64 with seed 0 of its PLAIN encoding (for byte
arrays: the bytes, without the length prefix).  The bitset is stored as the blocks in order,
each block as its eight words in order, each word little-endian.

Shares nothing with carquet's code.  The thrift `BloomFilterHeader` that precedes the bitset in
a file is not part of this component (carquet's `carquet_bloom_filter_write` emits the bitset only).
-/
namespace Carquet.Spec.Sbbf

abbrev Word := BitVec 32

/-- The eight salt constants of the format document. -/
def salt : List Word :=
  [0x47b6137b#32, 0x44974d91#32, 0x8824ad5b#32, 0xa2b7289d#32,
   0x705495c7#32, 0x2df1424b#32, 0x9efc4947#32, 0x5c6bfb31#32]

/-- A block: eight words. -/
abbrev Block := List Word

/-- A filter: its blocks, in order. -/
abbrev Filter := List Block

def emptyBlock : Block := List.replicate 8 0#32

/-- The filter with `z` blocks and no bit set. -/
def empty (z : Nat) : Filter := List.replicate z emptyBlock

/-- `mask(x)`: word `i` has the single bit `(x * salt[i]) >> 27` set. -/
def mask (x : Word) : Block := salt.map (fun s => 1#32 <<< ((x * s) >>> 27).toNat)

/-- `block_insert(b, x)`: every bit of the mask is set in the block. -/
def blockInsert (b : Block) (x : Word) : Block := List.zipWith (· ||| ·) b (mask x)

/-- `block_check(b, x)`: every bit of the mask is set in the block. -/
def blockCheck (b : Block) (x : Word) : Bool :=
  b.length == 8 && (List.zipWith (fun w m => w &&& m == m) b (mask x)).all id

/-- `((h >> 32) * z) >> 32`, the block a hash goes to in a filter of `z` blocks. -/
def blockIndex (h : BitVec 64) (z : Nat) : Nat := ((h >>> 32).toNat * z) >>> 32

/-- `(unsigned int32) h` -/
def low (h : BitVec 64) : Word := h.setWidth 32

/-- Apply `g` to element `i` of a list (nothing happens if there is no such element). -/
def modifyNth (g : α → α) : Nat → List α → List α
  | _, [] => []
  | 0, a :: as => g a :: as
  | n + 1, a :: as => a :: modifyNth g n as

/-- `block_insert(filter.getBlock(i), x)` -/
def insertAt (f : Filter) (i : Nat) (x : Word) : Filter := modifyNth (blockInsert · x) i f

/-- `block_check(filter.getBlock(i), x)` (a filter without block `i` contains nothing). -/
def checkAt (f : Filter) (i : Nat) (x : Word) : Bool :=
  match f[i]? with
  | some b => blockCheck b x
  | none => false

/-- `filter_insert(filter, h)` -/
def insert (f : Filter) (h : BitVec 64) : Filter := insertAt f (blockIndex h f.length) (low h)

/-- `filter_check(filter, h)` -/
def check (f : Filter) (h : BitVec 64) : Bool := checkAt f (blockIndex h f.length) (low h)

/-- Union of two filters with the same number of blocks: word-wise OR. -/
def union (f g : Filter) : Filter := List.zipWith (List.zipWith (· ||| ·)) f g

/-! ### Serialised form -/

/-- The four bytes of a word, least significant first. -/
def wordBytes (w : Word) : List UInt8 :=
  [UInt8.ofBitVec (w.setWidth 8), UInt8.ofBitVec ((w >>> 8).setWidth 8),
   UInt8.ofBitVec ((w >>> 16).setWidth 8), UInt8.ofBitVec ((w >>> 24).setWidth 8)]

/-- The bitset of a filter. -/
def serialize (f : Filter) : List UInt8 := f.flatMap (fun b => b.flatMap wordBytes)

/-- The word whose little-endian bytes are `bs`. -/
def wordOfBytes (bs : List UInt8) : Word :=
  bs.foldr (fun b acc => (acc <<< 8) ||| b.toBitVec.setWidth 32) 0#32

/-- The words of a bitset (four bytes each; an incomplete group at the end is not a word). -/
def wordsOfBytes : List UInt8 → List Word
  | b0 :: b1 :: b2 :: b3 :: rest => wordOfBytes [b0, b1, b2, b3] :: wordsOfBytes rest
  | _ => []

/-- Words grouped into blocks of eight. -/
def blocksOfWords : List Word → List Block
  | w0 :: w1 :: w2 :: w3 :: w4 :: w5 :: w6 :: w7 :: rest =>
      [w0, w1, w2, w3, w4, w5, w6, w7] :: blocksOfWords rest
  | _ => []

/-- The filter a bitset denotes. -/
def parse (bytes : List UInt8) : Filter := blocksOfWords (wordsOfBytes bytes)

/-! ### Hashing of values -/

/-- The values a Bloom filter can hold, by physical type (floating-point values by their IEEE
bit patterns). -/
inductive Value where
  | int32 (v : BitVec 32)
  | int64 (v : BitVec 64)
  | float (bits : BitVec 32)
  | double (bits : BitVec 64)
  | bytes (b : List UInt8)
deriving DecidableEq, Repr

/-- `n` bytes of `v`, least significant first. -/
def leBytes (n : Nat) (v : BitVec w) : List UInt8 :=
  (List.range n).map (fun k => UInt8.ofBitVec ((v >>> (8 * k)).setWidth 8))

/-- PLAIN encoding of a single value (byte arrays: the bytes only). -/
def plain : Value → List UInt8
  | .int32 v => leBytes 4 v
  | .int64 v => leBytes 8 v
  | .float v => leBytes 4 v
  | .double v => leBytes 8 v
  | .bytes b => b

/-- The hash that is inserted for a value: XXH64, seed 0, of the PLAIN encoding. -/
def hashValue (v : Value) : BitVec 64 := Spec.Xxh64.xxh64 (plain v) 0#64

/-! Worked example of the format document's arithmetic (tests of the transcription). -/

-- a hash in the upper half of the range goes to the upper half of the blocks
example : blockIndex 0x8000000000000000#64 4 = 2 := by decide
example : blockIndex 0xFFFFFFFFFFFFFFFF#64 4 = 3 := by decide
example : blockIndex 0x00000000FFFFFFFF#64 4 = 0 := by decide
-- x = 1: the bit positions are the top five bits of the salts
example : mask 1#32 = [1#32 <<< 8, 1#32 <<< 8, 1#32 <<< 17, 1#32 <<< 20,
                        1#32 <<< 14, 1#32 <<< 5, 1#32 <<< 19, 1#32 <<< 11] := by decide
example : check (insert (empty 3) 0x123456789ABCDEF0#64) 0x123456789ABCDEF0#64 = true := by decide
example : check (empty 3) 0x123456789ABCDEF0#64 = false := by decide
example : parse (serialize (insert (empty 2) 0x123456789ABCDEF0#64)) = insert (empty 2) 0x123456789ABCDEF0#64 := by
  decide

end Carquet.Spec.Sbbf
