/-
Parquet schema trees and the Dremel level rule, written from the format description:
a schema is stored as the depth-first list of its nodes, each with its number of children;
for a leaf, max definition level = number of optional-or-repeated nodes on the path from
(below) the root to the leaf, itself included; max repetition level = number of repeated ones.
-/
namespace Carquet.Spec.Schema

inductive Rep where
  | required | optional | repeated
  deriving DecidableEq, Repr

/-- union TimeUnit of parquet.thrift: 1 MILLIS, 2 MICROS, 3 NANOS -/
inductive AnnotTimeUnit where
  | millis | micros | nanos
  deriving DecidableEq, Repr

/-- What the LogicalType union of parquet.thrift (SchemaElement field 10) can state, member by
member: 1 STRING, 2 MAP, 3 LIST, 4 ENUM, 5 DECIMAL {1 scale, 2 precision}, 6 DATE,
7 TIME {1 isAdjustedToUTC, 2 unit}, 8 TIMESTAMP {same}, 10 INTEGER {1 bitWidth, 2 isSigned},
11 UNKNOWN (NullType: "always null"), 12 JSON, 13 BSON, 14 UUID, 15 FLOAT16.  The parameters are the
REQUIRED fields of the member structs (DecimalType, TimeType, TimestampType, IntType). -/
inductive Annotation where
  | string | map | list | enum
  | decimal (scale precision : Int)
  | date
  | time (utc : Bool) (unit : AnnotTimeUnit)
  | timestamp (utc : Bool) (unit : AnnotTimeUnit)
  | integer (bitWidth : Int) (signed : Bool)
  | nullType | json | bson | uuid | float16
  deriving DecidableEq, Repr

/-- Everything an element states besides the tree shape. `rep = none`: repetition absent.
`logical` is the CONVERTED type (SchemaElement field 6, the deprecated enum); `logicalType` is the
annotation of the LogicalType union (field 10; `none`: no field 10, or a single member that is not
in the list above — a newer annotation a reader may ignore). -/
structure Info where
  name : String
  rep : Option Rep
  ptype : Option Nat
  typeLength : Int
  logical : Option Nat
  logicalType : Option Annotation := none
  deriving DecidableEq, Repr

inductive Node where
  | leaf (i : Info)
  | group (i : Info) (children : List Node)

structure Element where
  info : Info
  numChildren : Int
  deriving DecidableEq, Repr

/-- One column as the reader must expose it. -/
structure Leaf where
  elemIdx : Nat
  maxDef : Nat
  maxRep : Nat
  deriving DecidableEq, Repr

def defInc : Option Rep → Nat
  | some .optional => 1
  | some .repeated => 1
  | _ => 0

def repInc : Option Rep → Nat
  | some .repeated => 1
  | _ => 0

mutual
  /-- depth-first serialisation -/
  def flatten : Node → List Element
    | .leaf i => [⟨i, 0⟩]
    | .group i cs => ⟨i, cs.length⟩ :: flattenList cs
  def flattenList : List Node → List Element
    | [] => []
    | c :: cs => flatten c ++ flattenList cs
end

mutual
  /-- leaves of a subtree whose first element has index `idx`, under `d`/`r` levels inherited -/
  def leavesOf : Node → (idx d r : Nat) → List Leaf
    | .leaf i, idx, d, r => [⟨idx, d + defInc i.rep, r + repInc i.rep⟩]
    | .group i cs, idx, d, r => leavesOfList cs (idx + 1) (d + defInc i.rep) (r + repInc i.rep)
  def leavesOfList : List Node → (idx d r : Nat) → List Leaf
    | [], _, _, _ => []
    | c :: cs, idx, d, r => leavesOf c idx d r ++ leavesOfList cs (idx + (flatten c).length) d r
end

/-- Columns of a file whose root is `root` (the root's own repetition does not count). -/
def leaves : Node → List Leaf
  | .leaf _ => []
  | .group _ cs => leavesOfList cs 1 0 0

mutual
  /-- what the leaves (columns) of a subtree state, in column order -/
  def leafInfos : Node → List Info
    | .leaf i => [i]
    | .group _ cs => leafInfosList cs
  def leafInfosList : List Node → List Info
    | [] => []
    | c :: cs => leafInfos c ++ leafInfosList cs
end

mutual
  /-- every group below (and including) this node has at least one child -/
  def groupsNonEmpty : Node → Bool
    | .leaf _ => true
    | .group _ cs => !cs.isEmpty && groupsNonEmptyList cs
  def groupsNonEmptyList : List Node → Bool
    | [] => true
    | c :: cs => groupsNonEmpty c && groupsNonEmptyList cs
end

mutual
  /-- groups carry no physical type, leaves carry one (as the format requires) -/
  def typed : Node → Bool
    | .leaf i => i.ptype.isSome
    | .group i cs => i.ptype.isNone && typedList cs
  def typedList : List Node → Bool
    | [] => true
    | c :: cs => typed c && typedList cs
end

end Carquet.Spec.Schema

namespace Carquet.Spec.Schema

mutual
  /-- Rebuild the tree from a depth-first list (used by the driver to recognise well-formed
  inputs); `fuel` ≥ number of elements suffices. Returns the node and the unread rest. -/
  def parseNode : (fuel : Nat) → List Element → Option (Node × List Element)
    | 0, _ => none
    | _, [] => none
    | fuel + 1, e :: rest =>
      if e.numChildren == 0 then some (.leaf e.info, rest)
      else if e.numChildren < 0 then none
      else match parseNodes fuel e.numChildren.toNat rest with
        | some (cs, rest') => some (.group e.info cs, rest')
        | none => none
  def parseNodes : (fuel : Nat) → (n : Nat) → List Element → Option (List Node × List Element)
    | _, 0, rest => some ([], rest)
    | fuel, n + 1, rest =>
      match parseNode fuel rest with
      | some (c, rest') =>
        match parseNodes fuel n rest' with
        | some (cs, rest'') => some (c :: cs, rest'')
        | none => none
      | none => none
end

/-- `some root` iff `els` is exactly the depth-first list of a tree whose root is a group. -/
def parseTree (els : List Element) : Option Node :=
  match parseNode (els.length + 1) els with
  | some (.group i cs, []) => some (.group i cs)
  | _ => none

end Carquet.Spec.Schema
