import Carquet.Spec.Varint
import Carquet.Spec.BitPack
/-
The RLE / bit-packed hybrid of the Parquet "Encodings" document (encoding RLE = 3; used for
definition/repetition levels, dictionary indices and booleans):

  encoded-block   := run*
  run             := bit-packed-run | rle-run
  bit-packed-run  := <bit-packed-header> <bit-packed-values>
  bit-packed-header := varint-encode(<bit-pack-scaled-run-len> << 1 | 1)     -- run-len = groups of 8
  bit-packed-values := groups·w bytes, values packed LSB first (Spec.BitPack)
  rle-run         := <rle-header> <repeated-value>
  rle-header      := varint-encode((rle-run-len) << 1)
  repeated-value  := value stored in round-up-to-next-byte(w) bytes, little endian

The number of values is known to the reader from outside (page header); it takes the first `n`
values the runs denote, so the values of the last bit-packed group beyond `n` are padding and
may be anything.  Nothing in the grammar forbids runs of length 0, several groups per
bit-packed run, or a non-canonical (over-long) varint.

Scope decision (documented, not taken from carquet): a run header is an *unsigned 32-bit*
varint — at most 5 bytes, value below 2^32 — as in parquet-java (`readUnsignedVarInt`) and
Arrow (`GetVlqInt(uint32_t*)`).

Shares nothing with carquet's encoder/decoder.
-/
namespace Carquet.Spec.RleHybrid
open Carquet.Spec

/-- round-up-to-next-byte(w) -/
def valueBytes (w : Nat) : Nat := (w + 7) / 8

/-- `n` little-endian bytes of `v` -/
def leBytes : Nat → Nat → List UInt8
  | 0, _ => []
  | n + 1, v => UInt8.ofNat (v % 256) :: leBytes n (v / 256)

/-- the number denoted by little-endian bytes -/
def leValue : List UInt8 → Nat
  | [] => 0
  | b :: bs => b.toNat + 256 * leValue bs

/-- `hdr` is one complete ULEB128 number `h` that fits an unsigned 32-bit varint. -/
def IsHeader (hdr : List UInt8) (h : Nat) : Prop :=
  Varint.decode hdr = some (h, []) ∧ hdr.length ≤ 5 ∧ h < 2 ^ 32

instance (hdr : List UInt8) (h : Nat) : Decidable (IsHeader hdr h) := by
  unfold IsHeader; infer_instance

/-- `Runs w bytes vals`: `bytes` is a sequence of complete runs at width `w` and `vals` is
everything they denote (all 8·groups values of each bit-packed run, padding included). -/
inductive Runs (w : Nat) : List UInt8 → List Nat → Prop
  | nil : Runs w [] []
  | rle (hdr : List UInt8) (n v : Nat) (rest : List UInt8) (vals : List Nat) :
      IsHeader hdr (2 * n) → v < 2 ^ w → Runs w rest vals →
      Runs w (hdr ++ leBytes (valueBytes w) v ++ rest) (List.replicate n v ++ vals)
  | packed (hdr : List UInt8) (g : Nat) (data : List UInt8) (xs : List Nat)
      (rest : List UInt8) (vals : List Nat) :
      IsHeader hdr (2 * g + 1) → data.length = g * w →
      BitPack.unpack w data (8 * g) = some xs → Runs w rest vals →
      Runs w (hdr ++ data ++ rest) (xs ++ vals)

/-- `Stream w bytes vals`: a reader that knows there are `|vals|` values reads `vals` from
`bytes`.  Whatever the runs denote after the first `|vals|` values is padding. -/
def Stream (w : Nat) (bytes : List UInt8) (vals : List Nat) : Prop :=
  ∃ pad, Runs w bytes (vals ++ pad)

/-! ### Reference decoder -/

inductive Err
  | endOfData        -- fewer than the requested number of values
  | truncated        -- input ends inside a run
  | badHeader        -- header not a 32-bit varint
  | valueTooWide     -- repeated value does not fit `w` bits
  deriving DecidableEq, Repr

/-- (core has no `DecidableEq (Except ε α)`; needed for `decide` on test vectors) -/
instance decEqExcept {ε α : Type} [DecidableEq ε] [DecidableEq α] : DecidableEq (Except ε α) :=
  fun a b =>
    match a, b with
    | .ok x, .ok y => if h : x = y then isTrue (by rw [h]) else isFalse (fun e => h (by cases e; rfl))
    | .error x, .error y => if h : x = y then isTrue (by rw [h]) else isFalse (fun e => h (by cases e; rfl))
    | .ok _, .error _ => isFalse (fun e => by cases e)
    | .error _, .ok _ => isFalse (fun e => by cases e)

/-- header reader: ULEB128 restricted to the 32-bit scope -/
def readHeader (bs : List UInt8) : Except Err (Nat × List UInt8) :=
  match Varint.decode bs with
  | none => .error .truncated
  | some (h, rest) =>
    if bs.length - rest.length ≤ 5 ∧ h < 2 ^ 32 then .ok (h, rest) else .error .badHeader

/-- the first `need` values denoted by the runs in `bs` (fuel: one unit per run) -/
def decodeRuns (w : Nat) : Nat → List UInt8 → Nat → Except Err (List Nat)
  | _, _, 0 => .ok []
  | 0, _, _ + 1 => .error .endOfData
  | f + 1, bs, need + 1 =>
    if bs = [] then .error .endOfData
    else
      match readHeader bs with
      | .error e => .error e
      | .ok (h, rest) =>
        if h % 2 = 0 then
          if rest.length < valueBytes w then .error .truncated
          else if leValue (rest.take (valueBytes w)) ≥ 2 ^ w then .error .valueTooWide
          else
            match decodeRuns w f (rest.drop (valueBytes w)) (need + 1 - min (h / 2) (need + 1)) with
            | .error e => .error e
            | .ok vs => .ok (List.replicate (min (h / 2) (need + 1)) (leValue (rest.take (valueBytes w))) ++ vs)
        else
          if rest.length < h / 2 * w then .error .truncated
          else
            match BitPack.unpack w (rest.take (h / 2 * w)) (min (8 * (h / 2)) (need + 1)) with
            | none => .error .truncated
            | some xs =>
              match decodeRuns w f (rest.drop (h / 2 * w)) (need + 1 - min (8 * (h / 2)) (need + 1)) with
              | .error e => .error e
              | .ok vs => .ok (xs ++ vs)

/-- Reference decoder: the first `n` values of the stream; bytes after them are ignored. -/
def decode (w : Nat) (bytes : List UInt8) (n : Nat) : Except Err (List Nat) :=
  decodeRuns w (bytes.length + 1) bytes n

/-! ### Reference encoder, steered by a list of choices -/

/-- ULEB128 of `h` made `extra` bytes longer than necessary (`extra = 0`: canonical). -/
def encodeHeader (h extra : Nat) : List UInt8 :=
  match extra with
  | 0 => Varint.encode h
  | k + 1 =>
    let c := Varint.encode h
    c.dropLast ++ [UInt8.ofNat ((c.getLastD 0).toNat + 128)] ++ List.replicate k 0x80 ++ [0x00]

inductive Choice
  /-- the next `n ≥ 1` values (which must be equal) as one RLE run -/
  | rle (n : Nat) (extra : Nat)
  /-- a zero-length RLE run carrying the value `v` -/
  | emptyRle (v : Nat) (extra : Nat)
  /-- the next `8·g` values as one bit-packed run of `g` groups; if fewer remain they are
  completed from `pad` (only possible at the end of the stream) -/
  | packed (g : Nat) (pad : List Nat) (extra : Nat)

/-- Reference encoder: follows the choices; `none` if a choice does not fit the values or a
header would leave the 32-bit scope. -/
def encodeWith (w : Nat) : List Choice → List Nat → Option (List UInt8)
  | [], vals => if vals = [] then some [] else none
  | .rle n extra :: cs, vals =>
    match vals with
    | [] => none
    | v :: _ =>
      if n = 0 ∨ vals.length < n ∨ vals.take n ≠ List.replicate n v ∨ v ≥ 2 ^ w then none
      else if ¬ IsHeader (encodeHeader (2 * n) extra) (2 * n) then none
      else
        match encodeWith w cs (vals.drop n) with
        | none => none
        | some bs => some (encodeHeader (2 * n) extra ++ leBytes (valueBytes w) v ++ bs)
  | .emptyRle v extra :: cs, vals =>
    if v ≥ 2 ^ w then none
    else if ¬ IsHeader (encodeHeader 0 extra) (2 * 0) then none
    else
      match encodeWith w cs vals with
      | none => none
      | some bs => some (encodeHeader 0 extra ++ leBytes (valueBytes w) v ++ bs)
  | .packed g pad extra :: cs, vals =>
    if ((vals.take (8 * g)) ++ pad.take (8 * g - (vals.take (8 * g)).length)).length ≠ 8 * g then none
    else if ∃ x ∈ (vals.take (8 * g)) ++ pad.take (8 * g - (vals.take (8 * g)).length), x ≥ 2 ^ w then none
    else if ¬ IsHeader (encodeHeader (2 * g + 1) extra) (2 * g + 1) then none
    else
      match encodeWith w cs (vals.drop (8 * g)) with
      | none => none
      | some bs =>
        some (encodeHeader (2 * g + 1) extra ++
              BitPack.pack w ((vals.take (8 * g)) ++ pad.take (8 * g - (vals.take (8 * g)).length)) ++ bs)

-- Tests of the transcription.  The document's own example is the bit-packed one in
-- Spec/BitPack.lean; these check the framing.
example : decode 3 [0x03, 0x88, 0xC6, 0xFA] 8 = .ok [0, 1, 2, 3, 4, 5, 6, 7] := by decide
example : decode 3 [0x03, 0x88, 0xC6, 0xFA] 5 = .ok [0, 1, 2, 3, 4] := by decide
example : decode 1 [0x14, 0x01] 10 = .ok [1, 1, 1, 1, 1, 1, 1, 1, 1, 1] := by decide
example : decode 9 [0x06, 0x2C, 0x01] 3 = .ok [300, 300, 300] := by decide
example : decode 3 [0x00, 0x05, 0x02, 0x03] 1 = .ok [3] := by decide            -- zero-length run
example : decode 1 [0x05, 0xFF, 0x00] 16 = .ok [1,1,1,1,1,1,1,1,0,0,0,0,0,0,0,0] := by decide  -- 2 groups
example : decode 1 [0x14, 0x01] 11 = .error .endOfData := by decide
example : decode 3 [0x03, 0x88, 0xC6] 8 = .error .truncated := by decide
example : decode 3 [0x02, 0x08] 1 = .error .valueTooWide := by decide
example : decode 0 [0x14] 10 = .ok [0, 0, 0, 0, 0, 0, 0, 0, 0, 0] := by decide
example : encodeWith 1 [.packed 1 [] 0, .rle 9 0, .packed 1 [0, 0, 0, 0, 0, 0, 0] 0]
    [1, 0, 1, 1, 1, 1, 1, 1,  1, 1, 1, 1, 1, 1, 1, 1, 1,  0]
    = some [0x03, 0xFD, 0x12, 0x01, 0x03, 0x00] := by decide
example : encodeWith 3 [.emptyRle 5 0, .rle 1 1] [3] = some [0x00, 0x05, 0x82, 0x00, 0x03] := by decide
example : decode 3 [0x00, 0x05, 0x82, 0x00, 0x03] 1 = .ok [3] := by decide

end Carquet.Spec.RleHybrid
