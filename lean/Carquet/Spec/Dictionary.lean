/-
Dictionary encoding (PLAIN_DICTIONARY = 2 / RLE_DICTIONARY = 8), from the Parquet "Encodings"
document:

  "The dictionary encoding builds a dictionary of values encountered in a given column.  The
   dictionary will be stored in a dictionary page per column chunk.  The values are stored as
   integers using the RLE/Bit-Packing Hybrid encoding. [...]
   Dictionary page format: the entries in the dictionary using the plain encoding.
   Data page format: the bit width used to encode the entry ids stored as 1 byte (max bit width
   = 32), followed by the values encoded using RLE/Bit packed described above (with the given
   bit width)."

The format fixes neither the order of the dictionary nor that it is free of duplicates; a
decoder simply looks every id up.  `firstOccurrences` is the particular dictionary carquet's
builder is expected to produce (distinct values in order of first appearance).
-/
namespace Carquet.Spec.Dictionary

/-- Look every entry id up in the dictionary; `none` when an id is not an entry. -/
def decode {α : Type} (dict : List α) : List Nat → Option (List α)
  | [] => some []
  | i :: is =>
    match dict[i]?, decode dict is with
    | some v, some vs => some (v :: vs)
    | _, _ => none

/-- Distinct values in order of first appearance. -/
def firstOccurrences {α : Type} [DecidableEq α] : List α → List α
  | [] => []
  | v :: vs => v :: (firstOccurrences vs).filter (fun x => x ≠ v)

/-- Position of the first occurrence of `v` in `dict` (`dict.length` when absent). -/
def indexIn {α : Type} [DecidableEq α] (v : α) : List α → Nat
  | [] => 0
  | x :: xs => if x = v then 0 else indexIn v xs + 1

/-- Smallest bit width able to hold every id of a dictionary with `n` entries, i.e. the number of
bits of `n - 1` (0 for `n ≤ 1`). -/
def bitsFor (n : Nat) : Nat := (n - 1).log2 + (if n ≤ 1 then 0 else 1)

example : decode [10, 20, 30] [2, 0, 0, 1] = some [30, 10, 10, 20] := by decide
example : decode [10, 20, 30] [2, 3] = none := by decide
example : firstOccurrences [5, 3, 5, 5, 7, 3, 9] = [5, 3, 7, 9] := by decide
example : [5, 7, 4].map (fun v => indexIn v [5, 3, 7, 9]) = [0, 2, 4] := by decide
example : (List.range 10).map bitsFor = [0, 0, 1, 2, 2, 3, 3, 3, 3, 4] := by decide

end Carquet.Spec.Dictionary
