/-
IEEE 802.3 CRC-32 (reflected polynomial 0xEDB88320, init and final xor 0xFFFFFFFF),
written bit-serially from the definition.  Shares nothing with carquet's table code.
-/
namespace Carquet.Spec.Crc32

def poly : BitVec 32 := 0xEDB88320#32

/-- One shift of the reflected LFSR with zero input. -/
def step1 (c : BitVec 32) : BitVec 32 :=
  if c.getLsbD 0 then (c >>> 1) ^^^ poly else c >>> 1

/-- Eight shifts. -/
def step8 (c : BitVec 32) : BitVec 32 :=
  step1 (step1 (step1 (step1 (step1 (step1 (step1 (step1 c)))))))

/-- Feed one byte (xor into the low bits, then eight shifts). -/
def byteStep (c : BitVec 32) (b : UInt8) : BitVec 32 :=
  step8 (c ^^^ (b.toBitVec.setWidth 32))

/-- Raw register after feeding `data` starting from register `c`. -/
def run (c : BitVec 32) (data : List UInt8) : BitVec 32 :=
  data.foldl byteStep c

def crc32 (data : List UInt8) : BitVec 32 :=
  ~~~ (run 0xFFFFFFFF#32 data)

/-- zlib-style incremental update: `crc` is a finished checksum of the prefix. -/
def update (crc : BitVec 32) (data : List UInt8) : BitVec 32 :=
  ~~~ (run (~~~ crc) data)

-- Published check value (a test of the transcription, not a proof).
example : crc32 [0x31,0x32,0x33,0x34,0x35,0x36,0x37,0x38,0x39] = 0xCBF43926#32 := by decide +kernel

end Carquet.Spec.Crc32
