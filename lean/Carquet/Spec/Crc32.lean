/-
IEEE 802.3 CRC-32 (reflected polynomial 0xEDB88320, init and final xor 0xFFFFFFFF),
written bit-serially from the definition.  Shares nothing with carquet's table code.
-/
namespace Carquet.Spec.Crc32

def poly : BitVec 32 := 0xEDB88320#32

/-- One shift of the reflected LFSR with zero input. -/
def step1 (c : BitVec 32) : BitVec 32 :=
  if c.getLsbD 0 then (c >>> 1) ^^^ poly else c >>> 1

/-- Eight shifts. -/
def step8 (c : BitVec 32) : BitVec 32 :=
  step1 (step1 (step1 (step1 (step1 (step1 (step1 (step1 c)))))))

/-- Feed one byte (xor into the low bits, then eight shifts). -/
def byteStep (c : BitVec 32) (b : UInt8) : BitVec 32 :=
  step8 (c ^^^ (b.toBitVec.setWidth 32))

/-- Raw register after feeding `data` starting from register `c`. -/
def run (c : BitVec 32) (data : List UInt8) : BitVec 32 :=
  data.foldl byteStep c

def crc32 (data : List UInt8) : BitVec 32 :=
  ~~~ (run 0xFFFFFFFF#32 data)

/-- zlib-style incremental update: `crc` is a finished checksum of the prefix. -/
def update (crc : BitVec 32) (data : List UInt8) : BitVec 32 :=
  ~~~ (run (~~~ crc) data)

/-! ### The message as a bit stream, and the damage patterns the checksum must detect

The CRC is defined on the message *bit* stream: each byte contributes its bits least
significant first (IEEE 802.3 transmission order), each message bit is xored into the low bit
of the register, then the register makes one shift.  `run_eq_runBits` (proved in
`Proofs/Crc32Burst`, restated as `C14_bit_serial`) shows `run` is exactly this, so the bit
positions used by `BurstDamage` are the positions at which the LFSR consumes the bits. -/

/-- Bits of one byte in the order the LFSR consumes them. -/
def byteBits (b : UInt8) : List Bool :=
  [b.toBitVec.getLsbD 0, b.toBitVec.getLsbD 1, b.toBitVec.getLsbD 2, b.toBitVec.getLsbD 3,
   b.toBitVec.getLsbD 4, b.toBitVec.getLsbD 5, b.toBitVec.getLsbD 6, b.toBitVec.getLsbD 7]

/-- The message bit stream: bit `8*k + j` is bit `j` of byte `k`. -/
def bits (data : List UInt8) : List Bool := data.flatMap byteBits

/-- Feed one message bit. -/
def bitStep (c : BitVec 32) (m : Bool) : BitVec 32 :=
  step1 (c ^^^ (if m then 1#32 else 0#32))

def runBits (c : BitVec 32) (ms : List Bool) : BitVec 32 := ms.foldl bitStep c

/-- `d'` is a damaged copy of `d`: same length, not identical, and all message bits that differ
lie in one window of `w` consecutive bit positions (a burst of length ≤ `w`; `w = 1` is a single
flipped bit, a window inside one byte is a changed byte). -/
def BurstDamage (w : Nat) (d d' : List UInt8) : Prop :=
  d.length = d'.length ∧ d ≠ d' ∧
  ∃ s, s < 8 * d.length ∧
    ∀ i, i < 8 * d.length → (bits d)[i]? ≠ (bits d')[i]? → s ≤ i ∧ i < s + w

instance (w : Nat) (d d' : List UInt8) : Decidable (BurstDamage w d d') := by
  unfold BurstDamage; infer_instance

/-- Bytewise xor of a message with an error pattern of the same length. -/
def xorBytes (d e : List UInt8) : List UInt8 := List.zipWith (· ^^^ ·) d e

-- Published check value (a test of the transcription, not a proof).
example : crc32 [0x31,0x32,0x33,0x34,0x35,0x36,0x37,0x38,0x39] = 0xCBF43926#32 := by decide +kernel

end Carquet.Spec.Crc32
