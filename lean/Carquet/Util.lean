/-
Shared helpers for the line protocol between the C harness and the Lean driver.
Nothing here is part of a model or a theorem; it is parsing and printing only
(trusted base: "the Lean driver's line parser").
-/
namespace Carquet.Util

def hexDigitVal (c : Char) : Option Nat :=
  if '0' ≤ c ∧ c ≤ '9' then some (c.toNat - 48)
  else if 'a' ≤ c ∧ c ≤ 'f' then some (c.toNat - 87)
  else if 'A' ≤ c ∧ c ≤ 'F' then some (c.toNat - 55)
  else none

def parseHexChars : List Char → Array UInt8 → Option (Array UInt8)
  | [], acc => some acc
  | [_], _ => none
  | a :: b :: r, acc =>
    match hexDigitVal a, hexDigitVal b with
    | some x, some y => parseHexChars r (acc.push (UInt8.ofNat (x * 16 + y)))
    | _, _ => none

/-- Byte strings are written `x<hex>`; the empty string is `x`. -/
def parseHex (s : String) : Option (List UInt8) :=
  match s.toList with
  | 'x' :: r => (parseHexChars r #[]).map Array.toList
  | _ => none

def hexChar (n : Nat) : Char :=
  if n < 10 then Char.ofNat (48 + n) else Char.ofNat (87 + n)

def toHex (bs : List UInt8) : String :=
  String.ofList ('x' :: bs.flatMap (fun b => [hexChar (b.toNat / 16), hexChar (b.toNat % 16)]))

/-- Comma-separated lists; the empty list is `-`. -/
def parseList (f : String → Option α) (s : String) : Option (List α) :=
  if s == "-" then some [] else (s.splitOn ",").mapM f

def showList (f : α → String) (l : List α) : String :=
  if l.isEmpty then "-" else ",".intercalate (l.map f)

structure Line where
  op   : String
  ins  : List (String × String)
  outs : List (String × String)

def parseKV (t : String) : Option (String × String) :=
  match t.splitOn "=" with
  | [k, v] => some (k, v)
  | _ => none

/-- `op k=v k=v | k=v k=v` -/
def parseLine (s : String) : Option Line :=
  match (s.trimAscii.toString.splitOn " ").filter (· ≠ "") with
  | [] => none
  | op :: rest =>
    let ins := rest.takeWhile (· ≠ "|")
    let outs := (rest.dropWhile (· ≠ "|")).drop 1
    match ins.mapM parseKV, outs.mapM parseKV with
    | some i, some o => some ⟨op, i, o⟩
    | _, _ => none

def lookup (kvs : List (String × String)) (k : String) : Option String :=
  (kvs.find? (·.1 == k)).map (·.2)

namespace Line
def inStr (l : Line) (k : String) : Option String := lookup l.ins k
def outStr (l : Line) (k : String) : Option String := lookup l.outs k
def inNat (l : Line) (k : String) : Option Nat := (l.inStr k).bind String.toNat?
def outNat (l : Line) (k : String) : Option Nat := (l.outStr k).bind String.toNat?
def inInt (l : Line) (k : String) : Option Int := (l.inStr k).bind String.toInt?
def outInt (l : Line) (k : String) : Option Int := (l.outStr k).bind String.toInt?
def inHex (l : Line) (k : String) : Option (List UInt8) := (l.inStr k).bind parseHex
def outHex (l : Line) (k : String) : Option (List UInt8) := (l.outStr k).bind parseHex
def inNats (l : Line) (k : String) : Option (List Nat) := (l.inStr k).bind (parseList String.toNat?)
def outNats (l : Line) (k : String) : Option (List Nat) := (l.outStr k).bind (parseList String.toNat?)
def inInts (l : Line) (k : String) : Option (List Int) := (l.inStr k).bind (parseList String.toInt?)
def outInts (l : Line) (k : String) : Option (List Int) := (l.outStr k).bind (parseList String.toInt?)
end Line

/-- Verdict printed by the driver for one harness line.
`diverge`: the hand-written Impl model and the real code disagree (the tie is broken).
`propfail`: the property's own predicate is false of what the real code returned. -/
inductive Verdict where
  | ok
  | diverge (what : String)
  | propfail (what : String)
  | both (d p : String)
  | bad (why : String)

def Verdict.render : Verdict → String
  | .ok => "ok"
  | .diverge w => s!"DIVERGE {w}"
  | .propfail w => s!"PROPFAIL {w}"
  | .both d p => s!"DIVERGE+PROPFAIL {d} ;; {p}"
  | .bad w => s!"BADLINE {w}"

/-- Combine a list of named model-equality checks and named property checks. -/
def verdict (modelChecks propChecks : List (String × Bool)) : Verdict :=
  let d := (modelChecks.filter (fun c => !c.2)).map (·.1)
  let p := (propChecks.filter (fun c => !c.2)).map (·.1)
  match d, p with
  | [], [] => .ok
  | _ :: _, [] => .diverge (",".intercalate d)
  | [], _ :: _ => .propfail (",".intercalate p)
  | _ :: _, _ :: _ => .both (",".intercalate d) (",".intercalate p)

end Carquet.Util
