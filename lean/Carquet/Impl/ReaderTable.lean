import Carquet.Impl.Reader
import Carquet.Impl.WriterHistory
/-
The table a write history denotes, in the terms of carquet's READER model (`Impl.Reader.Table`):
per row group, per column, the definition level of every row and the dense (non-null) values; and
the file's `num_rows`.

This is the right-hand side of the file-level round trip `C01_roundtrip`
(Properties/C01/Roundtrip.lean): `Impl.Reader.readAll (file written) = ok (readerTableOf cols ops)`,
and the table the driver's read-back predicate of op `wr` (Driver/ReadBack.lean) compares the REAL
reader's output with — theorem and run-time tie talk about the same function.  It is defined from
the history alone (`tableOf`, Impl/WriterHistory.lean), nothing of the reader or of the file layout
enters.
-/
namespace Carquet.Impl.Writer

/-- definition levels per row as the reader hands them out: the history's levels for a column that
has them, level 0 on every row otherwise (`carquet_read_data_page_v1` fills the level array with
`max_def_level` = 0) -/
def readerDefs (c : Col) (d : ColData) : List Nat :=
  if c.maxDef > 0 then d.defs else List.replicate d.rows 0

/-- one column chunk of the table as the reader returns it -/
def readerColOf (c : Col) (d : ColData) : Reader.ColumnData := ⟨readerDefs c d, d.vals⟩

def readerRowGroupsOf (cols : List Col) (ops : List Op) : List (List Reader.ColumnData) :=
  (tableOf cols ops).map (fun g => List.zipWith readerColOf cols g)

/-- `num_rows` of the file: per row group the rows of its first column (that is what
`carquet_writer_write_batch` counts; with aligned columns it is the row count of every column) -/
def readerNumRows (cols : List Col) (ops : List Op) : Nat :=
  ((tableOf cols ops).map (firstRecs cols)).sum

/-- **the table a history denotes**, in the reader model's terms -/
def readerTableOf (cols : List Col) (ops : List Op) : Reader.Table :=
  ⟨(readerNumRows cols ops : Nat), readerRowGroupsOf cols ops⟩

/-! ### the same content as logical rows (for the batch-at-a-time API, C02)

`Spec.Cursor` describes reading a column chunk as an index moving over a list of rows (definition
level, repetition level, value iff not null).  These are the rows of one column of one row group of
the table a history denotes; for a REPEATED column they carry the repetition levels of the history,
so the batch-at-a-time theorems (C01_roundtrip_any_consumption) speak about the repetition levels
the reader returns as well. -/

/-- rows from definition levels and dense values: a row carries the next value exactly when its
level is the maximum; repetition level 0 (flat columns) -/
def rowsOfLevels (maxDef : Nat) : List Nat → List Val → List (Carquet.Spec.Cursor.Row Val)
  | [], _ => []
  | d :: ds, vs =>
    if d = maxDef then
      match vs with
      | v :: vs' => ⟨d, 0, some v⟩ :: rowsOfLevels maxDef ds vs'
      | [] => ⟨d, 0, none⟩ :: rowsOfLevels maxDef ds []
    else ⟨d, 0, none⟩ :: rowsOfLevels maxDef ds vs

/-- repetition levels per entry as the reader hands them out: the history's levels for a REPEATED
column, level 0 otherwise (`carquet_read_data_page_v1` zero-fills the array) -/
def readerReps (c : Col) (d : ColData) : List Nat :=
  if c.maxRep > 0 then d.reps else List.replicate d.rows 0

/-- rows from definition levels, repetition levels and dense values -/
def rowsOfLevelsR (maxDef : Nat) : List Nat → List Nat → List Val → List (Carquet.Spec.Cursor.Row Val)
  | d :: ds, r :: rs, vs =>
    if d = maxDef then
      match vs with
      | v :: vs' => ⟨d, r, some v⟩ :: rowsOfLevelsR maxDef ds rs vs'
      | [] => ⟨d, r, none⟩ :: rowsOfLevelsR maxDef ds rs []
    else ⟨d, r, none⟩ :: rowsOfLevelsR maxDef ds rs vs
  | _, _, _ => []

/-- the rows (level entries) of a column's content: definition level, repetition level (0 unless the
column is REPEATED), the value iff the definition level is the maximum -/
def tableRows (c : Col) (d : ColData) : List (Carquet.Spec.Cursor.Row Val) :=
  rowsOfLevelsR c.maxDef (readerDefs c d) (readerReps c d) d.vals

end Carquet.Impl.Writer
