/-
Model of the read cursor of src/core/buffer.h / buffer.c:

  carquet_buffer_reader_init_data / _init          (data, size, pos = 0)
  carquet_buffer_reader_remaining / _has / _peek   (inline, buffer.h)
  carquet_buffer_reader_read / _skip / _read_byte
  carquet_buffer_reader_read_u16_le / _u32_le / _u64_le / _f32_le / _f64_le

as repaired by fixes/F83-buffer-reader-has-wraparound.patch (`has`: `n <= size - pos` instead of
`pos + n <= size`); the pinned test is `hasPreFix`, selected by `fixed = false`.

Fidelity: exact.  `size_t` arithmetic is written out modulo 2^64 (`addSz`, `subSz`): the whole point
of F83 is a wrap-around.  The model is in *access-reporting* form: every call returns, besides what
the caller sees, the list of accesses `(offset, length)` it makes to `data[0 .. size)` — `memcpy(dest,
data + pos, n)` is `(pos, n)`, `data[pos]` is `(pos, 1)`, `carquet_read_u32_le(data + pos)` is
`(pos, 4)`.  The bytes delivered are `(data.drop off).take len`, which is what the C code delivers
when the access lies inside the buffer (the theorems show it always does for the repaired code;
for the pinned code `C08_regression_F83` exhibits an access outside).
Floats are carried as their bit patterns (the C code `memcpy`s the integer into the float).
Little-endian host (the `#else` branch of endian.h is not modelled).
-/
namespace Carquet.Impl.BufferReader

/-- `size_t` addition -/
def addSz (a b : Nat) : Nat := (a + b) % 2 ^ 64
/-- `size_t` subtraction -/
def subSz (a b : Nat) : Nat := (a + 2 ^ 64 - b % 2 ^ 64) % 2 ^ 64

/-- `carquet_buffer_reader_t`: `size` is `data.length` -/
structure Reader where
  data : List UInt8
  pos : Nat
  deriving DecidableEq, Repr

/-- one access to `data`: `length` bytes starting at `offset` -/
structure Acc where
  off : Nat
  len : Nat
  deriving DecidableEq, Repr

/-- the two statuses the cursor functions return -/
inductive Status
  | ok
  | truncated      -- CARQUET_ERROR_FILE_TRUNCATED
  deriving DecidableEq, Repr

/-- `carquet_buffer_reader_init_data(reader, data, size)` -/
def init (data : List UInt8) : Reader := ⟨data, 0⟩

/-- `carquet_buffer_reader_remaining`: `size - pos` -/
def remaining (r : Reader) : Nat := subSz r.data.length r.pos

/-- `carquet_buffer_reader_has` on the pinned tree: `pos + n <= size` in `size_t` -/
def hasPreFix (r : Reader) (n : Nat) : Bool := addSz r.pos n ≤ r.data.length

/-- `carquet_buffer_reader_has(reader, n)`: `n <= size - pos` (F83) -/
def hasFixed (r : Reader) (n : Nat) : Bool := n ≤ subSz r.data.length r.pos

def has (fixed : Bool) (r : Reader) (n : Nat) : Bool :=
  if fixed then hasFixed r n else hasPreFix r n

/-- the little-endian integer in a byte list (`carquet_read_u16_le` … `_u64_le` on an LE host) -/
def leVal : List UInt8 → Nat
  | [] => 0
  | b :: bs => b.toNat + 256 * leVal bs

/-- the bytes an access delivers -/
def bytesAt (data : List UInt8) (off len : Nat) : List UInt8 := (data.drop off).take len

/-- one call on the cursor; `n` is a `size_t` (`n < 2^64`) -/
inductive Op
  | has (n : Nat)
  | remaining
  | peek
  | skip (n : Nat)
  | read (n : Nat)
  | readByte
  | readU16
  | readU32
  | readU64
  | readF32
  | readF64
  deriving DecidableEq, Repr

/-- what the caller sees of one call -/
inductive Obs
  | bool (b : Bool)                         -- `has`
  | size (n : Nat)                          -- `remaining`
  | ptr (off : Nat)                         -- `peek`: `data + off`
  | st (s : Status)                         -- `skip`
  | bytes (s : Status) (bs : List UInt8)    -- `read`: status and `dest[0..n)` when OK
  | val (s : Status) (v : Nat)              -- typed reads: status and `*value` when OK
  deriving DecidableEq, Repr

/-- result of one call: observation, new cursor, accesses made -/
structure Res where
  obs : Obs
  next : Reader
  accs : List Acc
  deriving DecidableEq, Repr

/-- the fixed-width reads: `if (!has(reader, k)) return TRUNCATED; *value = read_le(data + pos); pos += k` -/
def readFixed (fixed : Bool) (r : Reader) (k : Nat) : Res :=
  if has fixed r k = false then ⟨.val .truncated 0, r, []⟩
  else ⟨.val .ok (leVal (bytesAt r.data r.pos k)), { r with pos := addSz r.pos k }, [⟨r.pos, k⟩]⟩

/-- one call -/
def step (fixed : Bool) (r : Reader) : Op → Res
  | .has n => ⟨.bool (has fixed r n), r, []⟩
  | .remaining => ⟨.size (remaining r), r, []⟩
  | .peek => ⟨.ptr r.pos, r, []⟩
  | .skip n =>
    if has fixed r n = false then ⟨.st .truncated, r, []⟩
    else ⟨.st .ok, { r with pos := addSz r.pos n }, []⟩
  | .read n =>
    if has fixed r n = false then ⟨.bytes .truncated [], r, []⟩
    else ⟨.bytes .ok (bytesAt r.data r.pos n), { r with pos := addSz r.pos n }, [⟨r.pos, n⟩]⟩
  | .readByte => readFixed fixed r 1
  | .readU16 => readFixed fixed r 2
  | .readU32 => readFixed fixed r 4
  | .readU64 => readFixed fixed r 8
  | .readF32 => readFixed fixed r 4
  | .readF64 => readFixed fixed r 8

/-- a history of calls: observations, all accesses in order, final cursor -/
def run (fixed : Bool) (r : Reader) : List Op → List Obs × List Acc × Reader
  | [] => ([], [], r)
  | op :: ops =>
    ((step fixed r op).obs :: (run fixed (step fixed r op).next ops).1,
     (step fixed r op).accs ++ (run fixed (step fixed r op).next ops).2.1,
     (run fixed (step fixed r op).next ops).2.2)

/-- the argument of an op as a `size_t` -/
def Op.arg : Op → Nat
  | .has n => n | .skip n => n | .read n => n | _ => 0

example : (run true (init [1, 2, 3, 4, 5]) [.readByte, .readU16, .has 2, .has 3, .readU32, .remaining]).1 =
    [.val .ok 1, .val .ok 0x0302, .bool true, .bool false, .val .truncated 0, .size 2] := by decide
example : (run true (init [1, 2, 3, 4, 5]) [.readByte, .readU16, .readU32, .read 2]).2.1 =
    [⟨0, 1⟩, ⟨1, 2⟩, ⟨3, 2⟩] := by decide

end Carquet.Impl.BufferReader
