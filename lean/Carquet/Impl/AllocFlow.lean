import Carquet.Impl.Buffer
import Carquet.Impl.Arena
/-
Structural models of the status flow of carquet's allocation-bearing paths (C19).

"Structural" = the same allocation requests and the same checks in the same order as the C
functions; payloads (encoded bytes, compressed bytes, Thrift header bytes, decoded values) are
parameters.  Every model exists in two versions where the C code had a defect:
`…PreFix` mirrors the code before the F20 repairs (an allocation result or an append status is not
looked at), the unsuffixed one mirrors the repaired code (fixes/F20*.patch).

Computations are functions `Oracle → Except Fault α × Oracle` (`M α`): the oracle is consumed by
allocation requests and is returned also on failure, so that the number of requests made is
observable.  `Fault.crash` marks a NULL pointer dereference (only reachable in `…PreFix` models).
-/
namespace Carquet.Impl.Alloc.Flow
open Carquet.Impl.Alloc
open Carquet.Impl.Alloc.Buffer (Buf)

inductive Fault where
  | oom                       -- CARQUET_ERROR_OUT_OF_MEMORY / NULL handle
  | other                     -- any other non-OK status
  | crash                     -- NULL dereference (undefined behaviour in the C code)
deriving DecidableEq, Repr

/-- a computation making allocation requests -/
def M (α : Type) : Type := Oracle → Except Fault α × Oracle

def M.pure (a : α) : M α := fun o => (.ok a, o)

def M.bind (m : M α) (f : α → M β) : M β := fun o =>
  match m o with
  | (.ok a, o') => f a o'
  | (.error e, o') => (.error e, o')

instance : Monad M where
  pure := M.pure
  bind := M.bind

/-- `return <error status>` -/
def fail (e : Fault) : M α := fun o => (.error e, o)

/-- one allocation request whose result the C code checks (`if (!p) return OOM;`) -/
def req : M Unit := fun o => if o.grant then (.ok (), o.rest) else (.error .oom, o.rest)

/-- one allocation request whose result the C code does not check: the caller gets the answer -/
def reqU : M Bool := fun o => (.ok o.grant, o.rest)

/-- a request guarded by a condition (`if (n > cap) p = realloc(...)`) -/
def reqIf (c : Bool) : M Unit := if c then req else M.pure ()

/-- structural loop over a list, threading a state (a C `for` loop that returns at the first error) -/
def forEach : List α → β → (β → α → M β) → M β
  | [], s, _ => M.pure s
  | x :: xs, s, f => M.bind (f s x) (fun s' => forEach xs s' f)

/-- `status = carquet_buffer_append(...); if (status != OK) return status;` -/
def appendM (b : Buf) (bytes : List UInt8) : M Buf := fun o =>
  match Buffer.append b bytes o with
  | (.ok, b', o') => (.ok b', o')
  | (_, _, o') => (.error .oom, o')

/-- `carquet_buffer_append(...);` with the status dropped: on failure the bytes are silently missing -/
def appendU (b : Buf) (bytes : List UInt8) : M Buf := fun o =>
  (.ok (Buffer.append b bytes o).2.1, (Buffer.append b bytes o).2.2)

/-- several checked appends in a row (the PLAIN encoders: one or more appends, first failure returns) -/
def appendAll (b : Buf) (chunks : List (List UInt8)) : M Buf := forEach chunks b appendM

/-- checked arena allocation: `p = carquet_arena_…(…); if (!p) return OOM;` (a zero-size request
returns NULL without being an error at the sites modelled here, which test `count > 0`) -/
def arenaM (ar : Arena.Arena) (size align : Nat) : M Arena.Arena := fun o =>
  match Arena.allocAligned ar size align 8 o with
  | (some _, ar', o') => (.ok ar', o')
  | (none, ar', o') => if size = 0 then (.ok ar', o') else (.error .oom, o')

/-- unchecked arena allocation: the caller learns whether it got a pointer -/
def arenaU (ar : Arena.Arena) (size align : Nat) : M (Arena.Arena × Bool) := fun o =>
  match Arena.allocAligned ar size align 8 o with
  | (some _, ar', o') => (.ok (ar', true), o')
  | (none, ar', o') => (.ok (ar', false), o')

/-- carquet_arena_init_size / carquet_arena_init, checked by every caller -/
def arenaInitM (blockSize : Nat) : M Arena.Arena := fun o =>
  match Arena.initSize blockSize 8 o with
  | (some ar, o') => (.ok ar, o')
  | (none, o') => (.error .oom, o')

/-- the check after an allocation whose result was stored: `if (!p) return OOM;` — present
(`checked = true`) or missing (`checked = false`, the code before an F20 repair) -/
def guardGot (checked got : Bool) (k : M α) (e : Fault := .oom) : M α := if checked && !got then fail e else k

/-- three allocations made in a row and tested together afterwards (`if (!a || !b || !c) { free…; return OOM; }`) -/
def reqAll3 : M Unit :=
  M.bind reqU fun a => M.bind reqU fun b => M.bind reqU fun c => if a && b && c then M.pure () else fail .oom

/-! ## Schema builder (src/metadata/schema.c) -/

structure Elem where
  name : Option (List UInt8)      -- `none`: NULL name pointer
  repetition : Nat
deriving DecidableEq, Repr

/-- `carquet_schema_t` as far as the builder is concerned; the four `…Len` fields are the allocated
lengths (in elements) of `elements`, `leaf_indices`, `max_def_levels`, `max_rep_levels`. -/
structure Schema where
  arena : Arena.Arena
  elems : List Elem                -- elements[0..num_elements)
  leaves : List (Nat × Nat × Nat)  -- (leaf_indices[i], max_def_levels[i], max_rep_levels[i])
  capacity : Nat
  elemsLen : Nat
  leafLen : Nat
  defLen : Nat
  repLen : Nat
deriving DecidableEq, Repr

/-- "schema" -/
def rootName : List UInt8 := [115, 99, 104, 101, 109, 97]

/-- "PAR1" -/
def magic : List UInt8 := [80, 65, 82, 49]

/-- `while (new_capacity < required) new_capacity *= 2;` (terminates because capacity ≥ 1) -/
def growCap : Nat → Nat → Nat → Nat
  | 0, cap, _ => cap
  | fuel + 1, cap, required => if cap < required then growCap fuel (cap * Gen.schemaGrowthFactor) required else cap

/-- carquet_schema_create.  The three leaf arrays are requested before any of them is checked. -/
def schemaCreate (checked : Bool) : M Schema :=
  M.bind req fun _ =>                                            -- calloc(1, sizeof(carquet_schema_t))
  M.bind (arenaInitM Gen.schemaArenaBlockSize) fun ar =>         -- carquet_arena_init_size
  M.bind req fun _ =>                                            -- calloc(capacity, sizeof element)
  M.bind (arenaU ar (rootName.length + 1) 1) fun r =>            -- elements[0].name = arena_strdup("schema")
  guardGot checked r.2 <|
  M.bind reqAll3 fun _ =>                                        -- leaf_indices, max_def_levels, max_rep_levels
  M.pure { arena := r.1, elems := [⟨if r.2 then some rootName else none, 0⟩], leaves := [],
           capacity := Gen.schemaInitialCapacity, elemsLen := Gen.schemaInitialCapacity,
           leafLen := Gen.schemaInitialCapacity, defLen := Gen.schemaInitialCapacity,
           repLen := Gen.schemaInitialCapacity }

/-- the capacity schema_ensure_capacity grows to -/
def newSchemaCap (s : Schema) (required : Nat) : Nat := growCap required s.capacity required

/-- schema_ensure_capacity: four reallocs, each checked.  The arrays that were already regrown stay
regrown when a later one fails; `capacity` is only updated at the end.  The schema is returned also on
failure (the caller keeps using the handle). -/
def schemaEnsureCapacityS (s : Schema) (required : Nat) (o : Oracle) : Status × Schema × Oracle :=
  if required ≤ s.capacity then (.ok, s, o)
  else if !o.grant then (.oom, s, o.rest)
  else if !o.rest.grant then (.oom, { s with elemsLen := newSchemaCap s required }, o.rest.rest)
  else if !o.rest.rest.grant then
    (.oom, { s with elemsLen := newSchemaCap s required, leafLen := newSchemaCap s required }, o.rest.rest.rest)
  else if !o.rest.rest.rest.grant then
    (.oom, { s with elemsLen := newSchemaCap s required, leafLen := newSchemaCap s required,
                    defLen := newSchemaCap s required }, o.rest.rest.rest.rest)
  else
    (.ok, { s with capacity := newSchemaCap s required, elemsLen := newSchemaCap s required,
                   leafLen := newSchemaCap s required, defLen := newSchemaCap s required,
                   repLen := newSchemaCap s required }, o.rest.rest.rest.rest)

def maxDefOf (repetition : Nat) : Nat := if repetition = 1 ∨ repetition = 2 then 1 else 0
def maxRepOf (repetition : Nat) : Nat := if repetition = 2 then 1 else 0

/-- the element and leaf entry add_column appends -/
def pushColumn (s : Schema) (name : Option (List UInt8)) (repetition : Nat) : Schema :=
  { s with elems := s.elems ++ [⟨name, repetition⟩],
           leaves := s.leaves ++ [(s.elems.length, maxDefOf repetition, maxRepOf repetition)] }

/-- carquet_schema_add_column; `checked = false` is the code before F20f (a failed name copy leaves
a NULL name and the call still reports OK).  The schema is returned also on failure. -/
def schemaAddColumnS (checked : Bool) (s : Schema) (name : List UInt8) (repetition : Nat) (o : Oracle) :
    Status × Schema × Oracle :=
  match schemaEnsureCapacityS s (s.elems.length + 1) o with
  | (.ok, s1, o1) =>
    match Arena.strdup s1.arena name.length 8 o1 with
    | (some _, ar', o2) => (.ok, pushColumn { s1 with arena := ar' } (some name) repetition, o2)
    | (none, ar', o2) =>
      if checked then (.oom, { s1 with arena := ar' }, o2)
      else (.ok, pushColumn { s1 with arena := ar' } none repetition, o2)
  | (st, s1, o1) => (st, s1, o1)

/-- the same call as a computation that stops at the error -/
def schemaAddColumn (checked : Bool) (s : Schema) (name : List UInt8) (repetition : Nat) : M Schema := fun o =>
  match schemaAddColumnS checked s name repetition o with
  | (.ok, s', o') => (.ok s', o')
  | (_, _, o') => (.error .oom, o')

/-- a build: create, then add the columns in order; stops at the first call that reports an error -/
def schemaBuild (checked : Bool) (cols : List (List UInt8 × Nat)) : M Schema :=
  M.bind (schemaCreate checked) fun s => forEach cols s (fun s c => schemaAddColumn checked s c.1 c.2)

/-- a client that keeps adding columns after a failed add (what the harness does): statuses and final schema -/
def schemaAddAll (checked : Bool) : List (List UInt8 × Nat) → Schema → Oracle → List Status × Schema × Oracle
  | [], s, o => ([], s, o)
  | c :: cs, s, o =>
    match schemaAddAll checked cs (schemaAddColumnS checked s c.1 c.2 o).2.1 (schemaAddColumnS checked s c.1 c.2 o).2.2 with
    | (sts, s', o') => ((schemaAddColumnS checked s c.1 c.2 o).1 :: sts, s', o')

/-! ## Thrift encoder: the sticky error latch (src/thrift/thrift_encode.c) -/

structure Enc where
  buf : Buf
  status : Status
deriving DecidableEq, Repr

/-- thrift_encoder_init -/
def Enc.init (b : Buf) : Enc := ⟨b, .ok⟩

/-- one `carquet_buffer_append` made by a thrift_write_* primitive, followed by
`if (… != CARQUET_OK) set_error(enc, OOM)`; set_error keeps the first error.  Returns the append's
own status as well (for the trace). -/
def Enc.put (e : Enc) (bytes : List UInt8) (o : Oracle) : Enc × Oracle × Status :=
  ({ buf := (Buffer.append e.buf bytes o).2.1,
     status := if e.status = .ok then (if (Buffer.append e.buf bytes o).1 = .ok then .ok else .oom) else e.status },
   (Buffer.append e.buf bytes o).2.2, (Buffer.append e.buf bytes o).1)

/-- a sequence of primitives: the encoder keeps appending after a failure (nothing returns early) -/
def Enc.putAll : Enc → List (List UInt8) → Oracle → Enc × Oracle × List Status
  | e, [], o => (e, o, [])
  | e, c :: cs, o =>
    match Enc.putAll (e.put c o).1 cs (e.put c o).2.1 with
    | (e', o', tr) => (e', o', (e.put c o).2.2 :: tr)

/-- "write the struct, then `if (enc.status != OK) return enc.status;`" -/
def encodeChecked (b : Buf) (chunks : List (List UInt8)) : M Buf := fun o =>
  if ((Enc.init b).putAll chunks o).1.status = .ok then (.ok ((Enc.init b).putAll chunks o).1.buf, ((Enc.init b).putAll chunks o).2.1)
  else (.error .oom, ((Enc.init b).putAll chunks o).2.1)

/-- "write the struct" with the encoder's status never looked at -/
def encodeUnchecked (b : Buf) (chunks : List (List UInt8)) : M Buf := fun o =>
  (.ok ((Enc.init b).putAll chunks o).1.buf, ((Enc.init b).putAll chunks o).2.1)

/-! ## Page builder (src/writer/page_writer.c) -/

/-- the payload functions the structural model is parametric in -/
structure Payload where
  rle : Nat → List UInt8 → List (List UInt8)     -- max level → raw int16 levels → the chunks the RLE encoder appends
  packBool : List UInt8 → List UInt8             -- carquet_encode_plain_boolean
  compress : Nat → List UInt8 → List UInt8       -- codec → body → compressed body
  bound : Nat → Nat → Nat                        -- codec → size → compress bound
  header : Nat → Nat → List UInt8 → List (List UInt8)   -- uncompressed size → compressed size → body → the header's appends

/-- carquet_page_writer_t -/
structure PageWriter where
  values : Buf
  defLevels : Buf
  repLevels : Buf
  page : Buf
  maxDef : Nat
  maxRep : Nat
  isBool : Bool
  codec : Nat
  numValues : Nat
deriving DecidableEq, Repr

/-- carquet_page_writer_create -/
def pageWriterCreate (maxDef maxRep : Nat) (isBool : Bool) (codec : Nat) : M PageWriter :=
  M.bind req fun _ =>
  M.pure ⟨Buffer.init, Buffer.init, Buffer.init, Buffer.init, maxDef, maxRep, isBool, codec, 0⟩

/-- carquet_page_writer_reset -/
def pageWriterReset (w : PageWriter) : PageWriter :=
  { w with values := Buffer.clear w.values, defLevels := Buffer.clear w.defLevels,
           repLevels := Buffer.clear w.repLevels, page := Buffer.clear w.page, numValues := 0 }

/-- levels argument of add_values: a pointer to `rows` int16 values, or NULL ("every row at `fill`") -/
inductive Levels where
  | given (raw : List UInt8)
  | absent (fill : List UInt8) (rows : Nat)
deriving Repr

/-- append_raw_levels -/
def appendRawLevels (b : Buf) : Levels → M Buf
  | .given raw => appendM b raw
  | .absent fill rows => appendAll b (List.replicate rows fill)

/-- carquet_page_writer_add_values (levels are accumulated raw, values PLAIN-encoded by one or more
checked appends; `num_values` is only updated when the level appends went through) -/
def pageAddValues (w : PageWriter) (rows : Nat) (defLv repLv : Levels) (valueChunks : List (List UInt8)) : M PageWriter :=
  M.bind (if w.maxDef > 0 then appendRawLevels w.defLevels defLv else M.pure w.defLevels) fun d =>
  M.bind (if w.maxRep > 0 then appendRawLevels w.repLevels repLv else M.pure w.repLevels) fun r =>
  M.bind (appendAll w.values valueChunks) fun v =>
  M.pure { w with defLevels := d, repLevels := r, values := v, numValues := w.numValues + rows }

def le32 (n : Nat) : List UInt8 :=
  [UInt8.ofNat (n % 256), UInt8.ofNat (n / 256 % 256), UInt8.ofNat (n / 65536 % 256), UInt8.ofNat (n / 16777216 % 256)]

/-- carquet_rle_encode_all into a fresh buffer, after F20c: every append is attempted, a failure is
latched in `enc->status`, flush returns it. -/
def rleEncodeAll (chunks : List (List UInt8)) : M Buf := encodeChecked Buffer.init chunks

/-- carquet_rle_encode_all before F20c: the appends' statuses are dropped, the result is always OK -/
def rleEncodeAllPreFix (chunks : List (List UInt8)) : M Buf := encodeUnchecked Buffer.init chunks

/-- encode_levels (static, page_writer.c), repaired: malloc of the widened copy, RLE into a temporary
buffer, 4-byte length prefix, data — each step checked. -/
def encodeLevels (P : Payload) (raw : List UInt8) (maxLevel : Nat) (out : Buf) : M Buf :=
  if maxLevel = 0 then M.pure out
  else
    M.bind req fun _ =>
    M.bind (rleEncodeAll (P.rle maxLevel raw)) fun rleBuf =>
    M.bind (appendM out (le32 rleBuf.size)) fun out1 =>
    appendM out1 rleBuf.data

/-- encode_levels before F20b/F20c: the RLE appends, the prefix append and the data append are unchecked -/
def encodeLevelsPreFix (P : Payload) (raw : List UInt8) (maxLevel : Nat) (out : Buf) : M Buf :=
  if maxLevel = 0 then M.pure out
  else
    M.bind req fun _ =>
    M.bind (rleEncodeAllPreFix (P.rle maxLevel raw)) fun rleBuf =>
    M.bind (appendU out (le32 rleBuf.size)) fun out1 =>
    appendU out1 rleBuf.data

/-- compress_data -/
def compressData (P : Payload) (codec : Nat) (input : List UInt8) (out : Buf) : M Buf :=
  if codec = 0 then appendM out input
  else M.bind req fun _ => appendM out (P.compress codec input)    -- malloc(bound), compress, append, free

/-- the uncompressed body: repetition levels, definition levels, values -/
def pageBody (enc : Payload → List UInt8 → Nat → Buf → M Buf) (P : Payload) (w : PageWriter) : M Buf :=
  M.bind (if w.repLevels.size > 0 then enc P w.repLevels.data w.maxRep Buffer.init else M.pure Buffer.init) fun u1 =>
  M.bind (if w.defLevels.size > 0 then enc P w.defLevels.data w.maxDef u1 else M.pure u1) fun u2 =>
  if w.isBool then
    (if w.values.size = 0 then M.pure u2 else appendM u2 (P.packBool w.values.data))   -- carquet_buffer_advance
  else appendM u2 w.values.data

/-- carquet_page_writer_finalize, repaired (F20b): the header encoder's latch is looked at and the
final append is checked.  Result: the page bytes (header ++ compressed body). -/
def pageFinalize (P : Payload) (w : PageWriter) : M (PageWriter × List UInt8) :=
  M.bind (pageBody encodeLevels P w) fun unc =>
  M.bind (compressData P w.codec unc.data Buffer.init) fun cmp =>
  M.bind (encodeChecked (Buffer.clear w.page) (P.header unc.size cmp.size cmp.data)) fun pg =>
  M.bind (appendM pg cmp.data) fun pg' =>
  M.pure ({ w with page := pg' }, pg'.data)

/-- carquet_page_writer_finalize before F20b -/
def pageFinalizePreFix (P : Payload) (w : PageWriter) : M (PageWriter × List UInt8) :=
  M.bind (pageBody encodeLevelsPreFix P w) fun unc =>
  M.bind (compressData P w.codec unc.data Buffer.init) fun cmp =>
  M.bind (encodeUnchecked (Buffer.clear w.page) (P.header unc.size cmp.size cmp.data)) fun pg =>
  M.bind (appendU pg cmp.data) fun pg' =>
  M.pure ({ w with page := pg' }, pg'.data)

/-! ## Column writer → row group writer → file writer (src/writer/*.c) -/

structure ColumnWriter where
  pw : PageWriter
  column : Buf                 -- column_buffer: all pages of the chunk
  targetPageSize : Nat
  totalValues : Nat
  numPages : Nat
deriving DecidableEq, Repr

/-- carquet_column_writer_create: two callocs (column writer, page writer) -/
def columnWriterCreate (maxDef maxRep : Nat) (isBool : Bool) (codec target : Nat) : M ColumnWriter :=
  M.bind req fun _ =>
  M.bind (pageWriterCreate maxDef maxRep isBool codec) fun pw =>
  M.pure ⟨pw, Buffer.init, target, 0, 0⟩

/-- flush_current_page -/
def flushCurrentPage (fin : Payload → PageWriter → M (PageWriter × List UInt8)) (P : Payload) (cw : ColumnWriter) : M ColumnWriter :=
  if cw.pw.numValues = 0 then M.pure cw
  else
    M.bind (fin P cw.pw) fun r =>
    M.bind (appendM cw.column r.2) fun col =>
    M.pure { cw with column := col, pw := pageWriterReset r.1, numPages := cw.numPages + 1 }

/-- one batch handed to write_batch -/
structure Batch where
  rows : Nat
  defLv : Levels
  repLv : Levels
  valueChunks : List (List UInt8)

/-- bit_width_for_max (static, page_writer.c) -/
def bitWidthForMax (m : Nat) : Nat := if m = 0 then 0 else Nat.log2 m + 1

/-- carquet_page_writer_estimated_size: booleans and levels are still unpacked, their packed size is estimated;
64 bytes are added for the header -/
def pageEstimatedSize (pw : PageWriter) : Nat :=
  (if pw.isBool then (pw.values.size + 7) / 8 else pw.values.size) +
  (if pw.defLevels.size / 2 > 0 then 4 + (pw.defLevels.size / 2 * bitWidthForMax pw.maxDef + 7) / 8 else 0) +
  (if pw.repLevels.size / 2 > 0 then 4 + (pw.repLevels.size / 2 * bitWidthForMax pw.maxRep + 7) / 8 else 0) + 64

/-- `current_size >= writer->target_page_size` in carquet_column_writer_write_batch -/
def pageFull (cw : ColumnWriter) : Bool := pageEstimatedSize cw.pw ≥ cw.targetPageSize

/-- carquet_column_writer_write_batch -/
def columnWriteBatch (fin : Payload → PageWriter → M (PageWriter × List UInt8)) (P : Payload) (cw : ColumnWriter) (b : Batch) : M ColumnWriter :=
  M.bind (pageAddValues cw.pw b.rows b.defLv b.repLv b.valueChunks) fun pw =>
  if pageFull { cw with pw := pw } then flushCurrentPage fin P { cw with pw := pw, totalValues := cw.totalValues + b.rows }
  else M.pure { cw with pw := pw, totalValues := cw.totalValues + b.rows }

/-- column definition kept by the file writer -/
structure ColDef where
  name : List UInt8
  maxDef : Nat
  maxRep : Nat
  isBool : Bool
deriving DecidableEq, Repr

structure RowGroupWriter where
  cols : List ColumnWriter
  paths : List (Option (List UInt8))     -- column_infos[i].path (strdup of the name; `none` = NULL)
  buffer : Buf
deriving DecidableEq, Repr

/-- carquet_row_group_writer_add_column: two reallocs, the column writer, strdup(name).
`checked = false`: the strdup result is stored unchecked (before F20g). -/
def rowGroupAddColumn (checked : Bool) (codec target : Nat) (rg : RowGroupWriter) (c : ColDef) : M RowGroupWriter :=
  M.bind req fun _ => M.bind req fun _ =>
  M.bind (columnWriterCreate c.maxDef c.maxRep c.isBool codec target) fun cw =>
  M.bind reqU fun got =>
  guardGot checked got <|
  M.pure { rg with cols := rg.cols ++ [cw], paths := rg.paths ++ [if got then some c.name else none] }

/-- ensure_row_group: create the row group writer and add every column -/
def ensureRowGroup (checked : Bool) (codec target : Nat) (cols : List ColDef) : M RowGroupWriter :=
  M.bind req fun _ =>
  forEach cols ⟨[], [], Buffer.init⟩ (rowGroupAddColumn checked codec target)

/-- carquet_row_group_writer_finalize: flush every column's last page, concatenate the chunks -/
def rowGroupFinalize (fin : Payload → PageWriter → M (PageWriter × List UInt8)) (P : Payload) (rg : RowGroupWriter) : M RowGroupWriter :=
  M.bind (forEach rg.cols ([], Buffer.clear rg.buffer) (fun (st : List ColumnWriter × Buf) cw =>
    M.bind (flushCurrentPage fin P cw) fun cw' =>
    M.bind (appendM st.2 cw'.column.data) fun buf => M.pure (st.1 ++ [cw'], buf))) fun st =>
  M.pure { rg with cols := st.1, buffer := st.2 }

/-- what the footer records per column chunk -/
structure ChunkMeta where
  path : Option (List UInt8)       -- path_in_schema[0]
  hasEncodings : Bool
  size : Nat
deriving DecidableEq, Repr

structure Writer where
  cols : List ColDef
  codec : Nat
  target : Nat
  rg : Option RowGroupWriter
  arena : Arena.Arena
  rgCapacity : Nat
  rowGroups : List (List ChunkMeta)
  file : List UInt8                 -- bytes handed to fwrite so far
deriving DecidableEq, Repr

/-- implementation sizes used for the arena requests (sizeof the Thrift structs); parameters -/
structure Sizes where
  chunk : Nat := 320
  encoding : Nat := 4
  ptr : Nat := 8
  elem : Nat := 80
  rowGroup : Nat := 72
  schema : Nat := 88

/-- add_column_internal, called once per column by carquet_writer_create -/
def writerAddColumn (st : Nat × Nat) (_ : ColDef) : M (Nat × Nat) :=
  -- st = (num_columns, column_capacity): two reallocs when the capacity is reached, then strdup(name) (checked)
  M.bind (reqIf (st.1 ≥ st.2)) fun _ => M.bind (reqIf (st.1 ≥ st.2)) fun _ =>
  M.bind req fun _ =>
  M.pure (st.1 + 1, if st.1 ≥ st.2 then (if st.2 = 0 then 8 else st.2 * 2) else st.2)

/-- carquet_writer_create -/
def writerCreate (codec target : Nat) (cols : List ColDef) : M Writer :=
  M.bind req fun _ =>                                             -- calloc writer
  M.bind (arenaInitM 4096) fun ar =>                              -- arena
  M.bind req fun _ =>                                             -- strdup(path)
  M.bind (forEach cols (0, 0) writerAddColumn) fun _ =>
  M.pure ⟨cols, codec, target, none, ar, 0, [], magic⟩

/-- carquet_writer_write_batch for column `i` -/
def writerWriteBatch (checked : Bool) (fin : Payload → PageWriter → M (PageWriter × List UInt8)) (P : Payload)
    (w : Writer) (i : Nat) (b : Batch) : M Writer :=
  M.bind (match w.rg with | some rg => M.pure rg | none => ensureRowGroup checked w.codec w.target w.cols) fun rg =>
  match rg.cols[i]? with
  | none => fail .other
  | some cw =>
    M.bind (columnWriteBatch fin P cw b) fun cw' =>
    M.pure { w with rg := some { rg with cols := rg.cols.set i cw' } }

/-- the per-column metadata block of flush_row_group; `checked = false` is the code before F20g:
`encodings` and `path_in_schema` are only guarded by `if (ptr)`, the path copy is unchecked. -/
def chunkMeta (checked : Bool) (S : Sizes) (st : Arena.Arena × List ChunkMeta) (c : Option (List UInt8) × Nat) : M (Arena.Arena × List ChunkMeta) :=
  M.bind (arenaU st.1 (2 * S.encoding) 16) fun e =>
  guardGot checked e.2 <|
  M.bind (arenaU e.1 S.ptr 16) fun p =>
  guardGot checked p.2 <|
  match c.1 with
  | none => M.pure (p.1, st.2 ++ [⟨none, e.2, c.2⟩])
  | some path =>
    if !p.2 then M.pure (p.1, st.2 ++ [⟨none, e.2, c.2⟩])       -- `if (meta->path_in_schema && col_info->path)`
    else
      M.bind (arenaU p.1 (path.length + 1) 1) fun s =>
      guardGot checked s.2 <|
      M.pure (s.1, st.2 ++ [⟨if s.2 then some path else none, e.2, c.2⟩])

/-- flush_row_group -/
def flushRowGroup (checked : Bool) (fin : Payload → PageWriter → M (PageWriter × List UInt8)) (P : Payload) (S : Sizes) (w : Writer) : M Writer :=
  match w.rg with
  | none => M.pure w
  | some rg =>
    M.bind (rowGroupFinalize fin P rg) fun rg' =>
    M.bind (reqIf (w.rowGroups.length ≥ w.rgCapacity)) fun _ =>        -- realloc(row_groups)
    M.bind (arenaM w.arena (rg'.cols.length * S.chunk) 16) fun ar =>     -- columns array (checked in the original)
    M.bind (forEach (rg'.paths.zip (rg'.cols.map (fun cw => cw.column.size))) (ar, []) (chunkMeta checked S)) fun r =>
    M.pure { w with rg := none, arena := r.1, rowGroups := w.rowGroups ++ [r.2],
                    rgCapacity := if w.rowGroups.length ≥ w.rgCapacity then (if w.rgCapacity = 0 then 4 else w.rgCapacity * 2) else w.rgCapacity,
                    file := w.file ++ rg'.buffer.data }

/-- what ends up in the footer -/
structure FileMeta where
  createdBy : Bool                              -- created_by string present
  schemaNames : List (Option (List UInt8))      -- root first
  rowGroups : List (List ChunkMeta)
deriving DecidableEq, Repr

/-- build_file_metadata; `checked = false`: the three kinds of string copies are unchecked (before F20g) -/
def buildFileMetadata (checked : Bool) (S : Sizes) (w : Writer) : M (Arena.Arena × FileMeta) :=
  M.bind (arenaU w.arena 8 1) fun cb =>                                   -- created_by
  guardGot checked cb.2 <|
  M.bind (arenaM cb.1 ((1 + w.cols.length) * S.elem) 16) fun ar1 =>       -- schema array (checked in the original)
  M.bind (arenaU ar1 (rootName.length + 1) 1) fun rn =>                   -- root name
  guardGot checked rn.2 <|
  M.bind (forEach w.cols (rn.1, [if rn.2 then some rootName else none]) (fun (st : Arena.Arena × List (Option (List UInt8))) c =>
    M.bind (arenaU st.1 (c.name.length + 1) 1) fun s =>
    guardGot checked s.2 <| M.pure (s.1, st.2 ++ [if s.2 then some c.name else none]))) fun st =>
  M.bind (arenaM st.1 (w.rowGroups.length * S.rowGroup) 16) fun ar2 =>    -- row_groups array (checked in the original)
  M.pure (ar2, ⟨cb.2, st.2, w.rowGroups⟩)

/-- serialising the footer dereferences `encodings[i]` and `path_in_schema[i]` of every chunk -/
def footerDerefOk (m : FileMeta) : Bool := m.rowGroups.all (fun rg => rg.all (fun c => c.hasEncodings))

/-- carquet_writer_close: flush, build the metadata, serialise it with a Thrift encoder whose status is
checked (parquet_write_file_metadata), write footer and magic.  Result: file bytes and footer. -/
def writerClose (checked : Bool) (fin : Payload → PageWriter → M (PageWriter × List UInt8)) (P : Payload) (S : Sizes)
    (footer : FileMeta → List (List UInt8)) (w : Writer) : M (List UInt8 × FileMeta) :=
  M.bind (flushRowGroup checked fin P S w) fun w1 =>
  M.bind (buildFileMetadata checked S w1) fun r =>
  if !footerDerefOk r.2 then fail .crash else
  M.bind (encodeChecked Buffer.init (footer r.2)) fun mb =>
  M.pure (w1.file ++ mb.data ++ le32 mb.size ++ magic, r.2)

/-- a whole write: create, one write_batch per column per row group, new_row_group between groups, close -/
def writeRowGroup (checked : Bool) (fin : Payload → PageWriter → M (PageWriter × List UInt8)) (P : Payload) (w : Writer) (batches : List Batch) : M Writer :=
  M.bind (forEach batches (w, 0) (fun (st : Writer × Nat) b =>
    M.bind (writerWriteBatch checked fin P st.1 st.2 b) fun w' => M.pure (w', st.2 + 1))) fun st => M.pure st.1

def writeFile (checked : Bool) (fin : Payload → PageWriter → M (PageWriter × List UInt8)) (P : Payload) (S : Sizes)
    (footer : FileMeta → List (List UInt8)) (codec target : Nat) (cols : List ColDef) (groups : List (List Batch)) :
    M (List UInt8 × FileMeta) :=
  M.bind (writerCreate codec target cols) fun w =>
  M.bind (forEach groups w (fun w g =>
    M.bind (writeRowGroup checked fin P w g) fun w' => flushRowGroup checked fin P S w')) fun w' =>
  writerClose checked fin P S footer w'

/-! ## Read side: open, get_column, page load, batch reader (src/reader/*.c, src/thrift/parquet_types.c) -/

/-- shape of a footer: what determines the parser's arena requests -/
structure ColShape where
  encodings : Nat
  path : List (List UInt8)
deriving DecidableEq, Repr

structure FooterShape where
  schemaNames : List (List UInt8)
  rowGroups : List (List ColShape)
  createdBy : Option (List UInt8)
deriving DecidableEq, Repr

/-- what the parser produced: per schema element its name, per chunk its path strings -/
structure ParsedMeta where
  schemaNames : List (Option (List UInt8))
  rowGroups : List (List (List (Option (List UInt8))))
  createdBy : Option (Option (List UInt8))
deriving DecidableEq, Repr

/-- a list allocation of the parser: `p = carquet_arena_calloc(arena, count, size)`; before F20a the
result is used unchecked, i.e. a NULL for a non-empty list is dereferenced by the loop that follows. -/
def listAlloc (checked : Bool) (ar : Arena.Arena) (count size : Nat) : M Arena.Arena :=
  M.bind (arenaU ar (count * size) 16) fun r =>
  if r.2 || count * size = 0 then M.pure r.1
  else if checked then fail .oom else fail .crash

/-- arena_strdup_thrift: before F20a a failed copy silently yields a NULL string -/
def strAlloc (checked : Bool) (ar : Arena.Arena) (s : List UInt8) : M (Arena.Arena × Option (List UInt8)) :=
  M.bind (arenaU ar (s.length + 1) 1) fun r =>
  if r.2 then M.pure (r.1, some s) else if checked then fail .oom else M.pure (r.1, none)

def parseStrings (checked : Bool) (ar : Arena.Arena) (l : List (List UInt8)) : M (Arena.Arena × List (Option (List UInt8))) :=
  forEach l (ar, []) (fun (st : Arena.Arena × List (Option (List UInt8))) s =>
    M.bind (strAlloc checked st.1 s) fun r => M.pure (r.1, st.2 ++ [r.2]))

/-- parse_column_chunk / parse_column_metadata: encodings list, path_in_schema list and its strings -/
def parseChunk (checked : Bool) (S : Sizes) (st : Arena.Arena × List (List (Option (List UInt8)))) (c : ColShape) :
    M (Arena.Arena × List (List (Option (List UInt8)))) :=
  M.bind (listAlloc checked st.1 c.encodings S.encoding) fun a1 =>
  M.bind (listAlloc checked a1 c.path.length S.ptr) fun a2 =>
  M.bind (parseStrings checked a2 c.path) fun r =>
  M.pure (r.1, st.2 ++ [r.2])

/-- parse_row_group -/
def parseRowGroup (checked : Bool) (S : Sizes) (st : Arena.Arena × List (List (List (Option (List UInt8))))) (rg : List ColShape) :
    M (Arena.Arena × List (List (List (Option (List UInt8))))) :=
  M.bind (listAlloc checked st.1 rg.length S.chunk) fun a1 =>
  M.bind (forEach rg (a1, []) (parseChunk checked S)) fun r =>
  M.pure (r.1, st.2 ++ [r.2])

/-- parquet_parse_file_metadata (fields in the order carquet's own writer emits them) -/
def parseFileMetadata (checked : Bool) (S : Sizes) (ar : Arena.Arena) (f : FooterShape) : M (Arena.Arena × ParsedMeta) :=
  M.bind (listAlloc checked ar f.schemaNames.length S.elem) fun a1 =>
  M.bind (parseStrings checked a1 f.schemaNames) fun names =>
  M.bind (listAlloc checked names.1 f.rowGroups.length S.rowGroup) fun a2 =>
  M.bind (forEach f.rowGroups (a2, []) (parseRowGroup checked S)) fun rgs =>
  match f.createdBy with
  | none => M.pure (rgs.1, ⟨names.2, rgs.2, none⟩)
  | some cb => M.bind (strAlloc checked rgs.1 cb) fun r => M.pure (r.1, ⟨names.2, rgs.2, some r.2⟩)

/-- build_schema: the schema struct and the three leaf arrays, all checked in the original -/
def buildSchema (S : Sizes) (ar : Arena.Arena) (leaves : Nat) : M Arena.Arena :=
  M.bind (arenaM ar S.schema 16) fun a1 =>
  M.bind (arenaU a1 (leaves * 4) 16) fun l1 =>
  M.bind (arenaU l1.1 (leaves * 2) 16) fun l2 =>
  M.bind (arenaU l2.1 (leaves * 2) 16) fun l3 =>
  if l1.2 && l2.2 && l3.2 then M.pure l3.1 else fail .other      -- also for a file without leaves (0-size requests)

inductive IoMode where
  | fread | mmap | buffer
deriving DecidableEq, Repr

/-- an open reader: the mode it ended up in, and the parsed metadata -/
structure Reader where
  mode : IoMode
  md : ParsedMeta
deriving DecidableEq, Repr

/-- carquet_reader_open / carquet_reader_open_buffer.  With `use_mmap`, a failed allocation of the mmap
handle silently falls back to the fread path (the only place where a failed request is absorbed). -/
def readerOpen (checked : Bool) (S : Sizes) (want : IoMode) (f : FooterShape) (leaves : Nat) : M Reader :=
  M.bind req fun _ =>                                            -- calloc reader
  M.bind (arenaInitM Gen.arenaDefaultBlockSize) fun ar =>        -- carquet_arena_init
  M.bind (match want with
          | .mmap => M.bind reqU fun got => M.pure (if got then IoMode.mmap else IoMode.fread)   -- carquet_mmap_open
          | m => M.pure m) fun mode =>
  M.bind (if mode = .fread then req else M.pure ()) fun _ =>     -- malloc(footer_size) in read_footer
  M.bind (parseFileMetadata checked S ar f) fun r =>
  M.bind (buildSchema S r.1 leaves) fun _ =>
  M.pure ⟨mode, r.2⟩

/-- a column reader's page buffers -/
structure ColumnReader where
  capacity : Nat               -- decoded_capacity
  loaded : Bool
deriving DecidableEq, Repr

/-- carquet_reader_get_column -/
def getColumn : M ColumnReader := M.bind req fun _ => M.pure ⟨0, false⟩

/-- what a page looks like to the loader -/
structure PageShape where
  numValues : Nat
  compressed : Bool
  zeroCopy : Bool              -- uncompressed ∧ PLAIN ∧ fixed width ∧ no levels (mmap/buffer modes only)
  retire : Bool := false       -- BYTE_ARRAY PLAIN page replacing an earlier one while the retired-buffer list is full
deriving DecidableEq, Repr

/-- the three decode buffers: all three mallocs are made, then tested together -/
def decodeBuffers (cr : ColumnReader) (p : PageShape) : M ColumnReader :=
  if p.numValues > cr.capacity then
    M.bind reqAll3 fun _ => M.pure { cr with capacity := p.numValues }
  else M.pure cr

/-- load_next_page_fread / load_next_page_mmap.  `checked = false`: the zero-copy branch uses its two
level buffers unchecked (memset through NULL) — before F20d. -/
def loadPage (checked : Bool) (mode : IoMode) (cr : ColumnReader) (p : PageShape) : M ColumnReader :=
  match mode with
  | .fread =>
    M.bind req fun _ =>                                          -- malloc(compressed_page_size)
    M.bind (reqIf p.compressed) fun _ =>                         -- malloc(uncompressed_page_size)
    M.bind (decodeBuffers cr p) fun cr' =>
    M.bind (reqIf p.retire) fun _ =>                             -- retire_page_data: realloc of the retired list
    M.pure { cr' with loaded := true }
  | _ =>
    if p.zeroCopy then
      (if p.numValues > cr.capacity then
        M.bind reqU fun a => M.bind reqU fun b =>
        if a && b then M.pure { cr with capacity := p.numValues, loaded := true }
        else if checked then fail .oom else fail .crash      -- memset(NULL, 0, …) before F20d
      else M.pure { cr with loaded := true })
    else
      M.bind (reqIf p.compressed) fun _ =>
      M.bind (decodeBuffers cr p) fun cr' =>
      M.bind (reqIf (p.retire && p.compressed)) fun _ =>         -- retire_page_data (only a decompressed buffer is retained)
      M.pure { cr' with loaded := true }

/-- carquet_column_read_batch of a whole single-page chunk: load if needed, copy out.  The values are a
parameter (`vals`): what the decoder yields for this page. -/
def readColumn (checked : Bool) (mode : IoMode) (cr : ColumnReader) (p : PageShape) (vals : α) : M (ColumnReader × α) :=
  M.bind (if cr.loaded then M.pure cr else loadPage checked mode cr p) fun cr' => M.pure (cr', vals)

/-- carquet_batch_reader_create: three allocations, each checked -/
def batchReaderCreate : M Unit := M.bind req fun _ => M.bind req fun _ => req

/-- one column of a batch as the caller sees it -/
structure ColumnOut (α : Type) where
  values : α
  hasBitmap : Bool             -- null_bitmap pointer non-NULL
  nullsSeen : Bool             -- definition levels were read and turned into bitmap bits
deriving DecidableEq, Repr

/-- a page load whose failure is ignored — `(void)carquet_column_read_batch(col, NULL, 0, NULL, NULL)` in the
prefetch loop and in the zero-copy probe; the load is simply attempted again by the read that follows -/
def tryLoad (checked : Bool) (mode : IoMode) (cr : ColumnReader) (p : PageShape) : M ColumnReader := fun o =>
  match loadPage checked mode cr p o with
  | (.ok cr', o1) => (.ok cr', o1)
  | (.error .crash, o1) => (.error .crash, o1)
  | (.error _, o1) => (.ok cr, o1)

/-- the per-column body of carquet_batch_reader_next.  `checked = false` is the code before F20e:
the bitmap calloc and the def_levels malloc are unchecked.  Any column error makes the batch fail with
CARQUET_ERROR_DECODE (`.other`). -/
def batchColumn (checked : Bool) (mode : IoMode) (nullable : Bool) (st : List (ColumnOut α)) (c : ColumnReader × PageShape × α) :
    M (List (ColumnOut α)) :=
  M.bind (tryLoad checked mode c.1 c.2.1) fun cr =>
  if cr.loaded && c.2.1.zeroCopy && mode ≠ .fread && !nullable then
    M.bind reqU fun bm =>                                       -- null_bitmap = calloc(...)
    guardGot checked bm (M.pure (st ++ [⟨c.2.2, bm, false⟩])) .other
  else
    M.bind req fun _ =>                                         -- col_data->data = malloc(...)  (failure: read_error)
    M.bind reqU fun bm =>                                       -- null_bitmap
    guardGot checked bm (e := .other) <|
    M.bind (if nullable then reqU else M.pure true) fun dl =>   -- def_levels
    guardGot checked dl (e := .other) <|
    M.bind (readColumn checked mode cr c.2.1 c.2.2) fun r =>
    M.pure (st ++ [⟨r.2, bm, nullable && dl && bm⟩])

/-- carquet_batch_reader_next for one row group: column readers, the batch, its arena, the columns -/
def batchNext (checked : Bool) (mode : IoMode) (cols : List (Bool × PageShape × α)) : M (List (ColumnOut α)) :=
  M.bind (forEach cols [] (fun (st : List ColumnReader) _ => M.bind getColumn fun cr => M.pure (st ++ [cr]))) fun crs =>
  M.bind req fun _ =>                                                -- calloc batch
  M.bind (arenaInitM Gen.arenaDefaultBlockSize) fun ar =>            -- batch arena
  M.bind (arenaM ar (cols.length * 64) 16) fun _ =>                  -- columns array (checked)
  forEach (crs.zip cols) [] (fun st (c : ColumnReader × Bool × PageShape × α) =>
    batchColumn checked mode c.2.1 st (c.1, c.2.2.1, c.2.2.2))

/-! ## The allocation sites the models above account for

(C function that issues the request, as named by the harness from the stack of an injected failure,
allocator helpers in buffer.c / arena.c / thrift_encode.c / plain.c / rle.c skipped) → the model that
contains the request.  A site reported by the harness that is not in this table is a request the
structural models do not know about (the tie reports it). -/
def siteTable : List (String × String) :=
  [ ("carquet_schema_create", "schemaCreate"), ("schema_ensure_capacity", "schemaEnsureCapacityS"),
    ("carquet_schema_add_column", "schemaAddColumnS"), ("carquet_schema_add_group", "schemaAddColumnS"),
    ("carquet_writer_create", "writerCreate"), ("carquet_writer_create_file", "writerCreate"),
    ("add_column_internal", "writerAddColumn"),
    ("carquet_row_group_writer_create", "ensureRowGroup"), ("carquet_row_group_writer_add_column", "rowGroupAddColumn"),
    ("carquet_column_writer_create", "columnWriterCreate"), ("carquet_page_writer_create", "pageWriterCreate"),
    ("carquet_page_writer_add_values", "pageAddValues"), ("append_raw_levels", "appendRawLevels"),
    ("encode_levels", "encodeLevels"), ("carquet_page_writer_finalize", "pageFinalize"),
    ("compress_data", "compressData"), ("flush_current_page", "flushCurrentPage"),
    ("carquet_row_group_writer_finalize", "rowGroupFinalize"), ("flush_row_group", "flushRowGroup"),
    ("build_file_metadata", "buildFileMetadata"),
    ("parquet_write_file_metadata", "writerClose"), ("write_schema_element", "writerClose"),
    ("write_column_metadata", "writerClose"), ("write_column_chunk", "writerClose"), ("write_row_group", "writerClose"),
    ("write_statistics", "writerClose"), ("write_logical_type", "writerClose"), ("carquet_writer_close", "writerClose"),
    ("carquet_reader_open", "readerOpen"), ("carquet_reader_open_buffer", "readerOpen"), ("carquet_mmap_open", "readerOpen"),
    ("read_footer", "readerOpen"), ("read_footer_mmap", "readerOpen"),
    ("parquet_parse_file_metadata", "parseFileMetadata"), ("parse_row_group", "parseRowGroup"),
    ("parse_column_chunk", "parseChunk"), ("parse_column_metadata", "parseChunk"), ("parse_schema_element", "parseStrings"),
    ("arena_strdup_thrift", "strAlloc"), ("arena_bindup_thrift", "strAlloc"), ("parse_statistics", "strAlloc"),
    ("build_schema", "buildSchema"),
    ("carquet_reader_get_column", "getColumn"), ("load_next_page_fread", "loadPage"), ("load_next_page_mmap", "loadPage"),
    ("carquet_read_data_page_v1", "loadPage"), ("retire_page_data", "loadPage"),
    ("carquet_batch_reader_create", "batchReaderCreate"), ("carquet_batch_reader_next", "batchNext"),
    ("open_row_group_readers", "batchNext") ]

/-- is the C function a modelled allocation site?  (OpenMP outlines `f._omp_fn.N` count as `f`) -/
def modelledSite (fn : String) : Bool :=
  siteTable.any (fun p => p.1 == ((fn.splitOn "._omp_fn").headD fn))

end Carquet.Impl.Alloc.Flow
