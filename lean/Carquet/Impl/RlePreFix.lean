import Carquet.Impl.Rle
/-
The functions of src/encoding/rle.c **as pinned** (before fixes/F1, F30, F31, F33), kept for the
kernel-checked counterexamples `C11_regression_F1`, `C11_regression_F30`,
`C12_regression_F31`, `C11_regression_F33`.  Only what differs from Impl/Rle.lean is repeated.
-/
namespace Carquet.Impl.RlePreFix
open Carquet.Impl Carquet.Impl.Rle

/-- pinned `flush_rle`: one header `(uint32_t)(repeat_count << 1)`, truncated to 32 bits -/
def flushRle (e : Enc) : Enc :=
  if e.rep = 0 then e
  else { e with out := e.out ++ Varint.writeVarint32 ((e.rep <<< 1) % 2 ^ 32) ++ valueLE e.width e.prev,
                rep := 0 }

/-- pinned "value changed" part of `put`: `flush_bitpack` (zero padding!) then `flush_rle` -/
def endRun (e : Enc) : Enc :=
  if e.rep ≥ 8 then flushRle (flushBitpack e)
  else { pushRun e.rep e with rep := 0 }

/-- pinned `carquet_rle_encoder_put` -/
def put (e : Enc) (v : Nat) : Enc :=
  if e.hasPrev = false then { e with prev := v, rep := 1, hasPrev := true }
  else if v = e.prev then { e with rep := e.rep + 1 }
  else { endRun e with prev := v, rep := 1 }

/-- pinned `carquet_rle_encoder_flush` -/
def flush (e : Enc) : Enc :=
  if e.rep ≥ 8 then flushRle (flushBitpack e)
  else if e.rep > 0 then
    if ({ pushRun e.rep e with rep := 0 } : Enc).buf.length > 0 then
      flushBitpack { pushRun e.rep e with rep := 0 }
    else { pushRun e.rep e with rep := 0 }
  else e

/-- pinned `carquet_rle_encode_all` -/
def encode (w : Nat) (vals : List Nat) : List UInt8 :=
  (flush (vals.foldl put (Enc.init w))).out

/-- pinned `start_new_run`: an empty RLE run is skipped *before* its value bytes are read -/
def startNewRunF : Nat → Dec → Bool × Dec
  | 0, d => (false, d)
  | f + 1, d =>
    if d.rest.length = 0 then (false, d)
    else
      match Varint.readVarintRle d.rest with
      | none => (false, { d with status := .invalidRle })
      | some (h, rest) =>
        if h &&& 1 = 0 then
          if h >>> 1 = 0 then
            startNewRunF f { d with rest := rest, inRle := true, runRemaining := 0 }
          else if rest.length < valueBytes d.width then
            (false, { d with rest := rest, inRle := true, runRemaining := h >>> 1, status := .invalidRle })
          else
            (true, { d with rest := rest.drop (valueBytes d.width), inRle := true, runRemaining := h >>> 1,
                            rleValue := Bitpack.leNat (rest.take (valueBytes d.width)) &&& valueMask d.width })
        else
          if (h >>> 1) * 8 = 0 then
            startNewRunF f { d with rest := rest, inRle := false, runRemaining := 0 }
          else
            (true, { d with rest := rest, inRle := false, runRemaining := (h >>> 1) * 8, bp := [] })

def prep (d : Dec) : Bool × Dec :=
  if d.runRemaining = 0 then
    (if (startNewRunF (d.rest.length + 1) d).1 = true then ensureBuf (startNewRunF (d.rest.length + 1) d).2
     else (false, (startNewRunF (d.rest.length + 1) d).2))
  else ensureBuf d

def batchLoop : Nat → Dec → Nat → List Nat × Dec
  | 0, d, _ => ([], d)
  | f + 1, d, want =>
    if want = 0 then ([], d)
    else if hasNext d = false then ([], d)
    else if (prep d).1 = false then ([], (prep d).2)
    else
      (chunkVals (prep d).2 want ++
         (batchLoop f (chunkDec (prep d).2 want) (want - chunkLen (prep d).2 want)).1,
       (batchLoop f (chunkDec (prep d).2 want) (want - chunkLen (prep d).2 want)).2)

/-- pinned `carquet_rle_decode_all` -/
def decodeAll (w : Nat) (bytes : List UInt8) (count : Nat) : List Nat :=
  (batchLoop count (Dec.init w bytes) count).1

/-- outcome of the pinned `carquet_rle_decode_levels_prefixed` length test:
`4 + rle_length` is a `uint32_t` sum -/
inductive PrefixCheck
  | tooShort
  | lengthExceedsInput
  | accepted (len : Nat)     -- decoder called on `input + 4` with `rle_length = len`
  deriving DecidableEq, Repr

def prefixCheck (bytes : List UInt8) : PrefixCheck :=
  if bytes.length < 4 then .tooShort
  else if (4 + Bitpack.leNat (bytes.take 4)) % 2 ^ 32 > bytes.length then .lengthExceedsInput
  else .accepted (Bitpack.leNat (bytes.take 4))

/-! ### before F80 (fixes/F80-rle-decoder-bit-width.patch): no check of the declared bit width -/

/-- a shift of a 32-bit value by 32 bits or more is undefined behaviour in C -/
inductive Fault
  | shiftTooLarge (bits : Nat)
  deriving DecidableEq, Repr

/-- pinned `carquet_rle_decoder_init`: any width is accepted, the status is OK -/
def initPreF80 (w : Nat) (data : List UInt8) : Dec := ⟨w, data, false, 0, 0, [], .ok⟩

/-- pinned run-value loop of `start_new_run` and of `carquet_rle_decode_levels`:
`for (i = 0; i < value_bytes; i++) rle_value |= (uint32_t)data[pos++] << (i * 8);` — with
`value_bytes = (bit_width + 7) / 8 > 4` (any width above 32) the fifth byte is shifted by 32 -/
def readRunValuePreF80 (w : Nat) (bytes : List UInt8) : Except Fault Nat :=
  if valueBytes w > 4 then .error (.shiftTooLarge (4 * 8))
  else .ok (Bitpack.leNat (bytes.take (valueBytes w)) &&& valueMask w)

end Carquet.Impl.RlePreFix
