import Carquet.Impl.Bitpack
/-
Read footprint of the raw bit unpackers of src/core/bitpack.c (C08).

Impl/Bitpack.lean reads `input[i]` through a total lookup (`byteAt`, `take`), so a read past what the
caller provided is invisible there.  Here the indices the C code reads are made explicit:

  carquet_bitunpack8_1bit .. _8bit   `read_le16/24/32/40/48/56`, `input[0..7]`: exactly `input[0 .. w)`
  generic loop (9..32 bits)          `input[byte_pos]`, once per iteration of the inner `while`
  carquet_bitunpack_32               one group read of `w` bytes per full group of 8, then
                                     `memcpy(packed, input + bytes_consumed, packed_size(rem, w))`; the tail group
                                     itself is unpacked from the local `uint8_t packed[32]`, not from `input`
-/
namespace Carquet.Impl.Bitpack

/-- indices `input[byte_pos]` read by the inner `while (bits_needed > 0)` of the generic loop -/
def genInnerIdx (inp : List UInt8) : Nat → GenSt → List Nat
  | 0, _ => []
  | f + 1, s => if s.bitsNeeded = 0 then [] else s.bytePos :: genInnerIdx inp f (genStep inp s)

/-- … of the whole `for (i < 8)` loop (same recursion as `genOuter`) -/
def genOuterIdx (w : Nat) (inp : List UInt8) : Nat → Nat → Nat → List Nat
  | 0, _, _ => []
  | n + 1, bitPos, bytePos =>
    genInnerIdx inp w ⟨0, w, 0, bitPos, bytePos⟩ ++
      genOuterIdx w inp n (genInner inp w ⟨0, w, 0, bitPos, bytePos⟩).bitPos
        (genInner inp w ⟨0, w, 0, bitPos, bytePos⟩).bytePos

/-- the indices of `input` that `carquet_bitunpack8_32(input, w, values)` reads, in order -/
def unpack8Idx (w : Nat) (inp : List UInt8) : List Nat :=
  if w = 0 then []
  else if w ≤ 8 then List.range w
  else genOuterIdx w inp 8 0 0

/-- one read access: `len` bytes from `off` -/
structure Acc where
  off : Nat
  len : Nat
  deriving DecidableEq, Repr

/-- the accesses `carquet_bitunpack_32(input, count, w, values)` makes to `input` -/
def unpackAccs (w count : Nat) : List Acc :=
  if w = 0 then []
  else (List.range (count / 8)).map (fun g => ⟨g * w, w⟩) ++
    (if count % 8 = 0 then [] else [⟨count / 8 * w, packedSize (count % 8) w⟩])

example : unpack8Idx 9 [] = [0, 1, 1, 2, 2, 3, 3, 4, 4, 5, 5, 6, 6, 7, 7, 8] := by decide
example : unpack8Idx 3 [] = [0, 1, 2] := by decide
example : unpackAccs 9 19 = [⟨0, 9⟩, ⟨9, 9⟩, ⟨18, 4⟩] := by decide

end Carquet.Impl.Bitpack
