/-
Model of carquet's ULEB128 / zigzag helpers that the RLE and bit-packing code uses:

  src/core/endian.h   carquet_encode_varint32/64, carquet_decode_varint32/64,
                      carquet_zigzag_encode32/64, carquet_zigzag_decode32/64
  src/encoding/rle.c  write_varint, read_varint, and the header reader inlined in
                      carquet_rle_decode_levels (which never fails)

Fidelity: exact.  Unsigned C integers are `Nat` with the truncations written out
(`% 2^32`, `% 2^64`); the zigzag functions are on `BitVec` because they are pure bit tricks.
The readers return the value and the unread rest of the input (`consumed = len - rest.length`).
The other varint readers of the tree (delta.c, snappy.c, thrift_decode.c) belong to their
components.
-/
namespace Carquet.Impl.Varint

/-- the `while (v >= 0x80)` loop shared by `carquet_encode_varint32/64` and rle.c `write_varint`;
`fuel` = maximal number of continuation bytes (4 for 32 bits, 9 for 64 bits). -/
def writeLoop : Nat → Nat → List UInt8
  | 0, v => [UInt8.ofNat v]
  | f + 1, v =>
    if v ≥ 0x80 then UInt8.ofNat ((v &&& 0x7F) ||| 0x80) :: writeLoop f (v >>> 7)
    else [UInt8.ofNat v]

/-- `carquet_encode_varint32(p, v)` and rle.c `write_varint(buf, value)`; `v : uint32_t` -/
def writeVarint32 (v : Nat) : List UInt8 := writeLoop 4 v

/-- `carquet_encode_varint64(p, v)`; `v : uint64_t` -/
def writeVarint64 (v : Nat) : List UInt8 := writeLoop 9 v

/-- the read loop: `result |= (uintN_t)(byte & 0x7F) << shift` (truncated to `bits` bits);
stops without a value when the input or the fuel (= maximal number of bytes) runs out. -/
def readLoop (bits : Nat) : Nat → Nat → Nat → List UInt8 → Option (Nat × List UInt8)
  | 0, _, _, _ => none
  | _ + 1, _, _, [] => none
  | f + 1, shift, result, b :: rest =>
    if b.toNat &&& 0x80 = 0 then
      some (result ||| (((b.toNat &&& 0x7F) <<< shift) % 2 ^ bits), rest)
    else
      readLoop bits f (shift + 7) (result ||| (((b.toNat &&& 0x7F) <<< shift) % 2 ^ bits)) rest

/-- `carquet_decode_varint32(p, len, &out)`: at most 5 bytes; the bits of the fifth byte above
bit 31 are dropped silently.  `none` = return value −1. -/
def decodeVarint32 (bs : List UInt8) : Option (Nat × List UInt8) := readLoop 32 5 0 0 bs

/-- `carquet_decode_varint64(p, len, &out)`: at most 10 bytes. -/
def decodeVarint64 (bs : List UInt8) : Option (Nat × List UInt8) := readLoop 64 10 0 0 bs

/-- rle.c `read_varint(data, size, &pos, &out)`: `while (p < size && shift < 32)` — five
iterations (shift 0,7,..,28), same truncation; on failure `*pos` is not advanced. -/
def readVarintRle (bs : List UInt8) : Option (Nat × List UInt8) := readLoop 32 5 0 0 bs

/-- the header loop inlined in `carquet_rle_decode_levels`: same loop, but it `break`s out with
whatever was accumulated when the input or the 5 bytes are exhausted (no error). -/
def readLoopNoFail : Nat → Nat → Nat → List UInt8 → Nat × List UInt8
  | 0, _, result, bs => (result, bs)
  | _ + 1, _, result, [] => (result, [])
  | f + 1, shift, result, b :: rest =>
    if b.toNat &&& 0x80 = 0 then
      (result ||| (((b.toNat &&& 0x7F) <<< shift) % 2 ^ 32), rest)
    else
      readLoopNoFail f (shift + 7) (result ||| (((b.toNat &&& 0x7F) <<< shift) % 2 ^ 32)) rest

def readHeaderLevels (bs : List UInt8) : Nat × List UInt8 := readLoopNoFail 5 0 0 bs

/-- `carquet_zigzag_encode32`: `((uint32_t)v << 1) ^ ((uint32_t)((int32_t)v >> 31))` -/
def zigzagEncode32 (v : BitVec 32) : BitVec 32 := (v <<< 1) ^^^ (v.sshiftRight 31)

/-- `carquet_zigzag_decode32`: `(int32_t)((v >> 1) ^ (-(int32_t)(v & 1)))` -/
def zigzagDecode32 (v : BitVec 32) : BitVec 32 := (v >>> 1) ^^^ (- (v &&& 1#32))

/-- `carquet_zigzag_encode64` -/
def zigzagEncode64 (v : BitVec 64) : BitVec 64 := (v <<< 1) ^^^ (v.sshiftRight 63)

/-- `carquet_zigzag_decode64` -/
def zigzagDecode64 (v : BitVec 64) : BitVec 64 := (v >>> 1) ^^^ (- (v &&& 1#64))

example : writeVarint32 300 = [0xAC, 0x02] := by decide
example : writeVarint32 4294967295 = [0xFF, 0xFF, 0xFF, 0xFF, 0x0F] := by decide
example : decodeVarint32 [0xFF, 0xFF, 0xFF, 0xFF, 0x0F, 0x01] = some (4294967295, [0x01]) := by decide
example : decodeVarint32 [0xFF, 0xFF, 0xFF, 0xFF, 0x7F] = some (4294967295, []) := by decide  -- high bits dropped
example : decodeVarint32 [0x80, 0x80, 0x80, 0x80, 0x80, 0x00] = none := by decide
example : zigzagEncode32 (-1) = 1 := by decide
example : zigzagDecode32 4294967295 = -2147483648 := by decide

end Carquet.Impl.Varint
