import Carquet.Impl.Thrift
/-
Model of src/thrift/parquet_types.c: the Parquet metadata structures (parquet_types.h, only the
fields carquet has), their writers and their parsers, struct by struct.  Fidelity: exact for
everything the API returns (status, parsed values, bytes consumed), with these declared
conventions:

* a C pair `bool has_x; T x` is an `Option T` (the writers never look at `x` when `has_x` is
  false; the parsers zero-fill);
* `char*` strings are `Option (List UInt8)` (`none` = NULL) without NUL bytes; parsed strings
  are cut at the first NUL as `carquet_arena_strndup` does;  `uint8_t* + len` is a `List UInt8`
  (a NULL pointer or `len <= 0` is the empty list);  `T* + count` is a `List T`;
  `path_in_schema` elements are never NULL;
* enums are their `int32_t` value; `carquet_logical_type_t` is the inductive `LogicalType`
  (ids 0..14) and `carquet_time_unit_t` is `TimeUnit` (the writer's `else` branch = NANOS);
* the anonymous union of `parquet_page_header_t` is modelled as three separate members and the
  `params` union of the logical type by the constructor's arguments.  A byte stream that makes
  the C parser write two different members of one union (not a valid Thrift union / page
  header) sets the ghost flag `Dec.overlay`; for such streams only status and bytes consumed
  are modelled, the member values are not.
* allocation failures of the arena are not modelled (F20, property C19).
* after `VALIDATE_COUNT` fails the C function returns without `thrift_read_struct_end`; the
  model lets the field loop run into the (now set) error status instead.  The only difference
  is `nesting_level`, which nothing reads once the status is an error.
-/
namespace Carquet.Impl.ThriftParquet
open Carquet.Impl.Thrift

abbrev Bytes := List UInt8

/-! ## Structures (parquet_types.h) -/

structure Statistics where
  maxDeprecated : Bytes := []
  minDeprecated : Bytes := []
  nullCount : Option Int := none
  distinctCount : Option Int := none
  maxValue : Bytes := []
  minValue : Bytes := []
  isMaxValueExact : Option Bool := none
  isMinValueExact : Option Bool := none
  deriving DecidableEq, Repr, Inhabited

inductive TimeUnit | millis | micros | nanos
  deriving DecidableEq, Repr, Inhabited

/-- `carquet_logical_type_t` -/
inductive LogicalType where
  | unknown | string | map | list | enum
  | decimal (scale precision : Int)
  | date
  | time (utc : Bool) (unit : TimeUnit)
  | timestamp (utc : Bool) (unit : TimeUnit)
  | integer (bitWidth : Int) (signed : Bool)
  | null | json | bson | uuid | float16
  deriving DecidableEq, Repr, Inhabited

structure SchemaElement where
  type : Option Int := none
  typeLength : Int := 0
  repetition : Option Int := none
  name : Option Bytes := none
  numChildren : Int := 0
  convertedType : Option Int := none
  scale : Int := 0
  precision : Int := 0
  fieldId : Option Int := none
  logicalType : Option LogicalType := none
  deriving DecidableEq, Repr, Inhabited

structure KeyValue where
  key : Option Bytes := none
  value : Option Bytes := none
  deriving DecidableEq, Repr, Inhabited

structure PageEncodingStats where
  pageType : Int := 0
  encoding : Int := 0
  count : Int := 0
  deriving DecidableEq, Repr, Inhabited

structure ColumnMetaData where
  type : Int := 0
  encodings : List Int := []
  pathInSchema : List Bytes := []
  codec : Int := 0
  numValues : Int := 0
  totalUncompressedSize : Int := 0
  totalCompressedSize : Int := 0
  keyValueMetadata : List KeyValue := []
  dataPageOffset : Int := 0
  indexPageOffset : Option Int := none
  dictionaryPageOffset : Option Int := none
  statistics : Option Statistics := none
  encodingStats : List PageEncodingStats := []
  bloomFilterOffset : Option Int := none
  bloomFilterLength : Option Int := none
  deriving DecidableEq, Repr, Inhabited

structure ColumnChunk where
  filePath : Option Bytes := none
  fileOffset : Int := 0
  metaData : Option ColumnMetaData := none
  offsetIndexOffset : Option Int := none
  offsetIndexLength : Option Int := none
  columnIndexOffset : Option Int := none
  columnIndexLength : Option Int := none
  deriving DecidableEq, Repr, Inhabited

structure RowGroup where
  columns : List ColumnChunk := []
  totalByteSize : Int := 0
  numRows : Int := 0
  fileOffset : Option Int := none
  totalCompressedSize : Option Int := none
  ordinal : Option Int := none
  deriving DecidableEq, Repr, Inhabited

structure FileMetaData where
  version : Int := 0
  schema : List SchemaElement := []
  numRows : Int := 0
  rowGroups : List RowGroup := []
  keyValueMetadata : List KeyValue := []
  createdBy : Option Bytes := none
  deriving DecidableEq, Repr, Inhabited

structure DataPageHeader where
  numValues : Int := 0
  encoding : Int := 0
  definitionLevelEncoding : Int := 0
  repetitionLevelEncoding : Int := 0
  statistics : Option Statistics := none
  deriving DecidableEq, Repr, Inhabited

structure DataPageHeaderV2 where
  numValues : Int := 0
  numNulls : Int := 0
  numRows : Int := 0
  encoding : Int := 0
  definitionLevelsByteLength : Int := 0
  repetitionLevelsByteLength : Int := 0
  isCompressed : Bool := false
  statistics : Option Statistics := none
  deriving DecidableEq, Repr, Inhabited

structure DictionaryPageHeader where
  numValues : Int := 0
  encoding : Int := 0
  isSorted : Bool := false
  deriving DecidableEq, Repr, Inhabited

structure PageHeader where
  type : Int := 0
  uncompressedPageSize : Int := 0
  compressedPageSize : Int := 0
  crc : Option Int := none
  dataPageHeader : DataPageHeader := {}
  dataPageHeaderV2 : DataPageHeaderV2 := {}
  dictionaryPageHeader : DictionaryPageHeader := {}
  deriving DecidableEq, Repr, Inhabited

/-- wire types, `THRIFT_TYPE_*` -/
def tBool (b : Bool) : Nat := if b then 1 else 2
def tByte : Nat := 3
def tI16 : Nat := 4
def tI32 : Nat := 5
def tI64 : Nat := 6
def tBinary : Nat := 8
def tList : Nat := 9
def tStruct : Nat := 12

/-- `CARQUET_PAGE_*` -/
def pageData : Int := 0
def pageDictionary : Int := 2
def pageDataV2 : Int := 3

/-- `CARQUET_MAX_*` limits of parquet_types.c -/
def maxSchemaElements : Int := 10000
def maxRowGroups : Int := 100000
def maxColumnsPerRg : Int := 10000
def maxKeyValuePairs : Int := 10000
def maxEncodings : Int := 100
def maxPathElements : Int := 100
def maxEncodingStats : Int := 100

/-! ## Writers -/

/-- `thrift_write_field_header(enc, T, id); thrift_write_i16/i32/i64(enc, v)` -/
def wI (e : Enc) (ty : Nat) (fid : Int) (v : Int) : Enc := writeI (writeFieldHeader e ty fid) v
/-- the same under `if (has_x)` -/
def wOptI (e : Enc) (ty : Nat) (fid : Int) (v : Option Int) : Enc :=
  match v with
  | none => e
  | some x => wI e ty fid x
/-- `if (ptr && len > 0) { header BINARY; thrift_write_binary }` -/
def wBinNonEmpty (e : Enc) (fid : Int) (b : Bytes) : Enc :=
  if b.isEmpty then e else writeBinary (writeFieldHeader e tBinary fid) b
/-- `if (str) { header BINARY; thrift_write_string }` -/
def wOptStr (e : Enc) (fid : Int) (s : Option Bytes) : Enc :=
  match s with
  | none => e
  | some b => writeBinary (writeFieldHeader e tBinary fid) b
/-- `for (i = 0; i < n; i++) f(enc, &xs[i])` -/
def wEach {α : Type} (f : Enc → α → Enc) (e : Enc) (xs : List α) : Enc := xs.foldl f e

/-- `write_statistics` -/
def writeStatistics (e : Enc) (s : Statistics) : Enc :=
  writeStructEnd
    (wBinNonEmpty (wBinNonEmpty (wOptI (wOptI (wBinNonEmpty (wBinNonEmpty (writeStructBegin e)
      1 s.maxDeprecated) 2 s.minDeprecated) tI64 3 s.nullCount) tI64 4 s.distinctCount)
      5 s.maxValue) 6 s.minValue)

/-- an empty struct member of the LogicalType union: header, struct begin, struct end -/
def wEmptyMember (e : Enc) (fid : Int) : Enc :=
  writeStructEnd (writeStructBegin (writeFieldHeader e tStruct fid))

/-- the TimeUnit union written inside TIME / TIMESTAMP -/
def wTimeUnit (e : Enc) (u : TimeUnit) : Enc :=
  writeStructEnd (wEmptyMember (writeStructBegin (writeFieldHeader e tStruct 2))
    (match u with | .millis => 1 | .micros => 2 | .nanos => 3))

/-- body shared by the TIME and TIMESTAMP cases -/
def wTimeMember (e : Enc) (fid : Int) (utc : Bool) (u : TimeUnit) : Enc :=
  writeStructEnd (wTimeUnit (writeFieldHeader (writeStructBegin (writeFieldHeader e tStruct fid)) (tBool utc) 1) u)

/-- the `switch (lt->id)` of `write_logical_type` -/
def wLogicalMember (e : Enc) (lt : LogicalType) : Enc :=
  match lt with
  | .unknown => e
  | .string => wEmptyMember e 1
  | .map => wEmptyMember e 2
  | .list => wEmptyMember e 3
  | .enum => wEmptyMember e 4
  | .decimal scale precision =>
      writeStructEnd (wI (wI (writeStructBegin (writeFieldHeader e tStruct 5)) tI32 1 scale) tI32 2 precision)
  | .date => wEmptyMember e 6
  | .time utc u => wTimeMember e 7 utc u
  | .timestamp utc u => wTimeMember e 8 utc u
  | .integer bw sg =>
      writeStructEnd (writeFieldHeader (writeByte (writeFieldHeader (writeStructBegin
        (writeFieldHeader e tStruct 10)) tByte 1) (byteOfI8 bw)) (tBool sg) 2)
  | .null => wEmptyMember e 11
  | .json => wEmptyMember e 12
  | .bson => wEmptyMember e 13
  | .uuid => wEmptyMember e 14
  | .float16 => wEmptyMember e 15

/-- `write_logical_type` -/
def writeLogicalType (e : Enc) (lt : LogicalType) : Enc :=
  writeStructEnd (wLogicalMember (writeStructBegin e) lt)

/-- field 10 of `write_schema_element`: `has_logical_type && id != UNKNOWN` -/
def wLogicalField (e : Enc) (lt : Option LogicalType) : Enc :=
  match lt with
  | none => e
  | some .unknown => e
  | some l => writeLogicalType (writeFieldHeader e tStruct 10) l

def wIfPos (e : Enc) (fid : Int) (v : Int) : Enc := if 0 < v then wI e tI32 fid v else e
def wIfNonZero (e : Enc) (fid : Int) (v : Int) : Enc := if v = 0 then e else wI e tI32 fid v

/-- `write_schema_element` -/
def writeSchemaElement (e : Enc) (s : SchemaElement) : Enc :=
  writeStructEnd
    (wLogicalField (wOptI (wIfNonZero (wIfNonZero (wOptI (wIfPos (wOptStr (wOptI (wIfPos (wOptI
      (writeStructBegin e) tI32 1 s.type) 2 s.typeLength) tI32 3 s.repetition) 4 s.name)
      5 s.numChildren) tI32 6 s.convertedType) 7 s.scale) 8 s.precision) tI32 9 s.fieldId)
      s.logicalType)

def wOptStats (e : Enc) (fid : Int) (s : Option Statistics) : Enc :=
  match s with
  | none => e
  | some st => writeStatistics (writeFieldHeader e tStruct fid) st

/-- `write_column_metadata` (fields 8 and 13 are never written) -/
def writeColumnMetaData (e : Enc) (m : ColumnMetaData) : Enc :=
  writeStructEnd
    (wOptI (wOptI (wOptStats (wOptI (wOptI (wI (wI (wI (wI (wI
      (wEach (fun e p => writeString e (some p))
        (writeListBegin (writeFieldHeader
          (wEach writeI (writeListBegin (writeFieldHeader (wI (writeStructBegin e) tI32 1 m.type) tList 2)
            tI32 m.encodings.length) m.encodings)
          tList 3) tBinary m.pathInSchema.length) m.pathInSchema)
      tI32 4 m.codec) tI64 5 m.numValues) tI64 6 m.totalUncompressedSize) tI64 7 m.totalCompressedSize)
      tI64 9 m.dataPageOffset) tI64 10 m.indexPageOffset) tI64 11 m.dictionaryPageOffset)
      12 m.statistics) tI64 14 m.bloomFilterOffset) tI32 15 m.bloomFilterLength)

def wOptMeta (e : Enc) (m : Option ColumnMetaData) : Enc :=
  match m with
  | none => e
  | some x => writeColumnMetaData (writeFieldHeader e tStruct 3) x

/-- `write_column_chunk` -/
def writeColumnChunk (e : Enc) (c : ColumnChunk) : Enc :=
  writeStructEnd
    (wOptI (wOptI (wOptI (wOptI (wOptMeta (wI (wOptStr (writeStructBegin e) 1 c.filePath)
      tI64 2 c.fileOffset) c.metaData) tI64 4 c.offsetIndexOffset) tI32 5 c.offsetIndexLength)
      tI64 6 c.columnIndexOffset) tI32 7 c.columnIndexLength)

/-- `write_row_group` -/
def writeRowGroup (e : Enc) (g : RowGroup) : Enc :=
  writeStructEnd
    (wOptI (wOptI (wOptI (wI (wI
      (wEach writeColumnChunk (writeListBegin (writeFieldHeader (writeStructBegin e) tList 1)
        tStruct g.columns.length) g.columns)
      tI64 2 g.totalByteSize) tI64 3 g.numRows) tI64 5 g.fileOffset) tI64 6 g.totalCompressedSize)
      tI16 7 g.ordinal)

/-- one element of the key/value list of `parquet_write_file_metadata` -/
def writeKeyValue (e : Enc) (kv : KeyValue) : Enc :=
  writeStructEnd (wOptStr (writeString (writeFieldHeader (writeStructBegin e) tBinary 1) kv.key) 2 kv.value)

/-- field 5 of the file metadata: `if (key_value_metadata && num_key_value > 0)` -/
def wKeyValues (e : Enc) (kvs : List KeyValue) : Enc :=
  if kvs.isEmpty then e
  else wEach writeKeyValue (writeListBegin (writeFieldHeader e tList 5) tStruct kvs.length) kvs

/-- the encoder state at the end of `parquet_write_file_metadata` -/
def writeFileMetaDataEnc (m : FileMetaData) : Enc :=
  writeStructEnd
    (wOptStr (wKeyValues
      (wEach writeRowGroup (writeListBegin (writeFieldHeader
        (wI
          (wEach writeSchemaElement (writeListBegin (writeFieldHeader
            (wI (writeStructBegin Enc.init) tI32 1 m.version) tList 2) tStruct m.schema.length) m.schema)
          tI64 3 m.numRows)
        tList 4) tStruct m.rowGroups.length) m.rowGroups)
      m.keyValueMetadata) 6 m.createdBy)

/-- `parquet_write_file_metadata`: the bytes appended to the buffer (status OK is part of
`writeFileMetaDataStatus`) -/
def writeFileMetaData (m : FileMetaData) : Bytes := (writeFileMetaDataEnc m).out
def writeFileMetaDataStatus (m : FileMetaData) : Option Err := (writeFileMetaDataEnc m).status

def wDataPageHeader (e : Enc) (h : DataPageHeader) : Enc :=
  writeStructEnd (wOptStats (wI (wI (wI (wI (writeStructBegin (writeFieldHeader e tStruct 5))
    tI32 1 h.numValues) tI32 2 h.encoding) tI32 3 h.definitionLevelEncoding)
    tI32 4 h.repetitionLevelEncoding) 5 h.statistics)

def wDataPageHeaderV2 (e : Enc) (h : DataPageHeaderV2) : Enc :=
  writeStructEnd (writeFieldHeader (wI (wI (wI (wI (wI (wI (writeStructBegin (writeFieldHeader e tStruct 8))
    tI32 1 h.numValues) tI32 2 h.numNulls) tI32 3 h.numRows) tI32 4 h.encoding)
    tI32 5 h.definitionLevelsByteLength) tI32 6 h.repetitionLevelsByteLength) (tBool h.isCompressed) 7)

def wDictionaryPageHeader (e : Enc) (h : DictionaryPageHeader) : Enc :=
  writeStructEnd (writeFieldHeader (wI (wI (writeStructBegin (writeFieldHeader e tStruct 7))
    tI32 1 h.numValues) tI32 2 h.encoding) (tBool h.isSorted) 3)

/-- the `switch (header->type)` of `parquet_write_page_header` -/
def wPageMember (e : Enc) (h : PageHeader) : Enc :=
  if h.type = pageData then wDataPageHeader e h.dataPageHeader
  else if h.type = pageDataV2 then wDataPageHeaderV2 e h.dataPageHeaderV2
  else if h.type = pageDictionary then wDictionaryPageHeader e h.dictionaryPageHeader
  else e

def writePageHeaderEnc (h : PageHeader) : Enc :=
  writeStructEnd (wPageMember (wOptI (wI (wI (wI (writeStructBegin Enc.init) tI32 1 h.type)
    tI32 2 h.uncompressedPageSize) tI32 3 h.compressedPageSize) tI32 4 h.crc) h)

/-- `parquet_write_page_header` -/
def writePageHeader (h : PageHeader) : Bytes := (writePageHeaderEnc h).out
def writePageHeaderStatus (h : PageHeader) : Option Err := (writePageHeaderEnc h).status

/-! ## Parsers -/

/-- a C string seen through its bytes: up to the first NUL -/
def cstr (b : Bytes) : Bytes := b.takeWhile (· ≠ 0)

/-- the bytes behind the data pointer `thrift_read_binary` returned (NULL: none) -/
def bytesOf (o : Option Bytes) : Bytes :=
  match o with
  | none => []
  | some b => b

/-- the characters of the string `arena_strdup_thrift` returns (it is never NULL, allocation
failure aside: a failed read yields `""`; the copy ends at the first NUL) -/
def strdupBytes (d : Dec) : Bytes × Dec := (cstr (bytesOf (readBinary d).1), (readBinary d).2.2)

/-- `arena_strdup_thrift` -/
def strdupThrift (d : Dec) : Option Bytes × Dec := (some (strdupBytes d).1, (strdupBytes d).2)

/-- `arena_bindup_thrift`: the bytes `len` describes (pointer NULL iff empty) -/
def bindupThrift (d : Dec) : Bytes × Dec := (bytesOf (readBinary d).1, (readBinary d).2.2)

/-- `for (i = 0; i < count; i++) out[i] = f(dec)` — not guarded by the status -/
def readMany {α : Type} (f : Dec → α × Dec) : Nat → Dec → List α × Dec
  | 0, d => ([], d)
  | n + 1, d =>
    match f d with
    | (a, d1) =>
      match readMany f n d1 with
      | (as, d2) => (a :: as, d2)

/-- `thrift_read_list_begin; VALIDATE_COUNT(count, max, dec); for … elem`.
`none`: the count was refused, the status is now THRIFT_DECODE and the field keeps its value. -/
def parseListOf {α : Type} (max : Int) (elem : Dec → α × Dec) (d : Dec) : Option (List α) × Dec :=
  if (readListBegin d).count < 0 ∨ max < (readListBegin d).count then
    (none, { (readListBegin d).dec with status := some .decode })
  else
    match readMany elem (readListBegin d).count.toNat (readListBegin d).dec with
    | (xs, d1) => (some xs, d1)

/-- a nested struct parser: `memset; struct_begin; while (field_begin) switch…; struct_end` -/
def parseStruct {σ : Type} (body : Nat → Int → Dec → σ → σ × Dec) (init : σ) (d : Dec) : σ × Dec :=
  match fieldLoop (fun _ => false) body d.budget (structBegin d) init with
  | (s, d1) => (s, structEnd d1)

section
variable (cfg : Cfg)

def statisticsBody (ty : Nat) (fid : Int) (d : Dec) (s : Statistics) : Statistics × Dec :=
  if fid = 1 then ({ s with maxDeprecated := (bindupThrift d).1 }, (bindupThrift d).2)
  else if fid = 2 then ({ s with minDeprecated := (bindupThrift d).1 }, (bindupThrift d).2)
  else if fid = 3 then ({ s with nullCount := some (readI64 d).1 }, (readI64 d).2)
  else if fid = 4 then ({ s with distinctCount := some (readI64 d).1 }, (readI64 d).2)
  else if fid = 5 then ({ s with maxValue := (bindupThrift d).1 }, (bindupThrift d).2)
  else if fid = 6 then ({ s with minValue := (bindupThrift d).1 }, (bindupThrift d).2)
  else if fid = 7 then ({ s with isMaxValueExact := some (readBool d).1 }, (readBool d).2)
  else if fid = 8 then ({ s with isMinValueExact := some (readBool d).1 }, (readBool d).2)
  else (s, skipField cfg ty d)

/-- `parse_statistics` -/
def parseStatistics (d : Dec) : Statistics × Dec := parseStruct (statisticsBody cfg) {} d

/-- `lt->id = X` (and, for members with parameters, the writes into the `params` union).
Second component: ghost flag "a member has been written before", i.e. the C union now holds an
overlay of two members, which the model does not represent. -/
def memberState (cur : LogicalType × Bool) (new : LogicalType) : LogicalType × Bool :=
  (new, cur.2 || decide (cur.1 ≠ .unknown))

def decimalBody (ty : Nat) (fid : Int) (d : Dec) (s : Int × Int) : (Int × Int) × Dec :=
  if fid = 1 then (((readI32 d).1, s.2), (readI32 d).2)
  else if fid = 2 then ((s.1, (readI32 d).1), (readI32 d).2)
  else (s, skipField cfg ty d)

def timeUnitBody (ty : Nat) (fid : Int) (d : Dec) (u : TimeUnit) : TimeUnit × Dec :=
  ((if fid = 1 then .millis else if fid = 2 then .micros else if fid = 3 then .nanos else u),
    skipField cfg ty d)

def timeBody (ty : Nat) (fid : Int) (d : Dec) (s : Bool × TimeUnit) : (Bool × TimeUnit) × Dec :=
  if fid = 1 then (((readBool d).1, s.2), (readBool d).2)
  else if fid = 2 then
    match parseStruct (timeUnitBody cfg) s.2 d with
    | (u, d1) => ((s.1, u), d1)
  else (s, skipField cfg ty d)

def integerBody (ty : Nat) (fid : Int) (d : Dec) (s : Int × Bool) : (Int × Bool) × Dec :=
  if fid = 1 then (((readI8 d).1, s.2), (readI8 d).2)
  else if fid = 2 then ((s.1, (readBool d).1), (readBool d).2)
  else (s, skipField cfg ty d)

/-- a member without parameters: `lt->id = X; thrift_skip(dec, type)` -/
def plainMember (ty : Nat) (d : Dec) (cur : LogicalType × Bool) (new : LogicalType) : (LogicalType × Bool) × Dec :=
  (memberState cur new, skipField cfg ty d)

def logicalBody (ty : Nat) (fid : Int) (d : Dec) (s : LogicalType × Bool) : (LogicalType × Bool) × Dec :=
  if fid = 1 then plainMember cfg ty d s .string
  else if fid = 2 then plainMember cfg ty d s .map
  else if fid = 3 then plainMember cfg ty d s .list
  else if fid = 4 then plainMember cfg ty d s .enum
  else if fid = 5 then
    match parseStruct (decimalBody cfg) (0, 0) d with
    | (p, d1) => (memberState s (.decimal p.1 p.2), d1)
  else if fid = 6 then plainMember cfg ty d s .date
  else if fid = 7 then
    match parseStruct (timeBody cfg) (false, .millis) d with
    | (p, d1) => (memberState s (.time p.1 p.2), d1)
  else if fid = 8 then
    match parseStruct (timeBody cfg) (false, .millis) d with
    | (p, d1) => (memberState s (.timestamp p.1 p.2), d1)
  else if fid = 10 then
    match parseStruct (integerBody cfg) (0, false) d with
    | (p, d1) => (memberState s (.integer p.1 p.2), d1)
  else if fid = 11 then plainMember cfg ty d s .null
  else if fid = 12 then plainMember cfg ty d s .json
  else if fid = 13 then plainMember cfg ty d s .bson
  else if fid = 14 then plainMember cfg ty d s .uuid
  else if fid = 15 then plainMember cfg ty d s .float16
  else (s, skipField cfg ty d)

/-- `parse_logical_type`; the second component is the ghost overlay flag -/
def parseLogicalType (d : Dec) : (LogicalType × Bool) × Dec := parseStruct (logicalBody cfg) (.unknown, false) d

/-- ghost: record in the decoder that a union overlay happened -/
def noteOverlay (clash : Bool) (d : Dec) : Dec := if clash then { d with overlay := true } else d

def schemaElementBody (ty : Nat) (fid : Int) (d : Dec) (s : SchemaElement) : SchemaElement × Dec :=
  if fid = 1 then ({ s with type := some (readI32 d).1 }, (readI32 d).2)
  else if fid = 2 then ({ s with typeLength := (readI32 d).1 }, (readI32 d).2)
  else if fid = 3 then ({ s with repetition := some (readI32 d).1 }, (readI32 d).2)
  else if fid = 4 then ({ s with name := (strdupThrift d).1 }, (strdupThrift d).2)
  else if fid = 5 then ({ s with numChildren := (readI32 d).1 }, (readI32 d).2)
  else if fid = 6 then ({ s with convertedType := some (readI32 d).1 }, (readI32 d).2)
  else if fid = 7 then ({ s with scale := (readI32 d).1 }, (readI32 d).2)
  else if fid = 8 then ({ s with precision := (readI32 d).1 }, (readI32 d).2)
  else if fid = 9 then ({ s with fieldId := some (readI32 d).1 }, (readI32 d).2)
  else if fid = 10 then
    match parseLogicalType cfg d with
    | (lt, d1) => ({ s with logicalType := some lt.1 }, noteOverlay lt.2 d1)
  else (s, skipField cfg ty d)

/-- `parse_schema_element` -/
def parseSchemaElement (d : Dec) : SchemaElement × Dec := parseStruct (schemaElementBody cfg) {} d

def keyValueBody (ty : Nat) (fid : Int) (d : Dec) (s : KeyValue) : KeyValue × Dec :=
  if fid = 1 then ({ s with key := (strdupThrift d).1 }, (strdupThrift d).2)
  else if fid = 2 then ({ s with value := (strdupThrift d).1 }, (strdupThrift d).2)
  else (s, skipField cfg ty d)

/-- the inline key/value struct loop (column metadata field 8, file metadata field 5) -/
def parseKeyValue (d : Dec) : KeyValue × Dec := parseStruct (keyValueBody cfg) {} d

def encodingStatsBody (ty : Nat) (fid : Int) (d : Dec) (s : PageEncodingStats) : PageEncodingStats × Dec :=
  if fid = 1 then ({ s with pageType := (readI32 d).1 }, (readI32 d).2)
  else if fid = 2 then ({ s with encoding := (readI32 d).1 }, (readI32 d).2)
  else if fid = 3 then ({ s with count := (readI32 d).1 }, (readI32 d).2)
  else (s, skipField cfg ty d)

def parseEncodingStats (d : Dec) : PageEncodingStats × Dec := parseStruct (encodingStatsBody cfg) {} d

/-- a list-valued field: keep the old value when the count is refused -/
def optSet {σ α : Type} (set : σ → List α → σ) (s : σ) (o : Option (List α)) : σ :=
  match o with
  | none => s
  | some xs => set s xs

def setList {σ α : Type} (s : σ) (set : σ → List α → σ) (r : Option (List α) × Dec) : σ × Dec :=
  (optSet set s r.1, r.2)

def columnMetaDataBody (ty : Nat) (fid : Int) (d : Dec) (s : ColumnMetaData) : ColumnMetaData × Dec :=
  if fid = 1 then ({ s with type := (readI32 d).1 }, (readI32 d).2)
  else if fid = 2 then setList s (fun s xs => { s with encodings := xs }) (parseListOf maxEncodings readI32 d)
  else if fid = 3 then
    setList s (fun s xs => { s with pathInSchema := xs })
      (parseListOf maxPathElements strdupBytes d)
  else if fid = 4 then ({ s with codec := (readI32 d).1 }, (readI32 d).2)
  else if fid = 5 then ({ s with numValues := (readI64 d).1 }, (readI64 d).2)
  else if fid = 6 then ({ s with totalUncompressedSize := (readI64 d).1 }, (readI64 d).2)
  else if fid = 7 then ({ s with totalCompressedSize := (readI64 d).1 }, (readI64 d).2)
  else if fid = 8 then
    setList s (fun s xs => { s with keyValueMetadata := xs }) (parseListOf maxKeyValuePairs (parseKeyValue cfg) d)
  else if fid = 9 then ({ s with dataPageOffset := (readI64 d).1 }, (readI64 d).2)
  else if fid = 10 then ({ s with indexPageOffset := some (readI64 d).1 }, (readI64 d).2)
  else if fid = 11 then ({ s with dictionaryPageOffset := some (readI64 d).1 }, (readI64 d).2)
  else if fid = 12 then
    match parseStatistics cfg d with
    | (st, d1) => ({ s with statistics := some st }, d1)
  else if fid = 13 then
    setList s (fun s xs => { s with encodingStats := xs }) (parseListOf maxEncodingStats (parseEncodingStats cfg) d)
  else if fid = 14 then ({ s with bloomFilterOffset := some (readI64 d).1 }, (readI64 d).2)
  else if fid = 15 then ({ s with bloomFilterLength := some (readI32 d).1 }, (readI32 d).2)
  else (s, skipField cfg ty d)

/-- `parse_column_metadata` -/
def parseColumnMetaData (d : Dec) : ColumnMetaData × Dec := parseStruct (columnMetaDataBody cfg) {} d

def columnChunkBody (ty : Nat) (fid : Int) (d : Dec) (s : ColumnChunk) : ColumnChunk × Dec :=
  if fid = 1 then ({ s with filePath := (strdupThrift d).1 }, (strdupThrift d).2)
  else if fid = 2 then ({ s with fileOffset := (readI64 d).1 }, (readI64 d).2)
  else if fid = 3 then
    match parseColumnMetaData cfg d with
    | (m, d1) => ({ s with metaData := some m }, d1)
  else if fid = 4 then ({ s with offsetIndexOffset := some (readI64 d).1 }, (readI64 d).2)
  else if fid = 5 then ({ s with offsetIndexLength := some (readI32 d).1 }, (readI32 d).2)
  else if fid = 6 then ({ s with columnIndexOffset := some (readI64 d).1 }, (readI64 d).2)
  else if fid = 7 then ({ s with columnIndexLength := some (readI32 d).1 }, (readI32 d).2)
  else (s, skipField cfg ty d)

/-- `parse_column_chunk` -/
def parseColumnChunk (d : Dec) : ColumnChunk × Dec := parseStruct (columnChunkBody cfg) {} d

def rowGroupBody (ty : Nat) (fid : Int) (d : Dec) (s : RowGroup) : RowGroup × Dec :=
  if fid = 1 then setList s (fun s xs => { s with columns := xs }) (parseListOf maxColumnsPerRg (parseColumnChunk cfg) d)
  else if fid = 2 then ({ s with totalByteSize := (readI64 d).1 }, (readI64 d).2)
  else if fid = 3 then ({ s with numRows := (readI64 d).1 }, (readI64 d).2)
  else if fid = 4 then (s, skipField cfg ty d)
  else if fid = 5 then ({ s with fileOffset := some (readI64 d).1 }, (readI64 d).2)
  else if fid = 6 then ({ s with totalCompressedSize := some (readI64 d).1 }, (readI64 d).2)
  else if fid = 7 then ({ s with ordinal := some (readI16 d).1 }, (readI16 d).2)
  else (s, skipField cfg ty d)

/-- `parse_row_group` -/
def parseRowGroup (d : Dec) : RowGroup × Dec := parseStruct (rowGroupBody cfg) {} d

/-- loop state of the two top-level parsers: the value and the status of an early `return` -/
structure Top (α : Type) where
  val : α
  abort : Option Err

/-- `thrift_read_list_begin; VALIDATE_COUNT_STATUS(count, max, error); for … elem` -/
def topListOf {σ α : Type} (max : Int) (elem : Dec → α × Dec) (set : σ → List α → σ)
    (d : Dec) (s : Top σ) : Top σ × Dec :=
  if (readListBegin d).count < 0 ∨ max < (readListBegin d).count then
    ({ s with abort := some .invalidMetadata }, (readListBegin d).dec)
  else
    match readMany elem (readListBegin d).count.toNat (readListBegin d).dec with
    | (xs, d1) => ({ s with val := set s.val xs }, d1)

/-- `required_seen`: which of the required fields version, schema, num_rows, row_groups have
been met (one bit each in C) -/
structure Required where
  version : Bool := false
  schema : Bool := false
  numRows : Bool := false
  rowGroups : Bool := false
  deriving DecidableEq, Repr, Inhabited

def Required.all (r : Required) : Bool := r.version && r.schema && r.numRows && r.rowGroups

def fileMetaDataBody (ty : Nat) (fid : Int) (d : Dec) (s : Top (FileMetaData × Required)) :
    Top (FileMetaData × Required) × Dec :=
  match d.status with
  | some e => ({ s with abort := some e }, d)
  | none =>
    if fid = 1 then
      ({ s with val := ({ s.val.1 with version := (readI32 d).1 }, { s.val.2 with version := true }) }, (readI32 d).2)
    else if fid = 2 then
      topListOf maxSchemaElements (parseSchemaElement cfg)
        (fun v xs => ({ v.1 with schema := xs }, { v.2 with schema := true })) d s
    else if fid = 3 then
      ({ s with val := ({ s.val.1 with numRows := (readI64 d).1 }, { s.val.2 with numRows := true }) }, (readI64 d).2)
    else if fid = 4 then
      topListOf maxRowGroups (parseRowGroup cfg)
        (fun v xs => ({ v.1 with rowGroups := xs }, { v.2 with rowGroups := true })) d s
    else if fid = 5 then
      topListOf maxKeyValuePairs (parseKeyValue cfg) (fun v xs => ({ v.1 with keyValueMetadata := xs }, v.2)) d s
    else if fid = 6 then
      ({ s with val := ({ s.val.1 with createdBy := (strdupThrift d).1 }, s.val.2) }, (strdupThrift d).2)
    else (s, skipField cfg ty d)

/-- what a top-level parser returns: the status, the value (meaningful when the status is OK),
`dec.reader.pos` at the end, and the ghost overlay flag -/
structure ParseResult (α : Type) where
  status : Option Err
  val : α
  consumed : Nat
  overlay : Bool

def topFinish {α : Type} (r : Top α × Dec) : ParseResult α :=
  match r.1.abort with
  | some e => ⟨some e, r.1.val, r.2.pos, r.2.overlay⟩
  | none => ⟨(structEnd r.2).status, r.1.val, r.2.pos, r.2.overlay⟩

def topParse {α : Type} (body : Nat → Int → Dec → Top α → Top α × Dec) (init : α) (data : Bytes) :
    ParseResult α :=
  topFinish (fieldLoop (fun s => s.abort.isSome) body (data.length + 1) (structBegin (Dec.init data)) ⟨init, none⟩)

/-- the check after the loop: a footer without version, schema, num_rows and row_groups is not
file metadata (decoder errors are reported first) -/
def requiredCheck (st : Option Err) (r : Required) : Option Err :=
  match st with
  | some e => some e
  | none => if r.all then none else some .invalidMetadata

/-- `parquet_parse_file_metadata` (data, arena, metadata non-NULL) -/
def parseFileMetaDataX (data : Bytes) : ParseResult FileMetaData :=
  match topParse (fileMetaDataBody cfg) (({}, {}) : FileMetaData × Required) data with
  | ⟨st, v, n, ov⟩ => ⟨requiredCheck st v.2, v.1, n, ov⟩

def pageStatsField (ty : Nat) (d : Dec) : Option Statistics × Dec :=
  if cfg.pageStats then
    match parseStatistics cfg d with
    | (st, d1) => (some st, d1)
  else (some {}, skipField cfg ty d)

def dataPageHeaderBody (ty : Nat) (fid : Int) (d : Dec) (s : DataPageHeader) : DataPageHeader × Dec :=
  if fid = 1 then ({ s with numValues := (readI32 d).1 }, (readI32 d).2)
  else if fid = 2 then ({ s with encoding := (readI32 d).1 }, (readI32 d).2)
  else if fid = 3 then ({ s with definitionLevelEncoding := (readI32 d).1 }, (readI32 d).2)
  else if fid = 4 then ({ s with repetitionLevelEncoding := (readI32 d).1 }, (readI32 d).2)
  else if fid = 5 then
    match pageStatsField cfg ty d with
    | (st, d1) => ({ s with statistics := st }, d1)
  else (s, skipField cfg ty d)

def dictionaryPageHeaderBody (ty : Nat) (fid : Int) (d : Dec) (s : DictionaryPageHeader) : DictionaryPageHeader × Dec :=
  if fid = 1 then ({ s with numValues := (readI32 d).1 }, (readI32 d).2)
  else if fid = 2 then ({ s with encoding := (readI32 d).1 }, (readI32 d).2)
  else if fid = 3 then ({ s with isSorted := (readBool d).1 }, (readBool d).2)
  else (s, skipField cfg ty d)

def dataPageHeaderV2Body (ty : Nat) (fid : Int) (d : Dec) (s : DataPageHeaderV2) : DataPageHeaderV2 × Dec :=
  if fid = 1 then ({ s with numValues := (readI32 d).1 }, (readI32 d).2)
  else if fid = 2 then ({ s with numNulls := (readI32 d).1 }, (readI32 d).2)
  else if fid = 3 then ({ s with numRows := (readI32 d).1 }, (readI32 d).2)
  else if fid = 4 then ({ s with encoding := (readI32 d).1 }, (readI32 d).2)
  else if fid = 5 then ({ s with definitionLevelsByteLength := (readI32 d).1 }, (readI32 d).2)
  else if fid = 6 then ({ s with repetitionLevelsByteLength := (readI32 d).1 }, (readI32 d).2)
  else if fid = 7 then ({ s with isCompressed := (readBool d).1 }, (readBool d).2)
  else if fid = 8 then
    match pageStatsField cfg ty d with
    | (st, d1) => ({ s with statistics := st }, d1)
  else (s, skipField cfg ty d)

/-- which members of the page-header union the stream has written so far (ghost) -/
structure Seen where
  data : Bool := false
  dict : Bool := false
  v2 : Bool := false

/-- loop state of `parquet_parse_page_header`: the header and the ghost `Seen` -/
def pageHeaderBody (ty : Nat) (fid : Int) (d : Dec) (s : Top (PageHeader × Seen)) : Top (PageHeader × Seen) × Dec :=
  match d.status with
  | some e => ({ s with abort := some e }, d)
  | none =>
    if fid = 1 then ({ s with val := ({ s.val.1 with type := (readI32 d).1 }, s.val.2) }, (readI32 d).2)
    else if fid = 2 then ({ s with val := ({ s.val.1 with uncompressedPageSize := (readI32 d).1 }, s.val.2) }, (readI32 d).2)
    else if fid = 3 then ({ s with val := ({ s.val.1 with compressedPageSize := (readI32 d).1 }, s.val.2) }, (readI32 d).2)
    else if fid = 4 then ({ s with val := ({ s.val.1 with crc := some (readI32 d).1 }, s.val.2) }, (readI32 d).2)
    else if fid = 5 then
      match parseStruct (dataPageHeaderBody cfg) s.val.1.dataPageHeader d with
      | (m, d1) => ({ s with val := ({ s.val.1 with dataPageHeader := m }, { s.val.2 with data := true }) }, d1)
    else if fid = 7 then
      match parseStruct (dictionaryPageHeaderBody cfg) s.val.1.dictionaryPageHeader d with
      | (m, d1) => ({ s with val := ({ s.val.1 with dictionaryPageHeader := m }, { s.val.2 with dict := true }) }, d1)
    else if fid = 8 then
      match parseStruct (dataPageHeaderV2Body cfg) { s.val.1.dataPageHeaderV2 with isCompressed := true } d with
      | (m, d1) => ({ s with val := ({ s.val.1 with dataPageHeaderV2 := m }, { s.val.2 with v2 := true }) }, d1)
    else (s, skipField cfg ty d)

/-- The member of the union that `type` selects was the only one written (or none was): then
the three members of the model are what the C union holds when read through that member. -/
def unionConsistent (h : PageHeader) (seen : Seen) : Bool :=
  if h.type = pageData then !seen.dict && !seen.v2
  else if h.type = pageDataV2 then !seen.data && !seen.dict
  else if h.type = pageDictionary then !seen.data && !seen.v2
  else true

/-- `parquet_parse_page_header` (data, header, bytes_read non-NULL); `consumed` is
`*bytes_read` when the status is OK (C leaves it 0 otherwise) -/
def parsePageHeaderX (data : Bytes) : ParseResult PageHeader :=
  match topParse (pageHeaderBody cfg) (({}, {}) : PageHeader × Seen) data with
  | ⟨st, v, n, ov⟩ => ⟨st, v.1, n, ov || !unionConsistent v.1 v.2⟩

end

/-! ## The API used by the file-level models (the repaired code) -/

def ParseResult.toExcept {α : Type} (r : ParseResult α) : Except Err α :=
  match r.status with
  | some e => .error e
  | none => .ok r.val

/-- `parquet_parse_file_metadata` -/
def parseFileMetaData (data : Bytes) : Except Err FileMetaData := (parseFileMetaDataX Cfg.fixed data).toExcept

/-- `parquet_parse_page_header`: the header and `*bytes_read` -/
def parsePageHeader (data : Bytes) : Except Err (PageHeader × Nat) :=
  match (parsePageHeaderX Cfg.fixed data).status with
  | some e => .error e
  | none => .ok ((parsePageHeaderX Cfg.fixed data).val, (parsePageHeaderX Cfg.fixed data).consumed)

end Carquet.Impl.ThriftParquet

/-! ## The value restricted to what carquet serialises, and the domain of the round trip

`norm` maps a structure to what `parse (write ·)` returns: members the writers never emit are
reset to the parser's zero-fill, and the C struct's several spellings of "absent" collapse. -/
namespace Carquet.Impl.ThriftParquet
open Carquet.Impl.Thrift

def Statistics.norm (s : Statistics) : Statistics :=
  { s with isMaxValueExact := none, isMinValueExact := none }

def normLogical (lt : Option LogicalType) : Option LogicalType :=
  match lt with
  | some .unknown => none
  | x => x

def SchemaElement.norm (s : SchemaElement) : SchemaElement :=
  { s with typeLength := if 0 < s.typeLength then s.typeLength else 0
           numChildren := if 0 < s.numChildren then s.numChildren else 0
           logicalType := normLogical s.logicalType }

def KeyValue.norm (kv : KeyValue) : KeyValue := { kv with key := some (kv.key.getD []) }

def ColumnMetaData.norm (m : ColumnMetaData) : ColumnMetaData :=
  { m with statistics := m.statistics.map Statistics.norm, keyValueMetadata := [], encodingStats := [] }

def ColumnChunk.norm (c : ColumnChunk) : ColumnChunk := { c with metaData := c.metaData.map ColumnMetaData.norm }

def RowGroup.norm (g : RowGroup) : RowGroup := { g with columns := g.columns.map ColumnChunk.norm }

def FileMetaData.norm (m : FileMetaData) : FileMetaData :=
  { m with schema := m.schema.map SchemaElement.norm, rowGroups := m.rowGroups.map RowGroup.norm,
           keyValueMetadata := m.keyValueMetadata.map KeyValue.norm }

def DataPageHeader.norm (h : DataPageHeader) : DataPageHeader := { h with statistics := h.statistics.map Statistics.norm }
def DataPageHeaderV2.norm (h : DataPageHeaderV2) : DataPageHeaderV2 := { h with statistics := none }

/-- only the member named by `type` is serialised -/
def PageHeader.norm (h : PageHeader) : PageHeader :=
  { h with dataPageHeader := if h.type = pageData then h.dataPageHeader.norm else {}
           dataPageHeaderV2 := if h.type = pageDataV2 then h.dataPageHeaderV2.norm else {}
           dictionaryPageHeader := if h.type = pageDictionary then h.dictionaryPageHeader else {} }

/-! Well-formedness: what a C struct satisfies by its types (`int32_t`, `int64_t`, `int16_t`,
`int8_t` ranges; strings are NUL-terminated, so contain no NUL; lengths fit `int32_t`) plus
the parser's list-count limits. -/

def isI8 (v : Int) : Bool := decide (-128 ≤ v ∧ v ≤ 127)
def isI16 (v : Int) : Bool := decide (-32768 ≤ v ∧ v ≤ 32767)
def isI32 (v : Int) : Bool := decide (-2147483648 ≤ v ∧ v ≤ 2147483647)
def isI64 (v : Int) : Bool := decide (-9223372036854775808 ≤ v ∧ v ≤ 9223372036854775807)
def okOpt {α : Type} (p : α → Bool) (o : Option α) : Bool := match o with | none => true | some x => p x
def isBin (b : Bytes) : Bool := decide (b.length < 2147483648)
def isStr (b : Bytes) : Bool := isBin b && b.all (· ≠ 0)

def Statistics.wf (s : Statistics) : Bool :=
  isBin s.maxDeprecated && isBin s.minDeprecated && okOpt isI64 s.nullCount && okOpt isI64 s.distinctCount &&
  isBin s.maxValue && isBin s.minValue

def LogicalType.wf : LogicalType → Bool
  | .decimal s p => isI32 s && isI32 p
  | .integer bw _ => isI8 bw
  | _ => true

def SchemaElement.wf (s : SchemaElement) : Bool :=
  okOpt isI32 s.type && isI32 s.typeLength && okOpt isI32 s.repetition && okOpt isStr s.name &&
  isI32 s.numChildren && okOpt isI32 s.convertedType && isI32 s.scale && isI32 s.precision &&
  okOpt isI32 s.fieldId && okOpt LogicalType.wf s.logicalType

def KeyValue.wf (kv : KeyValue) : Bool := okOpt isStr kv.key && okOpt isStr kv.value

def ColumnMetaData.wf (m : ColumnMetaData) : Bool :=
  isI32 m.type && m.encodings.all isI32 && decide ((m.encodings.length : Int) ≤ maxEncodings) &&
  m.pathInSchema.all isStr && decide ((m.pathInSchema.length : Int) ≤ maxPathElements) &&
  isI32 m.codec && isI64 m.numValues && isI64 m.totalUncompressedSize && isI64 m.totalCompressedSize &&
  isI64 m.dataPageOffset && okOpt isI64 m.indexPageOffset && okOpt isI64 m.dictionaryPageOffset &&
  okOpt Statistics.wf m.statistics && okOpt isI64 m.bloomFilterOffset && okOpt isI32 m.bloomFilterLength

def ColumnChunk.wf (c : ColumnChunk) : Bool :=
  okOpt isStr c.filePath && isI64 c.fileOffset && okOpt ColumnMetaData.wf c.metaData &&
  okOpt isI64 c.offsetIndexOffset && okOpt isI32 c.offsetIndexLength &&
  okOpt isI64 c.columnIndexOffset && okOpt isI32 c.columnIndexLength

def RowGroup.wf (g : RowGroup) : Bool :=
  g.columns.all ColumnChunk.wf && decide ((g.columns.length : Int) ≤ maxColumnsPerRg) &&
  isI64 g.totalByteSize && isI64 g.numRows && okOpt isI64 g.fileOffset && okOpt isI64 g.totalCompressedSize &&
  okOpt isI16 g.ordinal

/-- the explicit domain of `C13_roundtrip_filemetadata` -/
def FileMetaData.wf (m : FileMetaData) : Bool :=
  isI32 m.version && m.schema.all SchemaElement.wf && decide ((m.schema.length : Int) ≤ maxSchemaElements) &&
  isI64 m.numRows && m.rowGroups.all RowGroup.wf && decide ((m.rowGroups.length : Int) ≤ maxRowGroups) &&
  m.keyValueMetadata.all KeyValue.wf && decide ((m.keyValueMetadata.length : Int) ≤ maxKeyValuePairs) &&
  okOpt isStr m.createdBy

def DataPageHeader.wf (h : DataPageHeader) : Bool :=
  isI32 h.numValues && isI32 h.encoding && isI32 h.definitionLevelEncoding && isI32 h.repetitionLevelEncoding &&
  okOpt Statistics.wf h.statistics

def DataPageHeaderV2.wf (h : DataPageHeaderV2) : Bool :=
  isI32 h.numValues && isI32 h.numNulls && isI32 h.numRows && isI32 h.encoding &&
  isI32 h.definitionLevelsByteLength && isI32 h.repetitionLevelsByteLength

def DictionaryPageHeader.wf (h : DictionaryPageHeader) : Bool := isI32 h.numValues && isI32 h.encoding

/-- the explicit domain of `C13_roundtrip_pageheader` (only the member `type` names matters) -/
def PageHeader.wf (h : PageHeader) : Bool :=
  isI32 h.type && isI32 h.uncompressedPageSize && isI32 h.compressedPageSize && okOpt isI32 h.crc &&
  (if h.type = pageData then h.dataPageHeader.wf
   else if h.type = pageDataV2 then h.dataPageHeaderV2.wf
   else if h.type = pageDictionary then h.dictionaryPageHeader.wf else true)

end Carquet.Impl.ThriftParquet
