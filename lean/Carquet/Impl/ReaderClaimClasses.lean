import Carquet.Impl.ReaderClaim
/-
The CLASSES of reference-written files in which `C06_impl_reads_reference` is delivered (each a decidable
predicate on the layout): PLAIN, dictionary, compressed, unknown fields.  Free in every class: the table
(any schema tree, flat or nested; all eight physical types; row groups), page split, run plans of the
level streams, Thrift header form of footer and page headers, CRCs on / off, page and chunk statistics,
gaps, version, created_by.
-/
namespace Carquet.Impl.Reader.Claim
open Carquet.Spec Carquet.Spec.File Carquet.Spec.Thrift

/-- a compression plan that needs no library (UNCOMPRESSED, SNAPPY, LZ4 / LZ4_RAW) -/
def noLibPlan : CompPlan → Bool
  | .gzip _ _ => false
  | .zstd _ _ => false
  | _ => true

def isPlainEnc : ValueEnc → Bool
  | .plain => true
  | _ => false

def isNoComp : CompPlan → Bool
  | .none => true
  | _ => false

def pageNoExtras (pl : PageLayout) : Bool := pl.hdrExtra.isEmpty && pl.memberExtra.isEmpty && pl.statsExtra.isEmpty
def dictNoExtras (d : DictLayout) : Bool := d.hdrExtra.isEmpty && d.memberExtra.isEmpty
def chunkNoExtras (cl : ChunkLayout) : Bool :=
  cl.metaExtra.isEmpty && cl.chunkExtra.isEmpty && cl.pages.all pageNoExtras &&
  (match cl.dict with | some d => dictNoExtras d | none => true)
/-- no unknown Thrift field anywhere -/
def layoutNoExtras (l : Layout) : Bool :=
  l.footerExtra.isEmpty && l.schemaExtra.isEmpty && l.rowGroupExtra.isEmpty && l.rowGroups.all (fun g => g.all chunkNoExtras)

/-- every page body (and dictionary page body) of the chunk is stored under a plan that needs no library -/
def chunkNoLib (cl : ChunkLayout) : Bool :=
  cl.pages.all (fun p => noLibPlan p.comp) && (match cl.dict with | some d => noLibPlan d.comp | none => true)
def layoutNoLib (l : Layout) : Bool := l.rowGroups.all (fun g => g.all chunkNoLib)

/-- every body stored uncompressed -/
def chunkUncompressed (cl : ChunkLayout) : Bool :=
  cl.pages.all (fun p => isNoComp p.comp) && (match cl.dict with | some d => isNoComp d.comp | none => true)
def layoutUncompressed (l : Layout) : Bool := l.rowGroups.all (fun g => g.all chunkUncompressed)

/-- no dictionary page, every data page PLAIN -/
def chunkPlainValues (cl : ChunkLayout) : Bool := cl.dict.isNone && cl.pages.all (fun p => isPlainEnc p.values)
def layoutPlainValues (l : Layout) : Bool := l.rowGroups.all (fun g => g.all chunkPlainValues)

/-- **class 1 (PLAIN)**: PLAIN values, uncompressed, no unknown fields -/
def plainClass (l : Layout) : Bool := layoutPlainValues l && layoutUncompressed l && layoutNoExtras l
/-- **class 2 (dictionary)**: dictionary pages and dictionary-encoded data pages allowed (both tags, any index
run plan, width ≤ 32, offset present or absent, PLAIN pages before / after); uncompressed, no unknown fields -/
def dictClass (l : Layout) : Bool := layoutUncompressed l && layoutNoExtras l
/-- **class 3a (SNAPPY / LZ4 / LZ4_RAW)**: any value encoding of the claimed set, bodies under plans that need no
library; no unknown fields -/
def codecClass (l : Layout) : Bool := layoutNoLib l && layoutNoExtras l
/-- **class 3b (GZIP / ZSTD too)**: any plan; no unknown fields -/
def libCodecClass (l : Layout) : Bool := layoutNoExtras l

end Carquet.Impl.Reader.Claim
