/-
Model of src/compression/gzip.c and src/compression/zstd.c: thin wrappers around zlib and
libzstd.  Fidelity: structural -- argument checks, level clamping, size casts and status
mapping are mirrored; the libraries are a parameter (`Lib`) with the contract `Lib.Contract`
(recorded in the trusted base: zlib and libzstd are not verified).

`gzipCompressG` / `gzipDecompressG` / `zstd…G` are the wrappers as functions of what the
library call returns for given `(level, avail_in, avail_out)`; the list-level functions below
instantiate the call with `Lib` applied to a prefix of the source.  The driver instantiates the
call with the result of calling the real library directly (recorded by the harness).
-/
namespace Carquet.Impl.CodecWrappers

inductive Err where
  | invalidArgument     -- CARQUET_ERROR_INVALID_ARGUMENT
  | compression         -- CARQUET_ERROR_COMPRESSION
  | invalidData         -- CARQUET_ERROR_INVALID_COMPRESSED_DATA
  deriving DecidableEq, Repr

instance : DecidableEq (Except Err (List UInt8)) := fun a b =>
  match a, b with
  | .ok x, .ok y => if h : x = y then isTrue (by rw [h]) else isFalse (fun e => h (by cases e; rfl))
  | .error x, .error y => if h : x = y then isTrue (by rw [h]) else isFalse (fun e => h (by cases e; rfl))
  | .ok _, .error _ => isFalse (fun e => by cases e)
  | .error _, .ok _ => isFalse (fun e => by cases e)

/-- A one-shot compression library: `compress level x cap` is the complete stream if it fits
into `cap` bytes (`Z_STREAM_END` / no `ZSTD_isError`), otherwise `none`. -/
structure Lib where
  compress : Int → List UInt8 → Nat → Option (List UInt8)
  decompress : List UInt8 → Nat → Option (List UInt8)
  bound : Nat → Nat

/-- What is assumed of zlib (gzip container, levels 1..9) and libzstd (levels 1..maxCLevel):
`decompress (compress x) = x ∧ |compress x| ≤ bound |x|`, in capacity-aware form. -/
structure Lib.Contract (L : Lib) (lo hi : Int) : Prop where
  fits : ∀ (lvl : Int) (x : List UInt8) (cap : Nat), lo ≤ lvl → lvl ≤ hi → L.bound x.length ≤ cap →
    ∃ c, L.compress lvl x cap = some c
  le_cap : ∀ (lvl : Int) (x c : List UInt8) (cap : Nat), L.compress lvl x cap = some c → c.length ≤ cap
  le_bound : ∀ (lvl : Int) (x c : List UInt8) (cap : Nat), lo ≤ lvl → lvl ≤ hi →
    L.compress lvl x cap = some c → c.length ≤ L.bound x.length
  roundtrip : ∀ (lvl : Int) (x c : List UInt8) (cap cap' : Nat), lo ≤ lvl → lvl ≤ hi →
    L.compress lvl x cap = some c → x.length ≤ cap' → L.decompress c cap' = some x
  dec_le_cap : ∀ (c y : List UInt8) (cap : Nat), L.decompress c cap = some y → y.length ≤ cap

/-- `if (level < lo) level = lo; if (level > hi) level = hi;` -/
def clamp (lo hi level : Int) : Int :=
  if (if level < lo then lo else level) > hi then hi else (if level < lo then lo else level)

/-- `(uInt)size`: zlib's `avail_in` / `avail_out` are 32 bits wide -/
def toUInt (n : Nat) : Nat := n % 4294967296

/-! ## gzip.c -/

/-- `carquet_gzip_compress` as pinned: `strm.avail_in = (uInt)src_size; strm.avail_out =
(uInt)dst_capacity;` one `deflate(Z_FINISH)`; `Z_STREAM_END` required. -/
def gzipCompressPreFixG (srcNull dstNull sizeNull : Bool) (srcSize cap : Nat) (level : Int)
    (call : Int → Nat → Nat → Option (List UInt8)) : Except Err (List UInt8) :=
  if srcNull || dstNull || sizeNull then .error .invalidArgument
  else
    match call (clamp 1 9 level) (toUInt srcSize) (toUInt cap) with
    | some c => .ok c
    | none => .error .compression

/-- `carquet_gzip_compress` after fix F41: input and output are handed to zlib in pieces of at
most `UINT_MAX` bytes (the loop of zlib's own `compress2`), i.e. the whole source is compressed
into the whole destination. -/
def gzipCompressG (srcNull dstNull sizeNull : Bool) (srcSize cap : Nat) (level : Int)
    (call : Int → Nat → Nat → Option (List UInt8)) : Except Err (List UInt8) :=
  if srcNull || dstNull || sizeNull then .error .invalidArgument
  else
    match call (clamp 1 9 level) srcSize cap with
    | some c => .ok c
    | none => .error .compression

/-- `carquet_gzip_decompress` as pinned (same casts) -/
def gzipDecompressPreFixG (srcNull dstNull sizeNull : Bool) (srcSize cap : Nat)
    (call : Nat → Nat → Option (List UInt8)) : Except Err (List UInt8) :=
  if srcNull || dstNull || sizeNull then .error .invalidArgument
  else
    match call (toUInt srcSize) (toUInt cap) with
    | some y => .ok y
    | none => .error .invalidData

/-- `carquet_gzip_decompress` after fix F41 (the loop of zlib's `uncompress2`) -/
def gzipDecompressG (srcNull dstNull sizeNull : Bool) (srcSize cap : Nat)
    (call : Nat → Nat → Option (List UInt8)) : Except Err (List UInt8) :=
  if srcNull || dstNull || sizeNull then .error .invalidArgument
  else
    match call srcSize cap with
    | some y => .ok y
    | none => .error .invalidData

/-- `carquet_gzip_compress_bound`: `compressBound(n) + 18`, with `L.bound` = zlib's `compressBound` -/
def gzipBound (zlibCompressBound : Nat → Nat) (n : Nat) : Nat := zlibCompressBound n + 18

/-! ## zstd.c -/

/-- `carquet_zstd_compress`: `ZSTD_compress(dst, cap, src, n, clamp(level))`, `ZSTD_isError` → COMPRESSION -/
def zstdCompressG (srcNull dstNull sizeNull : Bool) (srcSize cap : Nat) (level maxCLevel : Int)
    (call : Int → Nat → Nat → Option (List UInt8)) : Except Err (List UInt8) :=
  if srcNull || dstNull || sizeNull then .error .invalidArgument
  else
    match call (clamp 1 maxCLevel level) srcSize cap with
    | some c => .ok c
    | none => .error .compression

/-- `carquet_zstd_decompress`: `ZSTD_decompressDCtx` on the thread's context (or `ZSTD_decompress`
when no context could be created: same function of the bytes) -/
def zstdDecompressG (srcNull dstNull sizeNull : Bool) (srcSize cap : Nat)
    (call : Nat → Nat → Option (List UInt8)) : Except Err (List UInt8) :=
  if srcNull || dstNull || sizeNull then .error .invalidArgument
  else
    match call srcSize cap with
    | some y => .ok y
    | none => .error .invalidData

/-! ## On byte strings, with the library as parameter (non-NULL arguments) -/

def gzipCompress (L : Lib) (x : List UInt8) (cap : Nat) (level : Int) : Except Err (List UInt8) :=
  gzipCompressG false false false x.length cap level (fun l k c => L.compress l (x.take k) c)

def gzipCompressPreFix (L : Lib) (x : List UInt8) (cap : Nat) (level : Int) : Except Err (List UInt8) :=
  gzipCompressPreFixG false false false x.length cap level (fun l k c => L.compress l (x.take k) c)

def gzipDecompress (L : Lib) (c : List UInt8) (cap : Nat) : Except Err (List UInt8) :=
  gzipDecompressG false false false c.length cap (fun k cp => L.decompress (c.take k) cp)

def gzipDecompressPreFix (L : Lib) (c : List UInt8) (cap : Nat) : Except Err (List UInt8) :=
  gzipDecompressPreFixG false false false c.length cap (fun k cp => L.decompress (c.take k) cp)

def zstdCompress (L : Lib) (maxCLevel : Int) (x : List UInt8) (cap : Nat) (level : Int) :
    Except Err (List UInt8) :=
  zstdCompressG false false false x.length cap level maxCLevel (fun l k c => L.compress l (x.take k) c)

def zstdDecompress (L : Lib) (c : List UInt8) (cap : Nat) : Except Err (List UInt8) :=
  zstdDecompressG false false false c.length cap (fun k cp => L.decompress (c.take k) cp)

end Carquet.Impl.CodecWrappers
