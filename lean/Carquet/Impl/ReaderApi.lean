import Carquet.Impl.Reader
import Carquet.Impl.BatchReader
import Carquet.Impl.SchemaApi
/-
Model of the metadata accessors of src/reader/file_reader.c that no other component models:
carquet_reader_num_rows / _num_row_groups / _num_columns (as functions of the opened reader),
carquet_reader_row_group_metadata, carquet_reader_is_mmap, carquet_reader_can_zero_copy.

Fidelity: exact (same tests in the same order).  An opened reader is `Impl.Reader.Opened`
(`reader->metadata`, `reader->schema`) together with the I/O mode it was opened in:
`reader->mmap_info` is non-NULL (and valid) exactly in mmap mode — `carquet_reader_open_buffer`
sets `mmap_data` only —, `reader->mmap_data` is non-NULL in mmap and in buffer mode.
(That `mmap()` itself succeeds on a non-empty file is observed by the harness, not modelled.)

`F90`: `carquet_reader_can_zero_copy` tested `mmap_info`, although the zero-copy branches of the page
loader and of the batch reader are taken whenever `mmap_data` is set — also for a reader opened from
the caller's buffer.  `fix90 = true` is the repaired test (`mmap_data`), `false` the pinned one.
-/
namespace Carquet.Impl.ReaderApi
open Carquet.Impl.Reader
open Carquet.Impl.ThriftParquet (FileMetaData RowGroup ColumnChunk ColumnMetaData SchemaElement LogicalType)

/-- `reader->mmap_info != NULL && reader->mmap_info->is_valid` -/
def hasMmapInfo : Mode → Bool
  | .mmap => true
  | _ => false

/-- `carquet_reader_is_mmap` -/
def isMmap (mode : Mode) : Bool := hasMmapInfo mode

/-- `carquet_reader_num_rows` -/
def numRows (o : Opened) : Int := o.md.numRows
/-- `carquet_reader_num_row_groups` -/
def numRowGroups (o : Opened) : Nat := o.md.rowGroups.length
/-- `carquet_reader_num_columns` -/
def numColumns (o : Opened) : Nat := o.leaves.length

/-- `carquet_row_group_metadata_t` -/
structure RowGroupMeta where
  numRows : Int
  totalByteSize : Int
  totalCompressedSize : Int
  deriving DecidableEq, Repr

/-- `carquet_reader_row_group_metadata(reader, row_group_index, &metadata)` -/
def rowGroupMetadata (o : Opened) (rg : Int) : Except Err RowGroupMeta :=
  if rg < 0 ∨ rg ≥ o.md.rowGroups.length then .error .rowGroupNotFound
  else
    match o.md.rowGroups[rg.toNat]? with
    | some g => .ok ⟨g.numRows, g.totalByteSize, g.totalCompressedSize.getD g.totalByteSize⟩
    | none => .error (.outside .unreachable)

/-- the first test of `carquet_reader_can_zero_copy`: pinned `mmap_info` valid, repaired `mmap_data` set -/
def zeroCopySource (fix90 : Bool) (mode : Mode) : Bool := if fix90 then mode.mapped else hasMmapInfo mode

/-- the tests of `carquet_reader_can_zero_copy` behind the index checks, on the chunk and the leaf -/
def chunkZeroCopy (ch : ColumnChunk) (maxDef : Nat) : Bool :=
  match ch.metaData with
  | none => false
  | some m => if m.codec ≠ 0 then false else if maxDef > 0 then false else fixedWidth m.type

/-- `carquet_reader_can_zero_copy(reader, row_group_index, column_index)` -/
def canZeroCopy (fix90 : Bool) (mode : Mode) (o : Opened) (rg col : Int) : Bool :=
  if zeroCopySource fix90 mode = false then false
  else if rg < 0 ∨ rg ≥ o.md.rowGroups.length then false
  else if col < 0 ∨ col ≥ o.leaves.length then false
  else
    match o.md.rowGroups[rg.toNat]?, o.leaves[col.toNat]? with
    | some g, some lf =>
      if col ≥ g.columns.length then false
      else
        match g.columns[col.toNat]? with
        | some ch => chunkZeroCopy ch lf.maxDef
        | none => false
    | _, _ => false

/-- everything the metadata accessors can return for an opened reader (every index, in and out of range,
is a function of this): counts, per-row-group metadata, the schema elements (name, type, repetition,
type length, logical type, per-node levels: `Impl.SchemaApi`) and the leaf arrays -/
structure MetaView where
  numRows : Int
  numRowGroups : Nat
  numColumns : Nat
  rowGroups : List RowGroupMeta
  elements : List SchemaElement
  leaves : List Carquet.Spec.Schema.Leaf
  deriving DecidableEq, Repr

def metaView (o : Opened) : MetaView :=
  ⟨numRows o, numRowGroups o, numColumns o,
   o.md.rowGroups.map (fun g => ⟨g.numRows, g.totalByteSize, g.totalCompressedSize.getD g.totalByteSize⟩),
   o.md.schema, o.leaves⟩

/-! ### the same predicate on the batch reader's view of a file (`Impl.BatchReader.File`) -/

def modeOfIO : BatchReader.IOMode → Mode
  | .fread => .fread | .mmap => .mmap | .buffer => .buffer

/-- `carquet_reader_can_zero_copy` for column `col` of a row group, in the vocabulary of
`Impl.BatchReader` (`uncompressed` = codec UNCOMPRESSED, `fixedWidth` = the six fixed-size types) -/
def canZeroCopyB (fix90 : Bool) (mode : BatchReader.IOMode) (col : BatchReader.Column) (cd : BatchReader.ChunkData α) : Bool :=
  zeroCopySource fix90 (modeOfIO mode) && cd.uncompressed && decide (col.maxDef = 0) && col.fixedWidth

end Carquet.Impl.ReaderApi
