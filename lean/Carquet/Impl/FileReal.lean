import Carquet.Impl.Writer
import Carquet.Impl.Plain
import Carquet.Impl.Rle
import Carquet.Impl.Snappy
import Carquet.Impl.Lz4
import Carquet.Impl.Crc32
import Carquet.Impl.Thrift
import Carquet.Impl.ThriftParquet
import Carquet.Impl.Stats
/-
Instantiation of the writer's `Deps` with the Impl models of the components the C code calls:
PLAIN (encoding/plain.c), RLE levels (encoding/rle.c through `encode_levels` of
page_writer.c), Snappy / LZ4 (compression/*.c), CRC-32 (util/crc32.c), the hand-written Thrift
page header of `carquet_page_writer_finalize`, `parquet_write_file_metadata` over what
`build_file_metadata` assembles, and the running min/max of the page writer.
GZIP and ZSTD pages are outside the byte-exact model (zlib / libzstd): `compress` has an
oracle parameter for them (a table from uncompressed to compressed bytes supplied by the
harness, which calls the libraries directly with the parameters page_writer.c uses).
-/
namespace Carquet.Impl.FileReal
open Carquet.Impl Carquet.Impl.Writer

abbrev Oracle := List (Bytes × Bytes)     -- (uncompressed, compressed) pairs for GZIP / ZSTD

def bitWidth (maxLevel : Nat) : Nat := Writer.bitWidthForMax maxLevel

/-- `carquet_encode_plain_*` on the dense values of a page (values are already the PLAIN
bytes of each value; BYTE_ARRAY adds the 4-byte length prefix) -/
def plain (t : PType) (_typeLen : Nat) (vals : List Val) : Bytes :=
  match t with
  | .byteArray => Plain.encodeByteArray vals
  | .boolean => Plain.encodeBoolean (vals.map (fun v => v.headD 0))
  | _ => vals.flatten

def plainBools (vals : List Val) : Bytes := Plain.encodeBoolean (vals.map (fun v => v.headD 0))

/-- `encode_levels`: 4-byte little-endian length, then `carquet_rle_encode_all` -/
def levels (maxLevel : Nat) (ls : List Nat) : Bytes :=
  Writer.le32 (Rle.encode (bitWidth maxLevel) ls).length ++ Rle.encode (bitWidth maxLevel) ls

/-- `compress_data` (codec numbers of `carquet_compression_t`) -/
def compress (oracle : Oracle) (codec : Nat) (x : Bytes) : Option Bytes :=
  match codec with
  | 0 => some x
  | 1 => some (Snappy.compress x)
  | 5 | 7 =>
    match Lz4.compress x (Lz4.bound x.length) with
    | .ok out => some out
    | .error _ => none
  | 2 | 6 => (oracle.find? (·.1 == x)).map (·.2)
  | _ => none

def crc32 (x : Bytes) : Nat := (Crc32.crc32 x).toNat

/-- `(int32_t)page_crc` -/
def asI32 (n : Nat) : Int := if n < 2147483648 then n else (n : Int) - 4294967296

/-- the page header `carquet_page_writer_finalize` writes with `thrift_write_*` calls -/
def pageHeader (unc comp crc numValues : Nat) (stats : Option PageStats) : Bytes :=
  let e0 := Thrift.writeStructBegin Thrift.Enc.init
  let e1 := ThriftParquet.wI e0 ThriftParquet.tI32 1 0
  let e2 := ThriftParquet.wI e1 ThriftParquet.tI32 2 unc
  let e3 := ThriftParquet.wI e2 ThriftParquet.tI32 3 comp
  let e4 := ThriftParquet.wI e3 ThriftParquet.tI32 4 (asI32 crc)
  let d0 := Thrift.writeStructBegin (Thrift.writeFieldHeader e4 ThriftParquet.tStruct 5)
  let d1 := ThriftParquet.wI d0 ThriftParquet.tI32 1 numValues
  let d2 := ThriftParquet.wI d1 ThriftParquet.tI32 2 0
  let d3 := ThriftParquet.wI d2 ThriftParquet.tI32 3 3
  let d4 := ThriftParquet.wI d3 ThriftParquet.tI32 4 3
  let d5 := match stats with
    | none => d4
    | some s =>
      let s0 := Thrift.writeStructBegin (Thrift.writeFieldHeader d4 ThriftParquet.tStruct 5)
      let s1 := ThriftParquet.wI s0 ThriftParquet.tI64 3 s.nullCount
      let s2 := Thrift.writeBinary (Thrift.writeFieldHeader s1 ThriftParquet.tBinary 5) s.max
      let s3 := Thrift.writeBinary (Thrift.writeFieldHeader s2 ThriftParquet.tBinary 6) s.min
      Thrift.writeStructEnd s3
  (Thrift.writeStructEnd (Thrift.writeStructEnd d5)).out

def strBytes (s : String) : Bytes := s.toUTF8.toList

/-- the column loop of `build_file_metadata`: `if (col->logical_type.id != CARQUET_LOGICAL_UNKNOWN)
{ elem->has_logical_type = true; elem->logical_type = col->logical_type; }` where `col->logical_type` is
the caller's struct (`add_column_internal`: `if (logical_type) col->logical_type = *logical_type;` on a
zero-filled definition, i.e. id UNKNOWN for a NULL pointer).  Neither `converted_type` nor the
SchemaElement's own `scale` / `precision` (fields 6, 7, 8) are ever set by the writer. -/
def colLogical (c : Col) : Option ThriftParquet.LogicalType :=
  match c.logical with
  | none => none
  | some .unknown => none
  | some lt => some lt

/-- the schema element `build_file_metadata` makes for one column -/
def schemaElementOfCol (c : Col) : ThriftParquet.SchemaElement :=
  { type := some c.ptype.code, typeLength := c.typeLen, repetition := some c.rep.code,
    name := some (strBytes c.name), logicalType := colLogical c }

/-- `build_file_metadata` + `flush_row_group`'s chunk metadata as the Thrift structures -/
def fileMetaData (f : FooterData) : ThriftParquet.FileMetaData :=
  { version := 2,
    schema :=
      ({ name := some (strBytes "schema"), numChildren := f.cols.length } : ThriftParquet.SchemaElement) ::
      f.cols.map schemaElementOfCol,
    numRows := f.numRows,
    rowGroups := f.rowGroups.map (fun g =>
      ({ columns := g.chunks.map (fun ch =>
           ({ fileOffset := ch.fileOffset,
              metaData := some { type := ch.ptype.code, encodings := [0, 3], pathInSchema := [strBytes ch.path],
                                 codec := ch.codec, numValues := ch.numValues,
                                 totalUncompressedSize := ch.totalUncompressed,
                                 totalCompressedSize := ch.totalCompressed,
                                 dataPageOffset := ch.fileOffset } } : ThriftParquet.ColumnChunk)),
         totalByteSize := g.totalByteSize, numRows := g.numRows, fileOffset := some g.fileOffset,
         totalCompressedSize := some g.totalCompressed, ordinal := some g.ordinal } : ThriftParquet.RowGroup)),
    createdBy := some (strBytes f.createdBy) }

def footer (f : FooterData) : Bytes := ThriftParquet.writeFileMetaData (fileMetaData f)

def orderType : PType → Carquet.Spec.Order.PType
  | .boolean => .boolean | .int32 => .int32 | .int64 => .int64 | .int96 => .int96
  | .float => .float | .double => .double | .byteArray => .byteArray | .flba => .flba

/-- loop body of `update_statistics_{i32,i64,float,double}` of page_writer.c (after F18a):
the comparisons are those of `Impl.Stats.pwLess` / `pwGreater` -/
def statsStep (t : PType) (cur : Option (Val × Val)) (v : Val) : Option (Val × Val) :=
  match cur with
  | none => some (v, v)
  | some (mn, mx) =>
    some (if Stats.pwLess (orderType t) v mn then v else mn,
          if Stats.pwGreater (orderType t) v mx then v else mx)

def deps (oracle : Oracle) : Deps :=
  { plain := plain, plainBools := plainBools, levels := levels, compress := compress oracle, crc32 := crc32,
    pageHeader := pageHeader, footer := footer, statsStep := statsStep }

end Carquet.Impl.FileReal
