import Carquet.Gen.Constants
import Carquet.Impl.Xxh64
import Carquet.Spec.Sbbf
/-
Model of src/metadata/bloom_filter.c.  Fidelity: exact (same functions, same loops, same order
of checks, same integer widths where wrap-around matters), for the code *with* the two repairs
`fixes/F14-bloom-block-index.patch` and `fixes/F30-bloom-create-size-wrap.patch`; the pre-fix
functions are kept as `…PreFix`.

The filter memory is the byte array `data` (`uint8_t*`).  The block functions access it through a
`uint32_t*` cast, i.e. in host byte order; the model reads and writes words little-endian
(assumption: little-endian host — on such a host the bytes exposed by `carquet_bloom_filter_data`
/ `_write` are the little-endian words the format asks for).  Only `Spec.Sbbf.Value` (the type of
insertable values) is taken from the Spec.

Not modelled: allocation failure (`malloc`/`calloc` returning NULL — `create` and `from_data` are
modelled as succeeding whenever their argument checks pass), `owns_data`/`destroy`, and the
floating-point size formula of `carquet_bloom_filter_create_with_ndv` (it only chooses the
argument of `create`).
-/
namespace Carquet.Impl.Bloom
open Carquet

/-- `BLOOM_FILTER_BLOCK_SIZE` (re-extracted from the source on every run). -/
def blockSize : Nat := Gen.bloomBytesPerBlock

/-- `SALT[8]` (re-extracted from the source on every run). -/
def salt : List (BitVec 32) := Gen.bloomSalt.map (BitVec.ofNat 32)

/-- `SIZE_MAX` -/
def sizeMax : Nat := 2 ^ 64 - 1

/-- `carquet_status_t` values this file returns. -/
inductive Status where
  | ok | invalidArgument | outOfMemory | encode
deriving DecidableEq, Repr

/-- `struct carquet_bloom_filter` (without `owns_data`). -/
structure Filter where
  data : List UInt8
  numBytes : Nat
  numBlocks : Nat
deriving DecidableEq, Repr

/-- `bloom_filter_block_index` after `fix: F14`:
`(size_t)(((hash >> 32) * (uint64_t)num_blocks) >> 32)`, 64-bit wrap-around multiplication. -/
def blockIndex (hash : BitVec 64) (numBlocks : Nat) : Nat :=
  (((hash >>> 32) * BitVec.ofNat 64 numBlocks) >>> 32).toNat

/-- `bloom_filter_block_index` of the pinned tree: `(size_t)((hash >> 32) % num_blocks)`. -/
def blockIndexPreFix (hash : BitVec 64) (numBlocks : Nat) : Nat :=
  (hash >>> 32).toNat % numBlocks

/-- `block[i]` read through the `uint32_t*` cast (little-endian host). -/
def load32 (b0 b1 b2 b3 : UInt8) : BitVec 32 := Impl.Xxh64.read32le b0 b1 b2 b3

/-- `block[i] = w` written through the `uint32_t*` cast (little-endian host). -/
def store32 (w : BitVec 32) : List UInt8 :=
  [UInt8.ofBitVec (w.setWidth 8), UInt8.ofBitVec ((w >>> 8).setWidth 8),
   UInt8.ofBitVec ((w >>> 16).setWidth 8), UInt8.ofBitVec ((w >>> 24).setWidth 8)]

/-- `1U << bit_pos` with `mask = SALT[i] * key; bit_pos = mask >> 27`. -/
def bitOf (s key : BitVec 32) : BitVec 32 := 1#32 <<< ((s * key) >>> 27).toNat

/-- `bloom_filter_block_insert(block, hash)`: the loop `for (i = 0; i < 8; i++) block[i] |= 1U << bit_pos`
over the remaining salts, on the bytes from `&block[i]` on; returns those bytes after the loop. -/
def blockInsertLoop (key : BitVec 32) : List (BitVec 32) → List UInt8 → List UInt8
  | s :: salts, b0 :: b1 :: b2 :: b3 :: rest =>
      store32 (load32 b0 b1 b2 b3 ||| bitOf s key) ++ blockInsertLoop key salts rest
  | _, p => p

/-- `bloom_filter_block_check(block, hash)`: the loop
`for (i = 0; i < 8; i++) if ((block[i] & (1U << bit_pos)) == 0) return false;` then `return true`.
(A block shorter than the salts cannot occur for a well-formed filter; the model answers `false`.) -/
def blockCheckLoop (key : BitVec 32) : List (BitVec 32) → List UInt8 → Bool
  | s :: salts, b0 :: b1 :: b2 :: b3 :: rest =>
      if load32 b0 b1 b2 b3 &&& bitOf s key = 0#32 then false else blockCheckLoop key salts rest
  | [], _ => true
  | _ :: _, _ => false

/-- The size computation of `carquet_bloom_filter_create` after `fix: F30`: reject a request whose
rounding would wrap `size_t`, raise to one block, round up to whole blocks.  `none` = `return NULL`. -/
def createSize (req : Nat) : Option Nat :=
  if req > sizeMax - (blockSize - 1) then none
  else if req < blockSize then some ((blockSize + blockSize - 1) / blockSize * blockSize)
  else some ((req + blockSize - 1) / blockSize * blockSize)

/-- The size computation of the pinned tree: `size_t` arithmetic wraps. -/
def createSizePreFix (req : Nat) : Nat :=
  if req < blockSize then (blockSize + blockSize - 1) % 2 ^ 64 / blockSize * blockSize
  else (req + blockSize - 1) % 2 ^ 64 / blockSize * blockSize

/-- the filter `create` builds once the size is known: `calloc`ed data -/
def fresh (n : Nat) : Filter := ⟨List.replicate n 0, n, n / blockSize⟩

/-- `carquet_bloom_filter_create(num_bytes)` -/
def create (req : Nat) : Option Filter := (createSize req).map fresh

/-- `carquet_bloom_filter_create` of the pinned tree -/
def createPreFix (req : Nat) : Filter := fresh (createSizePreFix req)

/-- `carquet_bloom_filter_from_data(data, size)`; `none` = NULL (`data == NULL` is the `none`
argument; `size` is the length of the byte string). -/
def fromData (data : Option (List UInt8)) : Option Filter :=
  match data with
  | none => none
  | some d =>
    if d.length < blockSize then none
    else if d.length % blockSize ≠ 0 then none
    else some ⟨d, d.length, d.length / blockSize⟩

/-- `carquet_bloom_filter_insert_hash` on a non-NULL filter:
`block = (uint32_t*)(data + block_idx * BLOCK_SIZE); bloom_filter_block_insert(block, hash)`. -/
def insertHash (f : Filter) (hash : BitVec 64) : Filter :=
  { f with data :=
      f.data.take (blockIndex hash f.numBlocks * blockSize) ++
      blockInsertLoop (hash.setWidth 32) salt (f.data.drop (blockIndex hash f.numBlocks * blockSize)) }

/-- `carquet_bloom_filter_insert_hash` of the pinned tree (block by modulo). -/
def insertHashPreFix (f : Filter) (hash : BitVec 64) : Filter :=
  { f with data :=
      f.data.take (blockIndexPreFix hash f.numBlocks * blockSize) ++
      blockInsertLoop (hash.setWidth 32) salt (f.data.drop (blockIndexPreFix hash f.numBlocks * blockSize)) }

/-- `carquet_bloom_filter_check_hash` on a non-NULL filter. -/
def checkHash (f : Filter) (hash : BitVec 64) : Bool :=
  blockCheckLoop (hash.setWidth 32) salt (f.data.drop (blockIndex hash f.numBlocks * blockSize))

/-- `carquet_bloom_filter_check_hash` of the pinned tree. -/
def checkHashPreFix (f : Filter) (hash : BitVec 64) : Bool :=
  blockCheckLoop (hash.setWidth 32) salt (f.data.drop (blockIndexPreFix hash f.numBlocks * blockSize))

/-- `carquet_bloom_filter_insert_hash(filter, hash)` with a possibly NULL filter: `if (!filter) return;` -/
def insertHashOpt (f : Option Filter) (hash : BitVec 64) : Option Filter := f.map (insertHash · hash)

/-- `carquet_bloom_filter_check_hash(filter, hash)` with a possibly NULL filter: "assume present". -/
def checkHashOpt (f : Option Filter) (hash : BitVec 64) : Bool :=
  match f with
  | none => true
  | some f => checkHash f hash

/-- object representation of a 32-bit value (`&value, sizeof(value)`, little-endian host) -/
def mem32 (v : BitVec 32) : List UInt8 := store32 v

/-- `((const uint8_t*)&value)[k]` of a value on the little-endian host -/
def memByte (v : BitVec w) (k : Nat) : UInt8 := UInt8.ofBitVec ((v >>> (8 * k)).setWidth 8)

/-- object representation of a 64-bit value (little-endian host) -/
def mem64 (v : BitVec 64) : List UInt8 :=
  [memByte v 0, memByte v 1, memByte v 2, memByte v 3, memByte v 4, memByte v 5, memByte v 6, memByte v 7]

/-- the `carquet_xxhash64(&value, sizeof(value), 0)` / `(data, len, 0)` of the typed entry points
`carquet_bloom_filter_{insert,check}_{i32,i64,float,double,bytes}` -/
def hashOf : Spec.Sbbf.Value → BitVec 64
  | .int32 v => Impl.Xxh64.xxh64 (mem32 v) 0#64
  | .int64 v => Impl.Xxh64.xxh64 (mem64 v) 0#64
  | .float v => Impl.Xxh64.xxh64 (mem32 v) 0#64
  | .double v => Impl.Xxh64.xxh64 (mem64 v) 0#64
  | .bytes b => Impl.Xxh64.xxh64 b 0#64

/-- `carquet_bloom_filter_insert_<type>` -/
def insertValue (f : Filter) (v : Spec.Sbbf.Value) : Filter := insertHash f (hashOf v)

/-- `carquet_bloom_filter_check_<type>` -/
def checkValue (f : Filter) (v : Spec.Sbbf.Value) : Bool := checkHash f (hashOf v)

/-- `carquet_bloom_filter_write(filter, output, output_capacity, &bytes_written)` with non-NULL
arguments: the status and the bytes written (`bytes_written` is their number). -/
def write (f : Filter) (capacity : Nat) : Status × List UInt8 :=
  if capacity < f.numBytes then (.encode, [])
  else (.ok, f.data.take f.numBytes)

/-- `carquet_bloom_filter_read(&filter, data, data_size)` with non-NULL `filter_out`. -/
def read (data : Option (List UInt8)) : Status × Option Filter :=
  match data with
  | none => (.invalidArgument, none)
  | some d =>
    match fromData (some d) with
    | none => (.outOfMemory, none)
    | some f => (.ok, some f)

/-- the loop `for (i = 0; i < dest->num_bytes; i++) dest->data[i] |= src->data[i];` -/
def mergeLoop : List UInt8 → List UInt8 → List UInt8
  | d :: ds, s :: ss => (d ||| s) :: mergeLoop ds ss
  | ds, _ => ds

/-- `carquet_bloom_filter_merge(dest, src)` with non-NULL arguments: status and the new `dest`. -/
def merge (dest src : Filter) : Status × Filter :=
  if dest.numBytes ≠ src.numBytes then (.invalidArgument, dest)
  else (.ok, { dest with data := mergeLoop dest.data src.data })

end Carquet.Impl.Bloom
