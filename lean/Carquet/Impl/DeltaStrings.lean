import Carquet.Impl.Delta
import Carquet.Gen.DeltaConstants
/-
Model of src/encoding/delta_strings.c (DELTA_BYTE_ARRAY, incremental encoding).  Fidelity: exact
for the checks, their order, the statuses and the bytes; `malloc` failures and output buffer
growth are not modelled.  The work buffer is represented by its size and by the reconstructed
strings (each `values[i]` points into it at `work_offset`).
-/
namespace Carquet.Impl.DeltaStrings
open Carquet.Impl.Delta

/-- `common_prefix_length` -/
def commonPrefixLength : List UInt8 → List UInt8 → Nat
  | a :: as, b :: bs => if a = b then commonPrefixLength as bs + 1 else 0
  | _, _ => 0

/-- `(int32_t)prev_len` for a `uint32_t prev_len` -/
def asInt32 (n : Nat) : Int := (BitVec.ofNat 32 n).toInt

/-- the "Reconstruct strings" loop.  `prev = none` is `prev_string == NULL`.
`prefix_len`, `suffix_len` are known non-negative here. -/
def reconstruct (workSize : Nat) : List Nat → List Nat → List UInt8 → Nat → Option (List UInt8) →
    Except Status (List (List UInt8))
  | p :: ps, s :: ss, suffixData, workOffset, prev =>
    if workSize < workOffset + (p + s) % 4294967296 then .error .outOfMemory
    else if 0 < p ∧ (prev = none ∨ asInt32 ((prev.getD []).length) < (p : Int)) then .error .decode
    else
      match reconstruct workSize ps ss (suffixData.drop s) (workOffset + (p + s) % 4294967296)
              (some ((prev.getD []).take p ++ suffixData.take s)) with
      | .error e => .error e
      | .ok vs => .ok (((prev.getD []).take p ++ suffixData.take s) :: vs)
  | _, _, _, _, _ => .ok []

/-- `carquet_delta_strings_decode(data, size, values, num_values, work, work_size, &consumed)` -/
def decode (data : List UInt8) (n : Int) (workSize : Nat) : Except Status (List (List UInt8) × Nat) :=
  if n ≤ 0 then .error .invalidArgument
  else match decodeInt32 data n.toNat with
    | .error s => .error s
    | .ok (prefixes, c1) =>
      match decodeInt32 (data.drop c1) n.toNat with
      | .error s => .error s
      | .ok (suffixes, c2) =>
        if (List.zip suffixes prefixes).any (fun sp => sp.1.toInt < 0 ∨ sp.2.toInt < 0) then .error .decode
        else if data.length < c1 + c2 + (suffixes.map (fun l => l.toNat)).sum then .error .decode
        else match reconstruct workSize (prefixes.map (fun l => l.toNat)) (suffixes.map (fun l => l.toNat))
                     (data.drop (c1 + c2)) 0 none with
          | .error s => .error s
          | .ok vs => .ok (vs, c1 + c2 + (suffixes.map (fun l => l.toNat)).sum)

/-- one iteration of the "Reconstruct strings" loop as the memory accesses it makes:
`memcpy(work + workOff, prev_string, pre)`, `memcpy(work + workOff + pre, data + sufOff, suf)`,
`values[i] = { work + workOff, pre + suf }` -/
structure Access where
  workOff : Nat
  pre : Nat
  sufOff : Nat
  suf : Nat
deriving Repr, DecidableEq

/-- the "Reconstruct strings" loop with its accesses as data (for C08).  `sufOff` is
`pos + suffix_offset` (an offset into `data`), `prevLen = none` is `prev_string == NULL`,
otherwise the `uint32_t prev_len`. -/
def reconstructAcc (workSize : Nat) : List Nat → List Nat → Nat → Nat → Option Nat → Except Status (List Access)
  | p :: ps, s :: ss, sufOff, workOffset, prevLen =>
    if workSize < workOffset + (p + s) % 4294967296 then .error .outOfMemory
    else if 0 < p ∧ (prevLen = none ∨ asInt32 (prevLen.getD 0) < (p : Int)) then .error .decode
    else
      match reconstructAcc workSize ps ss (sufOff + s) (workOffset + (p + s) % 4294967296)
              (some ((p + s) % 4294967296)) with
      | .error e => .error e
      | .ok as => .ok (⟨workOffset, p, sufOff, s⟩ :: as)
  | _, _, _, _, _ => .ok []

/-- `carquet_delta_strings_decode` with its accesses as data: same checks, order and statuses as
`decode`; result: the accesses and `bytes_consumed` -/
def decodeAcc (data : List UInt8) (n : Int) (workSize : Nat) : Except Status (List Access × Nat) :=
  if n ≤ 0 then .error .invalidArgument
  else match decodeInt32 data n.toNat with
    | .error s => .error s
    | .ok (prefixes, c1) =>
      match decodeInt32 (data.drop c1) n.toNat with
      | .error s => .error s
      | .ok (suffixes, c2) =>
        if (List.zip suffixes prefixes).any (fun sp => sp.1.toInt < 0 ∨ sp.2.toInt < 0) then .error .decode
        else if data.length < c1 + c2 + (suffixes.map (fun l => l.toNat)).sum then .error .decode
        else match reconstructAcc workSize (prefixes.map (fun l => l.toNat)) (suffixes.map (fun l => l.toNat))
                     (c1 + c2) 0 none with
          | .error s => .error s
          | .ok as => .ok (as, c1 + c2 + (suffixes.map (fun l => l.toNat)).sum)

/-- the values the accesses build: value i = first `pre` bytes of value i-1, then `suf` input bytes -/
def buildValues (data : List UInt8) : List UInt8 → List Access → List (List UInt8)
  | _, [] => []
  | prev, a :: as =>
    (prev.take a.pre ++ (data.drop a.sufOff).take a.suf) ::
      buildValues data (prev.take a.pre ++ (data.drop a.sufOff).take a.suf) as

/-- what the loop guarantees about its accesses, from `sufOff` (offset of the next suffix byte in
the input), `workOffset` and the length `prevLen` of the previous value (0 before the first):
destinations are consecutive, every value lies inside the work buffer, the prefix copy stays inside
the previous value, suffix reads are consecutive -/
def accsSafe (workSize : Nat) : Nat → Nat → Nat → List Access → Prop
  | _, _, _, [] => True
  | so, wo, pl, a :: as =>
    a.workOff = wo ∧ a.sufOff = so ∧ a.pre ≤ pl ∧ wo + a.pre + a.suf ≤ workSize ∧
    accsSafe workSize (so + a.suf) (wo + a.pre + a.suf) (a.pre + a.suf) as

/-- `prefix_lengths[i]` (0 for the first value) -/
def prefixLengths : Option (List UInt8) → List (List UInt8) → List Nat
  | _, [] => []
  | none, v :: vs => 0 :: prefixLengths (some v) vs
  | some prev, v :: vs => commonPrefixLength prev v :: prefixLengths (some v) vs

/-- `delta_capacity`: re-extracted from delta_strings.c on every run (`Gen.deltaStringsScratch`);
repaired code (F61): `40 + (n + 127) / 128 * (10 + 4 + 128 * 8)`, see `DeltaLength.lengthsCapacity` -/
def deltaCapacity (n : Nat) : Nat := Carquet.Gen.deltaStringsScratch n

/-- `delta_capacity` before F61 -/
def deltaCapacityPreFix (n : Nat) : Nat := n * 10 + 100

/-- the two length streams `carquet_delta_strings_encode` writes first, as a function of the prefix
and suffix lengths alone (`pre = true`: scratch capacity before F61) -/
def encodeLensWith (pre : Bool) (prefixes suffixes : List Nat) : Except Status (List UInt8) :=
  if prefixes = [] then .error .invalidArgument
  else
    match encodeInt32 (prefixes.map (BitVec.ofNat 32))
            (if pre then deltaCapacityPreFix prefixes.length else deltaCapacity prefixes.length) with
    | .error s => .error s
    | .ok p =>
      match encodeInt32 (suffixes.map (BitVec.ofNat 32))
              (if pre then deltaCapacityPreFix prefixes.length else deltaCapacity prefixes.length) with
      | .error s => .error s
      | .ok q => .ok (p ++ q)

def encodeLens (prefixes suffixes : List Nat) : Except Status (List UInt8) := encodeLensWith false prefixes suffixes

/-- `carquet_delta_strings_encode(values, num_values, output)`: the bytes appended to `output`
when the call succeeds -/
def encode (values : List (List UInt8)) : Except Status (List UInt8) :=
  if values = [] then .error .invalidArgument
  else
    match encodeInt32 ((prefixLengths none values).map (BitVec.ofNat 32)) (deltaCapacity values.length) with
    | .error s => .error s
    | .ok pre =>
      match encodeInt32 ((List.zipWith (fun p v => BitVec.ofNat 32 (v.length - p)) (prefixLengths none values) values))
              (deltaCapacity values.length) with
      | .error s => .error s
      | .ok suf =>
        .ok (pre ++ suf ++ (List.zipWith (fun p (v : List UInt8) => v.drop p) (prefixLengths none values) values).flatten)

/-- the encoder before F61 (scratch buffer of `10·n + 100` bytes for each length stream) -/
def encodePreFix (values : List (List UInt8)) : Except Status (List UInt8) :=
  if values = [] then .error .invalidArgument
  else
    match encodeInt32 ((prefixLengths none values).map (BitVec.ofNat 32)) (deltaCapacityPreFix values.length) with
    | .error s => .error s
    | .ok pre =>
      match encodeInt32 ((List.zipWith (fun p v => BitVec.ofNat 32 (v.length - p)) (prefixLengths none values) values))
              (deltaCapacityPreFix values.length) with
      | .error s => .error s
      | .ok suf =>
        .ok (pre ++ suf ++ (List.zipWith (fun p (v : List UInt8) => v.drop p) (prefixLengths none values) values).flatten)

end Carquet.Impl.DeltaStrings
