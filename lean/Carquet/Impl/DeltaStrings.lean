import Carquet.Impl.Delta
/-
Model of src/encoding/delta_strings.c (DELTA_BYTE_ARRAY, incremental encoding).  Fidelity: exact
for the checks, their order, the statuses and the bytes; `malloc` failures and output buffer
growth are not modelled.  The work buffer is represented by its size and by the reconstructed
strings (each `values[i]` points into it at `work_offset`).
-/
namespace Carquet.Impl.DeltaStrings
open Carquet.Impl.Delta

/-- `common_prefix_length` -/
def commonPrefixLength : List UInt8 → List UInt8 → Nat
  | a :: as, b :: bs => if a = b then commonPrefixLength as bs + 1 else 0
  | _, _ => 0

/-- `(int32_t)prev_len` for a `uint32_t prev_len` -/
def asInt32 (n : Nat) : Int := (BitVec.ofNat 32 n).toInt

/-- the "Reconstruct strings" loop.  `prev = none` is `prev_string == NULL`.
`prefix_len`, `suffix_len` are known non-negative here. -/
def reconstruct (workSize : Nat) : List Nat → List Nat → List UInt8 → Nat → Option (List UInt8) →
    Except Status (List (List UInt8))
  | p :: ps, s :: ss, suffixData, workOffset, prev =>
    if workSize < workOffset + (p + s) % 4294967296 then .error .outOfMemory
    else if 0 < p ∧ (prev = none ∨ asInt32 ((prev.getD []).length) < (p : Int)) then .error .decode
    else
      match reconstruct workSize ps ss (suffixData.drop s) (workOffset + (p + s) % 4294967296)
              (some ((prev.getD []).take p ++ suffixData.take s)) with
      | .error e => .error e
      | .ok vs => .ok (((prev.getD []).take p ++ suffixData.take s) :: vs)
  | _, _, _, _, _ => .ok []

/-- `carquet_delta_strings_decode(data, size, values, num_values, work, work_size, &consumed)` -/
def decode (data : List UInt8) (n : Int) (workSize : Nat) : Except Status (List (List UInt8) × Nat) :=
  if n ≤ 0 then .error .invalidArgument
  else match decodeInt32 data n.toNat with
    | .error s => .error s
    | .ok (prefixes, c1) =>
      match decodeInt32 (data.drop c1) n.toNat with
      | .error s => .error s
      | .ok (suffixes, c2) =>
        if (List.zip suffixes prefixes).any (fun sp => sp.1.toInt < 0 ∨ sp.2.toInt < 0) then .error .decode
        else if data.length < c1 + c2 + (suffixes.map (fun l => l.toNat)).sum then .error .decode
        else match reconstruct workSize (prefixes.map (fun l => l.toNat)) (suffixes.map (fun l => l.toNat))
                     (data.drop (c1 + c2)) 0 none with
          | .error s => .error s
          | .ok vs => .ok (vs, c1 + c2 + (suffixes.map (fun l => l.toNat)).sum)

/-- `prefix_lengths[i]` (0 for the first value) -/
def prefixLengths : Option (List UInt8) → List (List UInt8) → List Nat
  | _, [] => []
  | none, v :: vs => 0 :: prefixLengths (some v) vs
  | some prev, v :: vs => commonPrefixLength prev v :: prefixLengths (some v) vs

def deltaCapacity (n : Nat) : Nat := n * 10 + 100

/-- `carquet_delta_strings_encode(values, num_values, output)`: the bytes appended to `output`
when the call succeeds -/
def encode (values : List (List UInt8)) : Except Status (List UInt8) :=
  if values = [] then .error .invalidArgument
  else
    match encodeInt32 ((prefixLengths none values).map (BitVec.ofNat 32)) (deltaCapacity values.length) with
    | .error s => .error s
    | .ok pre =>
      match encodeInt32 ((List.zipWith (fun p v => BitVec.ofNat 32 (v.length - p)) (prefixLengths none values) values))
              (deltaCapacity values.length) with
      | .error s => .error s
      | .ok suf =>
        .ok (pre ++ suf ++ (List.zipWith (fun p (v : List UInt8) => v.drop p) (prefixLengths none values) values).flatten)

end Carquet.Impl.DeltaStrings
