import Carquet.Impl.ColumnReader
/-
Model of src/reader/batch_reader.c (carquet_batch_reader_create, open_row_group_readers,
carquet_batch_reader_next incl. the prefetch phase, the zero-copy branch and the null bitmap
loops), of the part of carquet_reader_get_column that decides how a chunk is read in each I/O
mode, and of src/metadata/schema.c carquet_schema_find_column.

Fidelity: exact for the control flow and the data handed out (row-group advance decided by
column 0, rows_to_read = min(batch_size, remaining of column 0), per-column readers, error
mapping).  The OpenMP loops are modelled in index order (the harness runs with num_threads = 1;
schedules are C07's subject).  The model is the code WITH the repair F5 (zero-copy branch only
when the loaded page has exactly rows_to_read rows); `Fixes.preF5` gives the pinned behaviour.
-/
namespace Carquet.Impl.BatchReader
open Carquet.Impl.ColumnReader

/-- How the file was opened. -/
inductive IOMode where
  | fread    -- carquet_reader_open, use_mmap = false
  | mmap     -- carquet_reader_open, use_mmap = true
  | buffer   -- carquet_reader_open_buffer
deriving DecidableEq, Repr

/-- `file_reader->mmap_data != NULL` (page loads go through `load_next_page_mmap`) -/
def IOMode.mapped : IOMode → Bool
  | .fread => false
  | _ => true

/-- `reader->mmap_info != NULL` -/
def IOMode.hasMmapInfo : IOMode → Bool
  | .mmap => true
  | _ => false

/-- One schema leaf, as far as the readers look at it. -/
structure Column where
  name : String
  maxDef : Nat
  maxRep : Nat
  valueSize : Nat      -- get_type_size(type, type_length); 0 = unknown type / bad type_length
  fixedWidth : Bool    -- INT32, INT64, FLOAT, DOUBLE, INT96, FIXED_LEN_BYTE_ARRAY (zero-copy eligible)
  byteArray : Bool     -- BYTE_ARRAY
deriving DecidableEq, Repr

/-- One column chunk as stored (pages all PLAIN, which is what the writer produces). -/
structure ChunkData (α : Type) where
  pages : List (Option (Page α))
  numValues : Int
  uncompressed : Bool
deriving DecidableEq, Repr

structure File (α : Type) where
  columns : List Column
  rowGroups : List (List (ChunkData α))
deriving DecidableEq, Repr

inductive Status where
  | ok
  | endOfData          -- CARQUET_ERROR_END_OF_DATA
  | rowGroupNotFound   -- CARQUET_ERROR_ROW_GROUP_NOT_FOUND
  | columnNotFound     -- CARQUET_ERROR_COLUMN_NOT_FOUND
  | decode             -- CARQUET_ERROR_DECODE
  | ub                 -- the C code would dereference col_readers[0] that is NULL / out of bounds
deriving DecidableEq, Repr

/-- `carquet_page_is_zero_copy_eligible(codec, PLAIN, type) && !has_levels` -/
def chunkIsView (mode : IOMode) (col : Column) (cd : ChunkData α) : Bool :=
  mode.mapped && cd.uncompressed && col.fixedWidth && decide (col.maxDef = 0) && decide (col.maxRep = 0)

/-- page data retained in `page_data_for_values`: BYTE_ARRAY PLAIN on the fread path, and on the
mmap path only when the page had to be decompressed. -/
def chunkRetains (mode : IOMode) (col : Column) (cd : ChunkData α) : Bool :=
  col.byteArray && (!mode.mapped || !cd.uncompressed)

/-- `carquet_reader_get_column(reader, g, c, &err)` with the three range checks. -/
def getColumn (mode : IOMode) (f : File α) (g c : Int) : Except Status (Reader α) :=
  if g < 0 ∨ g ≥ f.rowGroups.length then .error .rowGroupNotFound
  else if c < 0 ∨ c ≥ f.columns.length then .error .columnNotFound
  else
    match f.rowGroups[g.toNat]?, f.columns[c.toNat]? with
    | some rg, some col =>
      match rg[c.toNat]? with
      | some cd => .ok (ColumnReader.getColumn
          { pages := cd.pages, numValues := cd.numValues, maxDef := col.maxDef,
            view := chunkIsView mode col cd, retains := chunkRetains mode col cd })
      | none => .error .columnNotFound      -- column_index >= rg->num_columns
    | _, _ => .error .columnNotFound

/-- `carquet_schema_find_column`: first leaf with that name, else −1. -/
def findColumnFrom (name : String) : List Column → Nat → Int
  | [], _ => -1
  | c :: cs, i => if c.name = name then i else findColumnFrom name cs (i + 1)

def findColumn (f : File α) (name : String) : Int := findColumnFrom name f.columns 0

/-- `carquet_batch_reader_config_t`: `indices = []` stands for `column_indices == NULL ||
num_columns <= 0`, likewise `names`. -/
structure Config where
  batchSize : Int
  indices : List Int
  names : List String
deriving DecidableEq, Repr

/-- `struct carquet_batch_reader` -/
structure BatchReader (α : Type) where
  mode : IOMode
  file : File α
  batchSize : Int
  projected : List Int
  currentRowGroup : Int
  colReaders : List (Reader α)     -- [] = all col_readers[i] are NULL
deriving DecidableEq, Repr

/-- loop resolving `column_names[i]`; `none` = a name was not found (create returns NULL) -/
def resolveNames (f : File α) : List String → Option (List Int)
  | [] => some []
  | n :: ns =>
    if findColumn f n < 0 then none
    else match resolveNames f ns with
      | some r => some (findColumn f n :: r)
      | none => none

/-- `carquet_batch_reader_create`; `none` = NULL (CARQUET_ERROR_COLUMN_NOT_FOUND). -/
def create (mode : IOMode) (f : File α) (cfg : Config) : Option (BatchReader α) :=
  if cfg.indices ≠ [] then
    some ⟨mode, f, cfg.batchSize, cfg.indices, -1, []⟩
  else if cfg.names ≠ [] then
    match resolveNames f cfg.names with
    | some p => some ⟨mode, f, cfg.batchSize, p, -1, []⟩
    | none => none
  else
    some ⟨mode, f, cfg.batchSize, (List.range f.columns.length).map Int.ofNat, -1, []⟩

/-- `open_row_group_readers`: one `carquet_reader_get_column` per projected column, first failure wins. -/
def openReaders (mode : IOMode) (f : File α) (g : Int) : List Int → Except Status (List (Reader α))
  | [] => .ok []
  | c :: cs =>
    match getColumn mode f g c with
    | .error e => .error e
    | .ok r =>
      match openReaders mode f g cs with
      | .error e => .error e
      | .ok rs => .ok (r :: rs)

/-! ### null bitmap -/

/-- `(uint8_t)(1 << t)` -/
def mask (t : Nat) : UInt8 := UInt8.ofNat (2 ^ t)

/-- `bitmap[i / 8] & (1 << (i % 8))`, the test a consumer of the batch makes. -/
def testBit (b : UInt8) (t : Nat) : Bool := b.toBitVec.getLsbD t

def bitmapBit (bm : List UInt8) (i : Nat) : Bool :=
  match bm[i / 8]? with
  | some b => testBit b (i % 8)
  | none => false

/-- `def_levels[j] < max_def` (an unwritten slot of `def_levels` counts as "not less") -/
def nullAt (maxDef : Nat) (defs : List (Option Nat)) (j : Nat) : Bool :=
  match defs[j]? with
  | some (some d) => decide (d < maxDef)
  | _ => false

/-- `null_bits` of the unrolled loop body: eight conditional `|=` of the constants 0x01 … 0x80. -/
def pack8 (b0 b1 b2 b3 b4 b5 b6 b7 : Bool) : UInt8 :=
  (if b0 then 0x01 else 0) ||| (if b1 then 0x02 else 0) ||| (if b2 then 0x04 else 0) |||
  (if b3 then 0x08 else 0) ||| (if b4 then 0x10 else 0) ||| (if b5 then 0x20 else 0) |||
  (if b6 then 0x40 else 0) ||| (if b7 then 0x80 else 0)

def fullByte (maxDef : Nat) (defs : List (Option Nat)) (base : Nat) : UInt8 :=
  pack8 (nullAt maxDef defs (base + 0)) (nullAt maxDef defs (base + 1)) (nullAt maxDef defs (base + 2))
        (nullAt maxDef defs (base + 3)) (nullAt maxDef defs (base + 4)) (nullAt maxDef defs (base + 5))
        (nullAt maxDef defs (base + 6)) (nullAt maxDef defs (base + 7))

/-- `for (b = …; b < full_bytes; b++) null_bitmap[b] = null_bits;` (`n` iterations left) -/
def fullLoop (maxDef : Nat) (defs : List (Option Nat)) : Nat → Nat → List UInt8 → List UInt8
  | 0, _, bm => bm
  | n + 1, b, bm => fullLoop maxDef defs n (b + 1) (bm.set b (fullByte maxDef defs (b * 8)))

/-- `for (j = …; j < values_read; j++) if (def_levels[j] < max_def) null_bitmap[j/8] |= 1 << (j%8);` -/
def tailLoop (maxDef : Nat) (defs : List (Option Nat)) : Nat → Nat → List UInt8 → List UInt8
  | 0, _, bm => bm
  | n + 1, j, bm =>
    tailLoop maxDef defs n (j + 1)
      (if nullAt maxDef defs j then bm.modify (j / 8) (· ||| mask (j % 8)) else bm)

/-- `calloc(1, (rows_to_read + 7) / 8)` -/
def zeroBitmap (rows : Nat) : List UInt8 := List.replicate ((rows + 7) / 8) 0

/-- The standard path's bitmap: calloc, then (only when `def_levels` was allocated, i.e.
`max_def > 0`) the two loops over the `valuesRead` delivered rows. -/
def buildBitmap (maxDef : Nat) (defs : List (Option Nat)) (valuesRead rowsToRead : Nat) : List UInt8 :=
  if maxDef > 0 then
    tailLoop maxDef defs (valuesRead - valuesRead / 8 * 8) (valuesRead / 8 * 8)
      (fullLoop maxDef defs (valuesRead / 8) 0 (zeroBitmap rowsToRead))
  else zeroBitmap rowsToRead

/-! ### carquet_batch_reader_next -/

/-- `carquet_column_data_t` as the consumer sees it through `carquet_row_batch_column`. -/
structure ColData (α : Type) where
  numValues : Int
  bitmap : List UInt8          -- the null_bitmap allocation ([] for the zeroed struct of an empty batch)
  vals : List (Option α)       -- the data array: rows_to_read slots, or the page itself (view)
  view : Bool                  -- ownership == CARQUET_DATA_VIEW
  defs : List (Option Nat)     -- ghost: definition levels of the delivered rows (the C code frees them)
deriving DecidableEq, Repr

structure Batch (α : Type) where
  numRows : Int
  cols : List (ColData α)
deriving DecidableEq, Repr

/-- How a consumer of `carquet_row_batch_column` reads a column: row `i` is null iff bit `i` of
the bitmap is set (the polarity the code implements), the other rows take the next slot of the
dense data array, in order.  `flags` = the bitmap bits of the rows. -/
def spread : List Bool → List (Option α) → List (Option α)
  | [], _ => []
  | true :: fs, vs => none :: spread fs vs
  | false :: fs, v :: vs => v :: spread fs vs
  | false :: fs, [] => none :: spread fs []

/-- The logical content of a batch column: per row `none` (null) or `some value`. -/
def ColData.content (cd : ColData α) : List (Option α) :=
  spread ((List.range cd.numValues.toNat).map (bitmapBit cd.bitmap)) cd.vals

/-- Prefetch phase (compiled under `_OPENMP`, which the pinned build and the harness define):
`if (!page_loaded && values_remaining > 0) carquet_column_read_batch(col, NULL, 0, NULL, NULL)`. -/
def prefetch (fx : Fixes) (r : Reader α) : Reader α :=
  if r.pageLoaded = false ∧ r.valuesRemaining > 0 then (readBatch fx r 0 false false).1 else r

/-- `try_zero_copy` and the dummy `read_batch(…, 0, …)` it triggers. -/
def tryZeroCopy (fx : Fixes) (mode : IOMode) (col : Column) (r : Reader α) : Reader α :=
  if mode.hasMmapInfo = true ∧ col.maxDef = 0 ∧ r.pageLoaded = false then (readBatch fx r 0 false false).1 else r

/-- `use_zero_copy`.  Pinned: `page_num_values <= rows_to_read`; repaired (F5): `==`. -/
def useZeroCopy (fx : Fixes) (col : Column) (r : Reader α) (rowsToRead : Int) : Bool :=
  r.pageLoaded && r.ownershipView && decide (r.pageValuesRead = 0) &&
  (if fx.f5 then decide ((r.pageNumValues : Int) = rowsToRead) else decide ((r.pageNumValues : Int) ≤ rowsToRead)) &&
  decide (col.maxDef = 0)

/-- Zero-copy branch: the whole loaded page is handed out and marked consumed. -/
def zeroCopyCol (r : Reader α) : Reader α × ColData α :=
  ({ r with pageValuesRead := r.pageNumValues, pageNonNullRead := r.pageNumValues,
            valuesRemaining := r.valuesRemaining - r.pageNumValues },
   { numValues := r.pageNumValues, bitmap := zeroBitmap r.pageNumValues,
     vals := srcSlice r.decodedVals 0 r.pageNumValues, view := true,
     defs := srcSlice r.decodedDefs 0 r.pageNumValues })

/-- Standard branch; `none` = `read_error = true`. -/
def standardCol (fx : Fixes) (col : Column) (r : Reader α) (rowsToRead : Int) : Reader α × Option (ColData α) :=
  if col.valueSize = 0 ∨ rowsToRead ≤ 0 then (r, none)
  else if (col.valueSize : Int) > (Gen.Cursor.maxBatchAlloc : Int) / rowsToRead then (r, none)
  else
    match readBatch fx r rowsToRead (decide (col.maxDef > 0)) false with
    | (r', res) =>
      if res.count < 0 then (r', none)
      else (r', some { numValues := res.count,
                       bitmap := buildBitmap col.maxDef res.defs res.count.toNat rowsToRead.toNat,
                       vals := res.vals, view := false,
                       defs := res.rowDefs })

/-- Body of the main column loop for one column. -/
def readColumn (fx : Fixes) (mode : IOMode) (col : Column) (r : Reader α) (rowsToRead : Int) :
    Reader α × Option (ColData α) :=
  if useZeroCopy fx col (tryZeroCopy fx mode col r) rowsToRead then
    ((zeroCopyCol (tryZeroCopy fx mode col r)).1, some (zeroCopyCol (tryZeroCopy fx mode col r)).2)
  else standardCol fx col (tryZeroCopy fx mode col r) rowsToRead

/-- Main column loop: `if (read_error) continue;` — once a column failed the others are not read.
`cols` are the schema leaves of the projected columns, `rs` their readers. -/
def readColumns (fx : Fixes) (mode : IOMode) (rowsToRead : Int) :
    List Column → List (Reader α) → List (Reader α) × Option (List (ColData α))
  | col :: cols, r :: rs =>
    match readColumn fx mode col r rowsToRead with
    | (r', none) => (r' :: rs, none)
    | (r', some cd) =>
      match readColumns fx mode rowsToRead cols rs with
      | (rs', none) => (r' :: rs', none)
      | (rs', some cds) => (r' :: rs', some (cd :: cds))
  | _, rs => (rs, some [])

/-- schema leaf of each projected column (`schema->leaf_indices[file_col_idx]`); out of range
cannot happen once the readers have been opened. -/
def projectedColumns (f : File α) (proj : List Int) : List Column :=
  proj.filterMap (fun c => f.columns[c.toNat]?)

/-- an empty batch: `calloc`'ed column structs, `num_rows = 0` -/
def emptyBatch (n : Nat) : Batch α :=
  ⟨0, List.replicate n ⟨0, [], [], false, []⟩⟩

/-- Row-group advance at the top of `carquet_batch_reader_next`: `current_row_group++`, then
END_OF_DATA (readers untouched) or `open_row_group_readers`.  On failure all readers are NULL and (fix F96)
`current_row_group--` takes the increment back: the reader stays in front of the row group that could not be
opened.  (Pinned code: the increment stayed, and the next call dereferenced the NULL `col_readers[0]`:
`advanceRowGroupPreFixF96` / `nextPreFixF96` below.) -/
def advanceRowGroup (br : BatchReader α) : BatchReader α × Status :=
  if br.currentRowGroup + 1 ≥ br.file.rowGroups.length then
    ({ br with currentRowGroup := br.currentRowGroup + 1 }, .endOfData)
  else
    match openReaders br.mode br.file (br.currentRowGroup + 1) br.projected with
    | .error e => ({ br with colReaders := [] }, e)
    | .ok rs => ({ br with currentRowGroup := br.currentRowGroup + 1, colReaders := rs }, .ok)

/-- the row-group advance of the pinned code (before fix F96) -/
def advanceRowGroupPreFixF96 (br : BatchReader α) : BatchReader α × Status :=
  if br.currentRowGroup + 1 ≥ br.file.rowGroups.length then
    ({ br with currentRowGroup := br.currentRowGroup + 1 }, .endOfData)
  else
    match openReaders br.mode br.file (br.currentRowGroup + 1) br.projected with
    | .error e => ({ br with currentRowGroup := br.currentRowGroup + 1, colReaders := [] }, e)
    | .ok rs => ({ br with currentRowGroup := br.currentRowGroup + 1, colReaders := rs }, .ok)

/-- Everything after the row-group check, with `rs[0] = r0`. -/
def readBatchRows (fx : Fixes) (br : BatchReader α) (r0 : Reader α) :
    BatchReader α × Status × Option (Batch α) :=
  if min (remaining r0) br.batchSize = 0 then
    (br, .ok, some (emptyBatch br.projected.length))
  else
    match readColumns fx br.mode (min (remaining r0) br.batchSize)
            (projectedColumns br.file br.projected) (br.colReaders.map (prefetch fx)) with
    | (rs', none) => ({ br with colReaders := rs' }, .decode, none)
    | (rs', some cds) =>
      ({ br with colReaders := rs' }, .ok,
       some ⟨(cds.head?.map (·.numValues)).getD 0, cds⟩)

/-- after a successful advance: continue with the new column 0 -/
def afterAdvance (fx : Fixes) (br : BatchReader α) : BatchReader α × Status × Option (Batch α) :=
  match advanceRowGroup br with
  | (br', .ok) =>
    match br'.colReaders with
    | r0 :: _ => readBatchRows fx br' r0
    | [] => (br', .ub, none)
  | (br', e) => (br', e, none)

/-- `carquet_batch_reader_next`: `current_row_group < 0 || !col_readers[0] || !has_next(col_readers[0])` advances
(fix F96: the NULL test; a reader whose last row group failed to open tries that row group again) -/
def next (fx : Fixes) (br : BatchReader α) : BatchReader α × Status × Option (Batch α) :=
  if br.currentRowGroup < 0 then afterAdvance fx br
  else
    match br.colReaders with
    | [] => afterAdvance fx br
    | r0 :: _ => if hasNext r0 then readBatchRows fx br r0 else afterAdvance fx br

/-- `carquet_batch_reader_next` of the pinned code (before fix F96): after a failed `open_row_group_readers`
`current_row_group` is >= 0 and `col_readers[0]` is NULL; the next call dereferences it -/
def nextPreFixF96 (fx : Fixes) (br : BatchReader α) : BatchReader α × Status × Option (Batch α) :=
  if br.currentRowGroup < 0 then
    (match advanceRowGroupPreFixF96 br with
     | (br', .ok) => (match br'.colReaders with | r0 :: _ => readBatchRows fx br' r0 | [] => (br', .ub, none))
     | (br', e) => (br', e, none))
  else
    match br.colReaders with
    | [] => (br, .ub, none)
    | r0 :: _ => if hasNext r0 then readBatchRows fx br r0 else
        (match advanceRowGroupPreFixF96 br with
         | (br', .ok) => (match br'.colReaders with | r0 :: _ => readBatchRows fx br' r0 | [] => (br', .ub, none))
         | (br', e) => (br', e, none))

/-- `while (carquet_batch_reader_next(br, &batch) == CARQUET_OK && batch) { … }`: the batches
delivered and the status that ended the loop.  Fuel: a bound on the number of calls (every call
delivers rows, or an empty batch of an empty row group, or moves to the next row group). -/
def runAll (fx : Fixes) : Nat → BatchReader α → List (Batch α) × Status
  | 0, _ => ([], .ok)
  | fuel + 1, br =>
    match next fx br with
    | (br', .ok, some b) =>
      match runAll fx fuel br' with
      | (bs, st) => (b :: bs, st)
    | (_, st, _) => ([], st)

/-- Create a batch reader and drain it. `none` = create returned NULL. -/
def readAll (fx : Fixes) (mode : IOMode) (f : File α) (cfg : Config) (fuel : Nat) :
    Option (List (Batch α) × Status) :=
  (create mode f cfg).map (runAll fx fuel)

abbrev nextPreFix (br : BatchReader α) := next Fixes.pinned br

end Carquet.Impl.BatchReader
