import Carquet.Impl.Delta
/-
Model of src/encoding/delta_length.c (DELTA_LENGTH_BYTE_ARRAY).  Fidelity: exact for the
checks, their order, the statuses and the bytes; `malloc` failures and the growth of the output
`carquet_buffer_t` are not modelled (the buffer is the returned list).  A byte array is its list
of bytes; its `int32_t length` field is `BitVec.ofNat 32 v.length`.
-/
namespace Carquet.Impl.DeltaLength
open Carquet.Impl.Delta

/-- successive `values[i] = { byte_data + offset, lengths[i] }` -/
def slices : List Nat → List UInt8 → List (List UInt8)
  | [], _ => []
  | l :: ls, bs => bs.take l :: slices ls (bs.drop l)

/-- `carquet_delta_length_decode(data, size, values, num_values, &consumed)`;
`n` is the `int32_t num_values` -/
def decode (data : List UInt8) (n : Int) : Except Status (List (List UInt8) × Nat) :=
  if n ≤ 0 then .error .invalidArgument
  else match decodeInt32 data n.toNat with
    | .error s => .error s
    | .ok (lengths, consumed) =>
      if lengths.any (fun l => l.toInt < 0) then .error .decode
      else if data.length < consumed + (lengths.map (fun l => l.toNat)).sum then .error .decode
      else .ok (slices (lengths.map (fun l => l.toNat)) (data.drop consumed),
                consumed + (lengths.map (fun l => l.toNat)).sum)

/-- `lengths_capacity` -/
def lengthsCapacity (n : Nat) : Nat := n * 10 + 100

/-- `carquet_delta_length_encode(values, num_values, output)`: the bytes appended to `output` -/
def encode (values : List (List UInt8)) : Except Status (List UInt8) :=
  if values = [] then .error .invalidArgument
  else match encodeInt32 (values.map (fun v => BitVec.ofNat 32 v.length)) (lengthsCapacity values.length) with
    | .error s => .error s
    | .ok lens => .ok (lens ++ values.flatten)

end Carquet.Impl.DeltaLength
