import Carquet.Impl.Delta
import Carquet.Gen.DeltaConstants
/-
Model of src/encoding/delta_length.c (DELTA_LENGTH_BYTE_ARRAY).  Fidelity: exact for the
checks, their order, the statuses and the bytes; `malloc` failures and the growth of the output
`carquet_buffer_t` are not modelled (the buffer is the returned list).  A byte array is its list
of bytes; its `int32_t length` field is `BitVec.ofNat 32 v.length`.
-/
namespace Carquet.Impl.DeltaLength
open Carquet.Impl.Delta

/-- successive `values[i] = { byte_data + offset, lengths[i] }` -/
def slices : List Nat → List UInt8 → List (List UInt8)
  | [], _ => []
  | l :: ls, bs => bs.take l :: slices ls (bs.drop l)

/-- `carquet_delta_length_decode(data, size, values, num_values, &consumed)`;
`n` is the `int32_t num_values` -/
def decode (data : List UInt8) (n : Int) : Except Status (List (List UInt8) × Nat) :=
  if n ≤ 0 then .error .invalidArgument
  else match decodeInt32 data n.toNat with
    | .error s => .error s
    | .ok (lengths, consumed) =>
      if lengths.any (fun l => l.toInt < 0) then .error .decode
      else if data.length < consumed + (lengths.map (fun l => l.toNat)).sum then .error .decode
      else .ok (slices (lengths.map (fun l => l.toNat)) (data.drop consumed),
                consumed + (lengths.map (fun l => l.toNat)).sum)

/-- the same loop with the pointers kept as data: `(values[i].data - data, values[i].length)`,
the first value starting at `start = lengths_consumed` -/
def sliceOffsets (start : Nat) : List Nat → List (Nat × Nat)
  | [] => []
  | l :: ls => (start, l) :: sliceOffsets (start + l) ls

/-- `carquet_delta_length_decode` with the returned pointers as offsets into `data` (accesses as
data, for C08): same checks, same order, same statuses as `decode` -/
def decodeSlices (data : List UInt8) (n : Int) : Except Status (List (Nat × Nat) × Nat) :=
  if n ≤ 0 then .error .invalidArgument
  else match decodeInt32 data n.toNat with
    | .error s => .error s
    | .ok (lengths, consumed) =>
      if lengths.any (fun l => l.toInt < 0) then .error .decode
      else if data.length < consumed + (lengths.map (fun l => l.toNat)).sum then .error .decode
      else .ok (sliceOffsets consumed (lengths.map (fun l => l.toNat)),
                consumed + (lengths.map (fun l => l.toNat)).sum)

/-- `lengths_capacity`: an implementation-chosen number, so the expression is re-extracted from
delta_length.c on every run (`Gen.deltaLengthScratch`).  In the repaired code
(fixes/F61-delta-bytes-scratch-capacity.patch) it is `40 + (n + 127) / 128 * (10 + 4 + 128 * 8)`: the 40
bytes the header check of `carquet_delta_encode_int32` asks for, and for every started block of 128
values the most `delta_encoder_flush_block` can ask for (10-byte min delta, 4 widths, 128 deltas of 64
bits).  That the current expression suffices is `Proofs/DeltaBytesCap.lean`. -/
def lengthsCapacity (n : Nat) : Nat := Carquet.Gen.deltaLengthScratch n

/-- `lengths_capacity` before F61: "generous estimate" `num_values * 10 + 100` -/
def lengthsCapacityPreFix (n : Nat) : Nat := n * 10 + 100

/-- the length stream `carquet_delta_length_encode` writes first, as a function of the lengths
alone (`pre = true`: scratch capacity before F61) -/
def encodeLensWith (pre : Bool) (lens : List Nat) : Except Status (List UInt8) :=
  if lens = [] then .error .invalidArgument
  else encodeInt32 (lens.map (BitVec.ofNat 32))
         (if pre then lengthsCapacityPreFix lens.length else lengthsCapacity lens.length)

def encodeLens (lens : List Nat) : Except Status (List UInt8) := encodeLensWith false lens

/-- `carquet_delta_length_encode(values, num_values, output)`: the bytes appended to `output` -/
def encode (values : List (List UInt8)) : Except Status (List UInt8) :=
  if values = [] then .error .invalidArgument
  else match encodeInt32 (values.map (fun v => BitVec.ofNat 32 v.length)) (lengthsCapacity values.length) with
    | .error s => .error s
    | .ok lens => .ok (lens ++ values.flatten)

/-- the encoder before F61 (scratch buffer of `10·n + 100` bytes for the length stream) -/
def encodePreFix (values : List (List UInt8)) : Except Status (List UInt8) :=
  if values = [] then .error .invalidArgument
  else match encodeInt32 (values.map (fun v => BitVec.ofNat 32 v.length)) (lengthsCapacityPreFix values.length) with
    | .error s => .error s
    | .ok lens => .ok (lens ++ values.flatten)

end Carquet.Impl.DeltaLength
