import Carquet.Gen.Api
/-
Model of src/core/error.c (carquet_error_init/clear/set/copy, carquet_status_string, the three
`*_name` functions, carquet_error_recovery_hint, carquet_error_format, carquet_error_set_context,
carquet_error_is_recoverable).

Fidelity: exact.  Conventions:
* C strings are `List UInt8` without the terminating NUL; a fixed `char[N]` array is a `List UInt8`
  of length N (`message`), a caller buffer of `buffer_size` bytes a list of that length; storing
  into an array is `store` (the bytes before and behind the stored ones keep their old values);
* the `switch` tables are not transcribed: they are `Gen.Api.*`, re-extracted from error.c on every
  run, and the model is a lookup in them (`lookup` = first matching `case`, else `default`);
* the formatting engine (`vsnprintf` / `snprintf`) is a parameter `Engine`: given the capacity `n`
  and the text the conversion would produce it says which bytes are stored and what is returned.
  `Engine.Contract` is what the C standard guarantees whatever the conversion does (at most `n`
  bytes stored, NUL-terminated when `n > 0`, nothing stored when `n = 0`); `Engine.std` is the
  standard's exact rule (the first `n-1` bytes of the text and a NUL; returns the full length);
* the format strings of carquet_error_format are `Gen.Api.errorFormatStrings` and are expanded by
  `expand` (%s, %d, %lld); `int` arithmetic on lengths is unbounded (every reachable text is
  shorter than 512 bytes);
* `file` / `function` are pointers the library only stores: modelled by an opaque id.
-/
namespace Carquet.Impl.ErrorApi

abbrev Bytes := List UInt8

/-- the bytes of a C string literal -/
def str (s : String) : Bytes := s.toUTF8.toList

/-- a `switch (v) { case k1: return x1; … default: return d; }` -/
def lookup {α : Type} (tbl : List (Int × α)) (dflt : α) (v : Int) : α :=
  match tbl.find? (fun p => p.1 == v) with
  | some p => p.2
  | none => dflt

/-- `carquet_status_string` -/
def statusString (status : Int) : Bytes := str (lookup Gen.Api.statusStrings Gen.Api.statusStringsDefault status)
/-- `carquet_physical_type_name` -/
def physicalTypeName (t : Int) : Bytes := str (lookup Gen.Api.physicalTypeNames Gen.Api.physicalTypeNamesDefault t)
/-- `carquet_compression_name` -/
def compressionName (c : Int) : Bytes := str (lookup Gen.Api.compressionNames Gen.Api.compressionNamesDefault c)
/-- `carquet_encoding_name` -/
def encodingName (e : Int) : Bytes := str (lookup Gen.Api.encodingNames Gen.Api.encodingNamesDefault e)
/-- `carquet_error_recovery_hint` (`none` = NULL) -/
def recoveryHint (status : Int) : Option Bytes :=
  (lookup Gen.Api.recoveryHints Gen.Api.recoveryHintsDefault status).map str
/-- `carquet_error_is_recoverable` -/
def isRecoverable (status : Int) : Bool := lookup Gen.Api.recoverable Gen.Api.recoverableDefault status

/-! ## the formatting engine -/

/-- `vsnprintf(dst, n, fmt, args)` where `text` is what the conversion produces: the bytes stored at
`dst` and the value returned -/
structure Engine where
  run : (n : Nat) → (text : Bytes) → Bytes × Int

/-- what ISO C promises of `snprintf` whatever is converted: never more than `n` bytes stored, the
stored bytes end in a NUL when `n > 0`, nothing is stored when `n = 0` -/
structure Engine.Contract (E : Engine) : Prop where
  bounded : ∀ n text, (E.run n text).1.length ≤ n
  terminated : ∀ n text, 0 < n → ∃ pre, (E.run n text).1 = pre ++ [0]
  nothing : ∀ text, (E.run 0 text).1 = []

/-- the standard's rule: the first `n-1` bytes of the text, a NUL; the return value is the length
the full text has -/
def Engine.std : Engine :=
  ⟨fun n text => (if n = 0 then [] else text.take (n - 1) ++ [0], (text.length : Int))⟩

/-- `dst[at .. at+|w|) = w` -/
def store (dst : Bytes) (pos : Nat) (w : Bytes) : Bytes := dst.take pos ++ w ++ dst.drop (pos + w.length)

/-- the C string held in an array (bytes before the first NUL) -/
def cstr (a : Bytes) : Bytes := a.takeWhile (· ≠ 0)

/-! ## printf conversions used by error.c -/

/-- decimal digits of a natural number, most significant first; `fuel` bounds the number of
divisions (`decNat_unfold` in Proofs/ErrorApi: with fuel `n` it is never what stops the loop) -/
def decNatF : (fuel : Nat) → Nat → Bytes
  | 0, n => [UInt8.ofNat (48 + n % 10)]
  | fuel + 1, n => if n < 10 then [UInt8.ofNat (48 + n)] else decNatF fuel (n / 10) ++ [UInt8.ofNat (48 + n % 10)]

def decNat (n : Nat) : Bytes := decNatF n n

/-- `%d` / `%lld` -/
def dec (v : Int) : Bytes := if v < 0 then 45 :: decNat v.natAbs else decNat v.natAbs

inductive Arg where
  | s (b : Bytes)
  | i (v : Int)

/-- the text a format string of error.c produces (`%s`, `%d`, `%lld`; every other byte verbatim) -/
def expand : List UInt8 → List Arg → Bytes
  | 37 :: 115 :: r, .s b :: as => b ++ expand r as
  | 37 :: 100 :: r, .i v :: as => dec v ++ expand r as
  | 37 :: 108 :: 108 :: 100 :: r, .i v :: as => dec v ++ expand r as
  | c :: r, as => c :: expand r as
  | [], _ => []

def fmtAt (i : Nat) : Bytes := str (Gen.Api.errorFormatStrings.getD i "")

/-! ## carquet_error_t -/

def cap : Nat := Gen.Api.errorMessageMax

structure ErrorT where
  code : Int
  message : Bytes            -- char message[CARQUET_ERROR_MESSAGE_MAX]
  file : Option Nat          -- const char* (opaque id; none = NULL)
  line : Int
  function : Option Nat
  offset : Int
  columnIndex : Int
  rowGroupIndex : Int
  deriving DecidableEq, Repr

/-- `carquet_error_init` (= `carquet_error_clear`): only `message[0]` is written -/
def errorInit (e : ErrorT) : ErrorT :=
  { code := 0, message := store e.message 0 [0], file := none, line := 0, function := none,
    offset := -1, columnIndex := -1, rowGroupIndex := -1 }

/-- the message array after `carquet_error_set`: `vsnprintf(message, MAX, format, args)`, or
`message[0] = '\0'` for a NULL format -/
def setMessage (E : Engine) (old : Bytes) (text : Option Bytes) : Bytes :=
  match text with
  | some t => store old 0 (E.run cap t).1
  | none => store old 0 [0]

/-- `carquet_error_set(error, code, file, line, function, format, …)`; `text` = what the format
produces (`none`: `format == NULL`).  The three context members are not touched. -/
def errorSet (E : Engine) (e : ErrorT) (code : Int) (file : Option Nat) (line : Int) (function : Option Nat)
    (text : Option Bytes) : ErrorT :=
  { e with code := code, file := file, line := line, function := function,
           message := setMessage E e.message text }

/-- `carquet_error_copy(dest, src)` with both non-NULL -/
def errorCopy (_dest src : ErrorT) : ErrorT := src

/-- `carquet_error_set_context`: negative arguments leave the member as it is -/
def errorSetContext (e : ErrorT) (offset rowGroup column : Int) : ErrorT :=
  { e with offset := if offset ≥ 0 then offset else e.offset,
           rowGroupIndex := if rowGroup ≥ 0 then rowGroup else e.rowGroupIndex,
           columnIndex := if column ≥ 0 then column else e.columnIndex }

/-! ## carquet_error_format -/

inductive FmtErr where
  | unterminated     -- `error->message` holds no NUL: `%s` would read past the array
  deriving DecidableEq, Repr

structure FmtOut where
  buf : Bytes                  -- the caller's buffer afterwards
  ret : Int                    -- the value returned
  writes : List (Nat × Nat)    -- every store into the caller's buffer: (offset, length)
  deriving DecidableEq, Repr

/-- `"[%s] %s", carquet_status_string(code), message[0] ? message : "(no details)"` -/
def headText (e : ErrorT) : Bytes :=
  expand (fmtAt 0) [.s (statusString e.code),
                    .s (if cstr e.message = [] then str Gen.Api.errorNoDetails else cstr e.message)]

/-- one optional piece: `len = snprintf(buffer + written, size - written, …); if (len > 0 &&
(size_t)(written + len) < size) written += len;` -/
def piece (E : Engine) (size : Nat) (st : FmtOut) (text : Bytes) : FmtOut :=
  { buf := store st.buf st.ret.toNat (E.run (size - st.ret.toNat) text).1,
    ret := if (E.run (size - st.ret.toNat) text).2 > 0 ∧ st.ret + (E.run (size - st.ret.toNat) text).2 < size
           then st.ret + (E.run (size - st.ret.toNat) text).2 else st.ret,
    writes := st.writes ++ [(st.ret.toNat, (E.run (size - st.ret.toNat) text).1.length)] }

def pieceIf (c : Bool) (E : Engine) (size : Nat) (st : FmtOut) (text : Bytes) : FmtOut :=
  if c then piece E size st text else st

def hintText (code : Int) : Option Bytes := (recoveryHint code).map (fun h => expand (fmtAt 4) [.s h])

def hintPiece (E : Engine) (size : Nat) (code : Int) (st : FmtOut) : FmtOut :=
  match hintText code with
  | some t => piece E size st t
  | none => st

/-- the four optional pieces, in order: file offset, row group, column, hint -/
def tailPieces (E : Engine) (size : Nat) (e : ErrorT) (st : FmtOut) : FmtOut :=
  hintPiece E size e.code
    (pieceIf (decide (e.columnIndex ≥ 0)) E size
      (pieceIf (decide (e.rowGroupIndex ≥ 0)) E size
        (pieceIf (decide (e.offset ≥ 0)) E size st (expand (fmtAt 1) [.i e.offset]))
        (expand (fmtAt 2) [.i e.rowGroupIndex]))
      (expand (fmtAt 3) [.i e.columnIndex]))

/-- after the first `snprintf` -/
def headOut (E : Engine) (b : Bytes) (size : Nat) (e : ErrorT) : FmtOut :=
  ⟨store b 0 (E.run size (headText e)).1, (E.run size (headText e)).2, [(0, (E.run size (headText e)).1.length)]⟩

/-- `carquet_error_format(error, buffer, buffer_size)`; `none` = NULL pointer -/
def errorFormat (E : Engine) (e : Option ErrorT) (buf : Option Bytes) (size : Nat) : Except FmtErr FmtOut :=
  match e, buf with
  | some e, some b =>
    if size = 0 then .ok ⟨b, 0, []⟩
    else if 0 ∉ e.message then .error .unterminated
    else if (headOut E b size e).ret < 0 then .ok { headOut E b size e with ret := -1 }
    else if (headOut E b size e).ret ≥ size then .ok { headOut E b size e with ret := (size : Int) - 1 }
    else .ok (tailPieces E size e (headOut E b size e))
  | _, some b => .ok ⟨b, 0, []⟩
  | _, none => .ok ⟨[], 0, []⟩

/-! ## version -/

/-- `carquet_version()` must spell the three components -/
def versionText : Bytes :=
  decNat Gen.Api.versionMajor ++ [46] ++ decNat Gen.Api.versionMinor ++ [46] ++ decNat Gen.Api.versionPatch

end Carquet.Impl.ErrorApi
