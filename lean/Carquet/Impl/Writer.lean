import Carquet.Impl.ThriftParquet
/-
Model of carquet's writer pipeline: src/writer/page_writer.c, column_writer.c,
row_group_writer.c, file_writer.c (as of the fixes F2/F3/F17/F60/F64/F23).

The byte-level components the pipeline calls (PLAIN, RLE levels, compression, CRC, Thrift
headers and footer, statistics order) are taken as a parameter record `Deps`, instantiated in
Impl/FileReal.lean with the Impl models of those components.  This file mirrors exactly the
*control* of the writer: what is accumulated per batch, when a page is cut, what a page body
is, how chunks are laid out, which offsets and sizes go into the metadata, the order and the
sizes of the stream writes, and the status flow.  Fidelity: exact for that control; the tie is
byte equality of whole files (harness op `wr`).
-/
namespace Carquet.Impl.Writer

abbrev Bytes := List UInt8

/-- physical types, numbered as `carquet_physical_type_t` -/
inductive PType where
  | boolean | int32 | int64 | int96 | float | double | byteArray | flba
  deriving DecidableEq, Repr

def PType.code : PType → Nat
  | .boolean => 0 | .int32 => 1 | .int64 => 2 | .int96 => 3
  | .float => 4 | .double => 5 | .byteArray => 6 | .flba => 7

def PType.ofCode : Nat → Option PType
  | 0 => some .boolean | 1 => some .int32 | 2 => some .int64 | 3 => some .int96
  | 4 => some .float | 5 => some .double | 6 => some .byteArray | 7 => some .flba | _ => none

/-- repetition of a flat column, numbered as `carquet_field_repetition_t` -/
inductive Rep where
  | required | optional | repeated
  deriving DecidableEq, Repr

def Rep.code : Rep → Nat
  | .required => 0 | .optional => 1 | .repeated => 2

/-- one `carquet_schema_add_column(schema, name, physical_type, logical_type, repetition, type_length)`
call as `carquet_writer_create` + `add_column_internal` keep it (`writer_column_def_t`).  `logical` is the
`logical_type` argument: `none` = NULL pointer (the struct stays zero-filled, id UNKNOWN), the `params`
union is the constructor's arguments (Impl/ThriftParquet.lean). -/
structure Col where
  name : String
  ptype : PType
  rep : Rep
  typeLen : Nat
  logical : Option ThriftParquet.LogicalType := none
  deriving DecidableEq, Repr

/-- `add_column_internal`: levels of a flat column -/
def Col.maxDef (c : Col) : Nat := if c.rep = .required then 0 else 1   -- after F60 (was: 1 for OPTIONAL only)
def Col.maxRep (c : Col) : Nat := if c.rep = .repeated then 1 else 0

/-- a value is its bit pattern: the bytes PLAIN stores for it (BOOLEAN: one byte 0/1;
BYTE_ARRAY: the content without length prefix) -/
abbrev Val := Bytes

/-- one `carquet_writer_write_batch(col, values, nrows, def_levels, rep_levels)` call.
`nrows` is the `num_values` argument: the number of level ENTRIES (for a REQUIRED / OPTIONAL column
that is the number of rows; for a REPEATED column every list element and every empty list is one
entry).  `defs = none` is a NULL def_levels pointer, `reps = none` a NULL rep_levels pointer.
`vals` are the values the caller's array holds (the non-null ones, dense). -/
structure Batch where
  col : Nat
  nrows : Nat
  defs : Option (List Nat)
  vals : List Val
  reps : Option (List Nat) := none
  deriving DecidableEq, Repr

inductive Op where
  | batch (b : Batch)
  | newRowGroup
  deriving DecidableEq, Repr

inductive Status where
  | ok | invalidArgument | fileWrite | other
  deriving DecidableEq, Repr

/-- statistics carried in a data page header -/
structure PageStats where
  nullCount : Nat
  max : Bytes
  min : Bytes
  deriving DecidableEq, Repr

structure ChunkMeta where
  fileOffset : Nat            -- = data_page_offset
  ptype : PType
  codec : Nat
  numValues : Nat
  totalCompressed : Nat       -- bytes of the chunk in the file, page headers included
  totalUncompressed : Nat     -- Σ (page header + uncompressed page body), as parquet.thrift defines it (after fix F23)
  path : String
  deriving DecidableEq, Repr

structure RgMeta where
  numRows : Nat
  totalByteSize : Nat         -- Σ total_uncompressed_size of the chunks (after fix F23; was the compressed chunk sizes)
  fileOffset : Nat
  totalCompressed : Nat
  ordinal : Nat
  chunks : List ChunkMeta
  deriving DecidableEq, Repr

structure FooterData where
  cols : List Col
  createdBy : String
  numRows : Nat
  rowGroups : List RgMeta
  deriving DecidableEq, Repr

/-- The byte-level components (see Impl/FileReal.lean for the instantiation). -/
structure Deps where
  /-- `carquet_encode_plain_*` of the dense values of one batch (BOOLEAN is not routed here) -/
  plain : PType → (typeLen : Nat) → List Val → Bytes
  /-- `carquet_encode_plain_boolean` of all booleans of a page (one byte each in, bit-packed out) -/
  plainBools : List Val → Bytes
  /-- `encode_levels`: 4-byte length prefix + RLE hybrid at the width of `maxLevel` -/
  levels : (maxLevel : Nat) → List Nat → Bytes
  /-- `compress_data`; `none` = unsupported codec or codec failure -/
  compress : (codec : Nat) → Bytes → Option Bytes
  crc32 : Bytes → Nat
  /-- the hand-written page header of `carquet_page_writer_finalize` -/
  pageHeader : (uncompressed compressed crc numValues : Nat) → Option PageStats → Bytes
  /-- `parquet_write_file_metadata` of what `build_file_metadata` assembles -/
  footer : FooterData → Bytes
  /-- `update_statistics_*`: new (min, max) after seeing one more value -/
  statsStep : PType → Option (Val × Val) → Val → Option (Val × Val)

/-- page builder (`carquet_page_writer_t`) -/
structure Page where
  values : List Val := []       -- values of the page so far (dense), in order
  defs : List Nat := []         -- raw definition levels (only when maxDef > 0)
  reps : List Nat := []         -- raw repetition levels (only when maxRep > 0)
  numValues : Nat := 0          -- level entries (rows of a non-repeated column)
  numNulls : Nat := 0
  minMax : Option (Val × Val) := none
  deriving Repr

/-- ghost record of one finished data page (not in the C structs): what
`carquet_page_writer_finalize` computed for it -/
structure PageRec where
  rows : Nat                    -- num_values of the header
  body : Bytes                  -- uncompressed page body
  comp : Bytes                  -- stored (compressed) page body
  stats : Option PageStats
  src : Page                    -- the page builder's content when the page was cut
  deriving Repr

/-- column writer (`carquet_column_writer_internal_t`) -/
structure ColW where
  page : Page := {}
  buffer : Bytes := []          -- finished pages
  totalValues : Nat := 0
  totalUncompressed : Nat := 0
  numPages : Nat := 0
  /-- ghost (not in the C struct): the finished pages; `buffer` is the concatenation of
  their bytes (proved in Proofs/WriterPages) -/
  pages : List PageRec := []
  deriving Repr

structure W where
  cols : List Col
  codec : Nat
  pageSize : Nat                -- options.page_size
  createdBy : String
  out : List Bytes := []        -- the fwrite calls made so far, in order (file bytes = their concatenation)
  headerWritten : Bool := false
  fileOffset : Nat := 0
  rg : Option (List ColW) := none
  rgRows : Nat := 0
  rowGroups : List RgMeta := []
  totalRows : Nat := 0
  /-- ghost (not in the C struct): the pages of the row groups written so far, per chunk -/
  pagesDone : List (List (List PageRec)) := []
  deriving Repr

def bitWidthForMax (m : Nat) : Nat := if m = 0 then 0 else Nat.log2 m + 1

def targetPageSize (w : W) : Nat := if w.pageSize > 0 then w.pageSize else 1024 * 1024

/-- number of non-null rows `carquet_page_writer_add_values` counts -/
def numNonNull (c : Col) (b : Batch) : Nat :=
  match b.defs with
  | some ds => if c.maxDef > 0 then (ds.filter (· == c.maxDef)).length else b.nrows
  | none => b.nrows

/-- PLAIN size of the values buffer of the page (BOOLEAN: one byte per value until finalize) -/
def valuesBufferSize (D : Deps) (c : Col) (p : Page) : Nat :=
  if c.ptype = .boolean then p.values.length else (D.plain c.ptype c.typeLen p.values).length

/-- `carquet_page_writer_estimated_size` -/
def estimatedSize (D : Deps) (c : Col) (p : Page) : Nat :=
  (if c.ptype = .boolean then (p.values.length + 7) / 8 else (D.plain c.ptype c.typeLen p.values).length) +
  (if p.defs.length = 0 then 0 else 4 + (p.defs.length * bitWidthForMax c.maxDef + 7) / 8) +
  (if p.reps.length = 0 then 0 else 4 + (p.reps.length * bitWidthForMax c.maxRep + 7) / 8) + 64

def hasStats (t : PType) : Bool :=
  t = .int32 || t = .int64 || t = .float || t = .double

/-- `carquet_page_writer_add_values` -/
def addValues (D : Deps) (c : Col) (p : Page) (b : Batch) : Page :=
  { values := p.values ++ b.vals,
    defs := if c.maxDef > 0 then p.defs ++ (match b.defs with
                                            | some ds => ds
                                            | none => List.replicate b.nrows c.maxDef) else p.defs,
    reps := if c.maxRep > 0 then p.reps ++ (match b.reps with
                                            | some rs => rs
                                            | none => List.replicate b.nrows 0) else p.reps,
    numValues := p.numValues + b.nrows,
    numNulls := p.numNulls + (match b.defs with
                              | some _ => if c.maxDef > 0 then b.nrows - numNonNull c b else 0
                              | none => 0),
    minMax := if hasStats c.ptype then b.vals.foldl (D.statsStep c.ptype) p.minMax else p.minMax }

/-- body of a page before compression: rep levels, def levels, values -/
def pageBody (D : Deps) (c : Col) (p : Page) : Bytes :=
  (if p.reps.length > 0 then D.levels c.maxRep p.reps else []) ++
  (if p.defs.length > 0 then D.levels c.maxDef p.defs else []) ++
  (if c.ptype = .boolean then D.plainBools p.values else D.plain c.ptype c.typeLen p.values)

/-- statistics `carquet_page_writer_finalize` puts into the header -/
def pageStatsOf (p : Page) : Option PageStats :=
  match p.minMax with
  | some (mn, mx) => some ⟨p.numNulls, mx, mn⟩
  | none => none

/-- header ++ stored body of a finished page -/
def PageRec.bytes (D : Deps) (r : PageRec) : Bytes :=
  D.pageHeader r.body.length r.comp.length (D.crc32 r.comp) r.rows r.stats ++ r.comp

/-- ghost: the header in front of the stored body of a finished page -/
def PageRec.header (D : Deps) (r : PageRec) : Bytes :=
  D.pageHeader r.body.length r.comp.length (D.crc32 r.comp) r.rows r.stats

/-- ghost: what parquet.thrift calls the uncompressed size of a page — header + uncompressed body -/
def PageRec.usize (D : Deps) (r : PageRec) : Nat := (r.header D).length + r.body.length

/-- `carquet_page_writer_finalize`: header ++ compressed body (`page_data`, `page_size`), the
uncompressed size and the compressed size of the body -/
def finalizePage (D : Deps) (codec : Nat) (c : Col) (p : Page) : Option (Bytes × Nat × Nat) :=
  match D.compress codec (pageBody D c p) with
  | none => none
  | some comp =>
    some (D.pageHeader (pageBody D c p).length comp.length (D.crc32 comp) p.numValues (pageStatsOf p) ++ comp,
          (pageBody D c p).length, comp.length)

/-- ghost: the record of the page `finalizePage` emits -/
def pageRecOf (D : Deps) (codec : Nat) (c : Col) (p : Page) : PageRec :=
  { rows := p.numValues, body := pageBody D c p,
    comp := (D.compress codec (pageBody D c p)).getD [], stats := pageStatsOf p, src := p }

/-- `flush_current_page` (after fix F23): `total_uncompressed_size += (page_size - compressed_size) +
uncompressed_size`, i.e. the page header is counted as well -/
def flushPage (D : Deps) (codec : Nat) (c : Col) (cw : ColW) : Option ColW :=
  if cw.page.numValues = 0 then some cw
  else match finalizePage D codec c cw.page with
    | none => none
    | some (bytes, unc, comp) =>
      some { cw with page := {}, buffer := cw.buffer ++ bytes,
                     totalUncompressed := cw.totalUncompressed + ((bytes.length - comp) + unc),
                     numPages := cw.numPages + 1,
                     pages := cw.pages ++ [pageRecOf D codec c cw.page] }

/-- `carquet_column_writer_write_batch` -/
def colWriteBatch (D : Deps) (codec target : Nat) (c : Col) (cw : ColW) (b : Batch) : Option ColW :=
  if target ≤ estimatedSize D c (addValues D c cw.page b) then
    flushPage D codec c { cw with page := addValues D c cw.page b, totalValues := cw.totalValues + b.nrows }
  else
    some { cw with page := addValues D c cw.page b, totalValues := cw.totalValues + b.nrows }

def magic : Bytes := [0x50, 0x41, 0x52, 0x31]

/-- `ensure_header_written` -/
def ensureHeader (w : W) : W :=
  if w.headerWritten then w
  else { w with out := w.out ++ [magic], fileOffset := 4, headerWritten := true }

/-- `ensure_row_group` -/
def ensureRowGroup (w : W) : W :=
  match w.rg with
  | some _ => w
  | none => { w with rg := some (w.cols.map (fun _ => ({} : ColW))), rgRows := 0 }

/-- chunk metadata and bytes of one finalised column -/
def chunkOf (w : W) (c : Col) (cw : ColW) (offset : Nat) : ChunkMeta :=
  { fileOffset := offset, ptype := c.ptype, codec := w.codec, numValues := cw.totalValues,
    totalCompressed := cw.buffer.length, totalUncompressed := cw.totalUncompressed, path := c.name }

/-- the loop of `carquet_row_group_writer_finalize`: flush every column, lay chunks out -/
def finalizeCols (D : Deps) (w : W) : List Col → List ColW → Nat → Option (Bytes × List ChunkMeta)
  | c :: cs, cw :: cws, off =>
    match flushPage D w.codec c cw with
    | none => none
    | some cw' =>
      match finalizeCols D w cs cws (off + cw'.buffer.length) with
      | none => none
      | some (bytes, metas) => some (cw'.buffer ++ bytes, chunkOf w c cw' off :: metas)
  | _, _, _ => some ([], [])

/-- ghost: the page records of the chunks `finalizeCols` lays out -/
def finalizeColsPages (D : Deps) (w : W) : List Col → List ColW → List (List PageRec)
  | c :: cs, cw :: cws =>
    match flushPage D w.codec c cw with
    | none => []
    | some cw' => cw'.pages :: finalizeColsPages D w cs cws
  | _, _ => []

/-- what `carquet_row_group_writer_finalize` leaves in `total_byte_size` (after fix F23): the field is
reset at the start of every finalisation and each column adds its `total_uncompressed_size` -/
def chunksUncompressed (ms : List ChunkMeta) : Nat := (ms.map (·.totalUncompressed)).sum

/-- `flush_row_group` -/
def flushRowGroup (D : Deps) (w : W) : W × Status :=
  match w.rg with
  | none => (w, .ok)
  | some cws =>
    match finalizeCols D w w.cols cws w.fileOffset with
    | none => (w, .other)
    | some (bytes, metas) =>
      ({ w with out := if bytes.length > 0 then w.out ++ [bytes] else w.out,
                rowGroups := w.rowGroups ++ [{ numRows := w.rgRows, totalByteSize := chunksUncompressed metas,
                                               fileOffset := w.fileOffset, totalCompressed := bytes.length,
                                               ordinal := w.rowGroups.length, chunks := metas }],
                fileOffset := w.fileOffset + bytes.length,
                totalRows := w.totalRows + w.rgRows,
                rg := none, rgRows := 0,
                pagesDone := w.pagesDone ++ [finalizeColsPages D w w.cols cws] }, .ok)

/-- replace element `i` of a list -/
def setAt (l : List α) (i : Nat) (x : α) : List α := l.set i x

/-- rows one batch of column 0 adds to the open row group (`carquet_writer_write_batch` after fix
F64): with a rep_levels array and a REPEATED column, the entries with repetition level 0; otherwise
`num_values` -/
def batchRows (c : Col) (b : Batch) : Nat :=
  match b.reps with
  | some rs => if c.maxRep > 0 then (rs.filter (· == 0)).length else b.nrows
  | none => b.nrows

/-- `carquet_writer_write_batch` -/
def writeBatch (D : Deps) (w : W) (b : Batch) : W × Status :=
  match w.cols[b.col]? with
  | none => (w, .invalidArgument)
  | some c =>
    match (ensureRowGroup (ensureHeader w)).rg with
    | none => (w, .other)
    | some cws =>
      match cws[b.col]? with
      | none => (w, .other)
      | some cw =>
        match colWriteBatch D w.codec (targetPageSize w) c cw b with
        | none => (ensureRowGroup (ensureHeader w), .other)
        | some cw' =>
          ({ ensureRowGroup (ensureHeader w) with
               rg := some (setAt cws b.col cw'),
               rgRows := (ensureRowGroup (ensureHeader w)).rgRows + (if b.col = 0 then batchRows c b else 0) }, .ok)

/-- the pinned code (before fix F64): `if (column_index == 0) current_row_group_rows += num_values`
— the row count of a row group whose first column is REPEATED was its number of level entries -/
def writeBatchPreFixF64 (D : Deps) (w : W) (b : Batch) : W × Status :=
  match w.cols[b.col]? with
  | none => (w, .invalidArgument)
  | some c =>
    match (ensureRowGroup (ensureHeader w)).rg with
    | none => (w, .other)
    | some cws =>
      match cws[b.col]? with
      | none => (w, .other)
      | some cw =>
        match colWriteBatch D w.codec (targetPageSize w) c cw b with
        | none => (ensureRowGroup (ensureHeader w), .other)
        | some cw' =>
          ({ ensureRowGroup (ensureHeader w) with
               rg := some (setAt cws b.col cw'),
               rgRows := (ensureRowGroup (ensureHeader w)).rgRows + (if b.col = 0 then b.nrows else 0) }, .ok)

def le32 (n : Nat) : Bytes :=
  [UInt8.ofNat (n % 256), UInt8.ofNat (n / 256 % 256), UInt8.ofNat (n / 65536 % 256), UInt8.ofNat (n / 16777216 % 256)]

def footerOf (D : Deps) (w : W) : Bytes := D.footer ⟨w.cols, w.createdBy, w.totalRows, w.rowGroups⟩

/-- `carquet_writer_close` on a healthy stream (sink failures: Impl/Sink): the fwrite calls
made in total, and the status -/
def close (D : Deps) (w : W) : List Bytes × Status :=
  match flushRowGroup D (ensureHeader w) with
  | (w', .ok) => (w'.out ++ [footerOf D w', le32 (footerOf D w').length, magic], .ok)
  | (w', s) => (w'.out, s)

def step (D : Deps) (w : W) : Op → W × Status
  | .batch b => writeBatch D w b
  | .newRowGroup => flushRowGroup D (ensureHeader w)

/-- run a history; statuses of every call, then close -/
def run (D : Deps) (w : W) : List Op → List Status → List Bytes × List Status
  | [], acc => ((close D w).1, acc ++ [(close D w).2])
  | op :: ops, acc => run D (step D w op).1 ops (acc ++ [(step D w op).2])

def writesOf (D : Deps) (cols : List Col) (codec pageSize : Nat) (createdBy : String) (ops : List Op) :
    List Bytes × List Status :=
  run D { cols := cols, codec := codec, pageSize := pageSize, createdBy := createdBy } ops []

/-- the file a healthy stream receives -/
def fileOf (D : Deps) (cols : List Col) (codec pageSize : Nat) (createdBy : String) (ops : List Op) :
    Bytes × List Status :=
  ((writesOf D cols codec pageSize createdBy ops).1.flatten, (writesOf D cols codec pageSize createdBy ops).2)

/-! ### the pinned code before fix F64 (kept for the regression example `C05_regression_F64`) -/

def stepPreFixF64 (D : Deps) (w : W) : Op → W × Status
  | .batch b => writeBatchPreFixF64 D w b
  | .newRowGroup => flushRowGroup D (ensureHeader w)

def runPreFixF64 (D : Deps) (w : W) : List Op → List Status → List Bytes × List Status
  | [], acc => ((close D w).1, acc ++ [(close D w).2])
  | op :: ops, acc => runPreFixF64 D (stepPreFixF64 D w op).1 ops (acc ++ [(stepPreFixF64 D w op).2])

/-- the file the pinned code (before F64) wrote -/
def fileOfPreFixF64 (D : Deps) (cols : List Col) (codec pageSize : Nat) (createdBy : String) (ops : List Op) :
    Bytes × List Status :=
  ((runPreFixF64 D { cols := cols, codec := codec, pageSize := pageSize, createdBy := createdBy } ops []).1.flatten,
   (runPreFixF64 D { cols := cols, codec := codec, pageSize := pageSize, createdBy := createdBy } ops []).2)

end Carquet.Impl.Writer
