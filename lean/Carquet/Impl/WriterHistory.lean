import Carquet.Impl.Writer
/-
The table a write history DENOTES, defined from the batches alone (no pages, buffers, offsets,
no byte-level component): per row group, per column, the rows, the definition / repetition
levels and the dense values of the accepted batches, in call order.  `tableOf` is what
`C05_written_table` (Properties/C05/Writer.lean) relates the pages of a written file to, and what
`Impl/WriterSpecTable.lean` converts into the independent reader's `Spec.File.Table`.
(These definitions used to live in Proofs/WriterTable.lean; they are data, not proofs, and the
driver needs them.)
-/
namespace Carquet.Impl.Writer

/-- content of a column (of a row group, of a page, of a batch).  `rows` counts level ENTRIES
(`num_values`): the rows of a REQUIRED / OPTIONAL column; for a REPEATED column the rows are the
entries with repetition level 0 (`ColData.recs`). -/
structure ColData where
  rows : Nat := 0
  defs : List Nat := []
  reps : List Nat := []
  vals : List Val := []
  deriving DecidableEq, Repr

def ColData.append (a b : ColData) : ColData :=
  ⟨a.rows + b.rows, a.defs ++ b.defs, a.reps ++ b.reps, a.vals ++ b.vals⟩

/-- number of rows (records) of a column's content: every entry of a non-repeated column is a row;
in a REPEATED column a row starts at each entry with repetition level 0 -/
def ColData.recs (maxRep : Nat) (d : ColData) : Nat :=
  if maxRep = 0 then d.rows else (d.reps.filter (· == 0)).length

/-- rows of the first column of a row group's content (0 for a schema without columns): its
entries, or — REPEATED — its entries with repetition level 0.  This is the `num_rows` the writer
gives the row group. -/
def firstRecs (cols : List Col) (g : List ColData) : Nat :=
  (List.zipWith (fun (c : Col) (d : ColData) => d.recs c.maxRep) cols g).headD 0

/-- what one accepted `write_batch` call contributes to its column (`add_values`) -/
def batchData (c : Col) (b : Batch) : ColData :=
  { rows := b.nrows,
    defs := if c.maxDef > 0 then (match b.defs with
                                  | some ds => ds
                                  | none => List.replicate b.nrows c.maxDef) else [],
    reps := if c.maxRep > 0 then (match b.reps with
                                  | some rs => rs
                                  | none => List.replicate b.nrows 0) else [],
    vals := b.vals }

/-- abstract writer state: finished row groups and the open one -/
structure A where
  done : List (List ColData) := []
  cur : Option (List ColData) := none
  deriving Repr

def aStep (cols : List Col) (a : A) : Op → A
  | .batch b =>
    match cols[b.col]? with
    | none => a
    | some c =>
      { a with cur := some (((a.cur.getD (cols.map (fun _ => {}))).modify b.col (·.append (batchData c b)))) }
  | .newRowGroup =>
    match a.cur with
    | none => a
    | some cur => { done := a.done ++ [cur], cur := none }

/-- the table a history denotes (close finishes the open row group) -/
def tableOf (cols : List Col) (ops : List Op) : List (List ColData) :=
  (aStep cols (ops.foldl (aStep cols) {}) .newRowGroup).done

end Carquet.Impl.Writer
