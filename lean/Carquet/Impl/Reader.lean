import Carquet.Impl.ThriftParquetReq
import Carquet.Impl.Schema
import Carquet.Impl.Rle
import Carquet.Impl.Plain
import Carquet.Impl.Dictionary
import Carquet.Impl.Snappy
import Carquet.Impl.Lz4
import Carquet.Impl.CodecWrappers
import Carquet.Impl.Crc32
import Carquet.Impl.ColumnReader
/-
Model of carquet's READER from bytes to decoded pages, function by function:

  src/reader/file_reader.c   read_footer (fread), read_footer_mmap, build_schema (its validation loop;
                             the traversal is Impl.Schema), carquet_reader_open,
                             carquet_reader_get_column
  src/reader/mmap_reader.c   carquet_reader_open_buffer, carquet_page_is_zero_copy_eligible
  src/reader/page_reader.c   decompress_page, bit_width_for_max, page_header_sizes_valid,
                             decode_levels_rle, carquet_read_dictionary_page,
                             carquet_read_data_page_v1, get_value_size, mmap_header_window,
                             mmap_body_in_file, file_read_at, load_dictionary_page_{fread,mmap},
                             load_next_page_{fread,mmap}, and the page advance of carquet_read_next_page

as the code is at /repo HEAD (fixes up to 28d9213/fd780af) PLUS the combined repair series
fixes/SERIES_combined.txt: the four repairs proposed by this component (F51, F12, F26, F52), each a
switch of `Fixes` so that the code before and after one of them are the same definitions
(`Fixes.all` = the combined tree), and the five repairs of the `specfile` component, modelled
unconditionally:
  F52s  a dictionary page found where `data_page_offset` points (no `dictionary_page_offset`) is
        loaded, the data pages follow it            (`inlineDictDue`, `prepStage`)
  F53   page headers have no 256-byte limit: the mapped paths parse from everything up to the end
        of the file, the fread path from a window it doubles (256 … 2^24) while the header does
        not parse and the window was filled          (`loadHeader`, `freadHeaderLoop`)
  F54   a dictionary page for a type without dictionary form (BOOLEAN, unknown) is NOT_IMPLEMENTED
                                                     (`readDictionaryPage`)
  F27   DATA_PAGE_V2 is NOT_IMPLEMENTED              (`finishDataPage`)
  F58   the level decoder stops at a bit-packed group that is cut short (`Impl.Rle.levelsLoop`)
and repair F63 (fixes/F63-….patch; component `f63`), also unconditional here:
  F63   a data page whose header says `num_values = 0` is not decoded: after the size, body and
        checksum tests both loaders return "loaded, no rows", and `carquet_read_next_page` goes on
        to the page behind it (the `while` is `Impl.ColumnReader.prepareLoop`)   (`finishDataPage`)
        The decoded page is the same before and after this repair (no levels, no values); what the
        repair changes for a caller is the column reader's loop (`ColumnReader.Fixes.f63`).
`Fixes.head` switches this component's four repairs off (the other six stay on).

A file is its bytes (`List UInt8`).  The three ways of opening are `Mode`; `fread`'s
`fseek`+`fread` is "the bytes that exist at that offset" (`fileReadAt`), the mapped paths index
the byte string after their own bounds checks.  Every read of the FILE the code makes is
reported as data (`accesses : List (offset × length)`, only non-empty reads); reads of heap
copies of a page (the dictionary `memcpy`) are reported in `heapReads : List (capacity × length)`.

Integer widths: thrift `i32`/`i64` fields arrive already reduced to their C range
(`Thrift.toI32` / `readI64`); offsets are `int64_t` (`Int` here: `data_start + current_page`
never leaves the file once a load has succeeded, see Proofs/ReaderBounds), sizes are `size_t`
products of an `int32_t ≥ 0` and a value size `≤ 2^31`, which cannot wrap.

Not modelled: allocation failure (C19), `fseek` failing for a non-negative offset, the text of
error messages.  GZIP / ZSTD are library parameters (`Libs`) with the contract of
Impl.CodecWrappers.
-/
namespace Carquet.Impl.Reader
open Carquet.Impl
open Carquet.Impl.ThriftParquet (FileMetaData RowGroup ColumnChunk ColumnMetaData SchemaElement)
open Carquet.Impl.ThriftParquetReq (PageHdr parsePageHeaderC parseFileMetaDataReq)
open Carquet.Spec.Schema (Leaf Element Info)

abbrev Bytes := List UInt8

/-- how the file was opened: `carquet_reader_open` (use_mmap false / true), `carquet_reader_open_buffer` -/
inductive Mode where
  | fread | mmap | buffer
  deriving DecidableEq, Repr

/-- page loads go through `load_next_page_mmap` (`file_reader->mmap_data != NULL`) -/
def Mode.mapped : Mode → Bool
  | .fread => false
  | _ => true

/-- one read of the file: (offset, length), length > 0 -/
abbrev Access := Nat × Nat

/-- behaviours the C code has that are outside what a status can express (ghost outcomes) -/
inductive Outside where
  | uninit      -- proceeds with uninitialised / stale buffer contents
  | ub          -- undefined behaviour (shift count, …)
  | oob         -- a read outside the region the pointer points into
  | unreachable -- an outcome of a component model that its own theorems exclude
  deriving DecidableEq, Repr

/-- `carquet_status_t` as seen by the caller (`error.code`) -/
inductive Err where
  | invalidArgument | oom | notImplemented | fileRead | fileSeek
  | invalidMagic | invalidFooter | invalidSchema | invalidMetadata | invalidPage | invalidEncoding
  | thrift (e : Thrift.Err)
  | decode | dictionaryNotFound
  | compression | decompression | unsupportedCodec | invalidCompressedData
  | columnNotFound | rowGroupNotFound | crcMismatch
  | outside (o : Outside)
  deriving DecidableEq, Repr

def Err.code : Err → Nat
  | .invalidArgument => 1 | .oom => 2 | .notImplemented => 3 | .fileRead => 12 | .fileSeek => 14
  | .invalidMagic => 20 | .invalidFooter => 21 | .invalidSchema => 22 | .invalidMetadata => 23
  | .invalidPage => 24 | .invalidEncoding => 25 | .thrift e => e.code
  | .decode => 40 | .dictionaryNotFound => 42
  | .compression => 50 | .decompression => 51 | .unsupportedCodec => 52 | .invalidCompressedData => 53
  | .columnNotFound => 61 | .rowGroupNotFound => 62 | .crcMismatch => 71
  | .outside _ => 9999

/-- which of this component's proposed repairs are applied -/
structure Fixes where
  /-- F51: the zero-copy view is taken only when `num_values * value_size` fits the page body -/
  viewBound : Bool
  /-- F12: a fixed-width dictionary page must hold `num_values * value_size` bytes -/
  dictBound : Bool
  /-- F26: fewer decoded levels / indices than requested, or a dictionary gather for a type
  that has none, is a DECODE error instead of leaving buffer contents uninitialised -/
  counts : Bool
  /-- F52: a dictionary index bit width above 32 is a DECODE error -/
  width : Bool
  deriving DecidableEq, Repr

def Fixes.all : Fixes := ⟨true, true, true, true⟩
def Fixes.head : Fixes := ⟨false, false, false, false⟩

/-- GZIP and ZSTD behind `carquet_gzip_decompress` / `carquet_zstd_decompress` -/
structure Libs where
  gzip : CodecWrappers.Lib
  zstd : CodecWrappers.Lib

def magic : Bytes := [0x50, 0x41, 0x52, 0x31]

/-- the bytes `[off, off+len)` of a byte string (fewer if it ends earlier) -/
def slice (b : Bytes) (off len : Nat) : Bytes := (b.drop off).take len

/-- a read of `len` bytes at `off`, as an access list -/
def access (off len : Nat) : List Access := if len = 0 then [] else [(off, len)]

/-- `carquet_read_u32_le` -/
def le32 (b : Bytes) : Nat := Bitpack.leNat (b.take 4)

/-! ## build_schema -/

def repOf : Option Int → Option Carquet.Spec.Schema.Rep
  | some 0 => some .required
  | some 1 => some .optional
  | some 2 => some .repeated
  | _ => none

def nameOf (n : Option Bytes) : String :=
  match n with
  | none => ""
  | some b => String.ofList (b.map (fun c => Char.ofNat c.toNat))

/-- a parsed schema element as Impl.Schema sees it -/
def toElement (s : SchemaElement) : Element :=
  ⟨⟨nameOf s.name, repOf s.repetition, s.type.map Int.toNat, s.typeLength, none, none⟩, s.numChildren⟩

/-- the test of the validation loop of `build_schema` for element `i` (153ae4b) -/
def elemBad (i : Nat) (e : SchemaElement) : Bool :=
  decide (e.numChildren < 0) || (decide (e.numChildren ≠ 0) && e.type.isSome) ||
  (decide (0 < i) && decide (e.numChildren = 0) && e.type.isNone)

/-- `build_schema`: validation loop (INVALID_SCHEMA), then the leaf arrays
(`carquet_arena_calloc(arena, 0, …)` returns NULL: a schema without a leaf is OUT_OF_MEMORY) -/
def buildSchema (els : List SchemaElement) : Except Err (List Leaf) :=
  if els.zipIdx.any (fun p => elemBad p.2 p.1) then .error .invalidSchema
  else
    match Schema.build (els.map toElement) with
    | none => .error .oom
    | some ls => .ok ls

/-! ## open -/

/-- what an open reader holds: `reader->metadata` and `reader->schema` (leaf arrays) -/
structure Opened where
  md : FileMetaData
  leaves : List Leaf
  deriving DecidableEq, Repr

def Opened.numRowGroups (o : Opened) : Nat := o.md.rowGroups.length
def Opened.numColumns (o : Opened) : Nat := o.leaves.length

/-- `parquet_parse_file_metadata` + `build_schema`: the common tail of the three open paths -/
def parseFooter (footer : Bytes) : Except Err Opened :=
  match parseFileMetaDataReq footer with
  | .error e => .error (.thrift e)
  | .ok md =>
    match buildSchema md.schema with
    | .error e => .error e
    | .ok ls => .ok ⟨md, ls⟩

/-- `footer_size`: the little-endian word 8 bytes before the end -/
def footerLen (b : Bytes) : Nat := le32 (slice b (b.length - 8) 4)

/-- the footer bytes -/
def footerBytes (b : Bytes) : Bytes := slice b (b.length - 8 - footerLen b) (footerLen b)

/-- `read_footer` (fread path): no look at the leading magic -/
def openFread (b : Bytes) : Except Err Opened × List Access :=
  if b.length < 12 then (.error .invalidFooter, [])
  else if slice b (b.length - 4) 4 ≠ magic then (.error .invalidMagic, [(b.length - 8, 8)])
  else if footerLen b > b.length - 8 then (.error .invalidFooter, [(b.length - 8, 8)])
  else (parseFooter (footerBytes b), (b.length - 8, 8) :: access (b.length - 8 - footerLen b) (footerLen b))

/-- `read_footer_mmap` and the body of `carquet_reader_open_buffer` (same checks in the same order) -/
def openMapped (b : Bytes) : Except Err Opened × List Access :=
  if b.length < 12 then (.error .invalidFooter, [])
  else if b.take 4 ≠ magic then (.error .invalidMagic, [(0, 4)])
  else if slice b (b.length - 4) 4 ≠ magic then (.error .invalidMagic, [(0, 4), (b.length - 4, 4)])
  else if footerLen b > b.length - 8 then (.error .invalidFooter, [(0, 4), (b.length - 4, 4), (b.length - 8, 4)])
  else (parseFooter (footerBytes b),
        [(0, 4), (b.length - 4, 4), (b.length - 8, 4)] ++ access (b.length - 8 - footerLen b) (footerLen b))

/-- `carquet_reader_open` / `carquet_reader_open_buffer` with the accesses made.
`mmap(NULL, 0, …)` fails, so an empty file falls through to the fread path; `open_buffer`
refuses size 0 up front. -/
def openFileA : Mode → Bytes → Except Err Opened × List Access
  | .fread, b => openFread b
  | .mmap, b => if b.length = 0 then openFread b else openMapped b
  | .buffer, b => if b.length = 0 then (.error .invalidArgument, []) else openMapped b

def openFile (mode : Mode) (b : Bytes) : Except Err Opened := (openFileA mode b).1

/-! ## carquet_reader_get_column -/

/-- the fields of `carquet_column_reader_t` fixed at creation -/
structure Col where
  cm : ColumnMetaData
  maxDef : Nat
  maxRep : Nat
  ptype : Int
  typeLength : Int
  deriving DecidableEq, Repr

/-- the last test of `carquet_reader_get_column` (a6405e3): chunk metadata against the schema -/
def chunkMismatch (m : ColumnMetaData) (el : SchemaElement) : Bool :=
  el.type.isNone || decide (some m.type ≠ el.type) ||
  (decide (el.type = some 7) && decide (el.typeLength ≤ 0)) || decide (m.numValues < 0)

/-- `carquet_reader_get_column(reader, row_group_index, column_index, &error)` (indices are `int32_t`) -/
def getColumn (o : Opened) (rg col : Int) : Except Err Col :=
  if rg < 0 ∨ rg ≥ o.md.rowGroups.length then .error .rowGroupNotFound
  else if col < 0 ∨ col ≥ o.leaves.length then .error .columnNotFound
  else
    match o.md.rowGroups[rg.toNat]?, o.leaves[col.toNat]? with
    | some g, some lf =>
      if col ≥ g.columns.length then .error .columnNotFound
      else
        match g.columns[col.toNat]? with
        | none => .error (.outside .unreachable)
        | some ch =>
          match ch.metaData with
          | none => .error .notImplemented
          | some m =>
            match o.md.schema[lf.elemIdx]? with
            | none => .error (.outside .oob)
            | some el =>
              if chunkMismatch m el then .error .invalidMetadata
              else .ok ⟨m, lf.maxDef, lf.maxRep, m.type, el.typeLength⟩
    | _, _ => .error (.outside .unreachable)

/-! ## pieces of page_reader.c -/

/-- `get_value_size(type, type_length)` (`sizeof(carquet_byte_array_t)` = 16) -/
def valueSize (ptype typeLength : Int) : Nat :=
  if ptype = 0 then 1
  else if ptype = 1 ∨ ptype = 4 then 4
  else if ptype = 2 ∨ ptype = 5 then 8
  else if ptype = 3 then 12
  else if ptype = 7 then typeLength.toNat
  else if ptype = 6 then 16
  else 0

/-- the fixed-width types of `carquet_page_is_zero_copy_eligible` -/
def fixedWidth (ptype : Int) : Bool :=
  decide (ptype = 1 ∨ ptype = 2 ∨ ptype = 4 ∨ ptype = 5 ∨ ptype = 3 ∨ ptype = 7)

/-- `carquet_page_is_zero_copy_eligible(codec, encoding, type)` on the little-endian host -/
def zeroCopyEligible (codec encoding ptype : Int) : Bool :=
  decide (codec = 0) && decide (encoding = 0) && fixedWidth ptype

/-- `bit_width_for_max` -/
def bitWidthForMax (m : Nat) : Nat := if m = 0 then 0 else Nat.log2 m + 1

def mapSnappy : Except Snappy.Err Bytes → Except Err Bytes
  | .ok x => .ok x
  | .error .invalidArgument => .error .invalidArgument
  | .error .compression => .error .compression
  | .error .invalidData => .error .invalidCompressedData
  | .error _ => .error (.outside .unreachable)

def mapLz4 : Except Lz4.Err Bytes → Except Err Bytes
  | .ok x => .ok x
  | .error .invalidArgument => .error .invalidArgument
  | .error .compression => .error .compression
  | .error .invalidData => .error .invalidCompressedData
  | .error _ => .error (.outside .unreachable)

def mapWrap : Except CodecWrappers.Err Bytes → Except Err Bytes
  | .ok x => .ok x
  | .error .invalidArgument => .error .invalidArgument
  | .error .compression => .error .compression
  | .error .invalidData => .error .invalidCompressedData

/-- `decompress_page(codec, compressed, compressed_size, dst, dst_capacity, &size)`: the bytes
`dst[0, size)` -/
def decompressPage (L : Libs) (codec : Int) (src : Bytes) (cap : Nat) : Except Err Bytes :=
  if codec = 0 then (if src.length > cap then .error .decompression else .ok src)
  else if codec = 1 then mapSnappy (Snappy.decompress src cap)
  else if codec = 5 ∨ codec = 7 then mapLz4 (Lz4.decompress src cap)
  else if codec = 2 then mapWrap (CodecWrappers.gzipDecompress L.gzip src cap)
  else if codec = 6 then mapWrap (CodecWrappers.zstdDecompress L.zstd src cap)
  else .error .unsupportedCodec

/-- what follows the CRC test in all four loaders: `page_data` / `page_size` -/
def pageData (L : Libs) (codec : Int) (body : Bytes) (uncompressed : Nat) : Except Err Bytes :=
  if codec = 0 then .ok body else decompressPage L codec body uncompressed

/-- `page_header.has_crc && options.verify_checksums` and `computed_crc != (uint32_t)page_header.crc` -/
def crcBad (verify : Bool) (crc : Option Int) (body : Bytes) : Bool :=
  match crc with
  | none => false
  | some c => verify && decide ((Crc32.crc32 body).toNat ≠ (c % 4294967296).toNat)

/-! ### the two ways of getting at the bytes -/

/-- `file_read_at(file, offset, buf, size)`: `none` = the seek failed (negative offset);
otherwise the bytes read (fewer than `size` at the end of the file) -/
def fileReadAt (b : Bytes) (off : Int) (size : Nat) : Option Bytes :=
  if off < 0 then none else some (slice b off.toNat size)

/-- The stored page body `[off + header_size, + compressed_size)`.
fread: second `file_read_at`, short read = FILE_READ.  mapped: `mmap_body_in_file`. -/
def bodyBytes (mode : Mode) (b : Bytes) (off hsize comp : Nat) : Except Err Bytes × List Access :=
  if mode.mapped then
    if hsize ≤ b.length - off ∧ comp ≤ b.length - off - hsize then (.ok (slice b (off + hsize) comp), access (off + hsize) comp)
    else (.error .invalidPage, [])
  else
    if (slice b (off + hsize) comp).length ≠ comp then (.error .fileRead, access (off + hsize) (slice b (off + hsize) comp).length)
    else (.ok (slice b (off + hsize) comp), access (off + hsize) comp)

/-! ### carquet_read_dictionary_page -/

/-- the dictionary a column reader holds once `has_dictionary` is set -/
structure Dict where
  data : Bytes            -- dictionary_data[0, dictionary_size)
  count : Int             -- dictionary_count
  offsets : List Nat      -- dictionary_offsets (BYTE_ARRAY only)
  deriving DecidableEq, Repr

/-- the scan that builds `dictionary_offsets`: `n` entries left, `pos` = `dict_ptr - page_data` -/
def dictScan (data : Bytes) : Nat → Nat → Option (List Nat)
  | 0, _ => some []
  | n + 1, pos =>
    if data.length - pos < 4 then none
    else if data.length - pos < 4 + le32 (data.drop pos) then none
    else (dictScan data n (pos + 4 + le32 (data.drop pos))).map (pos :: ·)

/-- the dictionary value size of `carquet_read_dictionary_page` (BOOLEAN and unknown types: 0) -/
def dictValueSize (ptype typeLength : Int) : Nat :=
  if ptype = 1 ∨ ptype = 4 then 4
  else if ptype = 2 ∨ ptype = 5 then 8
  else if ptype = 3 then 12
  else if ptype = 7 then typeLength.toNat
  else 0

/-- `carquet_read_dictionary_page(reader, page_data, page_size, header)`: the dictionary, and the
length of the `memcpy` from `page_data` (0 for BYTE_ARRAY, whose copy is `page_size` long) -/
def readDictionaryPage (fx : Fixes) (c : Col) (pd : Bytes) (numValues : Int) : Except Err Dict × Nat :=
  if c.ptype = 6 then
    match dictScan pd numValues.toNat 0 with
    | none => (.error .decode, 0)
    | some offs => (.ok ⟨pd, numValues, offs⟩, 0)
  else if ¬ fixedWidth c.ptype then (.error .notImplemented, 0)      -- F54: `default:` of the value-size switch
  else if dictValueSize c.ptype c.typeLength * numValues.toNat > pd.length then
    (if fx.dictBound then (.error .decode, 0)
     else (.error (.outside .oob), dictValueSize c.ptype c.typeLength * numValues.toNat))
  else (.ok ⟨pd.take (dictValueSize c.ptype c.typeLength * numValues.toNat), numValues, []⟩,
        dictValueSize c.ptype c.typeLength * numValues.toNat)

/-! ### carquet_read_data_page_v1 -/

/-! Levels: `carquet_rle_decode_levels` is `Impl.Rle.decodeLevels`, the function after repair F58 (a
bit-packed group that is cut short ends the decoding). -/

/-- One length-prefixed level block (`max_level > 0`): the levels and the bytes after the block.
`remaining < 4` or `size > remaining` is DECODE; fewer than `n` decoded levels leave the rest of
the `malloc`ed level buffer as it was (F26). -/
def levelBlock (fx : Fixes) (maxLevel n : Nat) (data : Bytes) : Except Err (List Nat × Bytes) :=
  if data.length < 4 then .error .decode
  else if le32 data > data.length - 4 then .error .decode
  else if (Rle.decodeLevels (bitWidthForMax maxLevel) ((data.drop 4).take (le32 data)) n).length ≠ n then
    (if fx.counts then .error .decode else .error (.outside .uninit))
  else .ok ((Rle.decodeLevels (bitWidthForMax maxLevel) ((data.drop 4).take (le32 data)) n).map Int.toNat,
            data.drop (4 + le32 data))

def repLevels (fx : Fixes) (c : Col) (n : Nat) (data : Bytes) : Except Err (List Nat × Bytes) :=
  if c.maxRep > 0 then levelBlock fx c.maxRep n data else .ok (List.replicate n 0, data)

def defLevels (fx : Fixes) (c : Col) (n : Nat) (data : Bytes) : Except Err (List Nat × Bytes) :=
  if c.maxDef > 0 then levelBlock fx c.maxDef n data else .ok (List.replicate n c.maxDef, data)

/-- `non_null_count` -/
def nonNullCount (c : Col) (defs : List Nat) : Nat :=
  if c.maxDef > 0 then defs.countP (· == c.maxDef) else defs.length

/-- cut a flat buffer into values of `k` bytes -/
def chunks (k : Nat) : Nat → Bytes → List Bytes
  | 0, _ => []
  | n + 1, b => b.take k :: chunks k n (b.drop k)

def plainRes {α : Type} (f : α → List Bytes) : Plain.Res α → Except Err (List Bytes)
  | .ok v _ => .ok (f v)
  | .err => .error .decode
  | .oob => .error (.outside .unreachable)

/-- `carquet_decode_plain(ptr, remaining, type, type_length, values, count)`: the decoded values,
each as the bytes it occupies in the caller's array (BYTE_ARRAY: the bytes its pointer/length
pair designates) -/
def plainValues (ptype typeLength : Int) (input : Bytes) (count : Nat) : Except Err (List Bytes) :=
  if ptype = 0 then plainRes (fun v => v.map (fun x => [x])) (Plain.decodeBoolean input count)
  else if ptype = 1 then plainRes (fun v => v.map Plain.memU32) (Plain.decodeInt32 input count)
  else if ptype = 2 then plainRes (fun v => v.map Plain.memU64) (Plain.decodeInt64 input count)
  else if ptype = 3 then
    plainRes (fun v => v.map (fun w => Plain.memU32 w.1 ++ Plain.memU32 w.2.1 ++ Plain.memU32 w.2.2))
      (Plain.decodeInt96 input count)
  else if ptype = 4 then plainRes (fun v => v.map Plain.memU32) (Plain.decodeFloat input count)
  else if ptype = 5 then plainRes (fun v => v.map Plain.memU64) (Plain.decodeDouble input count)
  else if ptype = 6 then plainRes (fun v => v.map (Plain.slice input)) (Plain.decodeByteArray input count)
  else if ptype = 7 then plainRes (fun v => chunks typeLength.toNat count v) (Plain.decodeFlba input count typeLength)
  else .error .decode

/-- the BYTE_ARRAY look-up loop: `(int32_t)indices[i] < 0 || >= dictionary_count` is DECODE -/
def gatherBytes (d : Dict) : List Nat → Except Err (List Bytes)
  | [] => .ok []
  | i :: is =>
    if Dictionary.asInt32 i < 0 ∨ Dictionary.asInt32 i ≥ d.count then .error .decode
    else
      match d.offsets[i]? with
      | none => .error (.outside .oob)
      | some off =>
        match gatherBytes d is with
        | .error e => .error e
        | .ok vs => .ok (slice d.data (off + 4) (le32 (d.data.drop off)) :: vs)

/-- the fixed-width gather after the index validation loop -/
def gatherFixed (k : Nat) (d : Dict) (idx : List Nat) : Except Err (List Bytes) :=
  if idx.any (fun i => decide ((i : Int) ≥ (d.count % 4294967296))) then .error .decode
  else .ok (idx.map (fun i => slice d.data (i * k) k))

/-- the dictionary branch of `carquet_read_data_page_v1` (encodings 2 and 8) -/
def dictValues (fx : Fixes) (c : Col) (dict : Option Dict) (input : Bytes) (count : Nat) : Except Err (List Bytes) :=
  match dict with
  | none => .error .dictionaryNotFound
  | some d =>
    match input with
    | [] => .error .decode
    | bw :: stream =>
      if bw.toNat > 32 then (if fx.width then .error .decode else .error (.outside .ub))
      else if (Rle.decodeAll bw.toNat stream count).length ≠ count then
        (if fx.counts then .error .decode else .error (.outside .uninit))
      else if c.ptype = 6 then gatherBytes d (Rle.decodeAll bw.toNat stream count)
      else if dictValueSize c.ptype c.typeLength = 0 ∨ ¬ fixedWidth c.ptype then
        -- `default: break;` of the gather switch: nothing is stored
        (if (Rle.decodeAll bw.toNat stream count).any (fun i => decide ((i : Int) ≥ (d.count % 4294967296))) then .error .decode
         else if count = 0 then .ok []
         else if fx.counts then .error .decode else .error (.outside .uninit))
      else gatherFixed (dictValueSize c.ptype c.typeLength) d (Rle.decodeAll bw.toNat stream count)

/-- a decoded data page: `decoded_def_levels`, `decoded_rep_levels`, `decoded_values` (dense) -/
structure Decoded where
  defs : List Nat
  reps : List Nat
  vals : List Bytes
  deriving DecidableEq, Repr

/-- the value part of `carquet_read_data_page_v1`: `switch (header->encoding)` -/
def decodeValues (fx : Fixes) (c : Col) (dict : Option Dict) (encoding : Int) (input : Bytes) (count : Nat) :
    Except Err (List Bytes) :=
  if encoding = 0 then plainValues c.ptype c.typeLength input count
  else if encoding = 8 ∨ encoding = 2 then dictValues fx c dict input count
  else .error .invalidEncoding

/-- `carquet_read_data_page_v1(reader, page_data, page_size, header, values, num_values, def, rep, …)` -/
def readDataPageV1 (fx : Fixes) (c : Col) (dict : Option Dict) (pd : Bytes) (numValues : Nat) (encoding : Int) :
    Except Err Decoded :=
  match repLevels fx c numValues pd with
  | .error e => .error e
  | .ok (reps, r1) =>
    match defLevels fx c numValues r1 with
    | .error e => .error e
    | .ok (defs, r2) =>
      match decodeValues fx c dict encoding r2 (nonNullCount c defs) with
      | .error e => .error e
      | .ok vals => .ok ⟨defs, reps, vals⟩

/-! ## the page loaders -/

/-- the part of `carquet_column_reader_t` that page loading reads and writes -/
structure PState where
  valuesRemaining : Int
  dataStart : Int          -- data_start_offset
  currentPage : Int        -- current_page (byte offset relative to data_start_offset)
  dict : Option Dict       -- has_dictionary + the dictionary
  deriving DecidableEq, Repr

/-- the end of `carquet_reader_get_column` -/
def PState.init (c : Col) : PState := ⟨c.cm.numValues, c.cm.dataPageOffset, 0, none⟩

/-- what one loader call did -/
structure Load (α : Type) where
  result : Except Err α
  accesses : List Access := []
  heapReads : List (Nat × Nat) := []

/-- run `k` on a successful first stage, concatenating the reports -/
def Load.andThen {α β : Type} (l : Load α) (k : α → Load β) : Load β :=
  match l.result with
  | .error e => ⟨.error e, l.accesses, l.heapReads⟩
  | .ok a => ⟨(k a).result, l.accesses ++ (k a).accesses, l.heapReads ++ (k a).heapReads⟩

def Load.ofPair {α : Type} (p : Except Err α × List Access) : Load α := ⟨p.1, p.2, []⟩
def Load.pure {α : Type} (r : Except Err α) : Load α := ⟨r, [], []⟩

/-- `parquet_parse_page_header` on a window, as a `Load` result -/
def parseWindow (w : Bytes) : Except Err (PageHdr × Nat) :=
  match parsePageHeaderC w with
  | .error e => .error (.thrift e)
  | .ok r => .ok r

/-- `CARQUET_PAGE_HEADER_WINDOW_MAX` -/
def headerWindowMax : Nat := 16777216

/-- `read_page_header_fread` (F53): `file_read_at(offset, window)`, at least 8 bytes wanted; parse;
when the header does not parse and the window was filled completely and is below the maximum, try
again with twice the window.  Windows are 256·2^k ≤ 2^24, so 18 rounds of fuel are never used up. -/
def freadHeaderLoop (b : Bytes) (off : Nat) : Nat → Nat → Load (PageHdr × Nat)
  | 0, _ => ⟨.error (.outside .unreachable), [], []⟩
  | fuel + 1, window =>
    if (slice b off window).length < 8 then ⟨.error .fileRead, access off (slice b off window).length, []⟩
    else
      match parsePageHeaderC (slice b off window) with
      | .ok r => ⟨.ok r, access off (slice b off window).length, []⟩
      | .error e =>
        if (slice b off window).length < window ∨ window ≥ headerWindowMax then
          ⟨.error (.thrift e), access off (slice b off window).length, []⟩
        else
          ⟨(freadHeaderLoop b off fuel (2 * window)).result,
           access off (slice b off window).length ++ (freadHeaderLoop b off fuel (2 * window)).accesses, []⟩

/-- Reading and parsing a page header at `off`: the header and `header_size`.
mapped (`mmap_header_window` after F53): the offset must lie inside the file with at least 8 bytes
behind it (INVALID_PAGE); the parser is given everything up to the end of the file.
fread: a negative offset fails the seek (FILE_SEEK); then `read_page_header_fread`. -/
def loadHeader (mode : Mode) (b : Bytes) (off : Int) : Load (PageHdr × Nat) :=
  if mode.mapped then
    if off < 0 ∨ off ≥ b.length then Load.pure (.error .invalidPage)
    else if b.length - off.toNat < 8 then Load.pure (.error .invalidPage)
    else ⟨parseWindow (slice b off.toNat (b.length - off.toNat)), [(off.toNat, b.length - off.toNat)], []⟩
  else
    if off < 0 then Load.pure (.error .fileSeek)
    else freadHeaderLoop b off.toNat 18 256

/-- `page_header_sizes_valid` (b7b5f76) -/
def sizesValid (h : PageHdr) : Bool := decide (0 ≤ h.compressed) && decide (0 ≤ h.uncompressed)

/-- a loaded dictionary and the new `data_start_offset` -/
structure DictLoaded where
  dict : Dict
  dataStart : Int

/-- the dictionary `memcpy` reads `page_data`: inside the mapped file when the page is stored
uncompressed in a mapped file, otherwise a heap buffer of `page_size` bytes -/
def dictCopyReport (mode : Mode) (codec : Int) (bodyOff pageSize copyLen : Nat) : List Access × List (Nat × Nat) :=
  if copyLen = 0 then ([], [])
  else if mode.mapped ∧ codec = 0 then ([(bodyOff, copyLen)], [])
  else ([], [(pageSize, copyLen)])

/-- `load_dictionary_page_fread` / `load_dictionary_page_mmap` -/
def loadDictionary (fx : Fixes) (L : Libs) (verify : Bool) (mode : Mode) (b : Bytes) (c : Col) (off : Int) :
    Load DictLoaded :=
  (loadHeader mode b off).andThen (fun hr =>
    if hr.1.type ≠ 2 then Load.pure (.error .invalidPage)
    else if !sizesValid hr.1 || decide (hr.1.word0 < 0) then Load.pure (.error .invalidPage)
    else
      (Load.ofPair (bodyBytes mode b off.toNat hr.2 hr.1.compressed.toNat)).andThen (fun body =>
        if crcBad verify hr.1.crc body then Load.pure (.error .crcMismatch)
        else
          match pageData L c.cm.codec body hr.1.uncompressed.toNat with
          | .error e => Load.pure (.error e)
          | .ok pd =>
            ⟨match (readDictionaryPage fx c pd hr.1.word0).1 with
              | .error e => .error e
              | .ok d => .ok ⟨d, off + hr.2 + hr.1.compressed⟩,
             (dictCopyReport mode c.cm.codec (off.toNat + hr.2) pd.length (readDictionaryPage fx c pd hr.1.word0).2).1,
             (dictCopyReport mode c.cm.codec (off.toNat + hr.2) pd.length (readDictionaryPage fx c pd hr.1.word0).2).2⟩))

/-- a loaded data page with what `carquet_read_next_page` needs to step over it -/
structure PageLoaded where
  page : Decoded
  headerSize : Nat
  compressedSize : Nat
  view : Bool              -- decoded_ownership == CARQUET_DATA_VIEW (zero-copy branch taken)
  deriving DecidableEq, Repr

/-- the zero-copy branch of `load_next_page_mmap` is taken -/
def takesView (fx : Fixes) (mode : Mode) (c : Col) (h : PageHdr) : Bool :=
  mode.mapped && zeroCopyEligible c.cm.codec h.word4 c.ptype && !(decide (c.maxDef > 0) || decide (c.maxRep > 0)) &&
  (!fx.viewBound || decide (h.word0.toNat * valueSize c.ptype c.typeLength ≤ h.compressed.toNat))

/-- The zero-copy branch: `decoded_values` points at the page body in the mapped file; the
`num_values * value_size` bytes behind it are what later copies read. -/
def viewPage (b : Bytes) (c : Col) (bodyOff : Nat) (numValues : Nat) : Load Decoded :=
  ⟨if (slice b bodyOff (numValues * valueSize c.ptype c.typeLength)).length ≠ numValues * valueSize c.ptype c.typeLength
     then .error (.outside .oob)
     else .ok ⟨List.replicate numValues 0, List.replicate numValues 0,
               chunks (valueSize c.ptype c.typeLength) numValues (slice b bodyOff (numValues * valueSize c.ptype c.typeLength))⟩,
   access bodyOff (numValues * valueSize c.ptype c.typeLength), []⟩

/-- F52s: the page found at `data_start_offset` is a dictionary page, no dictionary has been
loaded and no page has been stepped over -/
def inlineDictDue (st : PState) (h : PageHdr) : Bool :=
  decide (h.type = 2) && st.dict.isNone && decide (st.currentPage = 0)

/-- The part of `load_next_page_*` between the explicit dictionary step and the page-type test:
read the header at `data_start_offset + current_page`; if a dictionary page is due there, load it
and read the header at the new `data_start_offset`.  Returns the state the data page is then
decoded in, and the data page's header. -/
def prepStage (fx : Fixes) (L : Libs) (verify : Bool) (mode : Mode) (b : Bytes) (c : Col) (st : PState) :
    Load (PState × (PageHdr × Nat)) :=
  (loadHeader mode b (st.dataStart + st.currentPage)).andThen (fun hr =>
    if inlineDictDue st hr.1 then
      (loadDictionary fx L verify mode b c (st.dataStart + st.currentPage)).andThen (fun dl =>
        (loadHeader mode b dl.dataStart).andThen (fun hr2 =>
          Load.pure (.ok ({ st with dict := some dl.dict, dataStart := dl.dataStart }, hr2))))
    else Load.pure (.ok (st, hr)))

/-- the state `prepStage` leaves behind whatever happens after it (an inline dictionary stays loaded) -/
def stateAfterPrep (fx : Fixes) (L : Libs) (verify : Bool) (mode : Mode) (b : Bytes) (c : Col) (st : PState) : PState :=
  match (loadHeader mode b (st.dataStart + st.currentPage)).result with
  | .error _ => st
  | .ok hr =>
    if inlineDictDue st hr.1 then
      match (loadDictionary fx L verify mode b c (st.dataStart + st.currentPage)).result with
      | .error _ => st
      | .ok dl => { st with dict := some dl.dict, dataStart := dl.dataStart }
    else st

/-- The rest of `load_next_page_*` once the data page's header `hr` has been found in state `st`:
page-type tests (F27), size and count tests, body, checksum, the return for a page without values
(F63: nothing is decompressed or decoded, the decoded buffers and the ownership flag keep what they
hold — `view` is reported `false`), zero-copy view or decompression and `carquet_read_data_page_v1`. -/
def finishDataPage (fx : Fixes) (L : Libs) (verify : Bool) (mode : Mode) (b : Bytes) (c : Col) (st : PState)
    (hr : PageHdr × Nat) : Load PageLoaded :=
  if hr.1.type = 3 then Load.pure (.error .notImplemented)
  else if hr.1.type ≠ 0 then Load.pure (.error .invalidPage)
  else if !sizesValid hr.1 || decide (hr.1.word0 < 0) || decide (hr.1.word0 > st.valuesRemaining) then
    Load.pure (.error .invalidPage)
  else
    (Load.ofPair (bodyBytes mode b (st.dataStart + st.currentPage).toNat hr.2 hr.1.compressed.toNat)).andThen (fun body =>
      if crcBad verify hr.1.crc body then Load.pure (.error .crcMismatch)
      else if hr.1.word0 = 0 then Load.pure (.ok ⟨⟨[], [], []⟩, hr.2, hr.1.compressed.toNat, false⟩)
      else if takesView fx mode c hr.1 then
        (viewPage b c ((st.dataStart + st.currentPage).toNat + hr.2) hr.1.word0.toNat).andThen (fun d =>
          Load.pure (.ok ⟨d, hr.2, hr.1.compressed.toNat, true⟩))
      else
        match pageData L c.cm.codec body hr.1.uncompressed.toNat with
        | .error e => Load.pure (.error e)
        | .ok pd =>
          match readDataPageV1 fx c st.dict pd hr.1.word0.toNat hr.1.word4 with
          | .error e => Load.pure (.error e)
          | .ok d => Load.pure (.ok ⟨d, hr.2, hr.1.compressed.toNat, false⟩))

/-- `load_next_page_fread` / `load_next_page_mmap` after the explicit dictionary step -/
def loadDataPage (fx : Fixes) (L : Libs) (verify : Bool) (mode : Mode) (b : Bytes) (c : Col) (st : PState) :
    Load PageLoaded :=
  (prepStage fx L verify mode b c st).andThen (fun sh => finishDataPage fx L verify mode b c sh.1 sh.2)

/-- `col_meta->has_dictionary_page_offset && !reader->has_dictionary` -/
def needsDictionary (c : Col) (st : PState) : Bool :=
  c.cm.dictionaryPageOffset.isSome && st.dict.isNone

/-- the dictionary step of `load_next_page_*`: the state the data page is then loaded in -/
def dictStep (fx : Fixes) (L : Libs) (verify : Bool) (mode : Mode) (b : Bytes) (c : Col) (st : PState) : Load PState :=
  match c.cm.dictionaryPageOffset with
  | none => Load.pure (.ok st)
  | some doff =>
    if st.dict.isSome then Load.pure (.ok st)
    else (loadDictionary fx L verify mode b c doff).andThen (fun dl =>
      Load.pure (.ok { st with dict := some dl.dict, dataStart := dl.dataStart }))

/-- the state `load_next_page` leaves behind (the dictionary and `data_start_offset` stay when
only the data page fails) -/
def stateAfterDict (fx : Fixes) (L : Libs) (verify : Bool) (mode : Mode) (b : Bytes) (c : Col) (st : PState) : PState :=
  match (dictStep fx L verify mode b c st).result with
  | .ok st' => st'
  | .error _ => st

/-- `load_next_page(reader)`: dictionary if needed, then the data page -/
def loadPage (fx : Fixes) (L : Libs) (verify : Bool) (mode : Mode) (b : Bytes) (c : Col) (st : PState) : Load PageLoaded :=
  (dictStep fx L verify mode b c st).andThen (fun st' => loadDataPage fx L verify mode b c st')

/-- the state `load_next_page` leaves behind, whether it succeeds or not: dictionaries that were
loaded and the `data_start_offset` they set stay -/
def stateAfterLoad (fx : Fixes) (L : Libs) (verify : Bool) (mode : Mode) (b : Bytes) (c : Col) (st : PState) : PState :=
  match (dictStep fx L verify mode b c st).result with
  | .error _ => st
  | .ok st' => stateAfterPrep fx L verify mode b c st'

/-- `carquet_read_next_page` stepping over a page it has consumed completely:
`current_page += page_header_size + page_compressed_size`, `values_remaining -= rows` -/
def stepOver (st : PState) (p : PageLoaded) : PState :=
  { st with currentPage := st.currentPage + p.headerSize + p.compressedSize,
            valuesRemaining := st.valuesRemaining - p.page.defs.length }

/-! ## page iteration over a chunk, and reading through Impl.ColumnReader -/

/-- The pages of a chunk in the order the column reader meets them: each successfully loaded
page, then `none` where a load fails.  No page is loaded once `values_remaining ≤ 0`.  Every
successful load moves the offset forward by at least one byte, so `|file| + 1` fuel is enough
(Proofs/ReaderSteps); running out of fuel is reported as a failing load. -/
def chunkPages (fx : Fixes) (L : Libs) (verify : Bool) (mode : Mode) (b : Bytes) (c : Col) :
    Nat → PState → List (Option (ColumnReader.Page Bytes))
  | 0, _ => [none]
  | fuel + 1, st =>
    if st.valuesRemaining ≤ 0 then []
    else
      match (loadPage fx L verify mode b c st).result with
      | .error _ => [none]
      | .ok p =>
        some ⟨p.page.defs, p.page.reps, p.page.vals⟩ ::
          chunkPages fx L verify mode b c fuel (stepOver (stateAfterLoad fx L verify mode b c st) p)

/-- all file accesses of the page iteration -/
def chunkAccesses (fx : Fixes) (L : Libs) (verify : Bool) (mode : Mode) (b : Bytes) (c : Col) :
    Nat → PState → List Access
  | 0, _ => []
  | fuel + 1, st =>
    if st.valuesRemaining ≤ 0 then []
    else
      match (loadPage fx L verify mode b c st).result with
      | .error _ => (loadPage fx L verify mode b c st).accesses
      | .ok p =>
        (loadPage fx L verify mode b c st).accesses ++
          chunkAccesses fx L verify mode b c fuel (stepOver (stateAfterLoad fx L verify mode b c st) p)

/-- the chunk as Impl.ColumnReader consumes it.  `view` / `retains` are the ownership ghosts of
that model (zero-copy branch; BYTE_ARRAY PLAIN page data kept alive). -/
def chunkOf (fx : Fixes) (L : Libs) (verify : Bool) (mode : Mode) (b : Bytes) (c : Col) : ColumnReader.Chunk Bytes :=
  { pages := chunkPages fx L verify mode b c (b.length + 1) (PState.init c),
    numValues := c.cm.numValues, maxDef := c.maxDef,
    view := mode.mapped && zeroCopyEligible c.cm.codec 0 c.ptype && !(decide (c.maxDef > 0) || decide (c.maxRep > 0)),
    retains := decide (c.ptype = 6) && (!mode.mapped || decide (c.cm.codec ≠ 0)) }

/-- one column chunk read with a single `carquet_column_read_batch(cr, values, n, def_levels?, NULL)`
of `n = carquet_column_remaining(cr)` rows, as harness/ops_file.c does -/
def readChunk (fx : Fixes) (L : Libs) (verify : Bool) (mode : Mode) (b : Bytes) (o : Opened) (rg col : Int) (wantDefs : Bool) :
    Except Err (ColumnReader.ReadResult Bytes) :=
  match getColumn o rg col with
  | .error e => .error e
  | .ok c =>
    .ok (ColumnReader.readBatch ColumnReader.Fixes.all
          (ColumnReader.getColumn (chunkOf fx L verify mode b c)) c.cm.numValues wantDefs false).2

/-- the same call with a rep_levels array as well (`wantReps`): what harness/ops_file.c does for a
REPEATED column -/
def readChunkR (fx : Fixes) (L : Libs) (verify : Bool) (mode : Mode) (b : Bytes) (o : Opened) (rg col : Int)
    (wantDefs wantReps : Bool) : Except Err (ColumnReader.ReadResult Bytes) :=
  match getColumn o rg col with
  | .error e => .error e
  | .ok c =>
    .ok (ColumnReader.readBatch ColumnReader.Fixes.all
          (ColumnReader.getColumn (chunkOf fx L verify mode b c)) c.cm.numValues wantDefs wantReps).2

/-- a column chunk of a table: per row its definition level, and the non-null values -/
structure ColumnData where
  defs : List Nat
  vals : List Bytes
  deriving DecidableEq, Repr

structure Table where
  numRows : Int
  rowGroups : List (List ColumnData)
  deriving DecidableEq, Repr

def columnData (maxDef : Nat) (r : ColumnReader.ReadResult Bytes) (numValues : Int) : Option ColumnData :=
  if r.count ≠ numValues then none
  else
    match (r.rowDefs.take numValues.toNat).mapM id,
          (r.vals.take ((r.rowDefs.take numValues.toNat).countP (· == some maxDef))).mapM id with
    | some ds, some vs => some ⟨ds, vs⟩
    | _, _ => none

/-- every chunk of one row group (columns `0 … n-1`) -/
def readRowGroup (fx : Fixes) (L : Libs) (verify : Bool) (mode : Mode) (b : Bytes) (o : Opened) (rg : Nat) :
    Nat → Except Err (List ColumnData)
  | 0 => .ok []
  | n + 1 =>
    match readRowGroup fx L verify mode b o rg n with
    | .error e => .error e
    | .ok cs =>
      match getColumn o rg n with
      | .error e => .error e
      | .ok c =>
        match columnData c.maxDef (ColumnReader.readBatch ColumnReader.Fixes.all
                (ColumnReader.getColumn (chunkOf fx L verify mode b c)) c.cm.numValues true false).2 c.cm.numValues with
        | none => .error .decode
        | some cd => .ok (cs ++ [cd])

def readRowGroups (fx : Fixes) (L : Libs) (verify : Bool) (mode : Mode) (b : Bytes) (o : Opened) :
    Nat → Except Err (List (List ColumnData))
  | 0 => .ok []
  | n + 1 =>
    match readRowGroups fx L verify mode b o n with
    | .error e => .error e
    | .ok gs =>
      match readRowGroup fx L verify mode b o n o.numColumns with
      | .error e => .error e
      | .ok g => .ok (gs ++ [g])

/-- open the file and read every column chunk of every row group completely -/
def readAll (fx : Fixes) (L : Libs) (verify : Bool) (mode : Mode) (b : Bytes) : Except Err Table :=
  match openFile mode b with
  | .error e => .error e
  | .ok o =>
    match readRowGroups fx L verify mode b o o.numRowGroups with
    | .error e => .error e
    | .ok gs => .ok ⟨o.md.numRows, gs⟩

/-! ## the modelled API as a state machine (for "all call sequences")

`carquet_reader_open*`, then any sequence of `carquet_reader_get_column` and of page loads on the
column readers created so far.  A page load is the "load a new page" branch of
`carquet_read_next_page`: step over the page that is loaded (if one is), then `load_next_page`.
(How many rows a caller takes from a loaded page before it asks for the next one is
Impl.ColumnReader's subject and makes no file access.) -/

/-- a column reader between page loads: its state and the page it has loaded, if any -/
structure Cursor where
  st : PState
  loaded : Option PageLoaded
  deriving DecidableEq, Repr

/-- the state `load_next_page` starts from: `current_page += header + body` of the loaded page -/
def Cursor.pre (k : Cursor) : PState :=
  match k.loaded with
  | some p => stepOver k.st p
  | none => k.st

def Cursor.init (c : Col) : Cursor := ⟨PState.init c, none⟩

def okPage (r : Except Err PageLoaded) : Option PageLoaded :=
  match r with
  | .ok p => some p
  | .error _ => none

/-- the cursor after the "load a new page" branch -/
def nextCursor (fx : Fixes) (L : Libs) (verify : Bool) (mode : Mode) (b : Bytes) (c : Col) (k : Cursor) : Cursor :=
  ⟨stateAfterLoad fx L verify mode b c k.pre, okPage (loadPage fx L verify mode b c k.pre).result⟩

/-- the file offset the data page header is looked for at -/
def pageOffset (fx : Fixes) (L : Libs) (verify : Bool) (mode : Mode) (b : Bytes) (c : Col) (k : Cursor) : Int :=
  (stateAfterLoad fx L verify mode b c k.pre).dataStart + k.pre.currentPage

/-- the offsets of the successful page loads among `n` consecutive load attempts on one column reader -/
def okOffsets (fx : Fixes) (L : Libs) (verify : Bool) (mode : Mode) (b : Bytes) (c : Col) : Nat → Cursor → List Int
  | 0, _ => []
  | n + 1, k =>
    match (loadPage fx L verify mode b c k.pre).result with
    | .ok _ => pageOffset fx L verify mode b c k :: okOffsets fx L verify mode b c n (nextCursor fx L verify mode b c k)
    | .error _ => okOffsets fx L verify mode b c n (nextCursor fx L verify mode b c k)

inductive Call where
  | getColumn (rg col : Int)    -- on success creates column reader number `readers.length`
  | next (i : Nat)              -- page load on column reader `i`
  deriving DecidableEq, Repr

structure Session where
  readers : List (Col × Cursor) := []
  accesses : List Access := []
  heapReads : List (Nat × Nat) := []
  statuses : List (Option Err) := []     -- result of every call, `none` = CARQUET_OK

def Session.call (fx : Fixes) (L : Libs) (verify : Bool) (mode : Mode) (b : Bytes) (o : Opened) (s : Session) : Call → Session
  | .getColumn rg col =>
    match getColumn o rg col with
    | .error e => { s with statuses := s.statuses ++ [some e] }
    | .ok c => { s with readers := s.readers ++ [(c, Cursor.init c)], statuses := s.statuses ++ [none] }
  | .next i =>
    match s.readers[i]? with
    | none => s
    | some r =>
      { readers := s.readers.set i (r.1, nextCursor fx L verify mode b r.1 r.2),
        accesses := s.accesses ++ (loadPage fx L verify mode b r.1 r.2.pre).accesses,
        heapReads := s.heapReads ++ (loadPage fx L verify mode b r.1 r.2.pre).heapReads,
        statuses := s.statuses ++ [match (loadPage fx L verify mode b r.1 r.2.pre).result with
                                   | .ok _ => none
                                   | .error e => some e] }

/-- open the file in `mode`, then make the calls -/
def apiRun (fx : Fixes) (L : Libs) (verify : Bool) (mode : Mode) (b : Bytes) (calls : List Call) : Session :=
  match (openFileA mode b).1 with
  | .error e => { accesses := (openFileA mode b).2, statuses := [some e] }
  | .ok o => calls.foldl (Session.call fx L verify mode b o) { accesses := (openFileA mode b).2, statuses := [none] }

end Carquet.Impl.Reader
