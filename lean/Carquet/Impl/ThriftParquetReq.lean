import Carquet.Impl.ThriftParquet
/-
What the READER needs of src/thrift/parquet_types.c beyond Impl.ThriftParquet (kept in a separate
file so that the Thrift component stays untouched):

* `parseFileMetaDataReq` — `parquet_parse_file_metadata` as it is after fix 28d9213 (F29).  The
  Thrift component's final model has the `required_seen` bits itself (`Required`, `requiredCheck`),
  so this is just its `parseFileMetaData`; `parseFileMetaDataPreF29` is the status of the loop
  alone, i.e. the function before the fix.
* `parsePageHeaderC` — `parquet_parse_page_header` together with what the reader then READS from
  the anonymous union of `parquet_page_header_t`.  The three members share their first 16 bytes:
      offset 0   data.num_values   dict.num_values   v2.num_values
      offset 4   data.encoding     dict.encoding     v2.num_nulls
  and nothing else is ever stored at offsets 0..7 (fields 3.. of the members and their statistics
  live at offsets >= 8; `is_compressed = true` is at offset 24).  The page loaders read
  `data_page_header.num_values`, `data_page_header.encoding` and
  `dictionary_page_header.num_values`, i.e. the words at offsets 0 and 4, whichever member the
  stream wrote last.  `word0` / `word4` are these two words, exact for every byte string (no
  ghost "overlay" escape): a member field 1 / field 2 is detected by parsing the member from a
  sentinel that no `thrift_read_i32` result can equal.
-/
namespace Carquet.Impl.ThriftParquetReq
open Carquet.Impl.Thrift Carquet.Impl.ThriftParquet

/-- `parquet_parse_file_metadata` (after 28d9213) -/
def parseFileMetaDataReq (data : Bytes) : Except Err FileMetaData := parseFileMetaData data

/-- the function before 28d9213: the loop's status alone decides -/
def parseFileMetaDataPreF29 (data : Bytes) : Except Err FileMetaData :=
  match (topParse (fileMetaDataBody Cfg.fixed) (({}, {}) : FileMetaData × Required) data).status with
  | some e => .error e
  | none => .ok (topParse (fileMetaDataBody Cfg.fixed) (({}, {}) : FileMetaData × Required) data).val.1

/-! ## page header as the loaders see it -/

/-- a value no `thrift_read_i32` returns (they are all in the `int32_t` range) -/
def sentinel : Int := 1099511627776

/-- what the reader reads of a parsed page header -/
structure PageHdr where
  type : Int
  uncompressed : Int
  compressed : Int
  crc : Option Int
  /-- the `int32_t` at offset 0 of the union: `data_page_header.num_values` = `dictionary_page_header.num_values` -/
  word0 : Int
  /-- the word at offset 4 of the union: `data_page_header.encoding` -/
  word4 : Int
  deriving DecidableEq, Repr, Inhabited

def upd (old new : Int) : Int := if new = sentinel then old else new

/-- `header->x = …;` in the loop of a top-level parser -/
def topVal {σ : Type} (s : Top σ) (r : σ × Dec) : Top σ × Dec := ({ s with val := r.1 }, r.2)

/-- loop state: the scalar fields and the two union words -/
def pageHdrBody (cfg : Cfg) (ty : Nat) (fid : Int) (d : Dec) (s : Top PageHdr) : Top PageHdr × Dec :=
  match d.status with
  | some e => ({ s with abort := some e }, d)
  | none =>
    if fid = 1 then topVal s ({ s.val with type := (readI32 d).1 }, (readI32 d).2)
    else if fid = 2 then topVal s ({ s.val with uncompressed := (readI32 d).1 }, (readI32 d).2)
    else if fid = 3 then topVal s ({ s.val with compressed := (readI32 d).1 }, (readI32 d).2)
    else if fid = 4 then topVal s ({ s.val with crc := some (readI32 d).1 }, (readI32 d).2)
    else if fid = 5 then
      match parseStruct (dataPageHeaderBody cfg) { numValues := sentinel, encoding := sentinel } d with
      | (m, d1) => topVal s ({ s.val with word0 := upd s.val.word0 m.numValues, word4 := upd s.val.word4 m.encoding }, d1)
    else if fid = 7 then
      match parseStruct (dictionaryPageHeaderBody cfg) { numValues := sentinel, encoding := sentinel } d with
      | (m, d1) => topVal s ({ s.val with word0 := upd s.val.word0 m.numValues, word4 := upd s.val.word4 m.encoding }, d1)
    else if fid = 8 then
      match parseStruct (dataPageHeaderV2Body cfg) { numValues := sentinel, numNulls := sentinel } d with
      | (m, d1) => topVal s ({ s.val with word0 := upd s.val.word0 m.numValues, word4 := upd s.val.word4 m.numNulls }, d1)
    else (s, skipField cfg ty d)

def parsePageHeaderCX (data : Bytes) : ParseResult PageHdr :=
  topParse (pageHdrBody Cfg.fixed) (⟨0, 0, 0, none, 0, 0⟩ : PageHdr) data

/-- `parquet_parse_page_header`: what the loaders read of the header, and `*bytes_read` -/
def parsePageHeaderC (data : Bytes) : Except Err (PageHdr × Nat) :=
  match (parsePageHeaderCX data).status with
  | some e => .error e
  | none => .ok ((parsePageHeaderCX data).val, (parsePageHeaderCX data).consumed)

/-- `parquet_parse_page_header` BEFORE fix F62 (`thrift_skip` ignored a fixed-width value that the buffer ends
inside): the function the fread header window was built on; kept for `C06_regression_F62` -/
def parsePageHeaderCXPreF62 (data : Bytes) : ParseResult PageHdr :=
  topParse (pageHdrBody { Cfg.fixed with skipTruncated := false }) (⟨0, 0, 0, none, 0, 0⟩ : PageHdr) data

end Carquet.Impl.ThriftParquetReq
