import Carquet.Impl.ThriftParquet
/-
Step counters for the Thrift decoder (the "counters" device of DESIGN §2.1): for every loop and
every recursion of Impl.Thrift / Impl.ThriftParquet a function that follows the *same* control
flow and returns the number of steps taken instead of the decoder state.  One step is one
invocation of `thrift_skip`, one byte-sized `skip_element`, one `thrift_read_field_begin`, or one
iteration of an element loop of parquet_types.c (= one array cell of the arena allocation made
in front of that loop).  Everything else a function does between two steps is straight-line
code over a bounded number of bytes (a varint is at most ten bytes, `thrift_read_binary` does
not copy).  Nothing here feeds back into the models; the bounds are in Proofs/ThriftCost*.lean.
-/
namespace Carquet.Impl.Thrift

/-- steps of `for (i = 0; i < count && status == OK; i++) g(dec)`, `c x` being the steps of `g` on `x` -/
def repeatSteps (g : Dec → Dec) (c : Dec → Nat) : Nat → Dec → Nat
  | 0, _ => 0
  | n + 1, d =>
    match d.status with
    | some _ => 0
    | none => c d + repeatSteps g c n (g d)

/-- steps of `while (read_field_begin) body`: one per `read_field_begin` plus those of the bodies -/
def fieldLoopSteps {σ : Type} (stop : σ → Bool) (body : Nat → Int → Dec → σ → σ × Dec)
    (c : Nat → Int → Dec → σ → Nat) : Nat → Dec → σ → Nat
  | 0, _, _ => 0
  | f + 1, d, s =>
    match (readFieldBegin d).more with
    | false => 1
    | true =>
      if stop (body (readFieldBegin d).ty (readFieldBegin d).fid (readFieldBegin d).dec s).1 then
        1 + c (readFieldBegin d).ty (readFieldBegin d).fid (readFieldBegin d).dec s
      else
        1 + c (readFieldBegin d).ty (readFieldBegin d).fid (readFieldBegin d).dec s +
          fieldLoopSteps stop body c f
            (body (readFieldBegin d).ty (readFieldBegin d).fid (readFieldBegin d).dec s).2
            (body (readFieldBegin d).ty (readFieldBegin d).fid (readFieldBegin d).dec s).1

/-- steps of `skip_element`: a bool element is one step, anything else is `thrift_skip` -/
def skipElementSteps (cfg : Cfg) (skS : Nat → Dec → Nat) (ty : Nat) (d : Dec) : Nat :=
  if cfg.boolElemByte then
    match d.status with
    | some _ => 1
    | none => if ty = 1 ∨ ty = 2 then 1 else skS ty d
  else skS ty d

def skipListBodySteps (cfg : Cfg) (sk : Nat → Dec → Dec) (skS : Nat → Dec → Nat) (d : Dec) : Nat :=
  repeatSteps (skipElement cfg sk (readListBegin d).elemTy) (skipElementSteps cfg skS (readListBegin d).elemTy)
    (readListBegin d).count.toNat (readListBegin d).dec

def skipMapBodySteps (cfg : Cfg) (sk : Nat → Dec → Dec) (skS : Nat → Dec → Nat) (d : Dec) : Nat :=
  repeatSteps (fun x => skipElement cfg sk (readMapBegin d).valTy (skipElement cfg sk (readMapBegin d).keyTy x))
    (fun x => skipElementSteps cfg skS (readMapBegin d).keyTy x +
      skipElementSteps cfg skS (readMapBegin d).valTy (skipElement cfg sk (readMapBegin d).keyTy x))
    (readMapBegin d).count.toNat (readMapBegin d).dec

def skipContainerSteps (cfg : Cfg) (bodyS : Dec → Nat) (d : Dec) : Nat :=
  if cfg.containerDepth then (if (enterContainer d).1 then bodyS (enterContainer d).2 else 0) else bodyS d

/-- steps below one `thrift_skip` invocation (the invocation itself is counted by `skipSteps`) -/
def skipCaseSteps (cfg : Cfg) (sk : Nat → Dec → Dec) (skS : Nat → Dec → Nat) (ty : Nat) (d : Dec) : Nat :=
  if ty = 9 ∨ ty = 10 then skipContainerSteps cfg (skipListBodySteps cfg sk skS) d
  else if ty = 11 then skipContainerSteps cfg (skipMapBodySteps cfg sk skS) d
  else if ty = 12 then
    fieldLoopSteps (σ := Unit) (fun _ => false) (fun ty _ d s => (s, sk ty d)) (fun ty _ d _ => skS ty d)
      d.budget (structBegin d) ()
  else 0

/-- steps of `thrift_skip(dec, type)` with `stk` frames granted -/
def skipSteps (cfg : Cfg) : Nat → Nat → Dec → Nat
  | 0, _, _ => 1
  | stk + 1, ty, d =>
    match d.status with
    | some _ => 1
    | none => 1 + skipCaseSteps cfg (skip cfg stk) (skipSteps cfg stk) ty d

/-- steps of `thrift_skip_field` as the parsers call it -/
def skipFieldSteps (cfg : Cfg) (ty : Nat) (d : Dec) : Nat := skipSteps cfg stackBudget ty d

end Carquet.Impl.Thrift

/-! ## The parsers of parquet_types.c

Same control flow as Impl.ThriftParquet, function by function; a field whose handler is
straight-line code (a scalar read, a string/binary read) adds nothing to the step of the
`thrift_read_field_begin` that dispatched it. -/
namespace Carquet.Impl.ThriftParquet
open Carquet.Impl.Thrift

/-- steps of `for (i = 0; i < count; i++) out[i] = elem(dec)` (not guarded by the status): one per
array cell plus those of the element parser -/
def readManySteps {α : Type} (elem : Dec → α × Dec) (c : Dec → Nat) : Nat → Dec → Nat
  | 0, _ => 0
  | n + 1, d => 1 + c d + readManySteps elem c n (elem d).2

/-- steps of `thrift_read_list_begin; VALIDATE_COUNT; calloc; for …` (also the number of array
cells allocated and filled, counted with their contents) -/
def parseListOfSteps {α : Type} (max : Int) (elem : Dec → α × Dec) (c : Dec → Nat) (d : Dec) : Nat :=
  if (readListBegin d).count < 0 ∨ max < (readListBegin d).count then 0
  else readManySteps elem c (readListBegin d).count.toNat (readListBegin d).dec

/-- steps of a nested struct parser -/
def parseStructSteps {σ : Type} (body : Nat → Int → Dec → σ → σ × Dec) (c : Nat → Int → Dec → σ → Nat)
    (init : σ) (d : Dec) : Nat :=
  fieldLoopSteps (fun _ => false) body c d.budget (structBegin d) init

section
variable (cfg : Cfg)

def statisticsBodySteps (ty : Nat) (fid : Int) (d : Dec) (_ : Statistics) : Nat :=
  if fid = 1 then 0 else if fid = 2 then 0 else if fid = 3 then 0 else if fid = 4 then 0
  else if fid = 5 then 0 else if fid = 6 then 0 else if fid = 7 then 0 else if fid = 8 then 0
  else skipFieldSteps cfg ty d

def parseStatisticsSteps (d : Dec) : Nat := parseStructSteps (statisticsBody cfg) (statisticsBodySteps cfg) {} d

def decimalBodySteps (ty : Nat) (fid : Int) (d : Dec) (_ : Int × Int) : Nat :=
  if fid = 1 then 0 else if fid = 2 then 0 else skipFieldSteps cfg ty d

def timeUnitBodySteps (ty : Nat) (_ : Int) (d : Dec) (_ : TimeUnit) : Nat := skipFieldSteps cfg ty d

def timeBodySteps (ty : Nat) (fid : Int) (d : Dec) (s : Bool × TimeUnit) : Nat :=
  if fid = 1 then 0
  else if fid = 2 then parseStructSteps (timeUnitBody cfg) (timeUnitBodySteps cfg) s.2 d
  else skipFieldSteps cfg ty d

def integerBodySteps (ty : Nat) (fid : Int) (d : Dec) (_ : Int × Bool) : Nat :=
  if fid = 1 then 0 else if fid = 2 then 0 else skipFieldSteps cfg ty d

def logicalBodySteps (ty : Nat) (fid : Int) (d : Dec) (_ : LogicalType × Bool) : Nat :=
  if fid = 1 then skipFieldSteps cfg ty d
  else if fid = 2 then skipFieldSteps cfg ty d
  else if fid = 3 then skipFieldSteps cfg ty d
  else if fid = 4 then skipFieldSteps cfg ty d
  else if fid = 5 then parseStructSteps (decimalBody cfg) (decimalBodySteps cfg) (0, 0) d
  else if fid = 6 then skipFieldSteps cfg ty d
  else if fid = 7 then parseStructSteps (timeBody cfg) (timeBodySteps cfg) (false, .millis) d
  else if fid = 8 then parseStructSteps (timeBody cfg) (timeBodySteps cfg) (false, .millis) d
  else if fid = 10 then parseStructSteps (integerBody cfg) (integerBodySteps cfg) (0, false) d
  else if fid = 11 then skipFieldSteps cfg ty d
  else if fid = 12 then skipFieldSteps cfg ty d
  else if fid = 13 then skipFieldSteps cfg ty d
  else if fid = 14 then skipFieldSteps cfg ty d
  else if fid = 15 then skipFieldSteps cfg ty d
  else skipFieldSteps cfg ty d

def parseLogicalTypeSteps (d : Dec) : Nat :=
  parseStructSteps (logicalBody cfg) (logicalBodySteps cfg) (.unknown, false) d

def schemaElementBodySteps (ty : Nat) (fid : Int) (d : Dec) (_ : SchemaElement) : Nat :=
  if fid = 1 then 0 else if fid = 2 then 0 else if fid = 3 then 0 else if fid = 4 then 0
  else if fid = 5 then 0 else if fid = 6 then 0 else if fid = 7 then 0 else if fid = 8 then 0
  else if fid = 9 then 0
  else if fid = 10 then parseLogicalTypeSteps cfg d
  else skipFieldSteps cfg ty d

def parseSchemaElementSteps (d : Dec) : Nat :=
  parseStructSteps (schemaElementBody cfg) (schemaElementBodySteps cfg) {} d

def keyValueBodySteps (ty : Nat) (fid : Int) (d : Dec) (_ : KeyValue) : Nat :=
  if fid = 1 then 0 else if fid = 2 then 0 else skipFieldSteps cfg ty d

def parseKeyValueSteps (d : Dec) : Nat := parseStructSteps (keyValueBody cfg) (keyValueBodySteps cfg) {} d

def encodingStatsBodySteps (ty : Nat) (fid : Int) (d : Dec) (_ : PageEncodingStats) : Nat :=
  if fid = 1 then 0 else if fid = 2 then 0 else if fid = 3 then 0 else skipFieldSteps cfg ty d

def parseEncodingStatsSteps (d : Dec) : Nat :=
  parseStructSteps (encodingStatsBody cfg) (encodingStatsBodySteps cfg) {} d

def columnMetaDataBodySteps (ty : Nat) (fid : Int) (d : Dec) (_ : ColumnMetaData) : Nat :=
  if fid = 1 then 0
  else if fid = 2 then parseListOfSteps maxEncodings readI32 (fun _ => 0) d
  else if fid = 3 then parseListOfSteps maxPathElements strdupBytes (fun _ => 0) d
  else if fid = 4 then 0
  else if fid = 5 then 0
  else if fid = 6 then 0
  else if fid = 7 then 0
  else if fid = 8 then parseListOfSteps maxKeyValuePairs (parseKeyValue cfg) (parseKeyValueSteps cfg) d
  else if fid = 9 then 0
  else if fid = 10 then 0
  else if fid = 11 then 0
  else if fid = 12 then parseStatisticsSteps cfg d
  else if fid = 13 then parseListOfSteps maxEncodingStats (parseEncodingStats cfg) (parseEncodingStatsSteps cfg) d
  else if fid = 14 then 0
  else if fid = 15 then 0
  else skipFieldSteps cfg ty d

def parseColumnMetaDataSteps (d : Dec) : Nat :=
  parseStructSteps (columnMetaDataBody cfg) (columnMetaDataBodySteps cfg) {} d

def columnChunkBodySteps (ty : Nat) (fid : Int) (d : Dec) (_ : ColumnChunk) : Nat :=
  if fid = 1 then 0
  else if fid = 2 then 0
  else if fid = 3 then parseColumnMetaDataSteps cfg d
  else if fid = 4 then 0
  else if fid = 5 then 0
  else if fid = 6 then 0
  else if fid = 7 then 0
  else skipFieldSteps cfg ty d

def parseColumnChunkSteps (d : Dec) : Nat :=
  parseStructSteps (columnChunkBody cfg) (columnChunkBodySteps cfg) {} d

def rowGroupBodySteps (ty : Nat) (fid : Int) (d : Dec) (_ : RowGroup) : Nat :=
  if fid = 1 then parseListOfSteps maxColumnsPerRg (parseColumnChunk cfg) (parseColumnChunkSteps cfg) d
  else if fid = 2 then 0
  else if fid = 3 then 0
  else if fid = 4 then skipFieldSteps cfg ty d
  else if fid = 5 then 0
  else if fid = 6 then 0
  else if fid = 7 then 0
  else skipFieldSteps cfg ty d

def parseRowGroupSteps (d : Dec) : Nat := parseStructSteps (rowGroupBody cfg) (rowGroupBodySteps cfg) {} d

/-- steps of `thrift_read_list_begin; VALIDATE_COUNT_STATUS; calloc; for …` -/
def topListOfSteps {α : Type} (max : Int) (elem : Dec → α × Dec) (c : Dec → Nat) (d : Dec) : Nat :=
  parseListOfSteps max elem c d

def fileMetaDataBodySteps (ty : Nat) (fid : Int) (d : Dec) (_ : Top (FileMetaData × Required)) : Nat :=
  match d.status with
  | some _ => 0
  | none =>
    if fid = 1 then 0
    else if fid = 2 then topListOfSteps maxSchemaElements (parseSchemaElement cfg) (parseSchemaElementSteps cfg) d
    else if fid = 3 then 0
    else if fid = 4 then topListOfSteps maxRowGroups (parseRowGroup cfg) (parseRowGroupSteps cfg) d
    else if fid = 5 then topListOfSteps maxKeyValuePairs (parseKeyValue cfg) (parseKeyValueSteps cfg) d
    else if fid = 6 then 0
    else skipFieldSteps cfg ty d

/-- steps of a top-level parser: the field loop of `topParse` -/
def topParseSteps {α : Type} (body : Nat → Int → Dec → Top α → Top α × Dec) (c : Nat → Int → Dec → Top α → Nat)
    (init : α) (data : Bytes) : Nat :=
  fieldLoopSteps (fun s => s.abort.isSome) body c (data.length + 1) (structBegin (Dec.init data)) ⟨init, none⟩

/-- steps of `parquet_parse_file_metadata` on `data`; also an upper bound of the number of array
cells it allocates (each cell is one step of a `readManySteps`) -/
def parseFileMetaDataSteps (data : Bytes) : Nat :=
  topParseSteps (fileMetaDataBody cfg) (fileMetaDataBodySteps cfg) (({}, {}) : FileMetaData × Required) data

def pageStatsFieldSteps (ty : Nat) (d : Dec) : Nat :=
  if cfg.pageStats then parseStatisticsSteps cfg d else skipFieldSteps cfg ty d

def dataPageHeaderBodySteps (ty : Nat) (fid : Int) (d : Dec) (_ : DataPageHeader) : Nat :=
  if fid = 1 then 0 else if fid = 2 then 0 else if fid = 3 then 0 else if fid = 4 then 0
  else if fid = 5 then pageStatsFieldSteps cfg ty d
  else skipFieldSteps cfg ty d

def dictionaryPageHeaderBodySteps (ty : Nat) (fid : Int) (d : Dec) (_ : DictionaryPageHeader) : Nat :=
  if fid = 1 then 0 else if fid = 2 then 0 else if fid = 3 then 0 else skipFieldSteps cfg ty d

def dataPageHeaderV2BodySteps (ty : Nat) (fid : Int) (d : Dec) (_ : DataPageHeaderV2) : Nat :=
  if fid = 1 then 0 else if fid = 2 then 0 else if fid = 3 then 0 else if fid = 4 then 0
  else if fid = 5 then 0 else if fid = 6 then 0 else if fid = 7 then 0
  else if fid = 8 then pageStatsFieldSteps cfg ty d
  else skipFieldSteps cfg ty d

def pageHeaderBodySteps (ty : Nat) (fid : Int) (d : Dec) (s : Top (PageHeader × Seen)) : Nat :=
  match d.status with
  | some _ => 0
  | none =>
    if fid = 1 then 0
    else if fid = 2 then 0
    else if fid = 3 then 0
    else if fid = 4 then 0
    else if fid = 5 then parseStructSteps (dataPageHeaderBody cfg) (dataPageHeaderBodySteps cfg) s.val.1.dataPageHeader d
    else if fid = 7 then
      parseStructSteps (dictionaryPageHeaderBody cfg) (dictionaryPageHeaderBodySteps cfg) s.val.1.dictionaryPageHeader d
    else if fid = 8 then
      parseStructSteps (dataPageHeaderV2Body cfg) (dataPageHeaderV2BodySteps cfg)
        { s.val.1.dataPageHeaderV2 with isCompressed := true } d
    else skipFieldSteps cfg ty d

/-- steps of `parquet_parse_page_header` on `data` -/
def parsePageHeaderSteps (data : Bytes) : Nat :=
  topParseSteps (pageHeaderBody cfg) (pageHeaderBodySteps cfg) (({}, {}) : PageHeader × Seen) data

end

end Carquet.Impl.ThriftParquet
