/-
Model of src/encoding/plain.c (all 16 typed functions; the `carquet_decode_plain` switch only
forwards) on the little-endian x86-64 host, where `CARQUET_LITTLE_ENDIAN && !CARQUET_STRICT_ALIGN`
selects the `memcpy` fast paths.

Fidelity: exact for the checks, their order, the `size_t` products (taken modulo 2^64 as the C
does), the byte layouts, and the boolean loops.  Values are bit patterns: INT32 and FLOAT are
`UInt32`, INT64 and DOUBLE are `UInt64`, INT96 is three `UInt32` words, booleans are the bytes of
the caller's `uint8_t` array.  A typed array in host memory is the concatenation of the
little-endian images of its elements (`memU32`/`memU64`), so `memcpy(output, input, n)` followed by
reading `output[i]` is `load32s`/`load64s` of the first `n` bytes.

Not modelled: NULL pointers (the harness never passes one), allocation failure of the output
`carquet_buffer_t` (C19), and the cast of a `size_t` result ≥ 2^63 to the `int64_t` return value
(needs an input of ≥ 2^63 bytes).
-/
namespace Carquet.Impl.Plain

/-- Outcome of a decoder.  `err` is the C function returning −1.  `oob` means the C code performs a
read outside `[input, input + input_size)` on this input (undefined behaviour); the C08 theorems
say when it cannot happen. -/
inductive Res (α : Type) where
  | ok (vals : α) (consumed : Nat)
  | err
  | oob
  deriving DecidableEq, Repr

/-- `(size_t)count * k` for a non-negative `count`: the product is taken modulo 2^64. -/
def sizeMul (count k : Nat) : Nat := (count * k) % 2 ^ 64

/-! ### host memory images (little endian) -/

/-- The four bytes of a `uint32_t`/`int32_t`/`float` object in memory. -/
def memU32 (v : UInt32) : List UInt8 :=
  [UInt8.ofNat (v.toNat % 256), UInt8.ofNat (v.toNat / 256 % 256),
   UInt8.ofNat (v.toNat / 65536 % 256), UInt8.ofNat (v.toNat / 16777216 % 256)]

/-- The object whose memory is `b0 b1 b2 b3`. -/
def loadU32 (b0 b1 b2 b3 : UInt8) : UInt32 :=
  UInt32.ofNat (b0.toNat + 256 * b1.toNat + 65536 * b2.toNat + 16777216 * b3.toNat)

/-- The eight bytes of a `uint64_t`/`int64_t`/`double` object in memory. -/
def memU64 (v : UInt64) : List UInt8 :=
  [UInt8.ofNat (v.toNat % 256), UInt8.ofNat (v.toNat / 256 % 256),
   UInt8.ofNat (v.toNat / 65536 % 256), UInt8.ofNat (v.toNat / 16777216 % 256),
   UInt8.ofNat (v.toNat / 4294967296 % 256), UInt8.ofNat (v.toNat / 1099511627776 % 256),
   UInt8.ofNat (v.toNat / 281474976710656 % 256), UInt8.ofNat (v.toNat / 72057594037927936 % 256)]

def loadU64 (b0 b1 b2 b3 b4 b5 b6 b7 : UInt8) : UInt64 :=
  UInt64.ofNat (b0.toNat + 256 * b1.toNat + 65536 * b2.toNat + 16777216 * b3.toNat +
    4294967296 * b4.toNat + 1099511627776 * b5.toNat + 281474976710656 * b6.toNat +
    72057594037927936 * b7.toNat)

/-- Reading the elements of an `int32_t[]`/`float[]` whose memory holds `bs` (whole elements only). -/
def load32s : List UInt8 → List UInt32
  | b0 :: b1 :: b2 :: b3 :: rest => loadU32 b0 b1 b2 b3 :: load32s rest
  | _ => []

/-- Reading the elements of an `int64_t[]`/`double[]` whose memory holds `bs`. -/
def load64s : List UInt8 → List UInt64
  | b0 :: b1 :: b2 :: b3 :: b4 :: b5 :: b6 :: b7 :: rest =>
      loadU64 b0 b1 b2 b3 b4 b5 b6 b7 :: load64s rest
  | _ => []

/-- `carquet_int96_t`: `uint32_t value[3]`. -/
abbrev Int96 := UInt32 × UInt32 × UInt32

/-- The 96-bit number held by a `carquet_int96_t` (word 0 least significant). -/
def int96ToNat (v : Int96) : Nat := v.1.toNat + 2 ^ 32 * v.2.1.toNat + 2 ^ 64 * v.2.2.toNat

/-! ### decoders -/

/-- The eight stores `output[i++] = (byte >> k) & 1`, k = 0..7. -/
def unpackByte (b : UInt8) : List UInt8 :=
  [(b >>> 0) &&& 1, (b >>> 1) &&& 1, (b >>> 2) &&& 1, (b >>> 3) &&& 1,
   (b >>> 4) &&& 1, (b >>> 5) &&& 1, (b >>> 6) &&& 1, (b >>> 7) &&& 1]

/-- Both loops of `carquet_decode_plain_boolean` (`while (i + 8 <= count)`, then the remaining
bits of one more byte); `n` is `count - i`, the list is `input + byte_idx`.  `none`: a byte is read
past the end of the input. -/
def boolLoop : List UInt8 → Nat → Option (List UInt8)
  | bs, n =>
    if n = 0 then some []
    else match bs with
      | [] => none
      | b :: rest =>
        if 8 ≤ n then
          match boolLoop rest (n - 8) with
          | some out => some (unpackByte b ++ out)
          | none => none
        else some ((unpackByte b).take n)

/-- `carquet_decode_plain_boolean`: one output byte (0/1) per value. -/
def decodeBoolean (input : List UInt8) (count : Int) : Res (List UInt8) :=
  if count < 0 then .err
  else if input.length < (count.toNat + 7) / 8 then .err
  else match boolLoop input count.toNat with
    | some out => .ok out ((count.toNat + 7) / 8)
    | none => .oob

/-- `carquet_decode_plain_int32`: size check, then `memcpy(output, input, bytes_needed)`.
The values are those the copy stores (`bytes_needed / 4` of them). -/
def decodeInt32 (input : List UInt8) (count : Int) : Res (List UInt32) :=
  if count < 0 then .err
  else if input.length < sizeMul count.toNat 4 then .err
  else .ok (load32s (input.take (sizeMul count.toNat 4))) (sizeMul count.toNat 4)

/-- `carquet_decode_plain_int64` -/
def decodeInt64 (input : List UInt8) (count : Int) : Res (List UInt64) :=
  if count < 0 then .err
  else if input.length < sizeMul count.toNat 8 then .err
  else .ok (load64s (input.take (sizeMul count.toNat 8))) (sizeMul count.toNat 8)

/-- `carquet_decode_plain_float`: same body as the int32 decoder, on bit patterns. -/
def decodeFloat (input : List UInt8) (count : Int) : Res (List UInt32) :=
  if count < 0 then .err
  else if input.length < sizeMul count.toNat 4 then .err
  else .ok (load32s (input.take (sizeMul count.toNat 4))) (sizeMul count.toNat 4)

/-- `carquet_decode_plain_double` -/
def decodeDouble (input : List UInt8) (count : Int) : Res (List UInt64) :=
  if count < 0 then .err
  else if input.length < sizeMul count.toNat 8 then .err
  else .ok (load64s (input.take (sizeMul count.toNat 8))) (sizeMul count.toNat 8)

/-- The element loop of `carquet_decode_plain_int96`: `count` iterations, each reading
`input + i*12 .. +12` through three `carquet_read_u32_le`.  `none`: an iteration reads past the end. -/
def loop96 : Nat → List UInt8 → Option (List Int96)
  | 0, _ => some []
  | n + 1, b0 :: b1 :: b2 :: b3 :: b4 :: b5 :: b6 :: b7 :: b8 :: b9 :: b10 :: b11 :: rest =>
    match loop96 n rest with
    | some vs => some ((loadU32 b0 b1 b2 b3, loadU32 b4 b5 b6 b7, loadU32 b8 b9 b10 b11) :: vs)
    | none => none
  | _ + 1, _ => none

/-- `carquet_decode_plain_int96`: the size check uses the wrapped product, the loop does not. -/
def decodeInt96 (input : List UInt8) (count : Int) : Res (List Int96) :=
  if count < 0 then .err
  else if input.length < sizeMul count.toNat 12 then .err
  else match loop96 count.toNat input with
    | some vs => .ok vs (sizeMul count.toNat 12)
    | none => .oob

/-- `carquet_read_i32_le(input + pos)` on a list positioned at `pos`. -/
def readU32 : List UInt8 → Option UInt32
  | b0 :: b1 :: b2 :: b3 :: _ => some (loadU32 b0 b1 b2 b3)
  | _ => none

/-- `(int32_t)x` -/
def toInt32 (x : UInt32) : Int :=
  if x.toNat < 2147483648 then (x.toNat : Int) else (x.toNat : Int) - 4294967296

/-- The loop of `carquet_decode_plain_byte_array`.  `output[i].data` points into the input, so a
decoded value is the slice `(offset, length)` of the input.  Returns the slices and the final `pos`.
Outer `none`: a read outside the input; inner `none`: the function returns −1. -/
def baLoop (input : List UInt8) : Nat → Nat → Option (Option (List (Nat × Nat) × Nat))
  | 0, pos => some (some ([], pos))
  | n + 1, pos =>
    if pos + 4 > input.length then some none
    else match readU32 (input.drop pos) with
      | none => none
      | some len =>
        if toInt32 len < 0 ∨ pos + 4 + len.toNat > input.length then some none
        else match baLoop input n (pos + 4 + len.toNat) with
          | some (some (sl, p)) => some (some ((pos + 4, len.toNat) :: sl, p))
          | r => r

/-- `carquet_decode_plain_byte_array` -/
def decodeByteArray (input : List UInt8) (count : Int) : Res (List (Nat × Nat)) :=
  if count < 0 then .err
  else match baLoop input count.toNat 0 with
    | some (some (sl, p)) => .ok sl p
    | some none => .err
    | none => .oob

/-- The bytes a caller sees through a returned `carquet_byte_array_t`. -/
def slice (input : List UInt8) (s : Nat × Nat) : List UInt8 := (input.drop s.1).take s.2

/-- `carquet_decode_plain_fixed_byte_array`: the output is a flat `uint8_t` buffer. -/
def decodeFlba (input : List UInt8) (count : Int) (fixedLen : Int) : Res (List UInt8) :=
  if count < 0 ∨ fixedLen ≤ 0 then .err
  else if input.length < sizeMul count.toNat fixedLen.toNat then .err
  else .ok (input.take (sizeMul count.toNat fixedLen.toNat)) (sizeMul count.toNat fixedLen.toNat)

/-! ### encoders

The result is the byte string appended to `output`.  `count` is the length of the caller's array;
`count < 0` returns `CARQUET_ERROR_INVALID_ARGUMENT` before anything is read. -/

inductive EncErr where
  | invalidArgument   -- CARQUET_ERROR_INVALID_ARGUMENT
  | outOfMemory       -- CARQUET_ERROR_OUT_OF_MEMORY
  deriving DecidableEq, Repr

/-- The `dest[i / 8] |= (1 << (i % 8))` updates of one destination byte, in loop order
(`k` = `i % 8`, `acc` = current content of the byte, initially 0 from the `memset`). -/
def orBits : List Bool → Nat → UInt8 → UInt8
  | [], _, acc => acc
  | v :: vs, k, acc => orBits vs (k + 1) (if v then acc ||| ((1 : UInt8) <<< (UInt8.ofNat k)) else acc)

/-- `memset(dest, 0, bytes_needed)` then the loop of `carquet_encode_plain_boolean`; the loop
touches the bits of byte `j` consecutively (`i = 8j .. 8j+7`), so it is run byte by byte.
The argument is `input[i] != 0`. -/
def packBools : List Bool → List UInt8
  | v0 :: v1 :: v2 :: v3 :: v4 :: v5 :: v6 :: v7 :: rest =>
      orBits [v0, v1, v2, v3, v4, v5, v6, v7] 0 0 :: packBools rest
  | [] => []
  | short => [orBits short 0 0]

/-- `carquet_encode_plain_boolean` on the caller's `uint8_t` array (any non-zero byte is true),
**after fix F30** (`if (bytes_needed == 0) return CARQUET_OK;`): always succeeds. -/
def encodeBoolean (input : List UInt8) : List UInt8 :=
  packBools (input.map (fun v => v != 0))

/-- The pinned `carquet_encode_plain_boolean`: `carquet_buffer_advance(output, 0)` returns NULL by
design, which the encoder reports as CARQUET_ERROR_OUT_OF_MEMORY — encoding zero booleans fails. -/
def encodeBooleanPreFix (input : List UInt8) : Except EncErr (List UInt8) :=
  if (input.length + 7) / 8 = 0 then .error .outOfMemory
  else .ok (packBools (input.map (fun v => v != 0)))

/-- `carquet_encode_plain_int32`: `carquet_buffer_append(output, input, count * 4)`. -/
def encodeInt32 (vs : List UInt32) : List UInt8 := vs.flatMap memU32

/-- `carquet_encode_plain_int64` -/
def encodeInt64 (vs : List UInt64) : List UInt8 := vs.flatMap memU64

/-- `carquet_encode_plain_float` (bit patterns) -/
def encodeFloat (vs : List UInt32) : List UInt8 := vs.flatMap memU32

/-- `carquet_encode_plain_double` (bit patterns) -/
def encodeDouble (vs : List UInt64) : List UInt8 := vs.flatMap memU64

/-- `carquet_encode_plain_int96`: three `carquet_buffer_append_u32_le` per value. -/
def encodeInt96 (vs : List Int96) : List UInt8 :=
  vs.flatMap (fun v => memU32 v.1 ++ memU32 v.2.1 ++ memU32 v.2.2)

/-- `carquet_encode_plain_byte_array`: `append_u32_le((uint32_t)length)`, then the bytes when
`length > 0`.  A value is its byte string; `length` is an `int32_t`, so values are shorter than 2^31. -/
def encodeByteArray (vs : List (List UInt8)) : List UInt8 :=
  vs.flatMap (fun v => memU32 (UInt32.ofNat v.length) ++ (if v.length > 0 then v else []))

/-- `carquet_encode_plain_fixed_byte_array` on the caller's flat buffer (which holds
`count * fixed_len` bytes). -/
def encodeFlba (flat : List UInt8) (count : Int) (fixedLen : Int) : Except EncErr (List UInt8) :=
  if count < 0 ∨ fixedLen ≤ 0 then .error .invalidArgument
  else .ok (flat.take (sizeMul count.toNat fixedLen.toNat))

end Carquet.Impl.Plain
