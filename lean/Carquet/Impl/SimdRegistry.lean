import Carquet.Impl.Simd
import Carquet.Impl.SimdMore
import Carquet.Impl.Dispatch
import Carquet.Gen.Dispatch
import Carquet.Spec.Kernels
/-
The binding between the *names* in the extracted dispatch table (`Carquet.Gen.Dispatch.kernels`,
re-generated from dispatch.c on every run) and the Lean models of those C functions.

`Slot` enumerates the 19 fields of `carquet_simd_dispatch_t`; for each slot: the type of what a
kernel of that slot consumes and produces (the C signature with buffers as lists), the slot's
contract `dom` (what every caller has to guarantee) and the scalar definition `spec` from
`Spec.Kernels`.  A `KernelModel` names a C function and gives its model at the slot's type.
The registry is data: a kernel that appears in the table without an entry here makes the
dispatch theorem unprovable (the coverage check `tableCovered` fails to decide).
-/
namespace Carquet.Impl.Dispatch
open Carquet Carquet.Impl.Simd

inductive Slot where
  | prefixSumI32 | prefixSumI64 | gatherI32 | gatherI64 | gatherFloat | gatherDouble
  | bssEncFloat | bssDecFloat | bssEncDouble | bssDecDouble | unpackBools | packBools
  | findRunLength | crc32c | matchCopy | matchLength | countNonNulls | buildNullBitmap | fillDefLevels
  deriving DecidableEq, Repr

/-- the field of `carquet_simd_dispatch_t` (= the slot name in `Gen.Dispatch.slots`) -/
def Slot.name : Slot → String
  | .prefixSumI32 => "prefix_sum_i32" | .prefixSumI64 => "prefix_sum_i64"
  | .gatherI32 => "gather_i32" | .gatherI64 => "gather_i64"
  | .gatherFloat => "gather_float" | .gatherDouble => "gather_double"
  | .bssEncFloat => "byte_split_encode_float" | .bssDecFloat => "byte_split_decode_float"
  | .bssEncDouble => "byte_split_encode_double" | .bssDecDouble => "byte_split_decode_double"
  | .unpackBools => "unpack_bools" | .packBools => "pack_bools"
  | .findRunLength => "find_run_length_i32" | .crc32c => "crc32c"
  | .matchCopy => "match_copy" | .matchLength => "match_length"
  | .countNonNulls => "count_non_nulls" | .buildNullBitmap => "build_null_bitmap"
  | .fillDefLevels => "fill_def_levels"

/-- the inputs of a kernel of the slot (floats / doubles are moved as their bit patterns) -/
@[reducible] def Slot.In : Slot → Type
  | .prefixSumI32 => BitVec 32 × List (BitVec 32)          -- (initial, values)
  | .prefixSumI64 => BitVec 64 × List (BitVec 64)
  | .gatherI32 | .gatherFloat => List (BitVec 32) × List (BitVec 32)     -- (dictionary, indices)
  | .gatherI64 | .gatherDouble => List (BitVec 64) × List (BitVec 32)
  | .bssEncFloat => List (BitVec 32)
  | .bssDecFloat => Nat × List UInt8                        -- (count, the 4 streams)
  | .bssEncDouble => List (BitVec 64)
  | .bssDecDouble => Nat × List UInt8
  | .unpackBools => List UInt8 × Nat                        -- (packed bytes, count)
  | .packBools => List UInt8
  | .findRunLength => List (BitVec 32)
  | .crc32c => BitVec 32 × List UInt8                       -- (crc so far, data)
  | .matchCopy => List UInt8 × Nat                          -- (the `offset` bytes before dst, len)
  | .matchLength => List UInt8 × Nat                        -- (buffer = [match, limit), p - match)
  | .countNonNulls => List (BitVec 16) × BitVec 16          -- (levels, max level)
  | .buildNullBitmap => List (BitVec 16) × BitVec 16
  | .fillDefLevels => List (BitVec 16) × BitVec 16          -- (previous contents, value)

@[reducible] def Slot.Out : Slot → Type
  | .prefixSumI32 => List (BitVec 32)
  | .prefixSumI64 => List (BitVec 64)
  | .gatherI32 | .gatherFloat => Option (List (BitVec 32))  -- `none`: a read outside the dictionary
  | .gatherI64 | .gatherDouble => Option (List (BitVec 64))
  | .bssEncFloat | .bssEncDouble => List UInt8
  | .bssDecFloat => Option (List (BitVec 32))
  | .bssDecDouble => Option (List (BitVec 64))
  | .unpackBools => Option (List UInt8)
  | .packBools => List UInt8
  | .findRunLength => Nat
  | .crc32c => BitVec 32
  | .matchCopy => List UInt8
  | .matchLength => Nat
  | .countNonNulls => Nat
  | .buildNullBitmap => List UInt8
  | .fillDefLevels => List (BitVec 16)

/-- the slot's contract: what a caller of `carquet_dispatch_<slot>` has to guarantee -/
def Slot.dom : (s : Slot) → s.In → Prop
  | .gatherI32, x | .gatherFloat, x => x.1.length ≤ 2 ^ 31   -- dictionary_count is an int32_t
  | .gatherI64, x | .gatherDouble, x => x.1.length ≤ 2 ^ 31
  | .bssDecFloat, x => x.2.length = 4 * x.1                 -- exactly 4 streams of `count` bytes
  | .bssDecDouble, x => x.2.length = 8 * x.1
  | .unpackBools, x => x.2 ≤ 8 * x.1.length                 -- `count` flags are present
  | .packBools, x => ∀ b ∈ x, b = 0 ∨ b = 1                 -- "Input bytes should be 0 or 1"
  | .matchCopy, x => 0 < x.1.length                         -- offset >= 1
  | _, _ => True

/-- the scalar definition of the slot -/
def Slot.spec : (s : Slot) → s.In → s.Out
  | .prefixSumI32, x => Spec.Kernels.prefixSum x.1 x.2
  | .prefixSumI64, x => Spec.Kernels.prefixSum x.1 x.2
  | .gatherI32, x | .gatherFloat, x => Spec.Kernels.gather x.1 (x.2.map (·.toNat))
  | .gatherI64, x | .gatherDouble, x => Spec.Kernels.gather x.1 (x.2.map (·.toNat))
  | .bssEncFloat, x => Spec.Kernels.bssEncode (k := 4) x
  | .bssDecFloat, x => Spec.Kernels.bssDecode 4 x.1 x.2
  | .bssEncDouble, x => Spec.Kernels.bssEncode (k := 8) x
  | .bssDecDouble, x => Spec.Kernels.bssDecode 8 x.1 x.2
  | .unpackBools, x => Spec.Kernels.unpackBools x.1 x.2
  | .packBools, x => Spec.Kernels.packBools x
  | .findRunLength, x => Spec.Kernels.findRunLength x
  | .crc32c, x => Spec.Kernels.crc32c x.1 x.2
  | .matchCopy, x => Spec.Kernels.matchCopy x.1 x.2
  | .matchLength, x => Spec.Kernels.matchLength x.1 x.2
  | .countNonNulls, x => Spec.Kernels.countNonNulls x.1 x.2
  | .buildNullBitmap, x => Spec.Kernels.buildNullBitmap x.1 x.2
  | .fillDefLevels, x => Spec.Kernels.fillDefLevels x.1.length x.2

/-- a C kernel (by name) and its model at the type of its slot -/
structure KernelModel where
  slot : Slot
  name : String
  run : slot.In → slot.Out

/-- the kernel computes the slot's scalar definition on every input satisfying the slot's contract -/
def KernelModel.EqScalar (k : KernelModel) : Prop := ∀ x, k.slot.dom x → k.run x = k.slot.spec x

def k_scalar_prefix_sum_i32 : KernelModel := ⟨.prefixSumI32, "scalar_prefix_sum_i32", fun x => scalarPrefixSum x.1 x.2⟩
def k_sse_prefix_sum_i32 : KernelModel := ⟨.prefixSumI32, "carquet_sse_prefix_sum_i32", fun x => ssePrefixSumI32 x.1 x.2⟩
def k_avx2_prefix_sum_i32 : KernelModel := ⟨.prefixSumI32, "carquet_avx2_prefix_sum_i32", fun x => avx2PrefixSumI32 x.1 x.2⟩
def k_avx512_prefix_sum_i32 : KernelModel := ⟨.prefixSumI32, "carquet_avx512_prefix_sum_i32", fun x => avx512PrefixSumI32 x.1 x.2⟩
def k_scalar_prefix_sum_i64 : KernelModel := ⟨.prefixSumI64, "scalar_prefix_sum_i64", fun x => scalarPrefixSum x.1 x.2⟩
def k_sse_prefix_sum_i64 : KernelModel := ⟨.prefixSumI64, "carquet_sse_prefix_sum_i64", fun x => ssePrefixSumI64 x.1 x.2⟩
def k_avx2_prefix_sum_i64 : KernelModel := ⟨.prefixSumI64, "carquet_avx2_prefix_sum_i64", fun x => avx2PrefixSumI64 x.1 x.2⟩
def k_avx512_prefix_sum_i64 : KernelModel := ⟨.prefixSumI64, "carquet_avx512_prefix_sum_i64", fun x => avx512PrefixSumI64 x.1 x.2⟩
def k_scalar_gather_i32 : KernelModel := ⟨.gatherI32, "scalar_gather_i32", fun x => scalarGather (memOf x.1) x.2⟩
def k_sse_gather_i32 : KernelModel := ⟨.gatherI32, "carquet_sse_gather_i32", fun x => sseGather32 (memOf x.1) x.2⟩
def k_avx2_gather_i32 : KernelModel := ⟨.gatherI32, "carquet_avx2_gather_i32", fun x => avx2Gather32 (memOf x.1) x.2⟩
def k_avx512_gather_i32 : KernelModel := ⟨.gatherI32, "carquet_avx512_gather_i32", fun x => avx512Gather32 (memOf x.1) x.2⟩
def k_scalar_gather_i64 : KernelModel := ⟨.gatherI64, "scalar_gather_i64", fun x => scalarGather (memOf x.1) x.2⟩
def k_sse_gather_i64 : KernelModel := ⟨.gatherI64, "carquet_sse_gather_i64", fun x => sseGather64 (memOf x.1) x.2⟩
def k_avx2_gather_i64 : KernelModel := ⟨.gatherI64, "carquet_avx2_gather_i64", fun x => avx2Gather64 (memOf x.1) x.2⟩
def k_avx512_gather_i64 : KernelModel := ⟨.gatherI64, "carquet_avx512_gather_i64", fun x => avx512Gather64 (memOf x.1) x.2⟩
def k_scalar_gather_float : KernelModel := ⟨.gatherFloat, "scalar_gather_float", fun x => scalarGather (memOf x.1) x.2⟩
def k_sse_gather_float : KernelModel := ⟨.gatherFloat, "carquet_sse_gather_float", fun x => sseGather32 (memOf x.1) x.2⟩
def k_avx2_gather_float : KernelModel := ⟨.gatherFloat, "carquet_avx2_gather_float", fun x => avx2Gather32 (memOf x.1) x.2⟩
def k_avx512_gather_float : KernelModel := ⟨.gatherFloat, "carquet_avx512_gather_float", fun x => avx512Gather32 (memOf x.1) x.2⟩
def k_scalar_gather_double : KernelModel := ⟨.gatherDouble, "scalar_gather_double", fun x => scalarGather (memOf x.1) x.2⟩
def k_sse_gather_double : KernelModel := ⟨.gatherDouble, "carquet_sse_gather_double", fun x => sseGather64 (memOf x.1) x.2⟩
def k_avx2_gather_double : KernelModel := ⟨.gatherDouble, "carquet_avx2_gather_double", fun x => avx2Gather64 (memOf x.1) x.2⟩
def k_avx512_gather_double : KernelModel := ⟨.gatherDouble, "carquet_avx512_gather_double", fun x => avx512Gather64 (memOf x.1) x.2⟩
def k_scalar_byte_split_encode_float : KernelModel := ⟨.bssEncFloat, "scalar_byte_split_encode_float", fun x => scalarBssEncodeFloat x⟩
def k_sse_byte_stream_split_encode_float : KernelModel := ⟨.bssEncFloat, "carquet_sse_byte_stream_split_encode_float", fun x => sseBssEncodeFloat x⟩
def k_avx2_byte_stream_split_encode_float : KernelModel := ⟨.bssEncFloat, "carquet_avx2_byte_stream_split_encode_float", fun x => avx2BssEncodeFloat x⟩
def k_avx512_byte_stream_split_encode_float : KernelModel := ⟨.bssEncFloat, "carquet_avx512_byte_stream_split_encode_float", fun x => avx512BssEncodeFloat x⟩
def k_scalar_byte_split_decode_float : KernelModel := ⟨.bssDecFloat, "scalar_byte_split_decode_float", fun x => scalarBssDecodeFloat x.1 x.2⟩
def k_sse_byte_stream_split_decode_float : KernelModel := ⟨.bssDecFloat, "carquet_sse_byte_stream_split_decode_float", fun x => some (sseBssDecodeFloat (zipStreams x.1 x.2))⟩
def k_avx2_byte_stream_split_decode_float : KernelModel := ⟨.bssDecFloat, "carquet_avx2_byte_stream_split_decode_float", fun x => some (avx2BssDecodeFloat (zipStreams x.1 x.2))⟩
def k_avx512_byte_stream_split_decode_float : KernelModel := ⟨.bssDecFloat, "carquet_avx512_byte_stream_split_decode_float", fun x => some (avx512BssDecodeFloat (zipStreams x.1 x.2))⟩
def k_scalar_byte_split_encode_double : KernelModel := ⟨.bssEncDouble, "scalar_byte_split_encode_double", fun x => scalarBssEncodeDouble x⟩
def k_sse_byte_stream_split_encode_double : KernelModel := ⟨.bssEncDouble, "carquet_sse_byte_stream_split_encode_double", fun x => sseBssEncodeDouble x⟩
def k_scalar_byte_split_decode_double : KernelModel := ⟨.bssDecDouble, "scalar_byte_split_decode_double", fun x => scalarBssDecodeDouble x.1 x.2⟩
def k_sse_byte_stream_split_decode_double : KernelModel := ⟨.bssDecDouble, "carquet_sse_byte_stream_split_decode_double", fun x => sseBssDecodeDouble x.1 x.2⟩
def k_scalar_unpack_bools : KernelModel := ⟨.unpackBools, "scalar_unpack_bools", fun x => scalarUnpackBools x.1 x.2⟩
def k_sse_unpack_bools : KernelModel := ⟨.unpackBools, "carquet_sse_unpack_bools", fun x => some (sseUnpackBools x.1 x.2)⟩
def k_avx2_unpack_bools : KernelModel := ⟨.unpackBools, "carquet_avx2_unpack_bools", fun x => some (avx2UnpackBools x.1 x.2)⟩
def k_avx512_unpack_bools : KernelModel := ⟨.unpackBools, "carquet_avx512_unpack_bools", fun x => some (avx512UnpackBools x.1 x.2)⟩
def k_scalar_pack_bools : KernelModel := ⟨.packBools, "scalar_pack_bools", fun x => scalarPackBools x⟩
def k_sse_pack_bools : KernelModel := ⟨.packBools, "carquet_sse_pack_bools", fun x => ssePackBools x⟩
def k_avx2_pack_bools : KernelModel := ⟨.packBools, "carquet_avx2_pack_bools", fun x => avx2PackBools x⟩
def k_avx512_pack_bools : KernelModel := ⟨.packBools, "carquet_avx512_pack_bools", fun x => avx512PackBools x⟩
def k_scalar_find_run_length_i32 : KernelModel := ⟨.findRunLength, "scalar_find_run_length_i32", fun x => scalarFindRunLength x⟩
def k_sse_find_run_length_i32 : KernelModel := ⟨.findRunLength, "carquet_sse_find_run_length_i32", fun x => sseFindRunLength x⟩
def k_avx2_find_run_length_i32 : KernelModel := ⟨.findRunLength, "carquet_avx2_find_run_length_i32", fun x => avx2FindRunLength x⟩
def k_avx512_find_run_length_i32 : KernelModel := ⟨.findRunLength, "carquet_avx512_find_run_length_i32", fun x => avx512FindRunLength x⟩
def k_scalar_crc32c : KernelModel := ⟨.crc32c, "scalar_crc32c", fun x => scalarCrc32c Gen.Dispatch.crc32cTable x.1 x.2⟩
def k_sse_crc32c : KernelModel := ⟨.crc32c, "carquet_sse_crc32c", fun x => sseCrc32c x.1 x.2⟩
def k_scalar_match_copy : KernelModel := ⟨.matchCopy, "scalar_match_copy", fun x => scalarMatchCopy x.1 x.2⟩
def k_sse_match_copy : KernelModel := ⟨.matchCopy, "carquet_sse_match_copy", fun x => sseMatchCopy x.1 x.2⟩
def k_scalar_match_length : KernelModel := ⟨.matchLength, "scalar_match_length", fun x => scalarMatchLength x.1 x.2⟩
def k_sse_match_length : KernelModel := ⟨.matchLength, "carquet_sse_match_length", fun x => sseMatchLength x.1 x.2⟩
def k_scalar_count_non_nulls : KernelModel := ⟨.countNonNulls, "scalar_count_non_nulls", fun x => scalarCountNonNulls x.1 x.2⟩
def k_sse_count_non_nulls : KernelModel := ⟨.countNonNulls, "carquet_sse_count_non_nulls", fun x => sseCountNonNulls x.1 x.2⟩
def k_scalar_build_null_bitmap : KernelModel := ⟨.buildNullBitmap, "scalar_build_null_bitmap", fun x => scalarBuildNullBitmap x.1 x.2⟩
def k_sse_build_null_bitmap : KernelModel := ⟨.buildNullBitmap, "carquet_sse_build_null_bitmap", fun x => sseBuildNullBitmap x.1 x.2⟩
def k_scalar_fill_def_levels : KernelModel := ⟨.fillDefLevels, "scalar_fill_def_levels", fun x => scalarFillDefLevels x.1 x.2⟩
def k_sse_fill_def_levels : KernelModel := ⟨.fillDefLevels, "carquet_sse_fill_def_levels", fun x => sseFillDefLevels x.1 x.2⟩

/-- every kernel the dispatch table of the x86 build can install, bound to its model -/
def registry : List KernelModel :=
  [k_scalar_prefix_sum_i32,
   k_sse_prefix_sum_i32,
   k_avx2_prefix_sum_i32,
   k_avx512_prefix_sum_i32,
   k_scalar_prefix_sum_i64,
   k_sse_prefix_sum_i64,
   k_avx2_prefix_sum_i64,
   k_avx512_prefix_sum_i64,
   k_scalar_gather_i32,
   k_sse_gather_i32,
   k_avx2_gather_i32,
   k_avx512_gather_i32,
   k_scalar_gather_i64,
   k_sse_gather_i64,
   k_avx2_gather_i64,
   k_avx512_gather_i64,
   k_scalar_gather_float,
   k_sse_gather_float,
   k_avx2_gather_float,
   k_avx512_gather_float,
   k_scalar_gather_double,
   k_sse_gather_double,
   k_avx2_gather_double,
   k_avx512_gather_double,
   k_scalar_byte_split_encode_float,
   k_sse_byte_stream_split_encode_float,
   k_avx2_byte_stream_split_encode_float,
   k_avx512_byte_stream_split_encode_float,
   k_scalar_byte_split_decode_float,
   k_sse_byte_stream_split_decode_float,
   k_avx2_byte_stream_split_decode_float,
   k_avx512_byte_stream_split_decode_float,
   k_scalar_byte_split_encode_double,
   k_sse_byte_stream_split_encode_double,
   k_scalar_byte_split_decode_double,
   k_sse_byte_stream_split_decode_double,
   k_scalar_unpack_bools,
   k_sse_unpack_bools,
   k_avx2_unpack_bools,
   k_avx512_unpack_bools,
   k_scalar_pack_bools,
   k_sse_pack_bools,
   k_avx2_pack_bools,
   k_avx512_pack_bools,
   k_scalar_find_run_length_i32,
   k_sse_find_run_length_i32,
   k_avx2_find_run_length_i32,
   k_avx512_find_run_length_i32,
   k_scalar_crc32c,
   k_sse_crc32c,
   k_scalar_match_copy,
   k_sse_match_copy,
   k_scalar_match_length,
   k_sse_match_length,
   k_scalar_count_non_nulls,
   k_sse_count_non_nulls,
   k_scalar_build_null_bitmap,
   k_sse_build_null_bitmap,
   k_scalar_fill_def_levels,
   k_sse_fill_def_levels]

/-- `(slot, kernel id)` pairs the initialisation can produce: the scalar fallbacks and every
assignment of every block -/
def tablePairs : List (Nat × Nat) :=
  (List.range Gen.Dispatch.scalarInit.length).zip Gen.Dispatch.scalarInit ++ Gen.Dispatch.blocks.flatMap (·.2.2)

/-- the registry has an entry with the table's kernel name, filed under the table's slot name -/
def covered (sk : Nat × Nat) : Bool :=
  match Gen.Dispatch.slots[sk.1]?, Gen.Dispatch.kernels[sk.2]? with
  | some sn, some kn => registry.any fun m => m.name == kn && m.slot.name == sn
  | _, _ => false

/-- coverage of the extracted table by the registry (decided by evaluation) -/
def tableCovered : Bool := tablePairs.all covered

end Carquet.Impl.Dispatch
