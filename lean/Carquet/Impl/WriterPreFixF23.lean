import Carquet.Impl.Writer
/-
The writer of the pinned tree BEFORE fix F23 (kept for the regression example `C05_regression_F23`,
Properties/C05/F23.lean).  Two places differed from Impl/Writer.lean:

  * `flush_current_page` (column_writer.c): `total_uncompressed_size += uncompressed_size` — the sum of the
    uncompressed page BODIES, the page headers left out (parquet.thrift: "total byte size of all
    uncompressed pages in this column chunk (including the headers)");
  * `carquet_row_group_writer_finalize` (row_group_writer.c): `total_byte_size += col_size` — the
    COMPRESSED chunk sizes (parquet.thrift: "Total byte size of all the uncompressed column data in this
    row group"), and never reset, so that a finalisation retried after a failed write counted twice.

Everything else is the code of Impl/Writer.lean; the functions that call one of the two are repeated
here with the suffix `PreFixF23`.
-/
namespace Carquet.Impl.Writer

/-- `flush_current_page` before fix F23 -/
def flushPagePreFixF23 (D : Deps) (codec : Nat) (c : Col) (cw : ColW) : Option ColW :=
  if cw.page.numValues = 0 then some cw
  else match finalizePage D codec c cw.page with
    | none => none
    | some (bytes, unc, _) =>
      some { cw with page := {}, buffer := cw.buffer ++ bytes,
                     totalUncompressed := cw.totalUncompressed + unc, numPages := cw.numPages + 1,
                     pages := cw.pages ++ [pageRecOf D codec c cw.page] }

def colWriteBatchPreFixF23 (D : Deps) (codec target : Nat) (c : Col) (cw : ColW) (b : Batch) : Option ColW :=
  if target ≤ estimatedSize D c (addValues D c cw.page b) then
    flushPagePreFixF23 D codec c { cw with page := addValues D c cw.page b, totalValues := cw.totalValues + b.nrows }
  else
    some { cw with page := addValues D c cw.page b, totalValues := cw.totalValues + b.nrows }

def finalizeColsPreFixF23 (D : Deps) (w : W) : List Col → List ColW → Nat → Option (Bytes × List ChunkMeta)
  | c :: cs, cw :: cws, off =>
    match flushPagePreFixF23 D w.codec c cw with
    | none => none
    | some cw' =>
      match finalizeColsPreFixF23 D w cs cws (off + cw'.buffer.length) with
      | none => none
      | some (bytes, metas) => some (cw'.buffer ++ bytes, chunkOf w c cw' off :: metas)
  | _, _, _ => some ([], [])

def finalizeColsPagesPreFixF23 (D : Deps) (w : W) : List Col → List ColW → List (List PageRec)
  | c :: cs, cw :: cws =>
    match flushPagePreFixF23 D w.codec c cw with
    | none => []
    | some cw' => cw'.pages :: finalizeColsPagesPreFixF23 D w cs cws
  | _, _ => []

/-- `flush_row_group` before fix F23: `total_byte_size` = the bytes of the row group in the file -/
def flushRowGroupPreFixF23 (D : Deps) (w : W) : W × Status :=
  match w.rg with
  | none => (w, .ok)
  | some cws =>
    match finalizeColsPreFixF23 D w w.cols cws w.fileOffset with
    | none => (w, .other)
    | some (bytes, metas) =>
      ({ w with out := if bytes.length > 0 then w.out ++ [bytes] else w.out,
                rowGroups := w.rowGroups ++ [{ numRows := w.rgRows, totalByteSize := bytes.length,
                                               fileOffset := w.fileOffset, totalCompressed := bytes.length,
                                               ordinal := w.rowGroups.length, chunks := metas }],
                fileOffset := w.fileOffset + bytes.length,
                totalRows := w.totalRows + w.rgRows,
                rg := none, rgRows := 0,
                pagesDone := w.pagesDone ++ [finalizeColsPagesPreFixF23 D w w.cols cws] }, .ok)

def writeBatchPreFixF23 (D : Deps) (w : W) (b : Batch) : W × Status :=
  match w.cols[b.col]? with
  | none => (w, .invalidArgument)
  | some c =>
    match (ensureRowGroup (ensureHeader w)).rg with
    | none => (w, .other)
    | some cws =>
      match cws[b.col]? with
      | none => (w, .other)
      | some cw =>
        match colWriteBatchPreFixF23 D w.codec (targetPageSize w) c cw b with
        | none => (ensureRowGroup (ensureHeader w), .other)
        | some cw' =>
          ({ ensureRowGroup (ensureHeader w) with
               rg := some (setAt cws b.col cw'),
               rgRows := (ensureRowGroup (ensureHeader w)).rgRows + (if b.col = 0 then batchRows c b else 0) }, .ok)

def stepPreFixF23 (D : Deps) (w : W) : Op → W × Status
  | .batch b => writeBatchPreFixF23 D w b
  | .newRowGroup => flushRowGroupPreFixF23 D (ensureHeader w)

def closePreFixF23 (D : Deps) (w : W) : List Bytes × Status :=
  match flushRowGroupPreFixF23 D (ensureHeader w) with
  | (w', .ok) => (w'.out ++ [footerOf D w', le32 (footerOf D w').length, magic], .ok)
  | (w', s) => (w'.out, s)

def runPreFixF23 (D : Deps) (w : W) : List Op → List Status → List Bytes × List Status
  | [], acc => ((closePreFixF23 D w).1, acc ++ [(closePreFixF23 D w).2])
  | op :: ops, acc => runPreFixF23 D (stepPreFixF23 D w op).1 ops (acc ++ [(stepPreFixF23 D w op).2])

/-- the file the pinned code (before F23) wrote -/
def fileOfPreFixF23 (D : Deps) (cols : List Col) (codec pageSize : Nat) (createdBy : String) (ops : List Op) :
    Bytes × List Status :=
  ((runPreFixF23 D { cols := cols, codec := codec, pageSize := pageSize, createdBy := createdBy } ops []).1.flatten,
   (runPreFixF23 D { cols := cols, codec := codec, pageSize := pageSize, createdBy := createdBy } ops []).2)

/-- the writer state in which the pinned code serialised its footer -/
def closingStatePreFixF23 (D : Deps) (cols : List Col) (codec pageSize : Nat) (createdBy : String) (ops : List Op) : W :=
  (flushRowGroupPreFixF23 D (ensureHeader
    (ops.foldl (fun w op => (stepPreFixF23 D w op).1)
      { cols := cols, codec := codec, pageSize := pageSize, createdBy := createdBy }))).1

/-- the metadata the pinned code put into its footer -/
def footerDataPreFixF23 (D : Deps) (cols : List Col) (codec pageSize : Nat) (createdBy : String) (ops : List Op) :
    FooterData :=
  ⟨(closingStatePreFixF23 D cols codec pageSize createdBy ops).cols,
   (closingStatePreFixF23 D cols codec pageSize createdBy ops).createdBy,
   (closingStatePreFixF23 D cols codec pageSize createdBy ops).totalRows,
   (closingStatePreFixF23 D cols codec pageSize createdBy ops).rowGroups⟩

end Carquet.Impl.Writer
