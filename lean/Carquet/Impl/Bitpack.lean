/-
Model of src/core/bitpack.c (scalar bit packing, LSB first):

  carquet_bitunpack8_1bit .. _8bit   specialised unpackers on read_le16/24/32/40/48/56
  carquet_bitunpack8_32              dispatch (0 → zeros, 1..8 → specialised, else generic loop)
  carquet_bitpack8_32                0 → nothing, 8 → byte copy, else memset + OR-in loop
  carquet_bitpack_32 / carquet_bitunpack_32   groups of 8, then one padded group (tail; as
                                     repaired by fixes/F32-bitpack-tail-overrun.patch)

Fidelity: exact, with one change of representation: a byte buffer `p[0..n)` that the C code
reads or ORs into is represented by the little-endian integer it denotes (`leNat`), so
`p[k]` is `(x >>> 8k) % 256` and `p[k] |= (uint8_t)y` is `x ||| ((y % 256) <<< 8k)`; the
functions convert from / to `List UInt8` at their boundary (`leNat`, `leBytes`).  Loops keep
the C variables (`bit_pos`, `byte_pos`, `bits_needed`, `bits_in_buffer`, `bits_written`).
`input[i]` past the end of the list reads 0: every caller guarantees the `w` bytes are there
(the RLE model checks it before the call, as the C does).  Widths above 32 are outside the
model (shifts by ≥ 64 and a 32-byte stack buffer in the callers: undefined behaviour in C).
-/
namespace Carquet.Impl.Bitpack

/-- the little-endian integer denoted by a byte buffer (`read_le16` … `read_le56`) -/
def leNat : List UInt8 → Nat
  | [] => 0
  | b :: bs => b.toNat + 256 * leNat bs

/-- the `n` bytes of the little-endian representation of `x` -/
def leBytes : Nat → Nat → List UInt8
  | 0, _ => []
  | n + 1, x => UInt8.ofNat (x % 256) :: leBytes n (x / 256)

/-- `input[i]` -/
def byteAt (inp : List UInt8) (i : Nat) : Nat := (inp.getD i 0).toNat

/-- `values[k] = (v >> s_k) & m` for the listed shifts -/
def extract (v m : Nat) (shifts : List Nat) : List Nat := shifts.map (fun s => (v >>> s) &&& m)

/-- `carquet_bitunpack8_1bit` -/
def unpack8_1bit (inp : List UInt8) : List Nat :=
  extract (byteAt inp 0) 1 [0, 1, 2, 3, 4, 5, 6, 7]
/-- `carquet_bitunpack8_2bit` (`read_le16`) -/
def unpack8_2bit (inp : List UInt8) : List Nat :=
  extract (leNat (inp.take 2)) 0x3 [0, 2, 4, 6, 8, 10, 12, 14]
/-- `carquet_bitunpack8_3bit` (`read_le24`) -/
def unpack8_3bit (inp : List UInt8) : List Nat :=
  extract (leNat (inp.take 3)) 0x7 [0, 3, 6, 9, 12, 15, 18, 21]
/-- `carquet_bitunpack8_4bit` (`read_le32`) -/
def unpack8_4bit (inp : List UInt8) : List Nat :=
  extract (leNat (inp.take 4)) 0xF [0, 4, 8, 12, 16, 20, 24, 28]
/-- `carquet_bitunpack8_5bit` (`read_le40`) -/
def unpack8_5bit (inp : List UInt8) : List Nat :=
  extract (leNat (inp.take 5)) 0x1F [0, 5, 10, 15, 20, 25, 30, 35]
/-- `carquet_bitunpack8_6bit` (`read_le48`) -/
def unpack8_6bit (inp : List UInt8) : List Nat :=
  extract (leNat (inp.take 6)) 0x3F [0, 6, 12, 18, 24, 30, 36, 42]
/-- `carquet_bitunpack8_7bit` (`read_le56`) -/
def unpack8_7bit (inp : List UInt8) : List Nat :=
  extract (leNat (inp.take 7)) 0x7F [0, 7, 14, 21, 28, 35, 42, 49]
/-- `carquet_bitunpack8_8bit` -/
def unpack8_8bit (inp : List UInt8) : List Nat :=
  [byteAt inp 0, byteAt inp 1, byteAt inp 2, byteAt inp 3,
   byteAt inp 4, byteAt inp 5, byteAt inp 6, byteAt inp 7]

/-- `uint32_t mask = (uint32_t)((1ULL << bit_width) - 1)` -/
def mask (w : Nat) : Nat := ((1 <<< w) - 1) % 2 ^ 32

/-- state of the generic unpack loop -/
structure GenSt where
  bits : Nat
  bitsNeeded : Nat
  bitsInBuf : Nat
  bitPos : Nat
  bytePos : Nat
  deriving DecidableEq, Repr

/-- `bits_from_byte` -/
def bitsFromByte (s : GenSt) : Nat := min (8 - s.bitPos % 8) s.bitsNeeded

/-- `extracted = (byte_val >> shift_down) & ((1U << bits_from_byte) - 1)` -/
def extracted (inp : List UInt8) (s : GenSt) : Nat :=
  (byteAt inp s.bytePos >>> (s.bitPos % 8)) &&& ((1 <<< bitsFromByte s) - 1)

/-- one iteration of `while (bits_needed > 0)` -/
def genStep (inp : List UInt8) (s : GenSt) : GenSt :=
  { bits := s.bits ||| (extracted inp s <<< s.bitsInBuf),
    bitsNeeded := s.bitsNeeded - bitsFromByte s,
    bitsInBuf := s.bitsInBuf + bitsFromByte s,
    bitPos := s.bitPos + bitsFromByte s,
    bytePos := if (s.bitPos + bitsFromByte s) % 8 = 0 then s.bytePos + 1 else s.bytePos }

/-- `while (bits_needed > 0)`; fuel `bits_needed` suffices (each iteration takes ≥ 1 bit) -/
def genInner (inp : List UInt8) : Nat → GenSt → GenSt
  | 0, s => s
  | f + 1, s => if s.bitsNeeded = 0 then s else genInner inp f (genStep inp s)

/-- `for (i = 0; i < 8; i++)` of the general case, `n` iterations left -/
def genOuter (w : Nat) (inp : List UInt8) : Nat → Nat → Nat → List Nat
  | 0, _, _ => []
  | n + 1, bitPos, bytePos =>
    ((genInner inp w ⟨0, w, 0, bitPos, bytePos⟩).bits &&& mask w) ::
      genOuter w inp n (genInner inp w ⟨0, w, 0, bitPos, bytePos⟩).bitPos
        (genInner inp w ⟨0, w, 0, bitPos, bytePos⟩).bytePos

/-- the general case of `carquet_bitunpack8_32` (used for widths 9..32) -/
def unpack8Generic (w : Nat) (inp : List UInt8) : List Nat := genOuter w inp 8 0 0

/-- `carquet_bitunpack8_32(input, bit_width, values)` -/
def unpack8 (w : Nat) (inp : List UInt8) : List Nat :=
  if w = 0 then List.replicate 8 0
  else if w = 1 then unpack8_1bit inp
  else if w = 2 then unpack8_2bit inp
  else if w = 3 then unpack8_3bit inp
  else if w = 4 then unpack8_4bit inp
  else if w = 5 then unpack8_5bit inp
  else if w = 6 then unpack8_6bit inp
  else if w = 7 then unpack8_7bit inp
  else if w = 8 then unpack8_8bit inp
  else unpack8Generic w inp

/-- `output[k] |= (uint8_t)x` on the integer view of `output` -/
def orByte (acc k x : Nat) : Nat := acc ||| ((x % 256) <<< (8 * k))

/-- inner `while (bits_written < bit_width) { output[byte_pos] |= (uint8_t)val; val >>= 8;
bits_written += 8; byte_pos++; }` — fuel `w` suffices -/
def packTail (w : Nat) : Nat → Nat → Nat → Nat → Nat → Nat
  | 0, acc, _, _, _ => acc
  | f + 1, acc, bytePos, val, bw =>
    if bw < w then packTail w f (orByte acc bytePos val) (bytePos + 1) (val >>> 8) (bw + 8)
    else acc

/-- body of `for (i = 0; i < 8; i++)` in `carquet_bitpack8_32` for the value `v` at `bit_pos` -/
def packValue (w acc bitPos v : Nat) : Nat :=
  if 8 - bitPos % 8 < w then
    packTail w w (orByte acc (bitPos / 8) (((v &&& mask w) <<< (bitPos % 8)) % 2 ^ 32))
      (bitPos / 8 + 1) ((v &&& mask w) >>> (8 - bitPos % 8)) (8 - bitPos % 8)
  else
    orByte acc (bitPos / 8) (((v &&& mask w) <<< (bitPos % 8)) % 2 ^ 32)

/-- the `for` loop over the values (8 of them in C) -/
def packLoop (w : Nat) : List Nat → Nat → Nat → Nat
  | [], _, acc => acc
  | v :: vs, bitPos, acc => packLoop w vs (bitPos + w) (packValue w acc bitPos v)

/-- `carquet_bitpack8_32(values, bit_width, output)`: the `bit_width` bytes written
(`values` has 8 entries in C) -/
def pack8 (w : Nat) (vals : List Nat) : List UInt8 :=
  if w = 0 then []
  else if w = 8 then vals.map (fun v => UInt8.ofNat v)
  else leBytes w (packLoop w vals 0 0)

/-- `carquet_packed_size(count, bit_width)` -/
def packedSize (count w : Nat) : Nat := (count * w + 7) / 8

/-- `for (; i + 8 <= count; i += 8)` of `carquet_bitpack_32`, `g` iterations -/
def packGroups (w : Nat) : Nat → List Nat → List UInt8
  | 0, _ => []
  | g + 1, vals => pack8 w (vals.take 8) ++ packGroups w g (vals.drop 8)

/-- `carquet_bitpack_32(values, count, bit_width, output)`: the bytes it reports as written
(`bytes_written` = length of the result): full groups of 8, then the zero-padded tail group
packed into `uint8_t packed[32]` of which `packed_size(rem, w)` bytes are copied out -/
def pack (w : Nat) (vals : List Nat) : List UInt8 :=
  if w = 0 ∨ vals.length = 0 then []
  else if vals.length % 8 = 0 then packGroups w (vals.length / 8) vals
  else packGroups w (vals.length / 8) vals ++
    (pack8 w (vals.drop (vals.length / 8 * 8) ++ List.replicate (8 - vals.length % 8) 0)).take
      (packedSize (vals.length % 8) w)

/-- `for (; i + 8 <= count; i += 8)` of `carquet_bitunpack_32`, `g` iterations -/
def unpackGroups (w : Nat) : Nat → List UInt8 → List Nat
  | 0, _ => []
  | g + 1, inp => unpack8 w inp ++ unpackGroups w g (inp.drop w)

/-- `carquet_bitunpack_32(input, count, bit_width, values)`: the values and `bytes_consumed`;
the tail is unpacked from `uint8_t packed[32] = {0}` holding the `packed_size(rem, w)` tail bytes -/
def unpack (w : Nat) (inp : List UInt8) (count : Nat) : List Nat × Nat :=
  if w = 0 then (List.replicate count 0, 0)
  else if count % 8 = 0 then (unpackGroups w (count / 8) inp, count / 8 * w)
  else (unpackGroups w (count / 8) inp ++
          (unpack8 w (((inp.drop (count / 8 * w)).take (packedSize (count % 8) w)) ++
                      List.replicate (32 - packedSize (count % 8) w) 0)).take (count % 8),
        count / 8 * w + packedSize (count % 8) w)

/-- Pinned code (before fixes/F32-bitpack-tail-overrun.patch): bytes of the caller's buffer that
`carquet_bitpack_32` wrote / `carquet_bitunpack_32` read — the tail group was processed in
place as a whole group of `w` bytes although only `packed_size(rem, w)` are reported.
After the fix the tail goes through a local 32-byte buffer (`packed`), which is what `pack`
and `unpack` above mirror, and the bytes touched are exactly the bytes reported. -/
def touchedPreFix (w count : Nat) : Nat :=
  if w = 0 then 0 else count / 8 * w + (if count % 8 = 0 then 0 else w)

example : pack8 3 [0, 1, 2, 3, 4, 5, 6, 7] = [0x88, 0xC6, 0xFA] := by decide
example : unpack8 3 [0x88, 0xC6, 0xFA] = [0, 1, 2, 3, 4, 5, 6, 7] := by decide
example : pack 9 [511, 0, 1] = [0xFF, 0x01, 0x04, 0x00] := by decide
example : unpack 9 [0xFF, 0x01, 0x04, 0x00] 3 = ([511, 0, 1], 4) := by decide
example : pack 32 [0xdeadbeef] = [0xef, 0xbe, 0xad, 0xde] ∧ touchedPreFix 32 1 = 32 := by decide
example : unpack8 17 (pack8 17 [1, 131071, 5, 70000, 0, 99999, 65536, 3]) =
    [1, 131071, 5, 70000, 0, 99999, 65536, 3] := by decide

end Carquet.Impl.Bitpack
