import Carquet.Impl.ThriftParquet
/-
Model of the two serialisers of src/metadata/page_index.c (`carquet_column_index_serialize`,
`carquet_offset_index_serialize`) together with the builder state they read, as left by
`carquet_column_index_add_page` / `carquet_offset_index_add_page`.  Fidelity: exact for the bytes
appended to the output buffer and the status returned (`enc.status`; allocation failures of the
buffer are C19's business, as for the other writers).

carquet has no parser for these two structures, and nothing in the library calls the
serialisers (they are exported but declared in no header); the harness declares them itself.

Conventions: `uint8_t* min_values[i]` + `min_value_lens[i]` is an `Option Bytes` (`none` = NULL,
which `add_page` leaves when the caller passed NULL or a length ≤ 0; a stored value is never
empty); the parallel arrays of a builder are one list of page records.
-/
namespace Carquet.Impl.ThriftPageIndex
open Carquet.Impl.Thrift Carquet.Impl.ThriftParquet

/-- one page of `struct carquet_column_index_builder` -/
structure CIPage where
  nullCount : Int := 0
  minV : Option Bytes := none
  maxV : Option Bytes := none
  nullPage : Bool := false
  deriving DecidableEq, Repr, Inhabited

/-- `struct carquet_column_index_builder` as the serialiser sees it -/
structure ColumnIndexB where
  pages : List CIPage := []
  boundaryOrder : Int := 0
  deriving DecidableEq, Repr, Inhabited

/-- `carquet_column_index_add_page` (builder non-NULL, allocations succeed): a bound is stored
only when the pointer is non-NULL and the length positive -/
def storedBound (p : Option Bytes) : Option Bytes :=
  match p with
  | none => none
  | some b => if b.isEmpty then none else some b

def ColumnIndexB.addPage (b : ColumnIndexB) (nullCount : Int) (minV maxV : Option Bytes) (isNull : Bool) : ColumnIndexB :=
  { b with pages := b.pages ++ [{ nullCount := nullCount, minV := storedBound minV, maxV := storedBound maxV,
                                  nullPage := isNull }] }

/-- `if (p[i]) thrift_write_binary(enc, p[i], len[i]); else thrift_write_binary(enc, NULL, 0);` -/
def writeOptBin (e : Enc) (o : Option Bytes) : Enc :=
  match o with
  | none => writeBinary e []
  | some b => writeBinary e b

/-- the encoder state at the end of `carquet_column_index_serialize` -/
def writeColumnIndexEnc (b : ColumnIndexB) : Enc :=
  writeStructEnd
    (wEach writeI (writeListBegin (writeFieldHeader
      (wI
        (wEach writeOptBin (writeListBegin (writeFieldHeader
          (wEach writeOptBin (writeListBegin (writeFieldHeader
            (wEach writeBool (writeListBegin (writeFieldHeader (writeStructBegin Enc.init) tList 1)
              (tBool true) b.pages.length) (b.pages.map (·.nullPage)))
            tList 2) tBinary b.pages.length) (b.pages.map (·.minV)))
          tList 3) tBinary b.pages.length) (b.pages.map (·.maxV)))
        tI32 4 b.boundaryOrder)
      tList 5) tI64 b.pages.length) (b.pages.map (·.nullCount)))

/-- `carquet_column_index_serialize`: the bytes appended to the output buffer -/
def writeColumnIndex (b : ColumnIndexB) : Bytes := (writeColumnIndexEnc b).out
def writeColumnIndexStatus (b : ColumnIndexB) : Option Err := (writeColumnIndexEnc b).status

/-- one page of `struct carquet_offset_index_builder` (`uncompressedSize` is kept only when the
builder tracks uncompressed sizes) -/
structure OIPage where
  offset : Int := 0
  compressedSize : Int := 0
  firstRowIndex : Int := 0
  uncompressedSize : Int := 0
  deriving DecidableEq, Repr, Inhabited

structure OffsetIndexB where
  trackUncompressed : Bool := false
  pages : List OIPage := []
  deriving DecidableEq, Repr, Inhabited

/-- `carquet_offset_index_add_page` (builder non-NULL, allocations succeed) -/
def OffsetIndexB.addPage (b : OffsetIndexB) (offset compressedSize firstRow uncompressedSize : Int) : OffsetIndexB :=
  { b with pages := b.pages ++ [{ offset := offset, compressedSize := compressedSize, firstRowIndex := firstRow,
                                  uncompressedSize := if b.trackUncompressed then uncompressedSize else 0 }] }

/-- the PageLocation struct written per page -/
def writePageLocation (e : Enc) (p : OIPage) : Enc :=
  writeStructEnd (wI (wI (wI (writeStructBegin e) tI64 1 p.offset) tI32 2 p.compressedSize) tI64 3 p.firstRowIndex)

/-- BEFORE the F70 repair, field 2 of `carquet_offset_index_serialize`:
`if (track_uncompressed && uncompressed_sizes) { header LIST 2; list_begin I32 n; i32 … }` -/
def wUncompressedSizes (e : Enc) (b : OffsetIndexB) : Enc :=
  if b.trackUncompressed then
    wEach writeI (writeListBegin (writeFieldHeader e tList 2) tI32 b.pages.length) (b.pages.map (·.uncompressedSize))
  else e

/-- the encoder state at the end of `carquet_offset_index_serialize` before the F70 repair -/
def writeOffsetIndexEncPreFix (b : OffsetIndexB) : Enc :=
  writeStructEnd
    (wUncompressedSizes
      (wEach writePageLocation (writeListBegin (writeFieldHeader (writeStructBegin Enc.init) tList 1)
        tStruct b.pages.length) b.pages)
      b)

def writeOffsetIndexPreFix (b : OffsetIndexB) : Bytes := (writeOffsetIndexEncPreFix b).out

/-- the encoder state at the end of `carquet_offset_index_serialize` (repaired code: the page
locations only; the uncompressed sizes a builder may track are not part of the structure) -/
def writeOffsetIndexEnc (b : OffsetIndexB) : Enc :=
  writeStructEnd
    (wEach writePageLocation (writeListBegin (writeFieldHeader (writeStructBegin Enc.init) tList 1)
      tStruct b.pages.length) b.pages)

/-- `carquet_offset_index_serialize`: the bytes appended to the output buffer -/
def writeOffsetIndex (b : OffsetIndexB) : Bytes := (writeOffsetIndexEnc b).out
def writeOffsetIndexStatus (b : OffsetIndexB) : Option Err := (writeOffsetIndexEnc b).status

/-! Well-formedness: what the C types give (`int32_t`/`int64_t` ranges, `num_pages` an `int32_t`,
lengths positive `int32_t`). -/

def CIPage.wf (p : CIPage) : Bool :=
  isI64 p.nullCount && okOpt (fun b => isBin b && !b.isEmpty) p.minV && okOpt (fun b => isBin b && !b.isEmpty) p.maxV

def ColumnIndexB.wf (b : ColumnIndexB) : Bool :=
  b.pages.all CIPage.wf && decide (b.pages.length < 2147483648) && isI32 b.boundaryOrder

def OIPage.wf (p : OIPage) : Bool :=
  isI64 p.offset && isI32 p.compressedSize && isI64 p.firstRowIndex && isI32 p.uncompressedSize

def OffsetIndexB.wf (b : OffsetIndexB) : Bool :=
  b.pages.all OIPage.wf && decide (b.pages.length < 2147483648)

end Carquet.Impl.ThriftPageIndex
