/-
Model of src/encoding/delta.c (DELTA_BINARY_PACKED, int32 and int64) as repaired by
fixes/F13-delta-wide-miniblocks.patch and fixes/F30-delta-header-validation.patch; the code
before the repairs is kept as the `…PreFix` variants (selected by `pre = true`).

Fidelity: exact, function by function, with these representation choices
  * `data + pos .. data + size` is the list `rest`; `pos` is kept beside it for `bytes_consumed`;
    `pos + k > size` is `rest.length < k`, `pos >= size` is `rest = []`;
  * the miniblock buffer and its cursor (`mini_block_values`, `mini_block_pos`,
    `values_in_mini_block`) are the list `pending` of deltas not yet handed out; the width
    array and `current_mini_block` are the list `widthsLeft` of widths not yet used
    (`current_mini_block >= mini_blocks_per_block` is `widthsLeft = []`);
  * `carquet_bitpack_32` / `carquet_bitunpack_32` (src/core/bitpack.c, modelled loop by loop in
    Impl/Bitpack by the bit-packing component) appear here by their LSB-first input/output
    behaviour on whole groups of 8 values (`packBits` / `unpackBits`), which is also the
    behaviour of the new `bitpack_wide` / `bitunpack_wide` bit loops;
  * 64-bit registers are `BitVec 64`; `int32_t`/`size_t` quantities that cannot wrap in the
    repaired code are `Nat`.
-/
namespace Carquet.Impl.Delta

inductive Status where
  | invalidArgument   -- CARQUET_ERROR_INVALID_ARGUMENT = 1
  | outOfMemory       -- CARQUET_ERROR_OUT_OF_MEMORY = 2
  | decode            -- CARQUET_ERROR_DECODE = 40
  | encode            -- CARQUET_ERROR_ENCODE = 41
  | endOfData         -- CARQUET_ERROR_END_OF_DATA = 63
deriving Repr, DecidableEq

def Status.code : Status → Nat
  | .invalidArgument => 1 | .outOfMemory => 2 | .decode => 40 | .encode => 41 | .endOfData => 63

deriving instance DecidableEq for Except

/-- `DELTA_BLOCK_SIZE`, `DELTA_MINI_BLOCKS`, `DELTA_MINI_BLOCK_SIZE` (compared with the values
extracted from the source in `Gen/DeltaConstants`) -/
def blockSize : Nat := 128
def miniBlocks : Nat := 4
def miniBlockSize : Nat := blockSize / miniBlocks

/-! ### bit strings (LSB first) -/

def bitsOfNat : Nat → Nat → List Bool
  | 0, _ => []
  | w + 1, n => (n % 2 == 1) :: bitsOfNat w (n / 2)

def natOfBits : List Bool → Nat
  | [] => 0
  | b :: bs => (if b then 1 else 0) + 2 * natOfBits bs

def bytesOfBits : Nat → List Bool → List UInt8
  | 0, _ => []
  | n + 1, bs => UInt8.ofNat (natOfBits (bs.take 8)) :: bytesOfBits n (bs.drop 8)

def bitsOfBytes (bs : List UInt8) : List Bool := bs.flatMap (fun b => bitsOfNat 8 b.toNat)

def unpackNat (w : Nat) : Nat → List Bool → List Nat
  | 0, _ => []
  | n + 1, bits => natOfBits (bits.take w) :: unpackNat w n (bits.drop w)

/-- `carquet_bitpack_32(values, count, w, out)` for `w ≤ 32` (the caller's `(uint32_t)` cast and
the callee's `& mask` keep the low `w` bits), and `bitpack_wide` for `33 ≤ w ≤ 64` (bits `0..w-1`
of every value, OR-ed into a zeroed buffer of `(count*w+7)/8` bytes, `bit_pos` running on). -/
def packBits (w : Nat) (vals : List (BitVec 64)) : List UInt8 :=
  bytesOfBits ((vals.length * w + 7) / 8) (vals.flatMap (fun v => bitsOfNat w v.toNat))

/-- `carquet_bitunpack_32(in, count, w, out)` (then widened to 64 bits) for `w ≤ 32`,
`bitunpack_wide` for `33 ≤ w ≤ 64`. -/
def unpackBits (w count : Nat) (bytes : List UInt8) : List (BitVec 64) :=
  (unpackNat w count (bitsOfBytes bytes)).map (BitVec.ofNat 64)

/-- pre-F13 encoder, widths > 32: `(w+7)/8` whole little-endian bytes per value -/
def leBytes (v : BitVec 64) : Nat → Nat → List UInt8
  | 0, _ => []
  | n + 1, b => UInt8.ofNat ((v.toNat >>> (8 * b)) % 256) :: leBytes v n (b + 1)

def packWidePreFix (w : Nat) (vals : List (BitVec 64)) : List UInt8 :=
  vals.flatMap (fun v => leBytes v ((w + 7) / 8) 0)

def leValue : List UInt8 → Nat → Nat
  | [], _ => 0
  | b :: bs, k => b.toNat <<< (8 * k) + leValue bs (k + 1)

/-- pre-F13 decoder, widths 33..64 (for widths > 64 the C code shifts by ≥ 64: undefined, not modelled) -/
def unpackWidePreFix (w : Nat) : Nat → List UInt8 → List (BitVec 64)
  | 0, _ => []
  | n + 1, bytes => BitVec.ofNat 64 (leValue (bytes.take ((w + 7) / 8)) 0) ::
      unpackWidePreFix w n (bytes.drop ((w + 7) / 8))

/-- bytes touched by `carquet_bitunpack_32(in, count, w, …)`: every group of 8 values reads `w`
bytes, and so does the padded last group even when it holds fewer than 8 values -/
def unpack32ReadExtent (count w : Nat) : Nat := (count / 8) * w + (if count % 8 = 0 then 0 else w)

/-! ### varints -/

/-- loop of `read_uleb128`: at most 10 bytes; `none` is the C function's `return 0` -/
def readUlebLoop : Nat → Nat → BitVec 64 → Nat → List UInt8 → Option (BitVec 64 × Nat)
  | 0, _, _, _, _ => none
  | _ + 1, _, _, _, [] => none
  | fuel + 1, shift, acc, i, b :: bs =>
    if b.toNat &&& 0x80 = 0 then some (acc ||| (BitVec.ofNat 64 (b.toNat &&& 0x7F) <<< shift), i + 1)
    else readUlebLoop fuel (shift + 7) (acc ||| (BitVec.ofNat 64 (b.toNat &&& 0x7F) <<< shift)) (i + 1) bs

/-- `read_uleb128(data, size, &value)`: (value, bytes read) -/
def readUleb128 (data : List UInt8) : Option (BitVec 64 × Nat) := readUlebLoop 10 0 0#64 0 data

/-- `zigzag_decode64` -/
def zigzagDecode64 (n : BitVec 64) : BitVec 64 := (n >>> 1) ^^^ (~~~(n &&& 1#64) + 1#64)

/-- `write_uleb128` (a 64-bit value needs at most 10 bytes; the fuel is never exhausted) -/
def writeUlebLoop : Nat → BitVec 64 → List UInt8
  | 0, v => [UInt8.ofNat v.toNat]
  | fuel + 1, v =>
    if 0x80 ≤ v.toNat then UInt8.ofNat (v.toNat ||| 0x80) :: writeUlebLoop fuel (v >>> 7)
    else [UInt8.ofNat v.toNat]

def writeUleb128 (v : BitVec 64) : List UInt8 := writeUlebLoop 10 v

/-- `zigzag_encode64` -/
def zigzagEncode64 (n : BitVec 64) : BitVec 64 := (n <<< 1) ^^^ (n.sshiftRight 63)

/-- loop of `bit_width_required` -/
def bitWidthLoop : Nat → Nat → Nat → Nat
  | 0, _, w => w
  | fuel + 1, v, w => if 0 < v then bitWidthLoop fuel (v / 2) (w + 1) else w

/-- `bit_width_required` -/
def bitWidthRequired (v : BitVec 64) : Nat := if v = 0#64 then 0 else bitWidthLoop 64 v.toNat 0

/-! ### encoder -/

/-- `delta_encoder_t`: `out` is `data[0..pos)`, `deltas` is `deltas[0..delta_count)` -/
structure Enc where
  out : List UInt8
  cap : Nat
  last : BitVec 64
  deltas : List (BitVec 64)
deriving Repr

/-- "Find min delta": signed comparison -/
def minDeltaOf : BitVec 64 → List (BitVec 64) → BitVec 64
  | m, [] => m
  | m, d :: ds => minDeltaOf (if d.slt m then d else m) ds

/-- `max_val` of one miniblock: unsigned maximum of `delta - min_delta` -/
def maxAdjusted (min : BitVec 64) : BitVec 64 → List (BitVec 64) → BitVec 64
  | m, [] => m
  | m, d :: ds => maxAdjusted min (if m.ult (d - min) then d - min else m) ds

/-- `deltas[start..end)` of miniblock `mb` -/
def miniSlice (ds : List (BitVec 64)) (mb : Nat) : List (BitVec 64) :=
  (ds.drop (mb * miniBlockSize)).take miniBlockSize

def blockMin (ds : List (BitVec 64)) : BitVec 64 := minDeltaOf (ds.headD 0#64) ds.tail

/-- `bit_widths[mb]` for the miniblock holding `slice`, frame of reference `min` -/
def miniWidth (min : BitVec 64) (slice : List (BitVec 64)) : Nat :=
  bitWidthRequired (maxAdjusted min 0#64 slice)

/-- contribution of one miniblock to `packed_bytes_needed` -/
def miniBytesNeeded (pre : Bool) (w : Nat) : Nat :=
  if w = 0 then 0
  else if pre && decide (32 < w) then miniBlockSize * ((w + 7) / 8)
  else miniBlockSize * w / 8

/-- `to_pack[]`: adjusted deltas, zero padded to the miniblock size -/
def toPack (min : BitVec 64) (slice : List (BitVec 64)) : List (BitVec 64) :=
  slice.map (fun d => d - min) ++ List.replicate (miniBlockSize - slice.length) 0#64

/-- bytes written for one miniblock of declared width `w` -/
def miniBytes (pre : Bool) (w : Nat) (min : BitVec 64) (slice : List (BitVec 64)) : List UInt8 :=
  if w = 0 then []
  else if pre && decide (32 < w) then packWidePreFix w (toPack min slice)
  else packBits w (toPack min slice)

def miniIndices : List Nat := List.range miniBlocks

/-- `bit_widths[0..4)` -/
def blockWidths (min : BitVec 64) (ds : List (BitVec 64)) : List Nat :=
  miniIndices.map (fun mb => miniWidth min (miniSlice ds mb))

/-- what one `delta_encoder_flush_block` appends for the buffered deltas `ds ≠ []` whose signed
minimum is `min` -/
def blockBytesMin (pre : Bool) (min : BitVec 64) (ds : List (BitVec 64)) : List UInt8 :=
  writeUleb128 (zigzagEncode64 min) ++
  (blockWidths min ds).map UInt8.ofNat ++
  miniIndices.flatMap (fun mb => miniBytes pre (miniWidth min (miniSlice ds mb)) min (miniSlice ds mb))

def blockBytes (pre : Bool) (ds : List (BitVec 64)) : List UInt8 := blockBytesMin pre (blockMin ds) ds

def packedBytesNeeded (pre : Bool) (ds : List (BitVec 64)) : Nat :=
  ((blockWidths (blockMin ds) ds).map (miniBytesNeeded pre)).sum

/-- `delta_encoder_flush_block` -/
def flushBlock (pre : Bool) (e : Enc) : Except Status Enc :=
  if e.deltas = [] then .ok e
  else if e.cap < e.out.length + (10 + miniBlocks + packedBytesNeeded pre e.deltas) then .error .encode
  else .ok { e with out := e.out ++ blockBytes pre e.deltas, deltas := [] }

/-- the `for (i = 1; i < num_values; i++)` loop of `carquet_delta_encode_int32/int64` on the
(sign-extended) values -/
def encodeLoop (pre : Bool) : List (BitVec 64) → Enc → Except Status Enc
  | [], e => .ok e
  | v :: vs, e =>
    if e.deltas.length + 1 = blockSize then
      match flushBlock pre { e with deltas := e.deltas ++ [v - e.last], last := v } with
      | .error s => .error s
      | .ok e' => encodeLoop pre vs e'
    else encodeLoop pre vs { e with deltas := e.deltas ++ [v - e.last], last := v }

def headerBytes (count : Nat) (first : BitVec 64) : List UInt8 :=
  writeUleb128 (BitVec.ofNat 64 blockSize) ++ writeUleb128 (BitVec.ofNat 64 miniBlocks) ++
  writeUleb128 (BitVec.ofNat 64 count) ++ writeUleb128 (zigzagEncode64 first)

/-- body shared by `carquet_delta_encode_int32` and `_int64` (values already widened to 64 bits) -/
def encodeV (pre : Bool) (vs : List (BitVec 64)) (cap : Nat) : Except Status (List UInt8) :=
  match vs with
  | [] => .ok []
  | v :: rest =>
    if cap < 40 then .error .encode
    else match encodeLoop pre rest ⟨headerBytes (rest.length + 1) v, cap, v, []⟩ with
      | .error s => .error s
      | .ok e =>
        match flushBlock pre e with
        | .error s => .error s
        | .ok e' => .ok e'.out

/-- `carquet_delta_encode_int64(values, n, data, capacity, &written)`: the bytes `data[0..written)` -/
def encodeInt64 (vs : List (BitVec 64)) (cap : Nat) : Except Status (List UInt8) := encodeV false vs cap

/-- `carquet_delta_encode_int32`: values enter as `(int64_t)values[i]` -/
def encodeInt32 (vs : List (BitVec 32)) (cap : Nat) : Except Status (List UInt8) :=
  encodeV false (vs.map (BitVec.signExtend 64)) cap

def encodeInt64PreFix (vs : List (BitVec 64)) (cap : Nat) : Except Status (List UInt8) := encodeV true vs cap
def encodeInt32PreFix (vs : List (BitVec 32)) (cap : Nat) : Except Status (List UInt8) :=
  encodeV true (vs.map (BitVec.signExtend 64)) cap

/-! ### decoder -/

/-- `delta_decoder_t` -/
structure Dec where
  rest : List UInt8
  pos : Nat
  blockSize : Nat
  miniBlocksPerBlock : Nat
  totalValues : Nat
  valuesDecoded : Nat
  firstValue : BitVec 64
  lastValue : BitVec 64
  minDelta : BitVec 64
  widthsLeft : List UInt8
  pending : List (BitVec 64)
deriving Repr

/-- `delta_decoder_init` (repaired): every header number is checked before it is narrowed, and
the geometry must be one the format allows -/
def init (data : List UInt8) : Except Status Dec :=
  match readUleb128 data with
  | none => .error .decode
  | some (bs, n1) =>
    if blockSize < bs.toNat then .error .decode
    else match readUleb128 (data.drop n1) with
    | none => .error .decode
    | some (mb, n2) =>
      if miniBlocks < mb.toNat then .error .decode
      else if mb.toNat = 0 then .error .decode
      else if bs.toNat = 0 then .error .decode
      else if miniBlockSize < bs.toNat / mb.toNat then .error .decode
      else if bs.toNat % 128 ≠ 0 ∨ bs.toNat % mb.toNat ≠ 0 ∨ (bs.toNat / mb.toNat) % 32 ≠ 0 then .error .decode
      else match readUleb128 (data.drop (n1 + n2)) with
      | none => .error .decode
      | some (total, n3) =>
        if 2147483647 < total.toNat then .error .decode
        else match readUleb128 (data.drop (n1 + n2 + n3)) with
        | none => .error .decode
        | some (first, n4) =>
          .ok { rest := data.drop (n1 + n2 + n3 + n4), pos := n1 + n2 + n3 + n4,
                blockSize := bs.toNat, miniBlocksPerBlock := mb.toNat, totalValues := total.toNat,
                valuesDecoded := 0, firstValue := zigzagDecode64 first, lastValue := zigzagDecode64 first,
                minDelta := 0#64, widthsLeft := [], pending := [] }

/-- `delta_decoder_read_block` -/
def readBlock (d : Dec) : Except Status Dec :=
  if d.rest = [] then .error .endOfData
  else match readUleb128 d.rest with
    | none => .error .decode
    | some (zz, n) =>
      if (d.rest.drop n).length < d.miniBlocksPerBlock then .error .decode
      else .ok { d with minDelta := zigzagDecode64 zz,
                        widthsLeft := (d.rest.drop n).take d.miniBlocksPerBlock,
                        rest := (d.rest.drop n).drop d.miniBlocksPerBlock,
                        pos := d.pos + n + d.miniBlocksPerBlock }

/-- the part of `delta_decoder_read_mini_block` after the block header is in place:
`w` is `bit_widths[current_mini_block]`, `ws` the widths after it -/
def readMiniData (pre : Bool) (d : Dec) (w : UInt8) (ws : List UInt8) : Except Status Dec :=
  if w.toNat = 0 then
    .ok { d with pending := List.replicate (d.blockSize / d.miniBlocksPerBlock) d.minDelta, widthsLeft := ws }
  else if w.toNat ≤ 32 ∨ (¬ pre ∧ w.toNat ≤ 64) then
    if d.rest.length < ((d.blockSize / d.miniBlocksPerBlock) * w.toNat + 7) / 8 then .error .decode
    else .ok { d with
      pending := (unpackBits w.toNat (d.blockSize / d.miniBlocksPerBlock)
                    (d.rest.take (((d.blockSize / d.miniBlocksPerBlock) * w.toNat + 7) / 8))).map (fun u => d.minDelta + u),
      rest := d.rest.drop (((d.blockSize / d.miniBlocksPerBlock) * w.toNat + 7) / 8),
      pos := d.pos + ((d.blockSize / d.miniBlocksPerBlock) * w.toNat + 7) / 8,
      widthsLeft := ws }
  else if pre ∧ w.toNat ≤ 64 then
    if d.rest.length < (d.blockSize / d.miniBlocksPerBlock) * ((w.toNat + 7) / 8) then .error .decode
    else .ok { d with
      pending := (unpackWidePreFix w.toNat (d.blockSize / d.miniBlocksPerBlock) d.rest).map (fun u => d.minDelta + u),
      rest := d.rest.drop ((d.blockSize / d.miniBlocksPerBlock) * ((w.toNat + 7) / 8)),
      pos := d.pos + (d.blockSize / d.miniBlocksPerBlock) * ((w.toNat + 7) / 8),
      widthsLeft := ws }
  else .error .decode   -- repaired code: "no value type is wider than 64 bits" (pre-fix: UB, not modelled)

/-- `delta_decoder_read_mini_block` -/
def readMiniBlock (pre : Bool) (d : Dec) : Except Status Dec :=
  match d.widthsLeft with
  | w :: ws => readMiniData pre d w ws
  | [] =>
    match readBlock d with
    | .error s => .error s
    | .ok d' =>
      match d'.widthsLeft with
      | w :: ws => readMiniData pre d' w ws
      | [] => .error .decode   -- unreachable: `mini_blocks_per_block ≥ 1` after `init`

/-- the tail of `delta_decoder_next`: take the next buffered delta -/
def popDelta (d : Dec) : Except Status (BitVec 64 × Dec) :=
  match d.pending with
  | x :: xs => .ok (d.lastValue + x, { d with lastValue := d.lastValue + x, pending := xs,
                                               valuesDecoded := d.valuesDecoded + 1 })
  | [] => .error .decode   -- unreachable: a miniblock holds 32 values after `init`

/-- `delta_decoder_next` -/
def next (pre : Bool) (d : Dec) : Except Status (BitVec 64 × Dec) :=
  if d.totalValues ≤ d.valuesDecoded then .error .endOfData
  else if d.valuesDecoded = 0 then .ok (d.firstValue, { d with valuesDecoded := 1 })
  else match d.pending with
    | _ :: _ => popDelta d
    | [] =>
      match readMiniBlock pre d with
      | .error s => .error s
      | .ok d' => popDelta d'

/-- `for (i = 0; i < num_values; i++) delta_decoder_next(…)` -/
def decodeLoop (pre : Bool) : Nat → Dec → Except Status (List (BitVec 64) × Dec)
  | 0, d => .ok ([], d)
  | n + 1, d =>
    match next pre d with
    | .error s => .error s
    | .ok (v, d') =>
      match decodeLoop pre n d' with
      | .error s => .error s
      | .ok (vs, d'') => .ok (v :: vs, d'')

def decodeV (pre : Bool) (data : List UInt8) (n : Nat) : Except Status (List (BitVec 64) × Nat) :=
  match init data with
  | .error s => .error s
  | .ok d =>
    match decodeLoop pre n d with
    | .error s => .error s
    | .ok (vs, d') => .ok (vs, d'.pos)

/-- `carquet_delta_decode_int64(data, size, values, n, &consumed)`: (values[0..n), consumed) -/
def decodeInt64 (data : List UInt8) (n : Nat) : Except Status (List (BitVec 64) × Nat) := decodeV false data n

/-- `carquet_delta_decode_int32`: every value narrowed by `(int32_t)val` -/
def decodeInt32 (data : List UInt8) (n : Nat) : Except Status (List (BitVec 32) × Nat) :=
  match decodeV false data n with
  | .error s => .error s
  | .ok (vs, c) => .ok (vs.map (BitVec.truncate 32), c)

/-! ### the header check before F30 (kept for the regression witness) -/

/-- `(int32_t)val` -/
def toInt32 (v : BitVec 64) : Int := (v.truncate 32).toInt

/-- geometry accepted by the pre-F30 `delta_decoder_init` (the header numbers after their
`(int32_t)` casts): miniblocks in 1..4, block size in 1..128, quotient ≤ 32 -/
def geometryAcceptedPreFix (bs mb : BitVec 64) : Bool :=
  decide (0 < toInt32 mb ∧ toInt32 mb ≤ 4 ∧ 0 < toInt32 bs ∧ toInt32 bs ≤ 128 ∧ toInt32 bs / toInt32 mb ≤ 32)

/-- geometry accepted by the repaired `init` -/
def geometryAccepted (bs mb : BitVec 64) : Bool :=
  decide (bs.toNat ≤ blockSize ∧ mb.toNat ≤ miniBlocks ∧ 0 < mb.toNat ∧ 0 < bs.toNat ∧
          bs.toNat / mb.toNat ≤ miniBlockSize ∧ bs.toNat % 128 = 0 ∧ bs.toNat % mb.toNat = 0 ∧
          (bs.toNat / mb.toNat) % 32 = 0)

end Carquet.Impl.Delta
