import Carquet.Impl.ReaderTableSpec
import Carquet.Spec.File.Admissible
/-
Which reference-written files (`Spec.File.write t l`) lie inside what carquet's reader CLAIMS to read —
the hypotheses of `C06_impl_reads_reference` beyond those of the Spec-side theorem
(`Spec.File.selfConsistencyHyp`: the layout fits the table, is admissible, sizes fit the Thrift
integer types), all decidable (`Bool`) so that the generator evaluates them per file and the kernel on
concrete instances:

* compile-time limits of src/thrift (nesting depth of skipped unknown fields, list lengths),
* no BOOLEAN dictionary (NOT_IMPLEMENTED since fix F54), levels within `int16_t`,
* (data pages WITHOUT values are inside the claim since repair F63: the column reader steps over them;
  the former conjunct `pagesNonEmpty` is kept below only for `C06_regression_F63`),
* fread mode only: every page header lies within the largest window `read_page_header_fread` tries
  (fix F53): 2^24 bytes.
-/
namespace Carquet.Impl.Reader.Claim
open Carquet.Spec Carquet.Spec.File Carquet.Spec.Thrift
open Carquet.Impl.ThriftParquetReq (parsePageHeaderC)

/-! ### unknown fields: `thrift_skip` recursion -/

/-- nesting depth of every unknown field of a list is at most `R` -/
def extrasDepth (R : Nat) (extra : Fields) : Bool := extra.all (fun f => decide (f.2.depth ≤ R))

/-- Unknown fields are skipped by `thrift_skip`, whose recursion is bounded by `THRIFT_MAX_NESTING`
(32) counted from the top-level struct: an unknown field may nest 31 levels when it sits in
FileMetaData, 30 in a SchemaElement or RowGroup, 29 in a ColumnChunk or PageHeader, 28 in
ColumnMetaData or a data page header, 27 in Statistics or a dictionary page header. -/
def pageExtrasDepthOk (pl : PageLayout) : Bool :=
  extrasDepth 29 pl.hdrExtra && extrasDepth 28 pl.memberExtra && extrasDepth 27 pl.statsExtra

def dictExtrasDepthOk (d : DictLayout) : Bool := extrasDepth 29 d.hdrExtra && extrasDepth 27 d.memberExtra

def chunkExtrasDepthOk (cl : ChunkLayout) : Bool :=
  extrasDepth 29 cl.chunkExtra && extrasDepth 28 cl.metaExtra && cl.pages.all pageExtrasDepthOk &&
  (match cl.dict with | some d => dictExtrasDepthOk d | none => true)

def layoutExtrasDepthOk (l : Layout) : Bool :=
  extrasDepth 31 l.footerExtra && extrasDepth 30 l.schemaExtra && extrasDepth 30 l.rowGroupExtra &&
  l.rowGroups.all (fun g => g.all chunkExtrasDepthOk)

/-! ### the fread header window (F53) -/

/-- every window `256·2^k` (k = 0 … 15) that is shorter than the header fails to parse, and the header
is at most `CARQUET_PAGE_HEADER_WINDOW_MAX` = 2^24 bytes long (what the fread path needs; since fix F62 the
first part holds of every header the parser accepts — kept for `C06_regression_F62`) -/
def windowOk (hb : Bytes) : Bool :=
  decide (hb.length ≤ headerWindowMax) &&
  (List.range 16).all (fun k => decide (hb.length ≤ 256 * 2 ^ k) ||
    match parsePageHeaderC (hb.take (256 * 2 ^ k)) with
    | .error _ => true
    | .ok _ => false)

/-- The page header at the front of a page (header ++ stored body) lies within the largest window the fread
path tries, `CARQUET_PAGE_HEADER_WINDOW_MAX` = 2^24 bytes.  (That no shorter window 256·2^k is accepted in its
place needs no hypothesis since fix F62: `Proofs/ImplReadsPrefix.lean`, the parser is prefix-monotone.) -/
def pageWindowOk (page : Bytes) : Bool :=
  match parsePageHeaderC page with
  | .ok r => decide (r.2 ≤ headerWindowMax)
  | .error _ => false

def pagesWindowOk (leaf : LeafInfo) (dict : Option (List Bytes)) : List PageLayout → List Entry → Bool
  | [], _ => true
  | pl :: r, es =>
    (match writeDataPage leaf dict pl (es.take pl.count) with
     | some a => pageWindowOk a.bytes
     | none => false) && pagesWindowOk leaf dict r (es.drop pl.count)

def chunkWindowOk (leaf : LeafInfo) (cl : ChunkLayout) (es : Chunk) : Bool :=
  (match cl.dict with
   | none => true
   | some d => match writeDictPage leaf d with
     | some a => pageWindowOk a.bytes
     | none => false) && pagesWindowOk leaf (cl.dict.map (·.values)) cl.pages es

def zipWith3 {α β γ δ : Type} (f : α → β → γ → δ) : List α → List β → List γ → List δ
  | a :: as, b :: bs, c :: cs => f a b c :: zipWith3 f as bs cs
  | _, _, _ => []

/-! ### per chunk, per file -/

/-- no data page of the chunk is empty (the region the claim excluded before repair F63; no longer
part of `chunkClaimed`) -/
def pagesNonEmpty (cl : ChunkLayout) : Bool := cl.pages.all (fun p => decide (0 < p.count))

/-- a chunk inside carquet's claimed set (beyond `chunkAdm`) -/
def chunkClaimed (fread : Bool) (leaf : LeafInfo) (cl : ChunkLayout) (es : Chunk) : Bool :=
  chunkExtrasDepthOk cl && (cl.dict.isNone || leaf.ptype != .boolean) &&
  decide (leaf.maxDef < 32768) && decide (leaf.maxRep < 32768) && decide (leaf.path.length ≤ 100) &&
  decide ((usedEncodings cl).length ≤ 100) &&
  (!fread || chunkWindowOk leaf cl es)

/-- **the file lies inside what carquet's reader claims to read**, for the fread path (`fread = true`)
or the mapped paths (mmap, buffer) -/
def fileClaimed (fread : Bool) (t : Carquet.Spec.File.Table) (l : Layout) : Bool :=
  match columnsOf t.schema with
  | .error _ => false
  | .ok leaves =>
    layoutExtrasDepthOk l &&
    decide ((Schema.flatten t.schema).length ≤ 10000) && decide (t.rowGroups.length ≤ 100000) &&
    decide (leaves.length ≤ 10000) &&
    (List.zipWith (fun cls (g : RowGroup) => (zipWith3 (chunkClaimed fread) leaves cls g.chunks).all id) l.rowGroups t.rowGroups).all id

end Carquet.Impl.Reader.Claim
