import Carquet.Impl.Buffer
/-
Impl model of `carquet_arena_t` (src/core/arena.c): block list, aligned bump allocation, new
block sizing, save/restore, calloc — with the allocator oracle threaded through (one entry per
`malloc` of a block).

Pointers are modelled as (block index, offset into the block's data).  A block records the
address of its data area (`base`); only its residue modulo the requested alignment matters
(arena_aligned_offset aligns absolute addresses).  The address a newly allocated block gets is an
input (`nb`), like the oracle's answer.

Fidelity: exact for alignments that are powers of two (the C code computes
`(addr + a - 1) & ~(a - 1)`, the model `((addr + a - 1) / a) * a`); memory contents are not modelled.
Assumption: sizes below 2^63 (no `size_t` wrap-around in `aligned_offset + size`, `count * size`).
-/
namespace Carquet.Impl.Alloc.Arena
open Carquet.Impl.Alloc

structure Block where
  base : Nat
  size : Nat
  used : Nat
deriving DecidableEq, Repr

/-- `carquet_arena_t`; `blocks` is the linked list from `head`, `current` an index into it. -/
structure Arena where
  blocks : List Block
  current : Nat
  defaultBlockSize : Nat
  totalAllocated : Nat
  totalCapacity : Nat
deriving DecidableEq, Repr

/-- align_up for a power-of-two alignment -/
def alignUp (v a : Nat) : Nat := (v + a - 1) / a * a

/-- the size arena_new_block gives a block asked to hold `minSize` bytes -/
def blockSizeFor (minSize : Nat) : Nat :=
  if minSize < Gen.arenaDefaultBlockSize then Gen.arenaDefaultBlockSize
  else alignUp minSize Gen.arenaDefaultBlockSize

/-- arena_new_block: one allocation request -/
def newBlock (minSize : Nat) (nb : Nat) (o : Oracle) : Option Block × Oracle :=
  if o.grant then (some ⟨nb, blockSizeFor minSize, 0⟩, o.rest) else (none, o.rest)

/-- carquet_arena_init_size (carquet_arena_init passes the default block size) -/
def initSize (blockSize : Nat) (nb : Nat) (o : Oracle) : Option Arena × Oracle :=
  match newBlock blockSize nb o with
  | (some b, o') => (some ⟨[b], 0, blockSize, 0, b.size⟩, o')
  | (none, o') => (none, o')

/-- arena_aligned_offset -/
def alignedOffset (b : Block) (used a : Nat) : Nat := alignUp (b.base + used) a - b.base

/-- does a request of `size` bytes aligned to `a` fit into block `b`? -/
def fits (b : Block) (size a : Nat) : Bool := alignedOffset b b.used a + size ≤ b.size

/-- bump `b` for the request -/
def bump (b : Block) (size a : Nat) : Block := { b with used := alignedOffset b b.used a + size }

/-- "Try next blocks": index (counted from `i`) of the first block of `bs` in which the request fits -/
def findFit : List Block → Nat → Nat → Nat → Option Nat
  | [], _, _, _ => none
  | b :: bs, i, size, a => if fits b size a then some i else findFit bs (i + 1) size a

/-- the alignment the C function actually uses (`0` is replaced by `1`) -/
def effAlign (a : Nat) : Nat := if a = 0 then 1 else a

/-- carquet_arena_alloc_aligned.  Result: (block index, offset) or `none` for NULL. -/
def allocAligned (ar : Arena) (size align : Nat) (nb : Nat) (o : Oracle) : Option (Nat × Nat) × Arena × Oracle :=
  if size = 0 then (none, ar, o)
  else
    match ar.blocks[ar.current]? with
    | none => (none, ar, o)      -- `assert(block != NULL)`: not a state the C code can be in
    | some cur =>
      if fits cur size (effAlign align) then
        (some (ar.current, alignedOffset cur cur.used (effAlign align)),
         { ar with blocks := ar.blocks.set ar.current (bump cur size (effAlign align)),
                   totalAllocated := ar.totalAllocated + size }, o)
      else
        match findFit (ar.blocks.drop (ar.current + 1)) (ar.current + 1) size (effAlign align) with
        | some j =>
          match ar.blocks[j]? with
          | none => (none, ar, o)
          | some bj =>
            (some (j, alignedOffset bj bj.used (effAlign align)),
             { ar with blocks := ar.blocks.set j (bump bj size (effAlign align)), current := j,
                       totalAllocated := ar.totalAllocated + size }, o)
        | none =>
          match newBlock (if size + effAlign align > ar.defaultBlockSize then size + effAlign align
                          else ar.defaultBlockSize) nb o with
          | (none, o') => (none, ar, o')
          | (some b, o') =>
            (some (ar.blocks.length, alignedOffset b 0 (effAlign align)),
             { ar with blocks := ar.blocks ++ [bump b size (effAlign align)], current := ar.blocks.length,
                       totalAllocated := ar.totalAllocated + size,
                       totalCapacity := ar.totalCapacity + b.size }, o')

/-- carquet_arena_alloc -/
def alloc (ar : Arena) (size : Nat) (nb : Nat) (o : Oracle) : Option (Nat × Nat) × Arena × Oracle :=
  allocAligned ar size Gen.arenaAlignment nb o

/-- carquet_arena_calloc (the zero fill is not modelled; `count * size` is assumed not to wrap) -/
def calloc (ar : Arena) (count size : Nat) (nb : Nat) (o : Oracle) : Option (Nat × Nat) × Arena × Oracle :=
  alloc ar (count * size) nb o

/-- carquet_arena_strndup of a string with `len` characters before its NUL, limited to `maxLen` -/
def strndup (ar : Arena) (len maxLen : Nat) (nb : Nat) (o : Oracle) : Option (Nat × Nat) × Arena × Oracle :=
  allocAligned ar (min len maxLen + 1) 1 nb o

/-- carquet_arena_strdup -/
def strdup (ar : Arena) (len : Nat) (nb : Nat) (o : Oracle) : Option (Nat × Nat) × Arena × Oracle :=
  strndup ar len len nb o

/-- carquet_arena_memdup -/
def memdup (ar : Arena) (size : Nat) (nb : Nat) (o : Oracle) : Option (Nat × Nat) × Arena × Oracle :=
  if size = 0 then (none, ar, o) else alloc ar size nb o

structure Mark where
  block : Nat
  used : Nat
  totalAllocated : Nat
deriving DecidableEq, Repr

/-- carquet_arena_save -/
def save (ar : Arena) : Mark :=
  ⟨ar.current, (ar.blocks[ar.current]?.map (·.used)).getD 0, ar.totalAllocated⟩

def resetFrom : List Block → Nat → Nat → Nat → List Block
  | [], _, _, _ => []
  | b :: bs, i, mi, mu =>
    (if i < mi then b else if i = mi then { b with used := mu } else { b with used := 0 }) :: resetFrom bs (i + 1) mi mu

/-- carquet_arena_restore: blocks after the marked one are emptied, the marked one gets its `used` back -/
def restore (ar : Arena) (m : Mark) : Arena :=
  { ar with blocks := resetFrom ar.blocks 0 m.block m.used, current := m.block, totalAllocated := m.totalAllocated }

/-- carquet_arena_reset -/
def reset (ar : Arena) : Arena :=
  { ar with blocks := ar.blocks.map (fun b => { b with used := 0 }), current := 0, totalAllocated := 0 }

/-- representation invariant: `current` designates a block and no block is over-full -/
def Inv (ar : Arena) : Prop := ar.current < ar.blocks.length ∧ ∀ b ∈ ar.blocks, b.used ≤ b.size

/-- Operations as data, for sequences driven by the harness. -/
inductive Op where
  | alloc (n : Nat)
  | allocAligned (n a : Nat)
  | calloc (c s : Nat)
  | strdup (len : Nat)
  | strndup (len maxLen : Nat)
  | memdup (n : Nat)
  | save (slot : Nat)
  | restore (slot : Nat)
  | reset
deriving Repr

/-- state of a harness-driven sequence: the arena, four mark slots, the addresses of the blocks still to be created -/
structure RunState where
  ar : Arena
  marks : List (Option Mark)
  bases : List Nat

def nextBase (bs : List Nat) : Nat := bs.headD 8

/-- consume a base address only when a block was really created -/
def afterAlloc (st : RunState) (r : Option (Nat × Nat) × Arena × Oracle) : RunState :=
  { st with ar := r.2.1, bases := if r.2.1.blocks.length > st.ar.blocks.length then st.bases.drop 1 else st.bases }

/-- one operation; result: `some (block, offset)`, `none` = NULL; `(0,0)` placeholder for non-allocating ops -/
def step (st : RunState) (op : Op) (o : Oracle) : Option (Option (Nat × Nat)) × RunState × Oracle :=
  match op with
  | .alloc n => (some (alloc st.ar n (nextBase st.bases) o).1, afterAlloc st (alloc st.ar n (nextBase st.bases) o), (alloc st.ar n (nextBase st.bases) o).2.2)
  | .allocAligned n a => (some (allocAligned st.ar n a (nextBase st.bases) o).1, afterAlloc st (allocAligned st.ar n a (nextBase st.bases) o), (allocAligned st.ar n a (nextBase st.bases) o).2.2)
  | .calloc c s => (some (calloc st.ar c s (nextBase st.bases) o).1, afterAlloc st (calloc st.ar c s (nextBase st.bases) o), (calloc st.ar c s (nextBase st.bases) o).2.2)
  | .strdup l => (some (strdup st.ar l (nextBase st.bases) o).1, afterAlloc st (strdup st.ar l (nextBase st.bases) o), (strdup st.ar l (nextBase st.bases) o).2.2)
  | .strndup l m => (some (strndup st.ar l m (nextBase st.bases) o).1, afterAlloc st (strndup st.ar l m (nextBase st.bases) o), (strndup st.ar l m (nextBase st.bases) o).2.2)
  | .memdup n => (some (memdup st.ar n (nextBase st.bases) o).1, afterAlloc st (memdup st.ar n (nextBase st.bases) o), (memdup st.ar n (nextBase st.bases) o).2.2)
  | .save slot => (none, { st with marks := st.marks.set slot (some (save st.ar)) }, o)
  | .restore slot =>
    match st.marks[slot]? with
    | some (some m) => (none, { st with ar := restore st.ar m }, o)
    | _ => (none, st, o)
  | .reset => (none, { st with ar := reset st.ar, marks := st.marks.map (fun _ => none) }, o)

def run : List Op → RunState → Oracle → List (Option (Option (Nat × Nat))) × RunState × Oracle
  | [], st, o => ([], st, o)
  | op :: ops, st, o =>
    match step st op o with
    | (r, st', o') =>
      match run ops st' o' with
      | (rs, st'', o'') => (r :: rs, st'', o'')

end Carquet.Impl.Alloc.Arena
