/-
Model of src/compression/lz4.c.  Fidelity: exact (same loops, same order of checks, same
status classes; byte-for-byte output).

Memory is modelled fail-stop: every read goes through an index into the source array or into
the bytes written so far, every write appends at `op` under the declared capacity.  An access
the C code would make outside those regions is the result `.error .oobRead / .oobWrite`
-- a value the real function can never return, it stands for the memory error.  "In bounds" is
then the theorem that these two results are unreachable (C08), not something built into the
model: the model performs the accesses the C code performs, guarded only by the checks the C
code performs.

All writes of both functions go to `*op++` or `memcpy(op, ..)`, i.e. they are appends; the
destination is therefore modelled as the array of bytes written so far, with `op = out.size`.

Pointer arithmetic is on `Nat` (no wrap-around: `ip + lit_len` etc. would need a source buffer
ending within 255·src_size bytes of the top of the address space; `limit − 7` in `lz4_count`
points before the buffer for inputs < 19 bytes, which is compared, never dereferenced).
-/
namespace Carquet.Impl.Lz4

abbrev Bytes := Array UInt8

inductive Err where
  | invalidArgument      -- CARQUET_ERROR_INVALID_ARGUMENT
  | compression          -- CARQUET_ERROR_COMPRESSION
  | invalidData          -- CARQUET_ERROR_INVALID_COMPRESSED_DATA
  | oobRead              -- not a status: a read outside the source / outside the bytes written so far
  | oobWrite             -- not a status: a write at or beyond `dst + dst_capacity`
  deriving DecidableEq, Repr

instance : DecidableEq (Except Err (List UInt8)) := fun a b =>
  match a, b with
  | .ok x, .ok y => if h : x = y then isTrue (by rw [h]) else isFalse (fun e => h (by cases e; rfl))
  | .error x, .error y => if h : x = y then isTrue (by rw [h]) else isFalse (fun e => h (by cases e; rfl))
  | .ok _, .error _ => isFalse (fun e => by cases e)
  | .error _, .ok _ => isFalse (fun e => by cases e)

/-! ## `carquet_lz4_decompress` -/

/-- the `do { if (ip >= iend) return ERR; s = *ip++; len += s; } while (s == 255);` loops.
Returns `(len, ip)`.  Every iteration advances `ip`, so `fuel > src.size − ip` is enough. -/
def chain (src : Bytes) : Nat → Nat → Nat → Except Err (Nat × Nat)
  | 0, _, _ => .error .invalidData
  | fuel + 1, ip, acc =>
    if src.size ≤ ip then .error .invalidData
    else
      match src[ip]? with
      | none => .error .oobRead
      | some s => if s = 255 then chain src fuel (ip + 1) (acc + 255) else .ok (acc + s.toNat, ip + 1)

/-- `memcpy(op, match, 8)`: reads `dst[op−offset, op−offset+8)`, which must have been written
already, and writes `dst[op, op+8)` -/
def copy8 (out : Bytes) (off cap : Nat) : Except Err Bytes :=
  if out.size < off then .error .oobRead
  else if out.size < out.size - off + 8 then .error .oobRead
  else if cap < out.size + 8 then .error .oobWrite
  else .ok (out ++ out.extract (out.size - off) (out.size - off + 8))

/-- `while (match_len >= 8) { memcpy(op, match, 8); op += 8; match += 8; match_len -= 8; }`
(`k = match_len / 8` iterations) -/
def copyWide (off cap : Nat) : Nat → Bytes → Except Err Bytes
  | 0, out => .ok out
  | k + 1, out =>
    match copy8 out off cap with
    | .error e => .error e
    | .ok o => copyWide off cap k o

/-- `while (match_len-- > 0) { *op++ = *match++; }` -/
def copyBytes (off cap : Nat) : Nat → Bytes → Except Err Bytes
  | 0, out => .ok out
  | n + 1, out =>
    if out.size < off then .error .oobRead
    else if cap ≤ out.size then .error .oobWrite
    else
      match out[out.size - off]? with
      | none => .error .oobRead
      | some b => copyBytes off cap n (out.push b)

/-- the `if (offset >= 8) { ... } else { ... }` block -/
def copyMatch (out : Bytes) (off cap mlen : Nat) : Except Err Bytes :=
  if 8 ≤ off then
    match copyWide off cap (mlen / 8) out with
    | .error e => .error e
    | .ok o => copyBytes off cap (mlen % 8) o
  else copyBytes off cap mlen out

inductive Step where
  | done (r : Except Err Bytes)
  | more (ip : Nat) (out : Bytes)

/-- `if (op + match_len > oend) return ERR;` then the copy -/
def stepCopy (off ml ip : Nat) (out : Bytes) (cap : Nat) : Step :=
  if cap < out.size + ml then .done (.error .invalidData)
  else
    match copyMatch out off cap ml with
    | .error e => .done (.error e)
    | .ok o => .more ip o

/-- offset validity test, match length -/
def stepOff (src : Bytes) (tok : UInt8) (off ip : Nat) (out : Bytes) (cap : Nat) : Step :=
  if off = 0 ∨ out.size < off then .done (.error .invalidData)
  else if tok.toNat % 16 = 15 then
    match chain src (src.size + 1) ip (15 + 4) with
    | .error e => .done (.error e)
    | .ok (ml, ip1) => stepCopy off ml ip1 out cap
  else stepCopy off (tok.toNat % 16 + 4) ip out cap

/-- `if (ip >= iend) break;` then the two offset bytes -/
def stepEnd (src : Bytes) (tok : UInt8) (ip : Nat) (out : Bytes) (cap : Nat) : Step :=
  if src.size ≤ ip then .done (.ok out)
  else if src.size < ip + 2 then .done (.error .invalidData)
  else
    match src[ip]?, src[ip + 1]? with
    | some lo, some hi => stepOff src tok (lo.toNat ||| (hi.toNat <<< 8)) (ip + 2) out cap
    | _, _ => .done (.error .oobRead)

/-- `memcpy(op, ip, lit_len)` -/
def memcpyLits (src : Bytes) (ip ll : Nat) (out : Bytes) (cap : Nat) : Except Err Bytes :=
  if src.size < ip + ll then .error .oobRead
  else if cap < out.size + ll then .error .oobWrite
  else .ok (out ++ src.extract ip (ip + ll))

/-- `if (lit_len > 0) { bounds test; memcpy; }` -/
def stepLits (src : Bytes) (tok : UInt8) (ll ip : Nat) (out : Bytes) (cap : Nat) : Step :=
  if 0 < ll then
    if src.size < ip + ll ∨ cap < out.size + ll then .done (.error .invalidData)
    else
      match memcpyLits src ip ll out cap with
      | .error e => .done (.error e)
      | .ok o => stepEnd src tok (ip + ll) o cap
  else stepEnd src tok ip out cap

/-- one iteration of the main loop, entered with `ip < iend` -/
def step (src : Bytes) (ip : Nat) (out : Bytes) (cap : Nat) : Step :=
  match src[ip]? with
  | none => .done (.error .oobRead)
  | some tok =>
    if tok.toNat / 16 = 15 then
      match chain src (src.size + 1) (ip + 1) 15 with
      | .error e => .done (.error e)
      | .ok (ll, ip1) => stepLits src tok ll ip1 out cap
    else stepLits src tok (tok.toNat / 16) (ip + 1) out cap

/-- the main loop after fix F40: the loop is left only through the `break` that follows the
literals of the last sequence; reaching the end of the input where a token is expected (empty
input, input that stops after a match) is `CARQUET_ERROR_INVALID_COMPRESSED_DATA`.
Every iteration consumes the token, so `fuel = src.size + 1` is enough. -/
def loop (src : Bytes) (cap : Nat) : Nat → Nat → Bytes → Except Err Bytes
  | 0, _, _ => .error .invalidData
  | fuel + 1, ip, out =>
    if src.size ≤ ip then .error .invalidData
    else
      match step src ip out cap with
      | .done r => r
      | .more ip' out' => loop src cap fuel ip' out'

/-- the main loop as pinned (`while (ip < iend) { ... }`): running out of input where a token is
expected ends the block successfully -/
def loopPreFix (src : Bytes) (cap : Nat) : Nat → Nat → Bytes → Except Err Bytes
  | 0, _, _ => .error .invalidData
  | fuel + 1, ip, out =>
    if src.size ≤ ip then .ok out
    else
      match step src ip out cap with
      | .done r => r
      | .more ip' out' => loopPreFix src cap fuel ip' out'

def finish (r : Except Err Bytes) : Except Err (List UInt8) :=
  match r with
  | .ok o => .ok o.toList
  | .error e => .error e

/-- `carquet_lz4_decompress(src, |src|, dst, cap, &n)` with non-NULL arguments: the bytes
`dst[0, n)` on `CARQUET_OK` -/
def decompress (bs : List UInt8) (cap : Nat) : Except Err (List UInt8) :=
  finish (loop bs.toArray cap (bs.length + 1) 0 #[])

def decompressPreFix (bs : List UInt8) (cap : Nat) : Except Err (List UInt8) :=
  finish (loopPreFix bs.toArray cap (bs.length + 1) 0 #[])

/-- the NULL tests in front: `if (!src || !dst || !dst_size) return INVALID_ARGUMENT` -/
def decompressArgs (srcNull dstNull sizeNull : Bool) (bs : List UInt8) (cap : Nat) :
    Except Err (List UInt8) :=
  if srcNull || dstNull || sizeNull then .error .invalidArgument else decompress bs cap

/-! ## `carquet_lz4_compress` -/

def byteAt (src : Bytes) (i : Nat) : UInt8 := src.getD i 0

/-- `lz4_read32` on the little-endian host, as a number -/
def read32 (src : Bytes) (i : Nat) : Nat :=
  (byteAt src i).toNat + 256 * (byteAt src (i + 1)).toNat + 65536 * (byteAt src (i + 2)).toNat
    + 16777216 * (byteAt src (i + 3)).toNat

/-- `lz4_hash`: `(val * 2654435761U) >> (32 - LZ4_HASH_LOG)` in 32-bit arithmetic -/
def hash (v : Nat) : Nat := (v * 2654435761 % 4294967296) / 1048576

def hashAt (src : Bytes) (i : Nat) : Nat := hash (read32 src i)

/-- `hash_table[h] = (uint16_t)(pos)` -/
def insert (tbl : Array UInt16) (h pos : Nat) : Array UInt16 := tbl.setIfInBounds h (UInt16.ofNat pos)

/-- `src + hash_table[h]` -/
def lookup (tbl : Array UInt16) (h : Nat) : Nat := (tbl.getD h 0).toNat

/-- the 8 bytes at `p` and at `m` are equal (`memcpy` into two `uint64_t`, `a != b`) -/
def eq8 (src : Bytes) (p m : Nat) : Bool :=
  byteAt src p == byteAt src m && byteAt src (p + 1) == byteAt src (m + 1) &&
  byteAt src (p + 2) == byteAt src (m + 2) && byteAt src (p + 3) == byteAt src (m + 3) &&
  byteAt src (p + 4) == byteAt src (m + 4) && byteAt src (p + 5) == byteAt src (m + 5) &&
  byteAt src (p + 6) == byteAt src (m + 6) && byteAt src (p + 7) == byteAt src (m + 7)

/-- `while (*p == *match) { p++; match++; }` inside the fast path, entered when the two words
differ, so it stops within 8 steps -/
def firstDiff (src : Bytes) : Nat → Nat → Nat → Nat → Nat
  | 0, _, _, acc => acc
  | fuel + 1, p, m, acc =>
    if byteAt src p = byteAt src m then firstDiff src fuel (p + 1) (m + 1) (acc + 1) else acc

/-- `while (p < limit && *p == *match) { p++; match++; }` -/
def countTail (src : Bytes) (limit : Nat) : Nat → Nat → Nat → Nat → Nat
  | 0, _, _, acc => acc
  | fuel + 1, p, m, acc =>
    if p < limit ∧ byteAt src p = byteAt src m then countTail src limit fuel (p + 1) (m + 1) (acc + 1)
    else acc

/-- the `while (p < limit - 7)` fast path of `lz4_count`, falling through to the byte loop -/
def countFast (src : Bytes) (limit : Nat) : Nat → Nat → Nat → Nat → Nat
  | 0, _, _, acc => acc
  | fuel + 1, p, m, acc =>
    if p + 7 < limit then
      if eq8 src p m then countFast src limit fuel (p + 8) (m + 8) (acc + 8)
      else firstDiff src 8 p m acc
    else countTail src limit (limit - p) p m acc

/-- `lz4_count(p, match, limit)` -/
def count (src : Bytes) (p m limit : Nat) : Nat := countFast src limit (limit - p + 1) p m 0

/-- One emitted sequence: literals `src[anchor, ip)`, then a match of `mlen` at `ip` from `off` back. -/
structure Seq where
  anchor : Nat
  ip : Nat
  off : Nat
  mlen : Nat
  deriving DecidableEq, Repr

/-- what the body of the main loop decides at `ip` for the candidate `ref`: `some (off, mlen)`
if a sequence is emitted.  `n = src_size`. -/
def probeAt (src : Bytes) (n ip ref : Nat) : Option (Nat × Nat) :=
  if ip ≤ ref ∨ 65535 < ip - ref ∨ read32 src ref ≠ read32 src ip then none
  else if n - 12 < ip + (count src (ip + 4) (ref + 4) (n - 12) + 4) then none
  else some (ip - ref, count src (ip + 4) (ref + 4) (n - 12) + 4)

def probe (src : Bytes) (n ip : Nat) (tbl : Array UInt16) : Option (Nat × Nat) :=
  probeAt src n ip (lookup tbl (hashAt src ip))

/-- `if (ip < mflimit) hash_table[lz4_hash(lz4_read32(ip - 2))] = (uint16_t)(ip - 2 - src);` -/
def afterMatch (src : Bytes) (n ip : Nat) (tbl : Array UInt16) : Array UInt16 :=
  if ip + 4 < n then insert tbl (hashAt src (ip - 2)) (ip - 2) else tbl

/-- The main loop `while (ip < mflimit)` as a match finder: the sequences (most recent first) and
the final `anchor`.  `ip` grows in every iteration, `fuel = n` is enough. -/
def findLoop (src : Bytes) (n : Nat) : Nat → Nat → Nat → Array UInt16 → List Seq → List Seq × Nat
  | 0, _, anchor, _, acc => (acc, anchor)
  | fuel + 1, ip, anchor, tbl, acc =>
    if ip + 4 < n then
      match probe src n ip tbl with
      | some (off, mlen) =>
        findLoop src n fuel (ip + mlen) (ip + mlen)
          (afterMatch src n (ip + mlen) (insert tbl (hashAt src ip) ip)) (⟨anchor, ip, off, mlen⟩ :: acc)
      | none => findLoop src n fuel (ip + 1) anchor (insert tbl (hashAt src ip) ip) acc
    else (acc, anchor)

/-- `uint16_t hash_table[LZ4_HASH_SIZE]; memset(..0..)` -/
def emptyTable : Array UInt16 := Array.replicate 4096 0

/-- sequences in order of emission, and the start of the last literal run -/
def ops (src : Bytes) : List Seq × Nat :=
  match findLoop src src.size src.size 0 0 emptyTable [] with
  | (acc, anchor) => (acc.reverse, anchor)

/-- `while (rem >= 255) { *op++ = 255; rem -= 255; } *op++ = (uint8_t)rem;` -/
def chainBytes : Nat → Nat → List UInt8
  | 0, rem => [UInt8.ofNat rem]
  | fuel + 1, rem => if 255 ≤ rem then 255 :: chainBytes fuel (rem - 255) else [UInt8.ofNat rem]

/-- additional length bytes for a length field holding `len` (`if (len >= 15) { ... }`) -/
def lenBytes (len : Nat) : List UInt8 := if 15 ≤ len then chainBytes (len - 15) (len - 15) else []

def nibble (len : Nat) : Nat := if 15 ≤ len then 15 else len

/-- the literals `src[a, b)` -/
def slice (src : Bytes) (a b : Nat) : List UInt8 := (src.extract a b).toList

/-- bytes written for one sequence: token, literal length, literals, offset, match length -/
def seqBytes (src : Bytes) (s : Seq) : List UInt8 :=
  UInt8.ofNat (nibble (s.ip - s.anchor) * 16 + nibble (s.mlen - 4)) ::
    (lenBytes (s.ip - s.anchor) ++ slice src s.anchor s.ip ++
      [UInt8.ofNat (s.off % 256), UInt8.ofNat (s.off / 256)] ++ lenBytes (s.mlen - 4))

/-- `size_t max_out = 1 + (lit_len / 255) + lit_len + 2 + (match_len / 255);` -/
def maxOut (s : Seq) : Nat := 1 + (s.ip - s.anchor) / 255 + (s.ip - s.anchor) + 2 + s.mlen / 255

/-- bytes written for the last literal run -/
def lastBytes (src : Bytes) (anchor : Nat) : List UInt8 :=
  UInt8.ofNat (nibble (src.size - anchor) * 16) :: (lenBytes (src.size - anchor) ++ slice src anchor src.size)

/-- unchecked stores through `op`: past `oend` they are a memory error -/
def wr (out : Bytes) (cap : Nat) (bs : List UInt8) : Except Err Bytes :=
  if cap < out.size + bs.length then .error .oobWrite else .ok (out ++ bs)

/-- emission: per sequence the space test `op + max_out > oend`, then the stores; at the end the
test for the last literals and their stores -/
def serialize (src : Bytes) (cap : Nat) (anchor : Nat) : List Seq → Bytes → Except Err Bytes
  | [], out =>
    if cap < out.size + 1 + (src.size - anchor) / 255 + (src.size - anchor) then .error .compression
    else wr out cap (lastBytes src anchor)
  | s :: r, out =>
    if cap < out.size + maxOut s then .error .compression
    else
      match wr out cap (seqBytes src s) with
      | .error e => .error e
      | .ok o => serialize src cap anchor r o

/-- `carquet_lz4_compress_bound` -/
def bound (n : Nat) : Nat := n + n / 255 + 16

/-- the path for `src_size < LZ4_MIN_LENGTH`: a single literal run (the `else` branch for sizes
≥ 15 is dead code under the 13-byte limit but is part of the function) -/
def small (src : Bytes) (cap : Nat) : Except Err Bytes :=
  if cap < src.size + 1 then .error .compression
  else if src.size < 15 then wr #[] cap (UInt8.ofNat (src.size * 16) :: src.toList)
  else wr #[] cap (0xF0 :: UInt8.ofNat (src.size - 15) :: src.toList)

/-- the general path: match finder, then emission -/
def compressMain (src : Bytes) (cap : Nat) (found : List Seq × Nat) : Except Err Bytes :=
  serialize src cap found.2 found.1 #[]

/-- `carquet_lz4_compress(src, |src|, dst, cap, &n)` with non-NULL arguments: the bytes `dst[0, n)` -/
def compressA (src : Bytes) (cap : Nat) : Except Err Bytes :=
  if cap < bound src.size then .error .compression
  else if src.size = 0 then
    (if cap < 1 then .error .compression else wr #[] cap [0])
  else if src.size < 13 then small src cap
  else compressMain src cap (ops src)

def compress (x : List UInt8) (cap : Nat) : Except Err (List UInt8) := finish (compressA x.toArray cap)

/-- NULL tests: `!dst || !dst_size` first; `!src` only after the empty-input path -/
def compressArgs (srcNull dstNull sizeNull : Bool) (x : List UInt8) (cap : Nat) : Except Err (List UInt8) :=
  if dstNull || sizeNull then .error .invalidArgument
  else if cap < bound x.length then .error .compression
  else if x.length = 0 then compress x cap
  else if srcNull then .error .invalidArgument
  else compress x cap

end Carquet.Impl.Lz4
