import Carquet.Spec.Schema
/-
Model of the schema part of src/reader/file_reader.c (count_leaves, traverse_schema_recursive,
compute_levels, build_schema) and of src/metadata/schema.c (builder, find_column).
Fidelity: exact for the traversal (same recursion, same loop over `num_children`, same
index tests); the calloc'ed result arrays are modelled as lists padded with zeros.
The traversal carries a step counter (number of loop iterations + calls) used by C04.
-/
namespace Carquet.Impl.Schema
open Carquet.Spec.Schema

/-- `count_leaves`: elements with `num_children == 0`. -/
def countLeaves (els : List Element) : Nat :=
  (els.filter (fun e => e.numChildren == 0)).length

structure Ctx where
  leaves : List Leaf     -- entries written so far (leaf_idx = leaves.length)
  steps : Nat
  deriving Repr

mutual
  /-- `traverse_schema_recursive(ctx, element_idx, def_level, rep_level)`; returns next index.
  `fuel` bounds the recursion depth (the C recursion has no such bound; `fuel_sufficient` in
  Proofs/Schema shows `els.size` is always enough, so the bound is never what stops it). -/
  def traverse (els : Array Element) : (fuel : Nat) → (idx d r : Nat) → Ctx → Nat × Ctx
    | 0, idx, _, _, ctx => (idx, ctx)
    | fuel + 1, idx, d, r, ctx =>
      if h : idx < els.size then
        if els[idx].numChildren == 0 then
          (idx + 1, ⟨ctx.leaves ++ [⟨idx, d + defInc els[idx].info.rep, r + repInc els[idx].info.rep⟩],
                     ctx.steps + 1⟩)
        else
          children els fuel els[idx].numChildren.toNat (idx + 1)
            (d + defInc els[idx].info.rep) (r + repInc els[idx].info.rep) ⟨ctx.leaves, ctx.steps + 1⟩
      else (idx, ⟨ctx.leaves, ctx.steps + 1⟩)
  /-- the `for (child = 0; child < num_children && next_idx < num_elements; child++)` loop -/
  def children (els : Array Element) : (fuel : Nat) → (n : Nat) → (idx d r : Nat) → Ctx → Nat × Ctx
    | _, 0, idx, _, _, ctx => (idx, ctx)
    | fuel, n + 1, idx, d, r, ctx =>
      if idx < els.size then
        children els fuel n (traverse els fuel idx d r ⟨ctx.leaves, ctx.steps + 1⟩).1 d r
          (traverse els fuel idx d r ⟨ctx.leaves, ctx.steps + 1⟩).2
      else (idx, ctx)
end

/-- `compute_levels` + the zero-initialised arrays of `build_schema` (when they exist). -/
def buildLeaves (els : List Element) : List Leaf :=
  let n := countLeaves els
  let written :=
    if els.length ≤ 1 then []
    else
      match els with
      | [] => []
      | root :: _ =>
        (children els.toArray els.length root.numChildren.toNat 1 0 0 ⟨[], 0⟩).2.leaves
  (written ++ List.replicate (n - written.length) (Leaf.mk 0 0 0)).take n

/-- the element check at the head of `build_schema` (fix 153ae4b): every element is either a group
(children, no physical type) or a typed leaf; the root may be childless and untyped -/
def elemOk (i : Nat) (e : Element) : Bool :=
  !(e.numChildren < 0) && !(e.numChildren != 0 && e.info.ptype.isSome) &&
  !(i != 0 && e.numChildren == 0 && e.info.ptype.isNone)

def elemsOk : Nat → List Element → Bool
  | _, [] => true
  | i, e :: es => elemOk i e && elemsOk (i + 1) es

/-- `build_schema`: inconsistent elements are refused; a schema without any leaf is refused
(`carquet_arena_calloc(arena, 0, …)` returns NULL, reported as an allocation error). -/
def build (els : List Element) : Option (List Leaf) :=
  if !elemsOk 0 els then none
  else if countLeaves els = 0 then none else some (buildLeaves els)

def buildSteps (els : List Element) : Nat :=
  match els with
  | [] => 0
  | root :: _ =>
    if els.length ≤ 1 then 0
    else (children els.toArray els.length root.numChildren.toNat 1 0 0 ⟨[], 0⟩).2.steps

/-- `carquet_schema_find_column`: first leaf whose element name equals `name`. -/
def findColumn (els : List Element) (leaves : List Leaf) (name : String) : Option Nat :=
  leaves.findIdx? (fun l => match els[l.elemIdx]? with
                            | some e => e.info.name == name
                            | none => false)

/-! Builder (`carquet_schema_create` / `carquet_schema_add_column`), flat shapes only. -/

structure Builder where
  elements : List Element      -- element 0 is the root "schema"
  leaves : List Leaf
  capacity : Nat
  deriving Repr

def rootInfo : Info := ⟨"schema", none, none, 0, none, none⟩

def Builder.create : Builder := ⟨[⟨rootInfo, 0⟩], [], 64⟩

def growCap (cap required : Nat) : (fuel : Nat) → Nat
  | 0 => cap
  | fuel + 1 => if cap < required then growCap (cap * 2) required fuel else cap

/-- `carquet_schema_add_column` (allocation failure is C19's business, not modelled here). -/
def Builder.addColumn (b : Builder) (i : Info) : Builder :=
  let idx := b.elements.length
  { elements := (match b.elements with
                 | [] => []
                 | root :: rest => { root with numChildren := root.numChildren + 1 } :: rest) ++ [⟨i, 0⟩],
    leaves := b.leaves ++ [⟨idx, defInc i.rep, repInc i.rep⟩],
    capacity := growCap b.capacity (idx + 1) 64 }

/-- `carquet_schema_add_group` (under the root only): one more element without type and without
children, no leaf; the root's child count grows; capacity as for a column -/
def Builder.addGroup (b : Builder) (i : Info) : Builder :=
  { elements := (match b.elements with
                 | [] => []
                 | root :: rest => { root with numChildren := root.numChildren + 1 } :: rest) ++ [⟨{ i with ptype := none, typeLength := 0 }, 0⟩],
    leaves := b.leaves,
    capacity := growCap b.capacity (b.elements.length + 1) 64 }

/-- one builder call: an entry without physical type is a group -/
def Builder.add (b : Builder) (i : Info) : Builder :=
  if i.ptype.isSome then b.addColumn i else b.addGroup i

end Carquet.Impl.Schema
