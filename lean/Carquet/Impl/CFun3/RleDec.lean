import Carquet.Gen.CFun
import Carquet.Impl.Rle
/-
Stage-3 link, abstraction side: the generated struct `Gen.CFun.carquet_rle_decoder_t` (src/encoding/rle.h) together with
the input buffer it points into, read as the model state `Impl.Rle.Dec`, and the invariant of a live decoder (what
`carquet_rle_decoder_init` establishes and `fill_bitpack_buffer` keeps).  Executable; used by the test driver.

The C fields `in_rle_run` and `rle_value` are not touched by the translated functions (init clears them with the
`memset`, has_next / fill_bitpack_buffer never look at them) and are therefore not part of the generated structure:
the abstraction takes them as two parameters.
-/
namespace Carquet.Impl.CFun3
open Carquet Carquet.Impl

/-- the model state of a C RLE decoder over the buffer `data` (`dec->data` points at `data[0]`, `dec->size` is its
length): `rest` = the bytes from `pos` on, `bp` = `bitpack_buffer[bitpack_pos .. bitpack_count)`, status OK iff
`dec->status == CARQUET_OK`; `inRle` / `rleValue` are the two C fields the translated functions never touch -/
def rleAbs (inRle : Bool) (rleValue : Nat) (s : Gen.CFun.carquet_rle_decoder_t) (data : List UInt8) : Rle.Dec :=
  ⟨s.bit_width.toNat, data.drop s.pos.toNat, inRle, s.run_remaining.toNat, rleValue,
   ((s.bitpack_buffer.drop s.bitpack_pos.toNat).take (s.bitpack_count.toNat - s.bitpack_pos.toNat)).map (·.toNat),
   if s.status = 0#32 then .ok else .invalidRle⟩

/-- invariant of a live decoder: `dec->data` is the start of the buffer, `dec->size` its length, and `size + 32` does
not wrap a `size_t` (so that `pos + bit_width` of `fill_bitpack_buffer` cannot); `pos ≤ size`; `run_remaining ≥ 0` as an
`int64_t`; the group buffer has its 8 elements and `0 ≤ bitpack_pos ≤ bitpack_count ≤ 8` as `int`s; `status` is
`CARQUET_OK` (0) or `CARQUET_ERROR_INVALID_RLE` (43); while the status is OK, `0 ≤ bit_width ≤ 32` as an `int` and
`value_mask` is the mask of that width (a decoder initialised with another width has status 43 for ever) -/
def rleInv (s : Gen.CFun.carquet_rle_decoder_t) (data : List UInt8) : Bool :=
  s.data == 0 && s.size.toNat == data.length && decide (s.size.toNat + 32 < 2 ^ 64) &&
  decide (s.pos.toNat ≤ s.size.toNat) &&
  decide (s.run_remaining.toNat < 2 ^ 63) &&
  s.bitpack_buffer.length == 8 &&
  decide (s.bitpack_pos.toNat ≤ s.bitpack_count.toNat) && decide (s.bitpack_count.toNat ≤ 8) &&
  (s.status == 0#32 || s.status == 43#32) &&
  (s.status != 0#32 ||
    (decide (s.bit_width.toNat ≤ 32) && s.value_mask.toNat == Rle.valueMask s.bit_width.toNat))

end Carquet.Impl.CFun3
