import Carquet.Gen.CFun
import Carquet.Impl.BitIO
/-
Stage-3 link, bit WRITER of src/core/bitpack.c (`carquet_bit_writer_*`, `flush_buffer`): the abstraction from the
generated struct `Gen.CFun.carquet_bit_writer_t` plus the output array to the model state `Impl.BitIO.Writer`, and the
invariant of a live writer.  Executable (imported by the test driver).
-/
namespace Carquet.Impl.CFun3
open Carquet

/-- the model state of a C writer: declared capacity, the bytes stored so far (`data[0 .. byte_pos)`), accumulator and
number of pending bits.  `bit_pos` (unused by the C code) and the pointer are not part of the model. -/
def wrAbs (s : Gen.CFun.carquet_bit_writer_t) (data : List UInt8) : BitIO.Writer :=
  ⟨s.capacity.toNat, data.take s.byte_pos.toNat, s.buffer.toNat, s.buffer_bits.toNat⟩

/-- a writer on the array `data` with at most `maxBits` pending bits: `writer->data` is the start of the array, the
caller's array has (at least) the declared `capacity` bytes, `byte_pos ≤ capacity`, `0 ≤ buffer_bits ≤ maxBits` as
`int`, and the accumulator holds no bit above `buffer_bits`. -/
def wrInvUpTo (maxBits : Nat) (s : Gen.CFun.carquet_bit_writer_t) (data : List UInt8) : Bool :=
  decide (s.data = 0) && decide (s.byte_pos ≤ s.capacity) && decide (s.capacity.toNat ≤ data.length) &&
  decide (0 ≤ s.buffer_bits.toInt) && decide (s.buffer_bits.toInt ≤ (maxBits : Int)) &&
  decide (s.buffer.toNat < 2 ^ s.buffer_bits.toNat)

/-- invariant of a live writer between two public calls: fewer than 56 pending bits.  Holds after
`carquet_bit_writer_init` (on an array of at least `capacity` bytes) and is preserved by every public function. -/
def wrInv (s : Gen.CFun.carquet_bit_writer_t) (data : List UInt8) : Bool := wrInvUpTo 55 s data

/-- precondition of the static `flush_buffer` on its own: it is entered with up to 64 pending bits by the public
functions; up to 71 its loop makes at most 8 iterations (9 condition tests = the fuel of the translation). -/
def wrFlushInv (s : Gen.CFun.carquet_bit_writer_t) (data : List UInt8) : Bool := wrInvUpTo 71 s data

end Carquet.Impl.CFun3
