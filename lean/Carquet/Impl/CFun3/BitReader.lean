import Carquet.Gen.CFun
import Carquet.Impl.BitIO
/-
Stage-3 link, abstraction side: the generated struct `Gen.CFun.carquet_bit_reader_t` (src/core/bitpack.h) together
with the input buffer it points into, read as the model state `Impl.BitIO.Reader`, and the invariant of a live reader
(what `carquet_bit_reader_init` establishes and every reader function keeps).  Executable; used by the test driver.
-/
namespace Carquet.Impl.CFun3
open Carquet Carquet.Impl

/-- the model state of a C bit reader over the buffer `data` (`reader->data` points at `data[0]`, `reader->size` is
its length; the unused field `bit_pos` is not modelled) -/
def rdAbs (s : Gen.CFun.carquet_bit_reader_t) (data : List UInt8) : BitIO.Reader :=
  ⟨data, s.byte_pos.toNat, s.buffer.toNat, s.buffer_bits.toNat⟩

/-- invariant of a live reader: `reader->data` is the start of the buffer, `reader->size` its length,
`byte_pos ≤ size`, `0 ≤ buffer_bits ≤ 64` as an `int` (the bit pattern read unsigned is at most 64), and the
accumulator holds exactly `buffer_bits` bits -/
def rdInv (s : Gen.CFun.carquet_bit_reader_t) (data : List UInt8) : Bool :=
  s.data == 0 && s.size.toNat == data.length && decide (s.byte_pos.toNat ≤ s.size.toNat) &&
  decide (s.buffer_bits.toNat ≤ 64) && s.buffer.toNat >>> s.buffer_bits.toNat == 0

end Carquet.Impl.CFun3
