import Carquet.Gen.CFun
import Carquet.Impl.Thrift
/-
Stage-3 abstraction for the primitive readers of the Thrift compact decoder (src/thrift/thrift_decode.c): from the
generated C struct `Gen.CFun.thrift_decoder_t` plus the byte array its `reader.data` points into, to the decoder state
`Impl.Thrift.Dec` of the model.

  * `errOfCode`  the `carquet_status_t` values the Thrift layer uses, as the model's `Option Err` (`0` = CARQUET_OK =
                 `none`); the two model artefacts `Err.stack` / `Err.fuel` have no C code;
  * `decAbs`     the abstraction function; `overlay` and `budget` are ghost fields of the model that no C state
                 corresponds to: they are parameters (the primitives never change them);
  * `decInv`     the invariant every translated function preserves: the reader covers exactly the list `data`
                 (`reader.data = data + 0`, `reader.size = data.length`), `0 ≤ pos ≤ size`,
                 `0 ≤ nesting_level ≤ THRIFT_MAX_NESTING` (as a C `int`), the array `last_field_id` has its 32 cells,
                 and `status` is one of the codes above.
Everything here is computable (the compiled test driver imports this file).
-/
namespace Carquet.Impl.CFun3
open Carquet Carquet.Impl

/-- `carquet_status_t` value ↦ the model's decoder status (`some none` = CARQUET_OK); `none`: a code the Thrift
decoder never stores -/
def errOfCode (n : Nat) : Option (Option Thrift.Err) :=
  if n = 0 then some none
  else if n = 1 then some (some .invalidArgument)
  else if n = 2 then some (some .oom)
  else if n = 23 then some (some .invalidMetadata)
  else if n = 30 then some (some .decode)
  else if n = 31 then some (some .encode)
  else if n = 32 then some (some .invalidType)
  else if n = 33 then some (some .truncated)
  else none

/-- the decoder state of the model that the C struct `s` (over the bytes `data`) stands for; `ov`, `bd`: the model's two
ghost fields -/
def decAbs (ov : Bool) (bd : Nat) (s : Gen.CFun.thrift_decoder_t) (data : List UInt8) : Thrift.Dec :=
  { rest := data.drop s.reader.pos.toNat,
    pos := s.reader.pos.toNat,
    lastId := ((s.last_field_id.take s.nesting_level.toNat).reverse).map (·.toInt),
    boolPending := s.bool_pending,
    boolValue := s.bool_value,
    status := (errOfCode s.status.toNat).getD none,
    overlay := ov,
    budget := bd }

/-- the invariant of `thrift_decoder_t` (what `thrift_decoder_init` establishes and every reader preserves) -/
def decInv (s : Gen.CFun.thrift_decoder_t) (data : List UInt8) : Bool :=
  s.reader.data == 0 &&
  s.reader.size.toNat == data.length &&
  decide (s.reader.pos.toNat ≤ s.reader.size.toNat) &&
  decide (0 ≤ s.nesting_level.toInt) && decide (s.nesting_level.toInt ≤ 32) &&
  s.last_field_id.length == 32 &&
  (errOfCode s.status.toNat).isSome

/-- the codes of the model's errors that exist in the C enum (all but the artefacts `stack`, `fuel`) -/
def errIsC (e : Thrift.Err) : Bool := errOfCode e.code == some (some e)

end Carquet.Impl.CFun3
