import Carquet.Gen.CFun
import Carquet.Impl.BufferReader
/-
Stage-3 abstraction for the buffer read cursor (src/core/buffer.c `carquet_buffer_reader_init_data / _read / _skip /
_read_byte / _read_u16_le / _read_u32_le / _read_u64_le` as translated in Gen/CFun.lean) against the access-reporting
model `Impl.BufferReader` (repaired `has`, `fixed = true`).

The generated struct `carquet_buffer_reader_t` carries `data` (offset of the C pointer into the array `reader_data` that
travels separately), `size` and `pos`; the model's `Reader` is the byte list and `pos`.  `brInv` is the documented state of
a cursor made by `carquet_buffer_reader_init_data(reader, data, size)` with `size` the length of `data` and then only
touched by the cursor functions: the pointer is the start of the array, `size` is the array length, `pos ≤ size`.
Everything here is executable (it is linked into the test driver).
-/
namespace Carquet.Impl.CFun3
open Carquet Carquet.Impl

/-- the model cursor a C cursor stands for: the whole byte array and the position -/
def brAbs (s : Gen.CFun.carquet_buffer_reader_t) (data : List UInt8) : BufferReader.Reader := ⟨data, s.pos.toNat⟩

/-- the cursor invariant: `reader->data` is the start of `data`, `reader->size` its length, `reader->pos ≤ reader->size` -/
def brInv (s : Gen.CFun.carquet_buffer_reader_t) (data : List UInt8) : Bool :=
  decide (s.data = 0) && decide (s.size.toNat = data.length) && decide (s.pos ≤ s.size)

/-- precondition of `carquet_buffer_reader_init_data(reader, data, size)`: `size` is the length of the array -/
def brInitPre (data : List UInt8) (size : BitVec 64) : Bool := decide (size.toNat = data.length)

/-- `carquet_status_t` of a model status: CARQUET_OK = 0, CARQUET_ERROR_FILE_TRUNCATED = 15 -/
def statusCode : BufferReader.Status → Nat
  | .ok => 0
  | .truncated => 15

/-- the model status a returned `carquet_status_t` stands for (the cursor functions return 0 or 15 only) -/
def statusOf (st : BitVec 32) : BufferReader.Status := if st = 0#32 then .ok else .truncated

/-- what the caller of `carquet_buffer_reader_skip` sees, as a model observation -/
def stObs (st : BitVec 32) : BufferReader.Obs := .st (statusOf st)

/-- what the caller of a typed read (`_read_byte`, `_read_u16_le`, …) sees, as a model observation: the status and, when
OK, the value stored in `*value` (`v` = `*value` after the call, as a number) -/
def valObs (st : BitVec 32) (v : Nat) : BufferReader.Obs :=
  match statusOf st with
  | .ok => .val .ok v
  | .truncated => .val .truncated 0

/-- what the caller of `carquet_buffer_reader_read(reader, dest, n)` sees, as a model observation: the status and, when
OK, `dest[0 .. n)` after the call -/
def bytesObs (st : BitVec 32) (dest' : List UInt8) (n : Nat) : BufferReader.Obs :=
  match statusOf st with
  | .ok => .bytes .ok (dest'.take n)
  | .truncated => .bytes .truncated []

/-- the model's prediction for one call, for the test driver: status code of an observation -/
def obsStatusCode : BufferReader.Obs → Nat
  | .st s => statusCode s
  | .bytes s _ => statusCode s
  | .val s _ => statusCode s
  | _ => 0

example : brInv ⟨0, 5#64, 3#64⟩ [1, 2, 3, 4, 5] = true ∧ brInv ⟨0, 6#64, 3#64⟩ [1, 2, 3, 4, 5] = false ∧
    brInv ⟨0, 5#64, 6#64⟩ [1, 2, 3, 4, 5] = false ∧ brInv ⟨1, 5#64, 3#64⟩ [1, 2, 3, 4, 5] = false := by decide

end Carquet.Impl.CFun3
