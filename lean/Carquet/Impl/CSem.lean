/-
C integer semantics for the definitions that `translate/gen_cfun.py` regenerates from /repo's C source on every
check run (`Carquet/Gen/CFun.lean`).  Core Lean only.

Representation
* a C value of an integer type of `w` bits (signed or unsigned, enums included) is a `BitVec w` — its object
  representation on the two's-complement host; signedness is NOT part of the value, it is carried by the operation
  the translator picks from the clang AST (`/` vs `BitVec.sdiv`, `>>>` vs `BitVec.sshiftRight`, `<` vs `BitVec.slt`,
  `BitVec.setWidth` vs `BitVec.signExtend` for a widening cast);
* a C `_Bool` is a Lean `Bool`; the `int` 0/1 that comparisons and `! && ||` produce is `ofBool b`, and the
  translator keeps the `Bool` when the value is only tested (`if`, `&&`, `?:`, conversion to `_Bool`).

Every translated function `f` comes with `f_defined : … → Bool`, false exactly when the execution of `f` on these
arguments would reach behaviour the C standard leaves undefined that this layer knows about:
  signed overflow of `+ - *`, unary `-`, `++`, `--`; division or remainder by zero, `INT_MIN / -1`;
  a shift count that is negative or ≥ the width of the (promoted) left operand; a left shift of a negative signed
  value or one whose result is not representable (C11 6.5.7p4); `__builtin_clz/ctz` of 0; an exhausted loop fuel.
The value function is total (two's-complement wrap-around; `x / 0 = 0` etc. as in `BitVec`): it means something only
where `f_defined` holds.

Implementation-defined behaviour is fixed as gcc/clang on x86-64 do: conversion to a narrower or same-width signed
type wraps (`setWidth`), `>>` of a negative signed value is arithmetic, `char` is signed, `int` = 32, `long` =
`size_t` = 64 bits (the translator asks clang for these sizes and refuses to run if they differ).
-/
namespace Carquet.Impl.CSem

/-- the `int` a C comparison / logical operator yields -/
def ofBool (b : Bool) : BitVec 32 := if b then 1#32 else 0#32

/-- `_Bool` converted to an integer type of `w` bits -/
def ofBoolW (w : Nat) (b : Bool) : BitVec w := if b then 1#w else 0#w

@[simp] theorem ofBool_ne_zero (b : Bool) : (ofBool b != 0#32) = b := by cases b <;> decide
@[simp] theorem ofBool_true : ofBool true = 1#32 := rfl
@[simp] theorem ofBool_false : ofBool false = 0#32 := rfl
theorem ofBool_toNat (b : Bool) : (ofBool b).toNat = if b then 1 else 0 := by cases b <;> rfl

/-! ### definedness of the arithmetic operators -/

/-- signed `x + y` does not overflow -/
def sAddOk (x y : BitVec w) : Bool := !BitVec.saddOverflow x y
/-- signed `x - y` does not overflow -/
def sSubOk (x y : BitVec w) : Bool := !BitVec.ssubOverflow x y
/-- signed `x * y` does not overflow -/
def sMulOk (x y : BitVec w) : Bool := !BitVec.smulOverflow x y
/-- signed `-x` does not overflow (`x ≠ INT_MIN`) -/
def sNegOk (x : BitVec w) : Bool := x != BitVec.intMin w
/-- unsigned `x / y`, `x % y`: `y ≠ 0` -/
def uDivOk (y : BitVec w) : Bool := y != 0#w
/-- signed `x / y`, `x % y`: `y ≠ 0` and not `INT_MIN / -1` -/
def sDivOk (x y : BitVec w) : Bool := y != 0#w && !(x == BitVec.intMin w && y == BitVec.allOnes w)

/-- shift count `n` (of a type that is signed iff `sgn`) is valid for a left operand of `w` bits:
`0 ≤ n < w` -/
def shCountOk (sgn : Bool) (w : Nat) (n : BitVec m) : Bool := (!sgn || !n.msb) && decide (n.toNat < w)

/-- left shift of a *signed* value `x` by `n` (already known `< w`) is defined: `x ≥ 0` and `x * 2^n` is
representable in the signed type (C11 6.5.7p4) -/
def sShlOk (x : BitVec w) (n : Nat) : Bool := !x.msb && decide (x.toNat <<< n < 2 ^ (w - 1))

/-! ### builtins -/

/-- number of bits needed to write `n` (0 for 0) -/
def bitLen (n : Nat) : Nat := if n = 0 then 0 else Nat.log2 n + 1

/-- `__builtin_clz` / `__builtin_clzll` as a number (defined for `x ≠ 0`; `w` for 0 here) -/
def clzNat (x : BitVec w) : Nat := w - bitLen x.toNat

def ctzAux : Nat → Nat → Nat
  | 0, _ => 0
  | fuel + 1, n => if n % 2 = 1 then 0 else 1 + ctzAux fuel (n / 2)

/-- `__builtin_ctz` / `__builtin_ctzll` as a number (defined for `x ≠ 0`; `w` for 0 here) -/
def ctzNat (x : BitVec w) : Nat := if x.toNat = 0 then w else ctzAux w x.toNat

def popAux : Nat → Nat → Nat
  | 0, _ => 0
  | fuel + 1, n => n % 2 + popAux fuel (n / 2)

/-- `__builtin_popcount` / `__builtin_popcountll` as a number -/
def popNat (x : BitVec w) : Nat := popAux w x.toNat

/-- result of the builtins is an `int` -/
def builtinClz (x : BitVec w) : BitVec 32 := BitVec.ofNat 32 (clzNat x)
def builtinCtz (x : BitVec w) : BitVec 32 := BitVec.ofNat 32 (ctzNat x)
def builtinPopcount (x : BitVec w) : BitVec 32 := BitVec.ofNat 32 (popNat x)
/-- `__builtin_clz(0)` and `__builtin_ctz(0)` are undefined -/
def builtinNonZero (x : BitVec w) : Bool := x != 0#w


/-! ### arrays, pointers (stage 2 of the translator, NOTES_cfun2.md)

An array the C function reaches through a pointer parameter (or a global / local array) is a list: `List UInt8` for
8-bit elements, `List (BitVec w)` otherwise.  A pointer VALUE is a `Nat`: the offset, in elements, from the start of
the one array it was derived from (the translator rejects programs in which a pointer variable can point into two
arrays).  Reading outside the list makes `f_defined` false (`inb`); the value functions are total (`0` outside).
Forming a pointer beyond the end of its array is not counted as undefined (`p + 8 <= end` with fewer than 8 bytes
left — strictly UB by C11 6.5.6p8, universal in practice, invisible on a flat address space); moving a pointer
before the start of its array is. -/

/-- `a[i]` of a byte array -/
def rd8 (a : List UInt8) (i : Nat) : BitVec 8 := (a.getD i 0).toBitVec
/-- `a[i]` of an array of `w`-bit integers -/
def rd (a : List (BitVec w)) (i : Nat) : BitVec w := a.getD i 0#w
/-- the `n` elements from offset `i` on lie inside the array -/
def inb (a : List α) (i n : Nat) : Bool := decide (i + n ≤ a.length)

/-- little-endian loads from a byte array (the host is little-endian; the translator checks) -/
def ld16le (a : List UInt8) (i : Nat) : BitVec 16 :=
  (rd8 a i).setWidth 16 ||| ((rd8 a (i + 1)).setWidth 16 <<< 8)
def ld32le (a : List UInt8) (i : Nat) : BitVec 32 :=
  (rd8 a i).setWidth 32 ||| ((rd8 a (i + 1)).setWidth 32 <<< 8) ||| ((rd8 a (i + 2)).setWidth 32 <<< 16) |||
  ((rd8 a (i + 3)).setWidth 32 <<< 24)
def ld64le (a : List UInt8) (i : Nat) : BitVec 64 :=
  (rd8 a i).setWidth 64 ||| ((rd8 a (i + 1)).setWidth 64 <<< 8) ||| ((rd8 a (i + 2)).setWidth 64 <<< 16) |||
  ((rd8 a (i + 3)).setWidth 64 <<< 24) ||| ((rd8 a (i + 4)).setWidth 64 <<< 32) |||
  ((rd8 a (i + 5)).setWidth 64 <<< 40) ||| ((rd8 a (i + 6)).setWidth 64 <<< 48) |||
  ((rd8 a (i + 7)).setWidth 64 <<< 56)

/-- `a[i] = v` on a byte array (functional update; outside the array: no change, and `f_defined` is false) -/
def wr8 (a : List UInt8) (i : Nat) (v : BitVec 8) : List UInt8 := a.set i (UInt8.ofBitVec v)
/-- `a[i] = v` on an array of `w`-bit integers -/
def wr (a : List (BitVec w)) (i : Nat) (v : BitVec w) : List (BitVec w) := a.set i v

/-- `p + k` for a signed `k` on offsets; meaningful when `paddOk` -/
def padd (off : Nat) (k : Int) : Nat := (Int.ofNat off + k).toNat
/-- the pointer does not move before the start of its array -/
def paddOk (off : Nat) (k : Int) : Bool := decide (0 ≤ Int.ofNat off + k)

/-- the array `a` after a callee that received `a + off` has returned that part as `part` -/
def splice (a : List α) (off : Nat) (part : List α) : List α := a.take off ++ part

/-- `memset(a + off, 0, n * sizeof a[0])`: `n` elements from `off` on become `v` -/
def fill (a : List α) (off n : Nat) (v : α) : List α :=
  a.take off ++ List.replicate n v ++ a.drop (off + n)


/-! ### run-time-length `memcpy` (stage 3 of the translator, NOTES_cfun3.md) -/

/-- `memcpy(dst + off, src + soff, n)` between two different arrays: `n` elements of `dst` from `off` on are replaced by
the `n` elements of `src` from `soff` on (meaningful when both ranges are inside their arrays: `f_defined` asks for it) -/
def copyInto (dst : List α) (off : Nat) (src : List α) (soff n : Nat) : List α :=
  dst.take off ++ (src.drop soff).take n ++ dst.drop (off + n)

/-- byte `i` (little-endian) of `x` -/
def byteOf (x : BitVec w) (i : Nat) : Nat := (x.toNat >>> (8 * i)) % 256

/-- `memcpy(&v, a + off, n)` with a run-time `n ≤ sizeof v` on a little-endian host: the low `n` bytes of `v` are replaced
by `a[off .. off+n)`, the other bytes of `v` keep their value -/
def ldPartLE (old : BitVec w) (a : List UInt8) (off n : Nat) : BitVec w :=
  BitVec.ofNat w (((List.range (w / 8)).map (fun i =>
    (if i < n then (a.getD (off + i) 0).toNat else byteOf old i) <<< (8 * i))).foldl (· ||| ·) 0)

/-! ### values crossing the C / Lean boundary in the translator self-check (stage 2) -/

/-- an integer bit pattern, or an array of them -/
inductive Val where
  | n (v : Nat)
  | a (xs : List Nat)
deriving Repr, BEq, Inhabited

/-- kind of an argument / result component: an integer of `w` bits (`w = 0`: `_Bool`), or an array of `w`-bit elements -/
inductive Kind where
  | int (w : Nat) (signed : Bool)
  | arr (w : Nat)
  /-- a second pointer into the array parameter `base` (the `end` of a `(p, end)` pair): an offset in elements -/
  | off (base : String)
deriving Repr, BEq, Inhabited

/-! ### how the driver / theorems read a value -/

/-- the mathematical value of a `BitVec` read as a signed C integer -/
abbrev sval (x : BitVec w) : Int := x.toInt
/-- the mathematical value of a `BitVec` read as an unsigned C integer -/
abbrev uval (x : BitVec w) : Nat := x.toNat

/-! ### cfunb: copies between arrays (`memcpy(q, p, n)` on byte arrays; NOTES_cfunb.md) -/

/-- `memcpy(dst + doff, src + soff, n)`: the `n` elements of `src` from `soff` on replace the `n` elements of `dst`
from `doff` on (`src` is the content BEFORE the copy; for a copy inside one array `src = dst`) -/
def blit (dst : List α) (doff : Nat) (src : List α) (soff n : Nat) : List α :=
  dst.take doff ++ (src.drop soff).take n ++ dst.drop (doff + n)

/-- the ranges `[a, a+n)` and `[b, b+n)` of one array do not overlap (`memcpy` inside one object, C11 7.24.2.1p2) -/
def disjoint (a b n : Nat) : Bool := decide (a + n ≤ b ∨ b + n ≤ a)

end Carquet.Impl.CSem
