import Carquet.Impl.Rle
/-
Access-reporting twins of the RLE / bit-packed hybrid *decoders* of Impl/Rle.lean (C08).

Impl/Rle.lean represents `(data, size, pos)` by the unread suffix `rest`, so "a read outside the
input" cannot even be written down there.  The functions below are the same decoders — same
branches, same order of checks, same results (proved: `Proofs.RleAcc.*_fst`) — that additionally
report every read the C code makes as an access `(offset, length)` into `data[0 .. size)`, where
`offset = size − rest.length` is the C variable `pos` at the moment of the read:

  read_varint / the inlined header loop      (pos, number of bytes examined: ≤ 5, stops at the
                                              first byte without continuation bit or at the end)
  `data[pos++]` × value_bytes                (pos, value_bytes)        after `pos + value_bytes > size` failed
  carquet_bitunpack8_32(data + pos, w, …)    (pos, w)                  after `pos + w > size` failed
  carquet_read_u32_le(input)                 (0, 4)                    after `input_size < 4` failed

A failing `read_varint` examines bytes without consuming them; everything else is consumed.
`size` is a parameter (the input length of the enclosing call); the theorems instantiate it with
`data.length` and show every reported access lies inside `[pos, size)`.
-/
namespace Carquet.Impl.Rle

/-- one read access to the input: `len` bytes starting at `off` -/
structure Acc where
  off : Nat
  len : Nat
  deriving DecidableEq, Repr

/-- number of bytes the header loops examine: `while (p < size && shift < 32) { byte = data[p++]; …
if ((byte & 0x80) == 0) break/return; shift += 7; }` -/
def headerBytes : Nat → List UInt8 → Nat
  | 0, _ => 0
  | _ + 1, [] => 0
  | f + 1, b :: rest => if b.toNat &&& 0x80 = 0 then 1 else 1 + headerBytes f rest

/-- bytes examined by rle.c `read_varint` and by the header loop of `carquet_rle_decode_levels` -/
def headerLen (bs : List UInt8) : Nat := headerBytes 5 bs

/-- twin of `startNewRunF` -/
def startNewRunAccF (size : Nat) : Nat → Dec → (Bool × Dec) × List Acc
  | 0, d => ((false, d), [])
  | f + 1, d =>
    if d.rest.length = 0 then ((false, d), [])
    else
      match Varint.readVarintRle d.rest with
      | none => ((false, { d with status := .invalidRle }), [⟨size - d.rest.length, headerLen d.rest⟩])
      | some (h, rest) =>
        if h &&& 1 = 0 then
          if rest.length < valueBytes d.width then
            ((false, { d with rest := rest, inRle := true, runRemaining := h >>> 1, status := .invalidRle }),
             [⟨size - d.rest.length, headerLen d.rest⟩])
          else if h >>> 1 = 0 then
            ((startNewRunAccF size f { d with rest := rest.drop (valueBytes d.width), inRle := true, runRemaining := 0, rleValue := Bitpack.leNat (rest.take (valueBytes d.width)) &&& valueMask d.width }).1,
             ⟨size - d.rest.length, headerLen d.rest⟩ :: ⟨size - rest.length, valueBytes d.width⟩ ::
             (startNewRunAccF size f { d with rest := rest.drop (valueBytes d.width), inRle := true, runRemaining := 0, rleValue := Bitpack.leNat (rest.take (valueBytes d.width)) &&& valueMask d.width }).2)
          else
            ((true, { d with rest := rest.drop (valueBytes d.width), inRle := true, runRemaining := h >>> 1, rleValue := Bitpack.leNat (rest.take (valueBytes d.width)) &&& valueMask d.width }),
             [⟨size - d.rest.length, headerLen d.rest⟩, ⟨size - rest.length, valueBytes d.width⟩])
        else
          if (h >>> 1) * 8 = 0 then
            ((startNewRunAccF size f { d with rest := rest, inRle := false, runRemaining := 0 }).1,
             ⟨size - d.rest.length, headerLen d.rest⟩ ::
             (startNewRunAccF size f { d with rest := rest, inRle := false, runRemaining := 0 }).2)
          else
            ((true, { d with rest := rest, inRle := false, runRemaining := (h >>> 1) * 8, bp := [] }),
             [⟨size - d.rest.length, headerLen d.rest⟩])

def startNewRunAcc (size : Nat) (d : Dec) : (Bool × Dec) × List Acc :=
  startNewRunAccF size (d.rest.length + 1) d

/-- twin of `fill` -/
def fillAcc (size : Nat) (d : Dec) : (Bool × Dec) × List Acc :=
  if d.runRemaining = 0 then ((false, d), [])
  else if d.rest.length < d.width then ((false, { d with status := .invalidRle }), [])
  else ((true, { d with bp := Bitpack.unpack8 d.width d.rest, rest := d.rest.drop d.width }),
        [⟨size - d.rest.length, d.width⟩])

/-- twin of `ensureRun` -/
def ensureRunAcc (size : Nat) (d : Dec) : (Bool × Dec) × List Acc :=
  if d.runRemaining = 0 then startNewRunAcc size d else ((true, d), [])

/-- twin of `ensureBuf` -/
def ensureBufAcc (size : Nat) (d : Dec) : (Bool × Dec) × List Acc :=
  if d.inRle = true then ((true, d), [])
  else if d.bp.length = 0 then fillAcc size d
  else ((true, d), [])

/-- twin of `prep` -/
def prepAcc (size : Nat) (d : Dec) : (Bool × Dec) × List Acc :=
  if (ensureRunAcc size d).1.1 = true then
    ((ensureBufAcc size (ensureRunAcc size d).1.2).1,
     (ensureRunAcc size d).2 ++ (ensureBufAcc size (ensureRunAcc size d).1.2).2)
  else ((false, (ensureRunAcc size d).1.2), (ensureRunAcc size d).2)

/-- twin of `get` -/
def getAcc (size : Nat) (d : Dec) : (Nat × Dec) × List Acc :=
  if d.status ≠ .ok then ((0, d), [])
  else if (prepAcc size d).1.1 = true then (pop (prepAcc size d).1.2, (prepAcc size d).2)
  else ((0, (prepAcc size d).1.2), (prepAcc size d).2)

/-- twin of `batchLoop` -/
def batchLoopAcc (size : Nat) : Nat → Dec → Nat → (List Nat × Dec) × List Acc
  | 0, d, _ => (([], d), [])
  | f + 1, d, want =>
    if want = 0 then (([], d), [])
    else if hasNext d = false then (([], d), [])
    else if (prepAcc size d).1.1 = false then (([], (prepAcc size d).1.2), (prepAcc size d).2)
    else
      ((chunkVals (prepAcc size d).1.2 want ++
          (batchLoopAcc size f (chunkDec (prepAcc size d).1.2 want) (want - chunkLen (prepAcc size d).1.2 want)).1.1,
        (batchLoopAcc size f (chunkDec (prepAcc size d).1.2 want) (want - chunkLen (prepAcc size d).1.2 want)).1.2),
       (prepAcc size d).2 ++
          (batchLoopAcc size f (chunkDec (prepAcc size d).1.2 want) (want - chunkLen (prepAcc size d).1.2 want)).2)

/-- twin of `getBatch` -/
def getBatchAcc (size : Nat) (d : Dec) (count : Nat) : (List Nat × Dec) × List Acc :=
  batchLoopAcc size count d count

/-- twin of `skipLoop` -/
def skipLoopAcc (size : Nat) : Nat → Dec → Nat → (Nat × Dec) × List Acc
  | 0, d, _ => ((0, d), [])
  | f + 1, d, want =>
    if want = 0 then ((0, d), [])
    else if hasNext d = false then ((0, d), [])
    else if (prepAcc size d).1.1 = false then ((0, (prepAcc size d).1.2), (prepAcc size d).2)
    else
      ((chunkLen (prepAcc size d).1.2 want +
          (skipLoopAcc size f (chunkDec (prepAcc size d).1.2 want) (want - chunkLen (prepAcc size d).1.2 want)).1.1,
        (skipLoopAcc size f (chunkDec (prepAcc size d).1.2 want) (want - chunkLen (prepAcc size d).1.2 want)).1.2),
       (prepAcc size d).2 ++
          (skipLoopAcc size f (chunkDec (prepAcc size d).1.2 want) (want - chunkLen (prepAcc size d).1.2 want)).2)

/-- twin of `skip` -/
def skipAcc (size : Nat) (d : Dec) (count : Nat) : (Nat × Dec) × List Acc := skipLoopAcc size count d count

/-- twin of `step` -/
def stepAcc (size : Nat) (d : Dec) : Op → (Obs × Dec) × List Acc
  | .get => ((.val (getAcc size d).1.1, (getAcc size d).1.2), (getAcc size d).2)
  | .getBatch k => ((.vals (getBatchAcc size d k).1.1, (getBatchAcc size d k).1.2), (getBatchAcc size d k).2)
  | .skip k => ((.skipped (skipAcc size d k).1.1, (skipAcc size d k).1.2), (skipAcc size d k).2)

/-- twin of `runOps`: observations, accesses in order, final state -/
def runOpsAcc (size : Nat) (d : Dec) : List Op → List Obs × List Acc × Dec
  | [] => ([], [], d)
  | op :: ops =>
    ((stepAcc size d op).1.1 :: (runOpsAcc size (stepAcc size d op).1.2 ops).1,
     (stepAcc size d op).2 ++ (runOpsAcc size (stepAcc size d op).1.2 ops).2.1,
     (runOpsAcc size (stepAcc size d op).1.2 ops).2.2)

/-- twin of `decodeAll`: `carquet_rle_decode_all` with the final state (`dec.pos`, `dec.status`) -/
def decodeAllAcc (w : Nat) (bytes : List UInt8) (count : Nat) : (List Nat × Dec) × List Acc :=
  getBatchAcc bytes.length (Dec.init w bytes) count

/-! ### levels -/

/-- twin of `levelsGroups` (values, unread input) with the group reads -/
def levelsGroupsAcc (size w : Nat) : Nat → List UInt8 → Nat → (List Int × List UInt8) × List Acc
  | 0, rest, _ => (([], rest), [])
  | g + 1, rest, want =>
    if want = 0 then (([], rest), [])
    else if rest.length < w then (([], rest), [])
    else
      ((storeGroup (Bitpack.unpack8 w rest) want ++ (levelsGroupsAcc size w g (rest.drop w) (want - min 8 want)).1.1,
        (levelsGroupsAcc size w g (rest.drop w) (want - min 8 want)).1.2),
       ⟨size - rest.length, w⟩ :: (levelsGroupsAcc size w g (rest.drop w) (want - min 8 want)).2)

/-- twin of `levelsLoop`: levels, the unread input when the function returns, accesses -/
def levelsLoopAcc (size w : Nat) : Nat → List UInt8 → Nat → (List Int × List UInt8) × List Acc
  | 0, bs, _ => (([], bs), [])
  | f + 1, bs, want =>
    if want = 0 then (([], bs), [])
    else if bs.length = 0 then (([], bs), [])
    else if (Varint.readHeaderLevels bs).1 &&& 1 = 0 then
      if (Varint.readHeaderLevels bs).2.length < valueBytes w then
        (([], (Varint.readHeaderLevels bs).2), [⟨size - bs.length, headerLen bs⟩])
      else if (Varint.readHeaderLevels bs).1 >>> 1 = 0 then
        ((levelsLoopAcc size w f ((Varint.readHeaderLevels bs).2.drop (valueBytes w)) want).1,
         ⟨size - bs.length, headerLen bs⟩ :: ⟨size - (Varint.readHeaderLevels bs).2.length, valueBytes w⟩ ::
         (levelsLoopAcc size w f ((Varint.readHeaderLevels bs).2.drop (valueBytes w)) want).2)
      else
        ((List.replicate (min ((Varint.readHeaderLevels bs).1 >>> 1) want)
              (truncI16 (Bitpack.leNat ((Varint.readHeaderLevels bs).2.take (valueBytes w)) &&& valueMask w)) ++
            (levelsLoopAcc size w f ((Varint.readHeaderLevels bs).2.drop (valueBytes w))
              (want - min ((Varint.readHeaderLevels bs).1 >>> 1) want)).1.1,
          (levelsLoopAcc size w f ((Varint.readHeaderLevels bs).2.drop (valueBytes w))
              (want - min ((Varint.readHeaderLevels bs).1 >>> 1) want)).1.2),
         ⟨size - bs.length, headerLen bs⟩ :: ⟨size - (Varint.readHeaderLevels bs).2.length, valueBytes w⟩ ::
         (levelsLoopAcc size w f ((Varint.readHeaderLevels bs).2.drop (valueBytes w))
              (want - min ((Varint.readHeaderLevels bs).1 >>> 1) want)).2)
    else
      if ((Varint.readHeaderLevels bs).1 >>> 1) * 8 = 0 then
        ((levelsLoopAcc size w f (Varint.readHeaderLevels bs).2 want).1,
         ⟨size - bs.length, headerLen bs⟩ :: (levelsLoopAcc size w f (Varint.readHeaderLevels bs).2 want).2)
      else if groupsCut w ((Varint.readHeaderLevels bs).1 >>> 1) (Varint.readHeaderLevels bs).2 want then
        ((levelsGroupsAcc size w ((Varint.readHeaderLevels bs).1 >>> 1) (Varint.readHeaderLevels bs).2 want).1,
         ⟨size - bs.length, headerLen bs⟩ ::
         (levelsGroupsAcc size w ((Varint.readHeaderLevels bs).1 >>> 1) (Varint.readHeaderLevels bs).2 want).2)
      else
        (((levelsGroupsAcc size w ((Varint.readHeaderLevels bs).1 >>> 1) (Varint.readHeaderLevels bs).2 want).1.1 ++
            (levelsLoopAcc size w f
              (levelsGroupsAcc size w ((Varint.readHeaderLevels bs).1 >>> 1) (Varint.readHeaderLevels bs).2 want).1.2
              (want - (levelsGroupsAcc size w ((Varint.readHeaderLevels bs).1 >>> 1) (Varint.readHeaderLevels bs).2 want).1.1.length)).1.1,
          (levelsLoopAcc size w f
              (levelsGroupsAcc size w ((Varint.readHeaderLevels bs).1 >>> 1) (Varint.readHeaderLevels bs).2 want).1.2
              (want - (levelsGroupsAcc size w ((Varint.readHeaderLevels bs).1 >>> 1) (Varint.readHeaderLevels bs).2 want).1.1.length)).1.2),
         ⟨size - bs.length, headerLen bs⟩ ::
         ((levelsGroupsAcc size w ((Varint.readHeaderLevels bs).1 >>> 1) (Varint.readHeaderLevels bs).2 want).2 ++
          (levelsLoopAcc size w f
              (levelsGroupsAcc size w ((Varint.readHeaderLevels bs).1 >>> 1) (Varint.readHeaderLevels bs).2 want).1.2
              (want - (levelsGroupsAcc size w ((Varint.readHeaderLevels bs).1 >>> 1) (Varint.readHeaderLevels bs).2 want).1.1.length)).2))

/-- twin of `decodeLevels`: the levels stored, the value of `pos` when the function returns, accesses
relative to an input that starts at offset `base` of the caller's buffer of `size` bytes -/
def decodeLevelsAcc (w : Nat) (bytes : List UInt8) (maxValues : Nat) : (List Int × Nat) × List Acc :=
  if w ≤ maxWidth then
    (((levelsLoopAcc bytes.length w (bytes.length + 1) bytes maxValues).1.1,
      bytes.length - (levelsLoopAcc bytes.length w (bytes.length + 1) bytes maxValues).1.2.length),
     (levelsLoopAcc bytes.length w (bytes.length + 1) bytes maxValues).2)
  else (([], 0), [])

/-- shift the accesses of a sub-buffer that starts at `base` -/
def shiftAccs (base : Nat) (l : List Acc) : List Acc := l.map (fun a => ⟨base + a.off, a.len⟩)

/-- twin of `decodeLevelsPrefixed`: result and accesses into `input[0 .. input_size)` -/
def decodeLevelsPrefixedAcc (w : Nat) (bytes : List UInt8) (maxValues : Nat) :
    Except PrefixErr (List Int × Nat) × List Acc :=
  if bytes.length < 4 then (.error .tooShort, [])
  else if Bitpack.leNat (bytes.take 4) > bytes.length - 4 then (.error .lengthExceedsInput, [⟨0, 4⟩])
  else
    (.ok ((decodeLevelsAcc w ((bytes.drop 4).take (Bitpack.leNat (bytes.take 4))) maxValues).1.1,
          4 + Bitpack.leNat (bytes.take 4)),
     ⟨0, 4⟩ :: shiftAccs 4 (decodeLevelsAcc w ((bytes.drop 4).take (Bitpack.leNat (bytes.take 4))) maxValues).2)

example : decodeAllAcc 3 [0x00, 0x05, 0x02, 0x03] 1 =
    (([3], ⟨3, [], true, 0, 3, [], .ok⟩), [⟨0, 1⟩, ⟨1, 1⟩, ⟨2, 1⟩, ⟨3, 1⟩]) := by decide +kernel
example : (decodeAllAcc 8 [0x03, 0x02, 0x05] 4).2 = [⟨0, 1⟩] ∧ (decodeAllAcc 8 [0x03, 0x02, 0x05] 4).1.2.status = .invalidRle := by decide +kernel
example : (decodeAllAcc 33 [0x10, 1, 2, 3, 4, 5] 8) = (([], Dec.init 33 [0x10, 1, 2, 3, 4, 5]), []) := by decide +kernel
example : (decodeLevelsPrefixedAcc 1 [0x02, 0, 0, 0, 0x03, 0x05, 0xEE] 8).1.toOption = some ([1, 0, 1, 0, 0, 0, 0, 0], 6) ∧
    (decodeLevelsPrefixedAcc 1 [0x02, 0, 0, 0, 0x03, 0x05, 0xEE] 8).2 = [⟨0, 4⟩, ⟨4, 1⟩, ⟨5, 1⟩] := by decide +kernel
example : (decodeLevelsPrefixedAcc 1 [0xFF, 0xFF, 0xFF, 0xFF, 0x02, 0x01] 5).1.toOption = none ∧
    (decodeLevelsPrefixedAcc 1 [0xFF, 0xFF, 0xFF, 0xFF, 0x02, 0x01] 5).2 = [⟨0, 4⟩] := by decide +kernel

end Carquet.Impl.Rle
