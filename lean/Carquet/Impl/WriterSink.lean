import Carquet.Impl.Writer
import Carquet.Impl.Sink
/-
The writer of `src/writer/file_writer.c` on a stream that may fail (C18, second half, composed
with the writer model).  Impl/Writer.lean is the control of the writer on a healthy stream;
Impl/Sink.lean is the contract of a C `FILE*` whose sink may fail at any operation.  Here the
two are put together, call by call, as the C code does it:

  * which stream call is checked where (`write_magic`, `flush_row_group`, the three writes of
    `carquet_writer_close`, its `fflush`/`ferror`, the `fclose` of an owned stream);
  * what the writer keeps after a failed `fwrite`: `ensure_header_written` leaves
    `header_written` false and `file_offset` untouched, so EVERY later call retries the magic
    first; `flush_row_group` returns before any bookkeeping, so the row group stays current with
    its columns finalised (pages flushed), `file_offset`, `num_row_groups`, `total_rows`
    unchanged — later batches go on into it, the next `new_row_group`/`close` finalises and
    writes it again; `carquet_row_group_writer_finalize` starts the row-group writer's
    `total_byte_size` from 0 on every call (fix F23; before, a row group written at the second
    attempt recorded the sum of both attempts there — the model had a `carry` field for it), so a
    retried finalisation records exactly what a first one would;
  * `close` consults the sticky error indicator after its `fflush` (fixes F17, F42) and frees
    the writer on every path.

The environment (`Env`) decides the `Outcome` of every stream operation.  It may be adaptive:
it sees the stream (what is pending) and the operation (the data of an `fwrite`), so every
buffering policy of a real stdio (unbuffered, a buffer of capacity c, glibc's block alignment)
and every fault schedule of a sink is an `Env`; a fixed oracle `Nat → Outcome` (Impl.Sink) is
the special case `Env.ofOracle`.  The theorems (Properties/C18/WriterSink.lean) quantify over
all environments.  Fidelity: exact for the control described above (tie: harness op `sink`,
statuses of every call, failure flag, the bytes the sink holds, in all three buffering modes).
-/
namespace Carquet.Impl.WriterSink
open Carquet.Impl.Writer
open Carquet.Impl.Sink (Stream Outcome Oracle)

/-- a stream operation, as the environment sees it -/
inductive SOp where
  | write (d : Bytes)
  | flush
  | close
  deriving DecidableEq, Repr

/-- stdio + sink: the outcome of the next stream operation, given what is pending and what is asked -/
structure Env (ε : Type) where
  next : ε → Stream → SOp → Outcome × ε

/-- a fixed oracle indexed by the number of the stream operation (Impl.Sink.Oracle) -/
def Env.ofOracle (o : Oracle) : Env Nat := ⟨fun i _ _ => (o i, i + 1)⟩

/-- writer + stream + environment state -/
structure SW (ε : Type) where
  s : Stream := {}
  e : ε
  w : W
  /-- ghost: the outcomes of all stream operations so far -/
  log : List Outcome := []

/-- `fwrite(d, 1, |d|, file) == |d|` -/
def swrite (E : Env ε) (x : SW ε) (d : Bytes) : SW ε × Bool :=
  ({ x with s := (Sink.fwrite x.s d (E.next x.e x.s (.write d)).1).1,
            e := (E.next x.e x.s (.write d)).2,
            log := x.log ++ [(E.next x.e x.s (.write d)).1] },
   (Sink.fwrite x.s d (E.next x.e x.s (.write d)).1).2)

/-- `fflush(file) == 0` -/
def sflush (E : Env ε) (x : SW ε) : SW ε × Bool :=
  ({ x with s := (Sink.fflush x.s (E.next x.e x.s .flush).1).1,
            e := (E.next x.e x.s .flush).2,
            log := x.log ++ [(E.next x.e x.s .flush).1] },
   (Sink.fflush x.s (E.next x.e x.s .flush).1).2)

/-- `fclose(file) == 0` -/
def sclose (E : Env ε) (x : SW ε) : SW ε × Bool :=
  ({ x with s := (Sink.fclose x.s (E.next x.e x.s .close).1).1,
            e := (E.next x.e x.s .close).2,
            log := x.log ++ [(E.next x.e x.s .close).1] },
   (Sink.fclose x.s (E.next x.e x.s .close).1).2)

/-- `ensure_header_written`: a failed `write_magic` returns before `file_offset` and
`header_written` are set -/
def ensureHeaderS (E : Env ε) (x : SW ε) : SW ε × Status :=
  if x.w.headerWritten then (x, .ok)
  else if (swrite E x magic).2 then ({ (swrite E x magic).1 with w := ensureHeader x.w }, .ok)
  else ((swrite E x magic).1, .fileWrite)

/-- the column writers after `carquet_row_group_writer_finalize` (every column's current page flushed) -/
def flushedCols (D : Deps) (w : W) : List Col → List ColW → List ColW
  | c :: cs, cw :: cws =>
    match flushPage D w.codec c cw with
    | none => cw :: cws
    | some cw' => cw' :: flushedCols D w cs cws
  | _, cws => cws

/-- the writer state after the bookkeeping of `flush_row_group` (everything below its `fwrite`) -/
def commitRowGroup (D : Deps) (w : W) (cws : List ColW) (bytes : Bytes) (metas : List ChunkMeta) : W :=
  { w with out := if bytes.length > 0 then w.out ++ [bytes] else w.out,
           rowGroups := w.rowGroups ++ [{ numRows := w.rgRows, totalByteSize := chunksUncompressed metas,
                                          fileOffset := w.fileOffset, totalCompressed := bytes.length,
                                          ordinal := w.rowGroups.length, chunks := metas }],
           fileOffset := w.fileOffset + bytes.length,
           totalRows := w.totalRows + w.rgRows,
           rg := none, rgRows := 0,
           pagesDone := w.pagesDone ++ [finalizeColsPages D w w.cols cws] }

/-- `flush_row_group` -/
def flushRowGroupS (D : Deps) (E : Env ε) (x : SW ε) : SW ε × Status :=
  match x.w.rg with
  | none => (x, .ok)
  | some cws =>
    match finalizeCols D x.w x.w.cols cws x.w.fileOffset with
    | none => (x, .other)
    | some (bytes, metas) =>
      if bytes.length > 0 then
        if (swrite E x bytes).2 then
          ({ (swrite E x bytes).1 with w := commitRowGroup D x.w cws bytes metas }, .ok)
        else
          ({ (swrite E x bytes).1 with w := { x.w with rg := some (flushedCols D x.w x.w.cols cws) } }, .fileWrite)
      else ({ x with w := commitRowGroup D x.w cws bytes metas }, .ok)

/-- `carquet_writer_write_batch`: the column index is checked first, then the header; nothing
else touches the stream -/
def writeBatchS (D : Deps) (E : Env ε) (x : SW ε) (b : Batch) : SW ε × Status :=
  match x.w.cols[b.col]? with
  | none => (x, .invalidArgument)
  | some _ =>
    if (ensureHeaderS E x).2 = .ok then
      ({ (ensureHeaderS E x).1 with w := (writeBatch D x.w b).1 }, (writeBatch D x.w b).2)
    else ensureHeaderS E x

/-- `carquet_writer_new_row_group` -/
def newRowGroupS (D : Deps) (E : Env ε) (x : SW ε) : SW ε × Status :=
  if (ensureHeaderS E x).2 = .ok then flushRowGroupS D E (ensureHeaderS E x).1
  else ensureHeaderS E x

def stepS (D : Deps) (E : Env ε) (x : SW ε) : Op → SW ε × Status
  | .batch b => writeBatchS D E x b
  | .newRowGroup => newRowGroupS D E x

/-- the `cleanup:` label of `carquet_writer_close`: a writer that owns its stream closes it on
every path; a failing `fclose` turns OK into FILE_WRITE (fix F17) -/
def cleanupS (E : Env ε) (owns : Bool) (x : SW ε) (st : Status) : SW ε × Status :=
  if owns then ((sclose E x).1, if st = .ok && !(sclose E x).2 then .fileWrite else st)
  else (x, st)

/-- the footer, its length and the closing magic, each `fwrite` checked -/
def writeTail (D : Deps) (E : Env ε) (x : SW ε) : SW ε × Status :=
  if (swrite E x (footerOf D x.w)).2 then
    if (swrite E (swrite E x (footerOf D x.w)).1 (le32 (footerOf D x.w).length)).2 then
      if (swrite E (swrite E (swrite E x (footerOf D x.w)).1 (le32 (footerOf D x.w).length)).1 magic).2 then
        ((swrite E (swrite E (swrite E x (footerOf D x.w)).1 (le32 (footerOf D x.w).length)).1 magic).1, .ok)
      else ((swrite E (swrite E (swrite E x (footerOf D x.w)).1 (le32 (footerOf D x.w).length)).1 magic).1, .fileWrite)
    else ((swrite E (swrite E x (footerOf D x.w)).1 (le32 (footerOf D x.w).length)).1, .fileWrite)
  else ((swrite E x (footerOf D x.w)).1, .fileWrite)

/-- `fflush(file) != 0 || ferror(file)` → FILE_WRITE (fixes F17 and F42) -/
def flushCheck (E : Env ε) (x : SW ε) : SW ε × Status :=
  ((sflush E x).1, if (sflush E x).2 && !(sflush E x).1.s.err then .ok else .fileWrite)

/-- `carquet_writer_close` up to the `cleanup:` label -/
def closeBody (D : Deps) (E : Env ε) (x : SW ε) : SW ε × Status :=
  if (newRowGroupS D E x).2 = .ok then
    if (writeTail D E (newRowGroupS D E x).1).2 = .ok then flushCheck E (writeTail D E (newRowGroupS D E x).1).1
    else writeTail D E (newRowGroupS D E x).1
  else newRowGroupS D E x

/-- `carquet_writer_close` -/
def closeS (D : Deps) (E : Env ε) (owns : Bool) (x : SW ε) : SW ε × Status :=
  cleanupS E owns (closeBody D E x).1 (closeBody D E x).2

/-- a whole history on the faulty stream: the statuses of every call (the caller carries on
after a failed call), then close -/
def runS (D : Deps) (E : Env ε) (owns : Bool) : SW ε → List Op → List Status → SW ε × List Status
  | x, [], acc => ((closeS D E owns x).1, acc ++ [(closeS D E owns x).2])
  | x, op :: ops, acc => runS D E owns (stepS D E x op).1 ops (acc ++ [(stepS D E x op).2])

/-- a fresh writer on a fresh stream -/
def initS (e : ε) (cols : List Col) (codec pageSize : Nat) (createdBy : String) : SW ε :=
  { e := e, w := { cols := cols, codec := codec, pageSize := pageSize, createdBy := createdBy } }

/-- the whole session: final state (`.s.delivered` = what the sink holds) and the statuses of all calls, close last -/
def sessionS (D : Deps) (E : Env ε) (e : ε) (owns : Bool) (cols : List Col) (codec pageSize : Nat)
    (createdBy : String) (ops : List Op) : SW ε × List Status :=
  runS D E owns (initS e cols codec pageSize createdBy) ops []

/-! ### the close of the tree before fix F42 / of seeded change C05b-2 (no `ferror`) -/

def flushCheckNoFerror (E : Env ε) (x : SW ε) : SW ε × Status :=
  ((sflush E x).1, if (sflush E x).2 then .ok else .fileWrite)

def closeBodyNoFerror (D : Deps) (E : Env ε) (x : SW ε) : SW ε × Status :=
  if (newRowGroupS D E x).2 = .ok then
    if (writeTail D E (newRowGroupS D E x).1).2 = .ok then flushCheckNoFerror E (writeTail D E (newRowGroupS D E x).1).1
    else writeTail D E (newRowGroupS D E x).1
  else newRowGroupS D E x

def closeSNoFerror (D : Deps) (E : Env ε) (owns : Bool) (x : SW ε) : SW ε × Status :=
  cleanupS E owns (closeBodyNoFerror D E x).1 (closeBodyNoFerror D E x).2

end Carquet.Impl.WriterSink
