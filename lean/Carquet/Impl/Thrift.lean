/-
Model of src/thrift/thrift_encode.c and src/thrift/thrift_decode.c (Thrift compact protocol
codec), function by function.  Fidelity: exact (same state fields, same order of checks, same
error codes, same integer truncations).

State that is *not* modelled: the text of `error_message`; the growth of the output buffer
(`carquet_buffer_append` failing with OUT_OF_MEMORY is C19's business — the encoder here never
runs out of memory, its sticky `status` only records THRIFT_ENCODE from the nesting check).

The three repairs proposed for C13 are switches of `Cfg`, so that the code before the repair
(`Cfg.preFix`) and after it (`Cfg.fixed`) are the same definitions:
  F9  `boolElemByte`    bool elements of skipped lists/sets/maps occupy one byte each
  F8  `containerDepth`  skipped containers count against THRIFT_MAX_NESTING
  F24 `pageStats`       page-header statistics are parsed (used by Impl.ThriftParquet)
and one repair found by C06 (`C06_regression_F62`):
  F62 `skipTruncated`   `thrift_skip` of a BYTE / DOUBLE / UUID value that the stream ends inside is
                        THRIFT_TRUNCATED (before: `carquet_buffer_reader_skip` with its result ignored — the decoder
                        stayed where it was and read the rest of the value as field headers)
The C recursion of `thrift_skip` is modelled with an explicit stack budget (`stk`): running out
of it is the status `Err.stack` (= the process dies of stack exhaustion).
-/
namespace Carquet.Impl.Thrift

/-- the `carquet_status_t` values the Thrift layer can return (plus `stack`, see above, and
`fuel`, a model artefact that is proved unreachable) -/
inductive Err where
  | invalidArgument | oom | invalidMetadata | decode | encode | invalidType | truncated
  | stack | fuel
  deriving DecidableEq, Repr, Inhabited

def Err.code : Err → Nat
  | .invalidArgument => 1 | .oom => 2 | .invalidMetadata => 23 | .decode => 30 | .encode => 31
  | .invalidType => 32 | .truncated => 33 | .stack => 998 | .fuel => 999

structure Cfg where
  boolElemByte : Bool
  containerDepth : Bool
  pageStats : Bool
  skipTruncated : Bool
  deriving DecidableEq, Repr

def Cfg.fixed : Cfg := ⟨true, true, true, true⟩
def Cfg.preFix : Cfg := ⟨false, false, false, false⟩

/-- `THRIFT_MAX_NESTING` = `THRIFT_ENCODER_MAX_NESTING` (compared with the extracted value in
the property file) -/
def maxNesting : Nat := 32

/-! ## Integer conversions (C casts on a two's-complement machine)

(`@[irreducible]`: the elaborator must never try to evaluate them on symbolic arguments — that
would compare 32-bit literals in unary.) -/

/-- `(int8_t)x` -/
@[irreducible] def toI8 (x : Int) : Int := (x + 128) % 256 - 128
/-- `(int16_t)x` -/
@[irreducible] def toI16 (x : Int) : Int := (x + 32768) % 65536 - 32768
/-- `(int32_t)x` -/
@[irreducible] def toI32 (x : Int) : Int := (x + 2147483648) % 4294967296 - 2147483648
/-- `(int64_t)x` -/
@[irreducible] def toI64 (x : Int) : Int := (x + 9223372036854775808) % 18446744073709551616 - 9223372036854775808
/-- `(uint64_t)x` -/
@[irreducible] def toU64 (x : Int) : Nat := (x % 18446744073709551616).toNat

/-- `carquet_zigzag_encode64` (core/endian.h), argument an `int64_t` -/
def zigzagEnc (v : Int) : Nat := if 0 ≤ v then (2 * v).toNat else (-2 * v - 1).toNat
/-- `carquet_zigzag_decode64`, argument a `uint64_t` -/
def zigzagDec (n : Nat) : Int := if n % 2 = 0 then ((n / 2 : Nat) : Int) else -((n / 2 : Nat) : Int) - 1

/-! ## Encoder (thrift_encode.c) -/

structure Enc where
  /-- the output buffer, most recent byte first (so that appending is cheap); see `Enc.out` -/
  rev : List UInt8
  /-- `last_field_id[0 .. nesting_level)`, innermost first; `nesting_level` is its length -/
  lastId : List Int
  status : Option Err
  deriving Repr, DecidableEq

/-- the bytes written so far, in order -/
def Enc.out (e : Enc) : List UInt8 := e.rev.reverse

/-- `thrift_encoder_init` -/
def Enc.init : Enc := ⟨[], [], none⟩

/-- `set_error` (encoder) -/
def Enc.setError (e : Enc) (err : Err) : Enc :=
  match e.status with
  | none => { e with status := some err }
  | some _ => e

def Enc.append (e : Enc) (bs : List UInt8) : Enc := { e with rev := bs.reverseAux e.rev }

/-- loop of `thrift_write_varint`; `v` is a `uint64_t`, so nine continuation bytes and a final one always suffice -/
def varintLoop : Nat → Nat → List UInt8
  | 0, v => [UInt8.ofNat v]
  | f + 1, v => if 128 ≤ v then UInt8.ofNat (v % 128 + 128) :: varintLoop f (v / 128) else [UInt8.ofNat v]

/-- bytes appended by `thrift_write_varint(enc, v)` for `v < 2^64` -/
def varintBytes (v : Nat) : List UInt8 := varintLoop 9 v

/-- `thrift_write_varint` -/
def writeVarint (e : Enc) (v : Nat) : Enc := e.append (varintBytes v)
/-- `thrift_write_zigzag` (argument `int64_t`) -/
def writeZigzag (e : Enc) (v : Int) : Enc := writeVarint e (zigzagEnc v)
/-- `thrift_write_byte` (the argument is the byte's unsigned value) -/
def writeByte (e : Enc) (b : UInt8) : Enc := e.append [b]
/-- two's-complement byte of an `int8_t` -/
def byteOfI8 (v : Int) : UInt8 := UInt8.ofNat (v % 256).toNat
/-- `thrift_write_i16/i32/i64`: all three sign-extend to 64 bits and zigzag -/
def writeI (e : Enc) (v : Int) : Enc := writeZigzag e v

def leBytes : Nat → Nat → List UInt8
  | 0, _ => []
  | n + 1, v => UInt8.ofNat (v % 256) :: leBytes n (v / 256)

/-- `thrift_write_double`, the value given by its bit pattern -/
def writeDouble (e : Enc) (bits : Nat) : Enc := e.append (leBytes 8 bits)
/-- `thrift_write_bool` (stand-alone: one byte, 1 or 0) -/
def writeBool (e : Enc) (b : Bool) : Enc := writeByte e (if b then 1 else 0)
/-- `thrift_write_binary` with `length = data.length` (non-negative, < 2^31) -/
def writeBinary (e : Enc) (data : List UInt8) : Enc := (writeVarint e data.length).append data
/-- `thrift_write_string`: NULL is written as the empty string -/
def writeString (e : Enc) (s : Option (List UInt8)) : Enc :=
  match s with
  | none => writeBinary e []
  | some bs => writeBinary e bs
/-- `thrift_write_uuid` -/
def writeUuid (e : Enc) (u : List UInt8) : Enc := e.append u

/-- `thrift_write_struct_begin` -/
def writeStructBegin (e : Enc) : Enc :=
  if maxNesting ≤ e.lastId.length then e.setError .encode else { e with lastId := 0 :: e.lastId }

/-- `thrift_write_field_stop` -/
def writeFieldStop (e : Enc) : Enc := writeByte e 0

/-- `thrift_write_struct_end` -/
def writeStructEnd (e : Enc) : Enc := { writeFieldStop e with lastId := e.lastId.tail }

def setTop (stk : List Int) (v : Int) : List Int :=
  match stk with
  | [] => []
  | _ :: r => v :: r

/-- `thrift_write_field_header`; `ty` is the C `int type`, `fid` an `int16_t` -/
def writeFieldHeader (e : Enc) (ty : Nat) (fid : Int) : Enc :=
  if 0 < toI16 (fid - e.lastId.headD 0) ∧ toI16 (fid - e.lastId.headD 0) ≤ 15 then
    { writeByte e (UInt8.ofNat ((toI16 (fid - e.lastId.headD 0)).toNat % 16 * 16 + ty % 16)) with
      lastId := setTop e.lastId fid }
  else
    { writeI (writeByte e (UInt8.ofNat (ty % 16))) fid with lastId := setTop e.lastId fid }

/-- `thrift_write_list_begin` / `thrift_write_set_begin` (`count` an `int32_t`) -/
def writeListBegin (e : Enc) (elemTy : Nat) (count : Int) : Enc :=
  if count < 15 then writeByte e (UInt8.ofNat ((count % 16).toNat * 16 + elemTy % 16))
  else writeVarint (writeByte e (UInt8.ofNat (15 * 16 + elemTy % 16))) (toU64 count)

/-- `thrift_write_map_begin` -/
def writeMapBegin (e : Enc) (kt vt : Nat) (count : Int) : Enc :=
  if count = 0 then writeByte e 0
  else writeByte (writeVarint e (toU64 count)) (UInt8.ofNat (kt % 16 * 16 + vt % 16))

/-! ## Decoder (thrift_decode.c) -/

structure Dec where
  /-- the bytes from `reader.pos` to `reader.size` -/
  rest : List UInt8
  /-- `reader.pos` -/
  pos : Nat
  /-- `last_field_id[0 .. nesting_level)`, innermost first -/
  lastId : List Int
  boolPending : Bool
  boolValue : Bool
  status : Option Err
  /-- ghost (not C state): set by Impl.ThriftParquet when the stream makes the C parser write
  two members of one C union; the union's member values are then outside the model -/
  overlay : Bool
  /-- ghost (not C state): `size + 1`, the iteration budget of every `while (read_field_begin)`
  loop (each iteration consumes at least one byte, so the budget is never exhausted) -/
  budget : Nat
  deriving Repr, DecidableEq

/-- `thrift_decoder_init` -/
def Dec.init (data : List UInt8) : Dec := ⟨data, 0, [], false, false, none, false, data.length + 1⟩

/-- `set_error` (decoder): the first error sticks -/
def Dec.setError (d : Dec) (err : Err) : Dec :=
  match d.status with
  | none => { d with status := some err }
  | some _ => d

/-- `n ≤ l.length`, looking at no more than `n` cells -/
def lengthGe : List UInt8 → Nat → Bool
  | _, 0 => true
  | [], _ + 1 => false
  | _ :: r, n + 1 => lengthGe r n

/-- `carquet_buffer_reader_has`: `pos + n <= size`, i.e. at least `n` bytes are left -/
def Dec.has (d : Dec) (n : Nat) : Bool := lengthGe d.rest n

def Dec.advance (d : Dec) (n : Nat) : Dec := { d with rest := d.rest.drop n, pos := d.pos + n }

/-- `carquet_buffer_reader_skip` with its result ignored (as `thrift_skip` did before fix F62) -/
def Dec.readerSkip (d : Dec) (n : Nat) : Dec := if d.has n then d.advance n else d

/-- `skip_fixed` of `thrift_skip` (fix F62): skip `n` raw bytes of a fixed-width value; a stream that
ends inside the value is THRIFT_TRUNCATED.  Before the fix: `readerSkip`. -/
def Dec.skipFixed (cfg : Cfg) (d : Dec) (n : Nat) : Dec :=
  if cfg.skipTruncated then (if d.has n then d.advance n else d.setError .truncated) else d.readerSkip n

/-- `read_byte_raw` -/
def readByteRaw (d : Dec) : UInt8 × Dec :=
  match d.rest with
  | [] => (0, d.setError .truncated)
  | b :: r => (b, { d with rest := r, pos := d.pos + 1 })

/-- loop of `thrift_read_varint`: `n` iterations left (ten in all: `shift` = 0,7,…,63);
`acc` is `result` before reduction modulo 2^64 (bits shifted past bit 63 are lost in C, which
is the same as reducing at the end). -/
def readVarintLoop : Nat → Nat → Nat → Dec → Nat × Dec
  | 0, _, _, d => (0, d.setError .decode)
  | n + 1, shift, acc, d =>
    match d.rest with
    | [] => (0, d.setError .truncated)
    | b :: r =>
      if b.toNat < 128 then
        ((acc + b.toNat * 2 ^ shift) % 18446744073709551616, { d with rest := r, pos := d.pos + 1 })
      else
        readVarintLoop n (shift + 7) (acc + (b.toNat % 128) * 2 ^ shift) { d with rest := r, pos := d.pos + 1 }

/-- `thrift_read_varint` -/
def readVarint (d : Dec) : Nat × Dec := readVarintLoop 10 0 0 d

/-- `thrift_read_zigzag` -/
def readZigzag (d : Dec) : Int × Dec := (zigzagDec (readVarint d).1, (readVarint d).2)
/-- `thrift_read_byte` -/
def readI8 (d : Dec) : Int × Dec := (toI8 (readByteRaw d).1.toNat, (readByteRaw d).2)
/-- `thrift_read_i16` -/
def readI16 (d : Dec) : Int × Dec := (toI16 (readZigzag d).1, (readZigzag d).2)
/-- `thrift_read_i32` -/
def readI32 (d : Dec) : Int × Dec := (toI32 (readZigzag d).1, (readZigzag d).2)
/-- `thrift_read_i64` -/
def readI64 (d : Dec) : Int × Dec := readZigzag d

def leNat : List UInt8 → Nat
  | [] => 0
  | b :: r => b.toNat + 256 * leNat r

/-- `thrift_read_double` (bit pattern) -/
def readDouble (d : Dec) : Nat × Dec :=
  if d.has 8 then (leNat (d.rest.take 8), d.advance 8) else (0, d.setError .truncated)

/-- `thrift_read_bool` -/
def readBool (d : Dec) : Bool × Dec :=
  if d.boolPending then (d.boolValue, { d with boolPending := false })
  else ((readByteRaw d).1 == 1, (readByteRaw d).2)

/-- body of `thrift_read_binary` after the length varint `n` has been read.
Result: the data pointer (`none` = NULL), `*length`, the decoder. -/
def readBinaryK (n : Nat) (d : Dec) : Option (List UInt8) × Int × Dec :=
  if toI32 n < 0 then (none, 0, d.setError .decode)
  else if d.has (toI32 n).toNat then (some (d.rest.take (toI32 n).toNat), toI32 n, d.advance (toI32 n).toNat)
  else (none, 0, d.setError .truncated)

/-- `thrift_read_binary` -/
def readBinary (d : Dec) : Option (List UInt8) × Int × Dec := readBinaryK (readVarint d).1 (readVarint d).2

/-- `thrift_read_uuid` -/
def readUuid (d : Dec) : List UInt8 × Dec :=
  if d.has 16 then (d.rest.take 16, d.advance 16) else (List.replicate 16 0, d.setError .truncated)

/-- `thrift_read_struct_begin` -/
def structBegin (d : Dec) : Dec :=
  if maxNesting ≤ d.lastId.length then d.setError .decode else { d with lastId := 0 :: d.lastId }

/-- `thrift_read_struct_end` -/
def structEnd (d : Dec) : Dec := { d with lastId := d.lastId.tail }

/-- "Handle embedded boolean values" at the end of `thrift_read_field_begin` -/
def notePendingBool (ty : Nat) (d : Dec) : Dec :=
  if ty = 1 then { d with boolPending := true, boolValue := true }
  else if ty = 2 then { d with boolPending := true, boolValue := false }
  else d

/-- result of `thrift_read_field_begin` -/
structure FieldBegin where
  more : Bool
  ty : Nat
  fid : Int
  dec : Dec

/-- `thrift_read_field_begin`, the part after a non-zero header byte `h` has been read -/
def readFieldBeginK (h : UInt8) (d : Dec) : FieldBegin :=
  if h.toNat / 16 = 0 then
    ⟨true, h.toNat % 16, (readI16 d).1,
      notePendingBool (h.toNat % 16) { (readI16 d).2 with lastId := setTop (readI16 d).2.lastId (readI16 d).1 }⟩
  else
    ⟨true, h.toNat % 16, toI16 (d.lastId.headD 0 + (h.toNat / 16 : Nat)),
      notePendingBool (h.toNat % 16)
        { d with lastId := setTop d.lastId (toI16 (d.lastId.headD 0 + (h.toNat / 16 : Nat))) }⟩

/-- `thrift_read_field_begin` -/
def readFieldBegin (d : Dec) : FieldBegin :=
  match d.status with
  | some _ => ⟨false, 0, 0, d⟩
  | none =>
    match d.rest with
    | [] => ⟨false, 0, 0, d.setError .truncated⟩
    | h :: r =>
      if h = 0 then ⟨false, 0, 0, { d with rest := r, pos := d.pos + 1 }⟩
      else readFieldBeginK h { d with rest := r, pos := d.pos + 1 }

/-- result of `thrift_read_list_begin` -/
structure ListBegin where
  elemTy : Nat
  count : Int
  dec : Dec

/-- the two checks at the end of `thrift_read_list_begin` -/
def listCountChecks (et : Nat) (count : Int) (d : Dec) : ListBegin :=
  if count < 0 then ⟨et, 0, d.setError .decode⟩
  else if !d.has count.toNat then ⟨et, 0, d.setError .decode⟩
  else ⟨et, count, d⟩

/-- `thrift_read_list_begin` / `thrift_read_set_begin` (the header byte is 0 when reading it
failed, exactly as `read_byte_raw` returns) -/
def readListBegin (d : Dec) : ListBegin :=
  if (readByteRaw d).1.toNat / 16 = 15 then
    listCountChecks ((readByteRaw d).1.toNat % 16) (toI32 (readVarint (readByteRaw d).2).1)
      (readVarint (readByteRaw d).2).2
  else
    listCountChecks ((readByteRaw d).1.toNat % 16) ((readByteRaw d).1.toNat / 16 : Nat) (readByteRaw d).2

/-- result of `thrift_read_map_begin` -/
structure MapBegin where
  keyTy : Nat
  valTy : Nat
  count : Int
  dec : Dec

/-- `thrift_read_map_begin` after the size varint -/
def readMapBeginK (count : Int) (d : Dec) : MapBegin :=
  if count < 0 then ⟨0, 0, 0, d.setError .decode⟩
  else if count = 0 then ⟨0, 0, 0, d⟩
  else if !d.has count.toNat then ⟨0, 0, 0, d.setError .decode⟩
  else ⟨(readByteRaw d).1.toNat / 16, (readByteRaw d).1.toNat % 16, count, (readByteRaw d).2⟩

/-- `thrift_read_map_begin` -/
def readMapBegin (d : Dec) : MapBegin := readMapBeginK (toI32 (readVarint d).1) (readVarint d).2

/-- `for (i = 0; i < count && dec->status == CARQUET_OK; i++) f(dec)` -/
def repeatOk (f : Dec → Dec) : Nat → Dec → Dec
  | 0, d => d
  | n + 1, d =>
    match d.status with
    | some _ => d
    | none => repeatOk f n (f d)

/-- `while (thrift_read_field_begin(dec, &type, &id)) { body }` with a loop state `σ`.
Every iteration whose `read_field_begin` returns true has consumed at least the header byte, so
a budget of `size + 1` (`Dec.budget`) is never exhausted (`Proofs.Thrift*`: `fieldLoop_fuel`); running
out is reported as `Err.fuel`, never silently.  `stop` models an early `return` from inside
the loop body (used by the two top-level parsers only). -/
def fieldLoop {σ : Type} (stop : σ → Bool) (body : Nat → Int → Dec → σ → σ × Dec) :
    Nat → Dec → σ → σ × Dec
  | 0, d, s => (s, d.setError .fuel)
  | f + 1, d, s =>
    match (readFieldBegin d).more with
    | false => (s, (readFieldBegin d).dec)
    | true =>
      if stop (body (readFieldBegin d).ty (readFieldBegin d).fid (readFieldBegin d).dec s).1 then
        body (readFieldBegin d).ty (readFieldBegin d).fid (readFieldBegin d).dec s
      else
        fieldLoop stop body f
          (body (readFieldBegin d).ty (readFieldBegin d).fid (readFieldBegin d).dec s).2
          (body (readFieldBegin d).ty (readFieldBegin d).fid (readFieldBegin d).dec s).1

/-- the loop of `thrift_skip`'s STRUCT case (no loop state) -/
def skipFields (sk : Nat → Dec → Dec) (fuel : Nat) (d : Dec) : Dec :=
  (fieldLoop (σ := Unit) (fun _ => false) (fun ty _ d s => (s, sk ty d)) fuel d ()).2

/-- `enter_container` (F8 repair) -/
def enterContainer (d : Dec) : Bool × Dec :=
  if maxNesting ≤ d.lastId.length then (false, d.setError .decode) else (true, { d with lastId := 0 :: d.lastId })

/-- `leave_container` (F8 repair) -/
def leaveContainer (d : Dec) : Dec := { d with lastId := d.lastId.tail }

/-- `skip_element` (F9 repair); before the repair the loops call `thrift_skip` directly -/
def skipElement (cfg : Cfg) (sk : Nat → Dec → Dec) (ty : Nat) (d : Dec) : Dec :=
  if cfg.boolElemByte then
    match d.status with
    | some _ => d
    | none => if ty = 1 ∨ ty = 2 then (readByteRaw d).2 else sk ty d
  else sk ty d

/-- LIST / SET case of `thrift_skip` after the nesting check -/
def skipListBody (cfg : Cfg) (sk : Nat → Dec → Dec) (d : Dec) : Dec :=
  repeatOk (skipElement cfg sk (readListBegin d).elemTy) (readListBegin d).count.toNat (readListBegin d).dec

/-- MAP case of `thrift_skip` after the nesting check -/
def skipMapBody (cfg : Cfg) (sk : Nat → Dec → Dec) (d : Dec) : Dec :=
  repeatOk (fun x => skipElement cfg sk (readMapBegin d).valTy (skipElement cfg sk (readMapBegin d).keyTy x))
    (readMapBegin d).count.toNat (readMapBegin d).dec

/-- container cases of `thrift_skip`: with the F8 repair the body runs between
`enter_container` and `leave_container` -/
def skipContainer (cfg : Cfg) (body : Dec → Dec) (d : Dec) : Dec :=
  if cfg.containerDepth then
    (if (enterContainer d).1 then leaveContainer (body (enterContainer d).2) else (enterContainer d).2)
  else body d

/-- the `switch (type)` of `thrift_skip`; `sk` is the recursive call -/
def skipCase (cfg : Cfg) (sk : Nat → Dec → Dec) (ty : Nat) (d : Dec) : Dec :=
  if ty = 0 then d.setError .decode
  else if ty = 1 ∨ ty = 2 then { d with boolPending := false }
  else if ty = 3 then d.skipFixed cfg 1
  else if ty = 4 ∨ ty = 5 ∨ ty = 6 then (readVarint d).2
  else if ty = 7 then d.skipFixed cfg 8
  else if ty = 8 then (readBinary d).2.2
  else if ty = 9 ∨ ty = 10 then skipContainer cfg (skipListBody cfg sk) d
  else if ty = 11 then skipContainer cfg (skipMapBody cfg sk) d
  else if ty = 12 then structEnd (skipFields sk d.budget (structBegin d))
  else if ty = 13 then d.skipFixed cfg 16
  else d.setError .invalidType

/-- `thrift_skip(dec, type)`.  `stk` is the number of C stack frames still available. -/
def skip (cfg : Cfg) : Nat → Nat → Dec → Dec
  | 0, _, d => d.setError .stack
  | stk + 1, ty, d =>
    match d.status with
    | some _ => d
    | none => skipCase cfg (skip cfg stk) ty d

/-- Stack frames granted to `thrift_skip` in the model.  With the F8 repair 34 suffice
(`Proofs`: `skip_no_stack`), so any larger number gives the same result; before the repair the
real limit is the size of the C stack, and the model uses this budget instead. -/
def stackBudget : Nat := 4096

/-- `thrift_skip` / `thrift_skip_field` as the parsers call it -/
def skipField (cfg : Cfg) (ty : Nat) (d : Dec) : Dec := skip cfg stackBudget ty d

end Carquet.Impl.Thrift
