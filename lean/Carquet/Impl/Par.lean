import Carquet.Impl.Crc32
/-
Model of the parallel section of `carquet_batch_reader_next` (src/reader/batch_reader.c: the two
`#pragma omp parallel for schedule(dynamic)` loops over the projected columns) together with the
page-load paths it drives (src/reader/page_reader.c) and the lazily initialised global tables the
workers may touch at first use (src/util/crc32.c, src/simd/dispatch.c, src/simd/detect.c).

Fidelity: structural.  What is modelled is the *footprint*: which steps of a page load touch state
that another worker can also touch, in which order, and what the worker gets back.
  * shared store  : the immutable file bytes (file on disk / mmap region / caller's buffer), one
                    stream position per `FILE*` (stream id), the flag + cells of a lazily
                    initialised table;
  * private store : per worker, the log of everything it has observed (bytes returned by
                    fread / read from the mapping, table snapshots).  Header parsing, CRC check,
                    decompression (zstd's DCtx is `__thread`), level and value decoding and the
                    copy into the batch column are deterministic functions of that log and write
                    only memory owned by the column reader / batch column of the loop index, so
                    they are not modelled further.
A worker is one loop iteration (one projected column; OpenMP gives every index to exactly one
thread, and the prefetch loop and the read loop are separated by the implicit barrier).
-/
namespace Carquet.Impl.Par

/-- worker ids are natural numbers (`Worker` is notation, so that arithmetic tactics see `Nat`) -/
scoped notation "Worker" => Nat

/-- What a worker can observe.  Its private store is the log of its observations. -/
inductive Obs where
  /-- bytes delivered by `fread` or read through the mmap/buffer pointer -/
  | bytes (bs : List UInt8)
  /-- the flag and the table cells as seen by a reader of a lazily initialised table -/
  | table (flag : Bool) (cells : List (Option Nat))
  deriving DecidableEq, Repr

abbrev Priv := List Obs

/-- The shared store. `filePos f` is the position of stream `f` (one per `FILE*`); `flag`/`table`
are `crc32_tables_initialized`/`crc32_tables` (resp. `g_dispatch_initialized`/`g_dispatch`,
`g_initialized`/`g_cpu_info`); a cell that was never written is `none`. -/
structure Shared where
  file : List UInt8
  filePos : Nat → Nat
  flag : Bool
  table : List (Option Nat)

/-- Primitive steps (each one is atomic in the model: stdio calls hold the stream lock, table
cells and flags are aligned machine words). -/
inductive Prim where
  /-- `fseek(f, o, SEEK_SET)` -/
  | seek (f o : Nat)
  /-- `fread(buf, 1, n, f)` -/
  | read (f n : Nat)
  /-- mmap/buffer path: parse / memcpy / decompress from `mmap_data + o`, `n` bytes -/
  | load (o n : Nat)
  /-- `table[i] = v` inside an initialiser -/
  | initCell (i v : Nat)
  /-- `initialized = 1` (the last statement of every initialiser) -/
  | setFlag
  /-- reader side: look at the flag and the table -/
  | useTable
  deriving DecidableEq, Repr

/-- bytes `[o, o+n)` of the file, cut at end of file (what `fread` delivers) -/
def slice (file : List UInt8) (o n : Nat) : List UInt8 := (file.drop o).take n

/-- stream position after `fread` of `n` bytes at `pos` in a file of `flen` bytes -/
def advance (flen pos n : Nat) : Nat := pos + min n (flen - pos)

def setPos (fp : Nat → Nat) (f v : Nat) : Nat → Nat := fun g => if g = f then v else fp g

/-- One primitive step on (shared store, private store of the stepping worker). -/
def stepPrim : Prim → Shared → Priv → Shared × Priv
  | .seek f o, sh, p => ({ sh with filePos := setPos sh.filePos f o }, p)
  | .read f n, sh, p =>
      ({ sh with filePos := setPos sh.filePos f (advance sh.file.length (sh.filePos f) n) },
       p ++ [.bytes (slice sh.file (sh.filePos f) n)])
  | .load o n, sh, p => (sh, p ++ [.bytes (slice sh.file o n)])
  | .initCell i v, sh, p => ({ sh with table := sh.table.set i (some v) }, p)
  | .setFlag, sh, p => ({ sh with flag := true }, p)
  | .useTable, sh, p => (sh, p ++ [.table sh.flag sh.table])

/-- Position-only twin of `stepPrim` for one stream (used by the driver on recorded traces, where
only the file length is known; `Proofs/Par.lean: stepPrim_filePos` proves it equal). -/
def stepPos (flen : Nat) (f : Nat) : Prim → Nat → Nat
  | .seek g o, pos => if g = f then o else pos
  | .read g n, pos => if g = f then advance flen pos n else pos
  | _, pos => pos

/-- Several primitive steps of one worker without anybody else in between. -/
def runSP : List Prim → Shared → Priv → Shared × Priv
  | [], sh, p => (sh, p)
  | a :: as, sh, p => runSP as (stepPrim a sh p).1 (stepPrim a sh p).2

/-- A schedulable action: a primitive, or a critical section
(`#pragma omp critical(carquet_file_io) { ... }` in `file_read_at`). -/
inductive Action where
  | prim (p : Prim)
  | crit (ps : List Prim)
  deriving DecidableEq, Repr

def Action.prims : Action → List Prim
  | .prim p => [p]
  | .crit ps => ps

structure State where
  sh : Shared
  pr : Worker → Priv

def setPriv (pr : Worker → Priv) (w : Worker) (v : Priv) : Worker → Priv :=
  fun w' => if w' = w then v else pr w'

/-- worker `w` performs the primitives `ps` back to back -/
def State.run (st : State) (w : Worker) (ps : List Prim) : State :=
  { sh := (runSP ps st.sh (st.pr w)).1, pr := setPriv st.pr w (runSP ps st.sh (st.pr w)).2 }

/-- execution of a primitive-level schedule -/
def execPrims : List (Worker × Prim) → State → State
  | [], st => st
  | (w, p) :: s, st => execPrims s (st.run w [p])

/-- An action-level schedule as the primitive-level schedule it stands for: the primitives of a
critical section are adjacent (mutual exclusion), nothing else is constrained. -/
def flat : List (Worker × Action) → List (Worker × Prim)
  | [] => []
  | (w, a) :: s => a.prims.map (fun p => (w, p)) ++ flat s

/-- `exec` of a schedule. -/
def exec (s : List (Worker × Action)) (st : State) : State := execPrims (flat s) st

/-! ### Interleavings -/

/-- `IsMerge ls s`: `s` is a merge of the workers' lists `ls` (worker `w` owns `ls[w]`) that
preserves every worker's own order. -/
inductive IsMerge {α : Type} : List (List α) → List (Worker × α) → Prop
  | done {ls : List (List α)} : (∀ l ∈ ls, l = []) → IsMerge ls []
  | step {ls : List (List α)} {w : Worker} {a : α} {rest : List α} {s : List (Worker × α)} :
      ls[w]? = some (a :: rest) → IsMerge (ls.set w rest) s → IsMerge ls ((w, a) :: s)

/-- the actions of worker `w` in a schedule, in order -/
def proj {α : Type} (w : Worker) (s : List (Worker × α)) : List α :=
  (s.filter (fun e => e.1 == w)).map (fun e => e.2)

/-- executable characterisation of `IsMerge` (`Proofs/Par.lean: isMerge_iff`) -/
def isMerge {α : Type} [BEq α] (ls : List (List α)) (s : List (Worker × α)) : Bool :=
  s.all (fun e => e.1 < ls.length) && (List.range ls.length).all (fun w => proj w s == ls.getD w [])

def interleavingsFuel {α : Type} : Nat → List (List α) → List (List (Worker × α))
  | 0, _ => [[]]
  | fuel + 1, ls =>
    if ls.all List.isEmpty then [[]]
    else (List.range ls.length).flatMap (fun w =>
      match ls[w]? with
      | some (a :: rest) => (interleavingsFuel fuel (ls.set w rest)).map (fun s => (w, a) :: s)
      | _ => [])

/-- all merges of the workers' lists (executable enumeration, for tests and small scopes) -/
def interleavings {α : Type} (ls : List (List α)) : List (List (Worker × α)) :=
  interleavingsFuel (ls.map List.length).sum ls

def seqFrom {α : Type} (w : Worker) : List (List α) → List (Worker × α)
  | [] => []
  | l :: ls => l.map (fun a => (w, a)) ++ seqFrom (w + 1) ls

/-- sequential execution: worker 0 to completion, then worker 1, ... (`num_threads = 1`) -/
def sequential {α : Type} (ls : List (List α)) : List (Worker × α) := seqFrom 0 ls

/-- worker `w` running its list alone -/
def solo {α : Type} (w : Worker) (l : List α) : List (Worker × α) := l.map (fun a => (w, a))

/-! ### Adaptive workers

In the C code the next seek offset depends on bytes read earlier (the header size `h` and the
compressed size `c` come out of the header just read).  An adaptive worker is a function from its
private store to its next action (`none` = finished); a schedule is then just the order in which
workers take turns. -/

abbrev Prog := Priv → Option Action

/-- worker `w` takes one turn -/
def State.turn (st : State) (progs : Worker → Prog) (w : Worker) : State :=
  match progs w (st.pr w) with
  | some a => st.run w a.prims
  | none => st

def execTurns (progs : Worker → Prog) : List Worker → State → State
  | [], st => st
  | w :: s, st => execTurns progs s (st.turn progs w)

/-! ### The page loads -/

/-- `load_next_page_fread` / `load_dictionary_page_fread` in the pinned tree (before F21's repair):
`fseek(o); fread(256); <parse header, h bytes>; fseek(o+h); fread(c)` on the reader's `FILE*` `f`,
each call a separate step. -/
def pageLoadFreadPreFix (f o h c : Nat) : List Action :=
  [.prim (.seek f o), .prim (.read f 256), .prim (.seek f (o + h)), .prim (.read f c)]

/-- the same after the repair: `file_read_at` runs each seek+read pair in one critical section -/
def pageLoadFread (f o h c : Nat) : List Action :=
  [.crit [.seek f o, .read f 256], .crit [.seek f (o + h), .read f c]]

/-- `load_next_page_mmap` / `load_dictionary_page_mmap` (mmap and buffer modes): the header is
parsed at `mmap_data + o` (up to 256 bytes), the body is read at `o + h` -/
def pageLoadMmap (o h c : Nat) : List Action :=
  [.prim (.load o 256), .prim (.load (o + h) c)]

/-- a column chunk = its pages `(o, h, c)` in order -/
def chunkFreadPreFix (f : Nat) (pages : List (Nat × Nat × Nat)) : List Action :=
  pages.flatMap (fun p => pageLoadFreadPreFix f p.1 p.2.1 p.2.2)
def chunkFread (f : Nat) (pages : List (Nat × Nat × Nat)) : List Action :=
  pages.flatMap (fun p => pageLoadFread f p.1 p.2.1 p.2.2)
def chunkMmap (pages : List (Nat × Nat × Nat)) : List Action :=
  pages.flatMap (fun p => pageLoadMmap p.1 p.2.1 p.2.2)

/-- what a column reader has obtained after loading the pages `(o, h, c)`: for each page the (up
to) 256 header bytes at `o` and the `c` body bytes at `o + h` — its own column's bytes -/
def chunkBytes (file : List UInt8) (pages : List (Nat × Nat × Nat)) : Priv :=
  pages.flatMap (fun p => [.bytes (slice file p.1 256), .bytes (slice file (p.1 + p.2.1) p.2.2)])

/-! ### Footprint predicates -/

/-- reads of stream `f` only -/
def Prim.isReadOf (f : Nat) : Prim → Bool
  | .read g _ => g == f
  | _ => false

/-- an action that is safe on a *shared* stream: a read of immutable bytes, or a critical section
that starts with an absolute seek on the one stream it then reads -/
def Action.atomicIO : Action → Bool
  | .prim (.load _ _) => true
  | .crit (.seek f _ :: rest) => rest.all (Prim.isReadOf f)
  | _ => false

/-- a primitive that can only touch stream `f` (or no stream) and no table -/
def Prim.onStream (f : Nat) : Prim → Bool
  | .seek g _ => g == f
  | .read g _ => g == f
  | .load _ _ => true
  | _ => false

/-- all stdio of the action is on stream `f` -/
def Action.onStream (f : Nat) (a : Action) : Bool := a.prims.all (Prim.onStream f)

/-! ### Lazy initialisation -/

/-- an initialiser: the cell writes in the order the C performs them, then the flag
(`crc32_init_tables`: 8×256 cells each written once; `carquet_simd_dispatch_init`: every slot
first gets the scalar kernel, then possibly the SSE, AVX2, AVX-512 one; `carquet_init`: memset
then the detected bits) -/
def initialiser (writes : List (Nat × Nat)) : List Action :=
  writes.map (fun iv => .prim (.initCell iv.1 iv.2)) ++ [.prim .setFlag]

def cellsFrom (i : Nat) : List Nat → List (Nat × Nat)
  | [] => []
  | v :: vs => (i, v) :: cellsFrom (i + 1) vs

/-- `crc32_init_tables`-shaped initialiser: cell `i` gets `vals[i]`, once -/
def tableInitialiser (vals : List Nat) : List Action := initialiser (cellsFrom 0 vals)

/-- what can be said of a (flag, cells) pair: `n` cells, every written cell holds an acceptable
value, and a set flag means every cell has been written -/
def TableOK (n : Nat) (good : Nat → Nat → Prop) (fl : Bool) (cells : List (Option Nat)) : Prop :=
  cells.length = n ∧ (∀ i v, cells[i]? = some (some v) → good i v) ∧
  (fl = true → ∀ i, i < n → ∃ v, cells[i]? = some (some v))

def ObsOK (n : Nat) (good : Nat → Nat → Prop) : Obs → Prop
  | .bytes _ => True
  | .table fl cells => TableOK n good fl cells

/-- The discipline every initialiser in the C code follows, stated on one worker's primitives in
program order: it writes only acceptable values into existing cells, and it stores the flag only
after it has itself written every cell. -/
def InitDiscipline (n : Nat) (good : Nat → Nat → Prop) (l : List Prim) : Prop :=
  (∀ i v, Prim.initCell i v ∈ l → i < n ∧ good i v) ∧
  (∀ pre post, l = pre ++ Prim.setFlag :: post → ∀ i, i < n → ∃ v, Prim.initCell i v ∈ pre)

/-- the 8×256 entries of `crc32_tables` in the order `crc32_init_tables` stores them
(`crc32_tables[k][i]` is cell `256·k + i`), values from the CRC component's model -/
def crcTableValues : List Nat :=
  (List.range 2048).map (fun j => (Carquet.Impl.Crc32.table (j / 256) (j % 256)).toNat)

/-- `crc32_init_tables` (src/util/crc32.c) as an initialiser -/
def crcInitialiser : List Action := tableInitialiser crcTableValues

def emptyTable (n : Nat) : List (Option Nat) := List.replicate n none

def initState (file : List UInt8) (ncells : Nat) : State :=
  { sh := { file := file, filePos := fun _ => 0, flag := false, table := emptyTable ncells },
    pr := fun _ => [] }

/-! ### Recorded traces (hook `carquet_verif_event`) against the footprint

One event = `(thread, site, object, a, b)`; sites: 1 = fseek (a = offset, b = position before),
2 = fread (a = bytes requested, b = position before).  Objects are `FILE*`s renumbered by the
harness.  All functions below look at the events of ONE object, in recorded order. -/

structure Ev where
  thread : Nat
  site : Nat
  obj : Nat
  a : Nat
  b : Nat
  deriving DecidableEq, Repr

def Ev.prim (e : Ev) : Option Prim :=
  if e.site = 1 then some (.seek e.obj e.a)
  else if e.site = 2 then some (.read e.obj e.a)
  else none

def evsOf : List Nat → List Ev
  | t :: s :: o :: a :: b :: rest => ⟨t, s, o, a, b⟩ :: evsOf rest
  | _ => []

/-- the model's stream position explains every recorded position: starting from the first event's
recorded position, replaying the events through `stepPos` predicts each `b`. -/
def posTieFrom (flen f : Nat) : Nat → List Ev → Bool
  | _, [] => true
  | pos, e :: es =>
    match e.prim with
    | some p => e.b == pos && posTieFrom flen f (stepPos flen f p pos) es
    | none => posTieFrom flen f pos es

def posTie (flen f : Nat) (es : List Ev) : Bool :=
  match es with
  | [] => true
  | e :: _ => posTieFrom flen f e.b es

/-- the events on a shared stream are a sequence of `[seek by t; read by t]` pairs: every access is
inside a section and no two threads are inside a section at once (the trace is `flat` of a
schedule of `Action.atomicIO` sections) -/
def sectionsAtomic : List Ev → Bool
  | [] => true
  | e1 :: e2 :: es => e1.site == 1 && e2.site == 2 && e1.thread == e2.thread && sectionsAtomic es
  | [_] => false

/-- every read happens at the offset of the reading thread's own latest seek -/
def readsOwnFrom : List (Nat × Nat) → List Ev → Bool
  | _, [] => true
  | last, e :: es =>
    if e.site = 1 then readsOwnFrom ((e.thread, e.a) :: last.filter (fun x => x.1 != e.thread)) es
    else if e.site = 2 then
      (match last.find? (fun x => x.1 == e.thread) with
       | some x => x.2 == e.b
       | none => false) && readsOwnFrom last es
    else readsOwnFrom last es

def readsOwn (es : List Ev) : Bool := readsOwnFrom [] es

/-- one thread's events on a stream have the shape of `pageLoadFread`: groups
`seek o; read 256; seek o'; read c` with `o < o' ≤ o + 256` -/
def pageShape : List Ev → Bool
  | [] => true
  | s1 :: r1 :: s2 :: r2 :: es =>
    s1.site == 1 && r1.site == 2 && r1.a == 256 && s2.site == 1 && r2.site == 2 &&
    decide (s1.a < s2.a) && decide (s2.a ≤ s1.a + 256) && pageShape es
  | _ => false

def objsOf (es : List Ev) : List Nat := (es.map (·.obj)).eraseDups
def threadsOf (es : List Ev) : List Nat := (es.map (·.thread)).eraseDups
def ioOnly (es : List Ev) : List Ev := es.filter (fun e => e.site == 1 || e.site == 2)
def onObj (o : Nat) (es : List Ev) : List Ev := es.filter (fun e => e.obj == o)
def byThread (t : Nat) (es : List Ev) : List Ev := es.filter (fun e => e.thread == t)

/-- every stream is used by one thread only (N independent readers, one thread each) -/
def streamsPrivate (es : List Ev) : Bool :=
  (objsOf es).all (fun o => (threadsOf (onObj o es)).length ≤ 1)

/-- lazy-init events: site 3 = initialiser begins (flag seen 0), site 4 = table complete, flag
store next.  Per thread and table they alternate begin/publish. -/
def initBracketed : List Ev → Bool
  | [] => true
  | b :: p :: es => b.site == 3 && p.site == 4 && initBracketed es
  | [_] => false

end Carquet.Impl.Par
