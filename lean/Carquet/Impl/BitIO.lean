/-
Model of the bit stream reader and writer of src/core/bitpack.c:

  carquet_bit_reader_init / refill_buffer / _read_bit / _read_bits / _read_bits64 /
  _has_more / _remaining_bits
  carquet_bit_writer_init / flush_buffer / _write_bit / _write_bits / _write_bits64 /
  _flush / _bytes_written

as repaired by fixes/F81-bit-writer-accumulator-overflow.patch (writer) and
fixes/F82-bit-reader-overread-count.patch (reader).  The pinned functions are the `…PreFix`
definitions at the end, with their counterexamples in Properties/C11/BitIO.lean and
Properties/C08/BitIO.lean.

Fidelity: exact.  Representation choices:
* `uint64_t buffer` is a `Nat`; where the C code shifts left the result is taken `% 2^64`;
  `int buffer_bits` is a `Nat` in the repaired code (it never goes below 0 any more; the pinned
  reader, where it does, has an `Int`);
* `num_bits` is a `Nat` (negative counts are outside the API; the C code shifts by them);
* reader: `data[0..size)` is the list `data`, `byte_pos` an index; every `data[byte_pos++]` is
  reported as an access (its index) — the list lookup itself is total (`getD`), the theorems show
  the index is always below `size`;
* writer: the bytes stored so far are the list `out` (`byte_pos = out.length`): the C code only ever
  stores at `data[byte_pos++]`; `cap` is the declared capacity;
* the unused field `bit_pos` is not modelled.
-/
namespace Carquet.Impl.BitIO

/-! ## Reader -/

/-- `carquet_bit_reader_t` -/
structure Reader where
  data : List UInt8
  bytePos : Nat
  buffer : Nat
  bufferBits : Nat
  deriving DecidableEq, Repr

/-- `carquet_bit_reader_init(reader, data, size)` -/
def Reader.init (data : List UInt8) : Reader := ⟨data, 0, 0, 0⟩

/-- body of the loop in `refill_buffer`: `buffer |= (uint64_t)data[byte_pos++] << buffer_bits; buffer_bits += 8;` -/
def refillStep (r : Reader) : Reader :=
  { r with buffer := (r.buffer ||| ((r.data.getD r.bytePos 0).toNat <<< r.bufferBits)) % 2 ^ 64,
           bytePos := r.bytePos + 1, bufferBits := r.bufferBits + 8 }

/-- `refill_buffer`: `while (buffer_bits <= 56 && byte_pos < size) { buffer |= (uint64_t)data[byte_pos++]
<< buffer_bits; buffer_bits += 8; }` — returns the new state and the indices read.  Fuel 8 suffices
(each iteration adds 8 bits; see `Proofs.BitIO.refill_fuel`). -/
def refillLoop : Nat → Reader → Reader × List Nat
  | 0, r => (r, [])
  | f + 1, r =>
    if r.bufferBits ≤ 56 ∧ r.bytePos < r.data.length then
      ((refillLoop f (refillStep r)).1, r.bytePos :: (refillLoop f (refillStep r)).2)
    else (r, [])

def refill (r : Reader) : Reader × List Nat := refillLoop 8 r

/-- `if (buffer_bits == 0) refill_buffer(reader);` -/
def refillIfEmpty (r : Reader) : Reader × List Nat :=
  if r.bufferBits = 0 then refill r else (r, [])

/-- `carquet_bit_reader_read_bit`: −1 at the end of the data, else the next bit -/
def readBit (r : Reader) : Int × Reader × List Nat :=
  if (refillIfEmpty r).1.bufferBits = 0 then (-1, (refillIfEmpty r).1, (refillIfEmpty r).2)
  else (((refillIfEmpty r).1.buffer &&& 1 : Nat),
        { (refillIfEmpty r).1 with buffer := (refillIfEmpty r).1.buffer >>> 1,
                                   bufferBits := (refillIfEmpty r).1.bufferBits - 1 },
        (refillIfEmpty r).2)

/-- `if (buffer_bits < num_bits) refill_buffer(reader);` -/
def refillIfShort (r : Reader) (n : Nat) : Reader × List Nat :=
  if r.bufferBits < n then refill r else (r, [])

/-- `carquet_bit_reader_read_bits(reader, num_bits)` for `1 ≤ num_bits ≤ 32` after the clamps:
refill if short; at the end of the data only the bits that are left are taken (F82) -/
def readBitsCore (r : Reader) (n : Nat) : Nat × Reader × List Nat :=
  (((refillIfShort r n).1.buffer &&& ((1 <<< min n (refillIfShort r n).1.bufferBits) - 1)) % 2 ^ 32,
   { (refillIfShort r n).1 with buffer := (refillIfShort r n).1.buffer >>> min n (refillIfShort r n).1.bufferBits,
                                bufferBits := (refillIfShort r n).1.bufferBits - min n (refillIfShort r n).1.bufferBits },
   (refillIfShort r n).2)

/-- `carquet_bit_reader_read_bits(reader, num_bits)`: `if (num_bits == 0) return 0; if (num_bits > 32)
num_bits = 32; …` -/
def readBits (r : Reader) (n : Nat) : Nat × Reader × List Nat :=
  if n = 0 then (0, r, []) else readBitsCore r (min n 32)

/-- `carquet_bit_reader_read_bits64(reader, num_bits)`: at most 64; up to 32 through `read_bits`, more
in two parts `low | (high << 32)` -/
def readBits64 (r : Reader) (n : Nat) : Nat × Reader × List Nat :=
  if n = 0 then (0, r, [])
  else if min n 64 ≤ 32 then readBits r (min n 64)
  else
    (((readBits r 32).1 ||| ((readBits (readBits r 32).2.1 (min n 64 - 32)).1 <<< 32)) % 2 ^ 64,
     (readBits (readBits r 32).2.1 (min n 64 - 32)).2.1,
     (readBits r 32).2.2 ++ (readBits (readBits r 32).2.1 (min n 64 - 32)).2.2)

/-- `carquet_bit_reader_has_more` -/
def hasMore (r : Reader) : Bool := r.bufferBits > 0 || r.bytePos < r.data.length

/-- `carquet_bit_reader_remaining_bits`: `(size_t)buffer_bits + (size - byte_pos) * 8` -/
def remainingBits (r : Reader) : Nat := (r.bufferBits + (r.data.length - r.bytePos) * 8) % 2 ^ 64

/-- one call on a reader -/
inductive ROp
  | bit
  | bits (n : Nat)
  | bits64 (n : Nat)
  | hasMore
  | remaining
  deriving DecidableEq, Repr

/-- what the caller sees -/
inductive RObs
  | bit (b : Int)
  | val (v : Nat)
  | more (b : Bool)
  | rem (n : Nat)
  deriving DecidableEq, Repr

def rstep (r : Reader) : ROp → RObs × Reader × List Nat
  | .bit => (.bit (readBit r).1, (readBit r).2.1, (readBit r).2.2)
  | .bits n => (.val (readBits r n).1, (readBits r n).2.1, (readBits r n).2.2)
  | .bits64 n => (.val (readBits64 r n).1, (readBits64 r n).2.1, (readBits64 r n).2.2)
  | .hasMore => (.more (hasMore r), r, [])
  | .remaining => (.rem (remainingBits r), r, [])

/-- a history of reads: observations, indices of `data` read (in order), final state -/
def rrun (r : Reader) : List ROp → List RObs × List Nat × Reader
  | [] => ([], [], r)
  | op :: ops =>
    ((rstep r op).1 :: (rrun (rstep r op).2.1 ops).1,
     (rstep r op).2.2 ++ (rrun (rstep r op).2.1 ops).2.1,
     (rrun (rstep r op).2.1 ops).2.2)

/-! ## Writer -/

/-- `carquet_bit_writer_t`; `out` = `data[0..byte_pos)` -/
structure Writer where
  cap : Nat
  out : List UInt8
  buffer : Nat
  bufferBits : Nat
  deriving DecidableEq, Repr

/-- `carquet_bit_writer_init(writer, data, capacity)` -/
def Writer.init (cap : Nat) : Writer := ⟨cap, [], 0, 0⟩

/-- `flush_buffer` (F81): `while (buffer_bits >= 8) { if (byte_pos < capacity) data[byte_pos++] =
(uint8_t)buffer; buffer >>= 8; buffer_bits -= 8; }`; fuel `buffer_bits / 8` iterations -/
def flushLoop : Nat → Writer → Writer
  | 0, w => w
  | f + 1, w =>
    if w.bufferBits ≥ 8 then
      flushLoop f { w with out := if w.out.length < w.cap then w.out ++ [UInt8.ofNat w.buffer] else w.out,
                            buffer := w.buffer >>> 8, bufferBits := w.bufferBits - 8 }
    else w

def flushBuffer (w : Writer) : Writer := flushLoop (w.bufferBits / 8) w

/-- `if (buffer_bits >= 56) flush_buffer(writer);` -/
def flushIfFull (w : Writer) : Writer := if w.bufferBits ≥ 56 then flushBuffer w else w

/-- `carquet_bit_writer_write_bit(writer, bit)` (`bit : int`; only its lowest bit is used) -/
def writeBit (w : Writer) (bit : Nat) : Writer :=
  flushIfFull { w with buffer := (w.buffer ||| ((bit &&& 1) <<< w.bufferBits)) % 2 ^ 64,
                       bufferBits := w.bufferBits + 1 }

/-- `if (buffer_bits > 32) flush_buffer(writer);` — the room made before a multi-bit write (F81) -/
def makeRoom (w : Writer) : Writer := if w.bufferBits > 32 then flushBuffer w else w

/-- `mask = num_bits == 32 ? ~0U : (1U << num_bits) - 1` -/
def mask32 (n : Nat) : Nat := if n = 32 then 0xFFFFFFFF else (1 <<< n) - 1

/-- `carquet_bit_writer_write_bits(writer, value, num_bits)`, `value : uint32_t` -/
def writeBits (w : Writer) (value n : Nat) : Writer :=
  if n = 0 then w
  else
    flushIfFull { makeRoom w with
      buffer := ((makeRoom w).buffer ||| (((value % 2 ^ 32) &&& mask32 (min n 32)) <<< (makeRoom w).bufferBits)) % 2 ^ 64,
      bufferBits := (makeRoom w).bufferBits + min n 32 }

/-- `carquet_bit_writer_write_bits64(writer, value, num_bits)`, `value : uint64_t` -/
def writeBits64 (w : Writer) (value n : Nat) : Writer :=
  if n = 0 then w
  else if min n 64 ≤ 32 then writeBits w (value % 2 ^ 32) (min n 64)
  else writeBits (writeBits w (value % 2 ^ 32) 32) ((value % 2 ^ 64) >>> 32) (min n 64 - 32)

/-- `carquet_bit_writer_flush`: complete bytes, then the partial byte if there is room for it -/
def flush (w : Writer) : Writer :=
  if (flushBuffer w).bufferBits > 0 ∧ (flushBuffer w).out.length < (flushBuffer w).cap then
    { flushBuffer w with out := (flushBuffer w).out ++ [UInt8.ofNat (flushBuffer w).buffer],
                         buffer := 0, bufferBits := 0 }
  else flushBuffer w

/-- `carquet_bit_writer_bytes_written` -/
def bytesWritten (w : Writer) : Nat := w.out.length

/-- one call on a writer -/
inductive WOp
  | bit (b : Nat)
  | bits (v n : Nat)
  | bits64 (v n : Nat)
  | flush
  deriving DecidableEq, Repr

def wstep (w : Writer) : WOp → Writer
  | .bit b => writeBit w b
  | .bits v n => writeBits w v n
  | .bits64 v n => writeBits64 w v n
  | .flush => flush w

def wrun (w : Writer) (ops : List WOp) : Writer := ops.foldl wstep w

/-- the bit fields a history writes, in order, as `(width, value)` with the value reduced to its width:
what a reader is expected to get back -/
def fieldsOf : List WOp → List (Nat × Nat)
  | [] => []
  | .bit b :: ops => (1, b % 2) :: fieldsOf ops
  | .bits v n :: ops => (min n 32, v % 2 ^ min n 32) :: fieldsOf ops
  | .bits64 v n :: ops => (min n 64, v % 2 ^ min n 64) :: fieldsOf ops
  | .flush :: ops => fieldsOf ops

/-- the matching read for each write -/
def readsOf : List WOp → List ROp
  | [] => []
  | .bit _ :: ops => .bit :: readsOf ops
  | .bits _ n :: ops => .bits n :: readsOf ops
  | .bits64 _ n :: ops => .bits64 n :: readsOf ops
  | .flush :: ops => readsOf ops

/-- what the matching reads are expected to return -/
def expectOf : List WOp → List RObs
  | [] => []
  | .bit b :: ops => .bit ((b % 2 : Nat) : Int) :: expectOf ops
  | .bits v n :: ops => .val (v % 2 ^ min n 32) :: expectOf ops
  | .bits64 v n :: ops => .val (v % 2 ^ min n 64) :: expectOf ops
  | .flush :: ops => expectOf ops

/-- total number of bits a history writes -/
def totalBits (ops : List WOp) : Nat := ((fieldsOf ops).map Prod.fst).sum

/-! ## The pinned code (before F81 / F82) -/

/-- pinned `flush_buffer`: `while (buffer_bits >= 8 && byte_pos < capacity)` — with the output full
the complete bytes stay in the accumulator -/
def flushLoopPreFix : Nat → Writer → Writer
  | 0, w => w
  | f + 1, w =>
    if w.bufferBits ≥ 8 ∧ w.out.length < w.cap then
      flushLoopPreFix f { w with out := w.out ++ [UInt8.ofNat w.buffer],
                                  buffer := w.buffer >>> 8, bufferBits := w.bufferBits - 8 }
    else w

def flushBufferPreFix (w : Writer) : Writer := flushLoopPreFix (w.bufferBits / 8) w

/-- a shift of the 64-bit accumulator by 64 or more is undefined behaviour in C -/
inductive Fault
  | shiftTooLarge (by_ : Nat)
  deriving DecidableEq, Repr

/-- pinned `carquet_bit_writer_write_bit` -/
def writeBitPreFix (w : Writer) (bit : Nat) : Except Fault Writer :=
  if w.bufferBits ≥ 64 then .error (.shiftTooLarge w.bufferBits)
  else if w.bufferBits + 1 ≥ 56 then
    .ok (flushBufferPreFix { w with buffer := (w.buffer ||| ((bit &&& 1) <<< w.bufferBits)) % 2 ^ 64,
                                    bufferBits := w.bufferBits + 1 })
  else .ok { w with buffer := (w.buffer ||| ((bit &&& 1) <<< w.bufferBits)) % 2 ^ 64,
                    bufferBits := w.bufferBits + 1 }

/-- pinned `carquet_bit_writer_write_bits`: no room is made, the shifted value is cut at 64 bits -/
def writeBitsPreFix (w : Writer) (value n : Nat) : Except Fault Writer :=
  if n = 0 then .ok w
  else if w.bufferBits ≥ 64 then .error (.shiftTooLarge w.bufferBits)
  else if w.bufferBits + min n 32 ≥ 56 then
    .ok (flushBufferPreFix { w with
      buffer := (w.buffer ||| (((value % 2 ^ 32) &&& mask32 (min n 32)) <<< w.bufferBits)) % 2 ^ 64,
      bufferBits := w.bufferBits + min n 32 })
  else
    .ok { w with
      buffer := (w.buffer ||| (((value % 2 ^ 32) &&& mask32 (min n 32)) <<< w.bufferBits)) % 2 ^ 64,
      bufferBits := w.bufferBits + min n 32 }

/-- pinned `carquet_bit_writer_flush` -/
def flushPreFix (w : Writer) : Writer :=
  if (flushBufferPreFix w).bufferBits > 0 ∧ (flushBufferPreFix w).out.length < (flushBufferPreFix w).cap then
    { flushBufferPreFix w with out := (flushBufferPreFix w).out ++ [UInt8.ofNat (flushBufferPreFix w).buffer],
                               buffer := 0, bufferBits := 0 }
  else flushBufferPreFix w

/-- pinned `carquet_bit_reader_read_bits` from a state with `buffer_bits ≥ 0`: the value, the new
`buffer_bits` (an `int`: it goes negative when fewer bits are left than asked for) and what
`carquet_bit_reader_remaining_bits` then reports (`(size_t)buffer_bits + (size - byte_pos) * 8`) -/
def readBitsPreFix (r : Reader) (n : Nat) : Nat × Int × Nat :=
  if n = 0 then (0, (r.bufferBits : Int), remainingBits r)
  else
    (((refillIfShort r (min n 32)).1.buffer &&& ((1 <<< min n 32) - 1)) % 2 ^ 32,
     ((refillIfShort r (min n 32)).1.bufferBits : Int) - (min n 32 : Nat),
     ((((refillIfShort r (min n 32)).1.bufferBits : Int) - (min n 32 : Nat) +
        (((refillIfShort r (min n 32)).1.data.length - (refillIfShort r (min n 32)).1.bytePos) * 8 : Nat)) % (2 ^ 64 : Int)).toNat)

-- tests of the transcription against the C code (harness lines)
example : (wrun (Writer.init 16) [.bits 0xFFFFF 20, .bits 0xFFFFF 20, .bits 0xFFFFFFFF 32, .flush]).out =
    [0xFF, 0xFF, 0xFF, 0xFF, 0xFF, 0xFF, 0xFF, 0xFF, 0xFF] := by decide +kernel
example : (rrun (Reader.init [0xFF, 0xFF, 0xFF, 0xFF, 0xFF, 0xFF, 0xFF, 0xFF, 0xFF]) [.bits 20, .bits 20, .bits 32]).1 =
    [.val 0xFFFFF, .val 0xFFFFF, .val 0xFFFFFFFF] := by decide +kernel
example : (rrun (Reader.init [0xB2, 0x01]) [.bit, .bit, .bits 4, .bits64 40, .remaining, .bit]).1 =
    [.bit 0, .bit 1, .val 0xC, .val 0x6, .rem 0, .bit (-1)] := by decide +kernel

end Carquet.Impl.BitIO
