import Carquet.Impl.ThriftParquet
/-
Model of the schema-node accessors of src/metadata/schema.c that no other component models
(carquet_schema_get_element, carquet_schema_node_logical_type / _max_def_level / _max_rep_level and,
for completeness, the other node accessors), of the builder calls WITH a logical type
(carquet_schema_add_column's `logical_type` argument, carquet_schema_add_group), and of the schema
part of carquet_writer_create + build_file_metadata (src/writer/file_writer.c).

Fidelity: exact.  A schema node is the `parquet_schema_element_t` itself (the accessors cast the
node pointer), modelled by `Impl.ThriftParquet.SchemaElement`: `has_x`/`x` pairs are `Option`s, a
member the C code reads without looking at its `has_` flag (`repetition_type`, `type`) is the
zero-filled value when absent (every producer of elements — the Thrift parser, the builder —
`memset`s the element first).  The `params` union of `carquet_logical_type_t` is the constructor's
arguments (see Impl/ThriftParquet.lean).  Allocation failure is C19's subject.
-/
namespace Carquet.Impl.SchemaApi
open Carquet.Impl.ThriftParquet

abbrev Bytes := List UInt8

/-- `carquet_schema_get_element(schema, index)`; `none` = NULL -/
def getElement (els : List SchemaElement) (index : Int) : Option SchemaElement :=
  if index < 0 ∨ index ≥ els.length then none else els[index.toNat]?

/-- `elem->repetition_type` as stored (0 = REQUIRED when the file does not state one) -/
def repetitionC (e : SchemaElement) : Int := e.repetition.getD 0

/-- `carquet_schema_node_logical_type`: `has_logical_type ? &logical_type : NULL` -/
def nodeLogicalType (e : SchemaElement) : Option LogicalType := e.logicalType

/-- `carquet_schema_node_max_def_level`: the node's OWN contribution, not the sum over its path -/
def nodeMaxDefLevel (e : SchemaElement) : Nat := if repetitionC e = 1 ∨ repetitionC e = 2 then 1 else 0

/-- `carquet_schema_node_max_rep_level`: the node's own contribution -/
def nodeMaxRepLevel (e : SchemaElement) : Nat := if repetitionC e = 2 then 1 else 0

def nodeName (e : SchemaElement) : Option Bytes := e.name
def nodeIsLeaf (e : SchemaElement) : Bool := e.type.isSome
def nodePhysicalType (e : SchemaElement) : Int := e.type.getD 0
def nodeRepetition (e : SchemaElement) : Int := repetitionC e
def nodeTypeLength (e : SchemaElement) : Int := e.typeLength

/-- `carquet_logical_type_id_t` of a logical type (the public numbering, not the Thrift member ids) -/
def logicalId : LogicalType → Nat
  | .unknown => 0 | .string => 1 | .map => 2 | .list => 3 | .enum => 4 | .decimal _ _ => 5 | .date => 6
  | .time _ _ => 7 | .timestamp _ _ => 8 | .integer _ _ => 9 | .null => 10 | .json => 11 | .bson => 12
  | .uuid => 13 | .float16 => 14

def unitCode : TimeUnit → Int
  | .millis => 0 | .micros => 1 | .nanos => 2

/-- the members of the `params` union that belong to the id, as a caller reads them:
DECIMAL (precision, scale), INTEGER (bit_width, is_signed), TIME / TIMESTAMP (unit, is_adjusted_to_utc) -/
def logicalParams : LogicalType → Int × Int
  | .decimal scale precision => (precision, scale)
  | .integer bw sg => (bw, if sg then 1 else 0)
  | .time utc u => (unitCode u, if utc then 1 else 0)
  | .timestamp utc u => (unitCode u, if utc then 1 else 0)
  | _ => (0, 0)

/-! ## the builder, with logical types -/

/-- one builder call -/
inductive Call where
  /-- `carquet_schema_add_column(schema, name, physical_type, logical_type, repetition, type_length)` -/
  | column (name : Bytes) (ptype : Int) (logical : Option LogicalType) (rep : Int) (typeLength : Int)
  /-- `carquet_schema_add_group(schema, name, repetition, parent)` with `parent ∈ {-1, 0}` -/
  | group (name : Bytes) (rep : Int)
  deriving DecidableEq, Repr

/-- `carquet_schema_t` of the builder: the element array and `leaf_indices` -/
structure Builder where
  elements : List SchemaElement
  leaves : List Nat
  deriving DecidableEq, Repr

def strBytes (s : String) : Bytes := s.toUTF8.toList

/-- `carquet_schema_create`: the root element "schema" -/
def Builder.create : Builder := ⟨[{ name := some (strBytes "schema"), numChildren := 0 }], []⟩

/-- `schema->elements[0].num_children++` -/
def bumpRoot : List SchemaElement → List SchemaElement
  | [] => []
  | root :: rest => { root with numChildren := root.numChildren + 1 } :: rest

/-- the element a call appends (`memset` to zero, then the members the call sets) -/
def Call.element : Call → SchemaElement
  | .column name ptype logical rep tl =>
    { name := some name, type := some ptype, repetition := some rep, typeLength := tl, logicalType := logical }
  | .group name rep => { name := some name, repetition := some rep }

/-- the `logical_type` argument of the call (`none` = NULL; groups take none) -/
def Call.logical : Call → Option LogicalType
  | .column _ _ l _ _ => l
  | .group _ _ => none

def Call.isColumn : Call → Bool
  | .column .. => true
  | .group .. => false

def Builder.add (b : Builder) (c : Call) : Builder :=
  ⟨bumpRoot b.elements ++ [c.element], if c.isColumn then b.leaves ++ [b.elements.length] else b.leaves⟩

def Builder.run (calls : List Call) : Builder := calls.foldl Builder.add Builder.create

/-! ## carquet_writer_create + build_file_metadata: the schema a written file carries -/

/-- `add_column_internal(writer, elem->name, elem->type, has_logical_type ? &logical_type : NULL,
elem->repetition_type, elem->type_length)` followed by the loop of `build_file_metadata`:
`has_logical_type` only when `logical_type.id != CARQUET_LOGICAL_UNKNOWN` -/
def writerElement (e : SchemaElement) : SchemaElement :=
  { name := e.name, type := some (nodePhysicalType e), repetition := some (repetitionC e), typeLength := e.typeLength,
    logicalType := match e.logicalType with
                   | some lt => if lt = .unknown then none else some lt
                   | none => none }

/-- root ("schema", `num_children = num_columns`, no repetition) + one element per LEAF of the builder
schema (groups added with add_group have no column and are not written) -/
def writerSchema (b : Builder) : List SchemaElement :=
  ({ name := some (strBytes "schema"), numChildren := b.leaves.length } : SchemaElement) ::
    b.leaves.filterMap (fun i => (b.elements[i]?).map writerElement)

end Carquet.Impl.SchemaApi
