/-
Model of src/encoding/byte_stream_split.c together with the scalar kernels it dispatches to
(`scalar_byte_split_{encode,decode}_{float,double}` in src/simd/dispatch.c).

The float/double entry points call `carquet_dispatch_byte_split_*`, which on an x86 host with
SSE4.2/AVX2/AVX-512 installs SIMD kernels.  This file models the **scalar fallback**; that the
installed kernel computes the same bytes is property C15 and is, for these entry points, also
observed by the correspondence harness (which runs whatever kernel the host dispatches to).

Fidelity: exact for the checks, the `size_t` product modulo 2^64, the index expressions
`b * count + i` / `i * K + b` and the loop nests.  Typed arrays are seen through their byte
images on the little-endian host (`values` = `count * K` bytes).  Reads go through `[·]?`: an
index outside the declared buffer makes the result `oob` (the C code would read or write outside
the buffer); the C08 theorems say when that cannot happen.
-/
namespace Carquet.Impl.Bss

inductive Status where
  | invalidArgument   -- CARQUET_ERROR_INVALID_ARGUMENT
  | encode            -- CARQUET_ERROR_ENCODE
  | decode            -- CARQUET_ERROR_DECODE
  deriving DecidableEq, Repr

inductive Res where
  | ok (bytes : List UInt8)
  | error (e : Status)
  | oob
  deriving DecidableEq, Repr

/-- `(size_t)count` for an `int64_t count` -/
def sizeT (count : Int) : Nat := (count % 2 ^ 64).toNat

/-- `(size_t)count * K` -/
def requiredSize (count : Int) (k : Nat) : Nat := (sizeT count * k) % 2 ^ 64

/-- `mapM` in `Option`, written out (a `for` loop whose iterations may fault). -/
def mapOpt {α β : Type} (f : α → Option β) : List α → Option (List β)
  | [] => some []
  | x :: xs =>
    match f x, mapOpt f xs with
    | some y, some ys => some (y :: ys)
    | _, _ => none

/-- `for (i < count) for (b < K) values[i*K + b] = data[b*count + i]` — the stores are consecutive,
so the result is listed in loop order.  (`carquet_byte_stream_split_decode`, and the scalar
float/double kernels with K = 4 / 8.) -/
def gather (k : Nat) (data : List UInt8) (count : Nat) : Option (List UInt8) :=
  match mapOpt (fun i => mapOpt (fun b => data[b * count + i]?) (List.range k)) (List.range count) with
  | some rows => some rows.flatten
  | none => none

/-- `for (b < K) for (i < count) output[b*count + i] = values[i*K + b]` — consecutive stores.
(`carquet_byte_stream_split_encode`.) -/
def scatterSeq (k : Nat) (values : List UInt8) (count : Nat) : Option (List UInt8) :=
  match mapOpt (fun b => mapOpt (fun i => values[i * k + b]?) (List.range count)) (List.range k) with
  | some rows => some rows.flatten
  | none => none

/-- One store `output[idx] = x`; `none` when `idx` is outside the buffer. -/
def store (out : List UInt8) (idx : Nat) (x : UInt8) : Option (List UInt8) :=
  if idx < out.length then some (out.set idx x) else none

/-- inner loop `for (b = b0; b < K; b++) output[b*count + i] = src[i*K + b]`, `fuel = K - b0` -/
def scatterRow (k : Nat) (src : List UInt8) (count i : Nat) : Nat → Nat → List UInt8 → Option (List UInt8)
  | 0, _, out => some out
  | fuel + 1, b, out =>
    match src[i * k + b]? with
    | none => none
    | some x =>
      match store out (b * count + i) x with
      | none => none
      | some out' => scatterRow k src count i fuel (b + 1) out'

/-- outer loop `for (i = i0; i < count; i++)`, `fuel = count - i0`
(`scalar_byte_split_encode_float/double`: the stores are *not* consecutive). -/
def scatterLoop (k : Nat) (src : List UInt8) (count : Nat) : Nat → Nat → List UInt8 → Option (List UInt8)
  | 0, _, out => some out
  | fuel + 1, i, out =>
    match scatterRow k src count i k 0 out with
    | none => none
    | some out' => scatterLoop k src count fuel (i + 1) out'

/-- `carquet_byte_stream_split_encode(values, count, type_length, output, capacity, &written)`.
`values` is the caller's array (`count * type_length` bytes); the result is the first
`bytes_written` bytes of `output`. -/
def encode (values : List UInt8) (count : Int) (typeLength : Int) (capacity : Nat) : Res :=
  if typeLength ≤ 0 then .error .invalidArgument
  else if capacity < requiredSize count typeLength.toNat then .error .encode
  else match scatterSeq typeLength.toNat values count.toNat with
    | some out => .ok out
    | none => .oob

/-- `carquet_byte_stream_split_decode(data, data_size, type_length, values, count)`; the result is
the byte image of `values`. -/
def decode (data : List UInt8) (typeLength : Int) (count : Int) : Res :=
  if typeLength ≤ 0 then .error .invalidArgument
  else if data.length < requiredSize count typeLength.toNat then .error .decode
  else match gather typeLength.toNat data count.toNat with
    | some vals => .ok vals
    | none => .oob

/-- `carquet_byte_stream_split_encode_float` with the scalar kernel; `out0` is the caller's output
buffer (`capacity` bytes of arbitrary content).  The result is the whole buffer after the call. -/
def encodeFloatBuf (values : List UInt8) (count : Int) (out0 : List UInt8) : Res :=
  if out0.length < requiredSize count 4 then .error .encode
  else match scatterLoop 4 values count.toNat count.toNat 0 out0 with
    | some out => .ok out
    | none => .oob

/-- `carquet_byte_stream_split_encode_double` with the scalar kernel. -/
def encodeDoubleBuf (values : List UInt8) (count : Int) (out0 : List UInt8) : Res :=
  if out0.length < requiredSize count 8 then .error .encode
  else match scatterLoop 8 values count.toNat count.toNat 0 out0 with
    | some out => .ok out
    | none => .oob

/-- `carquet_byte_stream_split_decode_float` with the scalar kernel (same loop nest as the generic
decoder, K = 4); byte image of the `float` array. -/
def decodeFloat (data : List UInt8) (count : Int) : Res :=
  if data.length < requiredSize count 4 then .error .decode
  else match gather 4 data count.toNat with
    | some vals => .ok vals
    | none => .oob

/-- `carquet_byte_stream_split_decode_double` with the scalar kernel. -/
def decodeDouble (data : List UInt8) (count : Int) : Res :=
  if data.length < requiredSize count 8 then .error .decode
  else match gather 8 data count.toNat with
    | some vals => .ok vals
    | none => .oob

end Carquet.Impl.Bss
