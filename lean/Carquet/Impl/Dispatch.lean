import Carquet.Gen.Dispatch
/-
Model of `carquet_simd_dispatch_init` (src/simd/dispatch.c): start from the scalar fallbacks, then
every x86 block whose `if (cpu->has_… && …)` condition holds under the reported capability mask
overrides the slots it lists, in source order.  The table, the conditions and the compile flags
are `Carquet.Gen.Dispatch` (re-extracted from the working tree on every run).
Capability masks are `Nat` bit sets over `Gen.Dispatch.features`.
Fidelity: exact (the dispatcher is this table).
-/
namespace Carquet.Impl.Dispatch
open Carquet.Gen.Dispatch

/-- `a ⊆ b` on bit sets -/
def subset (a b : Nat) : Bool := a &&& b == a

abbrev Block := String × Nat × List (Nat × Nat)

/-- the `if (cpu->has_a && cpu->has_b …)` test of a block under capability `mask` -/
def enabled (mask : Nat) (b : Block) : Bool := subset b.2.1 mask

/-- one `#ifdef … if (cond) { g_dispatch.slot = kernel; … }` block applied to the current content
of `slot`; `be.2` = whether the condition held -/
def stepE (slot cur : Nat) (be : Block × Bool) : Nat :=
  if be.2 then
    match be.1.2.2.lookup slot with
    | some k => k
    | none => cur
  else cur

/-- the kernel (id) in `slot` after initialisation, given which blocks' conditions held -/
def selectE (blocks : List Block) (init : List Nat) (en : List Bool) (slot : Nat) : Option Nat :=
  match init[slot]? with
  | some k0 => some ((blocks.zip en).foldl (stepE slot) k0)
  | none => none

/-- the kernel (id) that `slot` holds after initialisation under capability `mask` -/
def selectIn (blocks : List Block) (init : List Nat) (mask slot : Nat) : Option Nat :=
  selectE blocks init (blocks.map (enabled mask)) slot

def select (mask slot : Nat) : Option Nat := selectIn blocks scalarInit mask slot

/-- the features a kernel needs: the `-m` flags its translation unit is compiled with -/
def requiredFeaturesIn (req : List Nat) (k : Nat) : Option Nat := req[k]?
def requiredFeatures (k : Nat) : Option Nat := requiredFeaturesIn kernelReq k

/-- the kernel selected for `slot` under `mask` needs only features in `mask` -/
def soundIn (blocks : List Block) (init req : List Nat) (mask slot : Nat) : Bool :=
  match selectIn blocks init mask slot with
  | some k =>
    match requiredFeaturesIn req k with
    | some r => subset r mask
    | none => false
  | none => false

def sound (mask slot : Nat) : Bool := soundIn blocks scalarInit kernelReq mask slot

/-- the static check behind soundness: every scalar fallback needs nothing, and every kernel a
block installs needs only features the block's own condition tests -/
def reqWithin (req : List Nat) (k c : Nat) : Bool :=
  match req[k]? with
  | some r => subset r c
  | none => false

def tableOK (blocks : List Block) (init req : List Nat) : Bool :=
  init.all (fun k => reqWithin req k 0) &&
  blocks.all (fun b => b.2.2.all (fun sk => reqWithin req sk.2 b.2.1))

/-- rank of the instruction set of the kernel in `slot` -/
def rankE (en : List Bool) (slot : Nat) : Option Nat :=
  (selectE blocks scalarInit en slot).bind fun k => kernelRank[k]?

/-- highest rank among the enabled blocks that list `slot` (0 = none, scalar) -/
def bestRankE (en : List Bool) (slot : Nat) : Nat :=
  ((blocks.zip en).zip blockRank).foldl
    (fun best ber => if ber.1.2 && (ber.1.1.2.2.lookup slot).isSome then max best ber.2 else best) 0

def selectedRank (mask slot : Nat) : Option Nat := rankE (blocks.map (enabled mask)) slot
def bestEnabledRank (mask slot : Nat) : Nat := bestRankE (blocks.map (enabled mask)) slot

/-- all Boolean vectors of length `n` -/
def allBools : Nat → List (List Bool)
  | 0 => [[]]
  | n + 1 => (allBools n).flatMap fun l => [false :: l, true :: l]

/-! ### the pinned tree's table (before F16 / FS2), kept for the regression theorems.
Feature bits: sse2 0, sse41 1, sse42 2, avx 3, avx2 4, avx512f 5, avx512bw 6, avx512vl 7,
avx512vbmi 8, bmi2 9 (compile flag only: `carquet_cpu_info_t` has no such field). -/

def blocksPreFix : List Block :=
  [("sse", 4, [(0, 19), (1, 20), (2, 21), (3, 22), (4, 23), (5, 24), (6, 25), (7, 26), (8, 27), (9, 28), (10, 29), (11, 30), (13, 31), (14, 32), (15, 33), (16, 34), (17, 35), (18, 36), (12, 37)]),
   ("avx2", 16, [(0, 38), (1, 39), (2, 40), (3, 41), (4, 42), (5, 43), (6, 44), (7, 45), (10, 46), (11, 47), (12, 48)]),
   ("avx512", 32, [(0, 49), (1, 50), (2, 51), (3, 52), (4, 53), (5, 54), (6, 55), (7, 56), (10, 57), (11, 58), (12, 59)])]

def scalarInitPreFix : List Nat := List.range 19

/-- sse_ops.c: -msse4.2; avx2_ops.c: -mavx2 -mbmi2; avx512_ops.c: -mavx512f -mavx512bw -mavx512vl -/
def kernelReqPreFix : List Nat :=
  List.replicate 19 0 ++ List.replicate 19 4 ++ List.replicate 11 528 ++ List.replicate 11 224

def soundPreFix (mask slot : Nat) : Bool := soundIn blocksPreFix scalarInitPreFix kernelReqPreFix mask slot

end Carquet.Impl.Dispatch
