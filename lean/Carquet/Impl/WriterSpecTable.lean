import Carquet.Impl.WriterHistory
import Carquet.Spec.File.Types
/-
The table a write history denotes, as the independent reader's `Spec.File.Table`: the schema
tree carquet's writer stands for (root "schema" + one leaf per column) and, per row group and
column, the entries `(repetition level, definition level, value)` (repetition level 0 throughout for
REQUIRED / OPTIONAL columns).

This is the table of the C05 statement `Spec.File.read (file written) = ok (specTableOf cols ops)`
(Properties/C05/SpecWriter.lean) and of the driver's run-time check of the same statement
(Driver/Ops/FileSpec.lean, op `wrspec`).  It is defined from the history alone (`tableOf`), for
flat REQUIRED / OPTIONAL / REPEATED columns.
-/
namespace Carquet.Impl.Writer
open Carquet.Spec

def specPType : PType → Order.PType
  | .boolean => .boolean | .int32 => .int32 | .int64 => .int64 | .int96 => .int96
  | .float => .float | .double => .double | .byteArray => .byteArray | .flba => .flba

def specRep : Rep → Schema.Rep
  | .required => .required | .optional => .optional | .repeated => .repeated

def specUnit : ThriftParquet.TimeUnit → Schema.AnnotTimeUnit
  | .millis => .millis | .micros => .micros | .nanos => .nanos

/-- a `carquet_logical_type_t` in the terms of parquet.thrift's LogicalType union: id UNKNOWN (0) is
"no logical type"; `CARQUET_LOGICAL_NULL` is the union's member 11 (NullType) -/
def specLogical : ThriftParquet.LogicalType → Option Schema.Annotation
  | .unknown => none
  | .string => some .string | .map => some .map | .list => some .list | .enum => some .enum
  | .decimal s p => some (.decimal s p)
  | .date => some .date
  | .time utc u => some (.time utc (specUnit u))
  | .timestamp utc u => some (.timestamp utc (specUnit u))
  | .integer bw sg => some (.integer bw sg)
  | .null => some .nullType | .json => some .json | .bson => some .bson | .uuid => some .uuid
  | .float16 => some .float16

/-- the logical type a column was created with, as the file must state it: a NULL `logical_type`
pointer and id UNKNOWN both mean "none" -/
def specLogicalOf (c : Col) : Option Schema.Annotation := c.logical.bind specLogical

/-- the schema element of a column: name, repetition, physical type, type_length as given, no converted
type, and the logical type the column was created with -/
def specLeafNode (c : Col) : Schema.Node :=
  .leaf ⟨c.name, some (specRep c.rep), some c.ptype.code, (c.typeLen : Int), none, specLogicalOf c⟩

/-- the schema tree of a written file: a root group named "schema" without repetition -/
def specSchemaOf (cols : List Col) : Schema.Node :=
  .group ⟨"schema", none, none, 0, none, none⟩ (cols.map specLeafNode)

/-- entries of a flat column from its definition levels and dense values: an entry carries the
next value exactly when its level is the maximum -/
def specEntries (maxDef : Nat) : List Nat → List Val → List File.Entry
  | [], _ => []
  | d :: ds, vs =>
    if d = maxDef then
      match vs with
      | v :: vs' => ⟨0, d, some v⟩ :: specEntries maxDef ds vs'
      | [] => ⟨0, d, none⟩ :: specEntries maxDef ds []
    else ⟨0, d, none⟩ :: specEntries maxDef ds vs

/-- entries of a column from its repetition levels, definition levels and dense values: an entry
carries the next value exactly when its definition level is the maximum (`specEntries` with the
repetition levels of the history instead of 0) -/
def specEntriesR (maxDef : Nat) : List Nat → List Nat → List Val → List File.Entry
  | r :: rs, d :: ds, vs =>
    if d = maxDef then
      match vs with
      | v :: vs' => ⟨r, d, some v⟩ :: specEntriesR maxDef rs ds vs'
      | [] => ⟨r, d, none⟩ :: specEntriesR maxDef rs ds []
    else ⟨r, d, none⟩ :: specEntriesR maxDef rs ds vs
  | _, _, _ => []

/-- the definition levels of a column's content (a REQUIRED column has level 0 on every row) -/
def specDefs (c : Col) (d : ColData) : List Nat :=
  if c.maxDef = 0 then List.replicate d.rows 0 else d.defs

/-- the repetition levels of a column's content (a non-repeated column has level 0 on every row) -/
def specReps (c : Col) (d : ColData) : List Nat :=
  if c.maxRep = 0 then List.replicate d.rows 0 else d.reps

/-- one column chunk of the table: REQUIRED / OPTIONAL columns have repetition level 0 throughout
(`specEntries`); a REPEATED column carries the repetition levels the history handed to
`write_batch` (0 for every entry of a batch written with a NULL rep_levels pointer) -/
def specChunkOf (c : Col) (d : ColData) : File.Chunk := specEntriesR c.maxDef (specReps c d) (specDefs c d) d.vals

def specRowGroupsOf (cols : List Col) (ops : List Op) : List File.RowGroup :=
  (tableOf cols ops).map (fun g => ⟨List.zipWith specChunkOf cols g⟩)

/-- **the table a history denotes**, in the independent reader's terms -/
def specTableOf (cols : List Col) (ops : List Op) : File.Table :=
  ⟨specSchemaOf cols, specRowGroupsOf cols ops⟩

end Carquet.Impl.Writer
