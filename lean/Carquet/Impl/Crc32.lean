import Carquet.Spec.Crc32
/-
Model of src/util/crc32.c (x86 path): lazily built tables `crc32_tables[8][256]`,
slicing-by-8 main loop over two little-endian 32-bit loads, byte-at-a-time tail.
Fidelity: exact (same table recurrence, same loop split, same index expressions).
-/
namespace Carquet.Impl.Crc32

/-- `CRC32_POLY`; compared with the value extracted from the source in `Gen/Constants`. -/
def poly : BitVec 32 := 0xEDB88320#32

/-- inner `for j < 8` of `crc32_init_tables`: one iteration. -/
def tblStep (crc : BitVec 32) : BitVec 32 :=
  if crc &&& 1#32 = 1#32 then (crc >>> 1) ^^^ poly else crc >>> 1

/-- `crc32_tables[0][i]` -/
def table0 (i : Nat) : BitVec 32 :=
  tblStep (tblStep (tblStep (tblStep (tblStep (tblStep (tblStep (tblStep (BitVec.ofNat 32 i))))))))

/-- `crc32_tables[k][i]`, by the recurrence the C code uses:
`t[k][i] = (t[k-1][i] >> 8) ^ t[0][t[k-1][i] & 0xFF]`. -/
def table : Nat → Nat → BitVec 32
  | 0, i => table0 i
  | k + 1, i => (table k i >>> 8) ^^^ table0 ((table k i &&& 0xFF#32).toNat)

/-- little-endian 32-bit load (`memcpy(&one, data, 4)` on the little-endian host). -/
def le32 (b0 b1 b2 b3 : UInt8) : BitVec 32 :=
  b0.toBitVec.setWidth 32 ||| (b1.toBitVec.setWidth 32 <<< 8) |||
  (b2.toBitVec.setWidth 32 <<< 16) ||| (b3.toBitVec.setWidth 32 <<< 24)

def idx (x : BitVec 32) (sh : Nat) : Nat := ((x >>> sh) &&& 0xFF#32).toNat

/-- body of `while (length >= 8)` -/
def slice8 (crc : BitVec 32) (b0 b1 b2 b3 b4 b5 b6 b7 : UInt8) : BitVec 32 :=
  let one := le32 b0 b1 b2 b3 ^^^ crc
  let two := le32 b4 b5 b6 b7
  table 7 (idx one 0) ^^^ table 6 (idx one 8) ^^^ table 5 (idx one 16) ^^^ table 4 (idx one 24) ^^^
  table 3 (idx two 0) ^^^ table 2 (idx two 8) ^^^ table 1 (idx two 16) ^^^ table 0 (idx two 24)

/-- body of `while (length--)` -/
def tailStep (crc : BitVec 32) (b : UInt8) : BitVec 32 :=
  table 0 (((crc ^^^ b.toBitVec.setWidth 32) &&& 0xFF#32).toNat) ^^^ (crc >>> 8)

/-- both loops of `crc32_slicing_by_8`, on the already inverted register. -/
def loop : BitVec 32 → List UInt8 → BitVec 32
  | crc, b0 :: b1 :: b2 :: b3 :: b4 :: b5 :: b6 :: b7 :: rest =>
      loop (slice8 crc b0 b1 b2 b3 b4 b5 b6 b7) rest
  | crc, short => short.foldl tailStep crc

/-- `crc32_slicing_by_8(crc, data, length)` -/
def slicingBy8 (crc : BitVec 32) (data : List UInt8) : BitVec 32 :=
  ~~~ (loop (~~~ crc) data)

/-- `carquet_crc32` -/
def crc32 (data : List UInt8) : BitVec 32 := slicingBy8 0#32 data

/-- `carquet_crc32_update` -/
def update (crc : BitVec 32) (data : List UInt8) : BitVec 32 := slicingBy8 crc data

end Carquet.Impl.Crc32
