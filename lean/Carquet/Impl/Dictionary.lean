import Carquet.Gen.Dict
import Carquet.Impl.Plain
/-
Model of src/encoding/dictionary.c.

Builder (`dict_builder_init/add`, static in the C file): a chained hash table of fixed size
(`num_buckets`, FNV-1a), the growing dictionary page (`dict_buffer`) and the index assigned to
every input value (`indices`).  Fidelity: exact — same bucket choice, same chain order (new
entries at the head), same comparison (`size` and `memcmp`, i.e. equality of byte strings), same
truncation of the entry count to `uint32_t`.  `dict_buffer` is kept as the list of appended
records (its bytes are `dictBytes`); allocation failures are not modelled (C19).

The five `carquet_dictionary_encode_*` functions feed the builder with the little-endian image of
each value, copy `dict_buffer` to the dictionary page, and write `bit width byte + RLE hybrid`.
The RLE hybrid codec (src/encoding/rle.c) is **a parameter** here (`idxEnc`/`idxDec`): it is
modelled and verified separately.

The four standalone decoders `carquet_dictionary_decode_{int32,int64,float,double}` are modelled
with their checks in order.  `decodeFixed` is the **repaired** code (fix F7: the index is compared
as an unsigned number); `decodeFixedPreFix` is the pinned code, which compares
`(int32_t)indices[i] >= dict_count`.
-/
namespace Carquet.Impl.Dictionary
open Carquet.Impl.Plain (memU32 memU64 load32s load64s)

/-! ### builder -/

/-- `dict_hash`: 32-bit FNV-1a (`h ^= byte; h *= prime`), constants as extracted from the source. -/
def dictHash (data : List UInt8) : UInt32 :=
  data.foldl (fun h b => (h ^^^ b.toUInt32) * UInt32.ofNat Gen.dictHashPrime) (UInt32.ofNat Gen.dictHashOffset)

/-- `dict_entry_t` without the chain pointer: the chain is the list. -/
structure Entry where
  data : List UInt8
  index : Nat
  deriving DecidableEq, Repr

/-- `dict_builder_t`.  `entriesRev`: the values appended to `dict_buffer`, newest first;
`indicesRev`: `indices[0..indices_count)`, newest first. -/
structure Builder where
  buckets : Array (List Entry)
  count : Nat
  entriesRev : List (List UInt8)
  indicesRev : List Nat
  isVar : Bool

/-- `dict_builder_init(builder, value_size, is_variable_length)` with `num_buckets = nb`. -/
def init (nb : Nat) (isVar : Bool) : Builder :=
  { buckets := Array.replicate nb [], count := 0, entriesRev := [], indicesRev := [], isVar := isVar }

/-- The chain walk: first entry with `entry->size == value_size && memcmp(...) == 0`. -/
def findEntry (value : List UInt8) : List Entry → Option Entry
  | [] => none
  | e :: rest => if e.data = value then some e else findEntry value rest

/-- `dict_builder_add(builder, value, value_size)` for a hash function `hash` (the C code uses
`dict_hash`; the theorems hold for any). -/
def add (hash : List UInt8 → Nat) (b : Builder) (value : List UInt8) : Builder :=
  match findEntry value (b.buckets.getD (hash value % b.buckets.size) []) with
  | some e => { b with indicesRev := e.index :: b.indicesRev }
  | none =>
    { buckets := b.buckets.modify (hash value % b.buckets.size)
        (fun chain => { data := value, index := b.count % 2 ^ 32 } :: chain)
      count := b.count + 1
      entriesRev := value :: b.entriesRev
      indicesRev := (b.count % 2 ^ 32) :: b.indicesRev
      isVar := b.isVar }

/-- The `for (i < count) dict_builder_add(...)` loop of the encode functions. -/
def build (hash : List UInt8 → Nat) (nb : Nat) (isVar : Bool) (values : List (List UInt8)) : Builder :=
  values.foldl (add hash) (init nb isVar)

/-- The dictionary entries in order of insertion. -/
def Builder.entries (b : Builder) : List (List UInt8) := b.entriesRev.reverse

/-- `builder.indices[0..count)` -/
def Builder.indices (b : Builder) : List Nat := b.indicesRev.reverse

/-- One record of `dict_buffer`: `u32 length` prefix for variable-length values, then the bytes. -/
def record (isVar : Bool) (value : List UInt8) : List UInt8 :=
  (if isVar then memU32 (UInt32.ofNat value.length) else []) ++ value

/-- Content of `dict_buffer`. -/
def Builder.dictBytes (b : Builder) : List UInt8 := b.entries.flatMap (record b.isVar)

/-! ### bit width -/

/-- `while (count > 0) { width++; count >>= 1; }` on a `uint32_t` (at most 32 iterations). -/
def widthLoop : Nat → Nat → Nat → Nat
  | 0, _, w => w
  | fuel + 1, c, w => if c > 0 then widthLoop fuel (c / 2) (w + 1) else w

/-- `bit_width_for_count((uint32_t)builder.count)` -/
def bitWidthForCount (count : Nat) : Nat :=
  if count % 2 ^ 32 = 0 then 0
  else if widthLoop 32 (count % 2 ^ 32 - 1) 0 > 0 then widthLoop 32 (count % 2 ^ 32 - 1) 0
  else 1

/-! ### encoders -/

/-- What an encode call appends to `dict_output` and `indices_output`, plus the assigned indices
(which the C code hands to `carquet_rle_encode_all`). -/
structure Encoded where
  dictPage : List UInt8
  bitWidth : Nat
  indices : List Nat
  indexStream : List UInt8
  deriving DecidableEq, Repr

/-- Common tail of the five encode functions.  `idxEnc w idxs` = bytes appended by
`carquet_rle_encode_all(indices, count, w, out)`. -/
def finish (idxEnc : Nat → List Nat → List UInt8) (b : Builder) : Encoded :=
  { dictPage := b.dictBytes
    bitWidth := bitWidthForCount b.count
    indices := b.indices
    indexStream := UInt8.ofNat (bitWidthForCount b.count) :: idxEnc (bitWidthForCount b.count) b.indices }

/-- `dict_hash` as a bucket selector -/
def hashNat (v : List UInt8) : Nat := (dictHash v).toNat

/-- `carquet_dictionary_encode_int32` (and `_float` on bit patterns) -/
def encode32 (idxEnc : Nat → List Nat → List UInt8) (vs : List UInt32) : Encoded :=
  finish idxEnc (build hashNat Gen.dictNumBuckets false (vs.map memU32))

/-- `carquet_dictionary_encode_int64` (and `_double` on bit patterns) -/
def encode64 (idxEnc : Nat → List Nat → List UInt8) (vs : List UInt64) : Encoded :=
  finish idxEnc (build hashNat Gen.dictNumBuckets false (vs.map memU64))

/-- `carquet_dictionary_encode_byte_array` -/
def encodeByteArray (idxEnc : Nat → List Nat → List UInt8) (vs : List (List UInt8)) : Encoded :=
  finish idxEnc (build hashNat Gen.dictNumBuckets true vs)

/-! ### standalone index decoders -/

/-- `ok`: CARQUET_OK with the values written to `output`; `error`: CARQUET_ERROR_DECODE;
`oob off`: the C code reads `dict_data + off` outside `[dict_data, dict_data + dict_size)`. -/
inductive Res (α : Type) where
  | ok (vals : List α)
  | error
  | oob (offset : Nat)
  deriving DecidableEq, Repr

/-- The `sz` bytes at `dict_data + off`, if inside the dictionary. -/
def readAt (dict : List UInt8) (off sz : Nat) : Option (List UInt8) :=
  if off + sz ≤ dict.length then some ((dict.drop off).take sz) else none

/-- `(int32_t)indices[i]` -/
def asInt32 (idx : Nat) : Int := if idx < 2 ^ 31 then (idx : Int) else (idx : Int) - 2 ^ 32

/-- The look-up loop after fix F7: `if (indices[i] >= (uint32_t)dict_count) return DECODE;` then
`output[i] = read_le(dict_data + indices[i] * sz)`.  Indices are `uint32_t` values. -/
def lookupLoop (sz : Nat) (dict : List UInt8) (dictCount : Int) : List Nat → Res (List UInt8)
  | [] => .ok []
  | idx :: rest =>
    if (idx : Int) ≥ dictCount then .error
    else match readAt dict (idx * sz) sz with
      | none => .oob (idx * sz)
      | some v =>
        match lookupLoop sz dict dictCount rest with
        | .ok vs => .ok (v :: vs)
        | r => r

/-- The look-up loop of the pinned code: `if ((int32_t)indices[i] >= dict_count)`. -/
def lookupLoopPreFix (sz : Nat) (dict : List UInt8) (dictCount : Int) : List Nat → Res (List UInt8)
  | [] => .ok []
  | idx :: rest =>
    if asInt32 idx ≥ dictCount then .error
    else match readAt dict (idx * sz) sz with
      | none => .oob (idx * sz)
      | some v =>
        match lookupLoopPreFix sz dict dictCount rest with
        | .ok vs => .ok (v :: vs)
        | r => r

/-- Body shared by `carquet_dictionary_decode_{int32,int64,float,double}` (`sz` = `sizeof(T)`),
parameterised by the look-up loop.  `idxDec w bytes max` = `carquet_rle_decode_all(bytes, w,
indices, max)`: `none` for a negative return value, otherwise the `decoded ≤ max` values stored.
Every value is the `sz`-byte little-endian image read from the dictionary. -/
def decodeWith (loop : List UInt8 → Int → List Nat → Res (List UInt8))
    (idxDec : Nat → List UInt8 → Nat → Option (List Nat))
    (dict : List UInt8) (sz : Nat) (dictCount : Int) (indices : List UInt8) (outCount : Int) :
    Res (List UInt8) :=
  if outCount ≤ 0 then .ok []
  else if dictCount ≤ 0 then .error
  else if dict.length < dictCount.toNat * sz then .error
  else match indices with
    | [] => .error
    | bw :: stream =>
      match idxDec bw.toNat stream outCount.toNat with
      | none => .error
      | some idxs =>
        if idxs.length < outCount.toNat then .error
        else loop dict dictCount idxs

/-- Repaired decoders (fix F7). -/
def decodeFixed (sz : Nat) := decodeWith (lookupLoop sz) (sz := sz)

/-- Pinned decoders. -/
def decodeFixedPreFix (sz : Nat) := decodeWith (lookupLoopPreFix sz) (sz := sz)

/-- Reinterpret the decoded images as typed values. -/
def Res.map {α β : Type} (f : List α → List β) : Res α → Res β
  | .ok vs => .ok (f vs)
  | .error => .error
  | .oob o => .oob o

/-- `carquet_dictionary_decode_int32` / `_float` (bit patterns) -/
def decode32 (idxDec : Nat → List UInt8 → Nat → Option (List Nat))
    (dict : List UInt8) (dictCount : Int) (indices : List UInt8) (outCount : Int) : Res UInt32 :=
  (decodeFixed 4 idxDec dict dictCount indices outCount).map (fun vs => load32s vs.flatten)

/-- `carquet_dictionary_decode_int64` / `_double` (bit patterns) -/
def decode64 (idxDec : Nat → List UInt8 → Nat → Option (List Nat))
    (dict : List UInt8) (dictCount : Int) (indices : List UInt8) (outCount : Int) : Res UInt64 :=
  (decodeFixed 8 idxDec dict dictCount indices outCount).map (fun vs => load64s vs.flatten)

end Carquet.Impl.Dictionary
