/-
Model of src/compression/snappy.c (carquet's hand-written Snappy block codec).

Fidelity: exact for the control flow, the order of checks, the error classes, the emitted
bytes and the match finder (hash, 16-bit truncated table entries, candidate test, extension,
extra insert).  Integer types: positions/lengths are `Nat` (C: `size_t`/pointers on a 64-bit
host; nothing wraps for buffers that exist), except where truncation is visible:
  * `uint16_t` table entries            → `% 65536`
  * `uint32_t` hash arithmetic          → `% 2^32`
  * `(uint32_t)src_size` in the preamble → `% 2^32`
  * `uint32_t` accumulation in the varint reader (pre-fix only) → `% 2^32`
  * `(uint8_t)` casts when bytes are stored → `UInt8.ofNat`
Shifts/masks of small values are written arithmetically (`t >> 2` = `t / 4`, `t & 3` = `t % 4`,
`a | b` of values with disjoint bits = `a + b`).

Memory accesses of the decompressor go through checked primitives (`rd`, `rdRange`, `rdDst`,
`wr`, `wrRange`) that compare against the *real* buffer sizes (`src_size`, `dst_capacity`) and
yield a model-only outcome `oobRead / oobDst / oobWrite` when the C code would touch memory
outside them (undefined behaviour in C; an ASan abort in the harness).  C08 is the theorem that
the repaired decompressor never reaches such an outcome.

Three repairs are modelled (patches in fixes/): F6 (bounds check before the COPY_1 offset
byte), F25 (input remaining after the output is complete is rejected), F25b (a fifth preamble
byte with bits beyond 2^32 is rejected).  `Fixes` selects them; `decompress` is the repaired
code, `decompressPreFix` the code as pinned.
-/
namespace Carquet.Impl.Snappy

/-- Outcomes other than success.  The first three are carquet status classes; the rest are
model-only (what the C code would do is undefined / cannot happen). -/
inductive Err where
  | invalidArgument          -- CARQUET_ERROR_INVALID_ARGUMENT (NULL pointers; not generated)
  | compression              -- CARQUET_ERROR_COMPRESSION (destination smaller than the bound)
  | invalidData              -- CARQUET_ERROR_INVALID_COMPRESSED_DATA
  | oobRead (i : Nat)        -- read of src[i] with i ≥ src_size
  | oobDst (i : Nat)         -- read of dst[i] at or beyond the bytes written so far
  | oobWrite (i : Nat)       -- write of dst[i] with i ≥ dst_capacity
  | fuel                     -- loop fuel exhausted (proved unreachable)
  deriving DecidableEq, Repr

deriving instance DecidableEq for Except

/-- Which repairs are applied. -/
structure Fixes where
  f6 : Bool
  f25 : Bool
  f25b : Bool
  deriving DecidableEq, Repr

def Fixes.all : Fixes := ⟨true, true, true⟩
def Fixes.none : Fixes := ⟨false, false, false⟩

/-! ## Constants (`#define`s; compared with the translated values in Properties/C09/Snappy) -/

def hashLog : Nat := 14          -- SNAPPY_HASH_LOG
def hashSize : Nat := 16384      -- SNAPPY_HASH_SIZE = 1 << 14
def maxOffset : Nat := 32768     -- SNAPPY_MAX_OFFSET = 1 << 15
def hashMul : Nat := 0x1e35a7bd  -- multiplier in snappy_hash

/-! ## Varint -/

/-- `snappy_write_varint(p, value)` for a `uint32_t value`: `k` = continuation bytes still
possible (4 for a 32-bit value). -/
def writeVarint : Nat → Nat → List UInt8
  | 0, v => [UInt8.ofNat v]
  | k + 1, v =>
    if 128 ≤ v then UInt8.ofNat (v % 128 + 128) :: writeVarint k (v / 128)
    else [UInt8.ofNat v]

/-- loop of `snappy_read_varint`: `k` bytes may still be read, `p` index, `shift`, `value`.
Result: value and index after the varint; `none` = the C function returns 0. -/
def readVarintLoop (fx : Fixes) (src : Array UInt8) : Nat → Nat → Nat → Nat → Option (Nat × Nat)
  | 0, _, _, _ => none           -- not reached: the `shift >= 32` return comes first
  | k + 1, p, shift, value =>
    if h : p < src.size then
      if fx.f25b && shift == 28 && src[p].toNat > 15 then none     -- F25b: does not fit 32 bits
      else if src[p].toNat < 128 then
        some ((value + (src[p].toNat % 128 * 2 ^ shift) % 2 ^ 32) % 2 ^ 32, p + 1)
      else if shift + 7 ≥ 32 then none                              -- "Overflow"
      else readVarintLoop fx src k (p + 1) (shift + 7)
             ((value + (src[p].toNat % 128 * 2 ^ shift) % 2 ^ 32) % 2 ^ 32)
    else none                                                       -- "Truncated"

/-- `snappy_read_varint(src, src + src_size, &value)` -/
def readVarint (fx : Fixes) (src : Array UInt8) : Option (Nat × Nat) :=
  readVarintLoop fx src 5 0 0 0

/-! ## Decompression -/

/-- `src[i]` -/
def rd (src : Array UInt8) (i : Nat) : Except Err UInt8 :=
  if h : i < src.size then .ok src[i] else .error (.oobRead i)

/-- bytes `src[i .. i+len)` (source of a `memcpy`) -/
def rdRange (src : Array UInt8) (i len : Nat) : Except Err (Array UInt8) :=
  if i + len ≤ src.size then .ok (src.extract i (i + len)) else .error (.oobRead (i + len - 1))

/-- `dst[i]` where `out` holds the bytes written so far -/
def rdDst (out : Array UInt8) (i : Nat) : Except Err UInt8 :=
  if h : i < out.size then .ok out[i] else .error (.oobDst i)

/-- `*op++ = b` into a buffer of `cap` bytes -/
def wr (cap : Nat) (out : Array UInt8) (b : UInt8) : Except Err (Array UInt8) :=
  if out.size < cap then .ok (out.push b) else .error (.oobWrite out.size)

/-- destination of a `memcpy(op, …, data.size)` -/
def wrRange (cap : Nat) (out data : Array UInt8) : Except Err (Array UInt8) :=
  if out.size + data.size ≤ cap then .ok (out ++ data) else .error (.oobWrite (out.size + data.size - 1))

/-- `len = 1; for (i < extra) len += (size_t)ip[i] << (8*i)` without the leading 1:
little-endian value of `src[ip .. ip+k)`. -/
def leRead (src : Array UInt8) : Nat → Nat → Except Err Nat
  | _, 0 => .ok 0
  | ip, k + 1 =>
    match rd src ip with
    | .error e => .error e
    | .ok b =>
      match leRead src (ip + 1) k with
      | .error e => .error e
      | .ok v => .ok (b.toNat + 256 * v)

/-- the literal's bounds check and `memcpy(op, ip, len); ip += len; op += len` -/
def literalCopy (src : Array UInt8) (olen cap ip len : Nat) (out : Array UInt8) :
    Except Err (Nat × Array UInt8) :=
  if ip + len > src.size ∨ out.size + len > olen then .error .invalidData
  else
    match rdRange src ip len with
    | .error e => .error e
    | .ok data =>
      match wrRange cap out data with
      | .error e => .error e
      | .ok out' => .ok (ip + len, out')

/-- `type == SNAPPY_LITERAL` branch; `t` is the tag byte, `ip` already past it. -/
def literalStep (src : Array UInt8) (olen cap t ip : Nat) (out : Array UInt8) :
    Except Err (Nat × Array UInt8) :=
  if t / 4 + 1 > 60 then
    if ip + (t / 4 + 1 - 60) > src.size then .error .invalidData
    else
      match leRead src ip (t / 4 + 1 - 60) with
      | .error e => .error e
      | .ok v => literalCopy src olen cap (ip + (t / 4 + 1 - 60)) (1 + v) out
  else literalCopy src olen cap ip (t / 4 + 1) out

/-- `ref = op - offset; while (len-- > 0) *op++ = *ref++;`
(the `memcpy` variant taken when `offset >= len` copies non-overlapping ranges and is the
same function). -/
def copyLoop (cap off : Nat) : Nat → Array UInt8 → Except Err (Array UInt8)
  | 0, out => .ok out
  | n + 1, out =>
    match rdDst out (out.size - off) with
    | .error e => .error e
    | .ok b =>
      match wr cap out b with
      | .error e => .error e
      | .ok out' => copyLoop cap off n out'

/-- common tail of the three copy branches once offset and length are known -/
def copyStep (olen cap off len ip : Nat) (out : Array UInt8) : Except Err (Nat × Array UInt8) :=
  if off = 0 ∨ off > out.size then .error .invalidData
  else if out.size + len > olen then .error .invalidData
  else
    match copyLoop cap off len out with
    | .error e => .error e
    | .ok out' => .ok (ip, out')

/-- `type == SNAPPY_COPY_1`; pinned code reads `*ip++` unconditionally (F6). -/
def copy1Step (fx : Fixes) (src : Array UInt8) (olen cap t ip : Nat) (out : Array UInt8) :
    Except Err (Nat × Array UInt8) :=
  if fx.f6 && ip + 1 > src.size then .error .invalidData
  else
    match rd src ip with
    | .error e => .error e
    | .ok b => copyStep olen cap (t / 32 * 256 + b.toNat) (t / 4 % 8 + 4) (ip + 1) out

/-- `type == SNAPPY_COPY_2` -/
def copy2Step (src : Array UInt8) (olen cap t ip : Nat) (out : Array UInt8) :
    Except Err (Nat × Array UInt8) :=
  if ip + 2 > src.size then .error .invalidData
  else
    match rd src ip, rd src (ip + 1) with
    | .ok b0, .ok b1 => copyStep olen cap (b0.toNat + 256 * b1.toNat) (t / 4 % 64 + 1) (ip + 2) out
    | .error e, _ => .error e
    | _, .error e => .error e

/-- `type == SNAPPY_COPY_4` -/
def copy4Step (src : Array UInt8) (olen cap t ip : Nat) (out : Array UInt8) :
    Except Err (Nat × Array UInt8) :=
  if ip + 4 > src.size then .error .invalidData
  else
    match rd src ip, rd src (ip + 1), rd src (ip + 2), rd src (ip + 3) with
    | .ok b0, .ok b1, .ok b2, .ok b3 =>
      copyStep olen cap (b0.toNat + 256 * b1.toNat + 65536 * b2.toNat + 16777216 * b3.toNat)
        (t / 4 % 64 + 1) (ip + 4) out
    | .error e, _, _, _ => .error e
    | _, .error e, _, _ => .error e
    | _, _, .error e, _ => .error e
    | _, _, _, .error e => .error e

/-- one iteration of the element loop after `tag = *ip++` -/
def step (fx : Fixes) (src : Array UInt8) (olen cap : Nat) (tag : UInt8) (ip : Nat)
    (out : Array UInt8) : Except Err (Nat × Array UInt8) :=
  if tag.toNat % 4 = 0 then literalStep src olen cap tag.toNat ip out
  else if tag.toNat % 4 = 1 then copy1Step fx src olen cap tag.toNat ip out
  else if tag.toNat % 4 = 2 then copy2Step src olen cap tag.toNat ip out
  else copy4Step src olen cap tag.toNat ip out

/-- `while (ip < iend && op < oend)`; returns the final `ip` and output. -/
def loop (fx : Fixes) (src : Array UInt8) (olen cap : Nat) :
    Nat → Nat → Array UInt8 → Except Err (Nat × Array UInt8)
  | 0, _, _ => .error .fuel
  | fuel + 1, ip, out =>
    if h : ip < src.size ∧ out.size < olen then
      match step fx src olen cap src[ip] (ip + 1) out with
      | .error e => .error e
      | .ok (ip', out') => loop fx src olen cap fuel ip' out'
    else .ok (ip, out)

/-- `carquet_snappy_decompress(src, src_size, dst, dst_capacity, &dst_size)` with non-NULL
arguments; `.ok out` = `CARQUET_OK`, `*dst_size = out.size`, `dst[0..out.size) = out`. -/
def decompressWith (fx : Fixes) (src : Array UInt8) (cap : Nat) : Except Err (Array UInt8) :=
  match readVarint fx src with
  | none => .error .invalidData
  | some (olen, ip) =>
    if olen > cap then .error .invalidData
    else
      match loop fx src olen cap (src.size + 1) ip #[] with
      | .error e => .error e
      | .ok (ip', out) =>
        if out.size ≠ olen ∨ (fx.f25 = true ∧ ip' ≠ src.size) then .error .invalidData
        else .ok out

/-- the repaired decompressor -/
def decompress (bs : List UInt8) (cap : Nat) : Except Err (List UInt8) :=
  match decompressWith Fixes.all bs.toArray cap with
  | .ok out => .ok out.toList
  | .error e => .error e

/-- the decompressor of the pinned tree -/
def decompressPreFix (bs : List UInt8) (cap : Nat) : Except Err (List UInt8) :=
  match decompressWith Fixes.none bs.toArray cap with
  | .ok out => .ok out.toList
  | .error e => .error e

/-! ## Compression -/

/-- `snappy_read32(src + i)` on the little-endian host -/
def read32 (src : Array UInt8) (i : Nat) (h : i + 3 < src.size) : Nat :=
  src[i].toNat + 256 * src[i + 1].toNat + 65536 * src[i + 2].toNat + 16777216 * src[i + 3].toNat

/-- `snappy_hash(val)`: `(val * 0x1e35a7bd) >> (32 - 14)` in `uint32_t` -/
def hashIdx (v : Nat) : Fin 16384 := ⟨v * 0x1e35a7bd % 2 ^ 32 / 2 ^ 18, by omega⟩

/-- `uint16_t hash_table[SNAPPY_HASH_SIZE]`; entries kept as numbers < 65536 -/
abbrev Table := Vector Nat 16384

/-- `hash_table[snappy_hash(snappy_read32(src+i))] = (uint16_t)i` -/
def tblIns (src : Array UInt8) (tbl : Table) (i : Nat) (h : i + 3 < src.size) : Table :=
  tbl.set (hashIdx (read32 src i h)) (i % 65536)

/-- `hash_table[snappy_hash(snappy_read32(ip))]` (the candidate position `ref - src`) -/
def cand (src : Array UInt8) (tbl : Table) (ip : Nat) (h : ip + 3 < src.size) : Nat :=
  tbl.get (hashIdx (read32 src ip h))

/-- negation of `ip <= ref || ip - ref > SNAPPY_MAX_OFFSET || read32(ref) != read32(ip)` -/
def isMatch (src : Array UInt8) (ref ip : Nat) (h : ip + 3 < src.size) : Bool :=
  if h1 : ref < ip then
    decide (ip - ref ≤ 32768) && decide (read32 src ref (by omega) = read32 src ip h)
  else false

/-- `while (ip < iend && *ip == *ref) { ip++; ref++; }` with `ref = ip - off`; returns `ip`. -/
def extend (src : Array UInt8) (off ip : Nat) : Nat :=
  if h : ip < src.size then
    if src[ip] = src[ip - off] then extend src off (ip + 1) else ip
  else ip
termination_by src.size - ip

theorem le_extend (src : Array UInt8) (off ip : Nat) : ip ≤ extend src off ip := by
  fun_induction extend src off ip with
  | case1 ip h heq ih => exact Nat.le_trans (Nat.le_succ ip) ih
  | case2 => exact Nat.le_refl _
  | case3 => exact Nat.le_refl _

/-- What the match finder decides: a literal `src[start .. start+len)` or a copy. -/
inductive Op where
  | literal (start len : Nat)
  | copy (off len : Nat)
  deriving DecidableEq, Repr

/-- "Emit pending literal" -/
def pushLit (acc : Array Op) (anchor ip : Nat) : Array Op :=
  if anchor < ip then acc.push (.literal anchor (ip - anchor)) else acc

/-- the extra insert after a match: `if (ip < ilimit) hash_table[hash(read32(ip-1))] = ip-1` -/
def tblAfter (src : Array UInt8) (tbl : Table) (e : Nat) (he : 1 ≤ e) : Table :=
  if h : e + 15 < src.size then tblIns src tbl (e - 1) (by omega) else tbl

/-- `while (ip < ilimit) { … }` followed by "Emit final literal"; `ilimit = iend - 15`.
`acc` collects the emitted operations in order. -/
def mainLoop (src : Array UInt8) (tbl : Table) (ip anchor : Nat) (acc : Array Op) : Array Op :=
  if h : ip + 15 < src.size then
    if isMatch src (cand src tbl ip (by omega)) ip (by omega) then
      mainLoop src
        (tblAfter src (tblIns src tbl ip (by omega))
          (extend src (ip - cand src tbl ip (by omega)) (ip + 4))
          (Nat.le_trans (Nat.le_add_left 1 (ip + 3)) (le_extend _ _ _)))
        (extend src (ip - cand src tbl ip (by omega)) (ip + 4))
        (extend src (ip - cand src tbl ip (by omega)) (ip + 4))
        ((pushLit acc anchor ip).push
          (.copy (ip - cand src tbl ip (by omega))
                 (extend src (ip - cand src tbl ip (by omega)) (ip + 4) - ip)))
    else mainLoop src (tblIns src tbl ip (by omega)) (ip + 1) anchor acc
  else pushLit acc anchor src.size
termination_by src.size - ip
decreasing_by
  · have := le_extend src (ip - cand src tbl ip (by omega)) (ip + 4)
    omega
  · omega

/-- The operations `carquet_snappy_compress` emits for `src`, in order. -/
def ops (src : Array UInt8) : Array Op :=
  if src.size = 0 then #[]
  else if src.size < 15 then #[.literal 0 src.size]
  else mainLoop src (Vector.replicate 16384 0) 0 0 #[]

/-- header bytes of `snappy_emit_literal` -/
def literalHeader (len : Nat) : List UInt8 :=
  if len ≤ 60 then [UInt8.ofNat ((len - 1) * 4)]
  else if len ≤ 256 then [UInt8.ofNat (60 * 4), UInt8.ofNat (len - 1)]
  else if len ≤ 65536 then
    [UInt8.ofNat (61 * 4), UInt8.ofNat ((len - 1) % 256), UInt8.ofNat ((len - 1) / 256)]
  else if len ≤ 16777216 then
    [UInt8.ofNat (62 * 4), UInt8.ofNat ((len - 1) % 256), UInt8.ofNat ((len - 1) / 256 % 256),
     UInt8.ofNat ((len - 1) / 65536 % 256)]
  else
    [UInt8.ofNat (63 * 4), UInt8.ofNat ((len - 1) % 256), UInt8.ofNat ((len - 1) / 256 % 256),
     UInt8.ofNat ((len - 1) / 65536 % 256), UInt8.ofNat ((len - 1) / 16777216 % 256)]

/-- a COPY_2 element: `((len-1) << 2) | 2`, `offset & 0xFF`, `(uint8_t)(offset >> 8)` -/
def copy2Bytes (off len : Nat) : List UInt8 :=
  [UInt8.ofNat ((len - 1) * 4 + 2), UInt8.ofNat (off % 256), UInt8.ofNat (off / 256)]

/-- a COPY_1 element: `((offset >> 8) << 5) | ((len-4) << 2) | 1`, `offset & 0xFF` -/
def copy1Bytes (off len : Nat) : List UInt8 :=
  [UInt8.ofNat (off / 256 * 32 + (len - 4) * 4 + 1), UInt8.ofNat (off % 256)]

/-- last `if` of `snappy_emit_copy` -/
def copyTail (off len : Nat) : List UInt8 :=
  if 12 ≤ len ∨ 2048 ≤ off then copy2Bytes off len else copy1Bytes off len

/-- `snappy_emit_copy(op, offset, len)` -/
def copyBytes (off len : Nat) : List UInt8 :=
  if 68 ≤ len then copy2Bytes off 64 ++ copyBytes off (len - 64)
  else if 64 < len then copy2Bytes off 60 ++ copyTail off (len - 60)
  else copyTail off len
termination_by len

/-- bytes written for one operation -/
def opBytes (src : Array UInt8) : Op → List UInt8
  | .literal start len => literalHeader len ++ (src.extract start (start + len)).toList
  | .copy off len => copyBytes off len

def serialize (src : Array UInt8) (l : List Op) : List UInt8 :=
  l.flatMap (opBytes src)

/-- `carquet_snappy_compress_bound` -/
def compressBound (n : Nat) : Nat := 32 + n + n / 6

/-- everything `carquet_snappy_compress` writes when the capacity check passes -/
def compressBytes (src : Array UInt8) : List UInt8 :=
  writeVarint 4 (src.size % 2 ^ 32) ++ serialize src (ops src).toList

/-- `carquet_snappy_compress(src, src_size, dst, dst_capacity, &dst_size)` with non-NULL
arguments: `.ok bytes` = `CARQUET_OK`, `*dst_size = bytes.length`. -/
def compressCap (x : List UInt8) (cap : Nat) : Except Err (List UInt8) :=
  if cap < compressBound x.length then .error .compression
  else .ok (compressBytes x.toArray)

/-- compression into a buffer of exactly the advertised bound -/
def compress (x : List UInt8) : List UInt8 := compressBytes x.toArray

end Carquet.Impl.Snappy
